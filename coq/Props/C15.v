(* Props/C15.v — property-level statements for C15 (the index integer width never affects values).
   Only statements, each closed by [exact] of a lemma of Proofs/IdxWidthP.v, with Print Assumptions.

   Reading guide.  Model/IdxWidth.v re-states every coordinate computation the code performs in the
   stored dtype over typed arrays (Lib/MachInt.v); the arithmetic and the guards are the definitions
   GENERATED from /repo (Gen/S_idxwidth.v).  [DInt t] is the run in the w-bit type t (std t: one of
   the eight types), [DInf] the reference run in which nothing overflows or wraps.  A theorem
   [width_irrelevant_<op>] says: for every type that can hold the operand's shape, the coordinates
   computed in that type equal the reference ones — or the call raises ValueError (the guards).
   Where the code as it stands violates this, the full statement is kept as a comment, a
   [..._refuted] theorem exhibits a witness and [..._partial] proves the statement under the
   exact extra clause. *)
From Coq Require Import ZArith List Bool.
From Verif Require Import Py MachInt S_idxwidth IdxWidth IdxWidthP.
Import ListNotations.
Open Scope Z_scope.

(* ---- _utils.can_store / get_out_dtype *)
Theorem can_store_spec : forall t z,
  can_store (DInt t) z = true <-> in_range_w (bits t) (sg t) z.
Proof. exact can_store_spec_proof. Qed.
Print Assumptions can_store_spec.

Theorem get_out_dtype_spec : forall t z,
  std t -> 0 <= z < 2 ^ 64 ->
  exists t', get_out_dtype (DInt t) z = Ok (DInt t') /\ std t' /\ fits (DInt t') z = true /\
             (can_store (DInt t) z = true -> t' = t).
Proof. exact get_out_dtype_spec_proof. Qed.
Print Assumptions get_out_dtype_spec.

(* ---- COO(..., idx_dtype=ti): the coordinates are kept, or ValueError *)
Theorem width_irrelevant_ctor : forall ti t mshape n c,
  std ti -> std t -> can_store (DInt t) mshape = true -> 0 <= n <= mshape -> coords_in n c ->
  rmap tv (m_ctor (Some (DInt ti)) mshape (mkT (DInt t) c)) = Ok c
  \/ m_ctor (Some (DInt ti)) mshape (mkT (DInt t) c) = Raise ValueError.
Proof. exact width_irrelevant_ctor_proof. Qed.
Print Assumptions width_irrelevant_ctor.

(* ---- concatenate: offsets added after the can_store upcast never wrap (extent of the result
        beyond the operands' type included) *)
Theorem width_irrelevant_concatenate : forall t mo xs,
  concat_pre t mo xs ->
  rmap tv (m_concat (DInt t) mo xs) = rmap tv (m_concat DInf mo xs).
Proof. exact width_irrelevant_concat_proof. Qed.
Print Assumptions width_irrelevant_concatenate.

(* ---- flip: shape - 1 - coords *)
Theorem width_irrelevant_flip : forall t n c,
  std t -> can_store (DInt t) n = true -> 1 <= n -> coords_in n c ->
  rmap tv (m_flip (DInt t) n c) = rmap tv (m_flip DInf n c).
Proof. exact width_irrelevant_flip_proof. Qed.
Print Assumptions width_irrelevant_flip.

(* ---- roll (guard of commit 1a526b4): full statement, scalar shift and tuple of shifts *)
Theorem width_irrelevant_roll : forall t n sh c,
  std t -> can_store (DInt t) n = true -> 0 < n -> coords_in n c ->
  rmap tv (m_roll (DInt t) n sh c) = rmap tv (m_roll DInf n sh c)
  \/ m_roll (DInt t) n sh c = Raise ValueError.
Proof. exact width_irrelevant_roll_proof. Qed.
Print Assumptions width_irrelevant_roll.

Theorem width_irrelevant_roll_tuple : forall t rows,
  std t -> rows_ok t rows ->
  rmap (map tv) (m_roll_tuple (DInt t) rows) = rmap (map tv) (m_roll_tuple DInf rows)
  \/ m_roll_tuple (DInt t) rows = Raise ValueError.
Proof. exact width_irrelevant_roll_tuple_proof. Qed.
Print Assumptions width_irrelevant_roll_tuple.

(* ---- getitem, one sliced axis of extent n (D6 repaired by 0a2ad47: full statement, every index type,
        every step sign and magnitude).  Two cases, as in the code: the identity shortcut (the entry is
        the full slice (0, n, 1): the operand is returned, coordinates and dtype untouched) and the
        coordinate map (coords.astype(intp) - start) // step (result coordinates are intp) *)
Theorem width_irrelevant_getitem : forall t n start stop step c,
  rmap tv (m_getitem (DInt t) n start stop step c) = rmap tv (m_getitem DInf n start stop step c) /\
  (s_getitem_identity n start stop step = true ->
     m_getitem (DInt t) n start stop step c = Ok (mkT (DInt t) c)) /\
  (s_getitem_identity n start stop step = false ->
     m_getitem (DInt t) n start stop step c = m_getitem DInf n start stop step c).
Proof. exact width_irrelevant_getitem_proof. Qed.
Print Assumptions width_irrelevant_getitem.

Theorem getitem_exact : forall d n start stop step c,
  norm_slice n start step -> coords_in n c -> n < 2 ^ 63 -> - 2 ^ 63 <= step < 2 ^ 63 ->
  rmap tv (m_getitem d n start stop step c) =
  Ok (map (fun x => (x - start) / step) (filter (sel_mask start stop step) c)).
Proof. exact getitem_exact_proof. Qed.
Print Assumptions getitem_exact.

(* ---- reshape: the dtype re-choice holds every new coordinate *)
Theorem width_irrelevant_reshape : forall t lin shape,
  std t -> Forall (fun d => 0 < d) shape -> zmax shape < 2 ^ 64 ->
  rmap (map tv) (m_reshape (DInt t) lin shape) = rmap (map tv) (m_reshape DInf lin shape).
Proof. exact width_irrelevant_reshape_proof. Qed.
Print Assumptions width_irrelevant_reshape.

(* ---- reductions: _calc_counts_invidx + reduceat (D2 repaired by 5f3fb78: full statement) *)
Theorem width_irrelevant_reduce : forall t g x,
  m_grouped_sum (DInt t) g x = m_grouped_sum DInf g x /\
  m_counts_invidx (DInt t) g = m_counts_invidx DInf g.
Proof. exact width_irrelevant_reduce_proof. Qed.
Print Assumptions width_irrelevant_reduce.

Theorem counts_invidx_exact : forall t g,
  Z.of_nat (length g) < 2 ^ 63 ->
  tv (fst (m_counts_invidx (DInt t) g)) = starts g /\
  Forall (fun a => 0 <= a < Z.of_nat (length g)) (starts g).
Proof. exact counts_invidx_exact_proof. Qed.
Print Assumptions counts_invidx_exact.

(* ---- triu / tril: coords[-2].astype(int64) + k <= coords[-1].astype(int64) (repaired by 972d3f2:
        full statement, any k) *)
Theorem width_irrelevant_triu_tril : forall t r c k,
  m_triu (DInt t) r c k = m_triu DInf r c k /\ m_tril (DInt t) r c k = m_tril DInf r c k.
Proof. exact width_irrelevant_triu_tril_proof. Qed.
Print Assumptions width_irrelevant_triu_tril.

Theorem triu_tril_exact : forall d nr nc r c k,
  coords_in nr r -> coords_in nc c -> nr < 2 ^ 62 -> nc < 2 ^ 63 -> - 2 ^ 62 <= k <= 2 ^ 62 ->
  m_triu d r c k = Ok (map (fun p => fst p + k <=? snd p) (combine r c)) /\
  m_tril d r c k = Ok (map (fun p => fst p + k >=? snd p) (combine r c)).
Proof. exact triu_tril_exact_proof. Qed.
Print Assumptions triu_tril_exact.

(* ---- kron / pad / stack: arithmetic promoted with intp operands.
   Full statements are FALSE for uint64 (promotion to float64): promoted_ops_refuted. *)
Theorem width_irrelevant_kron_partial : forall t na a bs b,
  std t -> not_u64 t = true -> coords_in na a -> coords_in bs b -> 0 <= bs -> na * bs < 2 ^ 63 ->
  rmap tv (m_kron (DInt t) a bs b) = rmap tv (m_kron DInf a bs b).
Proof. exact width_irrelevant_kron_proof. Qed.
Print Assumptions width_irrelevant_kron_partial.

Theorem width_irrelevant_pad_partial : forall t n c p,
  std t -> not_u64 t = true -> coords_in n c -> 0 <= p -> n + p < 2 ^ 63 ->
  rmap tv (m_pad (DInt t) c p) = rmap tv (m_pad DInf c p).
Proof. exact width_irrelevant_pad_proof. Qed.
Print Assumptions width_irrelevant_pad_partial.

Theorem stack_dtype_spec : forall t axis0,
  std t -> (not_u64 t = true -> m_stack (DInt t) axis0 = Ok (DInt i64)) /\
           (not_u64 t = false -> m_stack (DInt t) axis0 = if axis0 then Ok DFloat else Raise TypeError).
Proof. exact stack_dtype_proof. Qed.
Print Assumptions stack_dtype_spec.

Theorem width_irrelevant_promoted_refuted :
  exists t, std t /\
    m_pad (DInt t) [1] 1 = Raise TypeError /\ m_pad DInf [1] 1 = Ok (mkT DInf [2]) /\
    m_kron (DInt t) [1] 3 [2] = Raise TypeError /\ m_stack (DInt t) true = Ok DFloat /\
    m_stack (DInt t) false = Raise TypeError.
Proof. exact promoted_ops_refuted_proof. Qed.
Print Assumptions width_irrelevant_promoted_refuted.

(* ---- GCXS: _from_coo's idx_dtype choice (shape and nnz), index digits *)
Theorem from_coo_dtype_spec : forall idx t m,
  std t -> 0 <= m < 2 ^ 64 ->
  match idx with Some (DInt ti) => std ti | Some _ => False | None => True end ->
  (exists t', m_from_coo_dtype idx (DInt t) m = Ok (DInt t') /\ std t' /\ fits (DInt t') m = true)
  \/ m_from_coo_dtype idx (DInt t) m = Raise ValueError.
Proof. exact from_coo_dtype_proof. Qed.
Print Assumptions from_coo_dtype_spec.

Theorem width_irrelevant_from_coo_digits : forall t m lin stride dim,
  std t -> fits (DInt t) m = true -> 0 < dim <= m ->
  tv (s_from_coo_digit (DInt t) lin stride dim) = tv (s_from_coo_digit DInf lin stride dim).
Proof. exact from_coo_digits_proof. Qed.
Print Assumptions width_irrelevant_from_coo_digits.

Theorem width_irrelevant_from_coo : forall idx t rows cols lin,
  std t -> match idx with Some (DInt ti) => std ti | Some _ => False | None => True end ->
  0 < rows -> 0 < cols -> Z.max (Z.max rows cols) (Z.of_nat (length lin)) < 2 ^ 64 ->
  rmap (fun p => (tv (fst p), tv (snd p))) (m_from_coo idx (DInt t) rows cols lin) =
  rmap (fun p => (tv (fst p), tv (snd p))) (m_from_coo None DInf rows cols lin)
  \/ m_from_coo idx (DInt t) rows cols lin = Raise ValueError.
Proof. exact width_irrelevant_from_coo_proof. Qed.
Print Assumptions width_irrelevant_from_coo.

(* ---- GCXS concatenate / stack: index-pointer splice after the can_store upcast for
        needed = max(total nnz, joined row count)  (36b3bc9) *)
Theorem width_irrelevant_gcxs_join : forall t ptrs,
  std t -> Forall ptr_ok ptrs ->
  jneeded (zsum (map snd ptrs)) (joined_len ptrs) < 2 ^ 64 ->
  rmap tv (m_gcxs_join (DInt t) ptrs) = rmap tv (m_gcxs_join DInf ptrs).
Proof. exact width_irrelevant_gcxs_join_proof. Qed.
Print Assumptions width_irrelevant_gcxs_join.

(* ... and the row numbers that uncompress_dimension writes in the joined indptr's dtype never wrap:
   full statement for every join result (finding gcxs_rows_exceed_indptr_dtype repaired) *)
Theorem width_irrelevant_gcxs_join_uncompress : forall t ptrs a,
  std t -> Forall ptr_ok ptrs ->
  jneeded (zsum (map snd ptrs)) (joined_len ptrs) < 2 ^ 64 ->
  m_gcxs_join (DInt t) ptrs = Ok a ->
  tv (m_uncompress (tdt a) (tv a)) = tv (m_uncompress DInf (tv a)).
Proof. exact gcxs_join_uncompress_proof. Qed.
Print Assumptions width_irrelevant_gcxs_join_uncompress.

(* ---- uncompress_dimension on an arbitrary index pointer: the kernel does not check that the row
   count fits indptr's dtype.  Producers: joins (proved above), _from_coo / _transpose (dtype chosen
   to hold the compressed shape), but also a user-supplied indptr (outside the property's
   quantifier: that type cannot hold the operand's shape) and GCXS fancy indexing with repeated
   rows (indptr allocated in the operand's dtype — reported as a new finding).  Hence the general
   statement keeps its hypothesis, and the refutation shows it is needed. *)
Theorem width_irrelevant_uncompress_partial : forall t indptr,
  std t -> uncompress_clause t indptr = true ->
  tv (m_uncompress (DInt t) indptr) = tv (m_uncompress DInf indptr).
Proof. exact width_irrelevant_uncompress_partial_proof. Qed.
Print Assumptions width_irrelevant_uncompress_partial.

Theorem uncompress_unchecked_refuted :
  exists t indptr,
    std t /\ Forall (fun v => fits (DInt t) v = true) indptr /\
    tv (m_uncompress (DInt t) indptr) <> tv (m_uncompress DInf indptr).
Proof. exact uncompress_refuted_proof. Qed.
Print Assumptions uncompress_unchecked_refuted.

(* ---- GCXS change_compressed_axes / transpose / reshape (convert._transpose): the dtype chosen by
        get_out_dtype(x.indices, max(max(new_compressed_shape), x.nnz)) — the expression is regenerated
        from the source — is used for the new indices AND the new indptr; every index (< R, < C) and
        every indptr entry (<= nnz) fits it, for every dtype of x.indices, also when nnz alone exceeds
        that dtype (the state GCXS joins of narrow-index members produce) *)
Theorem width_irrelevant_transpose : forall t R C rc cc,
  std t -> 0 < R -> 0 < C -> coords_in R rc -> coords_in C cc ->
  Z.max (Z.max R C) (Z.of_nat (length rc)) < 2 ^ 64 ->
  exists t',
    rmap (fun p => (tdt (fst p), tdt (snd p))) (m_transpose (DInt t) R C rc cc) = Ok (DInt t', DInt t') /\
    std t' /\
    fits (DInt t') (Z.of_nat (length rc)) = true /\
    rmap (fun p => (tv (fst p), tv (snd p))) (m_transpose (DInt t) R C rc cc) =
    rmap (fun p => (tv (fst p), tv (snd p))) (m_transpose DInf R C rc cc).
Proof. exact width_irrelevant_transpose_proof. Qed.
Print Assumptions width_irrelevant_transpose.

(* ---- COO.__init__ canonicalisation (_sort_indices, _sum_duplicates): "already sorted?" and "adjacent
        duplicate?" are decided by np.diff of linear_loc()'s result.  Its dtype is regenerated from the return
        statements of linear_loc (s_linear_loc_dtype: intp for every stored dtype and every ndim), so the
        tests are exact for every index type — with a stored unsigned dtype np.diff would wrap and never
        report a descent *)
Theorem sortedness_test_exact : forall t ndim lin,
  lin_ok lin ->
  m_sorted_test (DInt t) ndim lin = m_sorted_test DInf ndim lin /\
  m_sorted_test (DInt t) ndim lin = forallb (fun p => fst p <=? snd p) (combine lin (tl lin)) /\
  m_dup_mask (DInt t) ndim lin = map (fun p => negb (fst p =? snd p)) (combine lin (tl lin)).
Proof. exact sortedness_test_exact_proof. Qed.
Print Assumptions sortedness_test_exact.

Theorem width_irrelevant_canonicalisation : forall t ndim ps,
  m_canon (DInt t) ndim ps = m_canon DInf ndim ps.
Proof. exact width_irrelevant_canon_proof. Qed.
Print Assumptions width_irrelevant_canonicalisation.

(* ---- _dot (COO @ COO): the CSR row pointers built from the operands count stored elements in the generated
        s_dot_indptr_dtype (intp): exact for every coordinate dtype, also when nnz exceeds that dtype *)
Theorem width_irrelevant_dot_indptr : forall t rows rc,
  Z.of_nat (length rc) < 2 ^ 63 ->
  m_dot_indptr (DInt t) rows rc = m_dot_indptr DInf rows rc /\
  tv (m_dot_indptr (DInt t) rows rc) = 0 :: cumsum_from 0 (map (fun r => count_eq r rc) (zrange rows)).
Proof. exact width_irrelevant_dot_indptr_proof. Qed.
Print Assumptions width_irrelevant_dot_indptr.

(* ---- COO.__init__: an array without stored elements always carries intp coordinates (generated
        s_ctor_empty_dtype), whatever empty coordinate array was supplied (tensordot's zero-size shortcut
        supplies uintp): joining it with ordinary arrays never promotes the coordinates to float64 *)
Theorem ctor_empty_coords_intp : forall d axis0,
  m_ctor_empty_dtype d = DInt i64 /\
  m_stack (m_ctor_empty_dtype d) axis0 = Ok (DInt i64) /\
  promote (m_ctor_empty_dtype d) (DInt i64) = DInt i64.
Proof. exact ctor_empty_coords_intp_proof. Qed.
Print Assumptions ctor_empty_coords_intp.

(* ---- diagonal: the Numba kernel _diagonal_idx decides membership by the regenerated condition
        (coordlist[axis1][i] + offset == coordlist[axis2][i]); under Numba's promotion (Lib/MachInt.v
        nb_promote, validated against Numba on every run) the sum is an int64, so the test is exact for every index type and every sign of the offset — a difference of
        two unsigned coordinates would not be *)
Theorem diagonal_test_exact : forall t n1 a1 a2 offset,
  std t -> coords_in n1 a1 -> n1 < 2 ^ 62 -> - 2 ^ 62 <= offset <= 2 ^ 62 ->
  m_diagonal_mask (DInt t) a1 a2 offset = map (fun p => fst p + offset =? snd p) (combine a1 a2) /\
  m_diagonal_mask (DInt t) a1 a2 offset = m_diagonal_mask DInf a1 a2 offset.
Proof. exact diagonal_test_exact_proof. Qed.
Print Assumptions diagonal_test_exact.

(* ---- GCXS._reduce_calc: the row numbers of the re-compressed array are made in that array's own indptr
        dtype (regenerated: s_gcxs_reduce_rows; repaired by 2e026b4 — the operand's dtype may be too narrow),
        which convert._transpose chose to hold the row count: exact for every index type *)
Theorem gcxs_reduce_rows_exact : forall t d_self R C nnz,
  std t -> 0 < R -> 0 < C -> 0 <= nnz -> Z.max (Z.max R C) nnz < 2 ^ 64 ->
  rmap tv (m_gcxs_reduce_rows (DInt t) d_self R C nnz) = Ok (zrange_ R) /\
  rmap tv (m_gcxs_reduce_rows (DInt t) d_self R C nnz) = rmap tv (m_gcxs_reduce_rows DInf DInf R C nnz).
Proof. exact gcxs_reduce_rows_exact_proof. Qed.
Print Assumptions gcxs_reduce_rows_exact.

(* ---- broadcasting (broadcast_to, element-wise operands with a length-1 or missing axis): the positions
        along the grown axis are written into an array of the regenerated dtype s_expanded_coords_dtype
        (intp), so they are exact for every coordinate dtype of the operand, also when the new extent
        exceeds that dtype *)
Theorem broadcast_positions_exact : forall t n,
  n < 2 ^ 63 ->
  tv (m_broadcast_positions (DInt t) n) = zrange_ n /\
  m_broadcast_positions (DInt t) n = m_broadcast_positions DInf n.
Proof. exact broadcast_positions_exact_proof. Qed.
Print Assumptions broadcast_positions_exact.
