(* Props/C07.v — property-level statements for C07 (fill values are never silently wrong; densification is
   never implicit).  Only statements, each closed by [exact] of a lemma of Proofs/FillRulesP.v, with Print
   Assumptions beneath.  Gen/S_fill.v (the call-site table `sites` and the s_* fragments) is regenerated from
   /repo on every run; Model/FillRules.v holds the required policy per operation. *)
From Coq Require Import ZArith List Bool String.
From Verif Require Import Py PyExt PyFill S_fill FillRules FillRulesP.
From Verif Require Shape COO.
Import ListNotations.
Open Scope Z_scope.
Open Scope string_scope.

(* ---- the guards (generated loop bodies) *)

(* check_zero_fill_value raises ValueError as soon as one operand's fill is not bitwise zero.
   `equivalent` is strict: the token of -0.0 differs from 0, so -0.0 is REJECTED (see guard_zero_rejects_negzero) —
   the guard errs towards raising, which the property permits. *)
Theorem guard_zero_sound :
  forall args, Forall is_operand args -> (exists a, In a args /\ fill_nonzero a) ->
    check_zero_fill_value args = Raise ValueError.
Proof. exact guard_zero_sound_proof. Qed.
Print Assumptions guard_zero_sound.

Theorem guard_zero_passes :
  forall args, (forall a, In a args -> fill_zero_or_dense a) -> check_zero_fill_value args = Ok VNone.
Proof. exact guard_zero_passes_proof. Qed.
Print Assumptions guard_zero_passes.

Theorem guard_zero_rejects_negzero : check_zero_fill_value [VInt NEGZERO] = Raise ValueError.
Proof. exact guard_zero_rejects_negzero_proof. Qed.
Print Assumptions guard_zero_rejects_negzero.

(* the loose comparison of check_fill_value (scipy export) accepts -0.0: the exported matrix then has +0.0 where
   the array has -0.0 — numerically equal *)
Theorem check_fill_value_accepts_negzero : check_fill_value (VInt NEGZERO) VNone = Ok VNone.
Proof. exact check_fill_value_accepts_negzero_proof. Qed.
Print Assumptions check_fill_value_accepts_negzero.

(* check_consistent_fill_value raises ValueError when two arrays have different fills ... *)
Theorem guard_consistent_sound :
  forall zs a b, In a zs -> In b zs -> a <> b -> check_consistent_fill_value (map VInt zs) = Raise ValueError.
Proof. exact guard_consistent_sound_ints. Qed.
Print Assumptions guard_consistent_sound.

(* ... and passes when they all agree *)
Theorem guard_consistent_passes :
  forall h zs, (forall z, In z zs -> z = h) -> check_consistent_fill_value (map VInt (h :: zs)) = Ok VNone.
Proof. exact guard_consistent_passes_ints. Qed.
Print Assumptions guard_consistent_passes.

(* ---- what the per-row check buys, for an arbitrary row (abstract operation semantics) *)
Theorem site_ok_sound : forall table pol s, site_ok table pol s = true -> site_sound table pol s.
Proof. exact site_ok_sound_proof. Qed.
Print Assumptions site_ok_sound.

(* ---- why a position-moving operation must pass the operand's fill: given the structural facts of C02/C05/C08/C09
   (stored part right; unstored result positions come from unstored operand positions) the result is right at EVERY
   position when the fill is passed, and passing it is necessary as soon as one result position is unstored.
   Polymorphic in the value type: covers every dtype and the fills NaN / +-inf / -0.0 as tokens. *)
Theorem preserves_fill_right :
  forall (V : Type) (x r : COO.coo V) (src : Shape.idx -> Shape.idx),
    stored_right x r src -> unstored_from_unstored x r src -> COO.c_fill r = COO.c_fill x ->
    forall i, COO.den r i = COO.den x (src i).
Proof. exact preserves_fill_right_proof. Qed.
Print Assumptions preserves_fill_right.

Theorem preserves_fill_necessary :
  forall (V : Type) (x r : COO.coo V) (src : Shape.idx -> Shape.idx),
    unstored_from_unstored x r src ->
    (exists i, COO.lookup (COO.entries r) i = None) ->
    (forall i, COO.den r i = COO.den x (src i)) -> COO.c_fill r = COO.c_fill x.
Proof. exact preserves_fill_necessary_proof. Qed.
Print Assumptions preserves_fill_necessary.

(* ---- the generated table: every operation of the source has the guards / fill passing that its required policy needs.
   (Until fix 7b39a89 this failed for `diagonal` (D5) and `diagonalize` (D14); Proofs/FillRulesP.v keeps the old
   `diagonal` row as an example of a row that fails.) *)
Theorem policy_respected : forallb (site_ok_req sites) sites = true.
Proof. exact policy_respected_proof. Qed.
Print Assumptions policy_respected.

(* every generated row has a required policy; no required policy names a vanished operation *)
Theorem policy_total :
  forallb (fun s => match policy_of (s_op s) with Some _ => true | None => false end) sites = true.
Proof. exact policy_total_proof. Qed.
Print Assumptions policy_total.

Theorem policy_no_stale :
  forallb (fun kp => match find_site sites (fst kp) with Some _ => true | None => false end) required = true.
Proof. exact policy_no_stale_proof. Qed.
Print Assumptions policy_no_stale.

(* ---- densification only on request *)

(* SparseArray.__array__ raises RuntimeError iff AUTO_DENSIFY is off; otherwise it is todense() *)
Theorem array_coercion_rule :
  forall auto self,
    (array_coerce auto self = Raise RuntimeError <-> auto = false)
    /\ (auto = true -> array_coerce auto self = ext_densify self).
Proof. exact array_coercion_rule_proof. Qed.
Print Assumptions array_coercion_rule.

Theorem coercion_single_site :
  array_definers = ["SparseArray"] /\ auto_densify_readers = ["SparseArray.__array__"]
  /\ auto_densify_source = "bool(int(os.environ.get('SPARSE_AUTO_DENSIFY', '0')))".
Proof. exact coercion_single_site_proof. Qed.
Print Assumptions coercion_single_site.

(* a sparse/dense element-wise mix: sparse result iff func(fills, ndarrays) is constant; otherwise dense iff the
   ndarray operands already have the result's shape, else ValueError *)
Theorem dense_mix_rule :
  forall const shape nshape,
    (dense_mix const shape nshape = MixSparse <-> const = true)
    /\ (dense_mix const shape nshape = MixDense <-> const = false /\ shape = nshape)
    /\ (dense_mix const shape nshape = MixValueError <-> const = false /\ shape <> nshape).
Proof. exact dense_mix_rule_proof. Qed.
Print Assumptions dense_mix_rule.

(* float(x) / int(x) / bool(x): ValueError unless the array is 0-dimensional with one element *)
Theorem to_scalar_rule :
  forall size shape,
    (to_scalar size shape = Raise ValueError <-> (size <> 1 \/ shape <> []))
    /\ (size = 1 /\ shape = [] -> is_dense_result (to_scalar size shape) = true).
Proof. exact to_scalar_rule_proof. Qed.
Print Assumptions to_scalar_rule.

(* a reduction is refused (ValueError) iff method.reduce([fill, fill]) is not the fill and no correcting ufunc exists *)
Theorem reduce_admissible_rule :
  forall e s, reduce_admissible e s = Raise ValueError <-> (e = false /\ s = false).
Proof. exact reduce_admissible_rule_proof. Qed.
Print Assumptions reduce_admissible_rule.

Theorem maybe_densify_rule :
  forall size max_size low,
    (maybe_densify_coo size max_size low = Raise ValueError <-> (max_size < size /\ low = true))
    /\ maybe_densify_gcxs size max_size low = maybe_densify_coo size max_size low.
Proof. exact maybe_densify_rule_proof. Qed.
Print Assumptions maybe_densify_rule.

(* ---- the fill correction of an additive reduction (SparseArray.reduce with np.add), for every fill value including
   +-inf and NaN and for complete groups (until fix f1f8980 the latter gave NaN: finding D29).
   reduce_correction_pinned: the statements the model transcribes are present in the regenerated source facts. *)
Theorem sum_fill_correction :
  reduce_correction_pinned /\
  forall stored fill n, (List.length stored <= n)%nat ->
    sum_group_impl stored fill n = sum_group_spec stored fill n.
Proof. exact sum_fill_correction_proof. Qed.
Print Assumptions sum_fill_correction.

Theorem sum_result_fill_right :
  reduce_correction_pinned /\
  forall fill n, sum_result_fill fill n = xsum (repeat fill n).
Proof. exact sum_result_fill_right_proof. Qed.
Print Assumptions sum_result_fill_right.

(* ---- "right at every position (fill included) or ValueError" for the operations C07 does not model itself, closed
   BY CITATION of the den-level theorems of the properties that own them (Proofs/FillCitesP.v; only Proofs files of
   the other developments are imported).  Model/FillRules.v:fill_discharge records, for every PUBLIC row of the
   generated table, what discharges it: ByGuard (22 rows), ByCite (95), CampaignOnly (36), NotApplicable (42). *)
From Verif Require FillCitesP.
From Verif Require Elemwise Reduce NpReduce Join NpJoin JoinP Convert NpIndex CooIndex CooIndexNormP CooIndexP
  ShapeOps NpShapeOps ShapeOpsP.

(* every public row's discharge entry checks against the table and the registry of cited theorems *)
Theorem fill_right_or_raises_cited :
  forallb (discharge_ok FillCitesP.registry_names sites) sites = true.
Proof. exact FillCitesP.fill_right_or_raises_cited_proof. Qed.
Print Assumptions fill_right_or_raises_cited.

(* the registry's names are exactly the names of its entries, and every entry's statement holds *)
Theorem cited_registry_sound :
  map fst FillCitesP.registry = FillCitesP.registry_names
  /\ forall n (t : FillCitesP.thm), In (n, t) FillCitesP.registry -> proj1_sig t.
Proof. exact (conj FillCitesP.registry_names_ok FillCitesP.registry_sound_proof). Qed.
Print Assumptions cited_registry_sound.

Theorem fill_discharge_no_stale :
  forallb (fun kd => match find_site sites (fst kd) with Some s => s_public s | None => false end) fill_discharge = true.
Proof. exact FillCitesP.fill_discharge_no_stale_proof. Qed.
Print Assumptions fill_discharge_no_stale.

(* one explicit instance per family (statement-sensitive citations) *)
Theorem fill_right_elemwise :
  forall (V : Type) (veqb : V -> V -> bool), (forall a b, veqb a b = true <-> a = b) ->
  forall (vzero : V) (f : list V -> V) (a b : COO.coo V),
    COOP.canonical V a -> COOP.canonical V b -> COO.c_shape a = COO.c_shape b ->
    let r := Elemwise.elemwise2 V veqb vzero f a b in
    COO.c_fill r = f [COO.c_fill a; COO.c_fill b]
    /\ forall ix, Shape.in_range (COO.c_shape a) ix -> COO.den r ix = f [COO.den a ix; COO.den b ix].
Proof. exact FillCitesP.fill_right_elemwise_proof. Qed.
Print Assumptions fill_right_elemwise.

Theorem fill_right_or_raises_reduce :
  forall (V : Type) (veqb : V -> V -> bool), (forall a b, veqb a b = true <-> a = b) ->
  forall (op : V -> V -> V) (cast : V -> V) (sup : option (V -> Z -> V)) (ident : option V),
    (forall a b c, op a (op b c) = op (op a b) c) -> (forall a b, op a b = op b a) ->
    (forall a b, cast (op (cast a) (cast b)) = op (cast a) (cast b)) ->
    (forall s f, sup = Some s -> s f 1 = cast f) ->
    (forall s f k, sup = Some s -> 1 <= k -> s f (k + 1) = op (s f k) (cast f)) ->
    forall (x : COO.coo V) ax kd, COOP.canonical V x -> Shape.shape_ok (COO.c_shape x) ->
      match Reduce.reduce_coo V veqb op cast sup ident ax kd x with
      | Ok r => exists osh g, NpReduce.np_reduce V op cast ident ax kd (COO.c_shape x) (COO.den x) = Ok (osh, g)
                  /\ forall oix, Shape.in_range osh oix -> g oix = Ok (Reduce.rres_den r oix)
      | Raise e => e = ValueError
      end.
Proof. exact FillCitesP.fill_right_or_raises_reduce_proof. Qed.
Print Assumptions fill_right_or_raises_reduce.

Theorem fill_right_or_raises_concatenate :
  forall (V : Type) (veqb : V -> V -> bool), (forall a b, veqb a b = true <-> a = b) ->
  forall (vzero : V) (vadd : V -> V -> V) (a : COO.coo V) (r : list (COO.coo V)),
    ((exists x, In x r /\ COO.c_fill x <> COO.c_fill a) ->
       forall axis, Join.coo_concatenate_src V veqb vzero vadd axis (a :: r) = Raise ValueError)
    /\ (forall axis k, NpJoin.np_norm_axis axis (Join.ndim_of V a) = Some k -> Forall (JoinP.cwf V) (a :: r) ->
          Forall (fun x => JoinP.same_off k (COO.c_shape a) (COO.c_shape x)) r ->
          Forall (fun x => COO.c_fill x = COO.c_fill a) r ->
          exists c, Join.coo_concatenate_src V veqb vzero vadd (Some axis) (a :: r) = Ok c
                    /\ JoinP.join_result V c a (NpJoin.np_concatenate k (NpJoin.darr_of_coo a) (map NpJoin.darr_of_coo r))).
Proof. exact FillCitesP.fill_right_or_raises_concatenate_proof. Qed.
Print Assumptions fill_right_or_raises_concatenate.

Theorem fill_right_conversion :
  forall (V : Type) (veqb : V -> V -> bool), (forall a b, veqb a b = true <-> a = b) ->
  forall (add : V -> V -> V) (c0 : COO.coo V) (hops : list Convert.fmt),
    COOP.canonical V c0 -> Shape.shape_ok (COO.c_shape c0) ->
    forallb (Convert.hop_okb (COO.c_shape c0)) hops = true ->
    exists r, Convert.run_chain veqb add (Convert.RCoo c0) hops = Ok r
      /\ Convert.fill_r r = COO.c_fill c0
      /\ forall ix, Shape.in_range (COO.c_shape c0) ix -> Convert.den_r r ix = COO.den c0 ix.
Proof. exact FillCitesP.fill_right_conversion_proof. Qed.
Print Assumptions fill_right_conversion.

Theorem fill_right_getitem :
  forall (V : Type) (kf : nat -> nat) (x : COO.coo V) (ix : NpIndex.index) sh' g (y : COO.coo V),
    COOP.canonical V x -> CooIndexNormP.shape_okb (COO.c_shape x) = true -> CooIndexNormP.no_zero_step ix = true ->
    CooIndexP.basic ix = true ->
    NpIndex.np_index (COO.c_shape x) ix = Ok (sh', g) -> CooIndex.getitem kf x ix = Ok (CooIndex.GArr y) ->
    COO.c_fill y = COO.c_fill x /\ forall j, Shape.in_range sh' j -> COO.den y j = COO.den x (g j).
Proof. exact FillCitesP.fill_right_getitem_proof. Qed.
Print Assumptions fill_right_getitem.

Theorem fill_right_transpose :
  forall (V : Type) (x : COO.coo V) axes r,
    COOP.canonical V x -> ShapeOps.coo_transpose x axes = Ok r ->
    COO.c_fill r = COO.c_fill x
    /\ forall ix, Shape.in_range (COO.c_shape r) ix ->
         COO.den r ix = NpShapeOps.np_transpose (ShapeOpsP.tr_perm (ShapeOps.ndim x) axes) (COO.den x) ix.
Proof. exact FillCitesP.fill_right_transpose_proof. Qed.
Print Assumptions fill_right_transpose.

Theorem fill_right_reshape :
  forall (V : Type) (x : COO.coo V) new r,
    COOP.canonical V x -> Shape.shape_ok (COO.c_shape x) -> ShapeOps.coo_reshape x new = Ok r ->
    COO.c_fill r = COO.c_fill x
    /\ forall ix, Shape.in_range (COO.c_shape r) ix ->
         COO.den r ix = NpShapeOps.np_reshape (COO.c_shape x) (COO.c_shape r) (COO.den x) ix.
Proof. exact FillCitesP.fill_right_reshape_proof. Qed.
Print Assumptions fill_right_reshape.
