(* Props/C04.v — property-level statements for C04 (products and contractions).  Only statements,
   each closed by [exact] of a lemma proved in Proofs/DotP.v, with Print Assumptions beneath.
   V is any carrier with a zero, an addition and a multiplication satisfying comm_semiring
   (Spec/NpDot.v); Z is an instance (Z_comm_semiring). *)
From Coq Require Import ZArith List Bool.
From Verif Require Import Py Shape COO GCXS NpDot Dot DotP.
Import ListNotations.
Open Scope Z_scope.

(* (1) the Gustavson kernel _dot_csr_csr computes the matrix product, for all extents (empty rows and
   columns, zero extents included): it returns — no out-of-bounds write, no unwritten tail — and
   the dense meaning of the returned CSR triple at (i, k) is  sum_j a(i,j) * b(j,k). *)
Theorem spgemm_den :
  forall (V : Type) (vzero : V) (vadd vmul : V -> V -> V), comm_semiring vzero vadd vmul ->
  forall (n_row n_in n_col : Z) (a b : csr V),
    csr_wfb n_row n_in a = true -> csr_wfb n_in n_col b = true ->
    exists r, dot_csr_csr V vzero vadd vmul n_row n_col a b = KOk r /\
      forall i k, 0 <= i < n_row ->
        csr_den V vzero r i k = np_matmul2 V vzero vadd vmul n_in (csr_den V vzero a) (csr_den V vzero b) i k.
Proof. exact spgemm_den_proof. Qed.
Print Assumptions spgemm_den.

(* (2) the mask-based pre-count _csr_csr_count_nnz equals the number of cells the kernel writes: the
   buffers np.empty(nnz) are exactly filled (for any element type: no algebra needed). *)
Theorem count_nnz_exact :
  forall (V : Type) (vzero : V) (vadd vmul : V -> V -> V) (n_row n_in n_col : Z) (a b : csr V),
    csr_wfb n_row n_in a = true -> csr_wfb n_in n_col b = true ->
    csr_csr_count_nnz n_row n_col (m_indices a) (m_indices b) (m_indptr a) (m_indptr b)
    = Z.of_nat (length (snd (fst (spgemm_loops V vzero vadd vmul n_row n_col a b))))
    /\ exists r, dot_csr_csr V vzero vadd vmul n_row n_col a b = KOk r
         /\ Z.of_nat (length (m_data r))
            = csr_csr_count_nnz n_row n_col (m_indices a) (m_indices b) (m_indptr a) (m_indptr b)
         /\ length (m_indices r) = length (m_data r).
Proof. exact count_nnz_exact_proof. Qed.
Print Assumptions count_nnz_exact.

(* (3) the result is a well-formed CSR matrix: indptr starts at 0, is non-decreasing, ends at nnz, has
   n_row + 1 entries; indices are in [0, n_col) and STRICTLY INCREASING inside every row. *)
Theorem spgemm_rows_sorted :
  forall (V : Type) (vzero : V) (vadd vmul : V -> V -> V) (n_row n_in n_col : Z) (a b : csr V),
    csr_wfb n_row n_in a = true -> csr_wfb n_in n_col b = true ->
    exists r, dot_csr_csr V vzero vadd vmul n_row n_col a b = KOk r /\ csr_wfb n_row n_col r = true.
Proof. exact spgemm_rows_sorted_proof. Qed.
Print Assumptions spgemm_rows_sorted.

(* (4) _dot_coo_ndarray returns on EVERY input (any coordinate arrays, any output width, zero
   included): len(data1) units of fuel for the outer while loop always suffice. *)
Theorem dot_coo_ndarray_terminates :
  forall (V : Type) (vzero : V) (vadd vmul : V -> V -> V)
         (rows cols : list Z) (data : list V) (array2 : Z -> Z -> V) (out_cols : Z) (fuel : nat),
    (length data <= fuel)%nat ->
    exists o, dot_coo_ndarray V vzero vadd vmul fuel rows cols data array2 out_cols = KOk o.
Proof. exact dot_coo_ndarray_terminates_proof. Qed.
Print Assumptions dot_coo_ndarray_terminates.

(* (5) every pair of operand kinds and every return type reaches a kernel, and when an operand is
   sparse the result kind is the requested one. *)
Theorem dot_dispatch_total :
  forall (a_argmin : bool) (ka kb : okind) (rt : rtype),
    exists ker o, dot_dispatch a_argmin ka kb rt = Some (ker, o)
      /\ (is_sparse_kind ka || is_sparse_kind kb = true -> rkind_matches rt o = true).
Proof. exact dot_dispatch_total_proof. Qed.
Print Assumptions dot_dispatch_total.

(* dot of two 1-d operands (routing by the generated fragment g_dot): NumPy's answer, ValueError for
   different lengths included (finding D19, repaired). *)
Theorem dot_1d_correct :
  forall (V : Type) (vzero : V) (vadd vmul : V -> V -> V) (a b : list V),
    dot_1d V vzero vadd vmul a b
    = match np_dot_1d V vzero vadd vmul a b with Some v => Ok v | None => Raise ValueError end.
Proof. exact dot_1d_correct_proof. Qed.
Print Assumptions dot_1d_correct.
