(* Props/C04.v — property-level statements for C04 (products and contractions).  Only statements,
   each closed by [exact] of a lemma proved in Proofs/DotP.v, with Print Assumptions beneath.
   V is any carrier with a zero, an addition and a multiplication satisfying comm_semiring
   (Spec/NpDot.v); Z is an instance (Z_comm_semiring). *)
From Coq Require Import ZArith List Bool Sorting.Sorted.
From Verif Require Import Py Shape COO GCXS NpDot Dot DotP.
Import ListNotations.
Open Scope Z_scope.

(* (1) the Gustavson kernel _dot_csr_csr computes the matrix product, for all extents (empty rows and
   columns, zero extents included): it returns — no out-of-bounds write, no unwritten tail — and
   the dense meaning of the returned CSR triple at (i, k) is  sum_j a(i,j) * b(j,k). *)
Theorem spgemm_den :
  forall (V : Type) (vzero : V) (vadd vmul : V -> V -> V), comm_semiring vzero vadd vmul ->
  forall (n_row n_in n_col : Z) (a b : csr V),
    csr_wfb n_row n_in a = true -> csr_wfb n_in n_col b = true ->
    exists r, dot_csr_csr V vzero vadd vmul n_row n_col a b = KOk r /\
      forall i k, 0 <= i < n_row ->
        csr_den V vzero r i k = np_matmul2 V vzero vadd vmul n_in (csr_den V vzero a) (csr_den V vzero b) i k.
Proof. exact spgemm_den_proof. Qed.
Print Assumptions spgemm_den.

(* (2) the mask-based pre-count _csr_csr_count_nnz equals the number of cells the kernel writes: the
   buffers np.empty(nnz) are exactly filled (for any element type: no algebra needed). *)
Theorem count_nnz_exact :
  forall (V : Type) (vzero : V) (vadd vmul : V -> V -> V) (n_row n_in n_col : Z) (a b : csr V),
    csr_wfb n_row n_in a = true -> csr_wfb n_in n_col b = true ->
    csr_csr_count_nnz n_row n_col (m_indices a) (m_indices b) (m_indptr a) (m_indptr b)
    = Z.of_nat (length (snd (fst (spgemm_loops V vzero vadd vmul n_row n_col a b))))
    /\ exists r, dot_csr_csr V vzero vadd vmul n_row n_col a b = KOk r
         /\ Z.of_nat (length (m_data r))
            = csr_csr_count_nnz n_row n_col (m_indices a) (m_indices b) (m_indptr a) (m_indptr b)
         /\ length (m_indices r) = length (m_data r).
Proof. exact count_nnz_exact_proof. Qed.
Print Assumptions count_nnz_exact.

(* (3) the result is a well-formed CSR matrix: indptr starts at 0, is non-decreasing, ends at nnz, has
   n_row + 1 entries; indices are in [0, n_col) and STRICTLY INCREASING inside every row. *)
Theorem spgemm_rows_sorted :
  forall (V : Type) (vzero : V) (vadd vmul : V -> V -> V) (n_row n_in n_col : Z) (a b : csr V),
    csr_wfb n_row n_in a = true -> csr_wfb n_in n_col b = true ->
    exists r, dot_csr_csr V vzero vadd vmul n_row n_col a b = KOk r /\ csr_wfb n_row n_col r = true.
Proof. exact spgemm_rows_sorted_proof. Qed.
Print Assumptions spgemm_rows_sorted.

(* (1') the COO x COO kernel _dot_coo_coo (same Gustavson loops, cells tagged with their row, no sort): it
   returns, the buffers are exactly filled, the coordinates are pairwise distinct — the promise
   has_duplicates=False that _dot passes to the COO constructor — and the cells mean the matrix product. *)
Theorem spcoo_den :
  forall (V : Type) (vzero : V) (vadd vmul : V -> V -> V), comm_semiring vzero vadd vmul ->
  forall (n_row n_in n_col : Z) (a b : csr V),
    csr_wfb n_row n_in a = true -> csr_wfb n_in n_col b = true ->
    exists rows cols data,
      dot_coo_coo V vzero vadd vmul n_row n_col a b = KOk (rows, cols, data)
      /\ length rows = length data /\ length cols = length data
      /\ NoDup (combine rows cols)
      /\ forall i k, 0 <= i < n_row ->
           coo_cells_den V vzero rows cols data i k
           = np_matmul2 V vzero vadd vmul n_in (csr_den V vzero a) (csr_den V vzero b) i k.
Proof. exact spcoo_den_proof. Qed.
Print Assumptions spcoo_den.

(* (3') csc @ csc through the transposition trick  a @ b = (b.T @ a.T).T  (the kernel is called on
   (out_shape[::-1], b..., a...)): the returned triple, read as the CSC form of the m x p result, is
   well formed and means the matrix product.  Needs the commutativity of the multiplication. *)
Theorem spgemm_csc_den :
  forall (V : Type) (vzero : V) (vadd vmul : V -> V -> V), comm_semiring vzero vadd vmul ->
  forall (m n p : Z) (ac bc : csr V),
    csr_wfb n m ac = true -> csr_wfb p n bc = true ->
    exists r, dot_csr_csr V vzero vadd vmul p m bc ac = KOk r /\ csr_wfb p m r = true /\
      forall i k, 0 <= k < p ->
        csr_den V vzero r k i
        = np_matmul2 V vzero vadd vmul n (fun i j => csr_den V vzero ac j i) (fun j k => csr_den V vzero bc k j) i k.
Proof. exact spgemm_csc_den_proof. Qed.
Print Assumptions spgemm_csc_den.

(* (4) _dot_coo_ndarray returns on EVERY input (any coordinate arrays, any output width, zero
   included): len(data1) units of fuel for the outer while loop always suffice. *)
Theorem dot_coo_ndarray_terminates :
  forall (V : Type) (vzero : V) (vadd vmul : V -> V -> V)
         (rows cols : list Z) (data : list V) (array2 : Z -> Z -> V) (out_cols : Z) (fuel : nat),
    (length data <= fuel)%nat ->
    exists o, dot_coo_ndarray V vzero vadd vmul fuel rows cols data array2 out_cols = KOk o.
Proof. exact dot_coo_ndarray_terminates_proof. Qed.
Print Assumptions dot_coo_ndarray_terminates.

(* (4') ... and what it returns is the product  s1 @ x2.T  of the COO matrix (rows, cols, data: pairwise distinct
   coordinates, columns in range; the rows need not even be sorted) with the dense operand. *)
Theorem dot_coo_ndarray_den :
  forall (V : Type) (vzero : V) (vadd vmul : V -> V -> V), comm_semiring vzero vadd vmul ->
  forall (array2 : Z -> Z -> V) (rows cols : list Z) (data : list V) (n_in out_cols : Z) (fuel : nat),
    length rows = length data -> length cols = length data ->
    NoDup (combine rows cols) -> Forall (fun c => 0 <= c < n_in) cols ->
    (length data <= fuel)%nat ->
    exists o, dot_coo_ndarray V vzero vadd vmul fuel rows cols data array2 out_cols = KOk o
      /\ forall i j, 0 <= j < out_cols ->
           o i j = np_matmul2 V vzero vadd vmul n_in (coo_cells_den V vzero rows cols data) (fun c j => array2 j c) i j.
Proof. exact dot_coo_ndarray_den_proof. Qed.
Print Assumptions dot_coo_ndarray_den.

(* (5) every pair of operand kinds and every return type reaches a kernel, and when an operand is
   sparse the result kind is the requested one. *)
Theorem dot_dispatch_total :
  forall (a_argmin : bool) (ka kb : okind) (rt : rtype),
    exists ker o, dot_dispatch a_argmin ka kb rt = Some (ker, o)
      /\ (is_sparse_kind ka || is_sparse_kind kb = true -> rkind_matches rt o = true).
Proof. exact dot_dispatch_total_proof. Qed.
Print Assumptions dot_dispatch_total.

(* (5') the dispatch model IS what the source of _dot does: for every combination it equals the table
   obtained by executing _dot's AST over the abstract operand kinds (Gen/S_dot.v, regenerated from
   /repo on every run). *)
Theorem dot_dispatch_matches_source :
  forall (a_argmin : bool) (ka kb : okind) (rt : rtype),
    source_dispatch a_argmin ka kb rt
    = Some (match dot_dispatch a_argmin ka kb rt with
            | Some (ker, o) => Some (kernel_code ker, rkind_code o)
            | None => None end).
Proof. exact dot_dispatch_matches_source_proof. Qed.
Print Assumptions dot_dispatch_matches_source.

(* matmul's case chain (tests translated from the source): 0-d operands are rejected (ValueError, like np.matmul);
   dot for b.ndim <= 2 and for a 1-d a; dot and move the first axis for a 2-d a; squeeze a / squeeze b when the
   leading extents multiply to 1; else batch. *)
Theorem matmul_route_spec :
  forall (a_ndim b_ndim a_lead b_lead : Z),
    matmul_route a_ndim b_ndim a_lead b_lead
    = if (a_ndim =? 0) || (b_ndim =? 0) then None
      else Some (if b_ndim <=? 2 then MmDot
                 else if a_ndim =? 1 then MmDotVec
                 else if a_ndim =? 2 then MmDotMoveAxis
                 else if (a_ndim <=? b_ndim) && (a_lead =? 1) then MmSqueezeA
                 else if (b_ndim <=? a_ndim) && (b_lead =? 1) then MmSqueezeB
                 else MmBatch).
Proof. exact matmul_route_spec_proof. Qed.
Print Assumptions matmul_route_spec.

(* (6) tensordot's bookkeeping (axis normalisation, move the contracted axes to the end of a and to the
   front of b, reshape to 2-d, multiply, reshape back; zero-size shortcut) computes np.tensordot, for
   every choice of contraction axes (negative axes allowed, distinct, extents matching), on the dense
   meaning of the operands (ndim >= 1). *)
Theorem tensordot_den :
  forall (V : Type) (vzero : V) (vadd vmul : V -> V -> V) (a b : arr V) (axes_a axes_b : list Z),
    let as_ := a_shape a in
    let bs := a_shape b in
    let axa := map (norm_axis (Z.of_nat (length as_))) axes_a in
    let axb := map (norm_axis (Z.of_nat (length bs))) axes_b in
    shape_ok as_ -> shape_ok bs -> (0 < length as_)%nat -> (0 < length bs)%nat ->
    Forall2 (axis_pair_ok as_ bs) axes_a axes_b -> NoDup axa -> NoDup axb ->
    exists r, tensordot_m V vzero vadd vmul a b axes_a axes_b = Ok r
      /\ a_shape r = a_shape (np_tensordot V vzero vadd vmul a b axa axb)
      /\ forall ix, in_range (a_shape r) ix -> a_at r ix = a_at (np_tensordot V vzero vadd vmul a b axa axb) ix.
Proof. exact tensordot_den_proof. Qed.
Print Assumptions tensordot_den.

(* tensordot's block for a zero-size contraction returns an object of the requested kind — COO for return_type=COO
   (and for None with two sparse operands), GCXS for GCXS, ndarray for np.ndarray (and for None when an operand is
   dense) — and this model of it equals the table obtained by executing the block's statements (Gen/S_dot.v).
   (Finding zero_size_shortcut_ignores_return_type of this check, repaired.) *)
Theorem td_shortcut_kind_correct :
  forall (ka kb : okind) (rt : rtype),
    source_shortcut_kind ka kb rt = Some (rkind_code (td_shortcut_kind ka kb rt))
    /\ rkind_matches rt (td_shortcut_kind ka kb rt) = true.
Proof. exact td_shortcut_kind_proof. Qed.
Print Assumptions td_shortcut_kind_correct.

(* dot of two 1-d operands (routing by the generated fragment g_dot): NumPy's answer, ValueError for
   different lengths included (finding D19, repaired). *)
Theorem dot_1d_correct :
  forall (V : Type) (vzero : V) (vadd vmul : V -> V -> V) (a b : list V),
    dot_1d V vzero vadd vmul a b
    = match np_dot_1d V vzero vadd vmul a b with Some v => Ok v | None => Raise ValueError end.
Proof. exact dot_1d_correct_proof. Qed.
Print Assumptions dot_1d_correct.

(* _dot_csc_ndarray_sparse (GCXS with compressed axis 1 times ndarray, sparse result; a is the CSC triple of the
   m x n_in left operand, b the dense n_in x p operand): it returns, the buffers sized by _csc_ndarray_count_nnz are
   exactly filled (csc_ndarray_count_exact), the result is a well-formed CSC triple — positions of every column
   strictly increasing (csc_ndarray_rows_sorted) —, and it means the matrix product (csc_ndarray_den).  (Findings of
   this check, repaired in /repo: the statements were false before.)  veqb decides `!= 0`. *)
Theorem csc_ndarray_count_exact :
  forall (V : Type) (vzero : V) (vadd vmul : V -> V -> V) (veqb : V -> V -> bool), comm_semiring vzero vadd vmul ->
  (forall x, veqb x vzero = true -> x = vzero) ->
  forall (a : csr V) (b : Z -> Z -> V) (n_in m p : Z), csr_wfb n_in m a = true -> 0 <= p ->
    exists r, dot_csc_ndarray_sparse V vzero vadd vmul veqb m n_in p a b = KOk r
      /\ Z.of_nat (length (m_data r)) = fst (csc_ndarray_count_nnz V vzero veqb m n_in p (m_indices a) (m_indptr a) b).
Proof. exact csc_ndarray_count_exact_proof. Qed.
Print Assumptions csc_ndarray_count_exact.

Theorem csc_ndarray_rows_sorted :
  forall (V : Type) (vzero : V) (vadd vmul : V -> V -> V) (veqb : V -> V -> bool), comm_semiring vzero vadd vmul ->
  (forall x, veqb x vzero = true -> x = vzero) ->
  forall (a : csr V) (b : Z -> Z -> V) (n_in m p : Z), csr_wfb n_in m a = true -> 0 <= p ->
    exists r, dot_csc_ndarray_sparse V vzero vadd vmul veqb m n_in p a b = KOk r /\ csr_wfb p m r = true.
Proof. exact csc_ndarray_rows_sorted_proof. Qed.
Print Assumptions csc_ndarray_rows_sorted.

Theorem csc_ndarray_den :
  forall (V : Type) (vzero : V) (vadd vmul : V -> V -> V) (veqb : V -> V -> bool), comm_semiring vzero vadd vmul ->
  (forall x, veqb x vzero = true -> x = vzero) ->
  forall (a : csr V) (b : Z -> Z -> V) (n_in m p : Z), csr_wfb n_in m a = true -> 0 <= p ->
    exists r, dot_csc_ndarray_sparse V vzero vadd vmul veqb m n_in p a b = KOk r
      /\ forall i k, 0 <= i < p ->
           csr_den V vzero r i k = np_matmul2 V vzero vadd vmul n_in (fun k j => csr_den V vzero a j k) b k i.
Proof. exact csc_ndarray_den_proof. Qed.
Print Assumptions csc_ndarray_den.

(* ---------------------------------------------------------------------------------------------------------------
   The remaining kernels of _dot.  "Bounds": the dense kernels write out[r, c] += v only at positions inside the
   output (the update streams csr_nd_updates / csc_nd_updates / nd_coo_updates are what the loops execute,
   Proofs/DotP.v dot_*_updates); the sparse ones fill their pre-sized buffers exactly (kres = KOk) or append to
   lists. *)

(* _dot_csr_ndarray: GCXS(0,) @ ndarray, dense result *)
Theorem dot_csr_ndarray_den :
  forall (V : Type) (vzero : V) (vadd vmul : V -> V -> V), comm_semiring vzero vadd vmul ->
  forall (n_row n_in n_col : Z) (a : csr V) (b : Z -> Z -> V),
    csr_wfb n_row n_in a = true ->
    Forall (fun u => 0 <= fst (fst u) < n_row /\ 0 <= snd (fst u) < n_col) (csr_nd_updates V vmul n_row n_col a b)
    /\ forall i j, 0 <= i < n_row -> 0 <= j < n_col ->
         dot_csr_ndarray V vzero vadd vmul n_row n_col a b i j
         = np_matmul2 V vzero vadd vmul n_in (csr_den V vzero a) b i j.
Proof. exact dot_csr_ndarray_den_proof. Qed.
Print Assumptions dot_csr_ndarray_den.

(* _dot_csr_ndarray_sparse with _csr_ndarray_count_nnz: it returns (count = cells written), the result is a
   well-formed CSR matrix and means the product.  The cell (i, j) is stored iff some b[k, j] != 0 for a stored
   k of row i — in the count AND in the kernel (a kernel that stored `val != 0` instead would end in KTail). *)
Theorem csr_ndarray_sparse_correct :
  forall (V : Type) (vzero : V) (vadd vmul : V -> V -> V) (veqb : V -> V -> bool),
  comm_semiring vzero vadd vmul -> (forall x, veqb x vzero = true -> x = vzero) ->
  forall (a : csr V) (b : Z -> Z -> V) (n_row n_in n_col : Z), csr_wfb n_row n_in a = true -> 0 <= n_col ->
    exists r, dot_csr_ndarray_sparse V vzero vadd vmul veqb n_row n_col a b = KOk r
      /\ Z.of_nat (length (m_data r)) = fst (csr_ndarray_count_nnz V vzero veqb n_row n_col (m_indices a) (m_indptr a) b)
      /\ csr_wfb n_row n_col r = true
      /\ forall i j, 0 <= i < n_row -> 0 <= j < n_col ->
           csr_den V vzero r i j = np_matmul2 V vzero vadd vmul n_in (csr_den V vzero a) b i j.
Proof. exact csr_ndarray_sparse_full. Qed.
Print Assumptions csr_ndarray_sparse_correct.

(* _dot_csc_ndarray: GCXS(1,) @ ndarray, dense result (a: CSC triple of the m x n_in operand) *)
Theorem dot_csc_ndarray_den :
  forall (V : Type) (vzero : V) (vadd vmul : V -> V -> V), comm_semiring vzero vadd vmul ->
  forall (m n_in p : Z) (a : csr V) (b : Z -> Z -> V),
    csr_wfb n_in m a = true ->
    Forall (fun u => 0 <= fst (fst u) < m /\ 0 <= snd (fst u) < p) (csc_nd_updates V vmul n_in p a b)
    /\ forall r j, 0 <= j < p ->
         dot_csc_ndarray V vzero vadd vmul n_in p a b r j
         = np_matmul2 V vzero vadd vmul n_in (fun r i => csr_den V vzero a i r) b r j.
Proof. exact dot_csc_ndarray_den_proof. Qed.
Print Assumptions dot_csc_ndarray_den.

(* _dot_coo_ndarray_type_sparse: COO @ ndarray, sparse result.  On a canonical COO operand (rows non-decreasing,
   coordinates pairwise distinct, columns in range) it returns with len(data1) units of fuel, the appended cells
   are strictly increasing in (row, column) — the promises sorted=True, has_duplicates=False of _dot — with
   columns inside the output, and they mean s1 @ x2.T. *)
Theorem dot_coo_ndarray_sparse_correct :
  forall (V : Type) (vzero : V) (vadd vmul : V -> V -> V) (veqb : V -> V -> bool),
  comm_semiring vzero vadd vmul -> (forall x, veqb x vzero = true -> x = vzero) ->
  forall (a2 : Z -> Z -> V) (rows cols : list Z) (data : list V) (n_in out_cols : Z) (fuel : nat),
    length rows = length data -> length cols = length data ->
    NoDup (combine rows cols) -> Forall (fun c => 0 <= c < n_in) cols ->
    (forall s t, 0 <= s <= t -> t < Z.of_nat (length data) -> znth rows s 0 <= znth rows t 0) ->
    (length data <= fuel)%nat ->
    exists o, dot_coo_ndarray_sparse V vzero vadd vmul veqb fuel rows cols data a2 out_cols = KOk o
      /\ StronglySorted cell_lt o
      /\ Forall (fun c => 0 <= snd (fst c) < out_cols) o
      /\ forall i j, 0 <= j < out_cols ->
           cden V vzero o i j
           = np_matmul2 V vzero vadd vmul n_in (coo_cells_den V vzero rows cols data) (fun c j => a2 j c) i j.
Proof. exact dot_coo_ndarray_sparse_proof. Qed.
Print Assumptions dot_coo_ndarray_sparse_correct.

(* _dot_ndarray_coo: ndarray @ COO, dense result *)
Theorem dot_ndarray_coo_den :
  forall (V : Type) (vzero : V) (vadd vmul : V -> V -> V), comm_semiring vzero vadd vmul ->
  forall (m n_in p : Z) (a1 : Z -> Z -> V) (rows2 cols2 : list Z) (data2 : list V),
    length rows2 = length data2 -> length cols2 = length data2 ->
    NoDup (combine rows2 cols2) -> Forall (fun r => 0 <= r < n_in) rows2 -> Forall (fun c => 0 <= c < p) cols2 ->
    Forall (fun u => 0 <= fst (fst u) < m /\ 0 <= snd (fst u) < p)
           (nd_coo_updates V vmul m a1 (combine (combine rows2 cols2) data2))
    /\ forall i j, 0 <= i < m ->
         dot_ndarray_coo V vzero vadd vmul m a1 rows2 cols2 data2 i j
         = np_matmul2 V vzero vadd vmul n_in a1 (coo_cells_den V vzero rows2 cols2 data2) i j.
Proof. exact dot_ndarray_coo_den_proof. Qed.
Print Assumptions dot_ndarray_coo_den.

(* _dot_ndarray_coo_type_sparse: ndarray @ COO, sparse result; the COO operand is b.T (cells: column of b —
   non-decreasing —, row of b, value).  The appended cells are strictly increasing in (row, column), inside the
   m x p output, and mean the product. *)
Theorem dot_ndarray_coo_sparse_correct :
  forall (V : Type) (vzero : V) (vadd vmul : V -> V -> V) (veqb : V -> V -> bool),
  comm_semiring vzero vadd vmul -> (forall x, veqb x vzero = true -> x = vzero) -> veqb vzero vzero = true ->
  forall (a1 : Z -> Z -> V) (cols2 rows2 : list Z) (data2 : list V) (m n_in p : Z),
    length cols2 = length data2 -> length rows2 = length data2 ->
    NoDup (combine cols2 rows2) -> StronglySorted Z.le cols2 ->
    Forall (fun c => 0 <= c < p) cols2 -> Forall (fun r => 0 <= r < n_in) rows2 ->
    let o := dot_ndarray_coo_sparse V vzero vadd vmul veqb m a1 cols2 rows2 data2 in
    StronglySorted cell_lt o
    /\ Forall (fun x => 0 <= fst (fst x) < m /\ 0 <= snd (fst x) < p) o
    /\ forall i j, 0 <= i < m ->
         cden V vzero o i j
         = np_matmul2 V vzero vadd vmul n_in a1 (fun r j => coo_cells_den V vzero cols2 rows2 data2 j r) i j.
Proof. exact dot_ndarray_coo_sparse_proof. Qed.
Print Assumptions dot_ndarray_coo_sparse_correct.

(* ---------------------------------------------------------------------------------------------------------------
   GCXS(..., prune=True) and the shared dense meaning. *)

(* GCXS._prune (drop the stored values equal to the fill, recompute indptr by bincount/cumsum) keeps a well-formed
   CSR matrix well formed and does not change its dense meaning. *)
Theorem prune_csr_correct :
  forall (V : Type) (vzero : V) (veqb : V -> V -> bool), (forall x, veqb x vzero = true -> x = vzero) ->
  forall (n_row n_col : Z) (m : csr V),
    csr_wfb n_row n_col m = true ->
    csr_wfb n_row n_col (prune_csr V vzero veqb n_row m) = true
    /\ forall i k, 0 <= i < n_row -> csr_den V vzero (prune_csr V vzero veqb n_row m) i k = csr_den V vzero m i k.
Proof. exact prune_csr_correct_proof. Qed.
Print Assumptions prune_csr_correct.

(* csr_den, in which the theorems above are stated, is the dense meaning gden that Model/GCXS.v (shared by all
   properties) gives to the 2-d GCXS with compressed_axes = (0,) built from the same triple. *)
Theorem csr_den_gden :
  forall (V : Type) (vzero : V) (n_row n_col : Z) (m : csr V) (i k : Z),
    csr_wfb n_row n_col m = true -> 0 <= i < n_row ->
    gden (mkGCXS [n_row; n_col] [0] (m_data m) (m_indices m) (m_indptr m) vzero) [i; k] = csr_den V vzero m i k.
Proof. exact csr_den_gden_proof. Qed.
Print Assumptions csr_den_gden.

(* ---------------------------------------------------------------------------------------------------------------
   _einsum_single (one sparse operand, "lhs->rhs"): selector for repeated labels, projection/permutation by
   perm = [lhs.index(ix) for ix in rhs], duplicates summed (has_duplicates=True): on a canonical zero-filled COO
   operand whose repeated labels have equal extents, the summed meaning of the result is np.einsum's
   (Spec/NpDot.v np_einsum1).  (The constructor is also told prune=True: sums that cancel are not stored; den_sum is unaffected.) *)
Theorem einsum_single_den :
  forall (V : Type) (vzero : V) (vadd vmul : V -> V -> V), comm_semiring vzero vadd vmul ->
  forall (lhs rhs : list Z) (c : coo V),
    NoDup (c_coords c) -> Forall (in_range (c_shape c)) (c_coords c) -> length (c_data c) = length (c_coords c) ->
    c_fill c = vzero -> es_shape_ok lhs (c_shape c) = true ->
    exists r, einsum_single_m V lhs rhs c = Ok r
      /\ c_shape r = a_shape (np_einsum1 V vzero vadd lhs rhs (mkArr (c_shape c) (den c)))
      /\ forall o, den_sum V vzero vadd r o = a_at (np_einsum1 V vzero vadd lhs rhs (mkArr (c_shape c) (den c))) o.
Proof. exact einsum_single_den_proof. Qed.
Print Assumptions einsum_single_den.

(* ---------------------------------------------------------------------------------------------------------------
   matmul's batch recursion and kron. *)

(* _matmul_recurser on the dense meaning of the (already rank-aligned) operands: per batch index, a[0] when the
   extent is 1 else a[i], recursing down to dot on matrices, is np.matmul's batch broadcasting. *)
Theorem matmul_rec_den :
  forall (V : Type) (vzero : V) (vadd vmul : V -> V -> V) (n : Z) (sha shb : shape) (a b : idx -> V) (ix : idx),
    length sha = length shb ->
    matmul_rec V vzero vadd vmul sha shb n a b ix = np_matmul_batch V vzero vadd vmul sha shb n a b ix.
Proof. exact matmul_rec_den_proof. Qed.
Print Assumptions matmul_rec_den.

(* kron of two canonical zero-filled COO arrays with the same number of axes: the coordinates of the result are
   pairwise distinct (the promise has_duplicates=False) and in range, and the result means np.kron. *)
Theorem kron_den :
  forall (V : Type) (vzero : V) (vadd vmul : V -> V -> V), comm_semiring vzero vadd vmul ->
  forall (a b : coo V), canon V vzero a -> canon V vzero b -> length (c_shape a) = length (c_shape b) ->
    let r := kron_m V vmul a b in
    c_shape r = a_shape (np_kron V vmul (mkArr (c_shape a) (den a)) (mkArr (c_shape b) (den b)))
    /\ NoDup (c_coords r) /\ Forall (in_range (c_shape r)) (c_coords r)
    /\ forall ix, in_range (c_shape r) ix ->
         den r ix = a_at (np_kron V vmul (mkArr (c_shape a) (den a)) (mkArr (c_shape b) (den b))) ix.
Proof. exact kron_den_proof. Qed.
Print Assumptions kron_den.

(* ---------------------------------------------------------------------------------------------------------------
   _dot, COO @ COO: the COO -> CSR row pointers a_indptr / b_indptr (np.cumsum(np.bincount(coords[0])) written into an
   array whose dtype is READ FROM THE SOURCE, Gen/S_dot.v): they are the exact cumulative counts of stored elements
   (first 0, last nnz) for every width of the operands' coordinate dtype and any number of stored elements — true
   because the source allocates them as np.intp; allocated in the coordinate dtype they would wrap once nnz exceeds
   it.  Likewise every pointer / index / counter array of the product kernels is allocated wide. *)
Theorem coo_indptr_exact :
  forall (bits : Z) (signed : bool) (rows : list Z) (n_row : Z),
    0 <= n_row -> Forall (fun x => 0 <= x < n_row) rows ->
    let exact := map (prefix_count rows) (zrange (n_row + 1)) in
    coo_indptr_a bits signed rows n_row = exact /\ coo_indptr_b bits signed rows n_row = exact
    /\ znth exact 0 (-1) = 0 /\ znth exact n_row (-1) = Z.of_nat (length rows)
    /\ dot_index_arrays_wide = true.
Proof. exact coo_indptr_exact_proof. Qed.
Print Assumptions coo_indptr_exact.

(* every value buffer / accumulator of the product kernels (sums, data, out) is allocated in the result dtype (read
   from the source, Gen/S_dot.v): the precondition under which the kernels compute in the carrier of the result, as
   the value theorems above assume. *)
Theorem dot_value_buffers_in_result_dtype : dot_value_buffers_typed = true.
Proof. exact dot_value_buffers_proof. Qed.
Print Assumptions dot_value_buffers_in_result_dtype.

(* _parse_einsum_input, the letters standing for `...` (which end of the pool they are taken from is read from the
   source): a term whose ellipsis covers k axes gets the last k letters of the output's ellipsis, so operands whose
   ellipses cover different numbers of axes are aligned on their trailing axes, like NumPy broadcasting. *)
Theorem einsum_ellipsis_aligned :
  forall (pool : list Z) (k longest : nat),
    (k <= longest)%nat -> (longest <= length pool)%nat ->
    es_rep_letters pool k = skipn (longest - k) (es_out_letters pool longest)
    /\ length (es_out_letters pool longest) = longest.
Proof. exact einsum_ellipsis_aligned_proof. Qed.
Print Assumptions einsum_ellipsis_aligned.
