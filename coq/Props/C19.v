(* Props/C19.v — property-level statements for C19 (creation functions and random()).  Only
   statements, each closed by [exact] of a lemma proved in Proofs/CreateP.v or Proofs/RandomP.v, with
   Print Assumptions beneath.  `eye` and `random_coo` are built from the definitions that
   tools/sitegen/create.py regenerates from _common.eye and _utils.random on every run
   (Gen/S_create.v: s_eye_arith, s_random_plan). *)
From Coq Require Import ZArith List Bool.
From Verif Require Import Py PyExt PyCreate S_create Shape COO NpCreate Create Random ShapeNth CreateP RandomP.
Import ListNotations.
Open Scope Z_scope.

(* ---- eye: for ALL N, M >= 0 and ALL k (|k| >= N or M and zero extents included) the array built from
   the generated arithmetic is canonical, has shape (N, M), fill 0, and denotes np.eye(N, M, k) *)
Theorem eye_den :
  forall (V : Type) (zero one : V) (N M k : Z),
    0 <= N -> 0 <= M ->
    exists c : coo V,
      eye zero one N (Some M) k = Some c /\
      canonicalb c = true /\ c_shape c = np_eye_shape N M /\ c_fill c = zero /\
      nnz c = eye_len N M k /\
      forall i j, in_range [N; M] [i; j] -> den c [i; j] = np_eye zero one k [i; j].
Proof. exact eye_den_proof. Qed.
Print Assumptions eye_den.

(* M omitted means M = N *)
Theorem eye_default_M :
  forall (V : Type) (zero one : V) (N k : Z), eye zero one N None k = eye zero one N (Some N) k.
Proof. exact eye_none. Qed.
Print Assumptions eye_default_M.

(* ---- full / zeros / ones / empty and the *_like forms: empty storage, the fill is the value *)
Theorem full_den :
  forall (V : Type) (sh : shape) (fv : V),
    canonicalb (full sh fv) = true /\ c_shape (full sh fv) = sh /\ nnz (full sh fv) = 0 /\
    forall ix, den (full sh fv) ix = np_full fv ix.
Proof. exact full_den_proof. Qed.
Print Assumptions full_den.

Theorem zeros_ones_den :
  forall (V : Type) (zero one : V) (sh : shape),
    (canonicalb (zeros zero sh) = true /\ c_shape (zeros zero sh) = sh /\
     forall ix, den (zeros zero sh) ix = zero) /\
    (canonicalb (ones one sh) = true /\ c_shape (ones one sh) = sh /\
     forall ix, den (ones one sh) ix = one) /\
    (canonicalb (empty zero sh) = true /\ c_shape (empty zero sh) = sh).
Proof. exact zeros_ones_den_proof. Qed.
Print Assumptions zeros_ones_den.

Theorem like_den :
  forall (V : Type) (zero one : V) (a : coo V) (fv : V) (sh : option shape),
    canonicalb (full_like a fv sh) = true /\
    c_shape (full_like a fv sh) = match sh with None => c_shape a | Some s => s end /\
    (forall ix, den (full_like a fv sh) ix = fv) /\
    (forall ix, den (zeros_like zero a sh) ix = zero) /\
    (forall ix, den (ones_like one a sh) ix = one).
Proof. exact like_den_proof. Qed.
Print Assumptions like_den.

(* ---- asarray(dense array) = COO.from_numpy(x): denotes x at every in-range index (value at row-major position
   ravel sh ix of the flat contents), for every element type with a sound equality test; includes the 0-d case
   in which the code makes the value the fill of an array that stores nothing *)
Theorem asarray_den :
  forall (V : Type) (zero : V) (veqb : V -> V -> bool),
    (forall a b, veqb a b = true -> a = b) ->
    forall (d : dense V) (ix : idx),
      shape_ok (d_shape d) -> dense_wf d -> in_range (d_shape d) ix ->
      den (asarray_dense zero veqb d) ix = dense_at V zero d ix /\
      c_shape (asarray_dense zero veqb d) = d_shape d.
Proof. exact asarray_den_proof. Qed.
Print Assumptions asarray_den.

(* ---- reverse(inv, N): the ascending complement, with no out-of-bounds write, no unwritten cell and no
   size mismatch in the slice assignment *)
Theorem reverse_spec :
  forall (inv : list Z) (N : Z),
    0 <= N -> increasing inv -> Forall (fun x => 0 <= x < N) inv ->
    reverse inv N = Some (complement inv N).
Proof. exact reverse_spec_proof. Qed.
Print Assumptions reverse_spec.

Theorem complement_is_sample :
  forall (inv : list Z) (N : Z),
    0 <= N -> increasing inv -> Forall (fun x => 0 <= x < N) inv ->
    sample_ok (N - Z.of_nat (length inv)) N (complement inv N) /\
    (forall x, In x (complement inv N) <-> (0 <= x < N /\ ~ In x inv)).
Proof. exact complement_sample_ok. Qed.
Print Assumptions complement_is_sample.

(* ---- the generated branch chain and nnz computation of `random`: every successful run yields the
   requested nnz (or the value of int(elements * density)) inside [0, elements] and one of the seven
   admissible plans (plan_okb); and the guards reject exactly the inadmissible requests *)
Theorem random_plan_shape :
  forall (dc nnz : option Z) (el prod : Z) (v : pyv),
    s_random_plan (ozr dc) (ozr nnz) (VInt el) (VInt prod) VNone VNone = Ok v ->
    exists n p pl, v = VTuple [VInt n; p] /\ decode_plan p = Some pl /\
      n = match nnz with Some k => k | None => prod end /\
      0 <= n <= el /\ (nnz = None \/ dc = None) /\ 0 <= dcv dc <= 1 /\
      plan_okb n el (dcv dc) pl = true.
Proof. exact plan_shape_proof. Qed.
Print Assumptions random_plan_shape.

Theorem random_plan_guards :
  forall (dc nnz : option Z) (el prod : Z),
    let n := match nnz with Some k => k | None => prod end in
    (exists v, s_random_plan (ozr dc) (ozr nnz) (VInt el) (VInt prod) VNone VNone = Ok v) <->
    ((nnz = None \/ dc = None) /\ 0 <= dcv dc <= 1 /\ 0 <= n <= el).
Proof. exact plan_guards_proof. Qed.
Print Assumptions random_plan_guards.

(* ---- Vitter's A: for EVERY oracle (answers of the float tests), n ascending positions in [0, N) *)
Theorem algA_safe :
  forall (n N : Z) (reqs : list Z),
    1 <= n <= N -> exists arr, algA n N reqs = Some arr /\ sample_ok n N arr.
Proof. exact algA_safe_proof. Qed.
Print Assumptions algA_safe.

(* ---- Vitter's D: partial correctness for EVERY oracle stream; termination exactly when an accepting
   event occurs (per selection), and for the whole kernel on every stream with n always-accepted events.
   (Termination with probability 1 is a statement about the float arithmetic and the generator and is
   NOT claimed.) *)
Theorem algD_safe :
  forall (n N : Z) (evs : list ev) (arr : list Z),
    1 <= n -> algD n N evs = Some arr -> sample_ok n N arr.
Proof. exact algD_safe_proof. Qed.
Print Assumptions algD_safe.

(* observation exposed by the proof (NOT part of C19): Vitter's D as coded never selects position N - 1 *)
Theorem algD_never_last :
  forall (n N : Z) (evs : list ev) (arr : list Z),
    1 <= n -> algD n N evs = Some arr -> Forall (fun x => x < N - 1) arr.
Proof. exact algD_never_last_proof. Qed.
Print Assumptions algD_never_last.

Theorem algD_step_terminates :
  forall (evs : list ev) (qu1 : Z),
    existsb (accepting qu1) evs = true <-> algD_pick evs qu1 <> None.
Proof. exact algD_pick_terminates. Qed.
Print Assumptions algD_step_terminates.

Theorem algD_terminates :
  forall (n N : Z) (evs : list ev),
    1 <= n < N -> (Z.to_nat n <= count_acc evs)%nat -> exists arr, algD n N evs = Some arr.
Proof. exact algD_terminates_proof. Qed.
Print Assumptions algD_terminates.

(* ---- sparse.random: whatever branch the generated chain takes and whatever the oracle answers, a
   returned array has exactly the requested number of stored elements, at distinct in-range positions
   in strictly increasing row-major order (canonicalb), carrying the sampler's values in order, with
   the requested shape and fill value *)
Theorem random_structure :
  forall (V : Type) (sh : shape) (dens : option dyadic) (nnz : option Z) (o : oracle)
         (data : list V) (fv : V) (c : coo V),
    shape_ok sh -> size sh < 2 ^ 53 -> one_canonical dens ->
    random_coo sh dens nnz o data fv = Some c ->
    let n := requested dens nnz (size sh) in
    0 <= n <= size sh /\ COO.nnz c = n /\ Z.of_nat (length (c_data c)) = n /\
    c_data c = data /\ c_shape c = sh /\ c_fill c = fv /\ canonicalb c = true.
Proof. exact random_structure_proof. Qed.
Print Assumptions random_structure.

Theorem random_returns :
  forall (V : Type) (sh : shape) (dens : option dyadic) (nnz : option Z) (o : oracle)
         (data : list V) (fv : V),
    shape_ok sh -> size sh < 2 ^ 53 -> one_canonical dens ->
    (nnz = None \/ dens = None) ->
    0 <= dcv (option_map density_class dens) <= 1 ->
    0 <= requested dens nnz (size sh) <= size sh ->
    Z.of_nat (length data) = requested dens nnz (size sh) ->
    (match random_nnz_tag dens nnz (size sh) with
     | Some (_, t) => t <> 3 /\ t <> 23 | None => False end
     \/ (Z.to_nat (size sh) <= count_acc (o_D o))%nat) ->
    exists c, random_coo sh dens nnz o data fv = Some c.
Proof. exact random_returns_proof. Qed.
Print Assumptions random_returns.

(* the same seed gives the same array: the model is a function of the oracle stream *)
Theorem random_deterministic :
  forall (V : Type) (sh : shape) (dens : option dyadic) (nnz : option Z) (o1 o2 : oracle)
         (d1 d2 : list V) (fv : V),
    o1 = o2 -> d1 = d2 -> random_coo sh dens nnz o1 d1 fv = random_coo sh dens nnz o2 d2 fv.
Proof. exact random_deterministic_proof. Qed.
Print Assumptions random_deterministic.
