(* Props/C10.v — property-level statements for C10 (searching, sorting, set functions agree with
   NumPy).  Only statements, each closed by [exact] of a lemma of Proofs/SortSearchP.v, with Print
   Assumptions beneath.  Model: Model/SortSearch.v (transcription of _coo/common.py); meaning:
   Spec/NpSort.v.  Element values are integers (NaN ordering and complex data are not modelled). *)
From Coq Require Import ZArith List Bool Sorting.Sorted Sorting.Permutation.
From Verif Require Import Py Shape COO COOP NpSort SortSearch SortSearchP SortSearchNdP SortSearchDenseP S_sortsearch SortSearchSrc ShapeOps.
Import ListNotations.
Open Scope Z_scope.

(* ------------------------------------------------------------------ nonzero / argwhere / where(cond) *)

(* canonical, zero fill — stored explicit zeros allowed: the coordinates kept by `coords[:, data != 0]`
   ARE NumPy's argwhere of the dense array (index tuples of the non-zero elements in row-major order) ... *)
Theorem nonzero_rowmajor :
  forall c : coo Z,
    canonical Z c -> c_fill c = 0 ->
    nz_coords c = np_argwhere (todense c).
Proof. exact nonzero_rowmajor_proof. Qed.
Print Assumptions nonzero_rowmajor.

(* ... hence nonzero, where(cond) and argwhere return what NumPy returns *)
Theorem nonzero_where_argwhere_spec :
  forall c : coo Z,
    canonical Z c -> c_fill c = 0 -> c_shape c <> [] ->
    ss_nonzero c = Ok (np_nonzero (todense c)) /\ ss_where1 c = Ok (np_nonzero (todense c))
    /\ ss_argwhere c = Ok (np_argwhere (todense c)).
Proof. exact ss_nonzero_spec. Qed.
Print Assumptions nonzero_where_argwhere_spec.


(* ------------------------------------------------------------------ unique_values / unique_counts *)

(* np.unique is ascending, without repeats, and has exactly the values of its argument *)
Theorem np_unique_meaning :
  forall l : list Z,
    StronglySorted Z.lt (np_unique l) /\ (forall v, In v (np_unique l) <-> In v l).
Proof. exact np_unique_meaning_proof. Qed.
Print Assumptions np_unique_meaning.

Theorem unique_values_spec :
  forall c : coo Z,
    canonical Z c -> shape_ok (c_shape c) ->
    ss_unique_values c = np_unique_values (todense c).
Proof. exact unique_values_spec_proof. Qed.
Print Assumptions unique_values_spec.

(* values in ascending order with matching counts, whether or not the fill value is also stored *)
Theorem unique_counts_spec :
  forall c : coo Z,
    canonical Z c -> shape_ok (c_shape c) ->
    ss_unique_counts c = np_unique_counts_arr (todense c).
Proof. exact unique_counts_spec_proof. Qed.
Print Assumptions unique_counts_spec.



(* ------------------------------------------------------------------ _sort_coo *)

(* For every canonical 2-d input (group coordinate, sort coordinate) — any position of the fill
   value among the stored values, ties with it included, rows empty, partial or full — the
   kernel's output is canonical and each of its dense rows is Sorted (in the requested direction)
   and a Permutation of the DENSE input row. *)
Theorem sort_coo_row :
  forall (gc sc data : list Z) (fill R L : Z) (desc : bool) (ri d' : list Z),
    length sc = length gc -> 0 <= L ->
    canonical Z (mkCOO [R; L] (zip2 gc sc) data fill) ->
    sort_coo gc sc data fill L desc = (gc, ri, d') ->
    canonical Z (mkCOO [R; L] (zip2 gc ri) d' fill)
    /\ forall r, 0 <= r < R ->
         Sorted (ord_le desc) (row2 (mkCOO [R; L] (zip2 gc ri) d' fill) L r)
         /\ Permutation (row2 (mkCOO [R; L] (zip2 gc sc) data fill) L r)
                        (row2 (mkCOO [R; L] (zip2 gc ri) d' fill) L r).
Proof. exact sort_coo_row_proof. Qed.
Print Assumptions sort_coo_row.

(* a sorted permutation of a list of integers is what np.sort (reversed when descending) returns *)
Theorem sorted_permutation_is_np_sort :
  forall (desc : bool) (l l' : list Z),
    Sorted (ord_le desc) l' /\ Permutation l l' -> l' = np_sort_dir desc l.
Proof. exact is_sort_of_unique. Qed.
Print Assumptions sorted_permutation_is_np_sort.

(* ------------------------------------------------------------------ sparse.sort through its plumbing
   (normalize_axis, x[None,:] / squeeze(0) for 1-d input, moveaxis = transposition with re-sorting
   of the entries, the two reshapes): 1-d and 2-d inputs, every valid axis.  The general statement is sort_nd below; these
   three are its readable row/column forms. *)

(* 1-d input, axis 0 or -1: canonical 1-d result whose dense data is np.sort (reversed when
   descending) of the dense input; any extent, 0 and 1 included *)
Theorem sort_1d :
  forall (n axis : Z) (cs : list idx) (data : list Z) (fill : Z) (desc : bool),
    (axis = 0 \/ axis = -1) -> 0 <= n ->
    canonical Z (mkCOO [n] cs data fill) ->
    exists y, ss_sort (mkCOO [n] cs data fill) axis desc = Ok y
      /\ c_shape y = [n] /\ c_fill y = fill /\ canonical Z y
      /\ flat1 y n = np_sort_dir desc (flat1 (mkCOO [n] cs data fill) n).
Proof. exact sort_1d_proof. Qed.
Print Assumptions sort_1d.

(* 2-d input, last axis (1 or -1), any extents (a length-0 axis included) *)
Theorem sort_2d_last_axis :
  forall (R L axis : Z) (cs : list idx) (data : list Z) (fill : Z) (desc : bool),
    last_axis_2d axis -> 0 <= L ->
    canonical Z (mkCOO [R; L] cs data fill) ->
    exists y, ss_sort (mkCOO [R; L] cs data fill) axis desc = Ok y
      /\ c_shape y = [R; L] /\ c_fill y = fill /\ canonical Z y
      /\ forall r, 0 <= r < R -> row2 y L r = np_sort_dir desc (row2 (mkCOO [R; L] cs data fill) L r).
Proof. exact sort_2d_last_axis_proof. Qed.
Print Assumptions sort_2d_last_axis.

(* 2-d input, first axis (0 or -2): every dense column of the result is the sorted dense column *)
Theorem sort_2d_first_axis :
  forall (R L axis : Z) (cs : list idx) (data : list Z) (fill : Z) (desc : bool),
    (axis = 0 \/ axis = -2) -> 0 <= R ->
    canonical Z (mkCOO [R; L] cs data fill) ->
    exists y, ss_sort (mkCOO [R; L] cs data fill) axis desc = Ok y
      /\ c_shape y = [R; L] /\ c_fill y = fill /\ canonical Z y
      /\ forall k, 0 <= k < L -> col2 y R k = np_sort_dir desc (col2 (mkCOO [R; L] cs data fill) R k).
Proof. exact sort_2d_first_axis_proof. Qed.
Print Assumptions sort_2d_first_axis.

(* ANY number of dimensions (>= 1), ANY valid axis (negative numbers included), both directions: the
   result is canonical, has the input's shape and fill value, and the element at every position ix is
   the element number ix[axis] of np.sort (reversed when descending) of the dense line through ix along
   the axis (line_f (den x) sh a ix = [den x (ix with component a set to k) for k in range(sh[a])]) —
   i.e. sparse.sort = NumPy's sort on the dense array, through normalize_axis, x[None,:]/squeeze(0),
   moveaxis (a transposition that re-sorts the entries), both reshapes and the kernel.  The plumbing
   steps are instances of agent-c08's generic remapping theorems (Proofs/ShapeOpsL.v). *)
Theorem sort_nd :
  forall (x : coo Z) (axis : Z) (desc : bool) (a : nat),
    canonical Z x -> shape_ok (c_shape x) -> (1 <= length (c_shape x))%nat ->
    NpSort.norm_axis (ndimZ x) axis = Some a ->
    exists y, ss_sort x axis desc = Ok y /\ c_shape y = c_shape x /\ c_fill y = c_fill x /\ canonical Z y
      /\ forall ix, in_range (c_shape x) ix ->
           den y ix = nth (Z.to_nat (nth a ix 0)) (np_sort_dir desc (line_f (den x) (c_shape x) a ix)) 0.
Proof. exact sort_nd_proof. Qed.
Print Assumptions sort_nd.

(* ------------------------------------------------------------------ _compute_minmax_args *)

(* For every canonical 2-d input (reduce coordinate, index coordinate; stored values equal to the fill
   value allowed: since the Round-7 repair they count as fill values) with a non-empty
   reduced axis, the argument the kernel's result holds for index k is the first position
   attaining the extremum of the dense line k. *)
Theorem argminmax_first :
  forall (rc ic data : list Z) (N M fill : Z) (maxm : bool),
    length ic = length rc -> 0 < N ->
    canonical Z (mkCOO [N; M] (zip2 rc ic) data fill) ->
    forall k,
      first_best_on maxm (fun i => den (mkCOO [N; M] (zip2 rc ic) data fill) [i; k]) N
                    (arg_result (minmax_args rc ic data N fill maxm) k).
Proof. exact argminmax_first_proof. Qed.
Print Assumptions argminmax_first.

(* the first position attaining the extremum is np.argmax / np.argmin of the line *)
Theorem first_best_is_np_argbest :
  forall (maxm : bool) (f : Z -> Z) (n i : Z),
    first_best_on maxm f n i -> i = np_argbest maxm (map f (zrange n)).
Proof. exact first_best_np. Qed.
Print Assumptions first_best_is_np_argbest.


(* ------------------------------------------------------------------ argmax / argmin through the plumbing
   2-d input, first axis (0 or -2), keepdims or not: the result has NumPy's shape and holds, for
   every index k of the other axis, np.argmax / np.argmin of the dense column k (arg_emb kd k is
   [0; k] with keepdims, [k] without).  The general statements are argminmax_nd, argminmax_1d and
   argminmax_axis_none below. *)
Theorem argminmax_2d_first_axis :
  forall (maxm kd : bool) (N M axis : Z) (cs : list idx) (data : list Z) (fill : Z),
    (axis = 0 \/ axis = -2) -> 0 < N -> 0 <= M ->
    canonical Z (mkCOO [N; M] cs data fill) ->
    exists z, ss_argminmax maxm (mkCOO [N; M] cs data fill) (Some axis) kd = Ok z
      /\ c_shape z = (if kd then [1; M] else [M])
      /\ forall k, den z (arg_emb kd k) = np_argbest maxm (col2 (mkCOO [N; M] cs data fill) N k).
Proof. exact argminmax_2d_first_axis_proof. Qed.
Print Assumptions argminmax_2d_first_axis.

(* ANY number of dimensions >= 2, ANY valid axis, keepdims or not (canonical input, non-empty
   reduced axis): with rs = the shape without the reduced axis, the result has shape rs (or rs with a 1
   inserted at the axis when keepdims) and holds at every index o of the other axes np.argmax/np.argmin
   of the dense line through o (ins a i o = o with i inserted at position a) *)
Theorem argminmax_nd :
  forall (maxm kd : bool) (x : coo Z) (axis : Z) (a : nat),
    canonical Z x -> shape_ok (c_shape x) -> (2 <= length (c_shape x))%nat ->
    NpSort.norm_axis (ndimZ x) axis = Some a -> 0 < nth a (c_shape x) 0 ->
    let rs := remove_nth (c_shape x) a in
    exists z, ss_argminmax maxm x (Some axis) kd = Ok z
      /\ c_shape z = (if kd then ins a 1 rs else rs) /\ canonical Z z
      /\ forall o, in_range rs o ->
           den z (if kd then ins a 0 o else o)
           = np_argbest maxm (map (fun i => den x (ins a i o)) (zrange (nth a (c_shape x) 0))).
Proof. exact argminmax_nd_ge2_proof. Qed.
Print Assumptions argminmax_nd.

(* 1-d input, axis 0 or -1: shape (1,) with keepdims, 0-d without *)
Theorem argminmax_1d :
  forall (maxm kd : bool) (n axis : Z) (cs : list idx) (data : list Z) (fill : Z),
    (axis = 0 \/ axis = -1) -> 0 < n ->
    canonical Z (mkCOO [n] cs data fill) ->
    exists z, ss_argminmax maxm (mkCOO [n] cs data fill) (Some axis) kd = Ok z
      /\ c_shape z = (if kd then [1] else []) /\ canonical Z z
      /\ den z (if kd then [0] else []) = np_argbest maxm (flat1 (mkCOO [n] cs data fill) n).
Proof. exact argminmax_1d_proof. Qed.
Print Assumptions argminmax_1d.

(* axis=None, any number of dimensions >= 1, non-empty array: the index of the first extremum of the
   row-major flattened array; shape (1,...,1) with keepdims, 0-d without *)
Theorem argminmax_axis_none :
  forall (maxm kd : bool) (x : coo Z),
    canonical Z x -> shape_ok (c_shape x) -> (1 <= length (c_shape x))%nat ->
    0 < size (c_shape x) ->
    let nd := length (c_shape x) in
    exists z, ss_argminmax maxm x None kd = Ok z
      /\ c_shape z = (if kd then ones nd else []) /\ canonical Z z
      /\ den z (if kd then zeros nd else [])
         = np_argbest maxm (map (fun i => den x (unravel (c_shape x) i)) (zrange (size (c_shape x)))).
Proof. exact argminmax_none_proof. Qed.
Print Assumptions argminmax_axis_none.

(* an empty reduced axis, or an empty array with axis=None, raises ValueError (as NumPy does) *)
Theorem argminmax_empty_rejected :
  forall (maxm kd : bool) (x : coo Z),
    (1 <= length (c_shape x))%nat ->
    (size (c_shape x) = 0 -> ss_argminmax maxm x None kd = Raise ValueError)
    /\ (forall axis a, NpSort.norm_axis (ndimZ x) axis = Some a -> nth a (c_shape x) 0 = 0 ->
          ss_argminmax maxm x (Some axis) kd = Raise ValueError).
Proof. exact argminmax_empty_rejected_proof. Qed.
Print Assumptions argminmax_empty_rejected.

(* ------------------------------------------------------------------ tie to the source text
   Gen/S_sortsearch.v is regenerated from /repo on every run (tools/sitegen/sortsearch.py: the
   normalised text of every line of each function); Model/SortSearchSrc.v is the text the model was
   transcribed from.  Any edit of one of these functions makes these statements fail. *)
(* ------------------------------------------------------------------ Spec-as-proved = Spec-as-judged
   The pointwise statements above, lifted to the EXECUTABLE dense-array functions of Spec/NpSort.v that
   Corr/C10Judge.v evaluates on every generated case (res_dense maps Ok c to Ok (todense c)):
   for EVERY axis argument (valid, negative, out of range; None for argmax/argmin), every ndim >= 1,
   empty axes and empty arrays included, the wrapper's outcome — array or ValueError — is NumPy's. *)
Theorem sort_dense :
  forall (x : coo Z) (axis : Z) (desc : bool),
    canonical Z x -> shape_ok (c_shape x) -> (1 <= length (c_shape x))%nat ->
    res_dense (ss_sort x axis desc) = np_sort_axis (todense x) axis desc.
Proof. exact sort_dense_proof. Qed.
Print Assumptions sort_dense.

Theorem argminmax_dense :
  forall (maxm kd : bool) (x : coo Z) (axis : option Z),
    canonical Z x -> shape_ok (c_shape x) -> (1 <= length (c_shape x))%nat ->
    res_dense (ss_argminmax maxm x axis kd) = np_argbest_axis maxm (todense x) axis kd.
Proof. exact argminmax_dense_proof. Qed.
Print Assumptions argminmax_dense.

(* the axis normalisation of the model (NpSort.norm_axis) is the fragment of _utils.normalize_axis
   translated from the source on every run (ShapeOps.norm_axis over Gen/G_shapeops.v) *)
Theorem norm_axis_generated :
  forall nd a : Z, 0 <= nd ->
    match NpSort.norm_axis nd a with
    | Some k => ShapeOps.norm_axis nd a = Ok (Z.of_nat k)
    | None => ShapeOps.norm_axis nd a = Raise ValueError
    end.
Proof. exact norm_axis_generated_proof. Qed.
Print Assumptions norm_axis_generated.

Theorem kernel_sources_pinned :
  src_sort_coo = pinned_sort_coo /\ src_compute_minmax_args = pinned_compute_minmax_args
  /\ src_unique_counts = pinned_unique_counts /\ src_unique_values = pinned_unique_values.
Proof. exact kernel_sources_pinned_proof. Qed.
Print Assumptions kernel_sources_pinned.

Theorem wrapper_sources_pinned :
  src_sort = pinned_sort /\ src_arg_minmax_common = pinned_arg_minmax_common
  /\ src_argwhere = pinned_argwhere /\ src_where = pinned_where /\ src_COO_nonzero = pinned_COO_nonzero.
Proof. exact wrapper_sources_pinned_proof. Qed.
Print Assumptions wrapper_sources_pinned.
