(* Props/C17.v — property-level statements for C17 (all call paths to an operation agree).
   Only statements, each closed by [exact] of a lemma of Proofs/DispatchP.v, with Print Assumptions.
   The tables ([wrappers], [namespace], [class_attrs], [af_steps], [au_facts], [array_guard], [numpy_names],
   [op_classes], collected in [tables]) are REGENERATED from /repo's source by tools/sitegen/dispatch.py on
   every run (Gen/S_dispatch.v); [resolve] (Model/Dispatch.v) interprets them.

   FULL statements that are FALSE of the code as it stands (kept here as comments, refuted below):
     (F2) forall cls (op, ss) in op_classes, s1 s2 in ss, resolve cls s1 = resolve cls s2
          — false: an operation a class lacks fails with AttributeError in one spelling
            and TypeError in another (unsupported_exception_class_refuted); COO/GCXS isnan, isinf, mT
            (and, since the repair ea90286 of the DOK stubs, DOK isnan/isinf) have a second,
            independent algorithm beside the generic path — agreement is then checked by correspondence only
            (spellings_two_algorithms_refuted);
     (F3) every call shape that binds to the method binds to the NEP-18 spelling
          — false: np.sum(x, 0), np.var(x, ddof=1) (np_call_shapes_refuted, np_keyword_refuted). *)
From Coq Require Import ZArith List String Bool.
From Verif Require Import Dispatch S_dispatch DispatchP.
From Verif Require Import Py Shape COO COOP GCXS Convert ConvertG ShapeOps NpShapeOps ShapeOpsG Elemwise ElemwiseP ElemwiseGenP ReduceExt DispatchDenP.
Import ListNotations.
Open Scope string_scope.

(* Calling a namespace wrapper that passes [wrapper_ok] is calling the method with the explicitly passed
   arguments renamed through the forwarding map — for every method semantics [body], receiver, positional and
   keyword arguments forming a well-formed call of the wrapper. *)
Theorem wrapper_ok_sound :
  forall (V : Type) (inj : lit -> V) (R : Type) (body : string -> V -> list (string * V) -> pres R),
    (forall a b, lit_equiv a b = true -> inj a = inj b) ->
    forall msig w, wrapper_ok msig w = true ->
    exists nf, name_fwd msig (w_fwd w) = Some nf /\
    forall recv ps kws pk,
      assign_pos V (w_sig w) (recv :: ps) = Some ((w_recv w, recv) :: pk) ->
      forallb (kw_ok (w_sig w)) (map fst kws) = true ->
      nodupb (w_recv w :: map fst (pk ++ kws)%list) = true ->
      call_wrapper V inj R body msig w (recv :: ps) kws =
      call_method V inj R body msig (target_name w) recv [] (rename V nf (pk ++ kws)%list).
Proof. exact wrapper_ok_sound_proof. Qed.
Print Assumptions wrapper_ok_sound.

(* every wrapper of the GENERATED table is faithful, for every class that has the target method.  (Before the repairs
   6f38899 / f87860e of sparse.clip this held only for non-coercing wrappers, with a refutation witness.) *)
Theorem wrappers_faithful :
  forall cls w msig, In cls classes -> In w wrappers ->
    method_sig tables cls (target_name w) = Some msig -> wrapper_ok msig w = true.
Proof. exact wrappers_faithful_proof. Qed.
Print Assumptions wrappers_faithful.

Theorem reductions_forward_identically :
  forall cls l name a, In (cls, l) class_attrs -> In (name, a) l -> method_forwards_ok a = true.
Proof. exact reductions_forward_identically_proof. Qed.
Print Assumptions reductions_forward_identically.

(* x op y calls ufunc/function (x, y); y op x (reflected) calls it with (y, x) — for every binary operator, class *)
Theorem operators_operand_order : forall cls, In cls classes -> operand_order_ok tables cls = true.
Proof. exact operators_operand_order_proof. Qed.
Print Assumptions operators_operand_order.

(* all spellings of one operation end in the same computation *)
Theorem spellings_agree_partial :
  forall cls op ss s1 s2,
    In cls classes -> In (op, ss) op_classes ->
    supported tables cls ss = true -> clause_single_algorithm cls op = true ->
    In s1 ss -> In s2 ss ->
    resolve tables false FUEL cls s1 = resolve tables false FUEL cls s2.
Proof. exact spellings_agree_partial_proof. Qed.
Print Assumptions spellings_agree_partial.

Theorem spellings_two_algorithms_refuted :
  exists cls op ss s1 s2, In cls classes /\ In (op, ss) op_classes /\ In s1 ss /\ In s2 ss /\
    supported tables cls ss = true /\
    resolve tables false FUEL cls s1 = LfBody "COO" "isnan" /\ resolve tables false FUEL cls s2 = LfElemwise "isnan".
Proof. exact spellings_two_algorithms_refuted_proof. Qed.
Print Assumptions spellings_two_algorithms_refuted.

(* (the former spellings_stub_refuted — DOK.isnan/isinf returned None — is repaired in /repo; instead:) *)
Theorem no_spelling_reaches_a_stub :
  forall cls op ss s, In cls classes -> In (op, ss) op_classes -> In s ss ->
    is_stub_leaf (resolve tables false FUEL cls s) = false.
Proof. exact no_spelling_reaches_a_stub_proof. Qed.
Print Assumptions no_spelling_reaches_a_stub.

(* (the former spellings_coerced_refuted — sparse.clip returned COO for GCXS/DOK — is repaired in /repo; instead:) *)
Theorem no_spelling_coerces :
  forall cls op ss s, In cls classes -> In (op, ss) op_classes -> In s ss ->
    is_coerced_leaf (resolve tables false FUEL cls s) = false.
Proof. exact no_spelling_coerces_proof. Qed.
Print Assumptions no_spelling_coerces.

(* the method bodies that duplicate a ufunc path (COO.isnan / isinf) build their result with prune=True, GCXS / DOK
   delegate to them: the hypothesis under which [coo_map] (which prunes) is their model in unary_paths_agree *)
Theorem dup_bodies_prune : forall cls m b, In (cls, m, b) dup_bodies -> dup_body_prunes b = true.
Proof. exact dup_bodies_prune_proof. Qed.
Print Assumptions dup_bodies_prune.

Theorem unsupported_exception_class_refuted :
  exists op ss s1 s2, In (op, ss) op_classes /\ In s1 ss /\ In s2 ss /\
    resolve tables false FUEL "DOK" s1 = LfAttributeError /\ resolve tables false FUEL "DOK" s2 = LfTypeError.
Proof. exact unsupported_exception_class_refuted_proof. Qed.
Print Assumptions unsupported_exception_class_refuted.

(* x.__array_namespace__() is the sparse module: every name resolves as in the namespace *)
Theorem array_namespace_is_namespace :
  forall ad fuel cls n,
    resolve tables ad (S fuel) cls (ArrayNamespace n) = resolve tables ad fuel cls (Namespace n).
Proof. exact array_namespace_is_namespace_proof. Qed.
Print Assumptions array_namespace_is_namespace.

(* a NEP-18 dispatched NumPy function whose name is neither in the sparse namespace nor on the type is
   declined (NotImplemented => TypeError), for EVERY name *)
Theorem unimplemented_raises :
  forall cls n name subs unary,
    assoc n numpy_names = Some (NpFunction name subs) ->
    (subs = [] -> assoc name namespace = None) ->
    attr_lookup tables cls name = None -> inst_has tables cls name = false ->
    resolve tables false FUEL cls (NumpyFunction n unary) = LfTypeError.
Proof. exact unimplemented_raises_proof. Qed.
Print Assumptions unimplemented_raises.

Theorem ufunc_method_unhandled_raises :
  forall cls u name m,
    assoc u numpy_names = Some (NpUfunc name false) ->
    m <> "__call__" -> m <> "reduce" -> m <> "outer" ->
    resolve tables false FUEL cls (Ufunc u m) = LfTypeError.
Proof. exact ufunc_method_unhandled_raises_proof. Qed.
Print Assumptions ufunc_method_unhandled_raises.

(* np.<ufunc>.outer(a, b, ...): with the operand bookkeeping EXTRACTED from the "outer" branch of
   __array_ufunc__ (loop over reversed(inputs), append before incrementing cum_ndim, list reversed back) the
   operands reach elemwise in call order, each followed by as many new axes as the operands to its right have
   in total — NumPy's outer — for every number of operands and every ndim. *)
Theorem ufunc_outer_operand_order :
  forall (A : Type) (l : list (A * Z)),
    match au_outer_order au_facts with
    | Some o => outer_inputs A o l = np_outer_spec A l
    | None => False
    end.
Proof. exact ufunc_outer_operand_order_proof. Qed.
Print Assumptions ufunc_outer_operand_order.

Theorem array_coercion_raises :
  forall cls, resolve tables false FUEL cls ArrayCoercion = LfRuntimeError.
Proof. exact array_coercion_raises_proof. Qed.
Print Assumptions array_coercion_raises.

(* no spelling whatsoever — any name, ufunc method, operator, fuel — ends in a densification *)
Theorem resolve_never_densifies :
  forall fuel cls s, has_densify (resolve tables false fuel cls s) = false.
Proof. exact (resolve_never_densifies_proof tables eq_refl). Qed.
Print Assumptions resolve_never_densifies.

Theorem np_call_shapes_refuted :
  exists w msig npos kws, In w wrappers /\ method_sig tables "COO" (target_name w) = Some msig /\
    bind_shape msig npos kws = true /\ bind_shape (w_sig w) (S npos) kws = false.
Proof. exact np_call_shapes_refuted_proof. Qed.
Print Assumptions np_call_shapes_refuted.

Theorem np_keyword_refuted :
  exists w msig kws, In w wrappers /\ method_sig tables "COO" (target_name w) = Some msig /\
    bind_shape msig 0 kws = true /\ bind_shape (w_sig w) 1 kws = false.
Proof. exact np_keyword_refuted_proof. Qed.
Print Assumptions np_keyword_refuted.

(* ------------------------------------------------------------------ EXTENSION: the two-algorithm operations
   (clause two_algorithm_ops) agree on the dense meaning.  These statements are about the array models of C01
   (Model/Elemwise.v), C03 (coo_map), C05 (conversions) and C08 (shape operations), imported read-only. *)

(* x.mT / x.T / x.transpose(axes) on GCXS vs sparse.matrix_transpose / permute_dims through the COO conversion *)
Theorem transpose_paths_agree_den :
  forall (V : Type) (veqb : V -> V -> bool) (add : V -> V -> V) (c : coo V) (ca : list Z)
         (axes : option (list Z)) (r1 : gcxs V) (r2 : coo V),
    canonical V c -> shape_ok (c_shape c) -> axes_ok (c_shape c) ca ->
    gcxs_transpose (gcxs_from_coo c ca) axes = Ok r1 ->
    coo_transpose (gcxs_tocoo veqb add (gcxs_from_coo c ca)) axes = Ok r2 ->
    g_shape r1 = c_shape r2 /\ g_fill r1 = c_fill r2 /\
    forall ix, in_range (c_shape r2) ix -> gden r1 ix = den r2 ix.
Proof. exact transpose_paths_agree_den_proof. Qed.
Print Assumptions transpose_paths_agree_den.

(* COO.isnan() / COO.isinf() (own body = coo_map) vs np.isnan(x) = elemwise(np.isnan, x): the same array *)
Theorem unary_paths_agree :
  forall (V : Type) (veqb : V -> V -> bool) (vzero : V) (srt : list Z -> list nat) (g : V -> V) (c : coo V) (r : coo V),
    is_argsort srt -> (forall a b, veqb a b = true <-> a = b) ->
    canonical V c -> shape_ok (c_shape c) -> c_shape c <> [] ->
    elemwise V veqb vzero (fun l => g (hd vzero l)) srt [OSp c] = OutSparse r ->
    r = coo_map veqb g c.
Proof. exact unary_paths_agree_proof. Qed.
Print Assumptions unary_paths_agree.
