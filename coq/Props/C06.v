(* Props/C06.v — property-level statements for C06 (canonical form of every result).  Only
   statements, each closed by [exact] of a lemma proved elsewhere, with Print Assumptions beneath.

   Part 1: the COO constructor establishes the canonical form exactly when the promises its
   caller passes (sorted=, has_duplicates=) are true; every call site of the backend whose flags
   promise something (table GENERATED from the source: Gen/S_ctor_sites.v) is matched by an entry
   of the justification table Model/Ctor.v:site_justification; the schemas the entries cite.
   Part 2: every result of every program over operations that keep the canonical form is
   canonical, and nnz counts the non-fill elements.

   History: finding D8 (the csr @ csr kernel stored unsorted rows under the GCXS constructor's
   unchecked promise) was repaired (fix cab5c1c); that site is now justified by schema
   RowsSortedByKernel and the kernel's rows are proved sorted (csr_csr_rows_strictly_increasing).
   from_scipy_sparse of a SciPy matrix with unsorted rows (found independently by this check and
   C05) was repaired too (fix c3f2e26).
   All findings of this check so far (from_scipy_sparse with unsorted rows, the csc @ ndarray sparse kernel,
   einsum storing cancelled sums, GCXS getitem with None and an integer) have been repaired in the
   repository; a recurrence is a plain violation. *)
From Coq Require Import String ZArith List Bool Sorting.Sorted.
From Verif Require Import Shape COO COOP GCXS Ctor S_ctor_sites CtorP Prog ProgP.
Import ListNotations.
Open Scope Z_scope.

(* ================================================================== part 1: the constructor *)

Theorem ctor_canonical :
  forall (V : Type) (veqb : V -> V -> bool) (add : V -> V -> V),
    (forall a b : V, veqb a b = true <-> a = b) ->
    forall (sh : shape) (fl : flags) (coords : list idx) (data : list V) (fill : V),
      length data = length coords ->
      Forall (in_range sh) coords ->
      (f_sorted fl = true -> StronglySorted lex_le coords) ->
      (f_has_duplicates fl = false -> NoDup coords) ->
      canonical V (coo_ctor V veqb add fl coords data sh fill).
Proof. exact ctor_canonical_proof. Qed.
Print Assumptions ctor_canonical.

Theorem ctor_den :
  forall (V : Type) (veqb : V -> V -> bool) (add : V -> V -> V),
    (forall a b : V, veqb a b = true <-> a = b) ->
    forall (sh : shape) (fl : flags) (coords : list idx) (data : list V) (fill : V) (ix : idx),
      length data = length coords ->
      Forall (in_range sh) coords ->
      (f_sorted fl = true -> StronglySorted lex_le coords) ->
      (f_has_duplicates fl = false -> NoDup coords) ->
      in_range sh ix ->
      den (coo_ctor V veqb add fl coords data sh fill) ix
      = sum_vals add fill (vals_at (combine coords data) ix).
Proof. exact ctor_den_proof. Qed.
Print Assumptions ctor_den.

Theorem ctor_pruned :
  forall (V : Type) (veqb : V -> V -> bool) (add : V -> V -> V),
    (forall a b : V, veqb a b = true <-> a = b) ->
    forall (sh : shape) (fl : flags) (coords : list idx) (data : list V) (fill : V),
      length data = length coords ->
      Forall (in_range sh) coords ->
      (f_sorted fl = true -> StronglySorted lex_le coords) ->
      (f_has_duplicates fl = false -> NoDup coords) ->
      f_prune fl = true ->
      prunedb veqb (coo_ctor V veqb add fl coords data sh fill) = true.
Proof. exact ctor_pruned_proof. Qed.
Print Assumptions ctor_pruned.

(* the promises are load-bearing: a false one yields a non-canonical array *)
Theorem ctor_promise_needed :
  exists coords data sh fill,
    length data = length coords /\ Forall (in_range sh) coords /\ NoDup coords /\
    canonicalb (coo_ctor Z Z.eqb Z.add (mkFlags true false false) coords data sh fill) = false.
Proof. exact ctor_promise_needed_proof. Qed.
Print Assumptions ctor_promise_needed.

Theorem ctor_dup_promise_needed :
  exists coords data sh fill,
    length data = length coords /\ Forall (in_range sh) coords /\ StronglySorted lex_le coords /\
    canonicalb (coo_ctor Z Z.eqb Z.add (mkFlags false false false) coords data sh fill) = false.
Proof. exact ctor_dup_promise_needed_proof. Qed.
Print Assumptions ctor_dup_promise_needed.

(* ================================================================== part 1: the call sites *)

(* every constructor call of the source whose flags promise something is in the table, with
   exactly the flags the source passes now *)
Theorem all_promises_justified :
  forallb (site_has_justification coo_init_defaults site_justification) ctor_sites = true.
Proof. vm_compute. reflexivity. Qed.
Print Assumptions all_promises_justified.

(* ... and the table has no entry for a site the source no longer has *)
Theorem no_stale_justifications :
  forallb (entry_has_site ctor_sites) site_justification = true.
Proof. vm_compute. reflexivity. Qed.
Print Assumptions no_stale_justifications.

(* every theorem of another property's development that the table cites (JustifiedBy) is in the registry
   Proofs/ProgP.v:citations, where a corollary about the producer's model is closed with it — a cited
   theorem that disappears or changes its statement breaks the build *)
Theorem every_cited_theorem_exists :
  forallb cited_in_registry site_justification = true.
Proof. vm_compute. reflexivity. Qed.
Print Assumptions every_cited_theorem_exists.

(* every expression of the source that decides which entries are pruned is `~equivalent(data, fill)`
   — the NaN-aware token equality — on the expected operands (GENERATED list; a `!=` / `==`
   comparison, another helper or a renamed operand no longer matches), and COO._reduce_return prunes
   through the constructor *)
Theorem prune_sites_use_equivalent :
  list_eqb5 (map prune_key prune_sites) prune_expected = true /\ coo_reduce_return_prunes ctor_sites = true.
Proof. vm_compute. split; reflexivity. Qed.
Print Assumptions prune_sites_use_equivalent.

(* ... which is what makes the result pruned: whatever the token equality is *)
Theorem prune_by_equivalent_pruned :
  forall (V : Type) (veqb : V -> V -> bool) (fill : V) (data : list V),
    forallb (fun v => negb (veqb v fill)) (prune_by (fun v => negb (veqb v fill)) data) = true.
Proof. exact @prune_by_equivalent_pruned_proof. Qed.
Print Assumptions prune_by_equivalent_pruned.

(* ... and an IEEE `!=` mask does not (NaN fill) *)
Theorem prune_by_ieee_neq_not_pruned :
  exists (nan fill : Z) (data : list Z),
    forallb (fun v => negb (v =? fill)) (prune_by (fun v => ieee_neq nan v fill) data) = false.
Proof. exact prune_by_ieee_neq_not_pruned_proof. Qed.
Print Assumptions prune_by_ieee_neq_not_pruned.

(* the key the constructor sorts and deduplicates by is np.ravel_multi_index(coords, shape) — intp, signed —
   for every shape but () (GENERATED return paths of linear_loc / COO.linear_loc): Model/Ctor.v's `key` = ravel.
   Returning the coordinate array itself (narrow or unsigned dtype) no longer matches *)
Theorem linear_loc_is_ravel_multi_index :
  list_eqb3 linear_loc_returns linear_loc_expected = true.
Proof. vm_compute. reflexivity. Qed.
Print Assumptions linear_loc_is_ravel_multi_index.

(* why the dtype matters: on an unsigned key the "already sorted" test `(np.diff(linear) >= 0).all()` is vacuous *)
Theorem unsigned_key_test_is_vacuous :
  (forall (w : Z) (l : list Z), 0 <= w -> nondec_wrapped w l = true)
  /\ exists l : list Z, nondec_wrapped 8 l = true /\ nondec l = false.
Proof. exact (conj nondec_wrapped_always_proof unsigned_key_test_accepts_unsorted_proof). Qed.
Print Assumptions unsigned_key_test_is_vacuous.

(* the `sorted=sorted` flag of the broadcast_to site: the GENERATED statements that compute it are exactly
   "all consecutive non-broadcast axes differ by 1" (an `any`, another test or another list no longer matches), that
   expression is C08's `adjacent`, and under it the expanded coordinates are in row-major order
   (C08.broadcast_to_sorted_rule_sound); the `any` reading would promise order for (2,3,1,4) -> (2,3,5,4) *)
Theorem broadcast_to_sorted_flag_sound :
  list_eqb3 broadcast_sorted_rule broadcast_sorted_expected = true
  /\ (forall (V : Type) (x : coo V) (params : list (option bool)) (bs : shape),
        canonical V x -> ShapeOpsP.aligned params (c_shape x) bs ->
        all_diffs_one (ShapeOps.true_positions params 0) = true ->
        StronglySorted lex_lt (map fst (ShapeOps.expand_entries params bs (entries x))))
  /\ (any_diff_one [0; 1; 3] = true /\ all_diffs_one [0; 1; 3] = false).
Proof. exact (conj (eq_refl : list_eqb3 broadcast_sorted_rule broadcast_sorted_expected = true) (conj cite_broadcast_flag_sound any_diff_one_unsound)). Qed.
Print Assumptions broadcast_to_sorted_flag_sound.

(* an absent flag promises nothing: the defaults of COO.__init__ are sorted=False,
   has_duplicates=True (prune=False), of GCXS.__init__ prune=False *)
Theorem constructor_defaults_promise_nothing :
  coo_init_defaults = (FFalse, FTrue, FFalse) /\ gcxs_init_defaults = FFalse.
Proof. vm_compute. split; reflexivity. Qed.
Print Assumptions constructor_defaults_promise_nothing.

(* no site's promise is known to be false (the sites this check refuted earlier — csr @ csr, from_scipy_sparse,
   csc @ ndarray, GCXS getitem with None and an integer — were all repaired, the last one by the GCXS
   constructor's new indptr-length check) *)
Theorem no_refuted_site :
  forallb (fun e => match j_just e with Refuted _ => false | _ => true end) site_justification = true.
Proof. vm_compute. reflexivity. Qed.
Print Assumptions no_refuted_site.

(* from_scipy_sparse stores the arrays of the (canonicalised) SciPy matrix: well formed when its
   rows are sorted and duplicate-free, which _canonical_scipy asks SciPy to establish *)
Theorem from_scipy_wf_when_rows_sorted :
  forall m : gcxs Z,
    scipy_valid m = true ->
    forallb strictly_increasing (rows_of (g_indices m) (g_indptr m)) = true ->
    gcxs_wfb (gcxs_from_scipy m) = true.
Proof. exact from_scipy_partial_proof. Qed.
Print Assumptions from_scipy_wf_when_rows_sorted.

(* ---- the schemas cited by the table *)

Theorem schema_EmptyCoords : forall sh : shape, canon_coords sh [].
Proof. exact CtorP.schema_EmptyCoords. Qed.
Print Assumptions schema_EmptyCoords.

Theorem schema_FilterOfCanonical :
  forall (V : Type) (p : idx * V -> bool) (c : coo V),
    canonical V c -> canon_coords (c_shape c) (map fst (filter p (entries c))).
Proof. exact CtorP.schema_FilterOfCanonical_entries. Qed.
Print Assumptions schema_FilterOfCanonical.

Theorem schema_InjectiveMonotoneMap :
  forall (sh s' : shape) (f : idx -> idx) (l : list idx),
    (forall a, in_range sh a -> in_range s' (f a)) ->
    (forall a b, in_range sh a -> in_range sh b -> lex_lt a b -> lex_lt (f a) (f b)) ->
    canon_coords sh l -> canon_coords s' (map f l).
Proof. exact CtorP.schema_InjectiveMonotoneMap. Qed.
Print Assumptions schema_InjectiveMonotoneMap.

(* instance: reshape *)
Theorem reshape_is_monotone :
  forall sh s' : shape,
    shape_ok s' -> size s' = size sh ->
    (forall a, in_range sh a -> in_range s' (unravel s' (ravel sh a)))
    /\ (forall a b, in_range sh a -> in_range sh b -> lex_lt a b ->
          lex_lt (unravel s' (ravel sh a)) (unravel s' (ravel sh b))).
Proof. exact CtorP.reshape_monotone. Qed.
Print Assumptions reshape_is_monotone.

(* instance: squeeze / expand_dims (any map that keeps the linear location) *)
Theorem ravel_preserving_is_monotone :
  forall (sh s' : shape) (f : idx -> idx),
    (forall a, in_range sh a -> in_range s' (f a) /\ ravel s' (f a) = ravel sh a) ->
    forall a b, in_range sh a -> in_range sh b -> lex_lt a b -> lex_lt (f a) (f b).
Proof. exact CtorP.ravel_preserving_monotone. Qed.
Print Assumptions ravel_preserving_is_monotone.

Theorem schema_FromSortedOffsetConcat :
  forall (tail : list Z) (blocks : list (Z * list idx)),
    Forall (fun b => 0 <= fst b /\ canon_coords (fst b :: tail) (snd b)) blocks ->
    canon_coords (total_extent blocks :: tail) (offset_concat 0 blocks).
Proof. exact CtorP.schema_FromSortedOffsetConcat. Qed.
Print Assumptions schema_FromSortedOffsetConcat.

Theorem schema_AdjacentLexIncreasing :
  forall (sh : shape) (l : list idx),
    Forall (in_range sh) l -> sorted_strict l = true -> canon_coords sh l.
Proof. exact CtorP.schema_AdjacentLexIncreasing. Qed.
Print Assumptions schema_AdjacentLexIncreasing.

Theorem schema_GroupHeads :
  forall l : list Z, StronglySorted Z.le l -> StronglySorted Z.lt (group_heads l).
Proof. exact CtorP.schema_GroupHeads. Qed.
Print Assumptions schema_GroupHeads.

Theorem schema_InjectiveMap :
  forall (f : idx -> idx) (l : list idx),
    (forall a b, In a l -> In b l -> f a = f b -> a = b) -> NoDup l -> NoDup (map f l).
Proof. exact CtorP.schema_InjectiveMap. Qed.
Print Assumptions schema_InjectiveMap.

Theorem schema_MergeOfDisjointSorted :
  forall blocks : list (list idx),
    Forall (@NoDup idx) blocks ->
    ForallOrdPairs (fun b1 b2 => forall x, In x b1 -> ~ In x b2) blocks ->
    NoDup (concat blocks).
Proof. exact CtorP.schema_MergeOfDisjointSorted. Qed.
Print Assumptions schema_MergeOfDisjointSorted.

Theorem schema_SharesArraysOfWf :
  forall (V : Type) (g : gcxs V), gcxs_wfb g = true -> gcxs_wfb (gcxs_2d_transpose g) = true.
Proof. exact @CtorP.schema_SharesArraysOfWf. Qed.
Print Assumptions schema_SharesArraysOfWf.

Theorem schema_RowsSortedByKernel :
  forall l : list (Z * Z), NoDup (map fst l) -> strictly_increasing (map fst (sort_row l)) = true.
Proof. exact CtorP.schema_RowsSortedByKernel. Qed.
Print Assumptions schema_RowsSortedByKernel.

(* the csr @ csr kernel (site _common.py:_dot #0): for ANY operands whose column indices are in
   range, the linked list emits every touched column once and the row is stored sorted *)
Theorem csr_csr_rows_strictly_increasing :
  forall (a b : gcxs Z) (n_col i : Z),
    0 <= n_col -> Forall (fun k => 0 <= k < n_col) (g_indices b) ->
    strictly_increasing (map fst (csr_csr_row n_col a b i)) = true.
Proof. exact CtorP.csr_csr_row_sorted. Qed.
Print Assumptions csr_csr_rows_strictly_increasing.

(* the csc @ ndarray / ndarray @ csr sparse-result kernel (sites _common.py:_dot #2, #3): for ANY
   operands whose stored row indices are in range, every output column is stored sorted, without
   repeats *)
Theorem csc_ndarray_rows_strictly_increasing :
  forall (a : gcxs Z) (n_rows : Z) (bcol : list Z),
    0 <= n_rows -> Forall (fun k => 0 <= k < n_rows) (g_indices a) ->
    strictly_increasing (map fst (csc_nd_col n_rows a bcol)) = true.
Proof. exact CtorP.csc_nd_col_sorted. Qed.
Print Assumptions csc_ndarray_rows_strictly_increasing.

(* ================================================================== part 2: programs *)

(* over any signature: an operation-wise invariant (wf) holds of every result of every program *)
Theorem all_results_wellformed :
  forall (A O0 O1 O2 ON : Type) (sem0 : O0 -> option A) (sem1 : O1 -> A -> option A)
         (sem2 : O2 -> A -> A -> option A) (semN : ON -> list A -> option A) (wf : A -> Prop),
    (forall o r, sem0 o = Some r -> wf r) ->
    (forall o a r, wf a -> sem1 o a = Some r -> wf r) ->
    (forall o a b r, wf a -> wf b -> sem2 o a b = Some r -> wf r) ->
    (forall o l r, Forall wf l -> semN o l = Some r -> wf r) ->
    forall env : list A, Forall wf env ->
    forall (p : prog O0 O1 O2 ON) (r : A),
      eval A O0 O1 O2 ON sem0 sem1 sem2 semN env p = Some r -> wf r.
Proof. exact eval_invariant. Qed.
Print Assumptions all_results_wellformed.

(* a canonical COO without stored fill values stores exactly its non-fill elements *)
Theorem nnz_counts_nonfill_array :
  forall (V : Type) (veqb : V -> V -> bool),
    (forall a b : V, veqb a b = true <-> a = b) ->
    forall c : coo V, canonical V c -> prunedb veqb c = true -> nnz c = count_nonfill V veqb c.
Proof. exact nnz_count_proof. Qed.
Print Assumptions nnz_counts_nonfill_array.

Theorem nnz_counts_nonfill :
  forall (V : Type) (veqb : V -> V -> bool),
    (forall a b : V, veqb a b = true <-> a = b) ->
    forall (O0 O1 O2 ON : Type) (sem0 : O0 -> option (coo V)) (sem1 : O1 -> coo V -> option (coo V))
           (sem2 : O2 -> coo V -> coo V -> option (coo V)) (semN : ON -> list (coo V) -> option (coo V)),
    let good := fun c : coo V => canonical V c /\ prunedb veqb c = true in
    (forall o r, sem0 o = Some r -> good r) ->
    (forall o a r, good a -> sem1 o a = Some r -> good r) ->
    (forall o a b r, good a -> good b -> sem2 o a b = Some r -> good r) ->
    (forall o l r, Forall good l -> semN o l = Some r -> good r) ->
    forall env : list (coo V), Forall good env ->
    forall (p : prog O0 O1 O2 ON) (r : coo V),
      eval (coo V) O0 O1 O2 ON sem0 sem1 sem2 semN env p = Some r ->
      nnz r = count_nonfill V veqb r.
Proof. exact nnz_counts_nonfill_proof. Qed.
Print Assumptions nnz_counts_nonfill.

(* the instance: operations built from the constructor with the flags of the call sites they
   transcribe (full, from_numpy, triu/tril-style selection, reshape, re-normalisation,
   element-wise sum through duplicate summing, concatenate along axis 0) *)
Theorem coo_programs_wellformed :
  forall (V : Type) (veqb : V -> V -> bool) (add : V -> V -> V),
    (forall a b : V, veqb a b = true <-> a = b) ->
    forall (env : list (coo V)) (p : cprog V) (r : coo V),
      Forall (canonical V) env -> ceval V veqb add env p = Some r -> canonical V r.
Proof. exact coo_programs_wellformed_proof. Qed.
Print Assumptions coo_programs_wellformed.

Theorem coo_programs_nnz :
  forall (V : Type) (veqb : V -> V -> bool) (add : V -> V -> V),
    (forall a b : V, veqb a b = true <-> a = b) ->
    forall (env : list (coo V)) (p : cprog V) (r : coo V),
      Forall (fun c => canonical V c /\ prunedb veqb c = true) env ->
      ceval V veqb add env p = Some r ->
      canonical V r /\ prunedb veqb r = true /\ nnz r = count_nonfill V veqb r.
Proof. exact coo_programs_nnz_proof. Qed.
Print Assumptions coo_programs_nnz.
