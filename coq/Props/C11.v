(* Props/C11.v — property-level statements for C11 (operands are never modified; caching is
   unobservable).  Only statements, each closed by [exact] of a lemma proved in Proofs/CacheP.v or
   Proofs/AliasP.v, with Print Assumptions beneath.  Everything below that mentions
   [transpose_proto], [reshape_proto], [tocsr_proto], [tocsc_proto], [cache_maxlen] or [summaries]
   is about definitions REGENERATED from /repo's AST on every run (Gen/S_cache.v, Gen/S_alias.v). *)
From Coq Require Import ZArith NArith List String.
From Verif Require Import Py S_cache Cache CacheP Alias S_alias AliasP.
Import ListNotations.

(* ---------------------------------------------------------------- part 1: the cache is unobservable *)

(* One memo in isolation, any capacity (also 0), any history: the outputs of the memoised run are
   the outputs of the plain run.  [key_determines_result] is the only hypothesis: an entry stored
   under skey e0 may answer a lookup with lkey e only if f e0 = f e. *)
Theorem memo_transparent :
  forall (A E K V : Type) (keqb : K -> K -> bool) (cap : nat) (m_pre : A -> pre E)
         (lkey skey : E -> K) (f : E -> V),
    (forall e0 e, keqb (skey e0) (lkey e) = true -> f e0 = f e) ->
    forall ops : list A,
      fst (memo_run_cached A E K V keqb cap m_pre lkey skey f [] ops) = memo_run_uncached A E V m_pre f ops.
Proof. exact memo_transparent. Qed.
Print Assumptions memo_transparent.

Theorem memo_bounded :
  forall (A E K V : Type) (keqb : K -> K -> bool) (cap : nat) (m_pre : A -> pre E)
         (lkey skey : E -> K) (f : E -> V) (ops : list A) (d : @deque K V),
    (List.length d <= cap)%nat ->
    (List.length (snd (memo_run_cached A E K V keqb cap m_pre lkey skey f d ops)) <= cap)%nat.
Proof. exact memo_bounded. Qed.
Print Assumptions memo_bounded.

(* The protocol the source has NOW passes the static test: same slot and same key expression at
   lookup and store, every pre-phase local the stored result depends on is a component of the key,
   keys compared with ==, a hit returns the entry's value, what is stored is what is returned, the
   key is not re-bound in between, short-cuts precede the lookup; tocsr/tocsc memoise in _csr/_csc
   and compute the same expression with and without caching. *)
Theorem cache_protocol_shape :
  proto_ok transpose_proto = true /\ proto_ok reshape_proto = true
  /\ attr_proto_ok tocsr_proto tocsc_proto = true.
Proof. exact (conj transpose_proto_ok (conj reshape_proto_ok csr_csc_memo_shape_proof)). Qed.
Print Assumptions cache_protocol_shape.

(* The copy constructor `COO(other[, fill_value=v])` as the source has it NOW: a shallow copy of the
   attribute dictionary (so `_cache`, `_csr`, `_csc` are inherited), the fill value re-bound, and — the
   fact whose absence was defect d7a2c41 — `enable_caching()` again when a cache exists, so that a copy
   with another fill value never sees results memoised for the old one. *)
Theorem copy_site_shape : copy_site_ok coo_copy_site = true.
Proof. exact coo_copy_site_ok. Qed.
Print Assumptions copy_site_shape.

(* The whole family of cache-enabled objects derived from one COO: for every history of
   transpose / reshape / tocsr / tocsc calls and of copies — COO(t) (shares t's memo), COO(t, fill_value=f)
   (memo handled as the generated copy site says; inherits _csr/_csc), t.copy() / t.copy(deep=False) (through
   __setstate__: the copy and everything derived from it does not cache), astype(copy=False)/asformat("coo")
   (`return self`) — on the root or on any object an earlier call
   returned, of any length, with any repetition of keys, for any deque capacity, every call returns a
   value equal to the one the same call returns when the root array has no cache (init true vs init false).  The lookup/store keys, the
   dependencies of the stored results and the copy site are the generated ones.  Hypothesis on the
   oracle functions: `_tocsr` does not look at the fill value. *)
Theorem cache_transparent :
  forall (V W AT AR F : Type) (weqb : W -> W -> bool),
    (forall a b, weqb a b = true -> a = b) ->
  forall (cap : nat)
         (pre_t : V -> AT -> pre (Cache.env W)) (g_t : V -> list W -> V)
         (pre_r : V -> AR -> pre (Cache.env W)) (g_r : V -> list W -> V)
         (guard_m : V -> option exc) (mk_csr : V -> res V) (csr2csc csc2csr : V -> V)
         (refill : V -> F -> V),
    (forall v f, mk_csr (refill v f) = mk_csr v) ->
  forall (h : list (target * op AT AR F)) (v0 : V),
    out_vals V (list W) (list W)
      (coo_run V W AT AR F weqb cap pre_t g_t pre_r g_r guard_m mk_csr csr2csc csc2csr refill h (init V _ _ true v0))
    = out_vals V (list W) (list W)
      (coo_run V W AT AR F weqb cap pre_t g_t pre_r g_r guard_m mk_csr csr2csc csc2csr refill h (init V _ _ false v0)).
Proof. exact coo_cache_transparent. Qed.
Print Assumptions cache_transparent.

Theorem cache_bounded :
  forall (V W AT AR F : Type) (weqb : W -> W -> bool) (cap : nat)
         (pre_t : V -> AT -> pre (Cache.env W)) (g_t : V -> list W -> V)
         (pre_r : V -> AR -> pre (Cache.env W)) (g_r : V -> list W -> V)
         (guard_m : V -> option exc) (mk_csr : V -> res V) (csr2csc csc2csr : V -> V)
         (refill : V -> F -> V)
         (mode : bool) (h : list (target * op AT AR F)) (v0 : V) (c : nat),
    let s := coo_run V W AT AR F weqb cap pre_t g_t pre_r g_r guard_m mk_csr csr2csc csc2csr refill h (init V _ _ mode v0) in
    (List.length (d_tr (deqs s c)) <= cap /\ List.length (d_rs (deqs s c)) <= cap)%nat.
Proof. exact coo_cache_bounded. Qed.
Print Assumptions cache_bounded.

(* ---------------------------------------------------------------- part 2: operands are not modified *)

(* If the checker accepts a summary, then executing its statements in any order, any number of
   times, with any contents written, leaves every buffer of every argument as it was. *)
Theorem summary_safe_sound :
  forall (s : summary), summary_safe s = true ->
  forall (C : Type) (wr : nat -> buf -> C -> C) (sched : list nat) (sto : buf -> C) (a f : N),
    store (exec C (s_body s) wr sched 0 (start C sto)) (ABuf a f) = sto (ABuf a f).
Proof. exact summary_safe_sound_proof. Qed.
Print Assumptions summary_safe_sound.

(* The checker accepts every summary extracted from the source as it is now. *)
Theorem all_summaries_safe : forallb summary_safe summaries = true.
Proof. exact all_summaries_safe_proof. Qed.
Print Assumptions all_summaries_safe.

Theorem operands_unchanged :
  forall (s : summary), In s summaries ->
  forall (C : Type) (wr : nat -> buf -> C -> C) (sched : list nat) (sto : buf -> C) (a f : N),
    store (exec C (s_body s) wr sched 0 (start C sto)) (ABuf a f) = sto (ABuf a f).
Proof. exact operands_unchanged_proof. Qed.
Print Assumptions operands_unchanged.

(* The explicit out= target (exempt by the property's wording): _make_shallow_copy_of re-binds the
   attributes of exactly one object — the target — to those of the computed result; every other
   object keeps its attributes (and no buffer is written: the swap is a Bind-free attribute store,
   see the summaries of __array_ufunc__).  The second statement is about the source as it is now. *)
Theorem out_swap_only_target :
  forall (D : Type) (h : oheap D) (self other : nat),
    shallow_copy_of D h self other self = h other
    /\ forall i, i <> self -> shallow_copy_of D h self other i = h i.
Proof. exact out_swap_only_target_proof. Qed.
Print Assumptions out_swap_only_target.

Theorem out_protocol_shape : (shallow_copy_is_dict_swap && ufunc_swaps_only_out)%bool = true.
Proof. exact out_protocol_shape_proof. Qed.
Print Assumptions out_protocol_shape.

(* A scipy.sparse matrix is a legal operand too.  In the anchored files every in-place scipy method
   (sum_duplicates, sort_indices, eliminate_zeros, ...) is applied to a name re-bound just before to a
   private copy — the generated list of sites, as the source is now.  (The effect summaries above count
   these methods as writes as well: all_summaries_safe covers the callers.) *)
Theorem scipy_copy_discipline :
  (nonempty scipy_inplace_sites && forallb (fun p => snd p) scipy_inplace_sites)%bool = true.
Proof. exact scipy_copy_discipline_proof. Qed.
Print Assumptions scipy_copy_discipline.

(* Dense results are fresh: according to the return summaries of the binding analysis no todense /
   maybe_densify / __array__ of a sparse class can return an array sharing a buffer with the receiver,
   and COO.todense allocates with np.full(...) first and returns only that allocation. *)
Theorem dense_results_fresh :
  (nonempty dense_result_may_alias && forallb (fun p => negb (snd p)) dense_result_may_alias
   && todense_allocates_first && todense_returns_only_allocation)%bool = true.
Proof. exact dense_results_fresh_proof. Qed.
Print Assumptions dense_results_fresh.

(* Reductions return newly computed arrays: in every `return` of every _reduce_calc of a sparse class
   the reduced array goes through a ufunc reduce/reduceat (or a recursive .reduce), never the receiver
   itself or a pass-through (astype(copy=False), asformat, reshape ...) of it — the library writes into
   reduction results with out= (SparseArray.var, mean), which is safe only then. *)
Theorem reductions_return_fresh :
  (nonempty reduce_calc_returns_fresh && forallb (fun p => snd p) reduce_calc_returns_fresh)%bool = true.
Proof. exact reductions_return_fresh_proof. Qed.
Print Assumptions reductions_return_fresh.
