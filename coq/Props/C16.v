(* Props/C16.v — property-level statements for C16 (sparse stays sparse).  Only statements, each
   closed by [exact] of a lemma of Proofs/SparseOpsP.v, with Print Assumptions beneath.

   Space is not observable in Gallina; the sizes of the lists a function builds are.  For the
   sparse-only reference of Model/SparseOps.v:
     mem_bound_<op>   : the longest list <op> builds is bounded by the numbers of stored elements of
                        the operands (products: by their product — the size the result can have; the
                        GCXS-like form: plus the inherent number of rows) — NO term in size(shape);
     <op>_sparse_den  : the result has the NumPy meaning, for every shape in unbounded Z, so the
                        reference is a legitimate oracle on arrays with 10^18 logical elements;
     same_denb_sound  : the comparison the correspondence judge uses (agreement on the union of the
                        stored positions + equal fills) implies equal dense meaning everywhere;
     dense_sites_*    : every dense-allocation site of the anchored source files (table regenerated
                        from the source on every run) is either reviewed-acceptable or one of exactly
                        three known product-of-extents sites. *)
From Coq Require Import String ZArith List Bool.
From Verif Require Import Shape COO S_dense_sites SparseOps SparseOpsP DenseSites DenseSitesP.
Import ListNotations.
Open Scope Z_scope.

(* ------------------------------------------------------------------ element-wise *)
Theorem map_sparse_den : forall (f : Z -> Z) (x : coo Z) ix, den (sp_map f x) ix = f (den x ix).
Proof. exact map_sparse_den_proof. Qed.
Print Assumptions map_sparse_den.

Theorem mem_bound_map : forall (f : Z -> Z) (x : coo Z), cost_of (sp_map_tr f x) <= nnz x.
Proof. exact mem_bound_map_proof. Qed.
Print Assumptions mem_bound_map.

Theorem zip_sparse_den : forall (f : Z -> Z -> Z) (x y : coo Z) ix,
  den (sp_zip f x y) ix = f (den x ix) (den y ix).
Proof. exact zip_sparse_den_proof. Qed.
Print Assumptions zip_sparse_den.

Theorem mem_bound_zip : forall (f : Z -> Z -> Z) (x y : coo Z), cost_of (sp_zip_tr f x y) <= nnz x + nnz y.
Proof. exact mem_bound_zip_proof. Qed.
Print Assumptions mem_bound_zip.

(* broadcast / gathered second operand, for f that the fill of x annihilates (x * y, fill_x = 0) *)
Theorem zipl_sparse_den : forall (f : Z -> Z -> Z) (h : idx -> idx) (x y : coo Z) ix,
  (forall w, f (c_fill x) w = f (c_fill x) (c_fill y)) ->
  den (sp_zipl f h x y) ix = f (den x ix) (den y (h ix)).
Proof. exact zipl_sparse_den_proof. Qed.
Print Assumptions zipl_sparse_den.

Theorem mem_bound_zipl : forall f h (x y : coo Z), cost_of (sp_zipl_tr f h x y) <= nnz x + nnz y.
Proof. exact mem_bound_zipl_proof. Qed.
Print Assumptions mem_bound_zipl.

(* ------------------------------------------------------------------ indexing *)
Theorem getitem_sparse_den : forall (sel : list asel) (x : coo Z) (ix : idx),
  sel_okb sel = true -> in_range (sel_shape sel) ix ->
  den (sp_getitem sel x) ix = den x (sel_src sel ix).
Proof. exact getitem_sparse_den_proof. Qed.
Print Assumptions getitem_sparse_den.

Theorem mem_bound_getitem : forall sel (x : coo Z), cost_of (sp_getitem_tr sel x) <= nnz x.
Proof. exact mem_bound_getitem_proof. Qed.
Print Assumptions mem_bound_getitem.

(* ------------------------------------------------------------------ reductions over an axis subset *)
Theorem sum_sparse_den : forall (mask : list bool) (x : coo Z) (jx : idx),
  length (c_shape x) = length mask -> shape_ok (c_shape x) ->
  NoDup (map fst (entries x)) -> Forall (in_range (c_shape x)) (c_coords x) ->
  in_range (kept mask (c_shape x)) jx ->
  den (sp_sum mask x) jx
  = zsum (map (fun r => den x (merge mask jx r)) (all_indices (red mask (c_shape x)))).
Proof. exact sum_sparse_den_proof. Qed.
Print Assumptions sum_sparse_den.

Theorem mem_bound_sum : forall mask (x : coo Z), cost_of (sp_sum_tr mask x) <= nnz x.
Proof. exact mem_bound_sum_proof. Qed.
Print Assumptions mem_bound_sum.

Theorem max_sparse_den : forall (mask : list bool) (x : coo Z) (jx : idx),
  length (c_shape x) = length mask -> shape_ok (c_shape x) ->
  NoDup (map fst (entries x)) -> Forall (in_range (c_shape x)) (c_coords x) ->
  in_range (kept mask (c_shape x)) jx -> 0 < size (red mask (c_shape x)) ->
  is_max (den (sp_max mask x) jx)
         (map (fun r => den x (merge mask jx r)) (all_indices (red mask (c_shape x)))).
Proof. exact max_sparse_den_proof. Qed.
Print Assumptions max_sparse_den.

Theorem mem_bound_max : forall mask (x : coo Z), cost_of (sp_max_tr mask x) <= nnz x.
Proof. exact mem_bound_max_proof. Qed.
Print Assumptions mem_bound_max.

(* ------------------------------------------------------------------ shape manipulation *)
Theorem transpose_sparse_den : forall (perm : list nat) (x : coo Z) (k : idx),
  is_permb perm (length (c_shape x)) = true ->
  Forall (in_range (c_shape x)) (c_coords x) -> in_range (c_shape x) k ->
  den (sp_transpose perm x) (permute perm k) = den x k.
Proof. exact transpose_sparse_den_proof. Qed.
Print Assumptions transpose_sparse_den.

Theorem mem_bound_transpose : forall perm (x : coo Z), cost_of (sp_transpose_tr perm x) <= nnz x.
Proof. exact mem_bound_transpose_proof. Qed.
Print Assumptions mem_bound_transpose.

Theorem reshape_sparse_den : forall (sh' : shape) (x : coo Z) (ix : idx),
  shape_ok (c_shape x) -> shape_ok sh' -> size sh' = size (c_shape x) ->
  Forall (in_range (c_shape x)) (c_coords x) -> in_range sh' ix ->
  den (sp_reshape sh' x) ix = den x (unravel (c_shape x) (ravel sh' ix)).
Proof. exact reshape_sparse_den_proof. Qed.
Print Assumptions reshape_sparse_den.

Theorem mem_bound_reshape : forall sh' (x : coo Z), cost_of (sp_reshape_tr sh' x) <= nnz x.
Proof. exact mem_bound_reshape_proof. Qed.
Print Assumptions mem_bound_reshape.

(* ------------------------------------------------------------------ joining *)
Theorem concat_sparse_den : forall (a : nat) (x y : coo Z) (ix : idx),
  (a < length (c_shape x))%nat -> length (c_shape y) = length (c_shape x) ->
  Forall (in_range (c_shape x)) (c_coords x) -> Forall (in_range (c_shape y)) (c_coords y) ->
  c_fill y = c_fill x -> length ix = length (c_shape x) ->
  den (sp_concat a x y) ix =
    if nth a ix 0 <? nth a (c_shape x) 0 then den x ix
    else den y (shift_axis a (- nth a (c_shape x) 0) ix).
Proof. exact concat_sparse_den_proof. Qed.
Print Assumptions concat_sparse_den.

Theorem mem_bound_concat : forall a (x y : coo Z), cost_of (sp_concat_tr a x y) <= nnz x + nnz y.
Proof. exact mem_bound_concat_proof. Qed.
Print Assumptions mem_bound_concat.

(* position i in {0, 1} along the new axis a selects the operand *)
Theorem stack_sparse_den : forall (a : nat) (x y : coo Z) (k : idx) (i : Z),
  (a <= length (c_shape x))%nat -> c_shape y = c_shape x -> shape_ok (c_shape x) ->
  Forall (in_range (c_shape x)) (c_coords x) -> Forall (in_range (c_shape y)) (c_coords y) ->
  c_fill y = c_fill x -> in_range (c_shape x) k -> 0 <= i < 2 ->
  den (sp_stack a x y) (insert_at a i k) = if i =? 0 then den x k else den y k.
Proof. exact stack_sparse_den_proof. Qed.
Print Assumptions stack_sparse_den.

Theorem mem_bound_stack : forall a (x y : coo Z), cost_of (sp_stack_tr a x y) <= nnz x + nnz y.
Proof. exact mem_bound_stack_proof. Qed.
Print Assumptions mem_bound_stack.

(* ------------------------------------------------------------------ 2-d product *)
Theorem matmul_sparse_den : forall (x y : coo Z) (n m p i j : Z),
  c_shape x = [n; m] -> c_shape y = [m; p] -> c_fill x = 0 -> c_fill y = 0 ->
  NoDup (map fst (entries x)) -> Forall (in_range (c_shape x)) (c_coords x) ->
  den (sp_matmul x y) [i; j] = zsum (map (fun k => den x [i; k] * den y [k; j]) (zrange m)).
Proof. exact matmul_sparse_den_proof. Qed.
Print Assumptions matmul_sparse_den.

(* the result of a product can have nnz x * nnz y stored elements (a column times a row) *)
Theorem mem_bound_matmul : forall (x y : coo Z), cost_of (sp_matmul_tr x y) <= nnz x * nnz y + nnz x + nnz y.
Proof. exact mem_bound_matmul_proof. Qed.
Print Assumptions mem_bound_matmul.

(* ------------------------------------------------------------------ COO <-> GCXS-like rows *)
Theorem rows_roundtrip_den : forall (mask : list bool) (x : coo Z) (ix : idx),
  length (c_shape x) = length mask -> shape_ok (c_shape x) ->
  Forall (in_range (c_shape x)) (c_coords x) -> in_range (c_shape x) ix ->
  den (coo_of_rows mask (c_shape x) (c_fill x) (rows_of_coo mask x)) ix = den x ix.
Proof. exact rows_roundtrip_den_proof. Qed.
Print Assumptions rows_roundtrip_den.

(* the inherent cost of the compressed form: one row per combination of compressed coordinates *)
Theorem mem_bound_rows_of_coo : forall (mask : list bool) (x : coo Z),
  shape_ok (c_shape x) -> cost_of (rows_of_coo_tr mask x) <= nnz x + size (red mask (c_shape x)).
Proof. exact mem_bound_rows_of_coo_proof. Qed.
Print Assumptions mem_bound_rows_of_coo.

Theorem mem_bound_coo_of_rows : forall (mask : list bool) (sh : shape) (fill : Z) (rows : crows),
  cost_of (coo_of_rows_tr mask sh fill rows) <= zlen rows + zlen (concat rows).
Proof. exact mem_bound_coo_of_rows_proof. Qed.
Print Assumptions mem_bound_coo_of_rows.

(* ------------------------------------------------------------------ oracle plumbing *)
Theorem same_denb_sound : forall (a b : coo Z), same_denb a b = true -> forall ix, den a ix = den b ix.
Proof. exact same_denb_sound_proof. Qed.
Print Assumptions same_denb_sound.

Theorem wfb_spec : forall (x : coo Z), wfb x = true ->
  shape_ok (c_shape x) /\ Forall (in_range (c_shape x)) (c_coords x) /\ NoDup (map fst (entries x)).
Proof. exact wfb_spec_proof. Qed.
Print Assumptions wfb_spec.

(* canonical form of a reference result (verified merge sort, then pruning) and the comparison the
   judge makes: equal raw coords/data of the canonical forms => equal dense meaning everywhere *)
Theorem canon_den : forall (x : coo Z) ix, NoDup (map fst (entries x)) -> den (canon x) ix = den x ix.
Proof. exact canon_den_proof. Qed.
Print Assumptions canon_den.

Theorem wfsb_spec : forall (x : coo Z), wfsb x = true ->
  shape_ok (c_shape x) /\ Forall (in_range (c_shape x)) (c_coords x) /\ NoDup (map fst (entries x)).
Proof. exact wfsb_spec_proof. Qed.
Print Assumptions wfsb_spec.

Theorem canon_eq_sound : forall (a b : coo Z),
  wfsb a = true -> wfsb b = true -> c_fill a = c_fill b ->
  entries (canon a) = entries (canon b) -> forall ix, den a ix = den b ix.
Proof. exact canon_eq_sound_proof. Qed.
Print Assumptions canon_eq_sound.

(* ------------------------------------------------------------------ dense-allocation sites of the source
   Full statement:  forallb sanctioned dense_sites = true.
   It is FALSE of the source as it stands (findings G1: GCXS reductions recompress along all kept axes,
   G2: GCXS indexing enumerates the selected columns, E1: a scalar operand is viewed at the full logical
   shape), see dense_sites_sanctioned_refuted; the proved part says every other site is
   reviewed-acceptable and the exceptions are exactly those three. *)
Theorem dense_sites_sanctioned_refuted :
  exists s, In s dense_sites /\ sanctioned s = false /\ product_site s = true.
Proof. exact dense_sites_sanctioned_refuted_proof. Qed.
Print Assumptions dense_sites_sanctioned_refuted.

Theorem dense_sites_reviewed :
  forallb (fun s => xorb (sanctioned s) (product_site s)) dense_sites = true.
Proof. exact dense_sites_reviewed_proof. Qed.
Print Assumptions dense_sites_reviewed.

Theorem product_sites_present :
  forallb (fun a => existsb (fun s => site_matches s a) dense_sites) product_sites = true
  /\ length (filter product_site dense_sites) = 3%nat.
Proof. exact product_sites_present_proof. Qed.
Print Assumptions product_sites_present.

(* every name the anchored files write in place is bound to a private array (fresh allocation / copy), a Python
   list, an output buffer every caller allocates, or the public out= argument — generated and reviewed tables are
   equal as sets; in particular flip, roll, _sort_coo and _arg_minmax_common do their coordinate arithmetic on copies *)
Theorem inplace_writes_private : writes_reviewedb = true.
Proof. exact inplace_writes_private_proof. Qed.
Print Assumptions inplace_writes_private.

Theorem coordinate_arithmetic_on_copies :
  forallb (fun r => existsb (fun s => write_matches s r) inplace_sites)
    [mkRW "_coo/common.py" "flip" "new_coords" "x.coords.copy()" WFresh;
     mkRW "_coo/common.py" "roll" "coords" "np.copy(a.coords)" WFresh;
     mkRW "_coo/common.py" "_sort_coo" "data" "data.copy()" WFresh;
     mkRW "_coo/common.py" "_sort_coo" "result_indices" "np.empty_like(sort_coords)" WFresh;
     mkRW "_coo/common.py" "_arg_minmax_common" "<argument 0 of _compute_minmax_args>" "x.coords.copy()" WFresh;
     mkRW "_coo/common.py" "_arg_minmax_common" "<argument 1 of _compute_minmax_args>" "x.data.copy()" WFresh] = true.
Proof. exact coordinate_arithmetic_on_copies_proof. Qed.
Print Assumptions coordinate_arithmetic_on_copies.
