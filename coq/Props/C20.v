(* Props/C20.v — property-level statements for C20 (MLIR backend).  Only statements, each closed by
   [exact] of a lemma of Proofs/MlirP.v, with Print Assumptions beneath.

   Scope: the LOGIC of sparse/mlir_backend — output-format inference, the meaning of constituent
   arrays and the array orders of the SciPy/NumPy conversions, to_numpy's order inversion, and the
   buffer-ownership protocol (`owns_memory`, `_hold_ref`, NumPy bases).  The numerical work of the
   JIT-compiled modules and the behaviour of MLIR's runtime allocator are NOT modelled (oracle;
   differential campaign only).  The protocol's parameters are the site facts regenerated from the
   source into Gen/S_mlir.v on every run. *)
From Coq Require Import ZArith List Bool.
From Verif Require Import Py Shape S_mlir S_mlir_df Mlir MlirP.
Import ListNotations.

(* ---------------------------------------------------------------- _determine_format *)
(* whenever it returns, the result is well formed (order is a permutation of range(rank)), has the
   requested rank, and its widths are the maxima of the operands' widths *)
Theorem determine_format_wf :
  forall fmts union out_ndim f,
    determine_format fmts union out_ndim = Ok f ->
    fmt_wfb f = true
    /\ frank f = out_rank fmts out_ndim
    /\ (fmts <> [] -> f_pos f = max_width (map f_pos fmts) /\ f_crd f = max_width (map f_crd fmts)).
Proof. exact determine_format_wf_proof. Qed.
Print Assumptions determine_format_wf.

(* it does return (no ValueError / AssertionError) for well-formed operands whenever the output rank
   is not smaller than an operand's: every `add`, every rank-preserving or rank-raising `reshape`.
   (For a smaller output rank the truncated order need not be a permutation: reshape of a CSC matrix
   to 1-d raises ValueError, see determine_format_nonvacuous in MlirP.v.) *)
Theorem determine_format_total :
  forall fmts union out_ndim,
    fmts <> [] -> Forall (fun f => fmt_wfb f = true) fmts ->
    (forall n, out_ndim = Some n -> Forall (fun f => (frank f <= n)%nat) fmts) ->
    exists f, determine_format fmts union out_ndim = Ok f.
Proof. exact determine_format_total_proof. Qed.
Print Assumptions determine_format_total.

(* the scalar decisions of formats._determine_format / _get_sparse_dense_levels, TRANSLATED from the source
   on every run (Gen/S_mlir_df.v), equal the sub-expressions the model is built from, for all inputs.  (The
   non-scalar statements — loop header, the tuple-slicing order update, keyword wiring — are pinned by
   their text in tools/sitegen/mlir.py; a change there is a broken obligation of kind "site".) *)
Theorem determine_format_source_tie :
  (forall on : option Z, g_df_empty_ndim (oz on) = Ok (VInt (match on with Some n => n | None => 0 end)))
  /\ (forall u : bool, g_df_empty_level (VBool u) = Ok (VInt (if u then 0 else 1)))
  /\ (forall u : bool, g_df_counter (VBool u) = Ok (VInt (if u then 0 else 1)))
  /\ (forall c, g_df_step_count VNone (VInt c) = Ok (VInt c))
  /\ (forall a c, g_df_step_count (VInt a) (VInt c) = Ok (VInt (Z.max a c)))
  /\ (forall a w, g_df_step_pos (VInt a) (VInt w) = Ok (VInt (Z.max a w)))
  /\ (forall a w, g_df_step_crd (VInt a) (VInt w) = Ok (VInt (Z.max a w)))
  /\ (forall n nc u, g_df_nsparse (VInt n) (VInt nc) (VBool u) = Ok (VInt (df_nsparse n nc u)))
  /\ (forall ns nd, g_gsdl_guard (VInt ns) VNone (VInt nd) = Ok (VBool false))
  /\ (forall ns nd, g_gsdl_fill (VInt ns) VNone (VInt nd) = Ok (VTuple [VInt ns; VInt (nd - ns); VInt nd]))
  /\ (forall nd ndn ns, g_gsdl_ok (VInt nd) (VInt ndn) (VInt ns) = Ok (VBool (gsdl_ok nd ndn ns))).
Proof. exact determine_format_source_tie_proof. Qed.
Print Assumptions determine_format_source_tie.

(* ---------------------------------------------------------------- constituent-array layouts *)
(* MLIR's reading of the arrays `_from_scipy` passes (in the extracted order, under the extracted
   level order) lists exactly the entries SciPy's container denotes, and `to_scipy` hands the same
   arrays back under the same names — for every shape and pattern, any element type *)
Theorem roundtrip_layout_csr :
  forall (V : Type) (v0 : V) nrows ncols indptr indices (data : list V),
  exists arrs, from_scipy_csx indptr indices = Some arrs
    /\ storage_entries v0 [LDense; LCompressed] site_csr_order [nrows; ncols] arrs data
       = Some (csr_entries v0 nrows indptr indices data)
    /\ to_scipy_is_csr site_csr_order = true
    /\ to_scipy_csx arrs = (indptr, indices).
Proof. exact roundtrip_layout_csr_proof. Qed.
Print Assumptions roundtrip_layout_csr.

Theorem roundtrip_layout_csc :
  forall (V : Type) (v0 : V) nrows ncols indptr indices (data : list V),
  exists arrs, from_scipy_csx indptr indices = Some arrs
    /\ storage_entries v0 [LDense; LCompressed] site_csc_order [nrows; ncols] arrs data
       = Some (csc_entries v0 ncols indptr indices data)
    /\ to_scipy_is_csr site_csc_order = false
    /\ to_scipy_csx arrs = (indptr, indices).
Proof. exact roundtrip_layout_csc_proof. Qed.
Print Assumptions roundtrip_layout_csc.

Theorem roundtrip_layout_coo :
  forall (V : Type) (v0 : V) nrows ncols nnz row col (data : list V),
  exists arrs, from_scipy_coo nnz row col = Some arrs
    /\ storage_entries v0 [LCompressed; LSingleton] [0; 1]%Z [nrows; ncols] arrs data
       = Some (coo_entries v0 nnz row col data)
    /\ to_scipy_coo arrs = (row, col).
Proof. exact roundtrip_layout_coo_proof. Qed.
Print Assumptions roundtrip_layout_coo.

(* `_from_numpy`: the flat C-order data under all-dense levels in identity order lists every in-range
   index tuple once, carrying flat[ravel shape ix] — any rank, any shape *)
Theorem roundtrip_layout_dense :
  forall (V : Type) (v0 : V) sh (flat : list V),
  storage_entries v0 (map l_fmt (dense_levels (length sh))) (zseq 0 (length sh)) sh [] flat
  = Some (dense_entries v0 sh flat).
Proof. exact roundtrip_layout_dense_proof. Qed.
Print Assumptions roundtrip_layout_dense.

(* CSF of rank 3 and 4 (Csf().with_ndim(n): dense, compressed, ..., compressed; identity order): the arrays in
   field order (pointers_to_1, indices_1, pointers_to_2, indices_2, ..., values) denote the nested-loop meaning,
   for every shape and pattern.  (get_constituent_arrays(from_constituent_arrays(a)) hands the same buffers
   back; that the builder of a pattern and this reading are inverse is checked per case by judge_layout.) *)
Theorem roundtrip_layout_csf3 :
  forall (V : Type) (v0 : V) n0 n1 n2 pos1 crd1 pos2 crd2 (data : list V),
  storage_entries v0 (map l_fmt (csf_levels 3)) [0; 1; 2]%Z [n0; n1; n2] [pos1; crd1; pos2; crd2] data
  = Some (csf3_entries v0 n0 pos1 crd1 pos2 crd2 data).
Proof. exact csf3_layout. Qed.
Print Assumptions roundtrip_layout_csf3.

Theorem roundtrip_layout_csf4 :
  forall (V : Type) (v0 : V) n0 n1 n2 n3 pos1 crd1 pos2 crd2 pos3 crd3 (data : list V),
  storage_entries v0 (map l_fmt (csf_levels 4)) [0; 1; 2; 3]%Z [n0; n1; n2; n3]
                  [pos1; crd1; pos2; crd2; pos3; crd3] data
  = Some (csf4_entries v0 n0 pos1 crd1 pos2 crd2 pos3 crd3 data).
Proof. exact csf4_layout. Qed.
Print Assumptions roundtrip_layout_csf4.

(* ---------------------------------------------------------------- to_numpy's order inversion *)
(* for EVERY rank and every level order (any permutation of the axes): to_numpy returns the array's shape and
   reads each element from the position MLIR stores it at — transposing by the inverse permutation the
   storage reshaped by the order is the identity layout.  (Which sequence `storage_shape` is gathered
   through is the extracted fact site_to_numpy_shape_by_inverse; with the pre-fix value this does not prove.) *)
Theorem to_numpy_order_correct :
  forall order sh ix, is_permb order (length order) = true ->
    length sh = length order -> length ix = length order ->
    to_numpy_shape order sh = sh /\ to_numpy_pos order sh ix = dense_pos order sh ix.
Proof. exact to_numpy_order_correct_proof. Qed.
Print Assumptions to_numpy_order_correct.

(* ---------------------------------------------------------------- ownership protocol *)
(* the extracted `_hold_ref` / attribute / owns_memory facts provide every edge the protocol needs;
   removing a `_hold_ref` call or making input-backed storages owning turns this into false = true *)
Theorem sites_ok : forallb (fun b => b) (required_edges (site_cfg false)) = true.
Proof. exact sites_ok_proof. Qed.
Print Assumptions sites_ok.

(* Which view-creation patterns are safe.  Events: EGetView (an array of get_constituent_arrays(): carries the
   _hold_ref finaliser), EDerive (a NumPy view of an owning ndarray, of a plain memref view, or of a view of
   those: its base chain keeps the anchor), ECollapse (a NumPy view of a WRAPPED memref view — complex64/128,
   float16, where mlir_finch returns inner.view(dtype): NumPy records `inner` as the base and the finaliser is
   lost).  Theorem: with the required edges, EVERY history (creations, operations, views, deletions in any
   order, any valid collector) that is free of ECollapse — or any history at all when views are not wrapped —
   leaves no live object over a freed buffer and frees no buffer twice.
   The unrestricted statement is FALSE for wrapped dtypes: no_use_after_free_refuted (the history is
   x = asarray(a); r = add(x, x); out = to_numpy(r); del r — to_numpy itself performs the ECollapse). *)
Theorem no_use_after_free :
  forall (c : cfg) (h : list event), edges_ok c = true ->
    (c_wrapped c = false \/ no_collapse h = true) ->
    safeb (run c h) = true /\ free_once (run c h) = true.
Proof. exact no_use_after_free_proof. Qed.
Print Assumptions no_use_after_free.

(* the extracted configuration, plain dtypes: every history *)
Theorem no_use_after_free_partial :
  forall (dt : Z) (h : list event), wrapped_dtype dt = false ->
    safeb (run (site_cfg (wrapped_dtype dt)) h) = true
    /\ free_once (run (site_cfg (wrapped_dtype dt)) h) = true.
Proof. exact no_use_after_free_sites_proof. Qed.
Print Assumptions no_use_after_free_partial.

(* the extracted configuration, any dtype: every history that derives no NumPy view from a memref view
   (get_constituent_arrays, to_scipy, add, reshape, asformat, copy, deletions in any order are all safe) *)
Theorem no_use_after_free_wrapped_partial :
  forall (dt : Z) (h : list event), no_collapse h = true ->
    safeb (run (site_cfg (wrapped_dtype dt)) h) = true
    /\ free_once (run (site_cfg (wrapped_dtype dt)) h) = true.
Proof. exact no_use_after_free_wrapped_proof. Qed.
Print Assumptions no_use_after_free_wrapped_partial.

Theorem no_use_after_free_refuted :
  exists (dt : Z) (h : list event),
    edges_ok (site_cfg (wrapped_dtype dt)) = true /\ safeb (run (site_cfg (wrapped_dtype dt)) h) = false.
Proof. exact no_use_after_free_refuted_proof. Qed.
Print Assumptions no_use_after_free_refuted.

(* every required edge is necessary *)
Theorem edges_necessary :
  (exists h, safeb (run (mkCfg false true true false all_own false) h) = false)
  /\ (exists h, safeb (run (mkCfg true false true false all_own false) h) = false)
  /\ (exists h, safeb (run (mkCfg true true false false all_own false) h) = false)
  /\ (exists h, safeb (run (mkCfg true true true true all_own false) h) = false).
Proof. exact edges_necessary_proof. Qed.
Print Assumptions edges_necessary.
