(* Props/C20.v — property-level statements for C20 (MLIR backend).  Only statements, each closed by
   [exact] of a lemma of Proofs/MlirP.v, with Print Assumptions beneath.

   Scope: the LOGIC of sparse/mlir_backend — output-format inference, the meaning of constituent
   arrays and the array orders of the SciPy/NumPy conversions, to_numpy's order inversion, and the
   buffer-ownership protocol (`owns_memory`, `_hold_ref`, NumPy bases).  The numerical work of the
   JIT-compiled modules and the behaviour of MLIR's runtime allocator are NOT modelled (oracle;
   differential campaign only).  The protocol's parameters are the site facts regenerated from the
   source into Gen/S_mlir.v on every run. *)
From Coq Require Import ZArith List Bool.
From Verif Require Import Py Shape S_mlir Mlir MlirP.
Import ListNotations.

(* ---------------------------------------------------------------- _determine_format *)
(* whenever it returns, the result is well formed (order is a permutation of range(rank)), has the
   requested rank, and its widths are the maxima of the operands' widths *)
Theorem determine_format_wf :
  forall fmts union out_ndim f,
    determine_format fmts union out_ndim = Ok f ->
    fmt_wfb f = true
    /\ frank f = out_rank fmts out_ndim
    /\ (fmts <> [] -> f_pos f = max_width (map f_pos fmts) /\ f_crd f = max_width (map f_crd fmts)).
Proof. exact determine_format_wf_proof. Qed.
Print Assumptions determine_format_wf.

(* it does return (no ValueError / AssertionError) for well-formed operands whenever the output rank
   is not smaller than an operand's: every `add`, every rank-preserving or rank-raising `reshape`.
   (For a smaller output rank the truncated order need not be a permutation: reshape of a CSC matrix
   to 1-d raises ValueError, see determine_format_nonvacuous in MlirP.v.) *)
Theorem determine_format_total :
  forall fmts union out_ndim,
    fmts <> [] -> Forall (fun f => fmt_wfb f = true) fmts ->
    (forall n, out_ndim = Some n -> Forall (fun f => (frank f <= n)%nat) fmts) ->
    exists f, determine_format fmts union out_ndim = Ok f.
Proof. exact determine_format_total_proof. Qed.
Print Assumptions determine_format_total.

(* ---------------------------------------------------------------- constituent-array layouts *)
(* MLIR's reading of the arrays `_from_scipy` passes (in the extracted order, under the extracted
   level order) lists exactly the entries SciPy's container denotes, and `to_scipy` hands the same
   arrays back under the same names — for every shape and pattern, any element type *)
Theorem roundtrip_layout_csr :
  forall (V : Type) (v0 : V) nrows ncols indptr indices (data : list V),
  exists arrs, from_scipy_csx indptr indices = Some arrs
    /\ storage_entries v0 [LDense; LCompressed] site_csr_order [nrows; ncols] arrs data
       = Some (csr_entries v0 nrows indptr indices data)
    /\ to_scipy_is_csr site_csr_order = true
    /\ to_scipy_csx arrs = (indptr, indices).
Proof. exact roundtrip_layout_csr_proof. Qed.
Print Assumptions roundtrip_layout_csr.

Theorem roundtrip_layout_csc :
  forall (V : Type) (v0 : V) nrows ncols indptr indices (data : list V),
  exists arrs, from_scipy_csx indptr indices = Some arrs
    /\ storage_entries v0 [LDense; LCompressed] site_csc_order [nrows; ncols] arrs data
       = Some (csc_entries v0 ncols indptr indices data)
    /\ to_scipy_is_csr site_csc_order = false
    /\ to_scipy_csx arrs = (indptr, indices).
Proof. exact roundtrip_layout_csc_proof. Qed.
Print Assumptions roundtrip_layout_csc.

Theorem roundtrip_layout_coo :
  forall (V : Type) (v0 : V) nrows ncols nnz row col (data : list V),
  exists arrs, from_scipy_coo nnz row col = Some arrs
    /\ storage_entries v0 [LCompressed; LSingleton] [0; 1]%Z [nrows; ncols] arrs data
       = Some (coo_entries v0 nnz row col data)
    /\ to_scipy_coo arrs = (row, col).
Proof. exact roundtrip_layout_coo_proof. Qed.
Print Assumptions roundtrip_layout_coo.

(* `_from_numpy`: the flat C-order data under all-dense levels in identity order lists every in-range
   index tuple once, carrying flat[ravel shape ix] — any rank, any shape *)
Theorem roundtrip_layout_dense :
  forall (V : Type) (v0 : V) sh (flat : list V),
  storage_entries v0 (map l_fmt (dense_levels (length sh))) (zseq 0 (length sh)) sh [] flat
  = Some (dense_entries v0 sh flat).
Proof. exact roundtrip_layout_dense_proof. Qed.
Print Assumptions roundtrip_layout_dense.

(* ---------------------------------------------------------------- to_numpy's order inversion *)
(* for every level order (a permutation of the axes) of rank 1..4 — the property's own bound; proved by
   enumerating the 33 permutations — to_numpy returns the array's shape and reads each element from the
   position MLIR stores it at.  (Which sequence `storage_shape` is gathered through is the extracted
   fact site_to_numpy_shape_by_inverse; with the pre-fix value `true` this statement does not prove.) *)
Theorem to_numpy_order_correct :
  forall order, In order (perms_upto 4) ->
  forall sh ix, length sh = length order -> length ix = length order ->
    to_numpy_shape order sh = sh /\ to_numpy_pos order sh ix = dense_pos order sh ix.
Proof. exact to_numpy_order_correct_proof. Qed.
Print Assumptions to_numpy_order_correct.

(* ---------------------------------------------------------------- ownership protocol *)
(* the extracted `_hold_ref` / attribute / owns_memory facts provide every edge the protocol needs;
   removing a `_hold_ref` call or making input-backed storages owning turns this into false = true *)
Theorem sites_ok : forallb (fun b => b) (required_edges (site_cfg false)) = true.
Proof. exact sites_ok_proof. Qed.
Print Assumptions sites_ok.

(* Full statement: for every dtype, every event history (creations, operations, views, deletions in
   any order, any valid collector behaviour), no live object sits over a freed buffer, and no buffer
   is freed twice.  FALSE for the dtypes whose memref views mlir_finch wraps in a second view
   (complex64/128, float16): see no_use_after_free_refuted.  Proved part: any configuration that has
   the required edges and unwrapped views, hence the extracted configuration for plain dtypes. *)
Theorem no_use_after_free :
  forall (c : cfg) (h : list event), edges_ok c = true -> c_wrapped c = false ->
    safeb (run c h) = true /\ free_once (run c h) = true.
Proof. exact no_use_after_free_proof. Qed.
Print Assumptions no_use_after_free.

Theorem no_use_after_free_partial :
  forall (dt : Z) (h : list event), wrapped_dtype dt = false ->
    safeb (run (site_cfg (wrapped_dtype dt)) h) = true
    /\ free_once (run (site_cfg (wrapped_dtype dt)) h) = true.
Proof. exact no_use_after_free_sites_proof. Qed.
Print Assumptions no_use_after_free_partial.

Theorem no_use_after_free_refuted :
  exists (dt : Z) (h : list event), safeb (run (site_cfg (wrapped_dtype dt)) h) = false.
Proof. exact no_use_after_free_refuted_proof. Qed.
Print Assumptions no_use_after_free_refuted.

(* every required edge is necessary *)
Theorem edges_necessary :
  (exists h, safeb (run (mkCfg false true true false all_own false) h) = false)
  /\ (exists h, safeb (run (mkCfg true false true false all_own false) h) = false)
  /\ (exists h, safeb (run (mkCfg true true false false all_own false) h) = false)
  /\ (exists h, safeb (run (mkCfg true true true true all_own false) h) = false).
Proof. exact edges_necessary_proof. Qed.
Print Assumptions edges_necessary.
