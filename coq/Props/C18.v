(* Props/C18.v — property-level statements for C18 (termination and clean rejection).  Only
   statements, each closed by [exact] of a lemma proved in Proofs/ValidatorsP.v / Proofs/KernelsP.v,
   with Print Assumptions beneath.

   Reading guide.  Kernels (Model/Kernels.v) take one fuel argument F; every loop instance gets F
   iterations; OutOfFuel / OutOfBounds / DivZero are the three ways a nopython kernel can go wrong
   (hang, memory error, ZeroDivisionError).  "terminates" theorems give F explicitly as a polynomial
   (here: linear) in the sizes of the inputs and outputs.  Validators (Model/Validators.v) are the
   generated tests of Gen/G_validators.v, Gen/S_validators.v, Gen/G_slicing.v; their specs say: the
   validator raises (with the class the property demands) exactly when NumPy rejects (Spec/NpValid.v).

   D3 (dot of a COO matrix with a dense operand without columns never returned) was repaired in
   /repo (commit d27a95d); the termination theorems below are therefore unconditional and go through
   the loop test regenerated from the source (sv_dcn_outer_test / sv_dcs_outer_test). *)
From Coq Require Import ZArith List Bool QArith.
From Verif Require Import Py PyExt PyValid G_slicing G_validators S_validators NpValid Validators ValidatorsP.
From Verif Require Import Kernels KernelsP.
Import ListNotations.
Open Scope Z_scope.

(* ------------------------------------------------------------------ validators *)
Theorem validator_normalize_axis_spec :
  forall a ndim : Z,
    (raised (v_normalize_axis a ndim) <> None <-> np_axis_ok a ndim = false) /\
    (np_axis_ok a ndim = false -> v_normalize_axis a ndim = Raise ValueError) /\
    (np_axis_ok a ndim = true -> v_normalize_axis a ndim = Ok (np_axis_norm a ndim)).
Proof. exact validator_normalize_axis_spec_proof. Qed.
Print Assumptions validator_normalize_axis_spec.

Theorem validator_axes_spec :
  forall (axes : list Z) (ndim : Z),
    (forallb (fun a => np_axis_ok a ndim) axes = true ->
       v_normalize_axes axes ndim = Ok (map (fun a => np_axis_norm a ndim) axes)) /\
    (forallb (fun a => np_axis_ok a ndim) axes = false ->
       v_normalize_axes axes ndim = Raise ValueError).
Proof. exact validator_axes_spec_proof. Qed.
Print Assumptions validator_axes_spec.

Theorem validator_transpose_spec :
  forall (axes : list Z) (ndim : Z),
    (np_perm_ok axes ndim = true ->
       v_transpose_axes axes ndim = Ok (map (fun a => np_axis_norm a ndim) axes)) /\
    (np_perm_ok axes ndim = false -> v_transpose_axes axes ndim = Raise ValueError).
Proof. exact validator_transpose_spec_proof. Qed.
Print Assumptions validator_transpose_spec.

Theorem validator_check_index_spec :
  forall i dim : Z,
    (np_index_ok i dim = true -> v_check_index i dim = Ok VNone) /\
    (np_index_ok i dim = false -> v_check_index i dim = Raise IndexError).
Proof. exact validator_check_index_spec_proof. Qed.
Print Assumptions validator_check_index_spec.

Theorem validator_reshape_spec :
  forall (size : Z) (sh : list Z),
    (np_reshape_ok size sh = true -> v_reshape_check size sh = Ok VNone) /\
    (np_reshape_ok size sh = false -> v_reshape_check size sh = Raise ValueError).
Proof. exact validator_reshape_spec_proof. Qed.
Print Assumptions validator_reshape_spec.

Theorem validator_broadcast_spec :
  forall s1 s2 : list Z,
    match np_broadcast s1 s2 with
    | Some t => v_broadcast_shape false s1 s2 = Ok t
    | None => v_broadcast_shape false s1 s2 = Raise ValueError
    end.
Proof. exact validator_broadcast_spec_proof. Qed.
Print Assumptions validator_broadcast_spec.

(* broadcast_to (is_result=True).  Until commit 7dd4784 zip() stopped at the shorter shape and an operand
   with more axes than the target was accepted (the former validator_broadcast_to_refuted); the guard
   `is_result and len(shape1) > len(shape2)` is now part of the generated test (sv_bcast_more_dims) and the
   statement holds for every pair of shapes. *)
Theorem validator_broadcast_to_spec :
  forall s target : list Z,
    match np_broadcast_to s target with
    | Some t => v_broadcast_shape true s target = Ok t
    | None => v_broadcast_shape true s target = Raise ValueError
    end.
Proof. exact validator_broadcast_to_spec_proof. Qed.
Print Assumptions validator_broadcast_to_spec.

Theorem validator_tensordot_spec :
  forall ea eb : list Z,
    (np_contract_ok ea eb = true -> v_tensordot_check ea eb = Ok VNone) /\
    (np_contract_ok ea eb = false -> v_tensordot_check ea eb = Raise ValueError).
Proof. exact validator_tensordot_spec_proof. Qed.
Print Assumptions validator_tensordot_spec.

(* dot of two 1-d operands (the repair of D19): lengths must agree *)
Theorem validator_dot_1d_spec :
  forall la lb : Z,
    (la = lb -> v_dot_1d_check la lb = Ok VNone) /\
    (la <> lb -> v_dot_1d_check la lb = Raise ValueError).
Proof. exact validator_dot_1d_spec_proof. Qed.
Print Assumptions validator_dot_1d_spec.

(* moveaxis.  The order of its validation statements is extracted from the source (site_moveaxis_steps):
   both arguments are normalised BEFORE the repeat test, so the decision coincides with numpy.moveaxis also
   for tuples that repeat an axis through sign aliasing (d and d - ndim). *)
Theorem validator_moveaxis_spec :
  forall (src dst : list Z) (ndim : Z),
    (np_moveaxis_ok src dst ndim = true ->
       v_moveaxis src dst ndim = Ok (map (fun a => np_axis_norm a ndim) src, map (fun a => np_axis_norm a ndim) dst)) /\
    (np_moveaxis_ok src dst ndim = false -> v_moveaxis src dst ndim = Raise ValueError).
Proof. exact validator_moveaxis_spec_proof. Qed.
Print Assumptions validator_moveaxis_spec.

(* matmul rejects 0-d operands like numpy.matmul (9e6cc99), before it delegates to dot *)
Theorem validator_matmul_0d_spec :
  forall nda ndb : Z,
    (nda <> 0 /\ ndb <> 0 -> v_matmul_0d_check nda ndb = Ok VNone) /\
    (nda = 0 \/ ndb = 0 -> v_matmul_0d_check nda ndb = Raise ValueError).
Proof. exact validator_matmul_0d_spec_proof. Qed.
Print Assumptions validator_matmul_0d_spec.

(* einsum: an output subscript that occurs cnt <> 1 times in the output is rejected (a749d30) *)
Theorem validator_einsum_out_count_spec :
  forall cnt : Z,
    (cnt = 1 -> v_einsum_out_count_check cnt = Ok VNone) /\
    (cnt <> 1 -> v_einsum_out_count_check cnt = Raise ValueError).
Proof. exact validator_einsum_out_count_spec_proof. Qed.
Print Assumptions validator_einsum_out_count_spec.

(* tensordot's zero-size shortcut fires iff the CONTRACTED extent is 0: zero-length FREE axes reach
   the kernels, whose own loop tests must (and, since the repair of D3, do) handle them *)
Theorem tensordot_shortcut_spec :
  forall N2 : Z, v_tensordot_shortcut N2 = Ok (N2 =? 0).
Proof. exact tensordot_shortcut_spec_proof. Qed.
Print Assumptions tensordot_shortcut_spec.

Theorem validator_coo_init_spec :
  forall ndata ncols nshape nrows : Z,
    let malformed := negb (nshape =? 0) && (negb (ndata =? ncols) || negb (nshape =? nrows)) in
    (malformed = false -> v_coo_init ndata ncols nshape nrows = Ok VNone) /\
    (malformed = true -> v_coo_init ndata ncols nshape nrows = Raise ValueError).
Proof. exact validator_coo_init_spec_proof. Qed.
Print Assumptions validator_coo_init_spec.

Theorem validator_caxes_spec :
  forall (ndim : Z) (ca : option (list Z)),
    (caxes_ok ndim ca = true -> v_check_caxes ndim ca = Ok VNone) /\
    (caxes_ok ndim ca = false -> v_check_caxes ndim ca = Raise ValueError).
Proof. exact validator_caxes_spec_proof. Qed.
Print Assumptions validator_caxes_spec.

(* ------------------------------------------------------------------ kernels *)
Theorem dot_coo_ndarray_terminates :
  forall (rows cols data : list Z) (arr2 : list (list Z)) (R C : Z) (F : nat),
    Z.of_nat F = zlen data + 1 ->
    dot_coo_ndarray rows cols data arr2 R C F <> OutOfFuel.
Proof. exact dot_coo_ndarray_terminates_proof. Qed.
Print Assumptions dot_coo_ndarray_terminates.

Theorem dot_coo_ndarray_in_bounds :
  forall (rows cols data : list Z) (arr2 : list (list Z)) (R C : Z) (F : nat) (K : Z),
    length rows = length data -> length cols = length data ->
    Forall (fun r => 0 <= r < R) rows -> Forall (fun c => 0 <= c < K) cols -> mat_ok C K arr2 ->
    0 <= R -> 0 <= C ->
    dot_coo_ndarray rows cols data arr2 R C F <> OutOfBounds.
Proof. exact dot_coo_ndarray_in_bounds_proof. Qed.
Print Assumptions dot_coo_ndarray_in_bounds.

Theorem dot_coo_ndarray_sparse_terminates :
  forall (rows cols data : list Z) (arr2 : list (list Z)) (C : Z) (F : nat),
    Z.of_nat F = zlen data + Z.max 0 C + 1 ->
    dot_coo_ndarray_sparse rows cols data arr2 C F <> OutOfFuel.
Proof. exact dot_coo_ndarray_sparse_terminates_proof. Qed.
Print Assumptions dot_coo_ndarray_sparse_terminates.

Theorem dot_coo_ndarray_sparse_in_bounds :
  forall (rows cols data : list Z) (arr2 : list (list Z)) (C : Z) (F : nat) (K : Z),
    length rows = length data -> length cols = length data ->
    Forall (fun c => 0 <= c < K) cols -> mat_ok C K arr2 ->
    dot_coo_ndarray_sparse rows cols data arr2 C F <> OutOfBounds.
Proof. exact dot_coo_ndarray_sparse_in_bounds_proof. Qed.
Print Assumptions dot_coo_ndarray_sparse_in_bounds.

Theorem dot_ndarray_coo_in_bounds :
  forall (arr1 : list (list Z)) (crow ccol data : list Z) (R C K : Z),
    length crow = length data -> length ccol = length data ->
    Forall (fun k => 0 <= k < K) crow -> Forall (fun c => 0 <= c < C) ccol -> mat_ok R K arr1 ->
    0 <= R -> 0 <= C ->
    exists out, dot_ndarray_coo arr1 crow ccol data R C = Done out /\ mat_ok R C out.
Proof. exact dot_ndarray_coo_in_bounds_proof. Qed.
Print Assumptions dot_ndarray_coo_in_bounds.

Theorem dot_ndarray_coo_sparse_in_bounds :
  forall (arr1 : list (list Z)) (c0 c1 data : list Z) (R K : Z),
    length c0 = length data -> length c1 = length data ->
    Forall (fun k => 0 <= k < K) c1 -> mat_ok R K arr1 ->
    exists out, dot_ndarray_coo_sparse arr1 c0 c1 data R = Done out.
Proof. exact dot_ndarray_coo_sparse_in_bounds_proof. Qed.
Print Assumptions dot_ndarray_coo_sparse_in_bounds.

Theorem searchsorted_terminates :
  forall (right : bool) (a : list Z) (v : Z) (F : nat),
    zlen a < Z.of_nat F ->
    exists r, searchsorted right F a v = Done r /\ 0 <= r <= zlen a.
Proof. exact searchsorted_terminates_proof. Qed.
Print Assumptions searchsorted_terminates.

(* get_slicing_selection, one row: under the guards its caller establishes (row segment sorted,
   requested columns strictly increasing) it returns within len(row) + len(col) + 1 iterations per
   loop and never reads outside current_row / col.  (Strictness is needed: see the Example
   slicing_selection_row_repeat_out_of_bounds in Proofs/KernelsP.v.) *)
Theorem get_slicing_selection_safe :
  forall (row col : list Z) (start : Z) (F : nat),
    sorted_le row -> strict_incr col ->
    Z.of_nat F = zlen row + zlen col + 1 ->
    exists out, slicing_selection_row row col start F = Done out.
Proof. exact slicing_selection_row_safe_proof. Qed.
Print Assumptions get_slicing_selection_safe.

Theorem match_arrays_safe :
  forall (a b : list Z) (F : nat),
    Z.of_nat F = zlen b + 1 -> exists out, match_arrays b F a = Done out.
Proof. exact match_arrays_safe_proof. Qed.
Print Assumptions match_arrays_safe.

(* _compute_mask's narrowing loop with the cost test EXTRACTED from the source (sv_cm_n_current_slices,
   sv_cm_break: `n_current_slices * log(n_current_slices / max(n_pairs, 1)) > n_matches + n_pairs`), read over
   exact rationals with any logarithm lg such that lg x >= 1 for x >= 3 (true of ln).  Every narrowing step
   the loop executes (log entry (len(range), n_pairs, n_matches)) performs len(range) * n_pairs pairs of binary
   searches, and that number is bounded by n_matches + 3 * max(n_pairs, 1): independent of the extent of the
   axis and of the length of the requested slice. *)
Theorem compute_mask_narrow_safe :
  forall (lg : Q -> Q) (nnz : Z) (coords ranges : list (list Z)) (F : nat),
    (forall x : Q, (3 <= x -> 1 <= lg x)%Q) ->
    0 <= nnz -> Forall (fun c => zlen c = nnz) coords ->
    Z.of_nat F = nnz + zlen coords + 1 ->
    exists i pairs log, compute_mask_narrow F lg nnz coords ranges = Done (i, pairs, log) /\
      Forall (fun t => let '(r, P, M0) := t in r * P + 2 <= Z.max 0 M0 + 3 * Z.max P 1) log.
Proof. exact compute_mask_narrow_safe_proof. Qed.
Print Assumptions compute_mask_narrow_safe.

Theorem compute_mask_work_bound :
  forall (lg : Q -> Q), (forall x : Q, (3 <= x -> 1 <= lg x)%Q) ->
  forall rlen n_pairs n_matches : Z,
    0 <= rlen -> 0 <= n_pairs -> cm_break lg rlen n_pairs n_matches = false ->
    rlen * n_pairs + 2 <= Z.max 0 n_matches + 3 * Z.max n_pairs 1.
Proof. exact compute_mask_work_bound_proof. Qed.
Print Assumptions compute_mask_work_bound.

Theorem sort_coo_scan_in_bounds :
  forall group_coords : list Z,
    Forall (fun g => 0 <= g) group_coords -> exists r, sort_coo_scan group_coords = Done r.
Proof. exact sort_coo_scan_in_bounds_proof. Qed.
Print Assumptions sort_coo_scan_in_bounds.

Theorem algA_safe :
  forall (gt : nat -> bool) (last_draw n N : Z) (F : nat),
    1 <= n <= N -> Z.of_nat F = N + 1 ->
    exists arr, algA F gt last_draw n N = Done arr.
Proof. exact algA_safe_proof. Qed.
Print Assumptions algA_safe.

(* algD's rejection loops terminate with probability 1 only.  Partial form: for EVERY oracle stream
   (draw k = the k-th candidate S = intp(X) with the answers of the two float acceptance tests) in
   which, from every position on and for every positive qu1, an accepting draw (S < qu1 passing one
   of the tests) eventually occurs, and whose candidates are non-negative (S = intp(N * (1 - Vprime))
   with 0 <= Vprime <= 1), the kernel does not run out of fuel for any sufficiently large fuel.  No
   polynomial bound exists: the waiting time for an accepting draw is a property of the stream. *)
Theorem algD_terminates_partial :
  forall draw : nat -> Z * bool * bool,
    (forall i : nat, 0 <= dS draw i) ->
    (forall (qu1 : Z) (k : nat), 0 < qu1 -> exists j : nat, accepting draw qu1 (k + j) = true) ->
    forall n0 N : Z, 1 <= n0 < N ->
    exists B : nat, forall F : nat, (B <= F)%nat -> algD F draw n0 N <> OutOfFuel.
Proof. exact algD_terminates_partial_proof. Qed.
Print Assumptions algD_terminates_partial.

(* ------------------------------------------------------------------ sequencing: validators before kernels *)
(* For the call skeletons extracted from /repo on this run (Gen/S_validators.v: COO.transpose, COO.reshape,
   broadcast_to, tensordot, dot, matmul, _parse_einsum_input, COO getitem, GCXS getitem, COO.__init__): on every run that ends in a rejection — a
   validator call that rejects or a `raise` statement — no kernel / constructor call has executed. *)
Theorem rejection_precedes_kernels :
  forall name p t, In (name, p) site_programs -> exec p t Raised -> no_kernel t.
Proof. exact rejection_precedes_kernels_proof. Qed.
Print Assumptions rejection_precedes_kernels.

Theorem valid_args_no_internal_error :
  forall m : vop, vop_np_accepts m = true -> model_verdict m = None \/ model_verdict m = Some None.
Proof. exact valid_args_no_internal_error_proof. Qed.
Print Assumptions valid_args_no_internal_error.

Theorem invalid_args_clean_rejection :
  forall m : vop, vop_np_accepts m = false ->
    exists e, model_verdict m = Some (Some e) /\ clean e = true.
Proof. exact invalid_args_clean_rejection_proof. Qed.
Print Assumptions invalid_args_clean_rejection.

(* ------------------------------------------------------------------ GCXS product kernels and convert.py
   (`for` loops only: they terminate by construction; the obligations are the unchecked accesses, above all
   the writes into the output buffers pre-sized by the count kernels) *)
Theorem csr_csr_count_nnz_safe :
  forall (a_indices a_indptr b_indices b_indptr : list Z) (n_row n_col K : Z),
    0 <= n_row -> 0 <= n_col -> zlen a_indptr = n_row + 1 -> Forall (fun j => 0 <= j < K) a_indices ->
    zlen b_indptr = K + 1 -> Forall (fun k => 0 <= k < n_col) b_indices ->
    exists c, csr_csr_count_nnz a_indices a_indptr b_indices b_indptr n_row n_col = Done c /\ 0 <= c.
Proof. exact csr_csr_count_nnz_safe_proof. Qed.
Print Assumptions csr_csr_count_nnz_safe.

Theorem dot_csr_csr_safe :
  forall (a_indices a_data a_indptr b_indices b_data b_indptr : list Z) (n_row n_col K : Z),
    0 <= n_row -> 0 <= n_col -> zlen a_indptr = n_row + 1 -> Forall (fun j => 0 <= j < K) a_indices ->
    zlen a_data = zlen a_indices -> zlen b_indptr = K + 1 -> Forall (fun k => 0 <= k < n_col) b_indices ->
    zlen b_data = zlen b_indices ->
    exists r, dot_csr_csr a_indices a_data a_indptr b_indices b_data b_indptr n_row n_col = Done r.
Proof. exact dot_csr_csr_safe_proof. Qed.
Print Assumptions dot_csr_csr_safe.

Theorem csc_ndarray_count_nnz_safe :
  forall (a_indices a_data a_indptr : list Z) (b : list (list Z)) (a_rows bK bC : Z),
    0 <= a_rows -> 0 <= bC -> zlen a_indptr = bK + 1 ->
    Forall (fun p => 0 <= p <= zlen a_indices) a_indptr -> Forall (fun k => 0 <= k < a_rows) a_indices ->
    zlen a_data = zlen a_indices -> mat_ok bK bC b ->
    forall indptr, zlen indptr = bC + 1 ->
    exists ip c, csc_ndarray_count_nnz a_indices a_indptr b a_rows bK bC indptr = Done (ip, c) /\ 0 <= c /\ zlen ip = bC + 1.
Proof. exact csc_ndarray_count_nnz_safe_proof. Qed.
Print Assumptions csc_ndarray_count_nnz_safe.

Theorem dot_csc_ndarray_sparse_safe :
  forall (a_indices a_data a_indptr : list Z) (b : list (list Z)) (a_rows bK bC : Z),
    0 <= a_rows -> 0 <= bC -> zlen a_indptr = bK + 1 ->
    Forall (fun p => 0 <= p <= zlen a_indices) a_indptr -> Forall (fun k => 0 <= k < a_rows) a_indices ->
    zlen a_data = zlen a_indices -> mat_ok bK bC b ->
    exists r, dot_csc_ndarray_sparse a_indices a_data a_indptr b a_rows bK bC = Done r.
Proof. exact dot_csc_ndarray_sparse_safe_proof. Qed.
Print Assumptions dot_csc_ndarray_sparse_safe.

Theorem uncompress_dimension_safe :
  forall indptr, indptr <> [] -> 0 <= znth indptr (zlen indptr - 1) ->
  exists r, uncompress_dimension indptr = Done r.
Proof. exact uncompress_dimension_safe_proof. Qed.
Print Assumptions uncompress_dimension_safe.

Theorem unravel_index_safe :
  forall (F : nat) (n : Z) (shape : list Z),
    shape <> [] -> Forall (fun d => 0 < d) (skipn 1 shape) -> zlen shape <= Z.of_nat F ->
    exists o, unravel_index F n shape = Done o /\ zlen o = zlen shape.
Proof. exact unravel_index_safe_proof. Qed.
Print Assumptions unravel_index_safe.

Theorem linearize_safe :
  forall (F : nat) (x_indices shape order rshape cshape : list Z),
    shape <> [] -> Forall (fun d => 0 < d) (skipn 1 shape) ->
    order <> [] -> Forall (fun k => 0 <= k < zlen shape) order ->
    zlen cshape = 2 -> Forall (fun d => 0 < d) (skipn 1 cshape) ->
    Z.of_nat F = Z.max 2 (zlen shape) ->
    exists r, linearize F x_indices shape order rshape cshape = Done r.
Proof. exact linearize_safe_proof. Qed.
Print Assumptions linearize_safe.
