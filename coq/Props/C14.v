(* Props/C14.v — property-level statements for C14 (copying and persistence round-trip exactly).
   Only statements, each closed by [exact] of a lemma of Proofs/NpzP.v, with Print Assumptions beneath.
   All statements are about Model/Npz.v interpreting the tables of Gen/S_npz.v, which tools/sitegen/npz.py
   regenerates from /repo on every run; V is an arbitrary type of element values (any dtype; NaN, inf, -0.0
   are tokens).

   save_npz / load_npz (after the repairs of /repo commit a36d130; the former domain clauses D9_gcxs_1d and
   D9_csr_csc_subclass are gone): the round trip is proved in FULL for every well-formed COO and every GCXS-family
   array, 0-d / 1-d (compressed_axes None), n-d, CSR and CSC; a CSR / CSC comes back as a plain GCXS with the same
   fields ([as_saved]).

   The missing-member property is proved in FULL as well (the compressed_axes member is always written and always
   required since /repo commit 19bbdac): every strict subset of the members of a saved file is rejected.

   The Numba statements are proved in FULL as well since /repo eb8a9b8 (the native shape member is a tuple of intp and
   the in-Numba constructor casts the given shape to it): the former clauses NB_shape_fits_coords_dtype and
   NB_construct_shape_type are gone. *)
From Coq Require Import ZArith List Bool String.
From Verif Require Import Py Shape COO S_npz Npz Crc32 Crc32P NpzP.
Import ListNotations.
Open Scope Z_scope.

(* ---- save_npz / load_npz at the level of members *)
Theorem npz_roundtrip :
  forall (V : Type) (x : arr V),
    wf V x = true -> (ms <- save_members V x ;; load_members V ms) = Ok (as_saved V x).
Proof. exact npz_roundtrip_proof. Qed.
Print Assumptions npz_roundtrip.

(* COO and exact GCXS come back as themselves *)
Theorem npz_roundtrip_exact :
  forall (V : Type) (x : arr V),
    wf V x = true -> (class_of x = KCOO \/ class_of x = KGCXS) ->
    (ms <- save_members V x ;; load_members V ms) = Ok x.
Proof. exact npz_roundtrip_exact_proof. Qed.
Print Assumptions npz_roundtrip_exact.

Example npz_roundtrip_nonvacuous_example :
  Forall (fun x => wf Z x = true) [w_coo; w_coo_0d; w_gcxs_1d; w_gcxs_3d; w_csr; w_csc]
  /\ (ms <- save_members Z w_csr ;; load_members Z ms)
     = Ok (AGcxs KGCXS (mkGCXS [2; 3] (Some [0]) [5; 6] [1; 2] [0; 1; 2] 0)).
Proof. exact npz_roundtrip_nonvacuous. Qed.

(* a file that holds only some of the members save_npz writes is rejected, never loaded as another array *)
Theorem npz_missing_member_rejected :
  forall (V : Type) (x : arr V) (ms : members V) (keep : string -> bool),
    class_ok V x = true ->
    save_members V x = Ok ms ->
    (exists n, In n (map fst ms) /\ keep n = false) ->
    exists e, load_members V (restrict V keep ms) = Raise e.
Proof. exact npz_missing_member_rejected_proof. Qed.
Print Assumptions npz_missing_member_rejected.

Example npz_missing_member_nonvacuous :
  exists ms, save_members Z w_gcxs_3d = Ok ms /\ In s_axes (map fst ms)
             /\ (exists ms1, save_members Z w_gcxs_1d = Ok ms1 /\ In s_axes (map fst ms1)).
Proof. eexists. split; [reflexivity | split; [cbn; tauto | eexists; split; [reflexivity | cbn; tauto]]]. Qed.

(* an archive whose index pointer has the wrong length is rejected (GCXS.__init__ checks it since /repo 9bee746) *)
Theorem npz_bad_indptr_rejected :
  forall (V : Type) (k : klass) (g : gcxs V) (ca ptr' : list Z),
    gcxs_wf V k g = true -> g_axes g = Some ca ->
    len ptr' =? compressed_rows (g_shape g) ca + 1 = false ->
    exists e,
      load_members V [(s_data, FData (g_data g)); (s_shape, FInts (g_shape g)); (s_fill, FScalar (g_fill g));
                      (s_indices, FInts (g_indices g)); (s_indptr, FInts ptr'); (s_axes, FInts ca)] = Raise e.
Proof. exact npz_bad_indptr_rejected_proof. Qed.
Print Assumptions npz_bad_indptr_rejected.

(* ---- the container layer, under the oracle assumption on numpy / zipfile (a hypothesis, not an axiom) *)
Theorem npz_file_roundtrip :
  forall (V bytes : Type) (np_savez : bool -> members V -> bytes) (np_load : bytes -> file V),
    (forall c ms, np_load (np_savez c ms) = Archive true ms) ->
    forall (compressed : bool) (x : arr V),
      wf V x = true ->
      (b <- save_npz V bytes np_savez compressed x ;; load_npz V bytes np_load b) = Ok (as_saved V x).
Proof. exact npz_file_roundtrip_proof. Qed.
Print Assumptions npz_file_roundtrip.

(* np.load cannot open the bytes, or ZipFile.testzip() finds a member that does not verify: rejected, whatever the
   lazy member reads would have returned *)
Theorem npz_damaged_rejected :
  forall (V bytes : Type) (np_load : bytes -> file V) (b : bytes),
    (np_load b = Unreadable \/ exists view, np_load b = Archive false view) ->
    exists e, load_npz V bytes np_load b = Raise e.
Proof. exact npz_damaged_rejected_proof. Qed.
Print Assumptions npz_damaged_rejected.

Theorem npz_loaded_is_verified :
  forall (V bytes : Type) (np_load : bytes -> file V) (b : bytes) (y : arr V),
    load_npz V bytes np_load b = Ok y ->
    exists view, np_load b = Archive true view /\ load_members V view = Ok y.
Proof. exact npz_loaded_is_verified_proof. Qed.
Print Assumptions npz_loaded_is_verified.

(* ---- pickle: __reduce_ex__ state (COO.__getstate__ tuple / instance __dict__) fed back to __setstate__ *)
Theorem pickle_roundtrip :
  forall (V : Type) (x : arr V), class_ok V x = true -> pickle_roundtrip_of V x = Ok x.
Proof. exact pickle_roundtrip_proof. Qed.
Print Assumptions pickle_roundtrip.

Example pickle_roundtrip_nonvacuous : Forall (fun x => class_ok Z x = true) [w_coo; w_gcxs_1d; w_csr; w_csc].
Proof. repeat constructor. Qed.

(* ---- copy over a heap of buffers: x.copy(deep=True) = copy.deepcopy(x), x.copy(deep=False) = copy.copy(x) *)
Theorem copy_deep_disjoint :
  forall (V : Type) (k : klass) (h : heap V) (o : hobj V) (x : arr V),
    heap_wf V h o -> obj_arr V k h o = Ok x ->
    exists h1 o1, copy_obj V true k h o = Some (h1, o1)
      /\ obj_arr V k h1 o1 = Ok x                                   (* the copy has the same value *)
      /\ (forall id, In id (refs V o1) -> ~ In id (refs V o))        (* and shares no buffer with the original *)
      /\ obj_arr V k h1 o = Ok x                                    (* the original is untouched *)
      /\ (forall id f, In id (refs V o1) -> obj_arr V k (hwrite V h1 id f) o = Ok x).  (* writes to the copy are invisible *)
Proof. exact copy_deep_disjoint_proof. Qed.
Print Assumptions copy_deep_disjoint.

Theorem copy_shallow_shares :
  forall (V : Type) (k : klass) (h : heap V) (o : hobj V) (x : arr V),
    heap_wf V h o -> obj_arr V k h o = Ok x ->
    exists o1, copy_obj V false k h o = Some (h, o1)                 (* no buffer is allocated *)
      /\ obj_arr V k h o1 = Ok x
      /\ (forall a, In a (state_attrs V k o) -> assoc a o1 = assoc a o)   (* the state attributes are the same slots *)
      /\ (forall id, In id (refs V o1) -> In id (refs V o)).
Proof. exact copy_shallow_shares_proof. Qed.
Print Assumptions copy_shallow_shares.

Example copy_nonvacuous_example :
  heap_wf Z (fst w_heap_obj) (snd w_heap_obj) /\ obj_arr Z KCOO (fst w_heap_obj) (snd w_heap_obj) = Ok w_coo
  /\ refs Z (snd w_heap_obj) = [0; 1].
Proof. exact copy_nonvacuous. Qed.

(* ---- a pass through a Numba-compiled function: unbox_COO then box_COO, for every coordinate dtype dt *)
Theorem numba_boxing_roundtrip :
  forall (V : Type) (dt : Z * bool) (c : coo V),
    forallb (fun d => 0 <=? d) (c_shape c) = true -> canonicalb c = true ->
    nb_roundtrip V dt c = Ok (ACoo c).
Proof. exact numba_boxing_roundtrip_proof. Qed.
Print Assumptions numba_boxing_roundtrip.

(* ---- `COO(coords, data, shape)` inside a Numba-compiled function (impl_COO), then boxing: every ndim (0-d included)
   and every coordinate dtype; the fill value of the result is the zero of the data dtype *)
Theorem numba_construct :
  forall (V : Type) (zero : V) (dt : Z * bool) (c : coo V),
    forallb (fun d => 0 <=? d) (c_shape c) = true -> canonicalb c = true -> c_fill c = zero ->
    nb_construct V zero dt c = Ok (ACoo c).
Proof. exact numba_construct_proof. Qed.
Print Assumptions numba_construct.

Example numba_nonvacuous_example :
  Forall (fun c => forallb (fun d => 0 <=? d) (c_shape c) = true /\ canonicalb c = true /\ c_fill c = 0) [w_nb; w_nb_0d]
  /\ nb_roundtrip Z (8, true) w_nb = Ok (ACoo w_nb) /\ nb_construct Z 0 (8, true) w_nb_0d = Ok (ACoo w_nb_0d).
Proof. exact numba_nonvacuous. Qed.

(* ---- part of the container oracle replaced by a theorem: CRC-32 as zlib computes it (Model/Crc32.v, validated against
   zlib.crc32 and the CRC fields of real archives by the campaign) detects every single-byte change of a message *)
Theorem crc32_detects_single_byte :
  forall (msg : list Z) (i : nat) (b : Z),
    bytes_ok msg -> (i < List.length msg)%nat -> byte_ok b -> b <> nth i msg 0 ->
    crc32 (set_byte msg i b) <> crc32 msg.
Proof. exact crc32_detects_single_byte_proof. Qed.
Print Assumptions crc32_detects_single_byte.

Example crc32_nonvacuous :
  crc32 [49; 50; 51; 52; 53; 54; 55; 56; 57] = 3421780262 /\ bytes_ok [49; 50; 51] /\ byte_ok 0.
Proof. split; [reflexivity | split; [repeat constructor; cbv; intuition congruence | cbv; intuition congruence]]. Qed.

(* testzip (recomputing the CRC-32 of every member payload) reports an archive in which one payload byte was altered *)
Theorem testzip_detects_corruption :
  forall (a : zarchive) (k i : nat) (b : Z) (m : zmember),
    written_ok a -> nth_error a k = Some m -> (i < List.length (zm_payload m))%nat ->
    byte_ok b -> b <> nth i (zm_payload m) 0 ->
    testzip_passes (corrupt a k i b) = false.
Proof. exact testzip_detects_corruption_proof. Qed.
Print Assumptions testzip_detects_corruption.

(* ... and load_npz therefore rejects it, whatever the lazy member reads would have returned.  The remaining oracle
   for this case: ZipFile.testzip() recomputes the CRC-32 of every member's (decompressed) payload and compares it
   with the recorded CRC, i.e. the [ok] of [Archive ok view] is [testzip_passes] of the archive. *)
Theorem npz_payload_corruption_rejected :
  forall (V : Type) (a : zarchive) (k i : nat) (b : Z) (m : zmember) (view : members V),
    written_ok a -> nth_error a k = Some m -> (i < List.length (zm_payload m))%nat ->
    byte_ok b -> b <> nth i (zm_payload m) 0 ->
    exists e, load_file V (Archive (testzip_passes (corrupt a k i b)) view) = Raise e.
Proof. exact npz_payload_corruption_rejected_proof. Qed.
Print Assumptions npz_payload_corruption_rejected.
