(* Proofs/JoinG.v — the GCXS joiners (_compressed/common.py: concatenate, stack) denote np.concatenate /
   np.stack and return well-formed GCXS arrays.
   Route: a member is the canonical GCXS of a canonical COO c (Convert.gcxs_from_coo c ca — what
   GCXS.from_coo / tocoo round trips produce, C05).  change_compressed_axes((axis,)) turns it into
   gcxs_from_coo c [axis] (C05: change_axes_image).  The splice of those — data and indices
   concatenated, index pointers spliced by the suffix-add loop — IS gcxs_from_coo C [axis] for the COO
   joiner's canonical result C (join_core_is_from_coo, the heart of this file); the final
   change_compressed_axes, well-formedness and the dense meaning then come from C05's theorems and
   from coo_concat_den / coo_stack_den. *)
From Coq Require Import ZArith List Bool Lia Sorting.Sorted Sorting.Permutation.
From Verif Require Import Py PyExt Shape COO COOP GCXS Convert ConvertL ConvertM ConvertG ConvertP
                          NpJoin G_join S_join Join Extract JoinP ExtractP.
Import ListNotations.
Open Scope Z_scope.

(* ================================================================ index pointers of row blocks *)

Lemma zsum_eq l : NpJoin.zsum l = ConvertL.zsum l.
Proof. induction l as [|x l IH]; [reflexivity|]. unfold NpJoin.zsum in *. simpl. rewrite IH. reflexivity. Qed.

Lemma seq_shift_map d : forall n s,
  map Z.of_nat (seq (d + s) n) = map (Z.add (Z.of_nat d)) (map Z.of_nat (seq s n)).
Proof.
  induction n as [|n IH]; intros s; simpl; [reflexivity|]. f_equal; [lia|].
  rewrite <- IH. f_equal. f_equal. lia.
Qed.

Lemma zrange_split c k : 0 <= c -> 0 <= k -> zrange (c + k) = zrange c ++ map (Z.add c) (zrange k).
Proof.
  intros Hc Hk. unfold zrange. replace (Z.to_nat (c + k)) with (Z.to_nat c + Z.to_nat k)%nat by lia.
  rewrite seq_app, map_app. f_equal. rewrite Nat.add_0_l.
  rewrite <- (Nat.add_0_r (Z.to_nat c)) at 1. rewrite seq_shift_map. rewrite Z2Nat.id by lia. reflexivity.
Qed.

Lemma count_z_app l1 l2 r : count_z (l1 ++ l2) r = count_z l1 r + count_z l2 r.
Proof. unfold count_z. rewrite filter_app, app_length. lia. Qed.

Lemma count_z_absent l r : ~ In r l -> count_z l r = 0.
Proof.
  intros H. unfold count_z. replace (filter (Z.eqb r) l) with (@nil Z); [reflexivity|].
  symmetry. induction l as [|x l IH]; [reflexivity|]. simpl.
  destruct (Z.eqb_spec r x) as [->|_]; [exfalso; apply H; left; reflexivity|]. apply IH. intros Hin. apply H. right. exact Hin.
Qed.

Lemma count_z_shift d l r : count_z (map (Z.add d) l) (d + r) = count_z l r.
Proof.
  unfold count_z. f_equal. induction l as [|x l IH]; [reflexivity|]. simpl.
  destruct (Z.eqb_spec (d + r) (d + x)), (Z.eqb_spec r x); try lia; simpl; rewrite IH; reflexivity.
Qed.

(* rows of the first block lie in [0, d1), the others (shifted by d1) beyond *)
Lemma bincount_blocks rows1 rest d1 D :
  0 <= d1 -> 0 <= D ->
  Forall (fun r => 0 <= r < d1) rows1 -> Forall (fun r => 0 <= r) rest ->
  bincount (rows1 ++ map (Z.add d1) rest) (d1 + D) = bincount rows1 d1 ++ bincount rest D.
Proof.
  intros Hd HD H1 H2. unfold bincount. rewrite zrange_split by assumption. rewrite map_app, map_map. f_equal.
  - apply map_ext_in. intros i Hi. apply zrange_In in Hi. rewrite count_z_app.
    rewrite (count_z_absent (map (Z.add d1) rest)); [lia|].
    intros Hin. apply in_map_iff in Hin. destruct Hin as [x [E Hx]]. rewrite Forall_forall in H2. specialize (H2 _ Hx). lia.
  - apply map_ext_in. intros i Hi. apply zrange_In in Hi. rewrite count_z_app, count_z_shift.
    rewrite (count_z_absent rows1); [lia|].
    intros Hin. rewrite Forall_forall in H1. specialize (H1 _ Hin). lia.
Qed.

Lemma cumsum_app a A B : cumsum_from a (A ++ B) = cumsum_from a A ++ cumsum_from (a + ConvertL.zsum A) B.
Proof.
  revert a; induction A as [|x A IH]; intros a; simpl; [f_equal; lia|].
  f_equal. rewrite IH. f_equal. f_equal. lia.
Qed.

Lemma cumsum_shift a X : cumsum_from a X = map (Z.add a) (cumsum_from 0 X).
Proof.
  revert a. induction X as [|x X IH]; intros a; simpl; [reflexivity|].
  f_equal; try lia. rewrite (IH (a + x)), (IH (0 + x)), map_map. apply map_ext. intros; lia.
Qed.

(* the row numbers of the joined array: member j's rows shifted by the extents before it *)
Fixpoint frows (off : Z) (ms : list (list Z * Z)) : list Z :=     (* ms : (rows_j, d_j) *)
  match ms with
  | [] => []
  | (rows, d) :: r => map (Z.add off) rows ++ frows (off + d) r
  end.

Lemma frows_shift off ms : frows off ms = map (Z.add off) (frows 0 ms).
Proof.
  revert off. induction ms as [|[rows d] r IH]; intros off; simpl; [reflexivity|].
  rewrite map_app, map_map. f_equal; try (apply map_ext; intros; lia).
  rewrite (IH (off + d)), (IH (0 + d)), !map_map. apply map_ext. intros; lia.
Qed.

Definition block_ok (m : list Z * Z) : Prop :=
  0 <= snd m /\ StronglySorted Z.le (fst m) /\ Forall (fun r => 0 <= r < snd m) (fst m).

Lemma frows_nonneg ms : Forall block_ok ms -> Forall (fun r => 0 <= r) (frows 0 ms).
Proof.
  induction 1 as [|[rows d] r [Hd [_ Hr]] _ IH]; simpl; [constructor|]. simpl in *.
  apply Forall_app. split.
  - apply Forall_forall. intros x Hx. apply in_map_iff in Hx. destruct Hx as [y [<- Hy]].
    rewrite Forall_forall in Hr. specialize (Hr _ Hy). lia.
  - rewrite frows_shift. apply Forall_forall. intros x Hx. apply in_map_iff in Hx. destruct Hx as [y [<- Hy]].
    rewrite Forall_forall in IH. specialize (IH _ Hy). lia.
Qed.

Definition ptr_member (m : list Z * Z) : list Z * Z := (indptr_of (fst m) (snd m), Z.of_nat (length (fst m))).

Lemma extents_nonneg ms : Forall block_ok ms -> 0 <= NpJoin.zsum (map snd ms).
Proof.
  induction 1 as [|m r [Hd _] _ IH]; unfold NpJoin.zsum in *; simpl; lia.
Qed.

Lemma cumsum_blocks : forall ms a,
  Forall block_ok ms ->
  cumsum_from a (bincount (frows 0 ms) (NpJoin.zsum (map snd ms))) = splice_pref a (map ptr_member ms).
Proof.
  induction ms as [|[rows d] r IH]; intros a Hall.
  - reflexivity.
  - inversion Hall as [|? ? [Hd [Hs Hr]] Hall']; subst. simpl in Hd, Hs, Hr.
    cbn [frows map ptr_member fst snd splice_pref]. unfold NpJoin.zsum. cbn [fold_right map snd].
    fold (NpJoin.zsum (map snd r)).
    rewrite (map_ext (Z.add 0) (fun x => x)) by (intros; lia). rewrite map_id.
    rewrite Z.add_0_l, frows_shift.
    rewrite bincount_blocks; [|exact Hd|apply extents_nonneg; exact Hall'|exact Hr|apply frows_nonneg; exact Hall'].
    rewrite cumsum_app, (zsum_bincount rows d Hs Hr), IH by exact Hall'.
    f_equal. unfold indptr_of. cbn [tl]. apply cumsum_shift.
Qed.

(* the pointer of the joined rows is the spliced pointer *)
Lemma indptr_of_blocks (ms : list (list Z * Z)) :
  ms <> [] -> Forall block_ok ms ->
  indptr_of (frows 0 ms) (NpJoin.zsum (map snd ms)) = splice (map ptr_member ms).
Proof.
  intros Hne Hall. rewrite indptr_splice_spec_proof.
  unfold indptr_of at 1. rewrite (cumsum_blocks ms 0 Hall).
  destruct ms as [|[rows d] r]; [congruence|].
  cbn [map ptr_member fst snd splice_spec splice_pref]. unfold indptr_of. cbn [tl].
  rewrite (map_ext (Z.add 0) (fun x => x)) by (intros; lia). rewrite map_id. reflexivity.
Qed.

(* ================================================================ one compressed axis *)

Lemma single_proj (k : nat) (c : list Z) :
  map (fun a => znth c a 0)
      (filter (fun a => negb (mem_z a [Z.of_nat k])) (zrange (Z.of_nat (length c)))) = del k c.
Proof.
  unfold zrange. rewrite Nat2Z.id, filter_map_comm, map_map.
  replace (del k c) with (del (k - 0) c) by (rewrite Nat.sub_0_r; reflexivity).
  rewrite <- (keep_del1 k c 0) by lia. rewrite <- (map_nth_filter_seq _ c 0).
  rewrite (filter_ext (fun x => negb (mem_z (Z.of_nat x) [Z.of_nat k])) (fun j => negb (j =? k)%nat)).
  - apply map_ext. intros a. unfold znth. rewrite Nat2Z.id, Nat.sub_0_r. reflexivity.
  - intros j. unfold mem_z. simpl. rewrite orb_false_r.
    destruct (Z.eqb_spec (Z.of_nat j) (Z.of_nat k)), (Nat.eqb_spec j k); try reflexivity; lia.
Qed.

Lemma gather_single (k : nat) (c : list Z) :
  gather c (axis_order (Z.of_nat (length c)) [Z.of_nat k]) = nth k c 0 :: del k c.
Proof.
  unfold gather, axis_order. cbn [app map]. f_equal.
  - unfold znth. rewrite Nat2Z.id. reflexivity.
  - apply single_proj.
Qed.

Lemma reordered_single (k : nat) (sh : shape) :
  reordered_shape sh [Z.of_nat k] = nth k sh 0 :: del k sh.
Proof. rewrite reordered_shape_gather. apply gather_single. Qed.

Lemma row_size_single k sh : row_size sh [Z.of_nat k] = nth k sh 0.
Proof. unfold row_size. cbn [map]. unfold znth. rewrite Nat2Z.id. simpl. lia. Qed.

Lemma col_size_single k sh : col_size sh [Z.of_nat k] = size (del k sh).
Proof. unfold col_size. rewrite reordered_single. reflexivity. Qed.

Lemma ckey_single k sh ix : length ix = length sh ->
  ckey sh [Z.of_nat k] ix = nth k ix 0 * size (del k sh) + ravel (del k sh) (del k ix).
Proof.
  intros Hl. unfold ckey. rewrite reordered_single, <- Hl, gather_single. reflexivity.
Qed.

Lemma caxes_ok_single k n : (k < n)%nat -> (2 <= n)%nat -> caxes_okb (Z.of_nat n) [Z.of_nat k] = true.
Proof.
  intros Hk Hn. unfold caxes_okb. cbn.
  destruct (Z.ltb_spec 1 (Z.of_nat n)); [|lia].
  destruct (Z.leb_spec 0 (Z.of_nat k)); [|lia]. destruct (Z.ltb_spec (Z.of_nat k) (Z.of_nat n)); [|lia]. reflexivity.
Qed.

Lemma del_upd k f (l : list Z) : del k (upd k f l) = del k l.
Proof. revert k; induction l as [|x l IH]; intros [|k]; simpl; try reflexivity. f_equal. apply IH. Qed.

Lemma nth_upd_other : forall (l : list Z) i k f, i <> k -> nth i (upd k f l) 0 = nth i l 0.
Proof.
  induction l as [|y l IH]; intros [|i] [|k'] f Hik; simpl; try reflexivity; try lia. apply IH. lia.
Qed.

Lemma nth_del_eq : forall (l l' : list Z) j k,
  length l = length l' -> del k l = del k l' -> j <> k -> nth j l 0 = nth j l' 0.
Proof.
  induction l as [|y l IH]; intros [|z l'] j k' Hl Hd Hjk; simpl in *; try discriminate; [reflexivity|].
  destruct k' as [|k'']; destruct j as [|j']; simpl in *; try lia.
  - subst. reflexivity.
  - injection Hd as -> _. reflexivity.
  - injection Hd as _ Hd. apply (IH l' j' k''); [lia|exact Hd|lia].
Qed.

(* ================================================================ sorted lists with distinct keys are unique *)

Section Keyed.
  Variable A : Type.
  Notation klt := (fun a b : Z * A => fst a < fst b).

  Lemma SS_klt_head_min (x : Z * A) l y : StronglySorted klt (x :: l) -> In y (x :: l) -> fst x <= fst y.
  Proof.
    intros Hs [<-|Hy]; [lia|]. inversion Hs as [|? ? _ Hall]; subst. rewrite Forall_forall in Hall.
    specialize (Hall _ Hy). simpl in Hall. lia.
  Qed.

  Lemma SS_klt_perm_unique (l1 l2 : list (Z * A)) :
    StronglySorted klt l1 -> StronglySorted klt l2 -> Permutation l1 l2 -> l1 = l2.
  Proof.
    revert l2. induction l1 as [|x l1 IH]; intros l2 H1 H2 Hp.
    - apply Permutation_nil in Hp. congruence.
    - destruct l2 as [|y l2]; [apply Permutation_sym, Permutation_nil in Hp; discriminate|].
      assert (Hxy : In x (y :: l2)) by (eapply Permutation_in; [exact Hp|left; reflexivity]).
      assert (Hyx : In y (x :: l1)) by (eapply Permutation_in; [apply Permutation_sym; exact Hp|left; reflexivity]).
      pose proof (SS_klt_head_min x l1 y H1 Hyx) as L1. pose proof (SS_klt_head_min y l2 x H2 Hxy) as L2.
      assert (E : x = y).
      { destruct Hxy as [E|Hin]; [congruence|].
        inversion H2 as [|? ? _ Hall]; subst. rewrite Forall_forall in Hall. specialize (Hall _ Hin). simpl in Hall. lia. }
      subst y. f_equal. apply IH.
      + inversion H1; assumption.
      + inversion H2; assumption.
      + eapply Permutation_cons_inv. exact Hp.
  Qed.

  Definition shiftk (d : Z) (p : Z * A) : Z * A := (fst p + d, snd p).

  Lemma SS_klt_shift d l : StronglySorted klt l -> StronglySorted klt (map (shiftk d) l).
  Proof.
    induction 1 as [|a l Hs IH Hall]; simpl; constructor; [assumption|].
    apply Forall_forall. intros y Hy. apply in_map_iff in Hy. destruct Hy as [z [<- Hz]].
    rewrite Forall_forall in Hall. specialize (Hall _ Hz). simpl in *. lia.
  Qed.
End Keyed.

(* ================================================================ the splice of canonical members is canonical *)

Section Core.
  Variable V : Type.
  Notation coo := (coo V).
  Notation klt := (fun a b : Z * V => fst a < fst b).

  Variable k : nat.
  Variable sha : shape.                       (* the first member's shape *)
  Hypothesis Hk : (k < length sha)%nat.
  Hypothesis Hnd : (2 <= length sha)%nat.

  Let ca := [Z.of_nat k].
  Let cs := size (del k sha).
  Let n := length sha.

  (* what every member satisfies *)
  Definition gmember (x : coo) : Prop := cwf V x /\ same_off k sha (c_shape x).

  Lemma gm_len x : gmember x -> length (c_shape x) = n.
  Proof. intros [_ [Hl _]]. unfold n. lia. Qed.
  Lemma gm_cs x : gmember x -> col_size (c_shape x) ca = cs.
  Proof. intros [_ [_ Hd]]. unfold ca, cs. rewrite col_size_single, Hd. reflexivity. Qed.
  Lemma gm_rs (x : coo) : row_size (c_shape x) ca = nth k (c_shape x) 0.
  Proof. apply row_size_single. Qed.
  Lemma gm_caxes x : gmember x -> caxes_okb (Z.of_nat (length (c_shape x))) ca = true.
  Proof. intros H. rewrite (gm_len x H). apply caxes_ok_single; unfold n; lia. Qed.
  Lemma gm_ext x : gmember x -> 0 <= nth k (c_shape x) 0.
  Proof.
    intros H. pose proof (gm_len x H) as Hl. destruct H as [[_ Hok] _]. unfold shape_ok in Hok.
    rewrite Forall_forall in Hok. apply Hok. apply nth_In. unfold n in Hl. lia.
  Qed.
  Lemma cs_nonneg' x : gmember x -> 0 <= cs.
  Proof.
    intros H. rewrite <- (gm_cs x H). apply col_size_nonneg; first [exact (proj2 (proj1 H))|exact (gm_caxes x H)].
  Qed.

  Lemma exts_nonneg xs : Forall gmember xs -> 0 <= NpJoin.zsum (map (fun x => nth k (c_shape x) 0) xs).
  Proof.
    induction 1 as [|x r Hx _ IH]; unfold NpJoin.zsum in *; simpl; [lia|]. pose proof (gm_ext x Hx). lia.
  Qed.

  Definition keyE (sh : shape) (e : idx * V) : Z * V := (ckey sh ca (fst e), snd e).

  (* keyed raw entries / sorted member lists, block by block with the running row offset d *)
  Fixpoint kblocks (d : Z) (xs : list coo) : list (Z * V) :=
    match xs with
    | [] => []
    | x :: r => map (shiftk V (d * cs)) (map (keyE (c_shape x)) (entries x)) ++ kblocks (d + nth k (c_shape x) 0) r
    end.
  Fixpoint sblocks (d : Z) (xs : list coo) : list (Z * V) :=
    match xs with
    | [] => []
    | x :: r => map (shiftk V (d * cs)) (gsorted V x ca) ++ sblocks (d + nth k (c_shape x) 0) r
    end.

  Lemma keyed_parts shC : forall xs d,
    length shC = n -> del k shC = del k sha -> Forall gmember xs ->
    map (keyE shC) (cparts_e V k d xs) = kblocks d xs.
  Proof.
    intros xs d HlC HdC. revert d. induction xs as [|x r IH]; intros d Hall; [reflexivity|].
    inversion Hall as [|? ? Hx Hr]; subst. cbn [cparts_e kblocks]. rewrite map_app, IH by exact Hr. f_equal.
    rewrite !map_map. apply map_ext_in. intros e He.
    assert (Hc : In (fst e) (c_coords x)) by (apply (entries_keys V); apply in_map; exact He).
    pose proof Hx as [[[Hrng _] _] [Hlx Hdx]]. rewrite Forall_forall in Hrng.
    pose proof (in_range_length _ _ (Hrng _ Hc)) as Lc.
    unfold keyE, shift_key, shiftk, ca. cbn [fst snd]. f_equal.
    rewrite !ckey_single by (rewrite ?upd_length; lia).
    rewrite nth_upd by lia. rewrite del_upd, HdC, <- Hdx. unfold cs. ring.
  Qed.

  Lemma blocks_perm : forall xs d, Forall gmember xs -> Permutation (kblocks d xs) (sblocks d xs).
  Proof.
    induction xs as [|x r IH]; intros d Hall; [constructor|].
    inversion Hall as [|? ? Hx Hr]; subst. cbn [kblocks sblocks]. apply Permutation_app; [|apply IH; exact Hr].
    apply Permutation_map.
    pose proof (gs_perm V x ca) as Hp. unfold entries.
    rewrite combine_map_l in Hp. exact Hp.
  Qed.

  Lemma sblocks_lower : forall xs d p, Forall gmember xs -> 0 <= d -> In p (sblocks d xs) -> d * cs <= fst p.
  Proof.
    induction xs as [|x r IH]; intros d p Hall Hd Hp; [destruct Hp|].
    inversion Hall as [|? ? Hx Hr]; subst. cbn [sblocks] in Hp. apply in_app_iff in Hp.
    pose proof (cs_nonneg' x Hx) as Hcs. pose proof (gm_ext x Hx) as Hext.
    destruct Hp as [Hp|Hp].
    - apply in_map_iff in Hp. destruct Hp as [q [<- Hq]].
      destruct (gs_bounds V x ca (proj1 (proj1 Hx)) (gm_caxes x Hx) q Hq) as [H0 _]. unfold shiftk. simpl. lia.
    - assert (Hd' : 0 <= d + nth k (c_shape x) 0) by lia.
      specialize (IH (d + nth k (c_shape x) 0) p Hr Hd' Hp). nia.
  Qed.

  Lemma sblocks_sorted : forall xs d, Forall gmember xs -> 0 <= d -> StronglySorted klt (sblocks d xs).
  Proof.
    induction xs as [|x r IH]; intros d Hall Hd; [constructor|].
    inversion Hall as [|? ? Hx Hr]; subst. cbn [sblocks].
    pose proof (gm_ext x Hx) as Hext.
    apply SS_app.
    - apply SS_klt_shift. apply gs_pairs_lt; [apply Hx|apply gm_caxes; exact Hx].
    - apply IH; [exact Hr|lia].
    - intros p q Hp Hq. apply in_map_iff in Hp. destruct Hp as [p' [<- Hp']].
      destruct (gs_bounds V x ca (proj1 (proj1 Hx)) (gm_caxes x Hx) p' Hp') as [_ Hub].
      rewrite gm_rs, (gm_cs x Hx) in Hub.
      assert (Hd' : 0 <= d + nth k (c_shape x) 0) by lia.
      pose proof (sblocks_lower r _ q Hr Hd' Hq) as Hlo. unfold shiftk. simpl. nia.
  Qed.

  (* ---- the three fields, block by block *)
  Lemma sblocks_data : forall xs d, Forall gmember xs ->
    map snd (sblocks d xs) = flat_map (@g_data V) (map (fun x => gcxs_from_coo x ca) xs).
  Proof.
    induction xs as [|x r IH]; intros d Hall; [reflexivity|].
    inversion Hall as [|? ? Hx Hr]; subst. cbn [sblocks map flat_map]. rewrite map_app, IH by exact Hr. f_equal.
    rewrite (from_coo_nf V x ca (proj2 (proj1 Hx)) (gm_caxes x Hx) ltac:(rewrite (gm_len x Hx); exact Hnd)).
    cbn [g_data]. rewrite map_map. reflexivity.
  Qed.

  Lemma sblocks_cols : forall xs d, Forall gmember xs ->
    map (fun p => fst p mod cs) (sblocks d xs) = flat_map (@g_indices V) (map (fun x => gcxs_from_coo x ca) xs).
  Proof.
    induction xs as [|x r IH]; intros d Hall; [reflexivity|].
    inversion Hall as [|? ? Hx Hr]; subst. cbn [sblocks map flat_map]. rewrite map_app, IH by exact Hr. f_equal.
    rewrite (from_coo_nf V x ca (proj2 (proj1 Hx)) (gm_caxes x Hx) ltac:(rewrite (gm_len x Hx); exact Hnd)).
    cbn [g_indices]. rewrite map_map. apply map_ext. intros p. unfold shiftk, colf. cbn [fst].
    rewrite (gm_cs x Hx). apply Z_mod_plus_full.
  Qed.

  Definition rows_member (x : coo) : list Z * Z := (map (rowf V x ca) (gsorted V x ca), nth k (c_shape x) 0).

  Lemma sblocks_rows : forall xs d, Forall gmember xs ->
    map (fun p => fst p / cs) (sblocks d xs) = frows d (map rows_member xs).
  Proof.
    induction xs as [|x r IH]; intros d Hall; [reflexivity|].
    inversion Hall as [|? ? Hx Hr]; subst. cbn [sblocks map frows rows_member]. rewrite map_app, IH by exact Hr. f_equal.
    rewrite !map_map. apply map_ext_in. intros p Hp.
    destruct (rowf_colf V x ca (proj1 (proj1 Hx)) (proj2 (proj1 Hx)) (gm_caxes x Hx) p Hp) as [Hcs [Er _]].
    rewrite (gm_cs x Hx) in Hcs, Er. rewrite Er. unfold shiftk. cbn [fst]. rewrite Z.div_add by lia. lia.
  Qed.

  Lemma rows_member_ok x : gmember x -> block_ok (rows_member x).
  Proof.
    intros Hx. unfold block_ok, rows_member. cbn [fst snd]. split; [apply gm_ext; exact Hx|]. split.
    - apply rows_sorted; [apply Hx|apply Hx|apply gm_caxes; exact Hx].
    - pose proof (rows_in_range V x ca (proj1 (proj1 Hx)) (proj2 (proj1 Hx)) (gm_caxes x Hx)) as H.
      rewrite gm_rs in H. exact H.
  Qed.

  Lemma members_ptr : forall xs, Forall gmember xs ->
    map (fun g : gcxs V => (g_indptr g, gnnz V g)) (map (fun x => gcxs_from_coo x ca) xs)
    = map ptr_member (map rows_member xs).
  Proof.
    induction xs as [|x r IH]; intros Hall; [reflexivity|].
    inversion Hall as [|? ? Hx Hr]; subst. cbn [map]. rewrite IH by exact Hr. f_equal.
    rewrite (from_coo_nf V x ca (proj2 (proj1 Hx)) (gm_caxes x Hx) ltac:(rewrite (gm_len x Hx); exact Hnd)).
    unfold ptr_member, rows_member, gnnz. cbn [g_indptr g_data fst snd]. rewrite gm_rs, !map_length. reflexivity.
  Qed.

  Lemma joined_shape_ok (xs : list coo) :
    xs <> [] -> Forall gmember xs ->
    shape_ok (upd k (fun _ => NpJoin.zsum (map (fun x => nth k (c_shape x) 0) xs)) sha).
  Proof.
    intros Hne Hall. pose proof (exts_nonneg xs Hall) as HT.
    destruct xs as [|x0 r0]; [congruence|].
    inversion Hall as [|? ? Hx0 _]; subst. destruct Hx0 as [[_ Hok0] [Hl0 Hd0]].
    unfold shape_ok. apply Forall_forall. intros v Hv.
    apply In_nth with (d := 0) in Hv. destruct Hv as [i [Hi <-]]. rewrite upd_length in Hi.
    destruct (Nat.eq_dec i k) as [->|Hik]; [rewrite nth_upd by lia; exact HT|].
    rewrite nth_upd_other by exact Hik.
    rewrite (nth_del_eq sha (c_shape x0) i k Hl0 Hd0 Hik).
    unfold shape_ok in Hok0. rewrite Forall_forall in Hok0. apply Hok0. apply nth_In. lia.
  Qed.

  (* ---- the theorem of this section *)
  Theorem join_core_is_from_coo (xs : list coo) (sorted : bool) (fill : V) :
    xs <> [] -> Forall gmember xs ->
    let T := NpJoin.zsum (map (fun x => nth k (c_shape x) 0) xs) in
    let shC := upd k (fun _ => T) sha in
    let C := plain_ctor V sorted fill shC (cparts_e V k 0 xs) in
    canonical V C ->
    gcxs_join_core V shC (Z.of_nat k) fill (map (fun x => gcxs_from_coo x ca) xs) = gcxs_from_coo C ca.
  Proof.
    intros Hne Hall T shC C HcanC.
    assert (HlC : length shC = n) by (unfold shC; rewrite upd_length; reflexivity).
    assert (HdC : del k shC = del k sha) by (unfold shC; apply del_upd).
    assert (HT : 0 <= T) by (apply exts_nonneg; exact Hall).
    assert (HokC : shape_ok (c_shape C)) by (cbn [C plain_ctor c_shape]; apply joined_shape_ok; assumption).
    assert (HcaC : caxes_okb (Z.of_nat (length (c_shape C))) ca = true).
    { cbn [C plain_ctor c_shape]. rewrite HlC. apply caxes_ok_single; unfold n; lia. }
    assert (HndC : (2 <= length (c_shape C))%nat) by (cbn [C plain_ctor c_shape]; rewrite HlC; exact Hnd).
    assert (HcsC : col_size (c_shape C) ca = cs).
    { cbn [C plain_ctor c_shape]. unfold ca, cs. rewrite col_size_single, HdC. reflexivity. }
    assert (HrsC : row_size (c_shape C) ca = T).
    { cbn [C plain_ctor c_shape]. unfold ca. rewrite row_size_single. unfold shC. apply nth_upd. exact Hk. }
    (* the sorted key list of C is the concatenation of the members' shifted sorted lists *)
    assert (Es : gsorted V C ca = sblocks 0 xs).
    { apply SS_klt_perm_unique.
      - apply gs_pairs_lt; assumption.
      - apply sblocks_sorted; [exact Hall|lia].
      - eapply perm_trans; [apply Permutation_sym, gs_perm|].
        eapply perm_trans; [|apply blocks_perm; exact Hall].
        rewrite <- (keyed_parts shC xs 0 HlC HdC Hall).
        destruct HcanC as [_ [_ HlenC]].
        rewrite combine_map_l. fold (entries C). apply Permutation_map.
        unfold C. rewrite entries_plain_ctor. destruct sorted; [apply Permutation_refl|].
        apply Permutation_sym, sort_by_perm. }
    rewrite (from_coo_nf V C ca HokC HcaC HndC). unfold gcxs_join_core.
    rewrite Es. f_equal.
    - rewrite <- (sblocks_data xs 0 Hall). reflexivity.
    - rewrite <- (sblocks_cols xs 0 Hall). apply map_ext. intros p. unfold colf. rewrite HcsC. reflexivity.
    - rewrite (members_ptr xs Hall). rewrite HrsC.
      assert (Er : map (rowf V C ca) (sblocks 0 xs) = frows 0 (map rows_member xs)).
      { rewrite <- (sblocks_rows xs 0 Hall). apply map_ext_in. intros p Hp. rewrite <- Es in Hp.
        destruct (rowf_colf V C ca HcanC HokC HcaC p Hp) as [_ [Er _]]. rewrite Er, HcsC. reflexivity. }
      rewrite Er.
      assert (ET : T = NpJoin.zsum (map snd (map rows_member xs))).
      { unfold T. rewrite map_map. reflexivity. }
      rewrite ET. symmetry. apply indptr_of_blocks.
      + destruct xs; [congruence|discriminate].
      + apply Forall_forall. intros m Hm. apply in_map_iff in Hm. destruct Hm as [x [<- Hx]].
        apply rows_member_ok. rewrite Forall_forall in Hall. auto.
  Qed.
End Core.


(* ================================================================ GCXS concatenate *)

Lemma from_coo_fill {V} (c : coo V) ca : g_fill (gcxs_from_coo c ca) = c_fill c.
Proof. unfold gcxs_from_coo. destruct (c_shape c) as [|d1 [|d2 t]]; reflexivity. Qed.

Lemma from_coo_caxes {V} (c : coo V) ca : (2 <= length (c_shape c))%nat -> g_caxes (gcxs_from_coo c ca) = ca.
Proof. unfold gcxs_from_coo. destruct (c_shape c) as [|d1 [|d2 t]]; simpl; intros; try lia; reflexivity. Qed.

Section GJoin.
  Variable V : Type.
  Variable veqb : V -> V -> bool.
  Hypothesis veqb_eq : forall a b, veqb a b = true <-> a = b.

  Notation coo := (coo V).

  (* what the theorems conclude about the joined GCXS g *)
  Definition gjoin_result (g : gcxs V) (a : coo) (ca : list Z) (spec : darr V) : Prop :=
    gcxs_wfb g = true /\ g_shape g = da_shape spec /\ g_fill g = c_fill a /\ g_caxes g = ca /\
    forall ix, in_range (g_shape g) ix -> gden g ix = da_f spec ix.

  Definition final_axes (caxes : option (list Z)) (k : nat) : list Z :=
    match caxes with Some c => c | None => [Z.of_nat k] end.

  (* the COO joiner's value and its properties together *)
  Lemma coo_concat_src_both (vzero : V) (vadd : V -> V -> V) (a : coo) (r : list coo) (axis : Z) (k : nat) :
    np_norm_axis axis (ndim_of V a) = Some k ->
    Forall (cwf V) (a :: r) ->
    Forall (fun x => same_off k (c_shape a) (c_shape x)) r ->
    Forall (fun x => c_fill x = c_fill a) r ->
    let C := plain_ctor V (site_concatenate_sorted (Z.of_nat k)) (c_fill a)
               (upd k (fun _ => NpJoin.zsum (map (fun x => nth k (c_shape x) 0) (a :: r))) (c_shape a))
               (cparts_e V k 0 (a :: r)) in
    canonical V C /\ join_result V C a (np_concatenate k (darr_of_coo a) (map darr_of_coo r)).
  Proof.
    intros Hax Hwf Hso Hfl C.
    destruct (coo_concat_src_correct V veqb veqb_eq vzero vadd a r axis k Hax Hwf Hso Hfl) as [c [Hc [Hcan Hj]]].
    assert (H5 : fl_fill concat_flags <> FillAbsent) by (cbn; discriminate).
    pose proof (coo_concat_value V veqb veqb_eq vzero vadd concat_flags site_concatenate_axis_ndim
                  site_concatenate_checks_consistent_fill site_concatenate_mismatch_exc a r axis k eq_refl Hax eq_refl eq_refl H5 Hwf Hso Hfl) as Hv.
    unfold coo_concatenate_src, coo_concatenate_opt in Hc. rewrite Hv in Hc. inversion Hc; subst c.
    split; assumption.
  Qed.

  Theorem gcxs_concat_correct (vzero : V) (a : coo) (ca_a : list Z) (r : list (coo * list Z))
          (axis : Z) (k : nat) (caxes : option (list Z)) :
    let cs := a :: map fst r in
    let n := Z.of_nat (length (c_shape a)) in
    (2 <= length (c_shape a))%nat ->
    np_norm_axis axis (ndim_of V a) = Some k ->
    Forall (cwf V) cs ->
    Forall (fun x => same_off k (c_shape a) (c_shape x)) (map fst r) ->
    Forall (fun x => c_fill x = c_fill a) (map fst r) ->
    Forall (fun p => caxes_okb n (snd p) = true) ((a, ca_a) :: r) ->
    caxes_okb n (final_axes caxes k) = true ->
    exists g,
      gcxs_concatenate_src V veqb vzero axis caxes
        (map (fun p => gcxs_from_coo (fst p) (snd p)) ((a, ca_a) :: r)) = Ok g
      /\ gjoin_result g a (final_axes caxes k) (np_concatenate k (darr_of_coo a) (map darr_of_coo (map fst r))).
  Proof.
    intros cs n Hnd Hax Hwf Hso Hfl Hcas Hfin.
    pose (vadd := fun (x _ : V) => x).
    assert (Hklt : (k < length (c_shape a))%nat).
    { pose proof (np_norm_axis_lt _ _ _ Hax) as H. unfold ndim_of in H. lia. }
    assert (Hso' : Forall (fun x => same_off k (c_shape a) (c_shape x)) cs) by (constructor; [split; reflexivity|exact Hso]).
    assert (Hfl' : Forall (fun x => c_fill x = c_fill a) cs) by (constructor; auto).
    assert (Hgm : Forall (gmember V k (c_shape a)) cs).
    { apply Forall_forall. intros x Hx. rewrite Forall_forall in Hwf, Hso'. split; auto. }
    assert (Hlen : forall x, In x cs -> length (c_shape x) = length (c_shape a)).
    { intros x Hx. rewrite Forall_forall in Hso'. destruct (Hso' _ Hx) as [Hl _]. lia. }
    destruct (coo_concat_src_both vzero vadd a (map fst r) axis k Hax Hwf Hso Hfl) as [HcanC [HshC [HfillC HdenC]]].
    set (T := NpJoin.zsum (map (fun x => nth k (c_shape x) 0) cs)) in *.
    set (shC := upd k (fun _ => T) (c_shape a)) in *.
    set (C := plain_ctor V (site_concatenate_sorted (Z.of_nat k)) (c_fill a) shC (cparts_e V k 0 cs)) in *.
    (* run the model *)
    unfold gcxs_concatenate_src, gcxs_concatenate.
    set (g_a := gcxs_from_coo a ca_a). set (rest := map (fun p : coo * list Z => gcxs_from_coo (fst p) (snd p)) r).
    change (map (fun p : coo * list Z => gcxs_from_coo (fst p) (snd p)) ((a, ca_a) :: r)) with (g_a :: rest).
    cbv iota. set (arrs := g_a :: rest).
    assert (Earrs : arrs = map (fun p : coo * list Z => gcxs_from_coo (fst p) (snd p)) ((a, ca_a) :: r)) by reflexivity.
    assert (Ega : g_shape g_a = c_shape a) by apply from_coo_shape.
    assert (Egf : g_fill g_a = c_fill a) by apply from_coo_fill.
    assert (E1 : site_gcxs_concatenate_checks_consistent_fill
                 && negb (forallb (fun x => veqb (g_fill g_a) (g_fill x)) arrs) = false).
    { apply andb_false_intro2. apply negb_false_iff. apply forallb_forall. intros g Hg.
      rewrite Egf. apply veqb_eq. rewrite Earrs in Hg.
      apply in_map_iff in Hg. destruct Hg as [p [<- Hp]]. rewrite from_coo_fill.
      rewrite Forall_forall in Hfl'. symmetry. apply Hfl'. unfold cs.
      change (In (fst p) (map fst ((a, ca_a) :: r))). apply in_map. exact Hp. }
    rewrite E1, Ega.
    destruct (norm_axis_spec site_gcxs_concatenate_axis_ndim axis _ _ k eq_refl Hax) as [Hnorm _].
    unfold ndim_of in Hnorm. rewrite Hnorm. cbn [bind]. rewrite Nat2Z.id.
    assert (E2 : forallb (fun x => same_off_axis k (c_shape a) (g_shape x)) arrs = true).
    { apply forallb_forall. intros g Hg. rewrite Earrs in Hg. apply in_map_iff in Hg. destruct Hg as [p [<- Hp]].
      rewrite from_coo_shape. rewrite Forall_forall in Hso'.
      destruct (Hso' (fst p)) as [Hl Hd]; [change (In (fst p) (map fst ((a, ca_a) :: r))); apply in_map; exact Hp|].
      unfold same_off_axis. rewrite Hl, Nat.eqb_refl, Hd, idx_eqb_refl. reflexivity. }
    rewrite E2. cbn [negb].
    (* every member becomes the canonical GCXS compressed along the axis *)
    assert (Ems : map (change_compressed_axes V [Z.of_nat k]) arrs = map (fun x => gcxs_from_coo x [Z.of_nat k]) cs).
    { rewrite Earrs. unfold cs. change (a :: map fst r) with (map fst ((a, ca_a) :: r)). rewrite !map_map.
      apply map_ext_in. intros p Hp. unfold change_compressed_axes.
      assert (Hin : In (fst p) cs) by (unfold cs; change (In (fst p) (map fst ((a, ca_a) :: r))); apply in_map; exact Hp).
      rewrite Forall_forall in Hwf, Hcas. destruct (Hwf _ Hin) as [Hc Hok]. specialize (Hcas _ Hp).
      pose proof (Hlen _ Hin) as Hl.
      apply change_axes_image; [exact Hc|exact Hok|right; rewrite Hl; exact Hcas| |lia].
      right. rewrite Hl. apply caxes_ok_single; lia. }
    rewrite Ems.
    assert (Esh : upd k (fun _ => NpJoin.zsum (map (fun x => nth k (g_shape x) 0) arrs)) (c_shape a) = shC).
    { unfold shC, T. apply upd_ext. intros _. f_equal. rewrite Earrs. unfold cs.
      change (a :: map fst r) with (map fst ((a, ca_a) :: r)).
      rewrite !map_map. apply map_ext. intros p. rewrite from_coo_shape. reflexivity. }
    rewrite Esh.
    assert (Efill : fill_of V vzero site_gcxs_concatenate_fill (g_fill g_a) = c_fill a)
      by (rewrite Egf; reflexivity).
    rewrite Efill.
    assert (Hcore : gcxs_join_core V shC (Z.of_nat k) (c_fill a) (map (fun x => gcxs_from_coo x [Z.of_nat k]) cs)
                    = gcxs_from_coo C [Z.of_nat k]).
    { apply (join_core_is_from_coo V k (c_shape a) Hklt Hnd cs (site_concatenate_sorted (Z.of_nat k)) (c_fill a));
        [discriminate|exact Hgm|exact HcanC]. }
    rewrite Hcore.
    (* the final change of compressed axes *)
    assert (HokC : shape_ok (c_shape C)) by (apply (joined_shape_ok V k (c_shape a) Hklt Hnd cs); [discriminate|exact Hgm]).
    assert (HlC : length (c_shape C) = length (c_shape a)) by (cbn [C plain_ctor c_shape]; unfold shC; apply upd_length).
    assert (Hfa : match caxes with Some c => c | None => [Z.of_nat k] end = final_axes caxes k) by reflexivity.
    rewrite Hfa. unfold change_compressed_axes.
    rewrite (change_axes_image V C [Z.of_nat k] (final_axes caxes k) HcanC HokC
               ltac:(right; rewrite HlC; apply caxes_ok_single; lia) ltac:(right; rewrite HlC; exact Hfin) ltac:(lia)).
    eexists. split; [reflexivity|]. unfold gjoin_result.
    assert (Hax' : axes_ok (c_shape C) (final_axes caxes k)) by (right; rewrite HlC; exact Hfin).
    split; [apply (gcxs_from_coo_wf_proof V veqb vadd); assumption|].
    split; [rewrite from_coo_shape; exact HshC|].
    split; [rewrite from_coo_fill; exact HfillC|].
    split; [apply from_coo_caxes; lia|].
    intros ix Hix. rewrite from_coo_shape in Hix.
    rewrite (gcxs_from_coo_den_proof V veqb vadd C _ ix HcanC HokC Hax'). apply HdenC. exact Hix.
  Qed.

  (* axis=None with all-GCXS members: the flattened members go through the COO joiner *)
  Theorem gcxs_concat_none_correct (vzero : V) (vadd : V -> V -> V) (a : coo) (ca_a : list Z) (r : list (coo * list Z)) :
    Forall (cwf V) (a :: map fst r) ->
    Forall (fun x => c_fill x = c_fill a) (map fst r) ->
    Forall (fun p => axes_ok (c_shape (fst p)) (snd p)) ((a, ca_a) :: r) ->
    exists c, gcxs_concatenate_none_src V veqb vzero vadd
                (map (fun p => gcxs_from_coo (fst p) (snd p)) ((a, ca_a) :: r)) = Ok c
      /\ canonical V c
      /\ join_result V c a (np_concatenate_none (darr_of_coo a) (map darr_of_coo (map fst r))).
  Proof.
    intros Hwf Hfl Hax. unfold gcxs_concatenate_none_src, gcxs_concatenate_none.
    assert (E : map (gcxs_tocoo veqb vadd) (map (fun p : coo * list Z => gcxs_from_coo (fst p) (snd p)) ((a, ca_a) :: r))
                = a :: map fst r).
    { change (a :: map fst r) with (map fst ((a, ca_a) :: r)). rewrite map_map. apply map_ext_in. intros p Hp.
      assert (Hin : In (fst p) (a :: map fst r)).
      { change (In (fst p) (map fst ((a, ca_a) :: r))). apply in_map. exact Hp. }
      rewrite Forall_forall in Hwf, Hax. destruct (Hwf _ Hin) as [Hc Hok].
      apply tocoo_from_coo_proof; [exact Hc|exact Hok|exact (Hax _ Hp)]. }
    rewrite E. apply (coo_concat_none_proof V veqb veqb_eq vzero vadd); assumption.
  Qed.
End GJoin.

(* ================================================================ GCXS stack = concatenation of the expanded members *)

Lemma lex_lt_ins : forall k v (a b : list Z), length a = length b -> lex_lt a b -> lex_lt (ins k v a) (ins k v b).
Proof.
  induction k as [|k IH]; intros v a b Hl H.
  - simpl. right. split; [reflexivity|exact H].
  - destruct a as [|x a], b as [|y b]; simpl in *; try tauto; try discriminate.
    destruct H as [H|[-> H]]; [left; exact H|right; split; [reflexivity|apply IH; [lia|exact H]]].
Qed.

Lemma shape_ok_ins k v sh : 0 <= v -> shape_ok sh -> shape_ok (ins k v sh).
Proof.
  intros Hv. revert sh. induction k as [|k IH]; intros sh Hok.
  - constructor; assumption.
  - destruct sh as [|d sh]; simpl; [constructor; [exact Hv|constructor]|].
    inversion Hok; subst. constructor; [assumption|apply IH; assumption].
Qed.

Lemma upd_ins : forall k (sh : list Z) v N, (k <= length sh)%nat -> upd k (fun _ => N) (ins k v sh) = ins k N sh.
Proof.
  induction k as [|k IH]; intros sh v N Hk; [reflexivity|].
  destruct sh as [|d sh]; simpl in *; [lia|]. f_equal. apply IH. lia.
Qed.

Lemma zsum_const_one {A} (l : list A) : NpJoin.zsum (map (fun _ => 1) l) = Z.of_nat (length l).
Proof. induction l as [|x l IH]; [reflexivity|]. unfold NpJoin.zsum in *. cbn [map fold_right length]. rewrite IH. lia. Qed.

Section GStack.
  Variable V : Type.
  Variable veqb : V -> V -> bool.
  Hypothesis veqb_eq : forall a b, veqb a b = true <-> a = b.

  Notation coo := (coo V).

  Variable k : nat.
  Variable sh : shape.
  Hypothesis Hk : (k <= length sh)%nat.

  Lemma expand_entries (x : coo) : entries (coo_expand V k x) = map (ins_key V k 0) (entries x).
  Proof. unfold coo_expand, entries. cbn [c_coords c_data]. apply combine_map_l. Qed.

  Lemma cwf_expand (x : coo) : cwf V x -> c_shape x = sh -> cwf V (coo_expand V k x).
  Proof.
    intros [[Hr [Hs Hl]] Hok] Hsh. unfold coo_expand. split; [split; [|split]|]; cbn [c_shape c_coords c_data].
    - apply Forall_forall. intros c Hc. apply in_map_iff in Hc. destruct Hc as [c0 [<- Hc0]].
      rewrite Forall_forall in Hr. apply in_range_ins; [auto|rewrite Hsh; exact Hk|lia].
    - apply (SS_map_in lex_lt lex_lt); [|exact Hs].
      intros a b Ha Hb Hab. rewrite Forall_forall in Hr. apply lex_lt_ins; [|exact Hab].
      rewrite (in_range_length _ _ (Hr _ Ha)), (in_range_length _ _ (Hr _ Hb)). reflexivity.
    - rewrite map_length. exact Hl.
    - apply shape_ok_ins; [lia|exact Hok].
  Qed.

  Lemma den_expand (x : coo) ix :
    cwf V x -> c_shape x = sh -> (k < length ix)%nat -> nth k ix 0 = 0 ->
    den (coo_expand V k x) ix = den x (del k ix).
  Proof.
    intros [[Hr [_ Hl]] _] Hsh Hkix H0. unfold den. rewrite expand_entries.
    rewrite (lookup_inserted V k 0 sh x ix); [reflexivity| |exact Hk|exact Hkix|exact H0].
    split; [exact Hsh|]. split; [rewrite <- Hsh; exact Hr|exact Hl].
  Qed.

  Definition E (x : coo) : darr V := darr_of_coo (coo_expand V k x).

  Lemma ext_E x : c_shape x = sh -> ext k (E x) = 1.
  Proof. intros Hsh. unfold ext, E. cbn [darr_of_coo da_shape coo_expand c_shape]. rewrite Hsh. apply nth_ins. exact Hk. Qed.

  (* np.stack is np.concatenate of the members with a length-1 axis inserted *)
  Lemma stack_as_concat : forall (r : list coo) (a : coo) (ix : idx),
    Forall (fun x => cwf V x /\ c_shape x = sh) (a :: r) ->
    (k < length ix)%nat -> 0 <= nth k ix 0 < Z.of_nat (length (a :: r)) ->
    np_concat_f k (E a) (map E r) ix
    = da_f (nth (Z.to_nat (nth k ix 0)) (map darr_of_coo (a :: r)) (darr_of_coo a)) (del k ix).
  Proof.
    induction r as [|b r IH]; intros a ix Hall Hkix Hb.
    - pose proof (Forall_inv Hall) as [Hwa Hsa]. cbn [length] in Hb.
      assert (E0 : nth k ix 0 = 0) by lia. rewrite E0. cbn [map np_concat_f Z.to_nat nth].
      unfold E. cbn [darr_of_coo da_f]. apply den_expand; auto.
    - pose proof (Forall_inv Hall) as [Hwa Hsa]. pose proof (Forall_inv_tail Hall) as Hall'.
      cbn [map np_concat_f]. rewrite (ext_E a Hsa).
      destruct (Z.ltb_spec (nth k ix 0) 1) as [Hlt|Hge].
      + assert (E0 : nth k ix 0 = 0) by lia. rewrite E0. cbn [Z.to_nat nth].
        unfold E. cbn [darr_of_coo da_f]. apply den_expand; auto.
      + assert (Hn : nth k (upd k (fun i => i - 1) ix) 0 = nth k ix 0 - 1) by (apply nth_upd; exact Hkix).
        rewrite (IH b (upd k (fun i => i - 1) ix) Hall'); [|rewrite upd_length; exact Hkix|rewrite Hn; cbn [length] in Hb |- *; lia].
        rewrite Hn, del_upd.
        replace (Z.to_nat (nth k ix 0)) with (S (Z.to_nat (nth k ix 0 - 1))) by lia.
        remember (Z.to_nat (nth k ix 0 - 1)) as m eqn:Em.
        change (nth (S m) (darr_of_coo a :: darr_of_coo b :: map darr_of_coo r) (darr_of_coo a))
          with (nth m (map darr_of_coo (b :: r)) (darr_of_coo a)).
        f_equal. apply nth_indep. rewrite map_length. cbn [length] in Hb |- *. lia.
  Qed.
End GStack.

Section GStackThm.
  Variable V : Type.
  Variable veqb : V -> V -> bool.
  Hypothesis veqb_eq : forall a b, veqb a b = true <-> a = b.

  Notation coo := (coo V).

  Theorem gcxs_stack_correct (vzero : V) (vadd : V -> V -> V) (a : coo) (ca_a : list Z) (r : list (coo * list Z))
          (axis : Z) (k : nat) (caxes : option (list Z)) :
    let cs := a :: map fst r in
    let n := Z.of_nat (length (c_shape a)) in
    (2 <= length (c_shape a))%nat ->
    np_norm_axis axis (ndim_of V a + 1) = Some k ->
    Forall (cwf V) cs ->
    Forall (fun x => c_shape x = c_shape a) (map fst r) ->
    Forall (fun x => c_fill x = c_fill a) (map fst r) ->
    Forall (fun p => caxes_okb n (snd p) = true) ((a, ca_a) :: r) ->
    caxes_okb (n + 1) (final_axes caxes k) = true ->
    exists g,
      gcxs_stack_src V veqb vzero vadd axis caxes
        (map (fun p => gcxs_from_coo (fst p) (snd p)) ((a, ca_a) :: r)) = Ok g
      /\ gjoin_result V g a (final_axes caxes k) (np_stack k (darr_of_coo a) (map darr_of_coo (map fst r))).
  Proof.
    intros cs n Hnd Hax Hwf Hsh Hfl Hcas Hfin.
    set (sh := c_shape a) in *.
    assert (Hk : (k <= length sh)%nat).
    { pose proof (np_norm_axis_lt _ _ _ Hax) as H. unfold ndim_of in H. fold sh in H. lia. }
    assert (Hsh' : Forall (fun x => c_shape x = sh) cs) by (constructor; [reflexivity|exact Hsh]).
    assert (Hfl' : Forall (fun x => c_fill x = c_fill a) cs) by (constructor; auto).
    assert (Hboth : Forall (fun x => cwf V x /\ c_shape x = sh) cs).
    { apply Forall_forall. intros x Hx. rewrite Forall_forall in Hwf, Hsh'. split; auto. }
    (* the expanded members *)
    set (xs := map (coo_expand V k) cs).
    set (sha := ins k 1 sh).
    assert (Hlsha : length sha = S (length sh)) by (unfold sha; apply ins_length; exact Hk).
    assert (Hklt : (k < length sha)%nat) by lia.
    assert (Hnd' : (2 <= length sha)%nat) by lia.
    assert (Hxs_wf : Forall (cwf V) xs).
    { apply Forall_forall. intros y Hy. apply in_map_iff in Hy. destruct Hy as [x [<- Hx]].
      rewrite Forall_forall in Hboth. destruct (Hboth _ Hx). apply (cwf_expand V k sh Hk); assumption. }
    assert (Hxs_sh : forall y, In y xs -> c_shape y = sha).
    { intros y Hy. apply in_map_iff in Hy. destruct Hy as [x [<- Hx]]. rewrite Forall_forall in Hsh'.
      unfold coo_expand, sha. cbn [c_shape]. rewrite (Hsh' _ Hx). reflexivity. }
    assert (Hgm : Forall (gmember V k sha) xs).
    { apply Forall_forall. intros y Hy. rewrite Forall_forall in Hxs_wf. split; [auto|].
      rewrite (Hxs_sh _ Hy). split; reflexivity. }
    (* the COO joiner on the expanded members *)
    assert (Exs : xs = coo_expand V k a :: map (coo_expand V k) (map fst r)) by reflexivity.
    assert (Hax' : np_norm_axis axis (ndim_of V (coo_expand V k a)) = Some k).
    { unfold ndim_of, coo_expand. cbn [c_shape]. fold sh. fold sha. rewrite Hlsha.
      unfold ndim_of in Hax. fold sh in Hax. rewrite Nat2Z.inj_succ. replace (Z.succ (Z.of_nat (length sh))) with (Z.of_nat (length sh) + 1) by lia. exact Hax. }
    assert (Hso_x : Forall (fun x => same_off k (c_shape (coo_expand V k a)) (c_shape x)) (map (coo_expand V k) (map fst r))).
    { apply Forall_forall. intros y Hy.
      assert (Hy' : In y xs) by (rewrite Exs; right; exact Hy).
      rewrite (Hxs_sh _ Hy'). unfold coo_expand. cbn [c_shape]. fold sh. fold sha. split; reflexivity. }
    assert (Hfl_x : Forall (fun x => c_fill x = c_fill (coo_expand V k a)) (map (coo_expand V k) (map fst r))).
    { apply Forall_forall. intros y Hy. apply in_map_iff in Hy. destruct Hy as [x [<- Hx]].
      rewrite Forall_forall in Hfl. unfold coo_expand. cbn [c_fill]. auto. }
    rewrite Exs in Hxs_wf.
    destruct (coo_concat_src_both V veqb veqb_eq vzero vadd (coo_expand V k a) (map (coo_expand V k) (map fst r)) axis k
                Hax' Hxs_wf Hso_x Hfl_x) as [HcanC [HshC [HfillC HdenC]]].
    rewrite <- Exs in HcanC, HshC, HfillC, HdenC.
    assert (Ecsh : c_shape (coo_expand V k a) = sha) by reflexivity.
    rewrite Ecsh in HcanC, HshC, HfillC, HdenC.
    assert (ET : NpJoin.zsum (map (fun x : coo => nth k (c_shape x) 0) xs) = Z.of_nat (length cs)).
    { unfold xs. rewrite map_map. rewrite <- zsum_const_one. f_equal. apply map_ext_in. intros x Hx.
      unfold coo_expand. cbn [c_shape]. rewrite Forall_forall in Hsh'. rewrite (Hsh' _ Hx). apply nth_ins. exact Hk. }
    rewrite ET in HcanC, HshC, HfillC, HdenC.
    set (N := Z.of_nat (length cs)) in *.
    assert (EshC : upd k (fun _ => N) sha = ins k N sh) by (apply upd_ins; exact Hk).
    set (C := plain_ctor V (site_concatenate_sorted (Z.of_nat k)) (c_fill (coo_expand V k a)) (upd k (fun _ => N) sha)
                (cparts_e V k 0 xs)) in *.
    (* run the model *)
    unfold gcxs_stack_src, gcxs_stack.
    set (g_a := gcxs_from_coo a ca_a). set (rest := map (fun p : coo * list Z => gcxs_from_coo (fst p) (snd p)) r).
    change (map (fun p : coo * list Z => gcxs_from_coo (fst p) (snd p)) ((a, ca_a) :: r)) with (g_a :: rest).
    cbv iota. set (arrs := g_a :: rest).
    assert (Earrs : arrs = map (fun p : coo * list Z => gcxs_from_coo (fst p) (snd p)) ((a, ca_a) :: r)) by reflexivity.
    assert (Ega : g_shape g_a = sh) by apply from_coo_shape.
    assert (Egf : g_fill g_a = c_fill a) by apply from_coo_fill.
    assert (Hin_cs : forall p, In p ((a, ca_a) :: r) -> In (fst p) cs).
    { intros p Hp. unfold cs. change (In (fst p) (map fst ((a, ca_a) :: r))). apply in_map. exact Hp. }
    assert (E1 : site_gcxs_stack_checks_consistent_fill
                 && negb (forallb (fun x => veqb (g_fill g_a) (g_fill x)) arrs) = false).
    { apply andb_false_intro2. apply negb_false_iff. apply forallb_forall. intros g Hg.
      rewrite Egf. apply veqb_eq. rewrite Earrs in Hg.
      apply in_map_iff in Hg. destruct Hg as [p [<- Hp]]. rewrite from_coo_fill.
      rewrite Forall_forall in Hfl'. symmetry. apply Hfl'. apply Hin_cs. exact Hp. }
    rewrite E1, Ega.
    destruct (norm_axis_spec site_gcxs_stack_axis_ndim axis (Z.of_nat (length sh)) (Z.of_nat (length sh) + 1) k eq_refl Hax)
      as [Hnorm _].
    rewrite Hnorm. cbn [bind]. rewrite Nat2Z.id.
    assert (E2 : forallb (fun x => idx_eqb sh (g_shape x)) arrs = true).
    { apply forallb_forall. intros g Hg. rewrite Earrs in Hg. apply in_map_iff in Hg. destruct Hg as [p [<- Hp]].
      rewrite from_coo_shape. rewrite Forall_forall in Hsh'. rewrite (Hsh' _ (Hin_cs _ Hp)). apply idx_eqb_refl. }
    rewrite E2. cbn [negb].
    assert (Ems : map (fun g => gcxs_from_coo (gcxs_expand V veqb vadd k g) [Z.of_nat k]) arrs
                  = map (fun x => gcxs_from_coo x [Z.of_nat k]) xs).
    { rewrite Earrs. unfold xs, cs. change (a :: map fst r) with (map fst ((a, ca_a) :: r)). rewrite !map_map.
      apply map_ext_in. intros p Hp. unfold gcxs_expand. f_equal. f_equal.
      pose proof (Hin_cs _ Hp) as Hin. rewrite Forall_forall in Hwf, Hcas, Hsh'. destruct (Hwf _ Hin) as [Hc Hok].
      apply tocoo_from_coo_proof; [exact Hc|exact Hok|]. right. rewrite (Hsh' _ Hin). exact (Hcas _ Hp). }
    rewrite Ems.
    assert (Elen : Z.of_nat (length arrs) = N).
    { unfold N, cs, arrs, rest. cbn [length]. rewrite !map_length. reflexivity. }
    rewrite Elen, <- EshC.
    assert (Efill : fill_of V vzero site_gcxs_stack_fill (g_fill g_a) = c_fill (coo_expand V k a))
      by (rewrite Egf; reflexivity).
    rewrite Efill.
    assert (Hcore : gcxs_join_core V (upd k (fun _ => N) sha) (Z.of_nat k) (c_fill (coo_expand V k a))
                      (map (fun x => gcxs_from_coo x [Z.of_nat k]) xs) = gcxs_from_coo C [Z.of_nat k]).
    { unfold C. rewrite <- ET.
      apply (join_core_is_from_coo V k sha Hklt Hnd' xs (site_concatenate_sorted (Z.of_nat k)) (c_fill (coo_expand V k a))).
      - rewrite Exs. discriminate.
      - exact Hgm.
      - rewrite ET. exact HcanC. }
    rewrite Hcore.
    assert (HokC : shape_ok (c_shape C)).
    { cbn [C plain_ctor c_shape]. rewrite <- ET.
      apply (joined_shape_ok V k sha Hklt Hnd' xs); [rewrite Exs; discriminate|exact Hgm]. }
    assert (HlC : length (c_shape C) = S (length sh)) by (cbn [C plain_ctor c_shape]; rewrite upd_length; exact Hlsha).
    assert (Hfa : match caxes with Some c => c | None => [Z.of_nat k] end = final_axes caxes k) by reflexivity.
    rewrite Hfa. unfold change_compressed_axes.
    assert (Hfin' : caxes_okb (Z.of_nat (length (c_shape C))) (final_axes caxes k) = true).
    { rewrite HlC, Nat2Z.inj_succ. replace (Z.succ (Z.of_nat (length sh))) with (n + 1) by (unfold n; fold sh; lia). exact Hfin. }
    rewrite (change_axes_image V C [Z.of_nat k] (final_axes caxes k) HcanC HokC
               ltac:(right; rewrite HlC; apply caxes_ok_single; lia) ltac:(right; exact Hfin') ltac:(lia)).
    eexists. split; [reflexivity|]. unfold gjoin_result.
    assert (Haxf : axes_ok (c_shape C) (final_axes caxes k)) by (right; exact Hfin').
    split; [apply (gcxs_from_coo_wf_proof V veqb vadd); assumption|].
    split; [rewrite from_coo_shape; cbn [C plain_ctor c_shape np_stack da_shape darr_of_coo]; fold sh; rewrite EshC;
            unfold N, cs; cbn [length]; rewrite !map_length; reflexivity|].
    split; [rewrite from_coo_fill; reflexivity|].
    split; [apply from_coo_caxes; lia|].
    intros ix Hix. rewrite from_coo_shape in Hix.
    rewrite (gcxs_from_coo_den_proof V veqb vadd C _ ix HcanC HokC Haxf).
    rewrite (HdenC ix Hix). cbn [np_concatenate da_f].
    cbn [C plain_ctor c_shape] in Hix. rewrite EshC in Hix.
    assert (Hlix : length ix = S (length sh)) by (rewrite (in_range_length _ _ Hix); apply ins_length; exact Hk).
    assert (Hb : 0 <= nth k ix 0 < N).
    { pose proof (in_range_nth _ _ k Hix) as H. rewrite ins_length, nth_ins in H by exact Hk. apply H. lia. }
    change (np_concat_f k (darr_of_coo (coo_expand V k a)) (map darr_of_coo (map (coo_expand V k) (map fst r))) ix)
      with (np_concat_f k (E V k a) (map darr_of_coo (map (coo_expand V k) (map fst r))) ix).
    rewrite (map_map (coo_expand V k) darr_of_coo).
    change (map (fun x => darr_of_coo (coo_expand V k x)) (map fst r)) with (map (E V k) (map fst r)).
    rewrite (stack_as_concat V k sh Hk (map fst r) a ix Hboth ltac:(lia) Hb).
    cbn [np_stack da_f]. reflexivity.
  Qed.
End GStackThm.
