(* Proofs/ElemwiseGenP.v — the general (broadcasting, n-ary) case of Model/Elemwise.v:
   _match_coo as a join on the shared axes, the mask enumeration as a partition of the stored
   positions, elemwise_den, and the composition corollary over expression trees. *)
From Coq Require Import ZArith List Bool Lia Arith Sorting.Sorted Sorting.Permutation.
From Verif Require Import Py PyExt Shape COO COOP NpElemwise G_umath S_umath Elemwise ElemwiseP ElemwiseBcastP.
Import ListNotations.
Open Scope Z_scope.

Arguments bcast_idx : simpl never.
Arguments bcast_params : simpl never.

(* ------------------------------------------------------------------ _rev_idx *)

Lemma rev_idx_all {A} (l : list A) : rev_idx l (length l) = l.
Proof.
  unfold rev_idx. destruct (length l) eqn:E.
  - destruct l; [reflexivity|discriminate].
  - rewrite Nat.sub_diag. reflexivity.
Qed.

Lemma rev_idx_cons {A} (x : A) l n : (n <= length l)%nat -> rev_idx (x :: l) n = rev_idx l n.
Proof.
  intros H. unfold rev_idx. destruct n as [|n]; simpl length.
  - reflexivity.
  - rewrite Nat.sub_succ_l by exact H. reflexivity.
Qed.

Lemma map2_length {A B C} (g : A -> B -> C) l1 l2 : length (map2 g l1 l2) = Nat.min (length l1) (length l2).
Proof. revert l2. induction l1 as [|a l1 IH]; intros [|b l2]; simpl; auto. Qed.

(* ------------------------------------------------------------------ the shared ("reduced") axes of two operands *)

Definition rparams (s1 s2 cur : shape) : list bool :=
  map2 (fun a b => is_true a && is_true b) (bcast_params s1 cur) (bcast_params s2 cur).
Definition msk1 (s1 s2 cur : shape) : list bool := rev_idx (rparams s1 s2 cur) (length s1).
Definition msk2 (s1 s2 cur : shape) : list bool := rev_idx (rparams s1 s2 cur) (length s2).

Lemma BT2_lengths s1 s2 cur : BT2 s1 s2 cur -> (length s1 <= length cur)%nat /\ (length s2 <= length cur)%nat.
Proof. induction 1; simpl; lia. Qed.

Lemma rparams_length s1 s2 cur : BT2 s1 s2 cur -> length (rparams s1 s2 cur) = length cur.
Proof.
  intros H. destruct (BT2_lengths _ _ _ H). unfold rparams. rewrite map2_length, !bcast_params_length by assumption. lia.
Qed.

Lemma is_true_Some b : is_true (Some b) = b.
Proof. destruct b; reflexivity. Qed.

Lemma rparams_both e1 e2 d s1 s2 cur :
  length s1 = length cur -> length s2 = length cur ->
  rparams (e1 :: s1) (e2 :: s2) (d :: cur) = ((e1 =? d) && (e2 =? d)) :: rparams s1 s2 cur.
Proof.
  intros H1 H2. unfold rparams. rewrite !bcast_params_cons by assumption. cbn [map2]. rewrite !is_true_Some. reflexivity.
Qed.

Lemma rparams_left d s1 s2 cur :
  length s1 = length cur -> (length s2 <= length cur)%nat ->
  rparams (d :: s1) s2 (d :: cur) = false :: rparams s1 s2 cur.
Proof.
  intros H1 H2. unfold rparams. rewrite bcast_params_cons, bcast_params_skip by assumption. cbn [map2].
  rewrite andb_false_r. reflexivity.
Qed.

Lemma rparams_right d s1 s2 cur :
  (length s1 <= length cur)%nat -> length s2 = length cur ->
  rparams s1 (d :: s2) (d :: cur) = false :: rparams s1 s2 cur.
Proof. intros H1 H2. unfold rparams. rewrite bcast_params_cons, bcast_params_skip by assumption. reflexivity. Qed.

Lemma rev_idx_len {A} (l : list A) n : n = length l -> rev_idx l n = l.
Proof. intros ->. apply rev_idx_all. Qed.

Lemma msk_both e1 e2 d s1 s2 cur :
  length s1 = length cur -> length s2 = length cur -> BT2 s1 s2 cur ->
  msk1 (e1 :: s1) (e2 :: s2) (d :: cur) = ((e1 =? d) && (e2 =? d)) :: msk1 s1 s2 cur /\
  msk2 (e1 :: s1) (e2 :: s2) (d :: cur) = ((e1 =? d) && (e2 =? d)) :: msk2 s1 s2 cur.
Proof.
  intros H1 H2 HB. pose proof (rparams_length _ _ _ HB) as L. unfold msk1, msk2.
  rewrite rparams_both by assumption. simpl length.
  rewrite !(rev_idx_len (_ :: _)) by (simpl; lia). rewrite !(rev_idx_len (rparams s1 s2 cur)) by lia. auto.
Qed.

Lemma msk_left d s1 s2 cur :
  length s1 = length cur -> (length s2 <= length cur)%nat -> BT2 s1 s2 cur ->
  msk1 (d :: s1) s2 (d :: cur) = false :: msk1 s1 s2 cur /\ msk2 (d :: s1) s2 (d :: cur) = msk2 s1 s2 cur.
Proof.
  intros H1 H2 HB. pose proof (rparams_length _ _ _ HB) as L. unfold msk1, msk2.
  rewrite rparams_left by assumption. simpl length. split.
  - rewrite (rev_idx_len (_ :: _)) by (simpl; lia). rewrite (rev_idx_len (rparams s1 s2 cur)) by lia. reflexivity.
  - apply rev_idx_cons. lia.
Qed.

Lemma msk_right d s1 s2 cur :
  (length s1 <= length cur)%nat -> length s2 = length cur -> BT2 s1 s2 cur ->
  msk1 s1 (d :: s2) (d :: cur) = msk1 s1 s2 cur /\ msk2 s1 (d :: s2) (d :: cur) = false :: msk2 s1 s2 cur.
Proof.
  intros H1 H2 HB. pose proof (rparams_length _ _ _ HB) as L. unfold msk1, msk2.
  rewrite rparams_right by assumption. simpl length. split.
  - apply rev_idx_cons. lia.
  - rewrite (rev_idx_len (_ :: _)) by (simpl; lia). rewrite (rev_idx_len (rparams s1 s2 cur)) by lia. reflexivity.
Qed.

(* two stored positions agree on the shared axes  <->  they are the images of one position of the
   broadcast shape, which _get_matching_coords reconstructs *)
Lemma pair_align s1 s2 cur : BT2 s1 s2 cur -> forall t1 t2, in_range s1 t1 -> in_range s2 t2 ->
  select (msk1 s1 s2 cur) s1 = select (msk2 s1 s2 cur) s2 /\
  in_range (select (msk2 s1 s2 cur) s2) (select (msk1 s1 s2 cur) t1) /\
  in_range (select (msk2 s1 s2 cur) s2) (select (msk2 s1 s2 cur) t2) /\
  (select (msk1 s1 s2 cur) t1 = select (msk2 s1 s2 cur) t2 ->
   exists q, matching_coords (bcast_params s1 cur) (bcast_params s2 cur) t1 t2 = Ok q /\
             in_range cur q /\ bcast_idx s1 q = t1 /\ bcast_idx s2 q = t2).
Proof.
  induction 1 as [|e1 e2 d s1 s2 cur L1 L2 A1 A2 A3 HB IH|d s1 s2 cur L1 L2 HB IH|d s1 s2 cur L1 L2 HB IH];
    intros t1 t2 R1 R2.
  - destruct t1, t2; simpl in R1, R2; try tauto. cbn. repeat split; auto. intros _. exists []. cbn. auto.
  - destruct (msk_both e1 e2 d s1 s2 cur L1 L2 HB) as [M1 M2]. rewrite M1, M2.
    rewrite !bcast_params_cons by assumption.
    destruct t1 as [|x1 t1]; [simpl in R1; tauto|]. destruct t2 as [|x2 t2]; [simpl in R2; tauto|].
    simpl in R1, R2. destruct R1 as [X1 R1]. destruct R2 as [X2 R2].
    specialize (IH t1 t2 R1 R2). destruct IH as [I1 [I2 [I3 I4]]].
    destruct (Z.eqb_spec e1 d) as [E1|E1]; destruct (Z.eqb_spec e2 d) as [E2|E2]; simpl.
    + subst e1 e2. rewrite I1. repeat split; auto; try lia.
      intros E. inversion E as [[Ex Et]]. subst x2. destruct (I4 Et) as [q [Q1 [Q2 [Q3 Q4]]]].
      exists (x1 :: q). rewrite Q1. simpl. pose proof (in_range_length _ _ Q2).
      rewrite !bcast_idx_cons by lia. rewrite Q3, Q4. repeat split; auto; try lia.
      * destruct (Z.eqb_spec d 1); [f_equal; lia|reflexivity].
      * destruct (Z.eqb_spec d 1); [f_equal; lia|reflexivity].
    + assert (e2 = 1) by tauto. subst e1 e2. repeat split; auto.
      intros Et. destruct (I4 Et) as [q [Q1 [Q2 [Q3 Q4]]]].
      exists (x1 :: q). rewrite Q1. simpl. pose proof (in_range_length _ _ Q2).
      rewrite !bcast_idx_cons by lia. rewrite Q3, Q4. repeat split; auto; try lia.
      * destruct (Z.eqb_spec d 1); [f_equal; lia|reflexivity].
      * simpl. f_equal. lia.
    + assert (e1 = 1) by tauto. subst e1 e2. repeat split; auto.
      intros Et. destruct (I4 Et) as [q [Q1 [Q2 [Q3 Q4]]]].
      exists (x2 :: q). rewrite Q1. simpl. pose proof (in_range_length _ _ Q2).
      rewrite !bcast_idx_cons by lia. rewrite Q3, Q4. repeat split; auto; try lia.
      * simpl. f_equal. lia.
      * destruct (Z.eqb_spec d 1); [f_equal; lia|reflexivity].
    + exfalso. tauto.
  - destruct (msk_left d s1 s2 cur L1 L2 HB) as [M1 M2]. rewrite M1, M2.
    rewrite bcast_params_cons, bcast_params_skip by assumption.
    destruct t1 as [|x1 t1]; [simpl in R1; tauto|]. simpl in R1. destruct R1 as [X1 R1].
    specialize (IH t1 t2 R1 R2). destruct IH as [I1 [I2 [I3 I4]]]. rewrite Z.eqb_refl. simpl.
    repeat split; auto. intros Et. destruct (I4 Et) as [q [Q1 [Q2 [Q3 Q4]]]].
    exists (x1 :: q). rewrite Q1. simpl. pose proof (in_range_length _ _ Q2).
    rewrite bcast_idx_cons by lia. rewrite bcast_idx_skip by lia. rewrite Q3, Q4. repeat split; auto; try lia.
    destruct (Z.eqb_spec d 1); [f_equal; lia|reflexivity].
  - destruct (msk_right d s1 s2 cur L1 L2 HB) as [M1 M2]. rewrite M1, M2.
    rewrite bcast_params_cons, bcast_params_skip by assumption.
    destruct t2 as [|x2 t2]; [simpl in R2; tauto|]. simpl in R2. destruct R2 as [X2 R2].
    specialize (IH t1 t2 R1 R2). destruct IH as [I1 [I2 [I3 I4]]]. rewrite Z.eqb_refl. simpl.
    repeat split; auto. intros Et. destruct (I4 Et) as [q [Q1 [Q2 [Q3 Q4]]]].
    exists (x2 :: q). rewrite Q1. simpl. pose proof (in_range_length _ _ Q2).
    rewrite bcast_idx_cons by lia. rewrite bcast_idx_skip by lia. rewrite Q3, Q4. repeat split; auto; try lia.
    destruct (Z.eqb_spec d 1); [f_equal; lia|reflexivity].
Qed.

Lemma pair_align_inv s1 s2 cur : BT2 s1 s2 cur -> forall q, in_range cur q ->
  select (msk1 s1 s2 cur) (bcast_idx s1 q) = select (msk2 s1 s2 cur) (bcast_idx s2 q) /\
  matching_coords (bcast_params s1 cur) (bcast_params s2 cur) (bcast_idx s1 q) (bcast_idx s2 q) = Ok q.
Proof.
  induction 1 as [|e1 e2 d s1 s2 cur L1 L2 A1 A2 A3 HB IH|d s1 s2 cur L1 L2 HB IH|d s1 s2 cur L1 L2 HB IH];
    intros q Hq.
  - destruct q; simpl in Hq; [|tauto]. cbn. auto.
  - destruct (msk_both e1 e2 d s1 s2 cur L1 L2 HB) as [M1 M2]. rewrite M1, M2.
    rewrite !bcast_params_cons by assumption.
    destruct q as [|i q]; [simpl in Hq; tauto|]. simpl in Hq. destruct Hq as [Hi Hq].
    pose proof (in_range_length _ _ Hq). rewrite !bcast_idx_cons by lia.
    specialize (IH q Hq). destruct IH as [I1 I2].
    destruct (Z.eqb_spec e1 d) as [E1|E1]; destruct (Z.eqb_spec e2 d) as [E2|E2]; simpl;
      [rewrite I2; simpl|rewrite I2; simpl|rewrite I2; simpl|exfalso; tauto].
    + subst. rewrite I1. split; [reflexivity|]. destruct (Z.eqb_spec d 1); [repeat f_equal; lia|reflexivity].
    + subst. split; [exact I1|]. destruct (Z.eqb_spec d 1); [repeat f_equal; lia|reflexivity].
    + subst. split; [exact I1|]. destruct (Z.eqb_spec d 1); [repeat f_equal; lia|reflexivity].
  - destruct (msk_left d s1 s2 cur L1 L2 HB) as [M1 M2]. rewrite M1, M2.
    rewrite bcast_params_cons, bcast_params_skip by assumption.
    destruct q as [|i q]; [simpl in Hq; tauto|]. simpl in Hq. destruct Hq as [Hi Hq].
    pose proof (in_range_length _ _ Hq). rewrite bcast_idx_cons by lia. rewrite bcast_idx_skip by lia.
    specialize (IH q Hq). destruct IH as [I1 I2]. rewrite Z.eqb_refl. simpl. rewrite I2. simpl.
    split; [exact I1|]. destruct (Z.eqb_spec d 1); [repeat f_equal; lia|reflexivity].
  - destruct (msk_right d s1 s2 cur L1 L2 HB) as [M1 M2]. rewrite M1, M2.
    rewrite bcast_params_cons, bcast_params_skip by assumption.
    destruct q as [|i q]; [simpl in Hq; tauto|]. simpl in Hq. destruct Hq as [Hi Hq].
    pose proof (in_range_length _ _ Hq). rewrite bcast_idx_cons by lia. rewrite bcast_idx_skip by lia.
    specialize (IH q Hq). destruct IH as [I1 I2]. rewrite Z.eqb_refl. simpl. rewrite I2. simpl.
    split; [exact I1|]. destruct (Z.eqb_spec d 1); [repeat f_equal; lia|reflexivity].
Qed.

(* ------------------------------------------------------------------ np.argsort *)

Lemma combine_map_snd' {A B} (l1 : list A) (l2 : list B) :
  length l1 = length l2 -> map snd (combine l1 l2) = l2.
Proof. revert l2. induction l1; intros [|b l2]; simpl; try discriminate; auto. intros H. f_equal. apply IHl1. lia. Qed.

Lemma argsort_perm ks : Permutation (argsort ks) (seq 0 (length ks)).
Proof.
  unfold argsort. rewrite isort_perm. rewrite combine_map_snd' by (rewrite seq_length; reflexivity). reflexivity.
Qed.

Lemma combine_seq_In (ks : list Z) s k i : In (k, i) (combine ks (seq s (length ks))) -> nthZ ks (i - s) = k.
Proof.
  revert s. induction ks as [|x ks IH]; intros s H; simpl in H; [tauto|].
  destruct H as [E|H].
  - inversion E; subst. rewrite Nat.sub_diag. reflexivity.
  - specialize (IH (S s) H). assert (S s <= i)%nat.
    { apply in_combine_r in H. apply in_seq in H. lia. }
    replace (i - s)%nat with (S (i - S s)) by lia. exact IH.
Qed.

Lemma argsort_sorted ks : StronglySorted Z.le (map (nthZ ks) (argsort ks)).
Proof.
  unfold argsort. set (P := isort key_leb _).
  assert (HP : forall p, In p P -> nthZ ks (snd p) = fst p).
  { intros [k i] Hp. apply (Permutation_in _ (isort_perm _ _)) in Hp. simpl.
    apply combine_seq_In in Hp. rewrite Nat.sub_0_r in Hp. exact Hp. }
  rewrite map_map. rewrite (map_ext_in _ fst); [|intros p Hp; apply HP; exact Hp].
  assert (Hs : StronglySorted (fun a b : Z * nat => key_leb a b = true) P)
    by (apply isort_sorted; [apply key_leb_total|apply key_leb_trans]).
  clear HP. induction Hs as [|x l Hs IH Hall]; simpl; constructor; auto.
  apply Forall_forall. intros k Hk. apply in_map_iff in Hk. destruct Hk as [y [<- Hy]].
  rewrite Forall_forall in Hall. specialize (Hall y Hy). unfold key_leb in Hall. apply Z.leb_le. exact Hall.
Qed.


(* np.argsort's default kind is not stable: the order of equal keys is unspecified.  Everything below
   holds for ANY function that returns a sorting permutation of the positions. *)
Definition is_argsort (srt : list Z -> list nat) : Prop :=
  forall ks, Permutation (srt ks) (seq 0 (length ks)) /\ StronglySorted Z.le (map (nthZ ks) (srt ks)).

Lemma argsort_is_argsort : is_argsort argsort.
Proof. intros ks. split; [apply argsort_perm|apply argsort_sorted]. Qed.

Section AnySort.
  Variable srt : list Z -> list nat.
  Hypothesis srt_ok : is_argsort srt.

Lemma srt_perm ks : Permutation (srt ks) (seq 0 (length ks)).
Proof. apply srt_ok. Qed.
Lemma srt_sorted ks : StronglySorted Z.le (map (nthZ ks) (srt ks)).
Proof. apply srt_ok. Qed.

Lemma srt_length ks : length (srt ks) = length ks.
Proof. rewrite (Permutation_length (srt_perm ks)). apply seq_length. Qed.

Lemma srt_In ks i : In i (srt ks) <-> (i < length ks)%nat.
Proof.
  split; intros H.
  - apply (Permutation_in _ (srt_perm ks)) in H. apply in_seq in H. lia.
  - apply (Permutation_in _ (Permutation_sym (srt_perm ks))). apply in_seq. lia.
Qed.

Lemma srt_NoDup ks : NoDup (srt ks).
Proof. eapply Permutation_NoDup; [apply Permutation_sym, srt_perm|apply seq_NoDup]. Qed.

(* joining two key lists through srt + _match_arrays: all pairs of ORIGINAL positions with equal keys *)
Definition joined (k1 k2 : list Z) : list (nat * nat) :=
  map (fun ij => (nth (fst ij) (srt k1) O, nth (snd ij) (srt k2) O))
      (match_arrays (map (nthZ k1) (srt k1)) (map (nthZ k2) (srt k2))).

Lemma nth_srt_In ks i' : (i' < length ks)%nat -> (nth i' (srt ks) O < length ks)%nat.
Proof. intros H. apply srt_In. apply nth_In. rewrite srt_length. exact H. Qed.

Lemma nthZ_map_nth ks (a : list nat) i' :
  (i' < length a)%nat -> nthZ (map (nthZ ks) a) i' = nthZ ks (nth i' a O).
Proof.
  intros H. unfold nthZ at 1. rewrite (nth_indep _ 0 (nthZ ks O)) by (rewrite map_length; exact H).
  apply map_nth.
Qed.

Lemma joined_spec k1 k2 :
  NoDup (joined k1 k2) /\
  forall i j, In (i, j) (joined k1 k2) <-> (i < length k1)%nat /\ (j < length k2)%nat /\ nthZ k1 i = nthZ k2 j.
Proof.
  unfold joined. rewrite match_arrays_spec_proof by apply srt_sorted.
  set (a1 := srt k1). set (a2 := srt k2).
  assert (Hm : forall i' j', In (i', j') (match_spec (map (nthZ k1) a1) (map (nthZ k2) a2)) <->
                             (i' < length k1)%nat /\ (j' < length k2)%nat /\
                             nthZ k1 (nth i' a1 O) = nthZ k2 (nth j' a2 O)).
  { intros i' j'. rewrite match_spec_In, !map_length. unfold a1, a2. rewrite !srt_length.
    split; intros [H1 [H2 H3]]; repeat split; auto.
    - rewrite !nthZ_map_nth in H3 by (rewrite srt_length; assumption). exact H3.
    - rewrite !nthZ_map_nth by (rewrite srt_length; assumption). exact H3. }
  split.
  - apply NoDup_map_in; [|apply match_spec_NoDup].
    intros [i' j'] [i'' j''] Hx Hy E. apply Hm in Hx. apply Hm in Hy. simpl in E. inversion E as [[E1 E2]].
    destruct Hx as [X1 [X2 _]]. destruct Hy as [Y1 [Y2 _]].
    f_equal.
    + apply (proj1 (NoDup_nth a1 O) (srt_NoDup k1)); auto; unfold a1; rewrite srt_length; assumption.
    + apply (proj1 (NoDup_nth a2 O) (srt_NoDup k2)); auto; unfold a2; rewrite srt_length; assumption.
  - intros i j. rewrite in_map_iff. split.
    + intros [[i' j'] [E H]]. apply Hm in H. simpl in E. inversion E; subst i j. destruct H as [H1 [H2 H3]].
      repeat split; auto; apply nth_srt_In; assumption.
    + intros [H1 [H2 H3]].
      assert (I1 : In i a1) by (apply srt_In; exact H1). assert (I2 : In j a2) by (apply srt_In; exact H2).
      apply (In_nth _ _ O) in I1. apply (In_nth _ _ O) in I2.
      destruct I1 as [i' [Hi' Ei]]. destruct I2 as [j' [Hj' Ej]].
      unfold a1 in Hi'. unfold a2 in Hj'. rewrite srt_length in Hi', Hj'.
      exists (i', j'). simpl. split; [congruence|]. apply Hm. repeat split; auto. congruence.
Qed.

End AnySort.

(* ------------------------------------------------------------------ more on broadcast shapes *)

Lemma BT_ext s T : BT s T -> forall k, (k < length s)%nat -> ext_from_end s k = ext_from_end T k \/ ext_from_end s k = 1.
Proof.
  induction 1 as [|s d cur HB IH|e s d cur Hl He HB IH]; intros k Hk; simpl in Hk; [lia| |].
  - pose proof (BT_length _ _ HB). rewrite ext_cons_lt by lia. apply IH. exact Hk.
  - destruct (Nat.eq_dec k (length s)) as [->|Hne].
    + rewrite ext_cons_eq. rewrite Hl, ext_cons_eq. exact He.
    + rewrite !ext_cons_lt by lia. apply IH. lia.
Qed.

(* two shapes that broadcast into T have a broadcast, which again broadcasts into T *)
Lemma bc_exists s1 s2 T : BT s1 T -> BT s2 T ->
  exists cur, broadcast_shape2 false s1 s2 = Ok cur /\ BT cur T.
Proof.
  intros H1 H2. rewrite broadcast_shape2_unfold.
  assert (Hok : bc_ok false s1 s2 = true).
  { apply bc_ok_false_spec. intros k K1 K2. destruct (BT_ext _ _ H1 k K1); destruct (BT_ext _ _ H2 k K2); auto.
    left. congruence. }
  rewrite Hok. exists (bc_res s1 s2). split; [reflexivity|]. apply BT_intro.
  - rewrite bc_res_length. pose proof (BT_length _ _ H1). pose proof (BT_length _ _ H2). lia.
  - intros k Hk. rewrite bc_res_length in Hk. rewrite bc_res_ext.
    destruct (Z.eqb_spec (ext_from_end s1 k) 1) as [E|E].
    + destruct (Nat.lt_ge_cases k (length s2)) as [K|K]; [apply (BT_ext _ _ H2 k K)|].
      right. apply ext_beyond. exact K.
    + destruct (Nat.lt_ge_cases k (length s1)) as [K|K]; [apply (BT_ext _ _ H1 k K)|].
      rewrite ext_beyond in E by exact K. contradiction.
Qed.

Lemma bc_into s T : BT s T -> broadcast_shape2 false T s = Ok T.
Proof.
  intros H. rewrite broadcast_shape2_unfold.
  assert (Hok : bc_ok false T s = true).
  { apply bc_ok_false_spec. intros k K1 K2. destruct (BT_ext _ _ H k K2); auto. }
  rewrite Hok. f_equal. apply list_eq_ext_from_end.
  - rewrite bc_res_length. pose proof (BT_length _ _ H). lia.
  - intros k. rewrite bc_res_ext. destruct (Z.eqb_spec (ext_from_end T k) 1) as [E|E]; [|reflexivity].
    destruct (Nat.lt_ge_cases k (length s)) as [K|K].
    + destruct (BT_ext _ _ H k K); congruence.
    + rewrite E. apply ext_beyond. exact K.
Qed.

(* ------------------------------------------------------------------ match_pairs *)

Lemma nthZ_map_fn {A} (g : A -> Z) (l : list A) (d : A) i : (i < length l)%nat -> nthZ (map g l) i = g (nth i l d).
Proof.
  intros H. unfold nthZ. rewrite (nth_indep _ 0 (g d)) by (rewrite map_length; exact H). apply map_nth.
Qed.

(* with the extracted fact "both inputs are argsorted" the order handed to _match_arrays is a sorting
   permutation; for the other reading of the source this lemma (and everything below) does not hold *)
Lemma input_order_is_argsort srt : is_argsort srt -> is_argsort (input_order srt).
Proof. intros H. exact H. Qed.

Lemma ctor_rows_match_id {D} sh (rows : list (idx * D)) : ctor_rows s_match_coo_ctor_sorted sh rows = rows.
Proof. reflexivity. Qed.

Lemma ctor_rows_func_id {D} sh (rows : list (idx * D)) : ctor_rows s_func_array_ctor_sorted sh rows = rows.
Proof. reflexivity. Qed.

Lemma match_pairs_spec srt (srt_ok : is_argsort srt) sh1 c1 sh2 c2 cur :
  broadcast_shape2 false sh1 sh2 = Ok cur ->
  Forall (in_range sh1) c1 -> Forall (in_range sh2) c2 ->
  exists pairs,
    match_pairs srt sh1 c1 sh2 c2 = Ok (cur, bcast_params sh1 cur, bcast_params sh2 cur, pairs) /\
    NoDup pairs /\
    forall i j, In (i, j) pairs <->
                (i < length c1)%nat /\ (j < length c2)%nat /\
                select (msk1 sh1 sh2 cur) (nth i c1 []) = select (msk2 sh1 sh2 cur) (nth j c2 []).
Proof.
  intros Hb R1 R2. pose proof (broadcast_shape2_BT2 _ _ _ Hb) as HB.
  unfold match_pairs. rewrite Hb. cbn [bind].
  fold (rparams sh1 sh2 cur). fold (msk1 sh1 sh2 cur). fold (msk2 sh1 sh2 cur).
  set (rsh := select (msk2 sh1 sh2 cur) sh2).
  set (k1 := map (fun t => ravel rsh (select (msk1 sh1 sh2 cur) t)) c1).
  set (k2 := map (fun t => ravel rsh (select (msk2 sh1 sh2 cur) t)) c2).
  exists (joined (input_order srt) k1 k2). split; [reflexivity|].
  destruct (joined_spec (input_order srt) (input_order_is_argsort srt srt_ok) k1 k2) as [Hnd Hin]. split; [exact Hnd|].
  intros i j. rewrite Hin. unfold k1, k2. rewrite !map_length.
  rewrite Forall_forall in R1, R2.
  split; intros [H1 [H2 H3]]; repeat split; auto.
  - rewrite (nthZ_map_fn _ c1 [] i H1), (nthZ_map_fn _ c2 [] j H2) in H3.
    destruct (pair_align _ _ _ HB (nth i c1 []) (nth j c2 []) (R1 _ (nth_In _ _ H1)) (R2 _ (nth_In _ _ H2)))
      as [_ [P1 [P2 _]]].
    apply (ravel_inj rsh); assumption.
  - rewrite (nthZ_map_fn _ c1 [] i H1), (nthZ_map_fn _ c2 [] j H2). congruence.
Qed.

Lemma mapM_Ok {A B} (f : A -> res B) (d : B) (l : list A) :
  (forall x, In x l -> exists y, f x = Ok y) ->
  mapM f l = Ok (map (fun x => match f x with Ok y => y | Raise _ => d end) l).
Proof.
  induction l as [|a l IH]; intros H; simpl; [reflexivity|].
  destruct (H a (or_introl eq_refl)) as [y Hy]. rewrite Hy. cbn [bind]. rewrite IH by (intros; apply H; simpl; auto).
  reflexivity.
Qed.

(* ================================================================== _match_coo as a join *)

Section General.
  Variable V : Type.
  Variable veqb : V -> V -> bool.
  Variable vzero : V.
  Variable srt : list Z -> list nat.
  Hypothesis srt_ok : is_argsort srt.
  Variable f : list V -> V.
  Hypothesis veqb_eq : forall a b, veqb a b = true <-> a = b.

  Definition stored (c : coo V) (q : idx) : Prop := In (bcast_idx (c_shape c) q) (c_coords c).
  Definition val_at (c : coo V) (q : idx) : V := den c (bcast_idx (c_shape c) q).

  (* rows = one row per position q of T at which EVERY matched operand stores its pre-image, carrying
     the operands' values there; no position twice *)
  Definition rows_spec (ms : list (coo V)) (T : shape) (rows : list (idx * list V)) : Prop :=
    NoDup (map fst rows) /\
    forall q vs, In (q, vs) rows <-> in_range T q /\ Forall (fun c => stored c q) ms /\ vs = map (fun c => val_at c q) ms.

  Lemma stored_trans (c : coo V) B T q : BT (c_shape c) B -> BT B T -> in_range T q ->
    (stored c (bcast_idx B q) <-> stored c q) /\ val_at c (bcast_idx B q) = val_at c q.
  Proof.
    intros H1 H2 Hq. unfold stored, val_at. rewrite (bcast_idx_trans _ _ _ H1 H2 q Hq). tauto.
  Qed.

  Lemma nth_entries (c : coo V) j :
    canonical V c -> (j < length (c_coords c))%nat -> nth j (c_data c) vzero = den c (nth j (c_coords c) []).
  Proof.
    intros Hc Hj. symmetry. apply (den_stored V c _ _ Hc). destruct Hc as [_ [_ Hl]].
    apply (entries_nth V vzero); [exact Hl|]. exists j. auto.
  Qed.

  Lemma match_step_spec ms B rows (a2 : coo V) cur :
    rows_spec ms B rows -> canonical V a2 -> Forall (fun c => BT (c_shape c) B) ms ->
    broadcast_shape2 false B (c_shape a2) = Ok cur ->
    exists rows', match_step V vzero srt (B, rows) a2 = Ok (cur, rows') /\ rows_spec (ms ++ [a2]) cur rows'.
  Proof.
    intros [Hnd Hrows] Ha2 Hms Hb. pose proof (broadcast_shape2_BT2 _ _ _ Hb) as HB.
    pose proof (BT2_left_BT _ _ _ HB) as HB1. pose proof (BT2_right_BT _ _ _ HB) as HB2.
    pose proof Ha2 as [R2 [S2 L2]].
    assert (R1 : Forall (in_range B) (map fst rows)).
    { apply Forall_forall. intros q Hq. apply in_map_iff in Hq. destruct Hq as [[q' vs] [<- Hin]].
      apply Hrows in Hin. tauto. }
    destruct (match_pairs_spec srt srt_ok B (map fst rows) (c_shape a2) (c_coords a2) cur Hb R1 R2) as [pairs [Hmp [Pnd Pin]]].
    unfold match_step. rewrite Hmp. cbn [bind]. unfold idx in *.
    set (g := fun ij : nat * nat =>
                let r1 := nth (fst ij) rows ([], []) in
                mc <- matching_coords (bcast_params B cur) (bcast_params (c_shape a2) cur)
                                      (fst r1) (nth (snd ij) (c_coords a2) []) ;;
                Ok (mc, snd r1 ++ [nth (snd ij) (c_data a2) vzero])).
    (* every pair reconstructs a position of cur *)
    assert (Hg : forall i j, In (i, j) pairs ->
               exists q, g (i, j) = Ok (q, snd (nth i rows ([], [])) ++ [nth j (c_data a2) vzero]) /\
                         in_range cur q /\ bcast_idx B q = fst (nth i rows ([], [])) /\
                         bcast_idx (c_shape a2) q = nth j (c_coords a2) []).
    { intros i j Hij. apply Pin in Hij. rewrite map_length in Hij. destruct Hij as [Hi [Hj Esel]].
      change (@nil Z) with (fst (@nil Z, @nil V)) in Esel at 1. rewrite map_nth in Esel.
      rewrite Forall_forall in R1, R2.
      assert (I1 : in_range B (fst (nth i rows ([], [])))) by (apply R1, in_map, nth_In; exact Hi).
      assert (I2 : in_range (c_shape a2) (nth j (c_coords a2) [])) by (apply R2, nth_In; exact Hj).
      destruct (pair_align _ _ _ HB _ _ I1 I2) as [_ [_ [_ P]]]. destruct (P Esel) as [q [Q1 [Q2 [Q3 Q4]]]].
      exists q. unfold g. simpl. rewrite Q1. cbn [bind]. auto. }
    rewrite (mapM_Ok g ([], [])).
    2:{ intros [i j] Hij. destruct (Hg i j Hij) as [q [E _]]. eauto. }
    cbn [bind]. change s_match_coo_ctor_has_duplicates with false. cbv iota. rewrite ctor_rows_match_id.
    eexists. split; [reflexivity|].
    set (h := fun x => match g x with Ok y => y | Raise _ => ([], []) end).
    assert (Hh : forall i j, In (i, j) pairs ->
               exists q, h (i, j) = (q, snd (nth i rows ([], [])) ++ [nth j (c_data a2) vzero]) /\
                         in_range cur q /\ bcast_idx B q = fst (nth i rows ([], [])) /\
                         bcast_idx (c_shape a2) q = nth j (c_coords a2) []).
    { intros i j Hij. destruct (Hg i j Hij) as [q [E Q]]. exists q. unfold h. rewrite E. auto. }
    split.
    - (* no position twice *)
      rewrite map_map. apply NoDup_map_in; [|exact Pnd].
      intros [i j] [i' j'] Hx Hy E.
      destruct (Hh i j Hx) as [q [E1 [_ [Q3 Q4]]]]. destruct (Hh i' j' Hy) as [q' [E1' [_ [Q3' Q4']]]].
      rewrite E1, E1' in E. simpl in E. subst q'.
      apply Pin in Hx. apply Pin in Hy. rewrite map_length in Hx, Hy.
      destruct Hx as [Hi [Hj _]]. destruct Hy as [Hi' [Hj' _]].
      assert (i = i').
      { apply (proj1 (NoDup_nth (map fst rows) []) Hnd); try (rewrite map_length; assumption).
        change (@nil Z) with (fst (@nil Z, @nil V)). rewrite !map_nth.
        transitivity (bcast_idx B q); [symmetry; exact Q3|exact Q3']. }
      assert (j = j').
      { apply (proj1 (NoDup_nth (c_coords a2) []) (SS_lex_NoDup _ S2)); auto.
        transitivity (bcast_idx (c_shape a2) q); [symmetry; exact Q4|exact Q4']. }
      congruence.
    - intros q vs. rewrite in_map_iff. split.
      + intros [[i j] [E Hij]]. destruct (Hh i j Hij) as [q' [E1 [Q2 [Q3 Q4]]]]. rewrite E1 in E.
        inversion E; subst q' vs. clear E.
        apply Pin in Hij. rewrite map_length in Hij. destruct Hij as [Hi [Hj _]].
        assert (Hrow : In (nth i rows ([], [])) rows) by (apply nth_In; exact Hi).
        destruct (nth i rows ([], [])) as [q1 vs1] eqn:En. simpl in *. apply Hrows in Hrow.
        destruct Hrow as [_ [Hst Hvs]]. split; [exact Q2|]. split.
        * apply Forall_app. split.
          -- rewrite Forall_forall in Hst, Hms |- *. intros c Hc. subst q1.
             apply (stored_trans c B cur q (Hms c Hc) HB1 Q2). apply Hst. exact Hc.
          -- constructor; [|constructor]. unfold stored. rewrite Q4. apply nth_In. exact Hj.
        * rewrite map_app. simpl. f_equal.
          -- rewrite Hvs. apply map_ext_in. intros c Hc. rewrite Forall_forall in Hms. subst q1.
             apply (stored_trans c B cur q (Hms c Hc) HB1 Q2).
          -- f_equal. unfold val_at. rewrite Q4. apply nth_entries; assumption.
      + intros [Hq [Hst Hvs]]. apply Forall_app in Hst. destruct Hst as [Hst1 Hst2].
        inversion Hst2 as [|? ? Hs2 _]; subst.
        (* the row of the first operands *)
        assert (Hrow : In (bcast_idx B q, map (fun c => val_at c q) ms) rows).
        { apply Hrows. split; [eapply bcast_in_range; eauto|]. split.
          - rewrite Forall_forall in Hst1, Hms |- *. intros c Hc.
            apply (stored_trans c B cur q (Hms c Hc) HB1 Hq). apply Hst1. exact Hc.
          - apply map_ext_in. intros c Hc. rewrite Forall_forall in Hms. symmetry.
            apply (stored_trans c B cur q (Hms c Hc) HB1 Hq). }
        apply (In_nth _ _ ([], [])) in Hrow. destruct Hrow as [i [Hi Ei]].
        unfold stored in Hs2. apply (In_nth _ _ []) in Hs2. destruct Hs2 as [j [Hj Ej]].
        destruct (pair_align_inv _ _ _ HB q Hq) as [Esel Emc].
        assert (Hij : In (i, j) pairs).
        { apply Pin. rewrite map_length. repeat split; auto.
          change (@nil Z) with (fst (@nil Z, @nil V)) at 1. rewrite map_nth, Ei, Ej. exact Esel. }
        exists (i, j). split; [|exact Hij]. unfold h, g. simpl. unfold idx in *. rewrite Ei, Ej. simpl. rewrite Emc. cbn [bind].
        f_equal. rewrite map_app. simpl. f_equal. f_equal. unfold val_at. rewrite <- Ej. apply nth_entries; assumption.
  Qed.

  Lemma combine_map_r {A B C} (g : B -> C) (l : list A) (l' : list B) :
    combine l (map g l') = map (fun p => (fst p, g (snd p))) (combine l l').
  Proof. revert l'. induction l as [|a l IH]; intros [|b l']; simpl; auto. rewrite IH. reflexivity. Qed.

  Lemma rows_spec_init (a1 : coo V) :
    canonical V a1 -> rows_spec [a1] (c_shape a1) (combine (c_coords a1) (map (fun v => [v]) (c_data a1))).
  Proof.
    intros Hc. pose proof Hc as [R [Srt L]]. rewrite combine_map_r. fold (entries a1). split.
    - rewrite map_map. simpl. unfold entries. rewrite combine_map_fst by (symmetry; exact L).
      apply SS_lex_NoDup. exact Srt.
    - intros q vs. rewrite in_map_iff. rewrite Forall_forall in R. split.
      + intros [[q' v] [E Hin]]. simpl in E. inversion E; subst q' vs. clear E.
        assert (Hq : In q (c_coords a1)) by (eapply in_combine_l; eauto).
        pose proof (R q Hq) as Rq. split; [exact Rq|]. split.
        * constructor; [|constructor]. unfold stored. rewrite bcast_idx_id by exact Rq. exact Hq.
        * simpl. unfold val_at. rewrite bcast_idx_id by exact Rq. rewrite (den_stored V a1 q v Hc Hin). reflexivity.
      + intros [Hq [Hst Hvs]]. inversion Hst as [|? ? Hs _]; subst. unfold stored in Hs.
        rewrite bcast_idx_id in Hs by exact Hq. simpl. unfold val_at. rewrite bcast_idx_id by exact Hq.
        apply (entries_coords V vzero a1 q L) in Hs. destruct Hs as [v Hv].
        exists (q, v). simpl. split; [|exact Hv]. rewrite (den_stored V a1 q v Hc Hv). reflexivity.
  Qed.

  Lemma rows_spec_expand ms B T rows :
    rows_spec ms B rows -> Forall (fun c => BT (c_shape c) B) ms -> BT B T -> shape_ok T ->
    rows_spec ms T (expand_rows rows (bcast_params B T) T).
  Proof.
    intros [Hnd Hrows] Hms HB Hok.
    assert (Hr : Forall (fun r : idx * list V => in_range B (fst r)) rows).
    { apply Forall_forall. intros [q vs] Hin. apply Hrows in Hin. simpl. tauto. }
    destruct (expand_rows_spec B T rows HB Hok Hr Hnd) as [End Ein]. split; [exact End|].
    intros q vs. rewrite Ein, Hrows. rewrite Forall_forall in Hms. split.
    - intros [Hq [_ [Hst Hvs]]]. split; [exact Hq|]. split.
      + rewrite Forall_forall in Hst |- *. intros c Hc. apply (stored_trans c B T q (Hms c Hc) HB Hq). auto.
      + rewrite Hvs. apply map_ext_in. intros c Hc. apply (stored_trans c B T q (Hms c Hc) HB Hq).
    - intros [Hq [Hst Hvs]]. split; [exact Hq|]. split; [eapply bcast_in_range; eauto|]. split.
      + rewrite Forall_forall in Hst |- *. intros c Hc. apply (stored_trans c B T q (Hms c Hc) HB Hq). auto.
      + rewrite Hvs. apply map_ext_in. intros c Hc. symmetry. apply (stored_trans c B T q (Hms c Hc) HB Hq).
  Qed.

  Lemma match_fold_spec T : forall rest ms B rows,
    rows_spec ms B rows -> Forall (fun c => BT (c_shape c) B) ms -> BT B T ->
    Forall (canonical V) rest -> Forall (fun c => BT (c_shape c) T) rest ->
    exists B' rows',
      fold_left (fun acc a2 => m <- acc ;; match_step V vzero srt m a2) rest (Ok (B, rows)) = Ok (B', rows') /\
      rows_spec (ms ++ rest) B' rows' /\ Forall (fun c => BT (c_shape c) B') (ms ++ rest) /\ BT B' T.
  Proof.
    induction rest as [|a2 rest IH]; intros ms B rows Hrows Hms HB Hcan HT.
    - exists B, rows. rewrite app_nil_r. simpl. auto.
    - inversion Hcan as [|? ? Ha2 Hcan']; subst. inversion HT as [|? ? HT2 HT']; subst.
      destruct (bc_exists B (c_shape a2) T HB HT2) as [cur [Hb Hcur]].
      destruct (match_step_spec ms B rows a2 cur Hrows Ha2 Hms Hb) as [rows1 [E1 S1]].
      pose proof (broadcast_shape2_BT2 _ _ _ Hb) as HB2.
      cbn [fold_left bind]. rewrite E1.
      destruct (IH (ms ++ [a2]) cur rows1 S1) as [B' [rows' [E' [S' [F' T']]]]]; auto.
      + apply Forall_app. split.
        * eapply Forall_impl; [|exact Hms]. intros c Hc. eapply BT_trans; [exact Hc|]. eapply BT2_left_BT; eauto.
        * constructor; [|constructor]. eapply BT2_right_BT; eauto.
      + exists B', rows'. rewrite <- app_assoc in S', F'. simpl in S', F'. auto.
  Qed.

  Theorem match_coo_spec (ms : list (coo V)) T :
    ms <> [] -> Forall (canonical V) ms -> Forall (fun c => BT (c_shape c) T) ms -> shape_ok T ->
    exists rows, match_coo V vzero srt ms T = Ok rows /\ rows_spec ms T rows.
  Proof.
    intros Hne Hcan HT Hok. destruct ms as [|a1 rest]; [congruence|].
    inversion Hcan as [|? ? Ha1 Hcan']; subst. inversion HT as [|? ? HT1 HT']; subst.
    destruct (match_fold_spec T rest [a1] (c_shape a1) _ (rows_spec_init a1 Ha1)) as [B' [rows' [E' [S' [F' T']]]]]; auto.
    { constructor; [apply BT_refl|constructor]. }
    unfold match_coo. rewrite E'. cbn [bind]. simpl in S', F'.
    destruct (list_eq_dec Z.eq_dec B' T) as [->|Hne'].
    - exists rows'. auto.
    - pose proof (rows_spec_expand (a1 :: rest) B' T rows' S' F' T' Hok) as Hx. unfold expand_rows in Hx.
      destruct (expand_coords_data (map fst rows') (map snd rows') (bcast_params B' T) T) as [cs vs].
      rewrite ctor_rows_match_id. eexists. split; [reflexivity|exact Hx].
  Qed.

  (* _match_coo(func_array, arg, return_midx=True)[0] *)
  Theorem match_coo_midx_spec sh (coords : list idx) (arg : coo V) :
    Forall (in_range sh) coords -> canonical V arg -> BT (c_shape arg) sh ->
    exists l, match_coo_midx V srt sh coords arg = Ok l /\
              forall n, In n l <-> (n < length coords)%nat /\ stored arg (nth n coords []).
  Proof.
    intros Rc Ha HB. pose proof Ha as [Ra [Sa La]]. pose proof (bc_into _ _ HB) as Hb.
    destruct (match_pairs_spec srt srt_ok sh coords (c_shape arg) (c_coords arg) sh Hb Rc Ra) as [pairs [Hmp [Pnd Pin]]].
    unfold match_coo_midx. rewrite Hmp. cbn [bind]. eexists. split; [reflexivity|].
    pose proof (broadcast_shape2_BT2 _ _ _ Hb) as HB2.
    intros n. rewrite in_map_iff. rewrite Forall_forall in Rc, Ra. unfold idx, stored in *. split.
    - intros [[n' j] [E Hin]]. simpl in E. subst n'. apply Pin in Hin. destruct Hin as [Hn [Hj Esel]].
      split; [exact Hn|]. pose proof (Rc _ (nth_In _ [] Hn)) as Rn. pose proof (Ra _ (nth_In _ [] Hj)) as Rj.
      destruct (pair_align _ _ _ HB2 _ _ Rn Rj) as [_ [_ [_ P]]]. destruct (P Esel) as [q [_ [Q2 [Q3 Q4]]]].
      rewrite bcast_idx_id in Q3 by exact Q2. subst q. unfold stored. rewrite Q4. apply nth_In. exact Hj.
    - intros [Hn Hst]. unfold stored in Hst. apply (In_nth _ _ []) in Hst. destruct Hst as [j [Hj Ej]].
      exists (n, j). split; [reflexivity|]. apply Pin. repeat split; auto.
      pose proof (Rc _ (nth_In _ [] Hn)) as Rn.
      destruct (pair_align_inv _ _ _ HB2 _ Rn) as [Esel _]. rewrite bcast_idx_id in Esel by exact Rn.
      rewrite Ej. exact Esel.
  Qed.
End General.

(* ================================================================== one mask of _get_func_coords_data *)

Lemma shape_ok_ext (r : shape) : (forall k, (k < length r)%nat -> 0 <= ext_from_end r k) -> shape_ok r.
Proof.
  intros H. unfold shape_ok. rewrite <- (rev_involutive r). apply Forall_rev. apply Forall_forall. intros d Hd.
  apply (In_nth _ _ 1) in Hd. destruct Hd as [k [Hk <-]]. rewrite rev_length in Hk. apply (H k Hk).
Qed.

Lemma shape_ok_ext_inv (r : shape) k : shape_ok r -> 0 <= ext_from_end r k.
Proof.
  intros H. unfold ext_from_end. destruct (Nat.lt_ge_cases k (length (rev r))) as [Hk|Hk].
  - assert (Hin : In (nth k (rev r) 1) r) by (apply in_rev, nth_In; exact Hk).
    unfold shape_ok in H. rewrite Forall_forall in H. apply H. exact Hin.
  - rewrite nth_overflow by exact Hk. lia.
Qed.

Lemma rel_shape_ok shapes r : Forall shape_ok shapes -> np_broadcast_rel shapes r -> shape_ok r.
Proof.
  intros Hs [L [A B]]. apply shape_ok_ext. intros k Hk. destruct (B k Hk) as [s [Is [_ Es]]]. rewrite <- Es.
  apply shape_ok_ext_inv. rewrite Forall_forall in Hs. auto.
Qed.

Lemma compat_incl l l' : compat l -> incl l' l -> compat l'.
Proof. intros H Hi s1 s2 k I1 I2. apply H; apply Hi; assumption. Qed.

(* a sub-family of broadcastable shapes is broadcastable, into a shape that broadcasts to the full one *)
Lemma nary_sub shapes sh l :
  np_broadcast_rel shapes sh -> incl l shapes ->
  exists m, nary_broadcast_shape l = Ok m /\ np_broadcast_rel l m /\ BT m sh.
Proof.
  intros Hrel Hi. pose proof (nary_sound l) as Hs. destruct (nary_broadcast_shape l) as [m|e].
  - exists m. split; [reflexivity|]. split; [exact Hs|]. destruct Hs as [L [A B]]. destruct Hrel as [L' [A' B']].
    apply BT_intro.
    + rewrite L, L'. clear -Hi. induction l as [|s l IH]; simpl; [lia|].
      assert (length s <= max_ndim shapes)%nat by (apply max_ndim_ge, Hi; simpl; auto).
      assert (max_ndim l <= max_ndim shapes)%nat by (apply IH; intros x Hx; apply Hi; simpl; auto). lia.
    + intros k Hk. destruct (B k Hk) as [s [Is [_ Es]]]. rewrite <- Es.
      destruct (A' s k (Hi s Is)); auto.
  - exfalso. destruct Hs as [_ Hn]. apply Hn. eapply compat_incl; [eapply rel_compat; exact Hrel|exact Hi].
Qed.

Lemma BT_shape_ok s T : BT s T -> shape_ok T -> shape_ok s.
Proof.
  unfold shape_ok. induction 1 as [|s d cur HB IH|e s d cur Hl He HB IH]; intros Hok; [constructor| |].
  - inversion Hok; subst. auto.
  - inversion Hok; subst. constructor; [destruct He; lia|auto].
Qed.

Section Pieces.
  Variable V : Type.
  Variable veqb : V -> V -> bool.
  Variable vzero : V.
  Variable srt : list Z -> list nat.
  Hypothesis srt_ok : is_argsort srt.
  Variable f : list V -> V.
  Hypothesis veqb_eq : forall a b, veqb a b = true <-> a = b.

  Notation stored := (stored V).
  Notation val_at := (val_at V).

  Definition op_ok (a : operand V) : Prop :=
    match a with
    | OSp c => canonical V c /\ shape_ok (c_shape c)
    | ODn d => shape_ok (d_shape d)
    end.

  (* NumPy's value of f(operands) at index q of the broadcast shape *)
  Definition F (args : list (operand V)) (q : idx) : V := f (map (fun a => operand_at V vzero a q) args).

  Definition choices (a : operand V) : list (option bool) :=
    if is_sparse V a then s_mask_choices_sparse else s_mask_choices_other.

  Lemma masks_cons_In a r m :
    In m (masks V (a :: r)) <-> exists c m', m = c :: m' /\ In c (choices a) /\ In m' (masks V r).
  Proof.
    simpl. fold (choices a). rewrite in_flat_map. split.
    - intros [c [Hc Hm]]. apply in_map_iff in Hm. destruct Hm as [m' [<- Hm']]. eauto.
    - intros [c [m' [-> [Hc Hm']]]]. exists c. split; [exact Hc|]. apply in_map. exact Hm'.
  Qed.

  Lemma sparse_of_cons a ar mi mr w :
    sparse_of V (a :: ar) (mi :: mr) w =
    (match a, mi with OSp c, Some b => if Bool.eqb b w then [c] else [] | _, _ => [] end) ++ sparse_of V ar mr w.
  Proof. unfold sparse_of. simpl. destruct a, mi; reflexivity. Qed.

  (* the values func is applied to under a mask: matched operands their value, unmatched ones their
     fill value, ndarrays their element *)
  Fixpoint mvals (args : list (operand V)) (m : list (option bool)) (q : idx) : list V :=
    match args, m with
    | a :: ar, mi :: mr =>
      (match a, mi with
       | OSp c, Some true => val_at c q
       | OSp c, _ => c_fill c
       | ODn d, _ => dense_get vzero d (bcast_idx (d_shape d) q)
       end) :: mvals ar mr q
    | _, _ => []
    end.

  Lemma func_args_mvals args m q :
    func_args V vzero args m q (map (fun c => val_at c q) (sparse_of V args m true)) = mvals args m q.
  Proof.
    revert m. induction args as [|a ar IH]; intros [|mi mr]; try reflexivity.
    rewrite sparse_of_cons. destruct a as [c|d]; [destruct mi as [[|]|]|]; simpl; rewrite IH; reflexivity.
  Qed.

  Definition aligned (mbs : shape) (a : operand V) (mi : option bool) : Prop :=
    match a, mi with
    | OSp c, Some true => BT (c_shape c) mbs
    | ODn d, _ => BT (d_shape d) mbs
    | _, _ => True
    end.

  Lemma mvals_bcast args m mbs sh q :
    (forall a mi, In (a, mi) (combine args m) -> aligned mbs a mi) -> BT mbs sh -> in_range sh q ->
    mvals args m (bcast_idx mbs q) = mvals args m q.
  Proof.
    intros Hal HB Hq. revert m Hal. induction args as [|a ar IH]; intros [|mi mr] Hal; simpl; try reflexivity.
    f_equal; [|apply IH; intros; apply Hal; simpl; auto].
    specialize (Hal a mi (or_introl eq_refl)). unfold aligned in Hal.
    destruct a as [c|d]; [destruct mi as [[|]|]|]; try reflexivity.
    - apply (stored_trans V c mbs sh q Hal HB Hq).
    - rewrite (bcast_idx_trans _ _ _ Hal HB q Hq). reflexivity.
  Qed.

  Lemma mvals_F args m q :
    In m (masks V args) -> (forall c, In c (sparse_of V args m false) -> ~ stored c q) ->
    mvals args m q = map (fun a => operand_at V vzero a q) args.
  Proof.
    revert m. induction args as [|a ar IH]; intros m Hm Hun.
    - simpl in Hm. destruct Hm as [<-|[]]. reflexivity.
    - apply masks_cons_In in Hm. destruct Hm as [c [m' [-> [Hc Hm']]]]. simpl.
      rewrite sparse_of_cons in Hun. f_equal.
      + unfold choices in Hc. destruct a as [co|d]; simpl in Hc.
        * destruct Hc as [<-|[<-|[]]]; [reflexivity|]. simpl in Hun. symmetry. apply den_unstored.
          apply (Hun co). left. reflexivity.
        * reflexivity.
      + apply IH; [exact Hm'|]. intros c0 Hc0. apply Hun. apply in_or_app. right. exact Hc0.
  Qed.

  (* filter_pos against the positions matched by the unmatched operands *)
  Lemma drop_unmatched_spec sh (es : list (idx * V)) (unm : list (coo V)) :
    Forall (fun e => in_range sh (fst e)) es ->
    Forall (fun c => canonical V c /\ BT (c_shape c) sh) unm ->
    exists bad, mapM (fun arg => match_coo_midx V srt sh (map fst es) arg) unm = Ok bad /\
      forall q v, In (q, v) (filter_pos (fun n => negb (existsb (Nat.eqb n) (concat bad))) O es) <->
                  In (q, v) es /\ forall c, In c unm -> ~ stored c q.
  Proof.
    intros Hr Hun.
    assert (Rc : Forall (in_range sh) (map fst es)).
    { apply Forall_forall. intros q Hq. apply in_map_iff in Hq. destruct Hq as [e [<- He]].
      rewrite Forall_forall in Hr. auto. }
    rewrite Forall_forall in Hun.
    rewrite (mapM_Ok _ []).
    2:{ intros c Hc. destruct (Hun c Hc) as [H1 H2]. destruct (match_coo_midx_spec V srt srt_ok sh (map fst es) c Rc H1 H2) as [l [E _]].
        eauto. }
    eexists. split; [reflexivity|].
    assert (Hbad : forall n, In n (concat (map (fun x => match match_coo_midx V srt sh (map fst es) x with
                                                          | Ok y => y | Raise _ => [] end) unm)) <->
                             (n < length es)%nat /\ exists c, In c unm /\ stored c (nth n (map fst es) [])).
    { intros n. rewrite in_concat. split.
      - intros [l [Hl Hn]]. apply in_map_iff in Hl. destruct Hl as [c [<- Hc]].
        destruct (Hun c Hc) as [H1 H2]. destruct (match_coo_midx_spec V srt srt_ok sh (map fst es) c Rc H1 H2) as [l [E Hl]].
        rewrite E in Hn. apply Hl in Hn. rewrite map_length in Hn. destruct Hn. eauto.
      - intros [Hn [c [Hc Hs]]]. destruct (Hun c Hc) as [H1 H2].
        destruct (match_coo_midx_spec V srt srt_ok sh (map fst es) c Rc H1 H2) as [l [E Hl]].
        exists l. split; [apply in_map_iff; exists c; rewrite E; auto|]. apply Hl. rewrite map_length. auto. }
    intros q v. rewrite filter_pos_In. simpl. split.
    - intros [n [Hn Hk]]. split; [eapply nth_error_In; eauto|]. intros c Hc Hs.
      apply negb_true_iff in Hk. assert (Hn' : (n < length es)%nat) by (apply nth_error_Some; congruence).
      assert (Hin : In n (concat (map (fun x => match match_coo_midx V srt sh (map fst es) x with
                                                 | Ok y => y | Raise _ => [] end) unm))).
      { apply Hbad. split; [exact Hn'|]. exists c. split; [exact Hc|].
        change (@nil Z) with (fst (@nil Z, v)). rewrite map_nth.
        apply nth_error_nth with (d := ([], v)) in Hn. rewrite Hn. exact Hs. }
      assert (existsb (Nat.eqb n) (concat (map (fun x => match match_coo_midx V srt sh (map fst es) x with
                                                 | Ok y => y | Raise _ => [] end) unm)) = true); [|congruence].
      apply existsb_exists. exists n. split; [exact Hin|apply Nat.eqb_refl].
    - intros [Hin Hno]. apply In_nth_error in Hin. destruct Hin as [n Hn]. exists n. split; [exact Hn|].
      apply negb_true_iff. apply not_true_is_false. intros Hex. apply existsb_exists in Hex.
      destruct Hex as [n' [Hin' En]]. apply Nat.eqb_eq in En. subst n'. apply Hbad in Hin'.
      destruct Hin' as [_ [c [Hc Hs]]]. apply (Hno c Hc).
      change (@nil Z) with (fst (@nil Z, v)) in Hs. rewrite map_nth in Hs.
      apply nth_error_nth with (d := ([], v)) in Hn. rewrite Hn in Hs. exact Hs.
  Qed.

  Definition nd_shapes (args : list (operand V)) : list shape :=
    flat_map (fun a => match a with ODn d => [d_shape d] | _ => [] end) args.

  Lemma nd_shapes_incl args : incl (nd_shapes args) (map (op_shape V) args).
  Proof.
    induction args as [|a ar IH]; simpl; [intros x []|]. destruct a as [c|d]; simpl.
    - intros x Hx. right. apply IH. exact Hx.
    - intros x [<-|Hx]; [left; reflexivity|right; apply IH; exact Hx].
  Qed.

  Lemma sparse_of_In args m w c : In c (sparse_of V args m w) -> In (OSp c) args.
  Proof.
    revert m. induction args as [|a ar IH]; intros [|mi mr]; try (simpl; tauto).
    rewrite sparse_of_cons. intros H. apply in_app_or in H. destruct H as [H|H]; [|right; eapply IH; eauto].
    destruct a as [c'|d]; [|destruct H]. destruct mi as [b|]; [|destruct H].
    destruct (Bool.eqb b w); [|destruct H]. destruct H as [<-|[]]. left. reflexivity.
  Qed.

  Lemma sparse_of_combine args m c : In c (sparse_of V args m true) -> In (OSp c, Some true) (combine args m).
  Proof.
    revert m. induction args as [|a ar IH]; intros [|mi mr]; try (simpl; tauto).
    rewrite sparse_of_cons. intros H. apply in_app_or in H. destruct H as [H|H]; [|right; eapply IH; eauto].
    destruct a as [c'|d]; [|destruct H]. destruct mi as [[|]|]; simpl in H; try tauto.
    destruct H as [<-|[]]. left. reflexivity.
  Qed.

  Lemma masks_any_true args m :
    In m (masks V args) -> existsb is_true m = true -> sparse_of V args m true <> [].
  Proof.
    revert m. induction args as [|a ar IH]; intros m Hm Hex.
    - simpl in Hm. destruct Hm as [<-|[]]. discriminate.
    - apply masks_cons_In in Hm. destruct Hm as [c [m' [-> [Hc Hm']]]]. rewrite sparse_of_cons.
      simpl in Hex. unfold choices in Hc. destruct a as [co|d]; simpl in Hc.
      + destruct Hc as [<-|[<-|[]]]; simpl; [discriminate|]. apply IH; assumption.
      + destruct Hc as [<-|[]]. simpl in Hex |- *. apply IH; assumption.
  Qed.

  Lemma masks_no_false args m :
    forallb (fun mi => match mi with Some false => false | _ => true end) m = true -> sparse_of V args m false = [].
  Proof.
    revert m. induction args as [|a ar IH]; intros [|mi mr] H; try reflexivity.
    rewrite sparse_of_cons. simpl in H. apply andb_true_iff in H. destruct H as [H1 H2]. rewrite (IH mr H2).
    destruct a; [|reflexivity]. destruct mi as [[|]|]; try reflexivity. discriminate.
  Qed.

  Lemma combine_aligned args m mbs :
    (forall c, In c (sparse_of V args m true) -> BT (c_shape c) mbs) ->
    (forall s, In s (nd_shapes args) -> BT s mbs) ->
    forall a mi, In (a, mi) (combine args m) -> aligned mbs a mi.
  Proof.
    revert m. induction args as [|a ar IH]; intros [|mi mr] H1 H2 a' mi' Hin; simpl in Hin; try tauto.
    rewrite sparse_of_cons in H1. destruct Hin as [E|Hin].
    - inversion E; subst a' mi'. unfold aligned. destruct a as [c|d].
      + destruct mi as [[|]|]; auto. apply H1. left. reflexivity.
      + apply H2. simpl. left. reflexivity.
    - apply (IH mr); auto.
      + intros c Hc. apply H1. apply in_or_app. right. exact Hc.
      + intros s0 Hs. apply H2. simpl. destruct a; [exact Hs|right; exact Hs].
  Qed.

  (* ---------------------------------------------------------------- the piece of one mask *)
  Definition piece_of (o : option (list (idx * V))) : list (idx * V) :=
    match o with Some l => l | None => [] end.

  Theorem piece_spec args sh fill m :
    Forall op_ok args -> np_broadcast_rel (map (op_shape V) args) sh -> shape_ok sh ->
    In m (masks V args) -> existsb is_true m = true ->
    exists o, func_coords_data V veqb vzero f srt args sh fill m = Ok o /\
      NoDup (map fst (piece_of o)) /\
      forall q v, In (q, v) (piece_of o) <->
        in_range sh q /\ (forall c, In c (sparse_of V args m true) -> stored c q) /\
        (forall c, In c (sparse_of V args m false) -> ~ stored c q) /\
        v = F args q /\ veqb v fill = false.
  Proof.
    intros Hok Hrel Hshok Hm Hany.
    set (matched := sparse_of V args m true). set (unm := sparse_of V args m false).
    assert (Hcanon : forall w c, In c (sparse_of V args m w) -> canonical V c /\ BT (c_shape c) sh).
    { intros w c Hc. apply sparse_of_In in Hc. rewrite Forall_forall in Hok. destruct (Hok _ Hc) as [H1 _].
      split; [exact H1|]. apply (rel_BT _ _ _ Hrel). apply in_map_iff. exists (OSp c). auto. }
    (* the broadcast shape of the matched operands and the ndarrays *)
    set (L := map (@c_shape V) matched ++ nd_shapes args).
    assert (HL : incl L (map (op_shape V) args)).
    { intros s Hs. apply in_app_or in Hs. destruct Hs as [Hs|Hs]; [|apply nd_shapes_incl; exact Hs].
      apply in_map_iff in Hs. destruct Hs as [c [<- Hc]]. apply sparse_of_In in Hc.
      apply in_map_iff. exists (OSp c). auto. }
    destruct (nary_sub _ _ L Hrel HL) as [mbs [Hnary [Hrelm HBm]]].
    assert (Hmok : shape_ok mbs) by (eapply BT_shape_ok; eauto).
    assert (Hmatched_BT : Forall (fun c => BT (c_shape c) mbs) matched).
    { apply Forall_forall. intros c Hc. apply (rel_BT _ _ _ Hrelm). apply in_or_app. left. apply in_map. exact Hc. }
    assert (Hal : forall a mi, In (a, mi) (combine args m) -> aligned mbs a mi).
    { apply combine_aligned.
      - intros c Hc. rewrite Forall_forall in Hmatched_BT. auto.
      - intros s Hs. apply (rel_BT _ _ _ Hrelm). apply in_or_app. right. exact Hs. }
    assert (Hne : matched <> []) by (apply masks_any_true; assumption).
    assert (Hmcan : Forall (canonical V) matched).
    { apply Forall_forall. intros c Hc. apply (Hcanon true c Hc). }
    destruct (match_coo_spec V vzero srt srt_ok f matched mbs Hne Hmcan Hmatched_BT Hmok) as [rows [Erows [Rnd Rin]]].
    unfold func_coords_data. fold matched unm. fold (nd_shapes args). fold L. rewrite Hnary. cbn [bind].
    rewrite Erows. cbn [bind].
    set (kept := filter (fun e : idx * V => negb (veqb (snd e) fill))
                        (map (fun r : idx * list V => (fst r, f (func_args V vzero args m (fst r) (snd r)))) rows)).
    (* the kept rows *)
    assert (Kin : forall q v, In (q, v) kept <->
               in_range mbs q /\ Forall (fun c => stored c q) matched /\ v = f (mvals args m q) /\ veqb v fill = false).
    { assert (FA : forall q, func_args V vzero args m q (map (fun c => val_at c q) matched) = mvals args m q)
        by (intros; apply func_args_mvals).
      intros q v. unfold kept. rewrite filter_In, in_map_iff. simpl. rewrite negb_true_iff. split.
      - intros [[[q' vs] [E Hin]] Hv]. simpl in E. inversion E; subst q' v. clear E.
        apply Rin in Hin. destruct Hin as [Hq [Hst Hvs]]. subst vs. rewrite FA in *. auto.
      - intros [Hq [Hst [Hv Hf]]]. split; [|exact Hf].
        exists (q, map (fun c => val_at c q) matched). simpl. split.
        + rewrite FA. congruence.
        + apply Rin. auto. }
    assert (Knd : NoDup (map fst kept)).
    { unfold kept. apply NoDup_map_fst_filter. rewrite map_map. simpl. exact Rnd. }
    (* what a position of the full shape must satisfy to come from a kept row *)
    assert (Kfull : forall q v, in_range sh q ->
               (In (bcast_idx mbs q, v) kept <->
                (forall c, In c matched -> stored c q) /\ v = f (mvals args m q) /\ veqb v fill = false)).
    { intros q v Hq. rewrite Kin. rewrite (mvals_bcast args m mbs sh q Hal HBm Hq). split.
      - intros [_ [Hst [Hv Hf]]]. split; [|auto]. intros c Hc. rewrite Forall_forall in Hst, Hmatched_BT.
        apply (stored_trans V c mbs sh q (Hmatched_BT c Hc) HBm Hq). auto.
      - intros [Hst [Hv Hf]]. split; [eapply bcast_in_range; eauto|]. split; [|auto].
        apply Forall_forall. intros c Hc. rewrite Forall_forall in Hmatched_BT.
        apply (stored_trans V c mbs sh q (Hmatched_BT c Hc) HBm Hq). auto. }
    clearbody kept. destruct kept as [|k0 kept'].
    - (* nothing survives pruning *)
      exists None. split; [reflexivity|]. simpl. split; [constructor|]. intros q v. split; [tauto|].
      intros [Hq [Hst [Hun [Hv Hf]]]]. apply (Kfull q v Hq). split; [exact Hst|]. split; [|exact Hf].
      rewrite Hv. unfold F. f_equal. symmetry. apply mvals_F; assumption.
    - set (kept := k0 :: kept') in *.
      set (es := if list_eq_dec Z.eq_dec mbs sh then kept
                 else let '(c, d) := expand_coords_data (map fst kept) (map snd kept) (bcast_params mbs sh) sh in
                      combine c d).
      assert (Es : NoDup (map fst es) /\ forall q v, In (q, v) es <-> in_range sh q /\ In (bcast_idx mbs q, v) kept).
      { unfold es. destruct (list_eq_dec Z.eq_dec mbs sh) as [->|Hne'].
        - split; [exact Knd|]. intros q v. split.
          + intros Hin. assert (Hq : in_range sh q) by (apply (Kin q v); exact Hin).
            rewrite bcast_idx_id by exact Hq. auto.
          + intros [Hq Hin]. rewrite bcast_idx_id in Hin by exact Hq. exact Hin.
        - assert (Hr : Forall (fun r : idx * V => in_range mbs (fst r)) kept).
          { apply Forall_forall. intros [q v] Hin. apply Kin in Hin. simpl. tauto. }
          apply (expand_rows_spec mbs sh kept HBm Hshok Hr Knd). }
      destruct Es as [End Ein].
      assert (Er : Forall (fun e : idx * V => in_range sh (fst e)) es).
      { apply Forall_forall. intros [q v] Hin. apply Ein in Hin. simpl. tauto. }
      assert (Hunm : Forall (fun c => canonical V c /\ BT (c_shape c) sh) unm).
      { apply Forall_forall. intros c Hc. apply (Hcanon false c Hc). }
      destruct (drop_unmatched_spec sh es unm Er Hunm) as [bad [Ebad Hbad]].
      assert (Final : forall (P : list (idx * V)),
                 (forall q v, In (q, v) P <-> In (q, v) es /\ forall c, In c unm -> ~ stored c q) ->
                 forall q v, In (q, v) P <->
                   in_range sh q /\ (forall c, In c matched -> stored c q) /\
                   (forall c, In c unm -> ~ stored c q) /\ v = F args q /\ veqb v fill = false).
      { intros P HP q v. rewrite HP, Ein. split.
        - intros [[Hq Hin] Hun]. apply (Kfull q v Hq) in Hin. destruct Hin as [Hst [Hv Hf]].
          repeat split; auto. rewrite Hv. unfold F. f_equal. apply mvals_F; assumption.
        - intros [Hq [Hst [Hun [Hv Hf]]]]. split; [|exact Hun]. split; [exact Hq|]. apply (Kfull q v Hq).
          split; [exact Hst|]. split; [|exact Hf]. rewrite Hv. unfold F. f_equal. symmetry. apply mvals_F; assumption. }
      change (match kept with [] => Ok None | _ :: _ => _ end) with
        (if forallb (fun mi : option bool => match mi with Some false => false | _ => true end) m
         then Ok (Some es)
         else bad <- mapM (fun arg => match_coo_midx V srt sh (map fst (ctor_rows s_func_array_ctor_sorted sh es)) arg) unm ;;
              Ok (Some (filter_pos (fun n => negb (existsb (Nat.eqb n) (concat bad))) O
                                   (ctor_rows s_func_array_ctor_sorted sh es)))).
      rewrite !ctor_rows_func_id.
      destruct (forallb _ m) eqn:Hfb.
      + exists (Some es). split; [reflexivity|]. simpl. split; [exact End|].
        apply Final. intros q v. assert (Hun0 : unm = []) by (apply masks_no_false; exact Hfb).
        rewrite Hun0. split; [intros H; split; [exact H|intros c []]|tauto].
      + rewrite Ebad. cbn [bind]. eexists. split; [reflexivity|]. simpl. split.
        * apply NoDup_map_fst_filter_pos. exact End.
        * apply Final. exact Hbad.
  Qed.
End Pieces.

(* ================================================================== the masks partition the stored positions *)

Lemma NoDup_concat_pieces {M K W} (P : M -> list (K * W)) (ml : list M) :
  NoDup ml -> (forall m, In m ml -> NoDup (map fst (P m))) ->
  (forall m m' q, In m ml -> In m' ml -> In q (map fst (P m)) -> In q (map fst (P m')) -> m = m') ->
  NoDup (map fst (concat (map P ml))).
Proof.
  induction 1 as [|m ml Hm Hnd IH]; intros H1 H2; simpl; [constructor|].
  rewrite map_app. apply NoDup_app_intro.
  - apply H1. left. reflexivity.
  - apply IH; [intros; apply H1; right; assumption|]. intros m1 m2 q I1 I2. apply H2; right; assumption.
  - intros q Hq Hq'. apply in_map_iff in Hq'. destruct Hq' as [[k w] [E Hin]]. simpl in E. subst k.
    apply in_concat in Hin. destruct Hin as [l [Hl Hin]]. apply in_map_iff in Hl. destruct Hl as [m' [<- Hm']].
    assert (m = m').
    { apply (H2 m m' q); [left; reflexivity|right; exact Hm'|exact Hq|]. apply in_map_iff. exists (q, w). auto. }
    subst m'. contradiction.
Qed.

Section Final.
  Variable V : Type.
  Variable veqb : V -> V -> bool.
  Variable vzero : V.
  Variable scal : nat -> bool.
  Variable srt : list Z -> list nat.
  Hypothesis srt_ok : is_argsort srt.
  Variable f : list V -> V.
  Hypothesis veqb_eq : forall a b, veqb a b = true <-> a = b.

  Notation stored := (stored V).
  Notation F := (F V vzero f).

  Definition storedb (c : coo V) (q : idx) : bool := existsb (idx_eqb (bcast_idx (c_shape c) q)) (c_coords c).

  Lemma storedb_spec c q : storedb c q = true <-> stored c q.
  Proof.
    unfold storedb, ElemwiseGenP.stored. rewrite existsb_exists. split.
    - intros [x [Hx E]]. apply idx_eqb_eq in E. subst x. exact Hx.
    - intros H. exists (bcast_idx (c_shape c) q). split; [exact H|apply idx_eqb_refl].
  Qed.

  Definition mask_of (args : list (operand V)) (q : idx) : list (option bool) :=
    map (fun a => match a with OSp c => Some (storedb c q) | ODn _ => None end) args.

  Lemma mask_of_In args q : In (mask_of args q) (masks V args).
  Proof.
    induction args as [|a ar IH]; [left; reflexivity|]. apply masks_cons_In.
    exists (match a with OSp c => Some (storedb c q) | ODn _ => None end), (mask_of ar q).
    split; [reflexivity|]. split; [|exact IH]. unfold choices. destruct a as [c|d]; simpl.
    - destruct (storedb c q); auto.
    - auto.
  Qed.

  Lemma mask_of_sparse args q w c : In c (sparse_of V args (mask_of args q) w) -> storedb c q = w.
  Proof.
    induction args as [|a ar IH]; [simpl; tauto|]. simpl mask_of. rewrite sparse_of_cons. intros H.
    apply in_app_or in H. destruct H as [H|H]; [|auto]. destruct a as [c'|d]; [|destruct H].
    destruct (Bool.eqb (storedb c' q) w) eqn:E; [|destruct H]. destruct H as [<-|[]]. apply eqb_prop. exact E.
  Qed.

  Lemma mask_unique args m q :
    In m (masks V args) -> (forall c, In c (sparse_of V args m true) -> stored c q) ->
    (forall c, In c (sparse_of V args m false) -> ~ stored c q) -> m = mask_of args q.
  Proof.
    revert m. induction args as [|a ar IH]; intros m Hm H1 H2.
    - simpl in Hm. destruct Hm as [<-|[]]. reflexivity.
    - apply masks_cons_In in Hm. destruct Hm as [c [m' [-> [Hc Hm']]]]. rewrite sparse_of_cons in H1, H2.
      simpl. f_equal.
      + unfold choices in Hc. destruct a as [co|d]; simpl in Hc.
        * destruct Hc as [<-|[<-|[]]]; f_equal; symmetry.
          -- apply storedb_spec. apply H1. left. reflexivity.
          -- apply not_true_is_false. intros E. apply storedb_spec in E. apply (H2 co); [left; reflexivity|exact E].
        * destruct Hc as [<-|[]]. reflexivity.
      + apply IH; [exact Hm'| |]; intros c0 Hc0; [apply H1|apply H2]; apply in_or_app; right; exact Hc0.
  Qed.

  Lemma mask_of_any args q :
    existsb is_true (mask_of args q) = true <-> exists c, In (OSp c) args /\ stored c q.
  Proof.
    induction args as [|a ar IH]; simpl.
    - split; [discriminate|]. intros [c [[] _]].
    - rewrite orb_true_iff, IH. split.
      + intros [H|[c [Hc Hs]]]; [|eauto]. destruct a as [c|d]; [|discriminate].
        exists c. split; [left; reflexivity|]. apply storedb_spec. destruct (storedb c q); [reflexivity|discriminate].
      + intros [c [[E|Hc] Hs]]; [|right; eauto]. subst a. left. apply storedb_spec in Hs. rewrite Hs. reflexivity.
  Qed.

  Lemma masks_NoDup args : NoDup (masks V args).
  Proof.
    induction args as [|a ar IH]; simpl; [constructor; [tauto|constructor]|].
    assert (G : forall (cs : list (option bool)), NoDup cs -> NoDup (flat_map (fun c => map (cons c) (masks V ar)) cs)).
    { induction 1 as [|c cs Hc Hnd IHc]; simpl; [constructor|]. apply NoDup_app_intro.
      - apply NoDup_map_in; [|exact IH]. intros x y _ _ E. inversion E; reflexivity.
      - exact IHc.
      - intros x Hx Hx'. apply in_map_iff in Hx. destruct Hx as [m' [<- _]].
        apply in_flat_map in Hx'. destruct Hx' as [c' [Hc' Hx']]. apply in_map_iff in Hx'.
        destruct Hx' as [m'' [E _]]. inversion E; subst. contradiction. }
    apply G. destruct (is_sparse V a).
    - constructor; [simpl; intros [E|[]]; discriminate|]. constructor; [simpl; tauto|constructor].
    - constructor; [simpl; tauto|constructor].
  Qed.

  Lemma preprocess_at a q : operand_at V vzero (preprocess V a) q = operand_at V vzero a q.
  Proof.
    destruct a as [c|d]; [|reflexivity]. simpl. destruct (c_shape c) eqn:E; [|simpl; rewrite E; reflexivity].
    simpl. unfold dense_get. simpl. unfold bcast_idx. simpl. reflexivity.
  Qed.

  Lemma preprocess_F args0 q : F (map (preprocess V) args0) q = F args0 q.
  Proof. unfold ElemwiseGenP.F. rewrite map_map. f_equal. apply map_ext. intros a. apply preprocess_at. Qed.

  Lemma preprocess_shape a : op_shape V (preprocess V a) = op_shape V a.
  Proof. destruct a as [c|d]; [|reflexivity]. simpl. destruct (c_shape c) eqn:E; simpl; congruence. Qed.

  Lemma preprocess_ok a : op_ok V a -> op_ok V (preprocess V a).
  Proof.
    destruct a as [c|d]; [|auto]. simpl. destruct (c_shape c) eqn:E; simpl; [intros _; constructor|].
    rewrite E. auto.
  Qed.

  Definition constant_fill (args : list (operand V)) (nd : shape) : Prop :=
    exists v, forall q0, in_range nd q0 -> fill_at V vzero f args q0 = v.

  Lemma get_fill_value_spec args sh nd :
    match get_fill_value V veqb vzero f scal args sh nd with
    | FillSparse fill => forall q0, in_range nd q0 -> fill_at V vzero f args q0 = fill
    | FillDense => ~ constant_fill args nd /\ sh = nd
    | FillError => ~ constant_fill args nd /\ sh <> nd
    end.
  Proof.
    unfold get_fill_value. set (arr := map (fill_at V vzero f args) (all_indices nd)).
    set (fill := match arr with v :: _ => v | [] => zeros_fill V vzero f scal args end).
    destruct (forallb (veqb fill) arr) eqn:Hall.
    - intros q0 Hq0. rewrite forallb_forall in Hall. symmetry. apply veqb_eq. apply Hall.
      unfold arr. apply in_map. apply all_indices_In. exact Hq0.
    - assert (Hnc : ~ constant_fill args nd).
      { intros [v Hv]. assert (forallb (veqb fill) arr = true); [|congruence].
        apply forallb_forall. intros x Hx. apply veqb_eq.
        assert (Hx' : x = v).
        { unfold arr in Hx. apply in_map_iff in Hx. destruct Hx as [q0 [<- Hq0]]. apply Hv. apply all_indices_In. exact Hq0. }
        subst x. unfold fill. destruct arr as [|y arr'] eqn:Ea; [destruct Hx|].
        assert (In y arr) by (rewrite Ea; left; reflexivity). unfold arr in H. apply in_map_iff in H.
        destruct H as [q0 [<- Hq0]]. apply Hv. apply all_indices_In. exact Hq0. }
      destruct (list_eq_dec Z.eq_dec sh nd); auto.
  Qed.

  Lemma F_unstored args sh nd q :
    (forall c, In (OSp c) args -> ~ stored c q) ->
    (forall d, In (ODn d) args -> BT (d_shape d) nd) -> BT nd sh -> in_range sh q ->
    F args q = fill_at V vzero f args (bcast_idx nd q).
  Proof.
    intros Hun Hd HB Hq. unfold ElemwiseGenP.F, fill_at. f_equal. apply map_ext_in. intros a Ha.
    destruct a as [c|d]; simpl.
    - apply den_unstored. apply Hun. exact Ha.
    - rewrite (bcast_idx_trans _ _ _ (Hd d Ha) HB q Hq). reflexivity.
  Qed.

  Lemma nd_shapes_In args d : In (ODn d) args -> In (d_shape d) (nd_shapes V args).
  Proof.
    induction args as [|a ar IH]; simpl; [tauto|]. intros [->|H]; [left; reflexivity|].
    destruct a; [auto|right; auto].
  Qed.

  (* the sparse branch of get_result: concatenation of the mask pieces, then the COO constructor *)
  Lemma sparse_branch args sh nd fill :
    Forall (op_ok V) args -> np_broadcast_rel (map (op_shape V) args) sh -> shape_ok sh ->
    np_broadcast_rel (nd_shapes V args) nd -> BT nd sh ->
    (forall q0, in_range nd q0 -> fill_at V vzero f args q0 = fill) ->
    exists pieces,
      mapM (func_coords_data V veqb vzero f srt args sh fill) (filter (existsb is_true) (masks V args)) = Ok pieces /\
      let es := concat (map (fun o => match o with Some l => l | None => [] end) pieces) in
      exists r, result_ctor V sh es fill = Some r /\
        c_shape r = sh /\ c_fill r = fill /\ canonical V r /\ prunedb veqb r = true /\
        forall q, in_range sh q -> den r q = F args q.
  Proof.
    intros Hok Hrel Hshok Hreln HBn Hfill.
    set (ml := filter (existsb is_true) (masks V args)).
    assert (Hml : forall m, In m ml <-> In m (masks V args) /\ existsb is_true m = true)
      by (intros m; unfold ml; apply filter_In).
    set (P := fun m => piece_of V (match func_coords_data V veqb vzero f srt args sh fill m with Ok o => o | Raise _ => None end)).
    assert (HP : forall m, In m ml ->
               NoDup (map fst (P m)) /\
               forall q v, In (q, v) (P m) <->
                 in_range sh q /\ (forall c, In c (sparse_of V args m true) -> stored c q) /\
                 (forall c, In c (sparse_of V args m false) -> ~ stored c q) /\
                 v = F args q /\ veqb v fill = false).
    { intros m Hm. apply Hml in Hm. destruct Hm as [Hm Hany].
      destruct (piece_spec V veqb vzero srt srt_ok f args sh fill m Hok Hrel Hshok Hm Hany) as [o [E [Hnd Hin]]].
      unfold P. rewrite E. auto. }
    rewrite (mapM_Ok _ None).
    2:{ intros m Hm. apply Hml in Hm. destruct Hm as [Hm Hany].
        destruct (piece_spec V veqb vzero srt srt_ok f args sh fill m Hok Hrel Hshok Hm Hany) as [o [E _]]. eauto. }
    eexists. split; [reflexivity|]. cbv zeta. rewrite map_map. fold (piece_of V). 
    change (map (fun x => piece_of V (match func_coords_data V veqb vzero f srt args sh fill x with Ok y => y | Raise _ => None end)) ml)
      with (map P ml).
    set (es := concat (map P ml)).
    assert (Ein : forall q v, In (q, v) es <-> exists m, In m ml /\ In (q, v) (P m)).
    { intros q v. unfold es. rewrite in_concat. split.
      - intros [l [Hl Hin]]. apply in_map_iff in Hl. destruct Hl as [m [<- Hm]]. eauto.
      - intros [m [Hm Hin]]. exists (P m). split; [apply in_map; exact Hm|exact Hin]. }
    assert (End : NoDup (map fst es)).
    { unfold es. apply NoDup_concat_pieces.
      - unfold ml. apply NoDup_filter. apply masks_NoDup.
      - intros m Hm. apply (HP m Hm).
      - intros m m' q Hm Hm' Hq Hq'. apply in_map_iff in Hq. apply in_map_iff in Hq'.
        destruct Hq as [[k v] [E Hin]]. destruct Hq' as [[k' v'] [E' Hin']]. simpl in E, E'. subst k k'.
        apply (HP m Hm) in Hin. apply (HP m' Hm') in Hin'.
        destruct Hin as [_ [A1 [A2 _]]]. destruct Hin' as [_ [B1 [B2 _]]].
        apply Hml in Hm. apply Hml in Hm'.
        rewrite (mask_unique args m q (proj1 Hm) A1 A2), (mask_unique args m' q (proj1 Hm') B1 B2). reflexivity. }
    assert (Erange : forall q v, In (q, v) es -> in_range sh q /\ veqb v fill = false).
    { intros q v Hin. apply Ein in Hin. destruct Hin as [m [Hm Hin]]. apply (HP m Hm) in Hin. tauto. }
    unfold result_ctor. simpl.
    set (s := sort_coo V sh es). pose proof (sort_coo_perm V sh es) as Hp. fold s in Hp.
    eexists. split; [reflexivity|]. simpl. split; [reflexivity|]. split; [reflexivity|]. split; [|split].
    - unfold canonical. simpl. split; [|split].
      + apply Forall_forall. intros q Hq. apply in_map_iff in Hq. destruct Hq as [[k v] [<- Hin]].
        eapply Permutation_in in Hin; [|exact Hp]. apply (Erange k v Hin).
      + apply sort_coo_canonical; [|exact End]. apply Forall_forall. intros [q v] Hin. apply (Erange q v Hin).
      + rewrite !map_length. reflexivity.
    - unfold prunedb. simpl. apply forallb_forall. intros v Hv. apply in_map_iff in Hv.
      destruct Hv as [[q w] [<- Hq]]. simpl. eapply Permutation_in in Hq; [|exact Hp].
      apply Erange in Hq. destruct Hq as [_ Hq]. rewrite Hq. reflexivity.
    - intros q Hq. destruct (den_sorted_entries V sh es fill q End) as [Hin Hout]. fold s in Hin, Hout.
      destruct (existsb is_true (mask_of args q)) eqn:Hany.
      + assert (Hm0 : In (mask_of args q) ml) by (apply Hml; split; [apply mask_of_In|exact Hany]).
        destruct (veqb (F args q) fill) eqn:Ev.
        * apply veqb_eq in Ev. rewrite Ev. apply Hout. intros Hk. apply in_map_iff in Hk.
          destruct Hk as [[k v] [E Hk]]. simpl in E. subst k. apply Ein in Hk. destruct Hk as [m [Hm Hk]].
          apply (HP m Hm) in Hk. destruct Hk as [_ [_ [_ [Hv Hf]]]]. subst v.
          rewrite Ev in Hf. assert (veqb fill fill = true) by (apply veqb_eq; reflexivity). congruence.
        * apply Hin. apply Ein. exists (mask_of args q). split; [exact Hm0|]. apply (HP _ Hm0).
          split; [exact Hq|]. split; [|split; [|auto]].
          -- intros c Hc. apply storedb_spec. eapply mask_of_sparse; eauto.
          -- intros c Hc Hs. apply storedb_spec in Hs. rewrite (mask_of_sparse args q false c Hc) in Hs. discriminate.
      + assert (Hnone : forall c, In (OSp c) args -> ~ stored c q).
        { intros c Hc Hs. assert (existsb is_true (mask_of args q) = true); [|congruence].
          apply mask_of_any. eauto. }
        rewrite (F_unstored args sh nd q Hnone); [| |exact HBn|exact Hq].
        * rewrite Hfill by (eapply bcast_in_range; eauto). apply Hout. intros Hk. apply in_map_iff in Hk.
          destruct Hk as [[k v] [E Hk]]. simpl in E. subst k. apply Ein in Hk. destruct Hk as [m [Hm Hk]].
          apply (HP m Hm) in Hk. destruct Hk as [_ [Hst _]]. apply Hml in Hm. destruct Hm as [Hm Hany'].
          pose proof (masks_any_true V args m Hm Hany') as Hne.
          destruct (sparse_of V args m true) as [|c0 rest] eqn:Es; [congruence|].
          apply (Hnone c0); [|apply Hst; left; reflexivity].
          eapply sparse_of_In. rewrite Es. left. reflexivity.
        * intros d Hd. apply (rel_BT _ _ _ Hreln). apply nd_shapes_In. exact Hd.
  Qed.

  (* what get_result returns, case by case *)
  Definition elemwise_post (args0 : list (operand V)) (out : outcome V) : Prop :=
    let args := map (preprocess V) args0 in
    match out with
    | OutErr e =>
      e = ValueError /\
      ((~ exists sh, np_broadcast_rel (map (op_shape V) args0) sh) \/
       (exists sh nd, np_broadcast_rel (map (op_shape V) args0) sh /\ np_broadcast_rel (nd_shapes V args) nd /\
                      ~ constant_fill args nd /\ sh <> nd))
    | OutDense d =>
      exists sh, np_broadcast_rel (map (op_shape V) args0) sh /\ np_broadcast_rel (nd_shapes V args) sh /\
                 ~ constant_fill args sh /\ d = mkDense sh (map (F args0) (all_indices sh))
    | OutSparse r =>
      exists sh nd, np_broadcast_rel (map (op_shape V) args0) sh /\ np_broadcast_rel (nd_shapes V args) nd /\
                    constant_fill args nd /\
                    c_shape r = sh /\ (forall q0, in_range nd q0 -> c_fill r = fill_at V vzero f args q0) /\
                    canonical V r /\ prunedb veqb r = true /\
                    forall q, in_range sh q -> den r q = F args0 q
    end.

  Theorem elemwise_sc_den_proof (args0 : list (operand V)) :
    Forall (op_ok V) args0 -> existsb (is_sparse V) args0 = true ->
    elemwise_post args0 (elemwise_sc V veqb vzero f scal srt args0).
  Proof.
    intros Hok0 Hsp. unfold elemwise_sc. rewrite Hsp. cbn [negb]. set (args := map (preprocess V) args0).
    assert (Hshapes : map (op_shape V) args = map (op_shape V) args0).
    { unfold args. rewrite map_map. apply map_ext. intros a. apply preprocess_shape. }
    assert (Hok : Forall (op_ok V) args).
    { unfold args. apply Forall_forall. intros a Ha. apply in_map_iff in Ha. destruct Ha as [a0 [<- Ha0]].
      apply preprocess_ok. rewrite Forall_forall in Hok0. auto. }
    fold (nd_shapes V args). pose proof (nary_sound (map (op_shape V) args)) as Hs.
    destruct (nary_broadcast_shape (map (op_shape V) args)) as [sh|e].
    - destruct (nary_sub _ _ (nd_shapes V args) Hs (nd_shapes_incl V args)) as [nd [En [Hreln HBn]]].
      rewrite En.
      assert (Hshok : shape_ok sh).
      { eapply rel_shape_ok; [|exact Hs].
        apply Forall_forall. intros s0 Hs0. apply in_map_iff in Hs0. destruct Hs0 as [a [<- Ha]].
        rewrite Forall_forall in Hok. specialize (Hok a Ha). destruct a; simpl in *; tauto. }
      pose proof (get_fill_value_spec args sh nd) as Hg.
      destruct (get_fill_value V veqb vzero f scal args sh nd) as [fill| |].
      + assert (Hcf : constant_fill args nd) by (exists fill; exact Hg).
        destruct (existsb (Z.eqb 0) sh) eqn:Ez.
        * unfold elemwise_post. fold args. exists sh, nd. rewrite <- Hshapes.
          split; [exact Hs|]. split; [exact Hreln|]. split; [exact Hcf|]. split; [reflexivity|].
          split; [intros q0 Hq0; simpl; symmetry; apply Hg; exact Hq0|].
          split; [unfold canonical; simpl; repeat split; constructor|]. split; [reflexivity|].
          intros q Hq. apply in_range_no_zero in Hq. congruence.
        * destruct (sparse_branch args sh nd fill Hok Hs Hshok Hreln HBn Hg) as [pieces [Ep [r [Er [R1 [R2 [R3 [R4 R5]]]]]]]].
          rewrite Ep, Er. unfold elemwise_post. fold args. exists sh, nd. rewrite <- Hshapes.
          split; [exact Hs|]. split; [exact Hreln|]. split; [exact Hcf|]. split; [exact R1|].
          split; [intros q0 Hq0; rewrite R2; symmetry; apply Hg; exact Hq0|].
          split; [exact R3|]. split; [exact R4|].
          intros q Hq. rewrite R5 by exact Hq. apply preprocess_F.
      + destruct Hg as [Hnc ->]. unfold elemwise_post. fold args. exists nd. rewrite <- Hshapes.
        split; [exact Hs|]. split; [exact Hreln|]. split; [exact Hnc|].
        f_equal. apply map_ext. intros q. rewrite <- preprocess_F. reflexivity.
      + destruct Hg as [Hnc Hne]. unfold elemwise_post. fold args. split; [reflexivity|]. right.
        exists sh, nd. rewrite <- Hshapes. auto.
    - destruct Hs as [-> Hn]. unfold elemwise_post. split; [reflexivity|]. left. intros [sh Hsh].
      apply Hn. rewrite Hshapes. eapply rel_compat; eauto.
  Qed.
End Final.

(* the same for [elemwise] (no Python scalar among the operands) *)
Theorem elemwise_den_proof (V : Type) (veqb : V -> V -> bool) (vzero : V) (srt : list Z -> list nat)
        (srt_ok : is_argsort srt) (f : list V -> V) (veqb_eq : forall a b, veqb a b = true <-> a = b)
        (args0 : list (operand V)) :
  Forall (op_ok V) args0 -> existsb (is_sparse V) args0 = true ->
  elemwise_post V veqb vzero f args0 (elemwise V veqb vzero f srt args0).
Proof. exact (elemwise_sc_den_proof V veqb vzero (fun _ => false) srt srt_ok f veqb_eq args0). Qed.

(* ================================================================== compositions ("programs") *)

Section Programs.
  Variable V : Type.
  Variable veqb : V -> V -> bool.
  Variable vzero : V.
  Variable srt : list Z -> list nat.
  Hypothesis srt_ok : is_argsort srt.
  Hypothesis veqb_eq : forall a b, veqb a b = true <-> a = b.

  (* expression trees over sparse arrays and scalars; every node carries its own function *)
  Inductive expr :=
  | ELeaf (c : coo V)
  | EConst (v : V)
  | EOp1 (g : list V -> V) (e1 : expr)
  | EOp2 (g : list V -> V) (e1 e2 : expr)
  | EOp3 (g : list V -> V) (e1 e2 e3 : expr).

  Definition scalar (v : V) : operand V := ODn (mkDense [] [v]).

  (* one step as the library performs it: through _Elemwise when an operand is sparse, plain scalar
     arithmetic otherwise; ValueError / dense results abort the program *)
  Definition apply_op (g : list V -> V) (args : list (operand V)) : option (operand V) :=
    if existsb (is_sparse V) args then
      match elemwise V veqb vzero g srt args with
      | OutSparse r => Some (OSp r)
      | _ => None
      end
    else Some (scalar (g (map (fun a => operand_at V vzero a []) args))).

  Fixpoint eval (e : expr) : option (operand V) :=
    match e with
    | ELeaf c => Some (OSp c)
    | EConst v => Some (scalar v)
    | EOp1 g e1 => match eval e1 with Some a1 => apply_op g [a1] | None => None end
    | EOp2 g e1 e2 =>
      match eval e1, eval e2 with Some a1, Some a2 => apply_op g [a1; a2] | _, _ => None end
    | EOp3 g e1 e2 e3 =>
      match eval e1, eval e2, eval e3 with Some a1, Some a2, Some a3 => apply_op g [a1; a2; a3] | _, _, _ => None end
    end.

  (* NumPy's evaluation of the same program on dense arrays: shape and value function *)
  Inductive dense_eval : expr -> shape -> (idx -> V) -> Prop :=
  | DE_leaf c : dense_eval (ELeaf c) (c_shape c) (den c)
  | DE_const v : dense_eval (EConst v) [] (fun _ => v)
  | DE_op1 g e1 s1 d1 sh :
      dense_eval e1 s1 d1 -> np_broadcast_rel [s1] sh ->
      dense_eval (EOp1 g e1) sh (fun q => g [d1 (bcast_idx s1 q)])
  | DE_op2 g e1 e2 s1 d1 s2 d2 sh :
      dense_eval e1 s1 d1 -> dense_eval e2 s2 d2 -> np_broadcast_rel [s1; s2] sh ->
      dense_eval (EOp2 g e1 e2) sh (fun q => g [d1 (bcast_idx s1 q); d2 (bcast_idx s2 q)])
  | DE_op3 g e1 e2 e3 s1 d1 s2 d2 s3 d3 sh :
      dense_eval e1 s1 d1 -> dense_eval e2 s2 d2 -> dense_eval e3 s3 d3 -> np_broadcast_rel [s1; s2; s3] sh ->
      dense_eval (EOp3 g e1 e2 e3) sh
                 (fun q => g [d1 (bcast_idx s1 q); d2 (bcast_idx s2 q); d3 (bcast_idx s3 q)]).

  Fixpoint wf_expr (e : expr) : Prop :=
    match e with
    | ELeaf c => canonical V c /\ shape_ok (c_shape c)
    | EConst _ => True
    | EOp1 _ e1 => wf_expr e1
    | EOp2 _ e1 e2 => wf_expr e1 /\ wf_expr e2
    | EOp3 _ e1 e2 e3 => wf_expr e1 /\ wf_expr e2 /\ wf_expr e3
    end.

  (* an intermediate value: a canonical sparse array or a scalar *)
  Definition val_ok (a : operand V) : Prop :=
    match a with
    | OSp c => canonical V c /\ shape_ok (c_shape c)
    | ODn d => d_shape d = [] /\ exists v, d_flat d = [v]
    end.

  Lemma val_ok_op_ok a : val_ok a -> op_ok V a.
  Proof. destruct a; simpl; [auto|]. intros [-> _]. constructor. Qed.

  Lemma bcast_idx_nil q : bcast_idx [] q = [].
  Proof. reflexivity. Qed.

  Lemma operand_at_idem a q sh :
    val_ok a -> BT (op_shape V a) sh -> in_range sh q ->
    operand_at V vzero a q = operand_at V vzero a (bcast_idx (op_shape V a) q).
  Proof.
    intros Hok HB Hq. destruct a as [c|d]; simpl in *.
    - rewrite (bcast_idx_id (c_shape c) (bcast_idx (c_shape c) q)); [reflexivity|]. eapply bcast_in_range; eauto.
    - destruct Hok as [E _]. rewrite E. rewrite !bcast_idx_nil. reflexivity.
  Qed.

  Lemma scalars_nd args : Forall val_ok args -> forall s, In s (nd_shapes V (map (preprocess V) args)) -> s = [].
  Proof.
    induction 1 as [|a ar Ha Har IH]; simpl; [tauto|]. intros s Hs.
    destruct a as [c|d]; simpl in *.
    - destruct (c_shape c); simpl in Hs; [destruct Hs as [<-|Hs]; auto|auto].
    - destruct Hs as [<-|Hs]; [tauto|auto].
  Qed.

  Lemma rel_all_nil l r : (forall s, In s l -> s = []) -> np_broadcast_rel l r -> r = [].
  Proof.
    intros Hl [L _]. assert (max_ndim l = 0%nat).
    { clear -Hl. induction l as [|s l IH]; simpl; [reflexivity|]. rewrite (Hl s) by (left; reflexivity). simpl.
      apply IH. intros; apply Hl; right; assumption. }
    destruct r; [reflexivity|simpl in L; lia].
  Qed.

  (* one step agrees with NumPy *)
  Lemma apply_op_spec g args sh :
    Forall val_ok args -> args <> [] -> np_broadcast_rel (map (op_shape V) args) sh ->
    exists a, apply_op g args = Some a /\ op_shape V a = sh /\ val_ok a /\
              forall q, in_range sh q -> operand_at V vzero a q = g (map (fun x => operand_at V vzero x q) args).
  Proof.
    intros Hok Hne Hrel. unfold apply_op. destruct (existsb (is_sparse V) args) eqn:Hsp.
    - assert (Hok' : Forall (op_ok V) args) by (eapply Forall_impl; [|exact Hok]; apply val_ok_op_ok).
      pose proof (elemwise_den_proof V veqb vzero srt srt_ok g veqb_eq args Hok' Hsp) as Hpost.
      destruct (elemwise V veqb vzero g srt args) as [r|d|e]; unfold elemwise_post in Hpost.
      + destruct Hpost as [sh' [nd [R1 [R2 [_ [P1 [_ [P3 [_ P5]]]]]]]]].
        assert (Esh : sh' = sh) by (eapply rel_unique; eauto). rewrite Esh in *. clear Esh.
        exists (OSp r). split; [reflexivity|]. split; [exact P1|]. split.
        * split; [exact P3|]. rewrite P1. eapply rel_shape_ok; [|exact Hrel].
          apply Forall_forall. intros s Hs. apply in_map_iff in Hs. destruct Hs as [a [<- Ha]].
          rewrite Forall_forall in Hok'. specialize (Hok' a Ha). destruct a; simpl in *; tauto.
        * intros q Hq. simpl. rewrite P1, (bcast_idx_id sh q Hq). apply P5. exact Hq.
      + exfalso. destruct Hpost as [sh' [_ [R2 [Hnc _]]]].
        assert (sh' = []) by (eapply rel_all_nil; [apply scalars_nd; exact Hok|exact R2]). subst sh'.
        apply Hnc. exists (fill_at V vzero g (map (preprocess V) args) []). intros q0 Hq0.
        destruct q0; [reflexivity|simpl in Hq0; tauto].
      + exfalso. destruct Hpost as [_ [Hno|[sh' [nd [_ [R2 [Hnc _]]]]]]]; [apply Hno; eauto|].
        assert (nd = []) by (eapply rel_all_nil; [apply scalars_nd; exact Hok|exact R2]). subst nd.
        apply Hnc. exists (fill_at V vzero g (map (preprocess V) args) []). intros q0 Hq0.
        destruct q0; [reflexivity|simpl in Hq0; tauto].
    - (* only scalars *)
      assert (Hall : forall a, In a args -> op_shape V a = []).
      { intros a Ha. rewrite Forall_forall in Hok. specialize (Hok a Ha). destruct a as [c|d]; simpl in *; [|tauto].
        exfalso. assert (existsb (is_sparse V) args = true); [|congruence].
        apply existsb_exists. exists (OSp c). auto. }
      assert (sh = []).
      { eapply rel_all_nil; [|exact Hrel]. intros s Hs. apply in_map_iff in Hs. destruct Hs as [a [<- Ha]]. auto. }
      subst sh. eexists. split; [reflexivity|]. split; [reflexivity|]. split; [simpl; eauto|].
      intros q Hq. destruct q; [|simpl in Hq; tauto]. reflexivity.
  Qed.

  Lemma operand_at_leaf_or_val a sh d q :
    val_ok a -> BT (op_shape V a) sh -> in_range sh q ->
    (forall q', in_range (op_shape V a) q' -> operand_at V vzero a q' = d q') ->
    operand_at V vzero a q = d (bcast_idx (op_shape V a) q).
  Proof.
    intros Hok HB Hq Hd. rewrite (operand_at_idem a q sh Hok HB Hq). apply Hd. eapply bcast_in_range; eauto.
  Qed.

  Theorem programs_proof (e : expr) : wf_expr e -> forall sh d, dense_eval e sh d ->
    exists a, eval e = Some a /\ op_shape V a = sh /\ val_ok a /\
              forall q, in_range sh q -> operand_at V vzero a q = d q.
  Proof.
    induction e as [c|v|g e1 IH1|g e1 IH1 e2 IH2|g e1 IH1 e2 IH2 e3 IH3]; intros Hwf sh d Hd; simpl in Hwf.
    - inversion Hd; subst. exists (OSp c). split; [reflexivity|]. split; [reflexivity|]. split; [exact Hwf|].
      intros q Hq. simpl. rewrite bcast_idx_id by exact Hq. reflexivity.
    - inversion Hd; subst. exists (scalar v). split; [reflexivity|]. split; [reflexivity|]. split; [simpl; eauto|].
      intros q Hq. reflexivity.
    - inversion Hd as [ | |g' e1' s1 d1 sh' He1 Hr| | ]; subst.
      destruct (IH1 Hwf _ _ He1) as [a1 [E1 [S1 [O1 D1]]]]. simpl. rewrite E1.
      assert (Hrel : np_broadcast_rel (map (op_shape V) [a1]) sh) by (simpl; rewrite S1; assumption).
      destruct (apply_op_spec g [a1] sh) as [a [Ea [Sa [Oa Da]]]]; auto; [discriminate|].
      exists a. repeat split; auto. intros q Hq. rewrite (Da q Hq). simpl. f_equal. f_equal.
      rewrite <- S1. apply (operand_at_leaf_or_val a1 sh); auto; [|rewrite S1; exact D1].
      apply (rel_BT _ _ _ Hrel). left. reflexivity.
    - inversion Hd as [ | | |g' e1' e2' s1 d1 s2 d2 sh' He1 He2 Hr| ]; subst. destruct Hwf as [W1 W2].
      destruct (IH1 W1 _ _ He1) as [a1 [E1 [S1 [O1 D1]]]]. destruct (IH2 W2 _ _ He2) as [a2 [E2 [S2 [O2 D2]]]].
      simpl. rewrite E1, E2.
      assert (Hrel : np_broadcast_rel (map (op_shape V) [a1; a2]) sh) by (simpl; rewrite S1, S2; assumption).
      destruct (apply_op_spec g [a1; a2] sh) as [a [Ea [Sa [Oa Da]]]]; auto; [discriminate|].
      exists a. repeat split; auto. intros q Hq. rewrite (Da q Hq). simpl. f_equal.
      rewrite <- S1, <- S2. f_equal; [|f_equal].
      + apply (operand_at_leaf_or_val a1 sh); auto; [|rewrite S1; exact D1]. apply (rel_BT _ _ _ Hrel). simpl; auto.
      + apply (operand_at_leaf_or_val a2 sh); auto; [|rewrite S2; exact D2]. apply (rel_BT _ _ _ Hrel). simpl; auto.
    - inversion Hd as [ | | | |g' e1' e2' e3' s1 d1 s2 d2 s3 d3 sh' He1 He2 He3 Hr]; subst. destruct Hwf as [W1 [W2 W3]].
      destruct (IH1 W1 _ _ He1) as [a1 [E1 [S1 [O1 D1]]]]. destruct (IH2 W2 _ _ He2) as [a2 [E2 [S2 [O2 D2]]]].
      destruct (IH3 W3 _ _ He3) as [a3 [E3 [S3 [O3 D3]]]].
      simpl. rewrite E1, E2, E3.
      assert (Hrel : np_broadcast_rel (map (op_shape V) [a1; a2; a3]) sh) by (simpl; rewrite S1, S2, S3; assumption).
      destruct (apply_op_spec g [a1; a2; a3] sh) as [a [Ea [Sa [Oa Da]]]]; auto; [discriminate|].
      exists a. repeat split; auto. intros q Hq. rewrite (Da q Hq). simpl. f_equal.
      rewrite <- S1, <- S2, <- S3. f_equal; [|f_equal; [|f_equal]].
      + apply (operand_at_leaf_or_val a1 sh); auto; [|rewrite S1; exact D1]. apply (rel_BT _ _ _ Hrel). simpl; auto.
      + apply (operand_at_leaf_or_val a2 sh); auto; [|rewrite S2; exact D2]. apply (rel_BT _ _ _ Hrel). simpl; auto.
      + apply (operand_at_leaf_or_val a3 sh); auto; [|rewrite S3; exact D3]. apply (rel_BT _ _ _ Hrel). simpl; auto.
  Qed.
End Programs.

(* ================================================================== the mask partition, stated on its own *)

Theorem mask_partition_proof (V : Type) (veqb : V -> V -> bool) (vzero : V) (f : list V -> V)
        (srt : list Z -> list nat) (srt_ok : is_argsort srt) (args : list (operand V)) (sh : shape) (fill : V) :
  Forall (op_ok V) args -> np_broadcast_rel (map (op_shape V) args) sh -> shape_ok sh ->
  forall m, In m (masks V args) -> existsb is_true m = true ->
  exists o, func_coords_data V veqb vzero f srt args sh fill m = Ok o /\
    NoDup (map fst (piece_of V o)) /\
    forall q v, In (q, v) (piece_of V o) <->
      (in_range sh q /\ m = mask_of V args q /\ v = F V vzero f args q /\ veqb v fill = false).
Proof.
  intros Hok Hrel Hshok m Hm Hany.
  destruct (piece_spec V veqb vzero srt srt_ok f args sh fill m Hok Hrel Hshok Hm Hany) as [o [E [Hnd Hin]]].
  exists o. split; [exact E|]. split; [exact Hnd|]. intros q v. rewrite Hin. split.
  - intros [Hq [H1 [H2 [Hv Hf]]]]. repeat split; auto. apply mask_unique; assumption.
  - intros [Hq [Em [Hv Hf]]]. subst m. repeat split; auto.
    + intros c Hc. apply storedb_spec. eapply mask_of_sparse; eauto.
    + intros c Hc Hs. apply storedb_spec in Hs. rewrite (mask_of_sparse V args q false c Hc) in Hs. discriminate.
Qed.

(* ================================================================== non-vacuity *)

Definition ex_add (l : list Z) : Z := fold_right Z.add 0 l.
Definition ex_mul (l : list Z) : Z := fold_right Z.mul 1 l.
Definition ex_x : coo Z := mkCOO [3] [[0]; [2]] [5; 7] 0.
Definition ex_y : coo Z := mkCOO [2; 1] [[1; 0]] [4] 1.

Lemma ex_ok (c : coo Z) : canonicalb c = true -> forallb (fun d => 0 <=? d) (c_shape c) = true -> op_ok Z (OSp c).
Proof.
  intros H1 H2. split; [apply canonicalb_spec; exact H1|]. apply Forall_forall. intros d Hd.
  rewrite forallb_forall in H2. apply Z.leb_le. apply H2. exact Hd.
Qed.

Example elemwise_den_nonvacuous :
  Forall (op_ok Z) [OSp ex_x; OSp ex_y; ODn (mkDense [] [2])] /\
  existsb (is_sparse Z) [OSp ex_x; OSp ex_y; ODn (mkDense [] [2])] = true /\
  elemwise Z Z.eqb 0 ex_add argsort [OSp ex_x; OSp ex_y; ODn (mkDense [] [2])] =
  OutSparse (mkCOO [2; 3] [[0; 0]; [0; 2]; [1; 0]; [1; 1]; [1; 2]] [8; 10; 11; 6; 13] 3).
Proof.
  split; [|split; reflexivity].
  constructor; [apply ex_ok; reflexivity|]. constructor; [apply ex_ok; reflexivity|].
  constructor; [constructor|constructor].
Qed.

Example elemwise2_den_nonvacuous :
  canonical Z ex_x /\ canonical Z (mkCOO [3] [[1]; [2]] [1; -7] 0) /\
  elemwise2 Z Z.eqb 0 ex_add ex_x (mkCOO [3] [[1]; [2]] [1; -7] 0) = mkCOO [3] [[0]; [1]] [5; 1] 0.
Proof. repeat split; try (apply canonicalb_spec; reflexivity). Qed.

Example programs_nonvacuous :
  let e := EOp2 Z ex_add (EOp2 Z ex_mul (ELeaf Z ex_x) (EConst Z 2)) (ELeaf Z ex_y) in
  wf_expr Z e /\
  dense_eval Z e [2; 3] (fun q => ex_add [ex_mul [den ex_x (bcast_idx [3] (bcast_idx [3] q)); 2]; den ex_y (bcast_idx [2; 1] q)]) /\
  eval Z Z.eqb 0 argsort e = Some (OSp (mkCOO [2; 3] [[0; 0]; [0; 2]; [1; 0]; [1; 1]; [1; 2]] [11; 15; 14; 4; 18] 1)).
Proof.
  cbv zeta. split; [|split; [|reflexivity]].
  - simpl. repeat split; try (apply canonicalb_spec; reflexivity); repeat constructor; lia.
  - apply (DE_op2 Z ex_add _ _ [3] (fun q => ex_mul [den ex_x (bcast_idx [3] q); 2]) [2; 1] (den ex_y)).
    + apply (DE_op2 Z ex_mul (ELeaf Z ex_x) (EConst Z 2) [3] (den ex_x) [] (fun _ => 2)).
      * apply (DE_leaf Z ex_x).
      * apply DE_const.
      * apply (proj1 (broadcast_shape_spec_proof _)). reflexivity.
    + apply (DE_leaf Z ex_y).
    + apply (proj1 (broadcast_shape_spec_proof _)). reflexivity.
Qed.

Example mask_partition_nonvacuous :
  Forall (op_ok Z) [OSp ex_x; OSp ex_y] /\ np_broadcast_rel (map (op_shape Z) [OSp ex_x; OSp ex_y]) [2; 3] /\
  shape_ok [2; 3] /\ In [Some true; Some false] (masks Z [OSp ex_x; OSp ex_y]) /\
  func_coords_data Z Z.eqb 0 ex_add argsort [OSp ex_x; OSp ex_y] [2; 3] 1 [Some true; Some false] =
  Ok (Some [([0; 0], 6); ([0; 2], 8)]).
Proof.
  split; [constructor; [apply ex_ok; reflexivity|constructor; [apply ex_ok; reflexivity|constructor]]|].
  split; [apply (proj1 (broadcast_shape_spec_proof _)); reflexivity|].
  split; [repeat constructor; lia|]. split; [simpl; auto|]. reflexivity.
Qed.

(* ================================================================== astype returns a fresh object unless copy=False *)

(* numpy.ndarray.astype(dtype, copy=True) always returns a newly allocated array; with copy=False it
   returns the operand itself exactly when nothing has to change.  The early `return self` of
   SparseArray.astype (condition regenerated from the source) has exactly that meaning: in particular a
   later in-place update of the result can never reach the operand when copy is true. *)
Theorem astype_object_spec_proof (self fresh : nat) (same_dtype copy : bool) :
  astype_object self fresh same_dtype copy = if same_dtype && negb copy then self else fresh.
Proof. destruct same_dtype, copy; reflexivity. Qed.

Theorem astype_copy_fresh_proof (self fresh : nat) (same_dtype : bool) :
  fresh <> self -> astype_object self fresh same_dtype s_astype_copy_default <> self /\
                   astype_object self fresh same_dtype true <> self.
Proof. intros H. rewrite !astype_object_spec_proof. simpl. rewrite andb_false_r. auto. Qed.

Example astype_copy_fresh_nonvacuous :
  astype_object 1 2 true true = 2%nat /\ astype_object 1 2 true false = 1%nat /\ astype_object 1 2 false false = 2%nat.
Proof. repeat split. Qed.

(* ================================================================== the tie order of np.argsort is unobservable;
   the written-out same-shape binary model is an instance of the general one *)

Section Irrelevance.
  Variable V : Type.
  Variable veqb : V -> V -> bool.
  Variable vzero : V.
  Variable scal : nat -> bool.
  Variable f : list V -> V.
  Hypothesis veqb_eq : forall a b, veqb a b = true <-> a = b.

  Theorem elemwise_sort_irrelevant_proof (s1 s2 : list Z -> list nat) (args0 : list (operand V)) :
    is_argsort s1 -> is_argsort s2 -> Forall (op_ok V) args0 ->
    elemwise_sc V veqb vzero f scal s1 args0 = elemwise_sc V veqb vzero f scal s2 args0.
  Proof.
    intros O1 O2 Hok0. unfold elemwise_sc. destruct (negb (existsb (is_sparse V) args0)); [reflexivity|].
    set (args := map (preprocess V) args0).
    assert (Hok : Forall (op_ok V) args).
    { unfold args. apply Forall_forall. intros a Ha. apply in_map_iff in Ha. destruct Ha as [a0 [<- Ha0]].
      apply preprocess_ok. rewrite Forall_forall in Hok0. auto. }
    fold (nd_shapes V args). pose proof (nary_sound (map (op_shape V) args)) as Hs.
    destruct (nary_broadcast_shape (map (op_shape V) args)) as [sh|e]; [|reflexivity].
    destruct (nary_sub _ _ (nd_shapes V args) Hs (nd_shapes_incl V args)) as [nd [En [Hreln HBn]]].
    rewrite En.
    assert (Hshok : shape_ok sh).
    { eapply rel_shape_ok; [|exact Hs].
      apply Forall_forall. intros s0 Hs0. apply in_map_iff in Hs0. destruct Hs0 as [a [<- Ha]].
      rewrite Forall_forall in Hok. specialize (Hok a Ha). destruct a; simpl in *; tauto. }
    pose proof (get_fill_value_spec V veqb vzero scal f veqb_eq args sh nd) as Hg.
    destruct (get_fill_value V veqb vzero f scal args sh nd) as [fill| |]; try reflexivity.
    destruct (existsb (Z.eqb 0) sh); [reflexivity|].
    destruct (sparse_branch V veqb vzero s1 O1 f veqb_eq args sh nd fill Hok Hs Hshok Hreln HBn Hg)
      as [p1 [E1 [r1 [C1 [A1 [A2 [A3 [A4 A5]]]]]]]].
    destruct (sparse_branch V veqb vzero s2 O2 f veqb_eq args sh nd fill Hok Hs Hshok Hreln HBn Hg)
      as [p2 [E2 [r2 [C2 [B1 [B2 [B3 [B4 B5]]]]]]]].
    rewrite E1, E2, C1, C2. f_equal.
    apply (canonical_unique V veqb veqb_eq); auto; try congruence.
    intros ix Hix. rewrite A1 in Hix. rewrite A5, B5 by exact Hix. reflexivity.
  Qed.

  Lemma rel_pair_same s : np_broadcast_rel [s; s] s.
  Proof.
    split; [simpl; lia|]. split.
    - intros s0 k [<-|[<-|[]]]; auto.
    - intros k Hk. exists s. simpl. auto.
  Qed.

  (* (1) for same-shape operands of at least one axis the general model computes exactly elemwise2 *)
  Theorem elemwise2_is_elemwise_proof (srt : list Z -> list nat) (a b : coo V) :
    is_argsort srt -> canonical V a -> canonical V b -> shape_ok (c_shape a) ->
    c_shape a = c_shape b -> c_shape a <> [] ->
    elemwise_sc V veqb vzero f scal srt [OSp a; OSp b] = OutSparse (elemwise2 V veqb vzero f a b).
  Proof.
    intros Osrt Ha Hb Hoka Hsh Hne.
    assert (Hok : Forall (op_ok V) [OSp a; OSp b]).
    { constructor; [split; assumption|]. constructor; [split; [assumption|rewrite <- Hsh; assumption]|constructor]. }
    pose proof (elemwise_sc_den_proof V veqb vzero scal srt Osrt f veqb_eq [OSp a; OSp b] Hok eq_refl) as Hpost.
    assert (Hpre : map (preprocess V) [OSp a; OSp b] = [OSp a; OSp b]).
    { simpl. rewrite <- Hsh. destruct (c_shape a); [congruence|reflexivity]. }
    assert (Hrel : np_broadcast_rel (map (op_shape V) [OSp a; OSp b]) (c_shape a)).
    { simpl. rewrite <- Hsh. apply rel_pair_same. }
    destruct (elemwise2_den_proof V veqb vzero f veqb_eq a b Ha Hb Hsh) as [E1 [E2 [E3 [E4 E5]]]].
    unfold elemwise_post in Hpost. rewrite Hpre in Hpost. simpl nd_shapes in Hpost.
    destruct (elemwise_sc V veqb vzero f scal srt [OSp a; OSp b]) as [r|d|e].
    - destruct Hpost as [sh [nd [R1 [R2 [_ [P1 [P2 [P3 [P4 P5]]]]]]]]].
      assert (Esh : sh = c_shape a) by (eapply rel_unique; eauto). rewrite Esh in *. clear Esh.
      assert (nd = []) by (destruct R2 as [L _]; destruct nd; [reflexivity|simpl in L; lia]). subst nd.
      f_equal. apply (canonical_unique V veqb veqb_eq); auto; try congruence.
      + rewrite E2. rewrite (P2 [] I). reflexivity.
      + intros ix Hix. rewrite P1 in Hix. rewrite P5, E5 by exact Hix.
        unfold F. simpl. rewrite <- Hsh. rewrite (bcast_idx_id (c_shape a) ix Hix). reflexivity.
    - exfalso. destruct Hpost as [sh [_ [R2 [Hnc _]]]].
      assert (sh = []) by (destruct R2 as [L _]; destruct sh; [reflexivity|simpl in L; lia]). subst sh.
      apply Hnc. exists (fill_at V vzero f [OSp a; OSp b] []). intros q0 Hq0. destruct q0; [reflexivity|simpl in Hq0; tauto].
    - exfalso. destruct Hpost as [_ [Hno|[sh [nd [_ [R2 [Hnc _]]]]]]]; [apply Hno; eauto|].
      assert (nd = []) by (destruct R2 as [L _]; destruct nd; [reflexivity|simpl in L; lia]). subst nd.
      apply Hnc. exists (fill_at V vzero f [OSp a; OSp b] []). intros q0 Hq0. destruct q0; [reflexivity|simpl in Hq0; tauto].
  Qed.
End Irrelevance.
