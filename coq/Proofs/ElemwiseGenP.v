(* Proofs/ElemwiseGenP.v — the general (broadcasting, n-ary) case of Model/Elemwise.v:
   _match_coo as a join on the shared axes, the mask enumeration as a partition of the stored
   positions, elemwise_den, and the composition corollary over expression trees. *)
From Coq Require Import ZArith List Bool Lia Arith Sorting.Sorted Sorting.Permutation.
From Verif Require Import Py PyExt Shape COO COOP NpElemwise G_umath S_umath Elemwise ElemwiseP ElemwiseBcastP.
Import ListNotations.
Open Scope Z_scope.

Arguments bcast_idx : simpl never.
Arguments bcast_params : simpl never.

(* ------------------------------------------------------------------ _rev_idx *)

Lemma rev_idx_all {A} (l : list A) : rev_idx l (length l) = l.
Proof.
  unfold rev_idx. destruct (length l) eqn:E.
  - destruct l; [reflexivity|discriminate].
  - rewrite Nat.sub_diag. reflexivity.
Qed.

Lemma rev_idx_cons {A} (x : A) l n : (n <= length l)%nat -> rev_idx (x :: l) n = rev_idx l n.
Proof.
  intros H. unfold rev_idx. destruct n as [|n]; simpl length.
  - reflexivity.
  - rewrite Nat.sub_succ_l by exact H. reflexivity.
Qed.

Lemma map2_length {A B C} (g : A -> B -> C) l1 l2 : length (map2 g l1 l2) = Nat.min (length l1) (length l2).
Proof. revert l2. induction l1 as [|a l1 IH]; intros [|b l2]; simpl; auto. Qed.

(* ------------------------------------------------------------------ the shared ("reduced") axes of two operands *)

Definition rparams (s1 s2 cur : shape) : list bool :=
  map2 (fun a b => is_true a && is_true b) (bcast_params s1 cur) (bcast_params s2 cur).
Definition msk1 (s1 s2 cur : shape) : list bool := rev_idx (rparams s1 s2 cur) (length s1).
Definition msk2 (s1 s2 cur : shape) : list bool := rev_idx (rparams s1 s2 cur) (length s2).

Lemma BT2_lengths s1 s2 cur : BT2 s1 s2 cur -> (length s1 <= length cur)%nat /\ (length s2 <= length cur)%nat.
Proof. induction 1; simpl; lia. Qed.

Lemma rparams_length s1 s2 cur : BT2 s1 s2 cur -> length (rparams s1 s2 cur) = length cur.
Proof.
  intros H. destruct (BT2_lengths _ _ _ H). unfold rparams. rewrite map2_length, !bcast_params_length by assumption. lia.
Qed.

Lemma is_true_Some b : is_true (Some b) = b.
Proof. destruct b; reflexivity. Qed.

Lemma rparams_both e1 e2 d s1 s2 cur :
  length s1 = length cur -> length s2 = length cur ->
  rparams (e1 :: s1) (e2 :: s2) (d :: cur) = ((e1 =? d) && (e2 =? d)) :: rparams s1 s2 cur.
Proof.
  intros H1 H2. unfold rparams. rewrite !bcast_params_cons by assumption. cbn [map2]. rewrite !is_true_Some. reflexivity.
Qed.

Lemma rparams_left d s1 s2 cur :
  length s1 = length cur -> (length s2 <= length cur)%nat ->
  rparams (d :: s1) s2 (d :: cur) = false :: rparams s1 s2 cur.
Proof.
  intros H1 H2. unfold rparams. rewrite bcast_params_cons, bcast_params_skip by assumption. cbn [map2].
  rewrite andb_false_r. reflexivity.
Qed.

Lemma rparams_right d s1 s2 cur :
  (length s1 <= length cur)%nat -> length s2 = length cur ->
  rparams s1 (d :: s2) (d :: cur) = false :: rparams s1 s2 cur.
Proof. intros H1 H2. unfold rparams. rewrite bcast_params_cons, bcast_params_skip by assumption. reflexivity. Qed.

Lemma rev_idx_len {A} (l : list A) n : n = length l -> rev_idx l n = l.
Proof. intros ->. apply rev_idx_all. Qed.

Lemma msk_both e1 e2 d s1 s2 cur :
  length s1 = length cur -> length s2 = length cur -> BT2 s1 s2 cur ->
  msk1 (e1 :: s1) (e2 :: s2) (d :: cur) = ((e1 =? d) && (e2 =? d)) :: msk1 s1 s2 cur /\
  msk2 (e1 :: s1) (e2 :: s2) (d :: cur) = ((e1 =? d) && (e2 =? d)) :: msk2 s1 s2 cur.
Proof.
  intros H1 H2 HB. pose proof (rparams_length _ _ _ HB) as L. unfold msk1, msk2.
  rewrite rparams_both by assumption. simpl length.
  rewrite !(rev_idx_len (_ :: _)) by (simpl; lia). rewrite !(rev_idx_len (rparams s1 s2 cur)) by lia. auto.
Qed.

Lemma msk_left d s1 s2 cur :
  length s1 = length cur -> (length s2 <= length cur)%nat -> BT2 s1 s2 cur ->
  msk1 (d :: s1) s2 (d :: cur) = false :: msk1 s1 s2 cur /\ msk2 (d :: s1) s2 (d :: cur) = msk2 s1 s2 cur.
Proof.
  intros H1 H2 HB. pose proof (rparams_length _ _ _ HB) as L. unfold msk1, msk2.
  rewrite rparams_left by assumption. simpl length. split.
  - rewrite (rev_idx_len (_ :: _)) by (simpl; lia). rewrite (rev_idx_len (rparams s1 s2 cur)) by lia. reflexivity.
  - apply rev_idx_cons. lia.
Qed.

Lemma msk_right d s1 s2 cur :
  (length s1 <= length cur)%nat -> length s2 = length cur -> BT2 s1 s2 cur ->
  msk1 s1 (d :: s2) (d :: cur) = msk1 s1 s2 cur /\ msk2 s1 (d :: s2) (d :: cur) = false :: msk2 s1 s2 cur.
Proof.
  intros H1 H2 HB. pose proof (rparams_length _ _ _ HB) as L. unfold msk1, msk2.
  rewrite rparams_right by assumption. simpl length. split.
  - apply rev_idx_cons. lia.
  - rewrite (rev_idx_len (_ :: _)) by (simpl; lia). rewrite (rev_idx_len (rparams s1 s2 cur)) by lia. reflexivity.
Qed.

(* two stored positions agree on the shared axes  <->  they are the images of one position of the
   broadcast shape, which _get_matching_coords reconstructs *)
Lemma pair_align s1 s2 cur : BT2 s1 s2 cur -> forall t1 t2, in_range s1 t1 -> in_range s2 t2 ->
  select (msk1 s1 s2 cur) s1 = select (msk2 s1 s2 cur) s2 /\
  in_range (select (msk2 s1 s2 cur) s2) (select (msk1 s1 s2 cur) t1) /\
  in_range (select (msk2 s1 s2 cur) s2) (select (msk2 s1 s2 cur) t2) /\
  (select (msk1 s1 s2 cur) t1 = select (msk2 s1 s2 cur) t2 ->
   exists q, matching_coords (bcast_params s1 cur) (bcast_params s2 cur) t1 t2 = Ok q /\
             in_range cur q /\ bcast_idx s1 q = t1 /\ bcast_idx s2 q = t2).
Proof.
  induction 1 as [|e1 e2 d s1 s2 cur L1 L2 A1 A2 A3 HB IH|d s1 s2 cur L1 L2 HB IH|d s1 s2 cur L1 L2 HB IH];
    intros t1 t2 R1 R2.
  - destruct t1, t2; simpl in R1, R2; try tauto. cbn. repeat split; auto. intros _. exists []. cbn. auto.
  - destruct (msk_both e1 e2 d s1 s2 cur L1 L2 HB) as [M1 M2]. rewrite M1, M2.
    rewrite !bcast_params_cons by assumption.
    destruct t1 as [|x1 t1]; [simpl in R1; tauto|]. destruct t2 as [|x2 t2]; [simpl in R2; tauto|].
    simpl in R1, R2. destruct R1 as [X1 R1]. destruct R2 as [X2 R2].
    specialize (IH t1 t2 R1 R2). destruct IH as [I1 [I2 [I3 I4]]].
    destruct (Z.eqb_spec e1 d) as [E1|E1]; destruct (Z.eqb_spec e2 d) as [E2|E2]; simpl.
    + subst e1 e2. rewrite I1. repeat split; auto; try lia.
      intros E. inversion E as [[Ex Et]]. subst x2. destruct (I4 Et) as [q [Q1 [Q2 [Q3 Q4]]]].
      exists (x1 :: q). rewrite Q1. simpl. pose proof (in_range_length _ _ Q2).
      rewrite !bcast_idx_cons by lia. rewrite Q3, Q4. repeat split; auto; try lia.
      * destruct (Z.eqb_spec d 1); [f_equal; lia|reflexivity].
      * destruct (Z.eqb_spec d 1); [f_equal; lia|reflexivity].
    + assert (e2 = 1) by tauto. subst e1 e2. repeat split; auto.
      intros Et. destruct (I4 Et) as [q [Q1 [Q2 [Q3 Q4]]]].
      exists (x1 :: q). rewrite Q1. simpl. pose proof (in_range_length _ _ Q2).
      rewrite !bcast_idx_cons by lia. rewrite Q3, Q4. repeat split; auto; try lia.
      * destruct (Z.eqb_spec d 1); [f_equal; lia|reflexivity].
      * simpl. f_equal. lia.
    + assert (e1 = 1) by tauto. subst e1 e2. repeat split; auto.
      intros Et. destruct (I4 Et) as [q [Q1 [Q2 [Q3 Q4]]]].
      exists (x2 :: q). rewrite Q1. simpl. pose proof (in_range_length _ _ Q2).
      rewrite !bcast_idx_cons by lia. rewrite Q3, Q4. repeat split; auto; try lia.
      * simpl. f_equal. lia.
      * destruct (Z.eqb_spec d 1); [f_equal; lia|reflexivity].
    + exfalso. tauto.
  - destruct (msk_left d s1 s2 cur L1 L2 HB) as [M1 M2]. rewrite M1, M2.
    rewrite bcast_params_cons, bcast_params_skip by assumption.
    destruct t1 as [|x1 t1]; [simpl in R1; tauto|]. simpl in R1. destruct R1 as [X1 R1].
    specialize (IH t1 t2 R1 R2). destruct IH as [I1 [I2 [I3 I4]]]. rewrite Z.eqb_refl. simpl.
    repeat split; auto. intros Et. destruct (I4 Et) as [q [Q1 [Q2 [Q3 Q4]]]].
    exists (x1 :: q). rewrite Q1. simpl. pose proof (in_range_length _ _ Q2).
    rewrite bcast_idx_cons by lia. rewrite bcast_idx_skip by lia. rewrite Q3, Q4. repeat split; auto; try lia.
    destruct (Z.eqb_spec d 1); [f_equal; lia|reflexivity].
  - destruct (msk_right d s1 s2 cur L1 L2 HB) as [M1 M2]. rewrite M1, M2.
    rewrite bcast_params_cons, bcast_params_skip by assumption.
    destruct t2 as [|x2 t2]; [simpl in R2; tauto|]. simpl in R2. destruct R2 as [X2 R2].
    specialize (IH t1 t2 R1 R2). destruct IH as [I1 [I2 [I3 I4]]]. rewrite Z.eqb_refl. simpl.
    repeat split; auto. intros Et. destruct (I4 Et) as [q [Q1 [Q2 [Q3 Q4]]]].
    exists (x2 :: q). rewrite Q1. simpl. pose proof (in_range_length _ _ Q2).
    rewrite bcast_idx_cons by lia. rewrite bcast_idx_skip by lia. rewrite Q3, Q4. repeat split; auto; try lia.
    destruct (Z.eqb_spec d 1); [f_equal; lia|reflexivity].
Qed.

Lemma pair_align_inv s1 s2 cur : BT2 s1 s2 cur -> forall q, in_range cur q ->
  select (msk1 s1 s2 cur) (bcast_idx s1 q) = select (msk2 s1 s2 cur) (bcast_idx s2 q) /\
  matching_coords (bcast_params s1 cur) (bcast_params s2 cur) (bcast_idx s1 q) (bcast_idx s2 q) = Ok q.
Proof.
  induction 1 as [|e1 e2 d s1 s2 cur L1 L2 A1 A2 A3 HB IH|d s1 s2 cur L1 L2 HB IH|d s1 s2 cur L1 L2 HB IH];
    intros q Hq.
  - destruct q; simpl in Hq; [|tauto]. cbn. auto.
  - destruct (msk_both e1 e2 d s1 s2 cur L1 L2 HB) as [M1 M2]. rewrite M1, M2.
    rewrite !bcast_params_cons by assumption.
    destruct q as [|i q]; [simpl in Hq; tauto|]. simpl in Hq. destruct Hq as [Hi Hq].
    pose proof (in_range_length _ _ Hq). rewrite !bcast_idx_cons by lia.
    specialize (IH q Hq). destruct IH as [I1 I2].
    destruct (Z.eqb_spec e1 d) as [E1|E1]; destruct (Z.eqb_spec e2 d) as [E2|E2]; simpl;
      [rewrite I2; simpl|rewrite I2; simpl|rewrite I2; simpl|exfalso; tauto].
    + subst. rewrite I1. split; [reflexivity|]. destruct (Z.eqb_spec d 1); [repeat f_equal; lia|reflexivity].
    + subst. split; [exact I1|]. destruct (Z.eqb_spec d 1); [repeat f_equal; lia|reflexivity].
    + subst. split; [exact I1|]. destruct (Z.eqb_spec d 1); [repeat f_equal; lia|reflexivity].
  - destruct (msk_left d s1 s2 cur L1 L2 HB) as [M1 M2]. rewrite M1, M2.
    rewrite bcast_params_cons, bcast_params_skip by assumption.
    destruct q as [|i q]; [simpl in Hq; tauto|]. simpl in Hq. destruct Hq as [Hi Hq].
    pose proof (in_range_length _ _ Hq). rewrite bcast_idx_cons by lia. rewrite bcast_idx_skip by lia.
    specialize (IH q Hq). destruct IH as [I1 I2]. rewrite Z.eqb_refl. simpl. rewrite I2. simpl.
    split; [exact I1|]. destruct (Z.eqb_spec d 1); [repeat f_equal; lia|reflexivity].
  - destruct (msk_right d s1 s2 cur L1 L2 HB) as [M1 M2]. rewrite M1, M2.
    rewrite bcast_params_cons, bcast_params_skip by assumption.
    destruct q as [|i q]; [simpl in Hq; tauto|]. simpl in Hq. destruct Hq as [Hi Hq].
    pose proof (in_range_length _ _ Hq). rewrite bcast_idx_cons by lia. rewrite bcast_idx_skip by lia.
    specialize (IH q Hq). destruct IH as [I1 I2]. rewrite Z.eqb_refl. simpl. rewrite I2. simpl.
    split; [exact I1|]. destruct (Z.eqb_spec d 1); [repeat f_equal; lia|reflexivity].
Qed.

(* ------------------------------------------------------------------ np.argsort *)

Lemma combine_map_snd' {A B} (l1 : list A) (l2 : list B) :
  length l1 = length l2 -> map snd (combine l1 l2) = l2.
Proof. revert l2. induction l1; intros [|b l2]; simpl; try discriminate; auto. intros H. f_equal. apply IHl1. lia. Qed.

Lemma argsort_perm ks : Permutation (argsort ks) (seq 0 (length ks)).
Proof.
  unfold argsort. rewrite isort_perm. rewrite combine_map_snd' by (rewrite seq_length; reflexivity). reflexivity.
Qed.

Lemma argsort_length ks : length (argsort ks) = length ks.
Proof. rewrite (Permutation_length (argsort_perm ks)). apply seq_length. Qed.

Lemma argsort_In ks i : In i (argsort ks) <-> (i < length ks)%nat.
Proof.
  split; intros H.
  - apply (Permutation_in _ (argsort_perm ks)) in H. apply in_seq in H. lia.
  - apply (Permutation_in _ (Permutation_sym (argsort_perm ks))). apply in_seq. lia.
Qed.

Lemma argsort_NoDup ks : NoDup (argsort ks).
Proof. eapply Permutation_NoDup; [apply Permutation_sym, argsort_perm|apply seq_NoDup]. Qed.

Lemma combine_seq_In (ks : list Z) s k i : In (k, i) (combine ks (seq s (length ks))) -> nthZ ks (i - s) = k.
Proof.
  revert s. induction ks as [|x ks IH]; intros s H; simpl in H; [tauto|].
  destruct H as [E|H].
  - inversion E; subst. rewrite Nat.sub_diag. reflexivity.
  - specialize (IH (S s) H). assert (S s <= i)%nat.
    { apply in_combine_r in H. apply in_seq in H. lia. }
    replace (i - s)%nat with (S (i - S s)) by lia. exact IH.
Qed.

Lemma argsort_sorted ks : StronglySorted Z.le (map (nthZ ks) (argsort ks)).
Proof.
  unfold argsort. set (P := isort key_leb _).
  assert (HP : forall p, In p P -> nthZ ks (snd p) = fst p).
  { intros [k i] Hp. apply (Permutation_in _ (isort_perm _ _)) in Hp. simpl.
    apply combine_seq_In in Hp. rewrite Nat.sub_0_r in Hp. exact Hp. }
  rewrite map_map. rewrite (map_ext_in _ fst); [|intros p Hp; apply HP; exact Hp].
  assert (Hs : StronglySorted (fun a b : Z * nat => key_leb a b = true) P)
    by (apply isort_sorted; [apply key_leb_total|apply key_leb_trans]).
  clear HP. induction Hs as [|x l Hs IH Hall]; simpl; constructor; auto.
  apply Forall_forall. intros k Hk. apply in_map_iff in Hk. destruct Hk as [y [<- Hy]].
  rewrite Forall_forall in Hall. specialize (Hall y Hy). unfold key_leb in Hall. apply Z.leb_le. exact Hall.
Qed.

(* joining two key lists through argsort + _match_arrays: all pairs of ORIGINAL positions with equal keys *)
Definition joined (k1 k2 : list Z) : list (nat * nat) :=
  map (fun ij => (nth (fst ij) (argsort k1) O, nth (snd ij) (argsort k2) O))
      (match_arrays (map (nthZ k1) (argsort k1)) (map (nthZ k2) (argsort k2))).

Lemma nth_argsort_In ks i' : (i' < length ks)%nat -> (nth i' (argsort ks) O < length ks)%nat.
Proof. intros H. apply argsort_In. apply nth_In. rewrite argsort_length. exact H. Qed.

Lemma nthZ_map_nth ks (a : list nat) i' :
  (i' < length a)%nat -> nthZ (map (nthZ ks) a) i' = nthZ ks (nth i' a O).
Proof.
  intros H. unfold nthZ at 1. rewrite (nth_indep _ 0 (nthZ ks O)) by (rewrite map_length; exact H).
  apply map_nth.
Qed.

Lemma joined_spec k1 k2 :
  NoDup (joined k1 k2) /\
  forall i j, In (i, j) (joined k1 k2) <-> (i < length k1)%nat /\ (j < length k2)%nat /\ nthZ k1 i = nthZ k2 j.
Proof.
  unfold joined. rewrite match_arrays_spec_proof by apply argsort_sorted.
  set (a1 := argsort k1). set (a2 := argsort k2).
  assert (Hm : forall i' j', In (i', j') (match_spec (map (nthZ k1) a1) (map (nthZ k2) a2)) <->
                             (i' < length k1)%nat /\ (j' < length k2)%nat /\
                             nthZ k1 (nth i' a1 O) = nthZ k2 (nth j' a2 O)).
  { intros i' j'. rewrite match_spec_In, !map_length. unfold a1, a2. rewrite !argsort_length.
    split; intros [H1 [H2 H3]]; repeat split; auto.
    - rewrite !nthZ_map_nth in H3 by (rewrite argsort_length; assumption). exact H3.
    - rewrite !nthZ_map_nth by (rewrite argsort_length; assumption). exact H3. }
  split.
  - apply NoDup_map_in; [|apply match_spec_NoDup].
    intros [i' j'] [i'' j''] Hx Hy E. apply Hm in Hx. apply Hm in Hy. simpl in E. inversion E as [[E1 E2]].
    destruct Hx as [X1 [X2 _]]. destruct Hy as [Y1 [Y2 _]].
    f_equal.
    + apply (proj1 (NoDup_nth a1 O) (argsort_NoDup k1)); auto; unfold a1; rewrite argsort_length; assumption.
    + apply (proj1 (NoDup_nth a2 O) (argsort_NoDup k2)); auto; unfold a2; rewrite argsort_length; assumption.
  - intros i j. rewrite in_map_iff. split.
    + intros [[i' j'] [E H]]. apply Hm in H. simpl in E. inversion E; subst i j. destruct H as [H1 [H2 H3]].
      repeat split; auto; apply nth_argsort_In; assumption.
    + intros [H1 [H2 H3]].
      assert (I1 : In i a1) by (apply argsort_In; exact H1). assert (I2 : In j a2) by (apply argsort_In; exact H2).
      apply (In_nth _ _ O) in I1. apply (In_nth _ _ O) in I2.
      destruct I1 as [i' [Hi' Ei]]. destruct I2 as [j' [Hj' Ej]].
      unfold a1 in Hi'. unfold a2 in Hj'. rewrite argsort_length in Hi', Hj'.
      exists (i', j'). simpl. split; [congruence|]. apply Hm. repeat split; auto. congruence.
Qed.
