(* Proofs/ElemwiseGenP.v — the general (broadcasting, n-ary) case of Model/Elemwise.v:
   _match_coo as a join on the shared axes, the mask enumeration as a partition of the stored
   positions, elemwise_den, and the composition corollary over expression trees. *)
From Coq Require Import ZArith List Bool Lia Arith Sorting.Sorted Sorting.Permutation.
From Verif Require Import Py PyExt Shape COO COOP NpElemwise G_umath S_umath Elemwise ElemwiseP ElemwiseBcastP.
Import ListNotations.
Open Scope Z_scope.

Arguments bcast_idx : simpl never.
Arguments bcast_params : simpl never.

(* ------------------------------------------------------------------ _rev_idx *)

Lemma rev_idx_all {A} (l : list A) : rev_idx l (length l) = l.
Proof.
  unfold rev_idx. destruct (length l) eqn:E.
  - destruct l; [reflexivity|discriminate].
  - rewrite Nat.sub_diag. reflexivity.
Qed.

Lemma rev_idx_cons {A} (x : A) l n : (n <= length l)%nat -> rev_idx (x :: l) n = rev_idx l n.
Proof.
  intros H. unfold rev_idx. destruct n as [|n]; simpl length.
  - reflexivity.
  - rewrite Nat.sub_succ_l by exact H. reflexivity.
Qed.

Lemma map2_length {A B C} (g : A -> B -> C) l1 l2 : length (map2 g l1 l2) = Nat.min (length l1) (length l2).
Proof. revert l2. induction l1 as [|a l1 IH]; intros [|b l2]; simpl; auto. Qed.

(* ------------------------------------------------------------------ the shared ("reduced") axes of two operands *)

Definition rparams (s1 s2 cur : shape) : list bool :=
  map2 (fun a b => is_true a && is_true b) (bcast_params s1 cur) (bcast_params s2 cur).
Definition msk1 (s1 s2 cur : shape) : list bool := rev_idx (rparams s1 s2 cur) (length s1).
Definition msk2 (s1 s2 cur : shape) : list bool := rev_idx (rparams s1 s2 cur) (length s2).

Lemma BT2_lengths s1 s2 cur : BT2 s1 s2 cur -> (length s1 <= length cur)%nat /\ (length s2 <= length cur)%nat.
Proof. induction 1; simpl; lia. Qed.

Lemma rparams_length s1 s2 cur : BT2 s1 s2 cur -> length (rparams s1 s2 cur) = length cur.
Proof.
  intros H. destruct (BT2_lengths _ _ _ H). unfold rparams. rewrite map2_length, !bcast_params_length by assumption. lia.
Qed.

Lemma is_true_Some b : is_true (Some b) = b.
Proof. destruct b; reflexivity. Qed.

Lemma rparams_both e1 e2 d s1 s2 cur :
  length s1 = length cur -> length s2 = length cur ->
  rparams (e1 :: s1) (e2 :: s2) (d :: cur) = ((e1 =? d) && (e2 =? d)) :: rparams s1 s2 cur.
Proof.
  intros H1 H2. unfold rparams. rewrite !bcast_params_cons by assumption. cbn [map2]. rewrite !is_true_Some. reflexivity.
Qed.

Lemma rparams_left d s1 s2 cur :
  length s1 = length cur -> (length s2 <= length cur)%nat ->
  rparams (d :: s1) s2 (d :: cur) = false :: rparams s1 s2 cur.
Proof.
  intros H1 H2. unfold rparams. rewrite bcast_params_cons, bcast_params_skip by assumption. cbn [map2].
  rewrite andb_false_r. reflexivity.
Qed.

Lemma rparams_right d s1 s2 cur :
  (length s1 <= length cur)%nat -> length s2 = length cur ->
  rparams s1 (d :: s2) (d :: cur) = false :: rparams s1 s2 cur.
Proof. intros H1 H2. unfold rparams. rewrite bcast_params_cons, bcast_params_skip by assumption. reflexivity. Qed.

Lemma rev_idx_len {A} (l : list A) n : n = length l -> rev_idx l n = l.
Proof. intros ->. apply rev_idx_all. Qed.

Lemma msk_both e1 e2 d s1 s2 cur :
  length s1 = length cur -> length s2 = length cur -> BT2 s1 s2 cur ->
  msk1 (e1 :: s1) (e2 :: s2) (d :: cur) = ((e1 =? d) && (e2 =? d)) :: msk1 s1 s2 cur /\
  msk2 (e1 :: s1) (e2 :: s2) (d :: cur) = ((e1 =? d) && (e2 =? d)) :: msk2 s1 s2 cur.
Proof.
  intros H1 H2 HB. pose proof (rparams_length _ _ _ HB) as L. unfold msk1, msk2.
  rewrite rparams_both by assumption. simpl length.
  rewrite !(rev_idx_len (_ :: _)) by (simpl; lia). rewrite !(rev_idx_len (rparams s1 s2 cur)) by lia. auto.
Qed.

Lemma msk_left d s1 s2 cur :
  length s1 = length cur -> (length s2 <= length cur)%nat -> BT2 s1 s2 cur ->
  msk1 (d :: s1) s2 (d :: cur) = false :: msk1 s1 s2 cur /\ msk2 (d :: s1) s2 (d :: cur) = msk2 s1 s2 cur.
Proof.
  intros H1 H2 HB. pose proof (rparams_length _ _ _ HB) as L. unfold msk1, msk2.
  rewrite rparams_left by assumption. simpl length. split.
  - rewrite (rev_idx_len (_ :: _)) by (simpl; lia). rewrite (rev_idx_len (rparams s1 s2 cur)) by lia. reflexivity.
  - apply rev_idx_cons. lia.
Qed.

Lemma msk_right d s1 s2 cur :
  (length s1 <= length cur)%nat -> length s2 = length cur -> BT2 s1 s2 cur ->
  msk1 s1 (d :: s2) (d :: cur) = msk1 s1 s2 cur /\ msk2 s1 (d :: s2) (d :: cur) = false :: msk2 s1 s2 cur.
Proof.
  intros H1 H2 HB. pose proof (rparams_length _ _ _ HB) as L. unfold msk1, msk2.
  rewrite rparams_right by assumption. simpl length. split.
  - apply rev_idx_cons. lia.
  - rewrite (rev_idx_len (_ :: _)) by (simpl; lia). rewrite (rev_idx_len (rparams s1 s2 cur)) by lia. reflexivity.
Qed.

(* two stored positions agree on the shared axes  <->  they are the images of one position of the
   broadcast shape, which _get_matching_coords reconstructs *)
Lemma pair_align s1 s2 cur : BT2 s1 s2 cur -> forall t1 t2, in_range s1 t1 -> in_range s2 t2 ->
  select (msk1 s1 s2 cur) s1 = select (msk2 s1 s2 cur) s2 /\
  in_range (select (msk2 s1 s2 cur) s2) (select (msk1 s1 s2 cur) t1) /\
  in_range (select (msk2 s1 s2 cur) s2) (select (msk2 s1 s2 cur) t2) /\
  (select (msk1 s1 s2 cur) t1 = select (msk2 s1 s2 cur) t2 ->
   exists q, matching_coords (bcast_params s1 cur) (bcast_params s2 cur) t1 t2 = Ok q /\
             in_range cur q /\ bcast_idx s1 q = t1 /\ bcast_idx s2 q = t2).
Proof.
  induction 1 as [|e1 e2 d s1 s2 cur L1 L2 A1 A2 A3 HB IH|d s1 s2 cur L1 L2 HB IH|d s1 s2 cur L1 L2 HB IH];
    intros t1 t2 R1 R2.
  - destruct t1, t2; simpl in R1, R2; try tauto. cbn. repeat split; auto. intros _. exists []. cbn. auto.
  - destruct (msk_both e1 e2 d s1 s2 cur L1 L2 HB) as [M1 M2]. rewrite M1, M2.
    rewrite !bcast_params_cons by assumption.
    destruct t1 as [|x1 t1]; [simpl in R1; tauto|]. destruct t2 as [|x2 t2]; [simpl in R2; tauto|].
    simpl in R1, R2. destruct R1 as [X1 R1]. destruct R2 as [X2 R2].
    specialize (IH t1 t2 R1 R2). destruct IH as [I1 [I2 [I3 I4]]].
    destruct (Z.eqb_spec e1 d) as [E1|E1]; destruct (Z.eqb_spec e2 d) as [E2|E2]; simpl.
    + subst e1 e2. rewrite I1. repeat split; auto; try lia.
      intros E. inversion E as [[Ex Et]]. subst x2. destruct (I4 Et) as [q [Q1 [Q2 [Q3 Q4]]]].
      exists (x1 :: q). rewrite Q1. simpl. pose proof (in_range_length _ _ Q2).
      rewrite !bcast_idx_cons by lia. rewrite Q3, Q4. repeat split; auto; try lia.
      * destruct (Z.eqb_spec d 1); [f_equal; lia|reflexivity].
      * destruct (Z.eqb_spec d 1); [f_equal; lia|reflexivity].
    + assert (e2 = 1) by tauto. subst e1 e2. repeat split; auto.
      intros Et. destruct (I4 Et) as [q [Q1 [Q2 [Q3 Q4]]]].
      exists (x1 :: q). rewrite Q1. simpl. pose proof (in_range_length _ _ Q2).
      rewrite !bcast_idx_cons by lia. rewrite Q3, Q4. repeat split; auto; try lia.
      * destruct (Z.eqb_spec d 1); [f_equal; lia|reflexivity].
      * simpl. f_equal. lia.
    + assert (e1 = 1) by tauto. subst e1 e2. repeat split; auto.
      intros Et. destruct (I4 Et) as [q [Q1 [Q2 [Q3 Q4]]]].
      exists (x2 :: q). rewrite Q1. simpl. pose proof (in_range_length _ _ Q2).
      rewrite !bcast_idx_cons by lia. rewrite Q3, Q4. repeat split; auto; try lia.
      * simpl. f_equal. lia.
      * destruct (Z.eqb_spec d 1); [f_equal; lia|reflexivity].
    + exfalso. tauto.
  - destruct (msk_left d s1 s2 cur L1 L2 HB) as [M1 M2]. rewrite M1, M2.
    rewrite bcast_params_cons, bcast_params_skip by assumption.
    destruct t1 as [|x1 t1]; [simpl in R1; tauto|]. simpl in R1. destruct R1 as [X1 R1].
    specialize (IH t1 t2 R1 R2). destruct IH as [I1 [I2 [I3 I4]]]. rewrite Z.eqb_refl. simpl.
    repeat split; auto. intros Et. destruct (I4 Et) as [q [Q1 [Q2 [Q3 Q4]]]].
    exists (x1 :: q). rewrite Q1. simpl. pose proof (in_range_length _ _ Q2).
    rewrite bcast_idx_cons by lia. rewrite bcast_idx_skip by lia. rewrite Q3, Q4. repeat split; auto; try lia.
    destruct (Z.eqb_spec d 1); [f_equal; lia|reflexivity].
  - destruct (msk_right d s1 s2 cur L1 L2 HB) as [M1 M2]. rewrite M1, M2.
    rewrite bcast_params_cons, bcast_params_skip by assumption.
    destruct t2 as [|x2 t2]; [simpl in R2; tauto|]. simpl in R2. destruct R2 as [X2 R2].
    specialize (IH t1 t2 R1 R2). destruct IH as [I1 [I2 [I3 I4]]]. rewrite Z.eqb_refl. simpl.
    repeat split; auto. intros Et. destruct (I4 Et) as [q [Q1 [Q2 [Q3 Q4]]]].
    exists (x2 :: q). rewrite Q1. simpl. pose proof (in_range_length _ _ Q2).
    rewrite bcast_idx_cons by lia. rewrite bcast_idx_skip by lia. rewrite Q3, Q4. repeat split; auto; try lia.
    destruct (Z.eqb_spec d 1); [f_equal; lia|reflexivity].
Qed.

Lemma pair_align_inv s1 s2 cur : BT2 s1 s2 cur -> forall q, in_range cur q ->
  select (msk1 s1 s2 cur) (bcast_idx s1 q) = select (msk2 s1 s2 cur) (bcast_idx s2 q) /\
  matching_coords (bcast_params s1 cur) (bcast_params s2 cur) (bcast_idx s1 q) (bcast_idx s2 q) = Ok q.
Proof.
  induction 1 as [|e1 e2 d s1 s2 cur L1 L2 A1 A2 A3 HB IH|d s1 s2 cur L1 L2 HB IH|d s1 s2 cur L1 L2 HB IH];
    intros q Hq.
  - destruct q; simpl in Hq; [|tauto]. cbn. auto.
  - destruct (msk_both e1 e2 d s1 s2 cur L1 L2 HB) as [M1 M2]. rewrite M1, M2.
    rewrite !bcast_params_cons by assumption.
    destruct q as [|i q]; [simpl in Hq; tauto|]. simpl in Hq. destruct Hq as [Hi Hq].
    pose proof (in_range_length _ _ Hq). rewrite !bcast_idx_cons by lia.
    specialize (IH q Hq). destruct IH as [I1 I2].
    destruct (Z.eqb_spec e1 d) as [E1|E1]; destruct (Z.eqb_spec e2 d) as [E2|E2]; simpl;
      [rewrite I2; simpl|rewrite I2; simpl|rewrite I2; simpl|exfalso; tauto].
    + subst. rewrite I1. split; [reflexivity|]. destruct (Z.eqb_spec d 1); [repeat f_equal; lia|reflexivity].
    + subst. split; [exact I1|]. destruct (Z.eqb_spec d 1); [repeat f_equal; lia|reflexivity].
    + subst. split; [exact I1|]. destruct (Z.eqb_spec d 1); [repeat f_equal; lia|reflexivity].
  - destruct (msk_left d s1 s2 cur L1 L2 HB) as [M1 M2]. rewrite M1, M2.
    rewrite bcast_params_cons, bcast_params_skip by assumption.
    destruct q as [|i q]; [simpl in Hq; tauto|]. simpl in Hq. destruct Hq as [Hi Hq].
    pose proof (in_range_length _ _ Hq). rewrite bcast_idx_cons by lia. rewrite bcast_idx_skip by lia.
    specialize (IH q Hq). destruct IH as [I1 I2]. rewrite Z.eqb_refl. simpl. rewrite I2. simpl.
    split; [exact I1|]. destruct (Z.eqb_spec d 1); [repeat f_equal; lia|reflexivity].
  - destruct (msk_right d s1 s2 cur L1 L2 HB) as [M1 M2]. rewrite M1, M2.
    rewrite bcast_params_cons, bcast_params_skip by assumption.
    destruct q as [|i q]; [simpl in Hq; tauto|]. simpl in Hq. destruct Hq as [Hi Hq].
    pose proof (in_range_length _ _ Hq). rewrite bcast_idx_cons by lia. rewrite bcast_idx_skip by lia.
    specialize (IH q Hq). destruct IH as [I1 I2]. rewrite Z.eqb_refl. simpl. rewrite I2. simpl.
    split; [exact I1|]. destruct (Z.eqb_spec d 1); [repeat f_equal; lia|reflexivity].
Qed.

(* ------------------------------------------------------------------ np.argsort *)

Lemma combine_map_snd' {A B} (l1 : list A) (l2 : list B) :
  length l1 = length l2 -> map snd (combine l1 l2) = l2.
Proof. revert l2. induction l1; intros [|b l2]; simpl; try discriminate; auto. intros H. f_equal. apply IHl1. lia. Qed.

Lemma argsort_perm ks : Permutation (argsort ks) (seq 0 (length ks)).
Proof.
  unfold argsort. rewrite isort_perm. rewrite combine_map_snd' by (rewrite seq_length; reflexivity). reflexivity.
Qed.

Lemma argsort_length ks : length (argsort ks) = length ks.
Proof. rewrite (Permutation_length (argsort_perm ks)). apply seq_length. Qed.

Lemma argsort_In ks i : In i (argsort ks) <-> (i < length ks)%nat.
Proof.
  split; intros H.
  - apply (Permutation_in _ (argsort_perm ks)) in H. apply in_seq in H. lia.
  - apply (Permutation_in _ (Permutation_sym (argsort_perm ks))). apply in_seq. lia.
Qed.

Lemma argsort_NoDup ks : NoDup (argsort ks).
Proof. eapply Permutation_NoDup; [apply Permutation_sym, argsort_perm|apply seq_NoDup]. Qed.

Lemma combine_seq_In (ks : list Z) s k i : In (k, i) (combine ks (seq s (length ks))) -> nthZ ks (i - s) = k.
Proof.
  revert s. induction ks as [|x ks IH]; intros s H; simpl in H; [tauto|].
  destruct H as [E|H].
  - inversion E; subst. rewrite Nat.sub_diag. reflexivity.
  - specialize (IH (S s) H). assert (S s <= i)%nat.
    { apply in_combine_r in H. apply in_seq in H. lia. }
    replace (i - s)%nat with (S (i - S s)) by lia. exact IH.
Qed.

Lemma argsort_sorted ks : StronglySorted Z.le (map (nthZ ks) (argsort ks)).
Proof.
  unfold argsort. set (P := isort key_leb _).
  assert (HP : forall p, In p P -> nthZ ks (snd p) = fst p).
  { intros [k i] Hp. apply (Permutation_in _ (isort_perm _ _)) in Hp. simpl.
    apply combine_seq_In in Hp. rewrite Nat.sub_0_r in Hp. exact Hp. }
  rewrite map_map. rewrite (map_ext_in _ fst); [|intros p Hp; apply HP; exact Hp].
  assert (Hs : StronglySorted (fun a b : Z * nat => key_leb a b = true) P)
    by (apply isort_sorted; [apply key_leb_total|apply key_leb_trans]).
  clear HP. induction Hs as [|x l Hs IH Hall]; simpl; constructor; auto.
  apply Forall_forall. intros k Hk. apply in_map_iff in Hk. destruct Hk as [y [<- Hy]].
  rewrite Forall_forall in Hall. specialize (Hall y Hy). unfold key_leb in Hall. apply Z.leb_le. exact Hall.
Qed.

(* joining two key lists through argsort + _match_arrays: all pairs of ORIGINAL positions with equal keys *)
Definition joined (k1 k2 : list Z) : list (nat * nat) :=
  map (fun ij => (nth (fst ij) (argsort k1) O, nth (snd ij) (argsort k2) O))
      (match_arrays (map (nthZ k1) (argsort k1)) (map (nthZ k2) (argsort k2))).

Lemma nth_argsort_In ks i' : (i' < length ks)%nat -> (nth i' (argsort ks) O < length ks)%nat.
Proof. intros H. apply argsort_In. apply nth_In. rewrite argsort_length. exact H. Qed.

Lemma nthZ_map_nth ks (a : list nat) i' :
  (i' < length a)%nat -> nthZ (map (nthZ ks) a) i' = nthZ ks (nth i' a O).
Proof.
  intros H. unfold nthZ at 1. rewrite (nth_indep _ 0 (nthZ ks O)) by (rewrite map_length; exact H).
  apply map_nth.
Qed.

Lemma joined_spec k1 k2 :
  NoDup (joined k1 k2) /\
  forall i j, In (i, j) (joined k1 k2) <-> (i < length k1)%nat /\ (j < length k2)%nat /\ nthZ k1 i = nthZ k2 j.
Proof.
  unfold joined. rewrite match_arrays_spec_proof by apply argsort_sorted.
  set (a1 := argsort k1). set (a2 := argsort k2).
  assert (Hm : forall i' j', In (i', j') (match_spec (map (nthZ k1) a1) (map (nthZ k2) a2)) <->
                             (i' < length k1)%nat /\ (j' < length k2)%nat /\
                             nthZ k1 (nth i' a1 O) = nthZ k2 (nth j' a2 O)).
  { intros i' j'. rewrite match_spec_In, !map_length. unfold a1, a2. rewrite !argsort_length.
    split; intros [H1 [H2 H3]]; repeat split; auto.
    - rewrite !nthZ_map_nth in H3 by (rewrite argsort_length; assumption). exact H3.
    - rewrite !nthZ_map_nth by (rewrite argsort_length; assumption). exact H3. }
  split.
  - apply NoDup_map_in; [|apply match_spec_NoDup].
    intros [i' j'] [i'' j''] Hx Hy E. apply Hm in Hx. apply Hm in Hy. simpl in E. inversion E as [[E1 E2]].
    destruct Hx as [X1 [X2 _]]. destruct Hy as [Y1 [Y2 _]].
    f_equal.
    + apply (proj1 (NoDup_nth a1 O) (argsort_NoDup k1)); auto; unfold a1; rewrite argsort_length; assumption.
    + apply (proj1 (NoDup_nth a2 O) (argsort_NoDup k2)); auto; unfold a2; rewrite argsort_length; assumption.
  - intros i j. rewrite in_map_iff. split.
    + intros [[i' j'] [E H]]. apply Hm in H. simpl in E. inversion E; subst i j. destruct H as [H1 [H2 H3]].
      repeat split; auto; apply nth_argsort_In; assumption.
    + intros [H1 [H2 H3]].
      assert (I1 : In i a1) by (apply argsort_In; exact H1). assert (I2 : In j a2) by (apply argsort_In; exact H2).
      apply (In_nth _ _ O) in I1. apply (In_nth _ _ O) in I2.
      destruct I1 as [i' [Hi' Ei]]. destruct I2 as [j' [Hj' Ej]].
      unfold a1 in Hi'. unfold a2 in Hj'. rewrite argsort_length in Hi', Hj'.
      exists (i', j'). simpl. split; [congruence|]. apply Hm. repeat split; auto. congruence.
Qed.

(* ------------------------------------------------------------------ more on broadcast shapes *)

Lemma BT_ext s T : BT s T -> forall k, (k < length s)%nat -> ext_from_end s k = ext_from_end T k \/ ext_from_end s k = 1.
Proof.
  induction 1 as [|s d cur HB IH|e s d cur Hl He HB IH]; intros k Hk; simpl in Hk; [lia| |].
  - pose proof (BT_length _ _ HB). rewrite ext_cons_lt by lia. apply IH. exact Hk.
  - destruct (Nat.eq_dec k (length s)) as [->|Hne].
    + rewrite ext_cons_eq. rewrite Hl, ext_cons_eq. exact He.
    + rewrite !ext_cons_lt by lia. apply IH. lia.
Qed.

(* two shapes that broadcast into T have a broadcast, which again broadcasts into T *)
Lemma bc_exists s1 s2 T : BT s1 T -> BT s2 T ->
  exists cur, broadcast_shape2 false s1 s2 = Ok cur /\ BT cur T.
Proof.
  intros H1 H2. rewrite broadcast_shape2_unfold.
  assert (Hok : bc_ok false s1 s2 = true).
  { apply bc_ok_false_spec. intros k K1 K2. destruct (BT_ext _ _ H1 k K1); destruct (BT_ext _ _ H2 k K2); auto.
    left. congruence. }
  rewrite Hok. exists (bc_res s1 s2). split; [reflexivity|]. apply BT_intro.
  - rewrite bc_res_length. pose proof (BT_length _ _ H1). pose proof (BT_length _ _ H2). lia.
  - intros k Hk. rewrite bc_res_length in Hk. rewrite bc_res_ext.
    destruct (Z.eqb_spec (ext_from_end s1 k) 1) as [E|E].
    + destruct (Nat.lt_ge_cases k (length s2)) as [K|K]; [apply (BT_ext _ _ H2 k K)|].
      right. apply ext_beyond. exact K.
    + destruct (Nat.lt_ge_cases k (length s1)) as [K|K]; [apply (BT_ext _ _ H1 k K)|].
      rewrite ext_beyond in E by exact K. contradiction.
Qed.

Lemma bc_into s T : BT s T -> broadcast_shape2 false T s = Ok T.
Proof.
  intros H. rewrite broadcast_shape2_unfold.
  assert (Hok : bc_ok false T s = true).
  { apply bc_ok_false_spec. intros k K1 K2. destruct (BT_ext _ _ H k K2); auto. }
  rewrite Hok. f_equal. apply list_eq_ext_from_end.
  - rewrite bc_res_length. pose proof (BT_length _ _ H). lia.
  - intros k. rewrite bc_res_ext. destruct (Z.eqb_spec (ext_from_end T k) 1) as [E|E]; [|reflexivity].
    destruct (Nat.lt_ge_cases k (length s)) as [K|K].
    + destruct (BT_ext _ _ H k K); congruence.
    + rewrite E. apply ext_beyond. exact K.
Qed.

(* ------------------------------------------------------------------ match_pairs *)

Lemma nthZ_map_fn {A} (g : A -> Z) (l : list A) (d : A) i : (i < length l)%nat -> nthZ (map g l) i = g (nth i l d).
Proof.
  intros H. unfold nthZ. rewrite (nth_indep _ 0 (g d)) by (rewrite map_length; exact H). apply map_nth.
Qed.

Lemma match_pairs_spec sh1 c1 sh2 c2 cur :
  broadcast_shape2 false sh1 sh2 = Ok cur ->
  Forall (in_range sh1) c1 -> Forall (in_range sh2) c2 ->
  exists pairs,
    match_pairs sh1 c1 sh2 c2 = Ok (cur, bcast_params sh1 cur, bcast_params sh2 cur, pairs) /\
    NoDup pairs /\
    forall i j, In (i, j) pairs <->
                (i < length c1)%nat /\ (j < length c2)%nat /\
                select (msk1 sh1 sh2 cur) (nth i c1 []) = select (msk2 sh1 sh2 cur) (nth j c2 []).
Proof.
  intros Hb R1 R2. pose proof (broadcast_shape2_BT2 _ _ _ Hb) as HB.
  unfold match_pairs. rewrite Hb. cbn [bind].
  fold (rparams sh1 sh2 cur). fold (msk1 sh1 sh2 cur). fold (msk2 sh1 sh2 cur).
  set (rsh := select (msk2 sh1 sh2 cur) sh2).
  set (k1 := map (fun t => ravel rsh (select (msk1 sh1 sh2 cur) t)) c1).
  set (k2 := map (fun t => ravel rsh (select (msk2 sh1 sh2 cur) t)) c2).
  exists (joined k1 k2). split; [reflexivity|]. destruct (joined_spec k1 k2) as [Hnd Hin]. split; [exact Hnd|].
  intros i j. rewrite Hin. unfold k1, k2. rewrite !map_length.
  rewrite Forall_forall in R1, R2.
  split; intros [H1 [H2 H3]]; repeat split; auto.
  - rewrite (nthZ_map_fn _ c1 [] i H1), (nthZ_map_fn _ c2 [] j H2) in H3.
    destruct (pair_align _ _ _ HB (nth i c1 []) (nth j c2 []) (R1 _ (nth_In _ _ H1)) (R2 _ (nth_In _ _ H2)))
      as [_ [P1 [P2 _]]].
    apply (ravel_inj rsh); assumption.
  - rewrite (nthZ_map_fn _ c1 [] i H1), (nthZ_map_fn _ c2 [] j H2). congruence.
Qed.

Lemma mapM_Ok {A B} (f : A -> res B) (d : B) (l : list A) :
  (forall x, In x l -> exists y, f x = Ok y) ->
  mapM f l = Ok (map (fun x => match f x with Ok y => y | Raise _ => d end) l).
Proof.
  induction l as [|a l IH]; intros H; simpl; [reflexivity|].
  destruct (H a (or_introl eq_refl)) as [y Hy]. rewrite Hy. cbn [bind]. rewrite IH by (intros; apply H; simpl; auto).
  reflexivity.
Qed.

(* ================================================================== _match_coo as a join *)

Section General.
  Variable V : Type.
  Variable veqb : V -> V -> bool.
  Variable vzero : V.
  Variable f : list V -> V.
  Hypothesis veqb_eq : forall a b, veqb a b = true <-> a = b.

  Definition stored (c : coo V) (q : idx) : Prop := In (bcast_idx (c_shape c) q) (c_coords c).
  Definition val_at (c : coo V) (q : idx) : V := den c (bcast_idx (c_shape c) q).

  (* rows = one row per position q of T at which EVERY matched operand stores its pre-image, carrying
     the operands' values there; no position twice *)
  Definition rows_spec (ms : list (coo V)) (T : shape) (rows : list (idx * list V)) : Prop :=
    NoDup (map fst rows) /\
    forall q vs, In (q, vs) rows <-> in_range T q /\ Forall (fun c => stored c q) ms /\ vs = map (fun c => val_at c q) ms.

  Lemma stored_trans (c : coo V) B T q : BT (c_shape c) B -> BT B T -> in_range T q ->
    (stored c (bcast_idx B q) <-> stored c q) /\ val_at c (bcast_idx B q) = val_at c q.
  Proof.
    intros H1 H2 Hq. unfold stored, val_at. rewrite (bcast_idx_trans _ _ _ H1 H2 q Hq). tauto.
  Qed.

  Lemma nth_entries (c : coo V) j :
    canonical V c -> (j < length (c_coords c))%nat -> nth j (c_data c) vzero = den c (nth j (c_coords c) []).
  Proof.
    intros Hc Hj. symmetry. apply (den_stored V c _ _ Hc). destruct Hc as [_ [_ Hl]].
    apply (entries_nth V vzero); [exact Hl|]. exists j. auto.
  Qed.

  Lemma match_step_spec ms B rows (a2 : coo V) cur :
    rows_spec ms B rows -> canonical V a2 -> Forall (fun c => BT (c_shape c) B) ms ->
    broadcast_shape2 false B (c_shape a2) = Ok cur ->
    exists rows', match_step V vzero (B, rows) a2 = Ok (cur, rows') /\ rows_spec (ms ++ [a2]) cur rows'.
  Proof.
    intros [Hnd Hrows] Ha2 Hms Hb. pose proof (broadcast_shape2_BT2 _ _ _ Hb) as HB.
    pose proof (BT2_left_BT _ _ _ HB) as HB1. pose proof (BT2_right_BT _ _ _ HB) as HB2.
    pose proof Ha2 as [R2 [S2 L2]].
    assert (R1 : Forall (in_range B) (map fst rows)).
    { apply Forall_forall. intros q Hq. apply in_map_iff in Hq. destruct Hq as [[q' vs] [<- Hin]].
      apply Hrows in Hin. tauto. }
    destruct (match_pairs_spec B (map fst rows) (c_shape a2) (c_coords a2) cur Hb R1 R2) as [pairs [Hmp [Pnd Pin]]].
    unfold match_step. rewrite Hmp. cbn [bind]. unfold idx in *.
    set (g := fun ij : nat * nat =>
                let r1 := nth (fst ij) rows ([], []) in
                mc <- matching_coords (bcast_params B cur) (bcast_params (c_shape a2) cur)
                                      (fst r1) (nth (snd ij) (c_coords a2) []) ;;
                Ok (mc, snd r1 ++ [nth (snd ij) (c_data a2) vzero])).
    (* every pair reconstructs a position of cur *)
    assert (Hg : forall i j, In (i, j) pairs ->
               exists q, g (i, j) = Ok (q, snd (nth i rows ([], [])) ++ [nth j (c_data a2) vzero]) /\
                         in_range cur q /\ bcast_idx B q = fst (nth i rows ([], [])) /\
                         bcast_idx (c_shape a2) q = nth j (c_coords a2) []).
    { intros i j Hij. apply Pin in Hij. rewrite map_length in Hij. destruct Hij as [Hi [Hj Esel]].
      change (@nil Z) with (fst (@nil Z, @nil V)) in Esel at 1. rewrite map_nth in Esel.
      rewrite Forall_forall in R1, R2.
      assert (I1 : in_range B (fst (nth i rows ([], [])))) by (apply R1, in_map, nth_In; exact Hi).
      assert (I2 : in_range (c_shape a2) (nth j (c_coords a2) [])) by (apply R2, nth_In; exact Hj).
      destruct (pair_align _ _ _ HB _ _ I1 I2) as [_ [_ [_ P]]]. destruct (P Esel) as [q [Q1 [Q2 [Q3 Q4]]]].
      exists q. unfold g. simpl. rewrite Q1. cbn [bind]. auto. }
    rewrite (mapM_Ok g ([], [])).
    2:{ intros [i j] Hij. destruct (Hg i j Hij) as [q [E _]]. eauto. }
    cbn [bind]. eexists. split; [reflexivity|].
    set (h := fun x => match g x with Ok y => y | Raise _ => ([], []) end).
    assert (Hh : forall i j, In (i, j) pairs ->
               exists q, h (i, j) = (q, snd (nth i rows ([], [])) ++ [nth j (c_data a2) vzero]) /\
                         in_range cur q /\ bcast_idx B q = fst (nth i rows ([], [])) /\
                         bcast_idx (c_shape a2) q = nth j (c_coords a2) []).
    { intros i j Hij. destruct (Hg i j Hij) as [q [E Q]]. exists q. unfold h. rewrite E. auto. }
    split.
    - (* no position twice *)
      rewrite map_map. apply NoDup_map_in; [|exact Pnd].
      intros [i j] [i' j'] Hx Hy E.
      destruct (Hh i j Hx) as [q [E1 [_ [Q3 Q4]]]]. destruct (Hh i' j' Hy) as [q' [E1' [_ [Q3' Q4']]]].
      rewrite E1, E1' in E. simpl in E. subst q'.
      apply Pin in Hx. apply Pin in Hy. rewrite map_length in Hx, Hy.
      destruct Hx as [Hi [Hj _]]. destruct Hy as [Hi' [Hj' _]].
      assert (i = i').
      { apply (proj1 (NoDup_nth (map fst rows) []) Hnd); try (rewrite map_length; assumption).
        change (@nil Z) with (fst (@nil Z, @nil V)). rewrite !map_nth.
        transitivity (bcast_idx B q); [symmetry; exact Q3|exact Q3']. }
      assert (j = j').
      { apply (proj1 (NoDup_nth (c_coords a2) []) (SS_lex_NoDup _ S2)); auto.
        transitivity (bcast_idx (c_shape a2) q); [symmetry; exact Q4|exact Q4']. }
      congruence.
    - intros q vs. rewrite in_map_iff. split.
      + intros [[i j] [E Hij]]. destruct (Hh i j Hij) as [q' [E1 [Q2 [Q3 Q4]]]]. rewrite E1 in E.
        inversion E; subst q' vs. clear E.
        apply Pin in Hij. rewrite map_length in Hij. destruct Hij as [Hi [Hj _]].
        assert (Hrow : In (nth i rows ([], [])) rows) by (apply nth_In; exact Hi).
        destruct (nth i rows ([], [])) as [q1 vs1] eqn:En. simpl in *. apply Hrows in Hrow.
        destruct Hrow as [_ [Hst Hvs]]. split; [exact Q2|]. split.
        * apply Forall_app. split.
          -- rewrite Forall_forall in Hst, Hms |- *. intros c Hc. subst q1.
             apply (stored_trans c B cur q (Hms c Hc) HB1 Q2). apply Hst. exact Hc.
          -- constructor; [|constructor]. unfold stored. rewrite Q4. apply nth_In. exact Hj.
        * rewrite map_app. simpl. f_equal.
          -- rewrite Hvs. apply map_ext_in. intros c Hc. rewrite Forall_forall in Hms. subst q1.
             apply (stored_trans c B cur q (Hms c Hc) HB1 Q2).
          -- f_equal. unfold val_at. rewrite Q4. apply nth_entries; assumption.
      + intros [Hq [Hst Hvs]]. apply Forall_app in Hst. destruct Hst as [Hst1 Hst2].
        inversion Hst2 as [|? ? Hs2 _]; subst.
        (* the row of the first operands *)
        assert (Hrow : In (bcast_idx B q, map (fun c => val_at c q) ms) rows).
        { apply Hrows. split; [eapply bcast_in_range; eauto|]. split.
          - rewrite Forall_forall in Hst1, Hms |- *. intros c Hc.
            apply (stored_trans c B cur q (Hms c Hc) HB1 Hq). apply Hst1. exact Hc.
          - apply map_ext_in. intros c Hc. rewrite Forall_forall in Hms. symmetry.
            apply (stored_trans c B cur q (Hms c Hc) HB1 Hq). }
        apply (In_nth _ _ ([], [])) in Hrow. destruct Hrow as [i [Hi Ei]].
        unfold stored in Hs2. apply (In_nth _ _ []) in Hs2. destruct Hs2 as [j [Hj Ej]].
        destruct (pair_align_inv _ _ _ HB q Hq) as [Esel Emc].
        assert (Hij : In (i, j) pairs).
        { apply Pin. rewrite map_length. repeat split; auto.
          change (@nil Z) with (fst (@nil Z, @nil V)) at 1. rewrite map_nth, Ei, Ej. exact Esel. }
        exists (i, j). split; [|exact Hij]. unfold h, g. simpl. unfold idx in *. rewrite Ei, Ej. simpl. rewrite Emc. cbn [bind].
        f_equal. rewrite map_app. simpl. f_equal. f_equal. unfold val_at. rewrite <- Ej. apply nth_entries; assumption.
  Qed.

  Lemma combine_map_r {A B C} (g : B -> C) (l : list A) (l' : list B) :
    combine l (map g l') = map (fun p => (fst p, g (snd p))) (combine l l').
  Proof. revert l'. induction l as [|a l IH]; intros [|b l']; simpl; auto. rewrite IH. reflexivity. Qed.

  Lemma rows_spec_init (a1 : coo V) :
    canonical V a1 -> rows_spec [a1] (c_shape a1) (combine (c_coords a1) (map (fun v => [v]) (c_data a1))).
  Proof.
    intros Hc. pose proof Hc as [R [Srt L]]. rewrite combine_map_r. fold (entries a1). split.
    - rewrite map_map. simpl. unfold entries. rewrite combine_map_fst by (symmetry; exact L).
      apply SS_lex_NoDup. exact Srt.
    - intros q vs. rewrite in_map_iff. rewrite Forall_forall in R. split.
      + intros [[q' v] [E Hin]]. simpl in E. inversion E; subst q' vs. clear E.
        assert (Hq : In q (c_coords a1)) by (eapply in_combine_l; eauto).
        pose proof (R q Hq) as Rq. split; [exact Rq|]. split.
        * constructor; [|constructor]. unfold stored. rewrite bcast_idx_id by exact Rq. exact Hq.
        * simpl. unfold val_at. rewrite bcast_idx_id by exact Rq. rewrite (den_stored V a1 q v Hc Hin). reflexivity.
      + intros [Hq [Hst Hvs]]. inversion Hst as [|? ? Hs _]; subst. unfold stored in Hs.
        rewrite bcast_idx_id in Hs by exact Hq. simpl. unfold val_at. rewrite bcast_idx_id by exact Hq.
        apply (entries_coords V vzero a1 q L) in Hs. destruct Hs as [v Hv].
        exists (q, v). simpl. split; [|exact Hv]. rewrite (den_stored V a1 q v Hc Hv). reflexivity.
  Qed.

  Lemma rows_spec_expand ms B T rows :
    rows_spec ms B rows -> Forall (fun c => BT (c_shape c) B) ms -> BT B T -> shape_ok T ->
    rows_spec ms T (expand_rows rows (bcast_params B T) T).
  Proof.
    intros [Hnd Hrows] Hms HB Hok.
    assert (Hr : Forall (fun r : idx * list V => in_range B (fst r)) rows).
    { apply Forall_forall. intros [q vs] Hin. apply Hrows in Hin. simpl. tauto. }
    destruct (expand_rows_spec B T rows HB Hok Hr Hnd) as [End Ein]. split; [exact End|].
    intros q vs. rewrite Ein, Hrows. rewrite Forall_forall in Hms. split.
    - intros [Hq [_ [Hst Hvs]]]. split; [exact Hq|]. split.
      + rewrite Forall_forall in Hst |- *. intros c Hc. apply (stored_trans c B T q (Hms c Hc) HB Hq). auto.
      + rewrite Hvs. apply map_ext_in. intros c Hc. apply (stored_trans c B T q (Hms c Hc) HB Hq).
    - intros [Hq [Hst Hvs]]. split; [exact Hq|]. split; [eapply bcast_in_range; eauto|]. split.
      + rewrite Forall_forall in Hst |- *. intros c Hc. apply (stored_trans c B T q (Hms c Hc) HB Hq). auto.
      + rewrite Hvs. apply map_ext_in. intros c Hc. symmetry. apply (stored_trans c B T q (Hms c Hc) HB Hq).
  Qed.

  Lemma match_fold_spec T : forall rest ms B rows,
    rows_spec ms B rows -> Forall (fun c => BT (c_shape c) B) ms -> BT B T ->
    Forall (canonical V) rest -> Forall (fun c => BT (c_shape c) T) rest ->
    exists B' rows',
      fold_left (fun acc a2 => m <- acc ;; match_step V vzero m a2) rest (Ok (B, rows)) = Ok (B', rows') /\
      rows_spec (ms ++ rest) B' rows' /\ Forall (fun c => BT (c_shape c) B') (ms ++ rest) /\ BT B' T.
  Proof.
    induction rest as [|a2 rest IH]; intros ms B rows Hrows Hms HB Hcan HT.
    - exists B, rows. rewrite app_nil_r. simpl. auto.
    - inversion Hcan as [|? ? Ha2 Hcan']; subst. inversion HT as [|? ? HT2 HT']; subst.
      destruct (bc_exists B (c_shape a2) T HB HT2) as [cur [Hb Hcur]].
      destruct (match_step_spec ms B rows a2 cur Hrows Ha2 Hms Hb) as [rows1 [E1 S1]].
      pose proof (broadcast_shape2_BT2 _ _ _ Hb) as HB2.
      cbn [fold_left bind]. rewrite E1.
      destruct (IH (ms ++ [a2]) cur rows1 S1) as [B' [rows' [E' [S' [F' T']]]]]; auto.
      + apply Forall_app. split.
        * eapply Forall_impl; [|exact Hms]. intros c Hc. eapply BT_trans; [exact Hc|]. eapply BT2_left_BT; eauto.
        * constructor; [|constructor]. eapply BT2_right_BT; eauto.
      + exists B', rows'. rewrite <- app_assoc in S', F'. simpl in S', F'. auto.
  Qed.

  Theorem match_coo_spec (ms : list (coo V)) T :
    ms <> [] -> Forall (canonical V) ms -> Forall (fun c => BT (c_shape c) T) ms -> shape_ok T ->
    exists rows, match_coo V vzero ms T = Ok rows /\ rows_spec ms T rows.
  Proof.
    intros Hne Hcan HT Hok. destruct ms as [|a1 rest]; [congruence|].
    inversion Hcan as [|? ? Ha1 Hcan']; subst. inversion HT as [|? ? HT1 HT']; subst.
    destruct (match_fold_spec T rest [a1] (c_shape a1) _ (rows_spec_init a1 Ha1)) as [B' [rows' [E' [S' [F' T']]]]]; auto.
    { constructor; [apply BT_refl|constructor]. }
    unfold match_coo. rewrite E'. cbn [bind]. simpl in S', F'.
    destruct (list_eq_dec Z.eq_dec B' T) as [->|Hne'].
    - exists rows'. auto.
    - pose proof (rows_spec_expand (a1 :: rest) B' T rows' S' F' T' Hok) as Hx. unfold expand_rows in Hx.
      destruct (expand_coords_data (map fst rows') (map snd rows') (bcast_params B' T) T) as [cs vs].
      eexists. split; [reflexivity|exact Hx].
  Qed.

  (* _match_coo(func_array, arg, return_midx=True)[0] *)
  Theorem match_coo_midx_spec sh (coords : list idx) (arg : coo V) :
    Forall (in_range sh) coords -> canonical V arg -> BT (c_shape arg) sh ->
    exists l, match_coo_midx V sh coords arg = Ok l /\
              forall n, In n l <-> (n < length coords)%nat /\ stored arg (nth n coords []).
  Proof.
    intros Rc Ha HB. pose proof Ha as [Ra [Sa La]]. pose proof (bc_into _ _ HB) as Hb.
    destruct (match_pairs_spec sh coords (c_shape arg) (c_coords arg) sh Hb Rc Ra) as [pairs [Hmp [Pnd Pin]]].
    unfold match_coo_midx. rewrite Hmp. cbn [bind]. eexists. split; [reflexivity|].
    pose proof (broadcast_shape2_BT2 _ _ _ Hb) as HB2.
    intros n. rewrite in_map_iff. rewrite Forall_forall in Rc, Ra. unfold idx, stored in *. split.
    - intros [[n' j] [E Hin]]. simpl in E. subst n'. apply Pin in Hin. destruct Hin as [Hn [Hj Esel]].
      split; [exact Hn|]. pose proof (Rc _ (nth_In _ [] Hn)) as Rn. pose proof (Ra _ (nth_In _ [] Hj)) as Rj.
      destruct (pair_align _ _ _ HB2 _ _ Rn Rj) as [_ [_ [_ P]]]. destruct (P Esel) as [q [_ [Q2 [Q3 Q4]]]].
      rewrite bcast_idx_id in Q3 by exact Q2. subst q. unfold stored. rewrite Q4. apply nth_In. exact Hj.
    - intros [Hn Hst]. unfold stored in Hst. apply (In_nth _ _ []) in Hst. destruct Hst as [j [Hj Ej]].
      exists (n, j). split; [reflexivity|]. apply Pin. repeat split; auto.
      pose proof (Rc _ (nth_In _ [] Hn)) as Rn.
      destruct (pair_align_inv _ _ _ HB2 _ Rn) as [Esel _]. rewrite bcast_idx_id in Esel by exact Rn.
      rewrite Ej. exact Esel.
  Qed.
End General.

(* ================================================================== one mask of _get_func_coords_data *)

Lemma shape_ok_ext (r : shape) : (forall k, (k < length r)%nat -> 0 <= ext_from_end r k) -> shape_ok r.
Proof.
  intros H. unfold shape_ok. rewrite <- (rev_involutive r). apply Forall_rev. apply Forall_forall. intros d Hd.
  apply (In_nth _ _ 1) in Hd. destruct Hd as [k [Hk <-]]. rewrite rev_length in Hk. apply (H k Hk).
Qed.

Lemma shape_ok_ext_inv (r : shape) k : shape_ok r -> 0 <= ext_from_end r k.
Proof.
  intros H. unfold ext_from_end. destruct (Nat.lt_ge_cases k (length (rev r))) as [Hk|Hk].
  - assert (Hin : In (nth k (rev r) 1) r) by (apply in_rev, nth_In; exact Hk).
    unfold shape_ok in H. rewrite Forall_forall in H. apply H. exact Hin.
  - rewrite nth_overflow by exact Hk. lia.
Qed.

Lemma rel_shape_ok shapes r : Forall shape_ok shapes -> np_broadcast_rel shapes r -> shape_ok r.
Proof.
  intros Hs [L [A B]]. apply shape_ok_ext. intros k Hk. destruct (B k Hk) as [s [Is [_ Es]]]. rewrite <- Es.
  apply shape_ok_ext_inv. rewrite Forall_forall in Hs. auto.
Qed.

Lemma compat_incl l l' : compat l -> incl l' l -> compat l'.
Proof. intros H Hi s1 s2 k I1 I2. apply H; apply Hi; assumption. Qed.

(* a sub-family of broadcastable shapes is broadcastable, into a shape that broadcasts to the full one *)
Lemma nary_sub shapes sh l :
  np_broadcast_rel shapes sh -> incl l shapes ->
  exists m, nary_broadcast_shape l = Ok m /\ np_broadcast_rel l m /\ BT m sh.
Proof.
  intros Hrel Hi. pose proof (nary_sound l) as Hs. destruct (nary_broadcast_shape l) as [m|e].
  - exists m. split; [reflexivity|]. split; [exact Hs|]. destruct Hs as [L [A B]]. destruct Hrel as [L' [A' B']].
    apply BT_intro.
    + rewrite L, L'. clear -Hi. induction l as [|s l IH]; simpl; [lia|].
      assert (length s <= max_ndim shapes)%nat by (apply max_ndim_ge, Hi; simpl; auto).
      assert (max_ndim l <= max_ndim shapes)%nat by (apply IH; intros x Hx; apply Hi; simpl; auto). lia.
    + intros k Hk. destruct (B k Hk) as [s [Is [_ Es]]]. rewrite <- Es.
      destruct (A' s k (Hi s Is)); auto.
  - exfalso. destruct Hs as [_ Hn]. apply Hn. eapply compat_incl; [eapply rel_compat; exact Hrel|exact Hi].
Qed.

Lemma BT_shape_ok s T : BT s T -> shape_ok T -> shape_ok s.
Proof.
  unfold shape_ok. induction 1 as [|s d cur HB IH|e s d cur Hl He HB IH]; intros Hok; [constructor| |].
  - inversion Hok; subst. auto.
  - inversion Hok; subst. constructor; [destruct He; lia|auto].
Qed.

Section Pieces.
  Variable V : Type.
  Variable veqb : V -> V -> bool.
  Variable vzero : V.
  Variable f : list V -> V.
  Hypothesis veqb_eq : forall a b, veqb a b = true <-> a = b.

  Notation stored := (stored V).
  Notation val_at := (val_at V).

  Definition op_ok (a : operand V) : Prop :=
    match a with
    | OSp c => canonical V c /\ shape_ok (c_shape c)
    | ODn d => shape_ok (d_shape d)
    end.

  (* NumPy's value of f(operands) at index q of the broadcast shape *)
  Definition F (args : list (operand V)) (q : idx) : V := f (map (fun a => operand_at V vzero a q) args).

  Definition choices (a : operand V) : list (option bool) :=
    if is_sparse V a then s_mask_choices_sparse else s_mask_choices_other.

  Lemma masks_cons_In a r m :
    In m (masks V (a :: r)) <-> exists c m', m = c :: m' /\ In c (choices a) /\ In m' (masks V r).
  Proof.
    simpl. fold (choices a). rewrite in_flat_map. split.
    - intros [c [Hc Hm]]. apply in_map_iff in Hm. destruct Hm as [m' [<- Hm']]. eauto.
    - intros [c [m' [-> [Hc Hm']]]]. exists c. split; [exact Hc|]. apply in_map. exact Hm'.
  Qed.

  Lemma sparse_of_cons a ar mi mr w :
    sparse_of V (a :: ar) (mi :: mr) w =
    (match a, mi with OSp c, Some b => if Bool.eqb b w then [c] else [] | _, _ => [] end) ++ sparse_of V ar mr w.
  Proof. unfold sparse_of. simpl. destruct a, mi; reflexivity. Qed.

  (* the values func is applied to under a mask: matched operands their value, unmatched ones their
     fill value, ndarrays their element *)
  Fixpoint mvals (args : list (operand V)) (m : list (option bool)) (q : idx) : list V :=
    match args, m with
    | a :: ar, mi :: mr =>
      (match a, mi with
       | OSp c, Some true => val_at c q
       | OSp c, _ => c_fill c
       | ODn d, _ => dense_get vzero d (bcast_idx (d_shape d) q)
       end) :: mvals ar mr q
    | _, _ => []
    end.

  Lemma func_args_mvals args m q :
    func_args V vzero args m q (map (fun c => val_at c q) (sparse_of V args m true)) = mvals args m q.
  Proof.
    revert m. induction args as [|a ar IH]; intros [|mi mr]; try reflexivity.
    rewrite sparse_of_cons. destruct a as [c|d]; [destruct mi as [[|]|]|]; simpl; rewrite IH; reflexivity.
  Qed.

  Definition aligned (mbs : shape) (a : operand V) (mi : option bool) : Prop :=
    match a, mi with
    | OSp c, Some true => BT (c_shape c) mbs
    | ODn d, _ => BT (d_shape d) mbs
    | _, _ => True
    end.

  Lemma mvals_bcast args m mbs sh q :
    (forall a mi, In (a, mi) (combine args m) -> aligned mbs a mi) -> BT mbs sh -> in_range sh q ->
    mvals args m (bcast_idx mbs q) = mvals args m q.
  Proof.
    intros Hal HB Hq. revert m Hal. induction args as [|a ar IH]; intros [|mi mr] Hal; simpl; try reflexivity.
    f_equal; [|apply IH; intros; apply Hal; simpl; auto].
    specialize (Hal a mi (or_introl eq_refl)). unfold aligned in Hal.
    destruct a as [c|d]; [destruct mi as [[|]|]|]; try reflexivity.
    - apply (stored_trans V c mbs sh q Hal HB Hq).
    - rewrite (bcast_idx_trans _ _ _ Hal HB q Hq). reflexivity.
  Qed.

  Lemma mvals_F args m q :
    In m (masks V args) -> (forall c, In c (sparse_of V args m false) -> ~ stored c q) ->
    mvals args m q = map (fun a => operand_at V vzero a q) args.
  Proof.
    revert m. induction args as [|a ar IH]; intros m Hm Hun.
    - simpl in Hm. destruct Hm as [<-|[]]. reflexivity.
    - apply masks_cons_In in Hm. destruct Hm as [c [m' [-> [Hc Hm']]]]. simpl.
      rewrite sparse_of_cons in Hun. f_equal.
      + unfold choices in Hc. destruct a as [co|d]; simpl in Hc.
        * destruct Hc as [<-|[<-|[]]]; [reflexivity|]. simpl in Hun. symmetry. apply den_unstored.
          apply (Hun co). left. reflexivity.
        * reflexivity.
      + apply IH; [exact Hm'|]. intros c0 Hc0. apply Hun. apply in_or_app. right. exact Hc0.
  Qed.

  (* filter_pos against the positions matched by the unmatched operands *)
  Lemma drop_unmatched_spec sh (es : list (idx * V)) (unm : list (coo V)) :
    Forall (fun e => in_range sh (fst e)) es ->
    Forall (fun c => canonical V c /\ BT (c_shape c) sh) unm ->
    exists bad, mapM (fun arg => match_coo_midx V sh (map fst es) arg) unm = Ok bad /\
      forall q v, In (q, v) (filter_pos (fun n => negb (existsb (Nat.eqb n) (concat bad))) O es) <->
                  In (q, v) es /\ forall c, In c unm -> ~ stored c q.
  Proof.
    intros Hr Hun.
    assert (Rc : Forall (in_range sh) (map fst es)).
    { apply Forall_forall. intros q Hq. apply in_map_iff in Hq. destruct Hq as [e [<- He]].
      rewrite Forall_forall in Hr. auto. }
    rewrite Forall_forall in Hun.
    rewrite (mapM_Ok _ []).
    2:{ intros c Hc. destruct (Hun c Hc) as [H1 H2]. destruct (match_coo_midx_spec V sh (map fst es) c Rc H1 H2) as [l [E _]].
        eauto. }
    eexists. split; [reflexivity|].
    assert (Hbad : forall n, In n (concat (map (fun x => match match_coo_midx V sh (map fst es) x with
                                                          | Ok y => y | Raise _ => [] end) unm)) <->
                             (n < length es)%nat /\ exists c, In c unm /\ stored c (nth n (map fst es) [])).
    { intros n. rewrite in_concat. split.
      - intros [l [Hl Hn]]. apply in_map_iff in Hl. destruct Hl as [c [<- Hc]].
        destruct (Hun c Hc) as [H1 H2]. destruct (match_coo_midx_spec V sh (map fst es) c Rc H1 H2) as [l [E Hl]].
        rewrite E in Hn. apply Hl in Hn. rewrite map_length in Hn. destruct Hn. eauto.
      - intros [Hn [c [Hc Hs]]]. destruct (Hun c Hc) as [H1 H2].
        destruct (match_coo_midx_spec V sh (map fst es) c Rc H1 H2) as [l [E Hl]].
        exists l. split; [apply in_map_iff; exists c; rewrite E; auto|]. apply Hl. rewrite map_length. auto. }
    intros q v. rewrite filter_pos_In. simpl. split.
    - intros [n [Hn Hk]]. split; [eapply nth_error_In; eauto|]. intros c Hc Hs.
      apply negb_true_iff in Hk. assert (Hn' : (n < length es)%nat) by (apply nth_error_Some; congruence).
      assert (Hin : In n (concat (map (fun x => match match_coo_midx V sh (map fst es) x with
                                                 | Ok y => y | Raise _ => [] end) unm))).
      { apply Hbad. split; [exact Hn'|]. exists c. split; [exact Hc|].
        change (@nil Z) with (fst (@nil Z, v)). rewrite map_nth.
        apply nth_error_nth with (d := ([], v)) in Hn. rewrite Hn. exact Hs. }
      assert (existsb (Nat.eqb n) (concat (map (fun x => match match_coo_midx V sh (map fst es) x with
                                                 | Ok y => y | Raise _ => [] end) unm)) = true); [|congruence].
      apply existsb_exists. exists n. split; [exact Hin|apply Nat.eqb_refl].
    - intros [Hin Hno]. apply In_nth_error in Hin. destruct Hin as [n Hn]. exists n. split; [exact Hn|].
      apply negb_true_iff. apply not_true_is_false. intros Hex. apply existsb_exists in Hex.
      destruct Hex as [n' [Hin' En]]. apply Nat.eqb_eq in En. subst n'. apply Hbad in Hin'.
      destruct Hin' as [_ [c [Hc Hs]]]. apply (Hno c Hc).
      change (@nil Z) with (fst (@nil Z, v)) in Hs. rewrite map_nth in Hs.
      apply nth_error_nth with (d := ([], v)) in Hn. rewrite Hn in Hs. exact Hs.
  Qed.
End Pieces.
