(* Proofs/ProgP.v — property C06, part 2: every result of every program is well formed, and
   a canonical array without stored fill values stores exactly its non-fill elements. *)
From Coq Require Import String ZArith List Bool Lia Sorting.Sorted.
From Verif Require Import Shape COO COOP GCXS Ctor CtorP Prog.
Import ListNotations.
Open Scope Z_scope.

(* ------------------------------------------------------------------ abstract programs *)

Section ProgP.
  Variable A : Type.
  Variables O0 O1 O2 ON : Type.
  Variable sem0 : O0 -> option A.
  Variable sem1 : O1 -> A -> option A.
  Variable sem2 : O2 -> A -> A -> option A.
  Variable semN : ON -> list A -> option A.

  Notation prog := (prog O0 O1 O2 ON).
  Notation eval := (eval A O0 O1 O2 ON sem0 sem1 sem2 semN).
  Notation eval_list := (eval_list A O0 O1 O2 ON sem0 sem1 sem2 semN).

  (* induction over programs, with the n-ary case carrying the hypothesis for every operand *)
  Section Ind.
    Variable P : prog -> Prop.
    Hypothesis hI : forall n, P (PInput n).
    Hypothesis hC : forall o, P (PCreate o).
    Hypothesis hU : forall o p, P p -> P (PUn o p).
    Hypothesis hB : forall o p q, P p -> P q -> P (PBin o p q).
    Hypothesis hN : forall o ps, Forall P ps -> P (PNary o ps).

    Fixpoint prog_ind' (p : prog) : P p :=
      match p with
      | PInput n => hI n
      | PCreate o => hC o
      | PUn o p => hU o p (prog_ind' p)
      | PBin o p q => hB o p q (prog_ind' p) (prog_ind' q)
      | PNary o ps =>
        hN o ps ((fix go (l : list prog) : Forall P l :=
                    match l with
                    | [] => Forall_nil P
                    | x :: r => Forall_cons x (prog_ind' x) (go r)
                    end) ps)
      end.
  End Ind.

  Lemma eval_nary env o ps :
    eval env (PNary o ps) = match eval_list env ps with Some l => semN o l | None => None end.
  Proof.
    simpl.
    match goal with |- match ?f ps with _ => _ end = _ => assert (E : f ps = eval_list env ps) end.
    { induction ps as [|p r IH]; [reflexivity|]. simpl. rewrite <- IH. reflexivity. }
    rewrite E. reflexivity.
  Qed.

  (* an invariant kept by every operation is kept by every program *)
  Section Invariant.
    Variable I : A -> Prop.
    Hypothesis keep0 : forall o r, sem0 o = Some r -> I r.
    Hypothesis keep1 : forall o a r, I a -> sem1 o a = Some r -> I r.
    Hypothesis keep2 : forall o a b r, I a -> I b -> sem2 o a b = Some r -> I r.
    Hypothesis keepN : forall o l r, Forall I l -> semN o l = Some r -> I r.

    Theorem eval_invariant (env : list A) :
      Forall I env -> forall p r, eval env p = Some r -> I r.
    Proof.
      intros Henv p. induction p as [n|o|o p IH|o p q IHp IHq|o ps IH] using prog_ind'; intros r.
      - simpl. intros H. apply nth_error_In in H. rewrite Forall_forall in Henv. auto.
      - simpl. apply keep0.
      - simpl. destruct (eval env p) as [a|] eqn:E; [|discriminate]. intros H.
        eapply keep1; [|exact H]. apply IH. reflexivity.
      - simpl. destruct (eval env p) as [a|] eqn:Ea; [|discriminate].
        destruct (eval env q) as [b|] eqn:Eb; [|discriminate]. intros H.
        eapply keep2; [| |exact H]; [apply IHp|apply IHq]; reflexivity.
      - rewrite eval_nary. destruct (eval_list env ps) as [l|] eqn:E; [|discriminate]. intros H.
        eapply keepN; [|exact H]. clear H. revert l E.
        induction IH as [|p ps Hp _ IHps]; intros l E; simpl in E.
        + inversion E. constructor.
        + destruct (eval env p) as [a|] eqn:Ea; [|discriminate].
          destruct (eval_list env ps) as [t|] eqn:Et; [|discriminate].
          inversion E; subst. constructor; [apply Hp; reflexivity|apply IHps; reflexivity].
    Qed.
  End Invariant.
End ProgP.

(* ------------------------------------------------------------------ nnz = number of non-fill elements *)

Section Count.
  Variable V : Type.
  Variable veqb : V -> V -> bool.
  Hypothesis veqb_eq : forall a b, veqb a b = true <-> a = b.

  Theorem nnz_count_proof (c : coo V) :
    canonical V c -> prunedb veqb c = true -> nnz c = count_nonfill V veqb c.
  Proof.
    intros Hc Hp. unfold nnz, count_nonfill. do 2 f_equal.
    apply SS_same_members.
    - apply Hc.
    - apply SS_filter, all_indices_SS.
    - intros x. rewrite (stored_iff V veqb veqb_eq c x Hc Hp), filter_In, all_indices_In.
      split; intros [Hr Hn]; split; auto.
      + destruct (veqb (den c x) (c_fill c)) eqn:E; [apply veqb_eq in E; contradiction|reflexivity].
      + intros Heq. apply veqb_eq in Heq. rewrite Heq in Hn. discriminate.
  Qed.

  (* programs over ANY signature whose arrays are COO: if the operands are canonical and store no
     fill value, and every operation keeps that, then nnz of every result counts its non-fill
     elements *)
  Theorem nnz_counts_nonfill_proof
    (O0 O1 O2 ON : Type)
    (sem0 : O0 -> option (coo V)) (sem1 : O1 -> coo V -> option (coo V))
    (sem2 : O2 -> coo V -> coo V -> option (coo V)) (semN : ON -> list (coo V) -> option (coo V)) :
    let good := fun c : coo V => canonical V c /\ prunedb veqb c = true in
    (forall o r, sem0 o = Some r -> good r) ->
    (forall o a r, good a -> sem1 o a = Some r -> good r) ->
    (forall o a b r, good a -> good b -> sem2 o a b = Some r -> good r) ->
    (forall o l r, Forall good l -> semN o l = Some r -> good r) ->
    forall env, Forall good env ->
    forall p r, eval (coo V) O0 O1 O2 ON sem0 sem1 sem2 semN env p = Some r ->
    nnz r = count_nonfill V veqb r.
  Proof.
    intros good k0 k1 k2 kN env Henv p r H.
    destruct (eval_invariant _ _ _ _ _ _ _ _ _ good k0 k1 k2 kN env Henv p r H) as [Hc Hp].
    apply nnz_count_proof; assumption.
  Qed.
End Count.

(* ------------------------------------------------------------------ the constructor-level instance *)

Lemma fl_triu_eq : fl_triu = mkFlags true false false. Proof. vm_compute. reflexivity. Qed.
Lemma fl_reshape_eq : fl_reshape = mkFlags true false false. Proof. vm_compute. reflexivity. Qed.
Lemma fl_concat0_eq : fl_concat0 = mkFlags true false false. Proof. vm_compute. reflexivity. Qed.
Lemma fl_full_eq : fl_full = mkFlags true false false. Proof. vm_compute. reflexivity. Qed.

Lemma combine_map_snd {A B} (l1 : list A) (l2 : list B) :
  length l1 = length l2 -> map snd (combine l1 l2) = l2.
Proof. revert l2; induction l1; intros [|b l2]; simpl; try discriminate; auto. intros H. f_equal. apply IHl1. lia. Qed.

Lemma offset_concat_length off blocks :
  length (offset_concat off blocks) = length (concat (map snd blocks)).
Proof.
  revert off. induction blocks as [|[d cs] r IH]; intros off; simpl; [reflexivity|].
  rewrite !app_length, map_length, IH. reflexivity.
Qed.

Section CooOpsP.
  Variable V : Type.
  Variable veqb : V -> V -> bool.
  Variable add : V -> V -> V.
  Hypothesis veqb_eq : forall a b, veqb a b = true <-> a = b.

  Notation ctor := (coo_ctor V veqb add).
  Notation canon := (canonical V).

  (* with (sorted=True, has_duplicates=False, prune=False) the constructor stores what it is given *)
  Lemma ctor_TF_id coords data sh fill :
    length data = length coords -> ctor (mkFlags true false false) coords data sh fill = mkCOO sh coords data fill.
  Proof.
    intros H. unfold coo_ctor, ctor_entries. simpl.
    rewrite combine_map_fst, combine_map_snd by lia. reflexivity.
  Qed.

  Lemma canonical_of_canon_coords fl sh coords data fill :
    length data = length coords -> canon_coords sh coords -> canon (ctor fl coords data sh fill).
  Proof.
    intros Hl Hc. destruct (canon_promises sh coords Hc) as [Hs Hn].
    apply ctor_canonical_proof; auto. apply Hc.
  Qed.

  Lemma shape_okb_ok sh : shape_okb sh = true -> shape_ok sh.
  Proof.
    unfold shape_okb, shape_ok. rewrite forallb_forall, Forall_forall. intros H d Hd.
    specialize (H d Hd). lia.
  Qed.

  (* pruned data *)
  Definition pr (fill : V) (data : list V) : Prop := forallb (fun v => negb (veqb v fill)) data = true.

  Lemma pr_incl fill d1 d2 : (forall v, In v d1 -> In v d2) -> pr fill d2 -> pr fill d1.
  Proof. unfold pr. rewrite !forallb_forall. auto. Qed.

  Definition good (c : coo V) : Prop := canon c /\ prunedb veqb c = true.

  (* -------- creation *)
  Lemma keep0_wf o r : csem0 V veqb add o = Some r -> canon r.
  Proof.
    destruct o as [sh fill|d fill]; simpl.
    - destruct (shape_okb sh); [|discriminate]. intros H; inversion H; subst.
      apply canonical_of_canon_coords; [reflexivity|apply schema_EmptyCoords].
    - intros H; inversion H; subst. apply canonicalb_spec. apply (from_dense_canonical V veqb d fill).
  Qed.

  Lemma keep0_good o r : csem0 V veqb add o = Some r -> good r.
  Proof.
    intros H. split; [eapply keep0_wf; exact H|]. destruct o as [sh fill|d fill]; simpl in H.
    - destruct (shape_okb sh); [|discriminate]. inversion H; subst.
      rewrite fl_full_eq, ctor_TF_id by reflexivity. reflexivity.
    - inversion H; subst. apply (from_dense_canonical V veqb d fill).
  Qed.

  (* -------- unary *)
  Lemma filter_entries_lengths (c : coo V) (p : idx * V -> bool) :
    length (map snd (filter p (entries c))) = length (map fst (filter p (entries c))).
  Proof. rewrite !map_length. reflexivity. Qed.

  Lemma keep1_wf o a r : canon a -> csem1 V veqb add o a = Some r -> canon r.
  Proof.
    intros Ha. destruct o as [p|sh'|]; simpl.
    - intros H; inversion H; subst. apply canonical_of_canon_coords; [apply filter_entries_lengths|].
      apply (schema_FilterOfCanonical_entries V (fun e => p (fst e) (snd e)) a Ha).
    - destruct (shape_okb sh') eqn:Eok; [|discriminate]. simpl.
      destruct (Z.eqb_spec (size sh') (size (c_shape a))) as [Es|]; [|discriminate].
      intros H; inversion H; subst. destruct Ha as [Hr [Hs Hl]].
      apply canonical_of_canon_coords; [rewrite map_length; assumption|].
      destruct (reshape_monotone (c_shape a) sh' (shape_okb_ok _ Eok) Es) as [M1 M2].
      apply (schema_InjectiveMonotoneMap (c_shape a)); auto. split; assumption.
    - intros H; inversion H; subst. destruct Ha as [Hr [Hs Hl]].
      apply ctor_canonical_proof; auto; discriminate.
  Qed.

  Lemma keep1_good o a r : good a -> csem1 V veqb add o a = Some r -> good r.
  Proof.
    intros [Ha Hp] H. split; [eapply keep1_wf; eauto|]. destruct o as [p|sh'|]; simpl in H.
    - inversion H; subst. rewrite fl_triu_eq, ctor_TF_id by apply filter_entries_lengths.
      unfold prunedb in *. simpl. eapply pr_incl; [|exact Hp].
      intros v Hv. apply in_map_iff in Hv. destruct Hv as [e [<- He]]. apply filter_In in He.
      destruct He as [He _]. destruct e as [k w]. eapply in_combine_r. exact He.
    - destruct (shape_okb sh' && (size sh' =? size (c_shape a))); [|discriminate]. inversion H; subst.
      destruct Ha as [_ [_ Hl]]. rewrite fl_reshape_eq, ctor_TF_id by (rewrite map_length; assumption). exact Hp.
    - inversion H; subst. destruct Ha as [Hr [Hs Hl]].
      apply ctor_pruned_proof; auto; discriminate.
  Qed.

  (* -------- concatenation along axis 0 *)
  Lemma concat0_blocks (l : list (coo V)) tail :
    Forall canon l ->
    forallb (fun c => match c_shape c with d :: t => (0 <=? d) && idx_eqb t tail | [] => false end) l = true ->
    Forall (fun b => 0 <= fst b /\ canon_coords (fst b :: tail) (snd b))
           (map (fun c => (hd 0 (c_shape c), c_coords c)) l).
  Proof.
    intros Hc Hf. rewrite Forall_map. rewrite forallb_forall in Hf. rewrite Forall_forall in *.
    intros c Hin. specialize (Hf c Hin). specialize (Hc c Hin). simpl.
    destruct (c_shape c) as [|d t] eqn:Es; [discriminate|]. apply andb_true_iff in Hf.
    destruct Hf as [Hd Ht]. apply idx_eqb_eq in Ht. subst t. simpl. split; [lia|].
    destruct Hc as [Hr [Hs _]]. rewrite Es in Hr. split; assumption.
  Qed.

  Lemma concat0_lengths (l : list (coo V)) :
    Forall canon l ->
    length (concat (map (@c_data V) l))
    = length (offset_concat 0 (map (fun c => (hd 0 (c_shape c), c_coords c)) l)).
  Proof.
    intros Hc. rewrite offset_concat_length, map_map. simpl.
    induction Hc as [|c r [_ [_ Hl]] _ IH]; simpl; [reflexivity|]. rewrite !app_length, IH, Hl. reflexivity.
  Qed.

  Lemma forallb_and {X} (f g : X -> bool) l :
    forallb (fun x => f x && g x) l = true -> forallb f l = true /\ forallb g l = true.
  Proof.
    rewrite !forallb_forall. intros H. split; intros x Hx; specialize (H x Hx); apply andb_true_iff in H; tauto.
  Qed.

  Lemma concat0_wf l r : Forall canon l -> concat0 V veqb add l = Some r -> canon r.
  Proof.
    intros Hc. unfold concat0. destruct l as [|a0 l0]; [discriminate|].
    set (l := a0 :: l0) in *.
    destruct (forallb _ l) eqn:Ef; [|discriminate]. intros H; injection H as <-.
    apply forallb_and in Ef. destruct Ef as [Ef _].
    apply canonical_of_canon_coords; [exact (concat0_lengths l Hc)|].
    exact (schema_FromSortedOffsetConcat _ _ (concat0_blocks l _ Hc Ef)).
  Qed.

  Lemma concat0_good l r : Forall good l -> concat0 V veqb add l = Some r -> good r.
  Proof.
    intros Hg H.
    assert (Hc : Forall canon l) by (eapply Forall_impl; [|exact Hg]; intros c [? _]; assumption).
    split; [eapply concat0_wf; eauto|].
    unfold concat0 in H. destruct l as [|a0 l0]; [discriminate|]. set (l := a0 :: l0) in *.
    destruct (forallb _ l) eqn:Ef; [|discriminate]. injection H as <-.
    apply forallb_and in Ef. destruct Ef as [_ Ef].
    rewrite fl_concat0_eq, ctor_TF_id by (exact (concat0_lengths l Hc)).
    unfold prunedb. cbn [c_data c_fill].
    change (c_data a0 ++ concat (map (@c_data V) l0)) with (concat (map (@c_data V) l)). apply forallb_forall. intros v Hv. apply in_concat in Hv.
    destruct Hv as [d [Hd Hv]]. apply in_map_iff in Hd. destruct Hd as [c [<- Hin]].
    rewrite Forall_forall in Hg. destruct (Hg c Hin) as [_ Hp]. rewrite forallb_forall in Ef.
    specialize (Ef c Hin). apply veqb_eq in Ef. unfold prunedb in Hp. rewrite forallb_forall in Hp.
    rewrite <- Ef. auto.
  Qed.

  (* -------- binary *)
  Lemma keep2_wf o a b r : canon a -> canon b -> csem2 V veqb add o a b = Some r -> canon r.
  Proof.
    intros Ha Hb. destruct o; [simpl|].
    - destruct (idx_eqb (c_shape a) (c_shape b)) eqn:Es; [|discriminate]. simpl.
      destruct (veqb (c_fill a) (c_fill b)); [|discriminate]. intros H; inversion H; subst.
      apply idx_eqb_eq in Es. destruct Ha as [Ra [_ La]], Hb as [Rb [_ Lb]].
      apply ctor_canonical_proof; auto; try discriminate.
      + rewrite !app_length. lia.
      + apply Forall_app. split; [assumption|rewrite Es; assumption].
    - unfold csem2. apply concat0_wf. constructor; [assumption|]. constructor; [assumption|constructor].
  Qed.

  Lemma keep2_good o a b r : good a -> good b -> csem2 V veqb add o a b = Some r -> good r.
  Proof.
    intros Ga Gb H. destruct o.
    - split; [eapply keep2_wf; [apply Ga|apply Gb|exact H]|]. simpl in H.
      destruct (idx_eqb (c_shape a) (c_shape b)) eqn:Es; [|discriminate]. simpl in H.
      destruct (veqb (c_fill a) (c_fill b)); [|discriminate]. inversion H; subst.
      apply idx_eqb_eq in Es. destruct Ga as [[Ra [_ La]] _], Gb as [[Rb [_ Lb]] _].
      apply ctor_pruned_proof; auto; try discriminate.
      + rewrite !app_length. lia.
      + apply Forall_app. split; [assumption|rewrite Es; assumption].
    - unfold csem2 in H. eapply concat0_good; [|exact H]. constructor; [assumption|]. constructor; [assumption|constructor].
  Qed.

  Lemma keepN_wf o l r : Forall canon l -> csemN V veqb add o l = Some r -> canon r.
  Proof. destruct o. apply concat0_wf. Qed.

  Lemma keepN_good o l r : Forall good l -> csemN V veqb add o l = Some r -> good r.
  Proof. destruct o. apply concat0_good. Qed.

  (* -------- programs over the instance *)
  Theorem coo_programs_wellformed_proof (env : list (coo V)) (p : cprog V) (r : coo V) :
    Forall canon env -> ceval V veqb add env p = Some r -> canon r.
  Proof.
    intros Henv. unfold ceval.
    apply (eval_invariant _ _ _ _ _ _ _ _ _ canon keep0_wf keep1_wf keep2_wf keepN_wf env Henv).
  Qed.

  Theorem coo_programs_nnz_proof (env : list (coo V)) (p : cprog V) (r : coo V) :
    Forall (fun c => canon c /\ prunedb veqb c = true) env ->
    ceval V veqb add env p = Some r ->
    canon r /\ prunedb veqb r = true /\ nnz r = count_nonfill V veqb r.
  Proof.
    intros Henv H.
    assert (G : good r).
    { unfold ceval in H.
      exact (eval_invariant _ _ _ _ _ _ _ _ _ good keep0_good keep1_good keep2_good keepN_good env Henv p r H). }
    destruct G as [Hc Hp]. split; [exact Hc|]. split; [exact Hp|]. apply nnz_count_proof; assumption.
  Qed.
End CooOpsP.

(* ------------------------------------------------------------------ non-vacuity *)

Definition zcop_prog : cprog Z :=
  PUn (UReshape Z [3; 2])
      (PBin BConcat0
            (PBin BAdd (PInput 0) (PInput 1))
            (PUn (UFilter Z (fun k v => v <? 5)) (PInput 0))).

Definition zenv : list (coo Z) :=
  [ mkCOO [1; 3] [[0; 0]; [0; 2]] [4; 7] 0 ; mkCOO [1; 3] [[0; 0]; [0; 1]] [-4; 2] 0 ].

Example coo_program_example :
  ceval Z Z.eqb Z.add zenv zcop_prog = Some (mkCOO [3; 2] [[0; 1]; [1; 0]; [1; 1]] [2; 7; 4] 0).
Proof. vm_compute. reflexivity. Qed.

Example zenv_good : Forall (fun c => canonical Z c /\ prunedb Z.eqb c = true) zenv.
Proof. repeat constructor; simpl; lia. Qed.

(* ------------------------------------------------------------------ theorems of the other developments cited by
   the justification table (Model/Ctor.v: JustifiedBy).  Each citation is a corollary closed with the
   cited theorem's proof (the lemma its Props statement is `exact` of), so a citation whose theorem
   disappears or changes its statement no longer compiles; Props.C06.every_cited_theorem_exists ties
   the names in the table to this registry. *)
From Verif Require Py NpIndex CooIndex CooIndexNormP CooIndexP CooIndexArrP ShapeOps NpShapeOps ShapeOpsP
  Join NpJoin JoinP Convert ConvertG ConvertP Reduce NpReduce ReduceP ReduceGcxsP Dot NpDot DotP Npz S_npz NpzP.

(* C02.coo_getitem_den *)
Lemma cite_coo_getitem_basic (V : Type) (kf : nat -> nat) (x : coo V) (ix : NpIndex.index) sh' g (y : coo V) :
  canonical V x -> CooIndexNormP.shape_okb (c_shape x) = true -> CooIndexNormP.no_zero_step ix = true ->
  CooIndexP.basic ix = true ->
  NpIndex.np_index (c_shape x) ix = Py.Ok (sh', g) -> CooIndex.getitem kf x ix = Py.Ok (CooIndex.GArr y) ->
  canonical V y.
Proof.
  intros H1 H2 H3 H4 E1 E2. pose proof (CooIndexP.coo_getitem_basic_proof V kf x ix H1 H2 H3 H4) as H.
  rewrite E1, E2 in H. apply H.
Qed.

(* C02.coo_getitem_one_array_partial *)
Lemma cite_coo_getitem_one_array (V : Type) (kf : nat -> nat) (x : coo V) (ix : NpIndex.index) sh' g (y : coo V) :
  canonical V x -> CooIndexNormP.shape_okb (c_shape x) = true -> CooIndexNormP.no_zero_step ix = true ->
  CooIndexArrP.one_array ix = true -> CooIndexNormP.d29_clause (c_shape x) ix = true ->
  NpIndex.np_index (c_shape x) ix = Py.Ok (sh', g) -> CooIndex.getitem kf x ix = Py.Ok (CooIndex.GArr y) ->
  canonical V y.
Proof.
  intros H1 H2 H3 H4 H5 E1 E2. pose proof (CooIndexArrP.coo_getitem_one_array_proof V kf x ix H1 H2 H3 H4 H5) as H.
  rewrite E1, E2 in H. apply H.
Qed.

(* C08.broadcast_to_den / broadcast_to_sorted_rule_sound *)
Lemma cite_broadcast_to_canonical (V : Type) (veqb : V -> V -> bool) (x r : coo V) (target : shape) :
  canonical V x -> NpShapeOps.np_broadcast_ok (c_shape x) target = true ->
  ShapeOps.coo_broadcast_to x target = Py.Ok r -> canonical V r.
Proof.
  intros H1 H2 E. destruct (ShapeOpsP.broadcast_to_den_proof V veqb x H1 target H2) as [r' [E' [_ [_ [Hc _]]]]].
  rewrite E in E'. injection E' as <-. exact Hc.
Qed.

Lemma cite_broadcast_to_sorted_rule (V : Type) (x : coo V) (params : list (option bool)) (bs : shape) :
  canonical V x -> ShapeOpsP.aligned params (c_shape x) bs ->
  ShapeOps.adjacent (ShapeOps.true_positions params 0) = true ->
  StronglySorted lex_lt (map fst (ShapeOps.expand_entries params bs (entries x))).
Proof. intros. apply ShapeOpsP.broadcast_to_sorted_rule_sound_proof; assumption. Qed.

(* C09.coo_concat_canonical / coo_stack_canonical / indptr_splice_wf *)
Lemma cite_coo_concat_canonical (V : Type) (veqb : V -> V -> bool) (vzero : V) (vadd : V -> V -> V)
      (a : coo V) (r : list (coo V)) (axis : Z) (k : nat) (c : coo V) :
  (forall a b, veqb a b = true <-> a = b) ->
  NpJoin.np_norm_axis axis (Join.ndim_of V a) = Some k -> Forall (JoinP.cwf V) (a :: r) ->
  Forall (fun x => JoinP.same_off k (c_shape a) (c_shape x)) r -> Forall (fun x => c_fill x = c_fill a) r ->
  Join.coo_concatenate_src V veqb vzero vadd (Some axis) (a :: r) = Py.Ok c -> canonical V c.
Proof.
  intros He H1 H2 H3 H4 E. destruct (JoinP.coo_concat_canonical_proof V veqb He vzero vadd a r axis k H1 H2 H3 H4) as [c' [E' Hc]].
  rewrite E in E'. injection E' as <-. exact Hc.
Qed.

Lemma cite_coo_stack_canonical (V : Type) (veqb : V -> V -> bool) (vzero : V) (vadd : V -> V -> V)
      (a : coo V) (r : list (coo V)) (axis : Z) (k : nat) (c : coo V) :
  (forall a b, veqb a b = true <-> a = b) ->
  NpJoin.np_norm_axis axis (Join.ndim_of V a + 1) = Some k -> Forall (JoinP.cwf V) (a :: r) ->
  Forall (fun x => c_shape x = c_shape a) r -> Forall (fun x => c_fill x = c_fill a) r ->
  Join.coo_stack_src V veqb vzero vadd axis (a :: r) = Py.Ok c -> canonical V c.
Proof.
  intros He H1 H2 H3 H4 E. destruct (JoinP.coo_stack_canonical_proof V veqb He vzero vadd a r axis k H1 H2 H3 H4) as [c' [E' Hc]].
  rewrite E in E'. injection E' as <-. exact Hc.
Qed.

Lemma cite_indptr_splice_wf (members : list (list Z * Z)) :
  members <> [] -> Forall (fun m => Join.indptr_ok (fst m) (snd m)) members ->
  Join.indptr_ok (Join.splice members) (NpJoin.zsum (map snd members)).
Proof. intros H1 H2. apply (JoinP.indptr_splice_wf_proof members H1 H2). Qed.

(* C05.gcxs_from_coo_wf / change_axes_wf / change_axes_fits *)
Lemma cite_gcxs_from_coo_wf (V : Type) (veqb : V -> V -> bool) (add : V -> V -> V) (c : coo V) (ca : list Z) :
  canonical V c -> shape_ok (c_shape c) -> ConvertG.axes_ok (c_shape c) ca ->
  gcxs_wfb (Convert.gcxs_from_coo c ca) = true.
Proof. apply ConvertG.gcxs_from_coo_wf_proof; assumption. Qed.

Lemma cite_change_axes_wf_fits (V : Type) (veqb : V -> V -> bool) (add : V -> V -> V) (c : coo V) (ca ca' : list Z) :
  canonical V c -> shape_ok (c_shape c) -> (2 <= length (c_shape c))%nat ->
  Convert.caxes_okb (Z.of_nat (length (c_shape c))) ca = true ->
  Convert.caxes_okb (Z.of_nat (length (c_shape c))) ca' = true -> ca' <> ca ->
  let g := Convert.gcxs_change_axes (Convert.gcxs_from_coo c ca) ca' in
  gcxs_wfb g = true
  /\ Convert.fitsb (Convert.transpose_capacity (c_shape c) ca' (Z.of_nat (length (c_data c)))) (g_indptr g) = true.
Proof.
  intros H1 H2 H3 H4 H5 H6. split.
  - apply (ConvertP.change_axes_wf_proof V veqb add); assumption.
  - apply (ConvertP.change_axes_fits_proof V c ca ca' H1 H2 H3 H4 H5 H6).
Qed.

(* C03.gcxs_reduce_den *)
Lemma cite_gcxs_reduce_wf (V : Type) (veqb : V -> V -> bool) (op : V -> V -> V) (cast : V -> V)
      (sup : option (V -> Z -> V)) (ident : option V) (g : gcxs V) (ax : NpReduce.axis_arg) (kd : bool) r :
  (forall a b, veqb a b = true <-> a = b) ->
  (forall a b c, op a (op b c) = op (op a b) c) -> (forall a b, op a b = op b a) ->
  (forall a b, cast (op (cast a) (cast b)) = op (cast a) (cast b)) ->
  (forall s f, sup = Some s -> s f 1 = cast f) ->
  (forall s f k, sup = Some s -> 1 <= k -> s f (k + 1) = op (s f k) (cast f)) ->
  ReduceGcxsP.gcxs_ok V g -> shape_ok (g_shape g) -> g_shape g <> [] ->
  Reduce.gcxs_reduce V veqb op cast sup ident ax kd g = Py.Ok r -> ReduceP.rres_wf V veqb r.
Proof.
  intros He A1 A2 A3 S1 S2 G1 G2 G3 E.
  pose proof (ReduceGcxsP.gcxs_reduce_den_proof V veqb He op A1 A2 cast A3 sup ident S1 S2 g ax kd G1 G2 G3) as H.
  rewrite E in H. destruct H as [osh [gg [_ [_ [_ Hw]]]]]. exact Hw.
Qed.

(* C04.spcoo_den / spgemm_rows_sorted / csc_ndarray_rows_sorted *)
Lemma cite_spcoo_nodup (V : Type) (vzero : V) (vadd vmul : V -> V -> V) (n_row n_in n_col : Z) (a b : Dot.csr V) rows cols data :
  NpDot.comm_semiring vzero vadd vmul ->
  Dot.csr_wfb n_row n_in a = true -> Dot.csr_wfb n_in n_col b = true ->
  Dot.dot_coo_coo V vzero vadd vmul n_row n_col a b = Dot.KOk (rows, cols, data) ->
  NoDup (combine rows cols) /\ length rows = length data /\ length cols = length data.
Proof.
  intros Hs Ha Hb E. destruct (DotP.spcoo_den_proof V vzero vadd vmul Hs n_row n_in n_col a b Ha Hb)
    as [rows' [cols' [data' [E' [L1 [L2 [Hn _]]]]]]].
  rewrite E in E'. injection E' as <- <- <-. auto.
Qed.

Lemma cite_spgemm_rows_sorted (V : Type) (vzero : V) (vadd vmul : V -> V -> V) (n_row n_in n_col : Z) (a b r : Dot.csr V) :
  Dot.csr_wfb n_row n_in a = true -> Dot.csr_wfb n_in n_col b = true ->
  Dot.dot_csr_csr V vzero vadd vmul n_row n_col a b = Dot.KOk r -> Dot.csr_wfb n_row n_col r = true.
Proof.
  intros Ha Hb E. destruct (DotP.spgemm_rows_sorted_proof V vzero vadd vmul n_row n_in n_col a b Ha Hb) as [r' [E' H]].
  rewrite E in E'. injection E' as <-. exact H.
Qed.

Lemma cite_csc_ndarray_rows_sorted (V : Type) (vzero : V) (vadd vmul : V -> V -> V) (veqb : V -> V -> bool)
      (a r : Dot.csr V) (b : Z -> Z -> V) (n_in m p : Z) :
  NpDot.comm_semiring vzero vadd vmul -> (forall x, veqb x vzero = true -> x = vzero) ->
  Dot.csr_wfb n_in m a = true -> 0 <= p ->
  Dot.dot_csc_ndarray_sparse V vzero vadd vmul veqb m n_in p a b = Dot.KOk r -> Dot.csr_wfb p m r = true.
Proof.
  intros Hs Hv Ha Hp E. destruct (DotP.csc_ndarray_rows_sorted_proof V vzero vadd vmul veqb Hs Hv a b n_in m p Ha Hp) as [r' [E' H]].
  rewrite E in E'. injection E' as <-. exact H.
Qed.

(* C14.npz_roundtrip_exact *)
Lemma cite_npz_roundtrip_exact (V : Type) (x : Npz.arr V) :
  Npz.wf V x = true -> (Npz.class_of x = S_npz.KCOO \/ Npz.class_of x = S_npz.KGCXS) ->
  Py.bind (Npz.save_members V x) (fun ms => Npz.load_members V ms) = Py.Ok x.
Proof. apply NpzP.npz_roundtrip_exact_proof. Qed.

(* the source's flag expression all(d == 1 for d in diff_nonbroadcast_idx) IS C08's `adjacent` ... *)
Lemma all_diffs_one_adjacent (l : list Z) : all_diffs_one l = ShapeOps.adjacent l.
Proof.
  unfold all_diffs_one. destruct l as [|a r]; [reflexivity|]. revert a.
  induction r as [|b r' IH]; intros a; [reflexivity|].
  transitivity ((b - a =? 1) && forallb (fun d => d =? 1) (diffs (b :: r'))); [reflexivity|].
  rewrite (IH b). reflexivity.
Qed.

(* ... so the sorted= flag of broadcast_to is sound: when it is True the expanded coordinates are in row-major order *)
Lemma cite_broadcast_flag_sound (V : Type) (x : coo V) (params : list (option bool)) (bs : shape) :
  canonical V x -> ShapeOpsP.aligned params (c_shape x) bs ->
  all_diffs_one (ShapeOps.true_positions params 0) = true ->
  StronglySorted lex_lt (map fst (ShapeOps.expand_entries params bs (entries x))).
Proof.
  intros H1 H2 H3. rewrite all_diffs_one_adjacent in H3.
  apply ShapeOpsP.broadcast_to_sorted_rule_sound_proof; assumption.
Qed.

(* ... whereas any(d == 1 ...) is true for non-contiguous axes: (2,3,1,4) -> (2,3,5,4) has non-broadcast axes 0,1,3 *)
Lemma any_diff_one_unsound : any_diff_one [0; 1; 3] = true /\ all_diffs_one [0; 1; 3] = false.
Proof. split; reflexivity. Qed.

Inductive citation := Cite (name : string) (P : Prop) (pf : P).

Open Scope string_scope.
Definition citations : list citation := [
  Cite "C02.coo_getitem_den" _ cite_coo_getitem_basic;
  Cite "C02.coo_getitem_one_array_partial" _ cite_coo_getitem_one_array;
  Cite "C08.broadcast_to_den" _ cite_broadcast_to_canonical;
  Cite "C08.broadcast_to_sorted_rule_sound" _ cite_broadcast_to_sorted_rule;
  Cite "C09.coo_concat_canonical" _ cite_coo_concat_canonical;
  Cite "C09.coo_stack_canonical" _ cite_coo_stack_canonical;
  Cite "C09.indptr_splice_wf" _ cite_indptr_splice_wf;
  Cite "C05.gcxs_from_coo_wf" _ cite_gcxs_from_coo_wf;
  Cite "C05.change_axes_wf" _ cite_change_axes_wf_fits;
  Cite "C03.gcxs_reduce_den" _ cite_gcxs_reduce_wf;
  Cite "C04.spcoo_den" _ cite_spcoo_nodup;
  Cite "C04.spgemm_rows_sorted" _ cite_spgemm_rows_sorted;
  Cite "C04.csc_ndarray_rows_sorted" _ cite_csc_ndarray_rows_sorted;
  Cite "C14.npz_roundtrip_exact" _ cite_npz_roundtrip_exact
].
Close Scope string_scope.

Definition citation_names : list string := map (fun c => match c with Cite n _ _ => n end) citations.

(* every theorem the table cites is in the registry *)
Definition cited_in_registry (e : jentry) : bool :=
  match j_just e with
  | JustifiedBy n _ => existsb (String.eqb n) citation_names
  | _ => true
  end.
