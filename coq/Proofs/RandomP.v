(* Proofs/RandomP.v — the sampling kernels of sparse.random are safe for every oracle, `reverse`
   computes the complement, the generated branch chain only asks the kernels for what they can
   deliver, and the assembled array is canonical with exactly the requested number of elements. *)
From Coq Require Import ZArith List Bool Lia ZifyBool.
From Verif Require Import Py PyExt PyCreate S_create Shape COO NpCreate Random.
Import ListNotations.
Open Scope Z_scope.

Ltac split_one :=
  match goal with
  | |- context [if ?a >? ?b then _ else _] => rewrite (Z.gtb_ltb a b)
  | |- context [if ?a >=? ?b then _ else _] => rewrite (Z.geb_leb a b)
  | |- context [if negb _ then _ else _] => rewrite if_negb
  | |- context [if ?a <? ?b then _ else _] => destruct (Z.ltb_spec a b); try lia
  | |- context [if ?a <=? ?b then _ else _] => destruct (Z.leb_spec a b); try lia
  | |- context [if ?a =? ?b then _ else _] => destruct (Z.eqb_spec a b); try lia
  end.

(* ------------------------------------------------------------------ ascending lists *)
(* chain lo l : lo < l0 < l1 < ... *)
Fixpoint chain (lo : Z) (l : list Z) : Prop :=
  match l with [] => True | a :: r => lo < a /\ chain a r end.

Lemma chain_weaken lo lo' l : lo <= lo' -> chain lo' l -> chain lo l.
Proof. destruct l; simpl; [tauto|]. intros ? [? ?]. split; [lia|assumption]. Qed.

Lemma chain_increasing lo l : chain lo l -> increasing l.
Proof.
  revert lo; induction l as [|a r IH]; intros lo; simpl; [tauto|].
  intros [_ H]. destruct r as [|b r']; [exact I|]. split; [apply H|]. eapply IH; exact H.
Qed.

Lemma increasing_chain a r : increasing (a :: r) -> chain a r.
Proof.
  revert a; induction r as [|b r IH]; intros a; simpl; [tauto|].
  intros [Hab H]. split; [assumption|]. apply IH. exact H.
Qed.

Lemma chain_lower lo l : chain lo l -> Forall (fun x => lo < x) l.
Proof.
  revert lo; induction l as [|a r IH]; intros lo; simpl; [constructor|].
  intros [H1 H2]. constructor; [assumption|].
  eapply Forall_impl; [|apply (IH a H2)]. simpl; intros; lia.
Qed.

Lemma chain_app lo l w :
  chain lo l -> (forall x, In x l -> x < w) -> lo < w -> chain lo (l ++ [w]).
Proof.
  revert lo; induction l as [|a r IH]; intros lo; simpl.
  - intros _ _ H. split; [assumption|exact I].
  - intros [H1 H2] Hin Hw. split; [assumption|]. apply IH; [assumption| |].
    + intros x Hx. apply Hin. right; assumption.
    + apply Hin. left; reflexivity.
Qed.

Lemma chain_filter f lo l : chain lo l -> chain lo (filter f l).
Proof.
  revert lo; induction l as [|a r IH]; intros lo; simpl; [tauto|].
  intros [H1 H2]. destruct (f a); simpl.
  - split; [assumption|apply IH; assumption].
  - apply IH. eapply chain_weaken; [|exact H2]. lia.
Qed.

Lemma chain_seq s n : chain (Z.of_nat s - 1) (map Z.of_nat (seq s n)).
Proof.
  revert s; induction n as [|n IH]; intros s; simpl; [exact I|].
  split; [lia|]. specialize (IH (S s)). replace (Z.of_nat (S s) - 1) with (Z.of_nat s) in IH by lia.
  exact IH.
Qed.

Lemma chain_zrange N : chain (-1) (zrange N).
Proof. unfold zrange. apply (chain_seq 0). Qed.

Lemma increasingb_spec l : increasingb l = true <-> increasing l.
Proof.
  induction l as [|a r IH]; simpl; [tauto|]. destruct r as [|b r']; [tauto|].
  rewrite andb_true_iff, Z.ltb_lt, IH. tauto.
Qed.

Lemma sample_okb_spec n N l : sample_okb n N l = true <-> sample_ok n N l.
Proof.
  unfold sample_okb, sample_ok. rewrite !andb_true_iff, Z.eqb_eq, increasingb_spec, forallb_forall, Forall_forall.
  split.
  - intros [[H1 H2] H3]. split; [assumption|]. split; [assumption|]. intros x Hx. specialize (H3 x Hx). lia.
  - intros [H1 [H2 H3]]. split; [split; assumption|]. intros x Hx. specialize (H3 x Hx). lia.
Qed.

Lemma zrange_length N : 0 <= N -> Z.of_nat (length (zrange N)) = N.
Proof. intros. unfold zrange. rewrite map_length, seq_length. lia. Qed.

Lemma zrange_sample_ok N : 0 <= N -> sample_ok N N (zrange N).
Proof.
  intros H. split; [apply zrange_length; assumption|]. split.
  - eapply chain_increasing. apply chain_zrange.
  - apply Forall_forall. intros x Hx. apply zrange_In in Hx. assumption.
Qed.

(* ------------------------------------------------------------------ reverse *)
Definition notin (inv : list Z) (i : Z) : bool := negb (existsb (Z.eqb i) inv).

Lemma arange2_nil i N : N <= i -> arange2 i N = [].
Proof. intros. unfold arange2, zrange. replace (Z.to_nat (N - i)) with O by lia. reflexivity. Qed.

Lemma arange2_cons i N : i < N -> arange2 i N = i :: arange2 (i + 1) N.
Proof.
  intros H. unfold arange2, zrange.
  replace (Z.to_nat (N - i)) with (S (Z.to_nat (N - (i + 1)))) by lia.
  simpl. f_equal; [lia|]. rewrite <- seq_shift, !map_map. apply map_ext. intros; lia.
Qed.

Lemma arange2_length i N : i <= N -> Z.of_nat (length (arange2 i N)) = N - i.
Proof. intros. unfold arange2. rewrite map_length. apply zrange_length. lia. Qed.

Lemma arange2_In i N x : In x (arange2 i N) <-> i <= x < N.
Proof.
  unfold arange2. rewrite in_map_iff. split.
  - intros [t [<- Ht]]. apply zrange_In in Ht. lia.
  - intros H. exists (x - i). split; [lia|]. apply zrange_In. lia.
Qed.

Lemma arange2_0 N : arange2 0 N = zrange N.
Proof.
  unfold arange2. replace (N - 0) with N by lia.
  rewrite <- (map_id (zrange N)) at 2. apply map_ext. intros; lia.
Qed.

Lemma filter_true {A} (f : A -> bool) l : (forall x, In x l -> f x = true) -> filter f l = l.
Proof.
  induction l as [|a r IH]; simpl; [reflexivity|]. intros H.
  rewrite (H a) by (left; reflexivity). f_equal. apply IH. intros; apply H; right; assumption.
Qed.

Lemma filter_ext_in' {A} (f g : A -> bool) l : (forall x, In x l -> f x = g x) -> filter f l = filter g l.
Proof.
  induction l as [|a r IH]; simpl; [reflexivity|]. intros H.
  rewrite (H a) by (left; reflexivity). rewrite IH; [reflexivity|]. intros; apply H; right; assumption.
Qed.

Lemma existsb_eqb_false i l : (forall x, In x l -> x <> i) -> existsb (Z.eqb i) l = false.
Proof.
  induction l as [|a r IH]; simpl; [reflexivity|]. intros H.
  rewrite IH by (intros; apply H; right; assumption).
  destruct (Z.eqb_spec i a) as [->|]; [|reflexivity]. exfalso. apply (H a); [left|]; reflexivity.
Qed.

(* the loop writes exactly the complement of the remaining exclusions inside [i, N) *)
Lemma reverse_loop_spec N cnt : forall i inv,
  i + Z.of_nat cnt = N -> chain (i - 1) inv -> Forall (fun x => x < N) inv ->
  fst (reverse_loop cnt i N inv) = filter (notin inv) (arange2 i N) /\
  Z.of_nat (length (fst (reverse_loop cnt i N inv))) = Z.of_nat cnt - Z.of_nat (length inv).
Proof.
  induction cnt as [|c IH]; intros i inv Hi Hch Hlt.
  - assert (inv = []) as ->.
    { destruct inv as [|x r]; [reflexivity|]. simpl in Hch. apply Forall_inv in Hlt. lia. }
    simpl. rewrite arange2_nil by lia. split; reflexivity.
  - destruct inv as [|x inv'].
    + simpl. split.
      * symmetry. apply filter_true. reflexivity.
      * rewrite arange2_length by lia. lia.
    + simpl in Hch. destruct Hch as [Hx Hch]. pose proof (Forall_inv Hlt) as HxN. pose proof (Forall_inv_tail Hlt) as Hlt'. cbn beta in HxN.
      cbn [reverse_loop]. rewrite arange2_cons by lia. cbn [filter]. unfold notin at 1. cbn [existsb].
      destruct (Z.eqb_spec i x) as [->|Hne].
      * (* i is excluded *)
        cbn [orb negb].
        destruct (IH (x + 1) inv') as [E1 E2]; [lia| |assumption|].
        { replace (x + 1 - 1) with x by lia. assumption. }
        rewrite E1, <- E1 at 1. rewrite E1. split.
        -- apply filter_ext_in'. intros y Hy. apply arange2_In in Hy. unfold notin. cbn [existsb].
           destruct (Z.eqb_spec y x); [lia|]. reflexivity.
        -- rewrite <- E1, E2. cbn [length]. lia.
      * (* i is kept *)
        assert (Hch2 : chain (i + 1 - 1) (x :: inv')) by (simpl; split; [lia|assumption]).
        destruct (IH (i + 1) (x :: inv')) as [E1 E2]; [lia|assumption|assumption|].
        destruct (reverse_loop c (i + 1) N (x :: inv')) as [l b] eqn:E. cbn [fst] in *.
        rewrite existsb_eqb_false.
        2:{ intros y Hy. pose proof (chain_lower _ _ Hch) as Hl. rewrite Forall_forall in Hl.
            specialize (Hl y Hy). lia. }
        cbn [orb negb]. split.
        -- f_equal. exact E1.
        -- cbn [length]. rewrite Nat2Z.inj_succ, E2. cbn [length]. lia.
Qed.

Lemma complement_sample_ok inv N :
  0 <= N -> increasing inv -> Forall (fun x => 0 <= x < N) inv ->
  sample_ok (N - Z.of_nat (length inv)) N (complement inv N) /\
  (forall x, In x (complement inv N) <-> (0 <= x < N /\ ~ In x inv)).
Proof.
  intros HN Hinc Hr.
  assert (Hch : chain (0 - 1) inv).
  { destruct inv as [|a r]; [exact I|]. simpl. inversion Hr; subst. split; [lia|].
    apply increasing_chain. assumption. }
  assert (Hlt : Forall (fun x => x < N) inv) by (eapply Forall_impl; [|exact Hr]; simpl; intros; lia).
  destruct (reverse_loop_spec N (Z.to_nat N) 0 inv) as [E1 E2]; [lia|assumption|assumption|].
  assert (Hc : complement inv N = filter (notin inv) (arange2 0 N)).
  { rewrite arange2_0. reflexivity. }
  split; [split; [|split]|].
  - rewrite Hc, <- E1, E2. lia.
  - rewrite Hc, arange2_0. eapply chain_increasing. apply chain_filter. apply chain_zrange.
  - apply Forall_forall. intros x Hx. unfold complement in Hx. apply filter_In in Hx.
    destruct Hx as [Hx _]. apply zrange_In in Hx. assumption.
  - intros x. unfold complement. rewrite filter_In, zrange_In, negb_true_iff. split.
    + intros [H1 H2]. split; [assumption|]. intros Hin.
      assert (existsb (Z.eqb x) inv = true); [|congruence].
      apply existsb_exists. exists x. split; [assumption|apply Z.eqb_refl].
    + intros [H1 H2]. split; [assumption|]. apply existsb_eqb_false. intros y Hy ->. contradiction.
Qed.

(* reverse(inv, N) for an ascending inv inside [0, N) is the ascending complement: no out-of-bounds
   write, no cell left unwritten, no size mismatch in the slice assignment *)
Theorem reverse_spec_proof inv N :
  0 <= N -> increasing inv -> Forall (fun x => 0 <= x < N) inv ->
  reverse inv N = Some (complement inv N).
Proof.
  intros HN Hinc Hr.
  assert (Hch : chain (0 - 1) inv).
  { destruct inv as [|a r]; [exact I|]. simpl. inversion Hr; subst. split; [lia|].
    apply increasing_chain. assumption. }
  assert (Hlt : Forall (fun x => x < N) inv) by (eapply Forall_impl; [|exact Hr]; simpl; intros; lia).
  destruct (reverse_loop_spec N (Z.to_nat N) 0 inv) as [E1 E2]; [lia|assumption|assumption|].
  unfold reverse. destruct (reverse_loop (Z.to_nat N) 0 N inv) as [w brk] eqn:E. cbn [fst] in *.
  assert (Hw : w = complement inv N) by (rewrite E1, arange2_0; reflexivity).
  destruct (Z.ltb_spec (N - Z.of_nat (length inv)) 0); [lia|].
  destruct brk.
  - destruct (Z.eqb_spec (Z.of_nat (length w)) (N - Z.of_nat (length inv))); [|lia]. congruence.
  - destruct (Z.leb_spec (Z.of_nat (length w)) (N - Z.of_nat (length inv))); [|lia].
    replace (Z.to_nat (N - Z.of_nat (length inv) - Z.of_nat (length w))) with O by lia.
    simpl. rewrite app_nil_r. congruence.
Qed.

Example reverse_spec_nonvacuous :
  increasing [1; 3; 4] /\ Forall (fun x => 0 <= x < 6) [1; 3; 4] /\ reverse [1; 3; 4] 6 = Some [0; 2; 5].
Proof. split; [simpl; lia|]. split; [repeat constructor; lia|reflexivity]. Qed.

(* ------------------------------------------------------------------ algA *)
Lemma draw_below_range N u : 1 <= N -> 0 <= draw_below N u <= N - 1.
Proof. unfold draw_below. lia. Qed.

Lemma algA_inner_spec c : forall S_ top N,
  0 <= top ->
  let '(S', top', N') := algA_inner c S_ top N in
  S_ <= S' /\ 0 <= top' /\ S' - S_ = top - top' /\ N - N' = S' - S_.
Proof.
  induction c as [|c IH]; intros S_ top N Ht; simpl; [lia|].
  destruct (Z.ltb_spec 0 top); [|lia].
  specialize (IH (S_ + 1) (top - 1) (N - 1)).
  destruct (algA_inner c (S_ + 1) (top - 1) (N - 1)) as [[S' top'] N']. lia.
Qed.

(* the outer loop: values ascend from `last`; `last + top` grows by exactly one per iteration, which
   bounds every value written; `N + last` is invariant *)
Lemma algA_loop_spec k : forall reqs last top N,
  0 <= top ->
  let '(l, last', N', r) := algA_loop k reqs last top N in
  length l = k /\ chain last l /\
  Forall (fun v => v <= last + top + Z.of_nat k) l /\
  last <= last' <= last + top + Z.of_nat k /\
  (forall x, In x l -> x <= last') /\
  N' + last' = N + last.
Proof.
  induction k as [|k IH]; intros reqs last top N Ht.
  - simpl. repeat split; try constructor; try lia; try (intros x []).
  - cbn [algA_loop].
    pose proof (algA_inner_spec (Z.to_nat (hd0 reqs)) 0 top N Ht) as HI.
    destruct (algA_inner (Z.to_nat (hd0 reqs)) 0 top N) as [[S_ top'] N1].
    destruct HI as [HS [Ht' [Hd HN]]].
    specialize (IH (tl reqs) (last + S_ + 1) top' (N1 - 1) Ht').
    destruct (algA_loop k (tl reqs) (last + S_ + 1) top' (N1 - 1)) as [[[l last'] N2] r].
    destruct IH as [Hlen [Hch [Hall [Hlast [Hin HNN]]]]].
    split; [simpl; congruence|]. split; [simpl; split; [lia|assumption]|].
    split; [|split; [|split]].
    + constructor; [lia|]. eapply Forall_impl; [|exact Hall]. simpl; intros; lia.
    + lia.
    + intros x [<-|Hx]; [lia|]. apply Hin; assumption.
    + lia.
Qed.

(* for EVERY oracle: n positions, ascending, inside [0, N) *)
Theorem algA_safe_proof n N reqs :
  1 <= n <= N ->
  exists arr, algA n N reqs = Some arr /\ sample_ok n N arr.
Proof.
  intros Hn. unfold algA. destruct (Z.ltb_spec n 1); [lia|].
  pose proof (algA_loop_spec (Z.to_nat (n - 1)) reqs (-1) (N - n) N ltac:(lia)) as HL.
  destruct (algA_loop (Z.to_nat (n - 1)) reqs (-1) (N - n) N) as [[[l last] N'] r].
  destruct HL as [Hlen [Hch [Hall [Hlast [Hin HNN]]]]].
  eexists. split; [reflexivity|].
  assert (HN' : 1 <= N') by lia.
  pose proof (draw_below_range N' (hd0 r) HN') as Hd.
  set (d := draw_below N' (hd0 r)) in *.
  assert (Hchain : chain (-1) (l ++ [last + d + 1])).
  { apply chain_app; [assumption| |lia]. intros x Hx. specialize (Hin x Hx). lia. }
  split; [|split].
  - rewrite app_length, Hlen. simpl. lia.
  - eapply chain_increasing; exact Hchain.
  - apply Forall_forall. intros x Hx.
    pose proof (chain_lower _ _ Hchain) as Hlow. rewrite Forall_forall in Hlow. specialize (Hlow x Hx).
    apply in_app_or in Hx. destruct Hx as [Hx|[<-|[]]].
    + rewrite Forall_forall in Hall. specialize (Hall x Hx). lia.
    + lia.
Qed.

Example algA_safe_nonvacuous :
  algA 3 10 [2; 100; 5] = Some [2; 8; 9] /\ algA 3 3 [1; 1; 1] = Some [0; 1; 2] /\ algA 1 5 [7] = Some [4].
Proof. repeat split. Qed.

(* ------------------------------------------------------------------ algD *)
Lemma algD_pick_spec evs : forall qu1 S_ r, algD_pick evs qu1 = Some (S_, r) -> 0 <= S_ < qu1.
Proof.
  induction evs as [|[[s b1] b2] evs IH]; intros qu1 S_ r; simpl; [discriminate|].
  rewrite Z.gtb_ltb. destruct (Z.ltb_spec (Z.max 0 s) qu1).
  - destruct b1; [intros H'; inversion H'; subst; lia|].
    destruct b2; [intros H'; inversion H'; subst; lia|]. apply IH.
  - apply IH.
Qed.

Lemma algD_loop_spec k : forall evs last N qu1 l,
  algD_loop k evs last N qu1 = Some l ->
  length l = k /\ chain last l /\ Forall (fun v => v <= last + qu1 + Z.of_nat k - 1) l.
Proof.
  induction k as [|k IH]; intros evs last N qu1 l.
  - simpl. intros H; inversion H; subst. repeat split; constructor.
  - cbn [algD_loop]. destruct (algD_pick evs qu1) as [[S_ r]|] eqn:EP; [|discriminate].
    apply algD_pick_spec in EP.
    destruct (algD_loop k r (last + S_ + 1) (N - S_ - 1) (qu1 - S_)) as [l'|] eqn:EL; [|discriminate].
    intros H; inversion H; subst. apply IH in EL. destruct EL as [Hlen [Hch Hall]].
    split; [simpl; congruence|]. split; [simpl; split; [lia|assumption]|].
    constructor; [lia|]. eapply Forall_impl; [|exact Hall]. simpl; intros; lia.
Qed.

(* partial correctness for EVERY oracle stream: whatever the float tests answer, if the kernel
   returns then it returns n ascending positions inside [0, N) *)
Theorem algD_safe_proof n N evs arr :
  1 <= n -> algD n N evs = Some arr -> sample_ok n N arr.
Proof.
  intros Hn. unfold algD. destruct (Z.ltb_spec n 1); [lia|]. intros H'.
  apply algD_loop_spec in H'. destruct H' as [Hlen [Hch Hall]].
  split; [|split].
  - rewrite Hlen. lia.
  - eapply chain_increasing; exact Hch.
  - apply Forall_forall. intros x Hx.
    pose proof (chain_lower _ _ Hch) as Hlow. rewrite Forall_forall in Hlow, Hall.
    specialize (Hlow x Hx). specialize (Hall x Hx). lia.
Qed.

(* a by-product of the bound used above: the kernel draws an (n+1)-subset and drops its largest member
   (n = n + 1 at entry, the loop runs while n > 1), so it can never select the last position N - 1 —
   the sample is not uniform.  Uniformity is not part of C19; recorded because the proof exposes it. *)
Theorem algD_never_last_proof n N evs arr :
  1 <= n -> algD n N evs = Some arr -> Forall (fun x => x < N - 1) arr.
Proof.
  intros Hn. unfold algD. destruct (Z.ltb_spec n 1); [lia|]. intros H'.
  apply algD_loop_spec in H'. destruct H' as [_ [_ Hall]].
  eapply Forall_impl; [|exact Hall]. simpl. intros; lia.
Qed.

(* termination is only almost sure; what holds for every stream: one selection step returns as soon
   as an accepting event occurs ... *)
Definition accepting (qu1 : Z) (e : ev) : bool :=
  let '(s, b1, b2) := e in (Z.max 0 s <? qu1) && (b1 || b2).

Lemma algD_pick_terminates evs qu1 :
  existsb (accepting qu1) evs = true <-> algD_pick evs qu1 <> None.
Proof.
  induction evs as [|[[s b1] b2] evs IH]; simpl; [split; [discriminate|congruence]|].
  rewrite Z.gtb_ltb. destruct (Z.ltb_spec (Z.max 0 s) qu1); simpl.
  - destruct b1; simpl; [split; [discriminate|reflexivity]|].
    destruct b2; simpl; [split; [discriminate|reflexivity]|]. exact IH.
  - exact IH.
Qed.

(* ... and the whole kernel returns on every stream that contains n events accepted in any state
   (a candidate S = 0 passing one of the two tests) *)
Definition always_accepted (e : ev) : bool := let '(s, b1, b2) := e in (s <=? 0) && (b1 || b2).

Fixpoint count_acc (evs : list ev) : nat :=
  match evs with [] => O | e :: r => (if always_accepted e then 1 else 0) + count_acc r end.

Lemma algD_pick_count evs : forall qu1, 1 <= qu1 -> (1 <= count_acc evs)%nat ->
  exists S_ r, algD_pick evs qu1 = Some (S_, r) /\ (count_acc evs <= S (count_acc r))%nat.
Proof.
  induction evs as [|[[s b1] b2] evs IH]; intros qu1 Hq Hc; simpl in *; [lia|].
  rewrite Z.gtb_ltb. destruct (Z.ltb_spec (Z.max 0 s) qu1).
  - destruct b1; simpl in *.
    + eexists _, _. split; [reflexivity|]. destruct (s <=? 0); simpl; lia.
    + destruct b2; simpl in *.
      * eexists _, _. split; [reflexivity|]. destruct (s <=? 0); simpl; lia.
      * rewrite andb_false_r in *. simpl in *. apply IH; assumption.
  - assert (Hs : (s <=? 0) = false) by lia. rewrite Hs in *. simpl in *. apply IH; assumption.
Qed.

Lemma algD_loop_terminates k : forall evs last N qu1,
  1 <= qu1 -> (k <= count_acc evs)%nat -> exists l, algD_loop k evs last N qu1 = Some l.
Proof.
  induction k as [|k IH]; intros evs last N qu1 Hq Hc; [eexists; reflexivity|].
  cbn [algD_loop].
  destruct (algD_pick_count evs qu1 Hq ltac:(lia)) as [S_ [r [EP Hcr]]]. rewrite EP.
  pose proof (algD_pick_spec _ _ _ _ EP) as HS.
  destruct (IH r (last + S_ + 1) (N - S_ - 1) (qu1 - S_)) as [l El]; [lia|lia|].
  rewrite El. eexists; reflexivity.
Qed.

Theorem algD_terminates_proof n N evs :
  1 <= n < N -> (Z.to_nat n <= count_acc evs)%nat -> exists arr, algD n N evs = Some arr.
Proof.
  intros Hn Hc. unfold algD. destruct (Z.ltb_spec n 1); [lia|].
  apply algD_loop_terminates; [lia|assumption].
Qed.

Example algD_safe_nonvacuous :
  algD 3 40 [(50, true, true); (3, false, false); (3, false, true); (0, true, false); (36, true, false);
             (30, true, true)] = Some [3; 4; 35].
Proof. reflexivity. Qed.

(* ------------------------------------------------------------------ the generated branch chain *)
(* every successful run of the generated prefix of `random`: the final nnz is the requested one (or
   the value of int(elements * density)), lies in [0, elements], and the plan is one of the seven
   admissible shapes *)
Theorem plan_shape_proof dc nnz el prod v :
  s_random_plan (ozr dc) (ozr nnz) (VInt el) (VInt prod) VNone VNone = Ok v ->
  exists n p pl, v = VTuple [VInt n; p] /\ decode_plan p = Some pl /\
    n = match nnz with Some k => k | None => prod end /\
    0 <= n <= el /\ (nnz = None \/ dc = None) /\ 0 <= dcv dc <= 1 /\
    plan_okb n el (dcv dc) pl = true.
Proof.
  unfold s_random_plan, plan_arange, plan_choice, plan_reverse, plan_algD, plan_algA, py_gt_half, ozr, dcv.
  destruct dc as [d|]; destruct nnz as [k|];
  repeat (cbn; split_one); cbn; intros H'; try discriminate; inversion H'; subst; clear H';
  (eexists _, _, _; split; [reflexivity|]; split; [reflexivity|]; cbn;
   repeat split; try lia; try (left; reflexivity); try (right; reflexivity)).
Qed.

(* the guards reject exactly what they should: both given, density outside [0,1], nnz outside
   [0, elements] *)
Theorem plan_guards_proof dc nnz el prod :
  let n := match nnz with Some k => k | None => prod end in
  (exists v, s_random_plan (ozr dc) (ozr nnz) (VInt el) (VInt prod) VNone VNone = Ok v) <->
  ((nnz = None \/ dc = None) /\ 0 <= dcv dc <= 1 /\ 0 <= n <= el).
Proof.
  cbn zeta. split.
  - intros [v H']. apply plan_shape_proof in H'.
    destruct H' as [n [p [pl [_ [_ [-> [Hn [Hex [Hd _]]]]]]]]]. repeat split; try assumption; lia.
  - intros [Hex [Hd Hn]].
    unfold s_random_plan, plan_arange, plan_choice, plan_reverse, plan_algD, plan_algA, py_gt_half, ozr, dcv in *.
    destruct dc as [d|]; destruct nnz as [k|];
    try (destruct Hex; discriminate);
    repeat (cbn; split_one); cbn; eexists; reflexivity.
Qed.

(* ------------------------------------------------------------------ the samplers deliver *)
Lemma choice_ok a k u l :
  0 <= k < 2 -> k < a -> choice a k u = Some l -> sample_ok k a l.
Proof.
  intros Hk Ha. unfold choice. destruct (Z.eqb_spec k 0) as [->|].
  - intros H'; inversion H'; subst. repeat split; constructor.
  - destruct (Z.eqb_spec k 1) as [->|]; [|lia]. intros H'; inversion H'; subst.
    pose proof (draw_below_range a u ltac:(lia)).
    split; [reflexivity|]. split; [exact I|]. constructor; [lia|constructor].
Qed.

Definition plan_count (n el : Z) (p : plan) : Z :=
  match p with PBase (BAll _) => el | _ => n end.

Lemma sample_plan_ok n el dc pl o ind :
  0 <= n <= el -> plan_okb n el dc pl = true -> sample_of_plan pl o = Some ind ->
  sample_ok (plan_count n el pl) el ind.
Proof.
  intros Hn Hok Hs. destruct pl as [b|b a']; destruct b as [a|a k|m a|m a]; cbn in Hok, Hs |- *;
  try discriminate.
  - assert (a = el) by lia. subst. inversion Hs; subst. apply zrange_sample_ok. lia.
  - assert (a = el /\ k = n) as [-> ->] by lia. eapply choice_ok; [| |exact Hs]; lia.
  - assert (a = el /\ m = n) as [-> ->] by lia. eapply algD_safe_proof; [|exact Hs]. lia.
  - assert (a = el /\ m = n) as [-> ->] by lia.
    destruct (algA_safe_proof n el (o_A o) ltac:(lia)) as [arr [E Hok']]. congruence.
  - (* reverse of choice *)
    assert (a = el /\ a' = el /\ k = 1 /\ el - n = 1) as [-> [-> [-> Hd]]] by lia.
    destruct (choice el 1 (o_pick o)) as [inv|] eqn:EC; [|discriminate].
    pose proof (choice_ok el 1 _ _ ltac:(lia) ltac:(lia) EC) as [Hl [Hi Hr]].
    rewrite reverse_spec_proof in Hs by (try assumption; lia). inversion Hs; subst.
    destruct (complement_sample_ok inv el ltac:(lia) Hi Hr) as [Hc _].
    replace n with (el - Z.of_nat (length inv)) by lia. exact Hc.
  - (* reverse of algD *)
    assert (a = el /\ a' = el /\ m = el - n) as [-> [-> ->]] by lia.
    destruct (algD (el - n) el (o_D o)) as [inv|] eqn:EC; [|discriminate].
    pose proof (algD_safe_proof (el - n) el (o_D o) inv ltac:(lia) EC) as [Hl [Hi Hr]].
    rewrite reverse_spec_proof in Hs by (try assumption; lia). inversion Hs; subst.
    destruct (complement_sample_ok inv el ltac:(lia) Hi Hr) as [Hc _].
    replace n with (el - Z.of_nat (length inv)) by lia. exact Hc.
  - (* reverse of algA *)
    assert (a = el /\ a' = el /\ m = el - n) as [-> [-> ->]] by lia.
    destruct (algA_safe_proof (el - n) el (o_A o) ltac:(lia)) as [inv [EC [Hl [Hi Hr]]]].
    rewrite EC in Hs.
    rewrite reverse_spec_proof in Hs by (try assumption; lia). inversion Hs; subst.
    destruct (complement_sample_ok inv el ltac:(lia) Hi Hr) as [Hc _].
    replace n with (el - Z.of_nat (length inv)) by lia. exact Hc.
Qed.

(* every branch except Vitter's D returns for every oracle; D returns on every stream with enough
   accepting events *)
Lemma sample_plan_returns n el dc pl o :
  0 <= n <= el -> plan_okb n el dc pl = true ->
  ((plan_tag pl <> 3 /\ plan_tag pl <> 23) \/ (Z.to_nat el <= count_acc (o_D o))%nat) ->
  exists ind, sample_of_plan pl o = Some ind.
Proof.
  intros Hn Hok Ht. destruct pl as [b|b a']; destruct b as [a|a k|m a|m a]; cbn in Hok, Ht |- *;
  try discriminate.
  - eexists; reflexivity.
  - unfold choice. destruct (Z.eqb_spec k 0); [eexists; reflexivity|].
    destruct (Z.eqb_spec k 1); [eexists; reflexivity|]. lia.
  - assert (a = el /\ m = n) as [-> ->] by lia. apply algD_terminates_proof; lia.
  - assert (a = el /\ m = n) as [-> ->] by lia.
    destruct (algA_safe_proof n el (o_A o) ltac:(lia)) as [arr [E _]]. eexists; exact E.
  - assert (a = el /\ a' = el /\ k = 1 /\ el - n = 1) as [-> [-> [-> Hd]]] by lia.
    pose proof (draw_below_range el (o_pick o) ltac:(lia)).
    change (choice el 1 (o_pick o)) with (Some [draw_below el (o_pick o)]). cbv iota beta.
    rewrite reverse_spec_proof; [eexists; reflexivity|lia|exact I|]. constructor; [lia|constructor].
  - assert (a = el /\ a' = el /\ m = el - n) as [-> [-> ->]] by lia.
    destruct (algD_terminates_proof (el - n) el (o_D o) ltac:(lia) ltac:(lia)) as [inv EC]. rewrite EC.
    pose proof (algD_safe_proof (el - n) el (o_D o) inv ltac:(lia) EC) as [Hl [Hi Hr]].
    rewrite reverse_spec_proof by (try assumption; lia). eexists; reflexivity.
  - assert (a = el /\ a' = el /\ m = el - n) as [-> [-> ->]] by lia.
    destruct (algA_safe_proof (el - n) el (o_A o) ltac:(lia)) as [inv [EC [Hl [Hi Hr]]]]. rewrite EC.
    rewrite reverse_spec_proof by (try assumption; lia). eexists; reflexivity.
Qed.

(* ------------------------------------------------------------------ reshape: linear positions -> index tuples *)
Lemma unravel_lex sh a b :
  shape_ok sh -> 0 <= a < size sh -> 0 <= b < size sh -> a < b -> lex_lt (unravel sh a) (unravel sh b).
Proof.
  intros Hok Ha Hb Hlt.
  apply (ravel_lex sh); try (apply unravel_in_range; assumption).
  rewrite !ravel_unravel by assumption. exact Hlt.
Qed.

Lemma sorted_strict_unravel sh l :
  shape_ok sh -> increasing l -> Forall (fun x => 0 <= x < size sh) l ->
  sorted_strict (map (unravel sh) l) = true.
Proof.
  intros Hok. induction l as [|a r IH]; intros Hinc Hr; [reflexivity|].
  destruct r as [|b r']; [reflexivity|].
  destruct Hinc as [Hab Hinc]. inversion Hr as [|? ? Ha Hr']; subst. inversion Hr' as [|? ? Hb _]; subst.
  change (map (unravel sh) (a :: b :: r')) with (unravel sh a :: map (unravel sh) (b :: r')).
  cbn [sorted_strict]. change (map (unravel sh) (b :: r')) with (unravel sh b :: map (unravel sh) r') at 1.
  cbv iota. apply andb_true_iff. split.
  - apply lex_ltb_spec. apply unravel_lex; assumption.
  - apply IH; assumption.
Qed.

Lemma forallb_in_range_unravel sh l :
  shape_ok sh -> Forall (fun x => 0 <= x < size sh) l ->
  forallb (in_rangeb sh) (map (unravel sh) l) = true.
Proof.
  intros Hok Hr. apply forallb_forall. intros ix Hix. apply in_map_iff in Hix.
  destruct Hix as [x [<- Hx]]. rewrite Forall_forall in Hr.
  apply in_rangeb_spec. apply unravel_in_range; [assumption|apply Hr; assumption].
Qed.

(* ------------------------------------------------------------------ int(elements * 1.0) *)
Lemma int_mul_f64_one el : 0 <= el < 2 ^ 53 -> int_mul_f64 el 1 0 = el.
Proof.
  intros H. unfold int_mul_f64.
  assert (R : forall x, 0 <= x < 2 ^ 53 -> round53 x 0 = if x <=? 0 then (0, 0) else (x, 0)).
  { intros x Hx. unfold round53. destruct (Z.leb_spec x 0); [reflexivity|].
    assert (Z.log2 x < 53) by (apply Z.log2_lt_pow2; lia).
    destruct (Z.leb_spec (Z.log2 x + 1) 53); [reflexivity|lia]. }
  rewrite (R el H). destruct (Z.leb_spec el 0).
  - assert (el = 0) by lia. subst. reflexivity.
  - rewrite Z.mul_1_r. change (0 + 0) with 0. rewrite (R el H).
    destruct (Z.leb_spec el 0); [lia|]. unfold trunc_dyadic. rewrite Z.leb_refl. change (2 ^ 0) with 1. lia.
Qed.

(* ------------------------------------------------------------------ sparse.random *)
(* the float 1.0 is presented as (1, 0) (what float.as_integer_ratio gives) *)
Definition one_canonical (dens : option dyadic) : Prop :=
  match dens with Some d => density_class d = 1 -> d = (1, 0) | None => True end.

Section RandomP.
  Variable V : Type.

  Theorem random_structure_proof sh dens nnz o (data : list V) fv c :
    shape_ok sh -> size sh < 2 ^ 53 -> one_canonical dens ->
    random_coo sh dens nnz o data fv = Some c ->
    let n := requested dens nnz (size sh) in
    0 <= n <= size sh /\ COO.nnz c = n /\ Z.of_nat (length (c_data c)) = n /\
    c_data c = data /\ c_shape c = sh /\ c_fill c = fv /\ canonicalb c = true.
  Proof.
    intros Hok Hsz Hone. unfold random_coo, random_plan.
    pose proof (size_nonneg _ Hok) as Hs0.
    set (d := match dens with Some d => d | None => density_default end).
    destruct (s_random_plan _ _ _ _ _ _) as [v|] eqn:EP; [|discriminate].
    apply plan_shape_proof in EP.
    destruct EP as [n [p [pl [-> [Edec [En [Hn [Hex [Hdc Hpok]]]]]]]]].
    rewrite Edec.
    destruct (sample_of_plan pl o) as [ind|] eqn:ES; [|discriminate].
    destruct (Nat.eqb_spec (length data) (length ind)) as [Hlen|]; [|discriminate].
    intros H'; inversion H'; subst c; clear H'. cbn zeta.
    pose proof (sample_plan_ok _ _ _ _ _ _ Hn Hpok ES) as [Hl [Hi Hr]].
    assert (Hreq : requested dens nnz (size sh) = n).
    { unfold requested. destruct nnz; [congruence|]. exact (eq_sym En). }
    (* the all-branch under density = 1.0 : nnz = int(elements * 1.0) = elements *)
    assert (Hcnt : plan_count n (size sh) pl = n).
    { destruct pl as [[a| | |]|]; try reflexivity. cbn in Hpok |- *.
      destruct (Z.eqb_spec n (size sh)); [congruence|].
      destruct dens as [dd|]; cbn in Hpok, Hdc; [|lia].
      assert (density_class dd = 1) by lia.
      destruct Hex as [->|]; [|discriminate].
      cbn in Hone. subst d. cbn iota in En. rewrite (Hone H) in En. cbn [fst snd] in En.
      rewrite int_mul_f64_one in En by lia. congruence. }
    rewrite Hcnt in Hl. rewrite Hreq.
    unfold COO.nnz, canonicalb. cbn [c_coords c_data c_shape c_fill].
    rewrite map_length.
    repeat split; try lia; try reflexivity.
    apply andb_true_iff; split; [apply andb_true_iff; split|].
    - apply forallb_in_range_unravel; assumption.
    - apply sorted_strict_unravel; assumption.
    - apply Nat.eqb_eq. lia.
  Qed.

  (* sparse.random returns (for every oracle outside Vitter's D, and for D on every stream with
     enough accepting events) whenever the guards pass and the sampler delivers nnz values *)
  Theorem random_returns_proof sh dens nnz o (data : list V) fv :
    shape_ok sh -> size sh < 2 ^ 53 -> one_canonical dens ->
    (nnz = None \/ dens = None) ->
    0 <= dcv (option_map density_class dens) <= 1 ->
    0 <= requested dens nnz (size sh) <= size sh ->
    Z.of_nat (length data) = requested dens nnz (size sh) ->
    (match random_nnz_tag dens nnz (size sh) with
     | Some (_, t) => t <> 3 /\ t <> 23 | None => False end
     \/ (Z.to_nat (size sh) <= count_acc (o_D o))%nat) ->
    exists c, random_coo sh dens nnz o data fv = Some c.
  Proof.
    intros Hok Hsz Hone Hex Hdc Hreq Hdata Htag. unfold random_coo, random_nnz_tag, random_plan in *.
    set (d := match dens with Some d => d | None => density_default end) in *.
    assert (Hg : exists v, s_random_plan (ozr (option_map density_class dens)) (ozr nnz) (VInt (size sh))
                  (VInt (int_mul_f64 (size sh) (fst d) (snd d))) VNone VNone = Ok v).
    { apply plan_guards_proof. split; [|split].
      - destruct Hex as [-> | ->]; [left|right]; reflexivity.
      - assumption.
      - unfold requested in Hreq. destruct nnz; assumption. }
    destruct Hg as [v EP]. rewrite EP in *. pose proof EP as EP'.
    apply plan_shape_proof in EP'.
    destruct EP' as [n [p [pl [-> [Edec [En [Hn [_ [_ Hpok]]]]]]]]].
    rewrite Edec in *.
    destruct (sample_plan_returns n (size sh) _ pl o Hn Hpok) as [ind ES].
    { destruct Htag as [Ht|Ht]; [left; exact Ht|right; exact Ht]. }
    rewrite ES.
    pose proof (sample_plan_ok _ _ _ _ _ _ Hn Hpok ES) as [Hl _].
    assert (Hreq' : requested dens nnz (size sh) = n).
    { unfold requested. destruct nnz; [congruence|]. exact (eq_sym En). }
    assert (Hcnt : plan_count n (size sh) pl = n).
    { destruct pl as [[a| | |]|]; try reflexivity. cbn in Hpok |- *.
      destruct (Z.eqb_spec n (size sh)); [congruence|].
      destruct dens as [dd|]; cbn in Hpok, Hdc; [|lia].
      assert (density_class dd = 1) by lia.
      destruct Hex as [->|]; [|discriminate].
      cbn in Hone. subst d. cbn iota in En. rewrite (Hone H) in En. cbn [fst snd] in En.
      pose proof (size_nonneg _ Hok). rewrite int_mul_f64_one in En by lia. congruence. }
    destruct (Nat.eqb_spec (length data) (length ind)); [eexists; reflexivity|]. lia.
  Qed.

  (* the same seed gives the same array: the model is a function of the oracle stream (and of the
     sampler's output) and of nothing else *)
  Theorem random_deterministic_proof sh dens nnz (o1 o2 : oracle) (d1 d2 : list V) fv :
    o1 = o2 -> d1 = d2 -> random_coo sh dens nnz o1 d1 fv = random_coo sh dens nnz o2 d2 fv.
  Proof. intros -> ->. reflexivity. Qed.
End RandomP.

Example random_structure_nonvacuous :
  let o := mkO 7 [1; 0; 2; 1; 3] [(1, true, false); (0, false, true)] in
  random_coo [3; 4] None (Some 5) o [10; 20; 30; 40; 50] 0 =
    Some (mkCOO [3; 4] [[0; 1]; [0; 2]; [1; 1]; [1; 3]; [2; 3]] [10; 20; 30; 40; 50] 0) /\
  random_coo [3; 4] (Some (1, -1)) None o [1; 2; 3; 4; 5; 6] 9 =
    Some (mkCOO [3; 4] [[0; 1]; [0; 2]; [1; 1]; [1; 3]; [2; 2]; [2; 3]] [1; 2; 3; 4; 5; 6] 9) /\
  random_coo [3; 4] None (Some 10) o [1; 2; 3; 4; 5; 6; 7; 8; 9; 10] 9 =
    Some (mkCOO [3; 4] [[0; 0]; [0; 3]; [1; 0]; [1; 1]; [1; 2]; [1; 3]; [2; 0]; [2; 1]; [2; 2]; [2; 3]]
                [1; 2; 3; 4; 5; 6; 7; 8; 9; 10] 9) /\
  random_coo [5; 8] None (Some 2) o [1; 2] 9 = Some (mkCOO [5; 8] [[0; 1]; [0; 2]] [1; 2] 9) /\
  random_nnz_tag None (Some 10) 12 = Some (10, 24) /\ random_nnz_tag None (Some 2) 40 = Some (2, 3).
Proof. repeat split. Qed.
