(* Proofs/CooIndexArrP.v — part 4 of the COO indexing proofs: getitem with ONE 1-D index array
   (integer — repeated, unsorted, negative entries — or boolean), the other entries basic.
   _compute_multi_mask calls _compute_mask once per array entry (each call with its own cut-over);
   the result axis of the array stays in place; sorted=True is passed only when the array sits on
   the first axis and no slice runs backwards. *)
From Coq Require Import ZArith List Bool Lia ZifyBool Sorting.Sorted Sorting.Permutation.
From Verif Require Import Py PyExt PyIndex G_slicing S_indexing PySlice Slicing SlicingP Shape COO COOP
     NpIndex CooIndex CooIndexMaskP CooIndexNormP CooIndexP.
Import ListNotations.
Open Scope Z_scope.

(* ================================================================ from a selection to getitem's result *)
Section Finish.
  Variable V : Type.
  Variable x : coo V.
  Variable nix : list nentry.
  Variable ix : index.
  Let sh := c_shape x.
  Let rs := map to_r nix.
  Hypothesis Hcan : canonical V x.
  Hypothesis Hwf : nwf nix sh.
  Hypothesis Harr : arrs_ok nix.
  Variable m : list (nat * Z).
  Hypothesis Hm_nodup : NoDup m.
  Hypothesis Hm_mem : forall p a,
    In (p, a) m <-> (p < length (c_coords x))%nat /\ matches nix (pt (c_coords x) p) a = true
                    /\ (n_arr nix = 0%nat -> a = 0).
  Variable alen : Z.
  Hypothesis Halen : forall l, In (NArr l) nix -> alen = Z.of_nat (length l).
  Variable flag : bool.
  Hypothesis Hflag : flag = true -> StronglySorted lex_lt (map fst (sel_entries V x nix m)).

  Lemma finish_strong :
    let es := sel_entries V x nix m in
    let oshape := build_shape nix false alen in
    match (match oshape with
           | [] => if last_is_ellipsis ix
                   then Ok (GArr (mkCOO [] (map fst es) (map snd es) (c_fill x)))
                   else match es with (_, v) :: _ => Ok (GScalar v) | [] => Ok (GScalar (c_fill x)) end
           | _ => Ok (GArr (coo_make flag oshape es (c_fill x)))
           end) with
    | Ok (GArr y) => c_shape y = out_shape rs /\ c_fill y = c_fill x /\ canonical V y
                     /\ (forall j, in_range (out_shape rs) j -> den y j = den x (src_of rs j))
                     /\ (forall j v, in_range (out_shape rs) j -> (In (j, v) (entries y) <-> In (src_of rs j, v) (entries x)))
    | Ok (GScalar v) => out_shape rs = [] /\ v = den x (src_of rs [])
    | Raise _ => False
    end.
  Proof.
    cbv zeta. rewrite (build_shape_eq nix sh false alen Hwf Halen). fold rs. change (out_shape_aux false rs) with (out_shape rs).
    pose proof (sel_keys_nodup V x nix Hcan Hwf m Hm_nodup Hm_mem) as Hknd.
    pose proof (sel_keys_in_range V x nix Hwf m Hm_mem) as Hkr. fold rs in Hkr.
    destruct (out_shape rs) as [|d0 osh] eqn:Eos.
    - assert (Hknil : forall k, In k (map fst (sel_entries V x nix m)) -> k = []) by (intros k Hk; apply in_range_nil, Hkr, Hk).
      destruct (last_is_ellipsis ix).
      + destruct (result_den V x nix Hcan Hwf Harr m Hm_mem (sel_entries V x nix m) (Permutation_refl _)
                    (nil_keys_sorted _ Hknil Hknd)) as [Hc [Hden Hent]].
        fold rs in Hc, Hden, Hent. rewrite Eos in Hc, Hden, Hent.
        split; [reflexivity|]. split; [reflexivity|]. split; [exact Hc|]. split; [exact Hden|exact Hent].
      + destruct (sel_entries V x nix m) as [|[k v] r] eqn:Ese.
        * split; [reflexivity|]. symmetry. apply den_unstored. intros Hin.
          assert (exists v, In (src_of rs [], v) (entries x)) as [v Hv].
          { apply (In_nth _ _ []) in Hin. destruct Hin as [p [Hp Hpt]].
            exists (nth p (c_data x) (c_fill x)). apply (entries_x V x Hcan). exists p. auto. }
          apply (sel_spec V x nix Hcan Hwf Harr m Hm_mem) in Hv; [|fold rs; rewrite Eos; exact I].
          rewrite Ese in Hv. destruct Hv.
        * split; [reflexivity|]. symmetry. apply den_stored; [assumption|].
          assert (Hk : k = []) by (apply Hknil; left; reflexivity). subst k.
          apply (sel_spec V x nix Hcan Hwf Harr m Hm_mem); [fold rs; rewrite Eos; exact I|]. rewrite Ese. left. reflexivity.
    - unfold coo_make. destruct flag eqn:Ef.
      + destruct (result_den V x nix Hcan Hwf Harr m Hm_mem _ (Permutation_refl _) (Hflag eq_refl)) as [Hc [Hden Hent]].
        fold rs in Hc, Hden, Hent. rewrite Eos in Hc, Hden, Hent.
        split; [reflexivity|]. split; [reflexivity|]. split; [exact Hc|]. split; [exact Hden|exact Hent].
      + assert (Hss : StronglySorted lex_lt (map fst (sort_entries (sel_entries V x nix m)))).
        { apply (sort_sorted V (length (d0 :: osh))); [|assumption].
          apply Forall_forall. intros y Hy. apply (in_range_length (d0 :: osh) (fst y)).
          apply (Hkr (fst y)). apply in_map. exact Hy. }
        destruct (result_den V x nix Hcan Hwf Harr m Hm_mem _ (sort_perm V _) Hss) as [Hc [Hden Hent]].
        fold rs in Hc, Hden, Hent. rewrite Eos in Hc, Hden, Hent.
        split; [reflexivity|]. split; [reflexivity|]. split; [exact Hc|]. split; [exact Hden|exact Hent].
  Qed.

  Lemma finish :
    let es := sel_entries V x nix m in
    let oshape := build_shape nix false alen in
    match (match oshape with
           | [] => if last_is_ellipsis ix
                   then Ok (GArr (mkCOO [] (map fst es) (map snd es) (c_fill x)))
                   else match es with (_, v) :: _ => Ok (GScalar v) | [] => Ok (GScalar (c_fill x)) end
           | _ => Ok (GArr (coo_make flag oshape es (c_fill x)))
           end) with
    | Ok (GArr y) => c_shape y = out_shape rs /\ c_fill y = c_fill x /\ canonical V y
                     /\ forall j, in_range (out_shape rs) j -> den y j = den x (src_of rs j)
    | Ok (GScalar v) => out_shape rs = [] /\ v = den x (src_of rs [])
    | Raise _ => False
    end.
  Proof.
    pose proof finish_strong as H. cbv zeta in *.
    destruct (match build_shape nix false alen with
              | [] => if last_is_ellipsis ix
                      then Ok (GArr (mkCOO [] (map fst (sel_entries V x nix m)) (map snd (sel_entries V x nix m)) (c_fill x)))
                      else match sel_entries V x nix m with (_, v) :: _ => Ok (GScalar v) | [] => Ok (GScalar (c_fill x)) end
              | _ => Ok (GArr (coo_make flag (build_shape nix false alen) (sel_entries V x nix m) (c_fill x)))
              end) as [[v|y]|e]; [exact H| |exact H].
    destruct H as [H1 [H2 [H3 [H4 _]]]]. auto.
  Qed.
End Finish.

(* ================================================================ one array: structure *)

Lemma one_arr_split nix : n_arr nix = 1%nat ->
  exists pre l post, nix = pre ++ NArr l :: post /\ no_arr pre = true /\ no_arr post = true.
Proof.
  unfold n_arr. induction nix as [|e r IH]; intros H; [discriminate|].
  destruct e as [i|s e st| |l]; cbn [filter is_narr length] in H.
  - destruct (IH H) as [pre [l [post [-> [H1 H2]]]]]. exists (NInt i :: pre), l, post. auto.
  - destruct (IH H) as [pre [l [post [-> [H1 H2]]]]]. exists (NSlice s e st :: pre), l, post. auto.
  - destruct (IH H) as [pre [l [post [-> [H1 H2]]]]]. exists (NNone :: pre), l, post. auto.
  - exists [], l, r. split; [reflexivity|]. split; [reflexivity|].
    unfold no_arr. apply forallb_forall. intros y Hy. destruct (is_narr y) eqn:E; [|reflexivity].
    exfalso. assert (In y (filter is_narr r)) by (apply filter_In; auto).
    destruct (filter is_narr r); [destruct H0|simpl in H; lia].
Qed.

Lemma nwf_app_inv pre : forall r sh, nwf (pre ++ r) sh -> exists sh1 sh2, sh = sh1 ++ sh2 /\ nwf pre sh1 /\ nwf r sh2.
Proof.
  induction pre as [|e pre IH]; intros r sh H.
  - exists [], sh. simpl. auto.
  - destruct e as [i|s e st| |l]; cbn [app nwf] in H.
    + destruct sh as [|d sh]; [contradiction|]. destruct H as [Hi H]. destruct (IH r sh H) as [sh1 [sh2 [-> [H1 H2]]]].
      exists (d :: sh1), sh2. cbn [nwf]. auto.
    + destruct sh as [|d sh]; [contradiction|]. destruct H as [Hst [Hr H]]. destruct (IH r sh H) as [sh1 [sh2 [-> [H1 H2]]]].
      exists (d :: sh1), sh2. cbn [nwf]. auto.
    + destruct (IH r sh H) as [sh1 [sh2 [-> [H1 H2]]]]. exists sh1, sh2. cbn [nwf]. auto.
    + destruct sh as [|d sh]; [contradiction|]. destruct H as [Hl H]. destruct (IH r sh H) as [sh1 [sh2 [-> [H1 H2]]]].
      exists (d :: sh1), sh2. cbn [nwf]. auto.
Qed.

Lemma nwf_app_intro pre : forall r sh1 sh2, nwf pre sh1 -> nwf r sh2 -> nwf (pre ++ r) (sh1 ++ sh2).
Proof.
  induction pre as [|e pre IH]; intros r sh1 sh2 H1 H2.
  - simpl in H1. subst. exact H2.
  - destruct e as [i|s e st| |l]; cbn [app nwf] in *.
    + destruct sh1 as [|d sh1]; [contradiction|]. destruct H1. cbn [app]. split; auto.
    + destruct sh1 as [|d sh1]; [contradiction|]. destruct H1 as [? [? ?]]. cbn [app]. split; [assumption|split; auto].
    + auto.
    + destruct sh1 as [|d sh1]; [contradiction|]. destruct H1. cbn [app]. split; auto.
Qed.

(* the array entry replaced by the integer it holds at position a *)
Lemma matches_subst_arr pre l post : forall t a,
  matches (pre ++ NArr l :: post) t a
  = (0 <=? a) && (a <? Z.of_nat (length l)) && matches (pre ++ NInt (zat l a) :: post) t a.
Proof.
  induction pre as [|e pre IH]; intros t a.
  - cbn [app matches]. destruct t as [|c t]; [rewrite andb_false_r; reflexivity|].
    rewrite (Z.eqb_sym c). rewrite !andb_assoc. reflexivity.
  - destruct e as [i|s e st| |l']; cbn [app matches].
    + destruct t as [|c t]; [rewrite andb_false_r; reflexivity|]. rewrite IH.
      destruct (c =? i); [reflexivity|]. cbn [andb]. rewrite andb_false_r. reflexivity.
    + destruct t as [|c t]; [rewrite andb_false_r; reflexivity|]. rewrite IH.
      destruct (in_row s e st c); [reflexivity|]. cbn [andb]. rewrite andb_false_r. reflexivity.
    + apply IH.
    + destruct t as [|c t]; [rewrite andb_false_r; reflexivity|]. rewrite IH.
      destruct ((0 <=? a) && (a <? Z.of_nat (length l')) && (zat l' a =? c)); [reflexivity|].
      cbn [andb]. rewrite andb_false_r. reflexivity.
Qed.

Lemma matches_no_arr_a nix : forall t a a', no_arr nix = true -> matches nix t a = matches nix t a'.
Proof.
  induction nix as [|e r IH]; intros t a a' H; [reflexivity|]. simpl in H. apply andb_true_iff in H. destruct H as [He Hr].
  destruct e; try discriminate; cbn [matches]; try (destruct t; [reflexivity|]); rewrite ?(IH _ a a' Hr); auto.
Qed.

Lemma no_arr_app l1 l2 : no_arr (l1 ++ l2) = no_arr l1 && no_arr l2.
Proof. unfold no_arr. apply forallb_app. Qed.

(* ---- pruning around a non-slice entry *)
Lemma prune'_mid lpre : forall e lpost sh1 d sh2,
  (forall d', is_full e d' = false) -> length lpre = length sh1 ->
  prune' (lpre ++ e :: lpost) (sh1 ++ d :: sh2) = lpre ++ e :: prune' lpost sh2.
Proof.
  induction lpre as [|x lpre IH]; intros e lpost sh1 d sh2 He Hlen.
  - destruct sh1; [|discriminate]. cbn [app prune']. rewrite He. destruct (prune' lpost sh2); reflexivity.
  - destruct sh1 as [|d1 sh1]; [discriminate|]. simpl in Hlen. cbn [app prune'].
    rewrite (IH e lpost sh1 d sh2 He ltac:(lia)). destruct lpre; reflexivity.
Qed.

Lemma filter_not_none_app l1 l2 : filter not_none (l1 ++ l2) = filter not_none l1 ++ filter not_none l2.
Proof. apply filter_app. Qed.

Lemma adv_of_app l1 : forall k l2, adv_of k (l1 ++ l2) = adv_of k l1 ++ adv_of (k + Z.of_nat (length l1)) l2.
Proof.
  induction l1 as [|e l1 IH]; intros k l2; [simpl; rewrite Z.add_0_r; reflexivity|].
  cbn [app adv_of length]. rewrite Nat2Z.inj_succ.
  replace (k + Z.succ (Z.of_nat (length l1))) with (k + 1 + Z.of_nat (length l1)) by lia.
  destruct e; rewrite IH; reflexivity.
Qed.

Lemma rows_app l1 l2 : rows (l1 ++ l2) = rows l1 ++ rows l2.
Proof. unfold rows. apply flat_map_app. Qed.

Lemma rows_length_exact l : forallb not_none l = true -> no_arr l = true -> length (rows l) = length l.
Proof.
  induction l as [|e r IH]; intros Hn Ha; [reflexivity|]. simpl in Hn, Ha. apply andb_true_iff in Hn, Ha.
  destruct Hn as [Hne Hn], Ha as [Hae Ha]. rewrite rows_cons, app_length, (IH Hn Ha).
  destruct e; try discriminate; reflexivity.
Qed.

Lemma insert_at_app {A} (l1 l2 : list A) x : insert_at (length l1) x (l1 ++ l2) = l1 ++ x :: l2.
Proof. induction l1 as [|a l1 IH]; [destruct l2; reflexivity|]. simpl. rewrite IH. reflexivity. Qed.

Lemma flat_map_map {A B C} (g : A -> B) (f : B -> list C) l : flat_map f (map g l) = flat_map (fun a => f (g a)) l.
Proof. induction l as [|a l IH]; simpl; [reflexivity|]. rewrite IH. reflexivity. Qed.

(* ---- _compute_multi_mask *)
Lemma multi_mask_flat kf pts inds pos : forall adv i,
  multi_mask kf pts inds pos i adv
  = flat_map (fun k => map (fun p => (p, Z.of_nat (i + k)))
                           (mask_pos (kf (i + k)%nat) pts (insert_at pos (nth k adv 0, nth k adv 0 + 1, 1) inds)))
             (seq 0 (length adv)).
Proof.
  induction adv as [|v adv IH]; intros i; [reflexivity|].
  cbn [multi_mask length seq flat_map nth]. rewrite Nat.add_0_r. f_equal.
  rewrite IH, <- seq_shift, flat_map_map.
  apply flat_map_ext. intros k. cbn [nth]. replace (S i + k)%nat with (i + S k)%nat by lia. reflexivity.
Qed.

(* ================================================================ one call of _compute_mask for an array-free index *)
Lemma basic_mask (V : Type) (x : coo V) (nix : list nentry) :
  canonical V x -> nwf nix (c_shape x) -> no_arr nix = true ->
  forall k,
    let pts := c_coords x in
    let mp := mask_pos k pts (rows (prune_indices nix (c_shape x))) in
    NoDup mp
    /\ (forall p, In p mp <-> (p < length pts)%nat /\ matches nix (pt pts p) 0 = true)
    /\ (forallb nonneg_step nix = true ->
        mp = filter (fun p => matches nix (pt pts p) 0) (seq 0 (length pts))).
Proof.
  intros Hcan Hwf Hna k. cbv zeta. set (sh := c_shape x) in *. set (pts := c_coords x).
  pose proof Hcan as [Hrange [Hsorted Hlen]]. fold pts sh in Hrange, Hsorted.
  set (inds := rows (prune_indices nix sh)).
  assert (Hpr : prune_indices nix sh = prune' (filter not_none nix) sh) by (apply prune_indices_eq; assumption).
  assert (Hincl : forall e, In e (prune_indices nix sh) -> In e nix).
  { intros e He. rewrite Hpr in He. apply prune'_incl in He. apply filter_In in He. tauto. }
  assert (Hsteps : forall s e st, In (NSlice s e st) (prune_indices nix sh) -> st <> 0).
  { intros s e st Hin. eapply nwf_steps; [exact Hwf|]. apply Hincl. exact Hin. }
  assert (Hok : Forall row_ok inds) by (apply rows_ok; assumption).
  assert (Hlong : points_long pts (length inds)).
  { intros j Hj. rewrite (in_range_length sh _ (pt_in_range pts sh j Hrange Hj)).
    unfold inds. etransitivity; [apply rows_length|]. rewrite Hpr.
    etransitivity; [apply prune'_length|]. rewrite (nwf_length _ sh (nwf_filter _ _ Hwf) (filter_not_none_all nix)). apply Nat.le_refl. }
  destruct (mask_strategy_irrelevant_proof pts Hsorted inds Hok Hlong k) as [Hnd [Hmem Heq]].
  assert (Hspec : forall p, (p < length pts)%nat -> match_all inds (pt pts p) = matches nix (pt pts p) 0).
  { intros p Hp. apply pruned_rows_match; [assumption|assumption|]. apply (pt_in_range pts sh p Hrange Hp). }
  split; [exact Hnd|]. split.
  - intros p. unfold mask_pos. rewrite Hmem. unfold mask_spec. rewrite filter_In, in_seq0. split.
    + intros [Hp Hm]. rewrite <- Hspec by assumption. auto.
    + intros [Hp Hm]. rewrite Hspec by assumption. auto.
  - intros Hpos. unfold mask_pos. rewrite Heq.
    + unfold mask_spec. apply filter_ext_in. intros p Hp. apply in_seq0 in Hp. apply Hspec. exact Hp.
    + apply Forall_forall. intros t Ht. apply in_firstn in Ht. revert t Ht. apply Forall_forall.
      apply rows_pos; [|assumption]. eapply forallb_incl; [exact Hincl|exact Hpos].
Qed.

(* ================================================================ getitem with one index array *)

Definition one_array (ix : index) : bool := countb is_iarr ix =? 1.

Lemma n_arr_norm ex : forall sh, fits ex sh = true -> Z.of_nat (n_arr (norm_all ex sh)) = countb is_iarr ex.
Proof.
  unfold n_arr. induction ex as [|e r IH]; intros sh Hf; [reflexivity|]. rewrite countb_cons.
  destruct e; try discriminate; simpl in Hf.
  - destruct sh as [|d sh']; [discriminate|]. cbn [norm_all nentry_spec filter is_narr is_iarr]. rewrite (IH sh' Hf). lia.
  - destruct sh as [|d sh']; [discriminate|]. cbn [norm_all nentry_spec is_iarr]. rewrite <- (IH sh' Hf).
    unfold nslice_of. destruct (normalize_slice _ _) as [[]|]; try reflexivity.
    destruct a0; try reflexivity. destruct b0; try reflexivity. destruct c0; reflexivity.
  - cbn [norm_all filter is_narr is_iarr]. rewrite (IH sh Hf). lia.
  - destruct sh as [|d sh']; [discriminate|]. cbn [norm_all nentry_spec filter is_narr is_iarr length].
    rewrite Nat2Z.inj_succ, (IH sh' Hf). lia.
  - destruct sh as [|d sh']; [discriminate|]. cbn [norm_all nentry_spec filter is_narr is_iarr length].
    rewrite Nat2Z.inj_succ, (IH sh' Hf). lia.
Qed.

Lemma expand_count_arr nd ix ex : expand nd ix = Ok ex -> countb is_iarr ex = countb is_iarr ix.
Proof.
  unfold expand. destruct (1 <? countb is_ell ix) eqn:E1; [discriminate|].
  destruct (nd - countb consumes ix <? 0); [discriminate|]. intros H. inversion H; subst ex. clear H.
  assert (Hfill : forall k, countb is_iarr (repeat full_slice k) = 0).
  { induction k as [|k IHk]; [reflexivity|]. cbn [repeat]. rewrite countb_cons, IHk. reflexivity. }
  destruct (Z.ltb_spec 0 (countb is_ell ix)) as [H0|H0].
  - destruct (first_ell ix H0) as [pre [post [-> Hp]]].
    assert (Hsub : forall fill, subst_ellipsis fill (pre ++ IEllipsis :: post) = pre ++ fill ++ post).
    { intros fill. clear -Hp. induction pre as [|e r IH]; [reflexivity|]. simpl in Hp. apply andb_true_iff in Hp.
      destruct Hp as [He Hr]. simpl. rewrite (IH Hr). destruct e; try discriminate; reflexivity. }
    rewrite Hsub, !countb_app, Hfill, countb_cons. simpl. lia.
  - rewrite countb_app, Hfill. lia.
Qed.

Lemma broadcast_one pre l post :
  no_arr pre = true -> no_arr post = true ->
  broadcast (map to_r (pre ++ NArr l :: post)) = Ok (map to_r (pre ++ NArr l :: post)).
Proof.
  intros Hpre Hpost. unfold broadcast.
  assert (Hl : adv_lens (map to_r (pre ++ NArr l :: post)) = [Z.of_nat (length l)]).
  { rewrite map_app. unfold adv_lens. rewrite flat_map_app. fold (adv_lens (map to_r pre)).
    rewrite (adv_lens_no_adv _ (to_r_no_adv pre Hpre)). cbn [map to_r flat_map app].
    fold (adv_lens (map to_r post)). rewrite (adv_lens_no_adv _ (to_r_no_adv post Hpost)). reflexivity. }
  rewrite Hl. unfold bcast_len. cbn [fold_right forallb].
  set (a := Z.of_nat (length l)).
  assert (Hn : (if a =? 1 then 1 else a) = a) by (destruct (Z.eqb_spec a 1); lia). rewrite Hn, Z.eqb_refl. cbn [orb andb bind].
  f_equal. rewrite !map_app. cbn [map]. rewrite (stretch_no_adv _ _ (to_r_no_adv pre Hpre)), (stretch_no_adv _ _ (to_r_no_adv post Hpost)).
  f_equal. f_equal. cbn [to_r stretch]. destruct l as [|v [|w r]]; reflexivity.
Qed.

Lemma all_full_arr pre l post sh : all_full (pre ++ NArr l :: post) sh = false.
Proof.
  unfold all_full. destruct (pre ++ NArr l :: post) eqn:E; [reflexivity|]. rewrite <- E.
  destruct (Nat.eqb_spec (length (pre ++ NArr l :: post)) (length sh)) as [Hlen|]; [|reflexivity]. cbn [andb].
  apply not_true_is_false. intros Hf. rewrite forallb_forall in Hf.
  assert (exists d, In (NArr l, d) (combine (pre ++ NArr l :: post) sh)) as [d Hd].
  { clear -Hlen. revert sh Hlen. induction pre as [|e pre IH]; intros [|d sh] Hlen; try discriminate.
    - exists d. left. reflexivity.
    - simpl in Hlen. destruct (IH sh ltac:(lia)) as [d' Hd']. exists d'. right. exact Hd'. }
  specialize (Hf _ Hd). discriminate.
Qed.

Lemma filter_not_none_no_arr l : no_arr l = true -> no_arr (filter not_none l) = true.
Proof. apply no_arr_filter. Qed.

Lemma zat_of_nat l k : zat l (Z.of_nat k) = nth k l 0.
Proof. unfold zat. rewrite Nat2Z.id. reflexivity. Qed.

(* the array on the first consumed axis: the result index starts with zeros (None axes) and then a *)
Lemma build_first pre l post : forall t a,
  filter not_none pre = [] ->
  build (pre ++ NArr l :: post) false t a = repeat 0 (length pre) ++ a :: build post true (tl t) a.
Proof.
  induction pre as [|e pre IH]; intros t a H; [reflexivity|].
  destruct e; try discriminate. cbn [app build length repeat]. f_equal. apply IH. exact H.
Qed.

Lemma lex_lt_zeros k a a' (u v : idx) : a < a' -> lex_lt (repeat 0 k ++ a :: u) (repeat 0 k ++ a' :: v).
Proof. intros H. induction k as [|k IH]; simpl; [left; exact H|right; split; [reflexivity|exact IH]]. Qed.

Lemma facing_dim_unique (sh1 sh2 t1 t2 : shape) d d' :
  t1 ++ d' :: t2 = sh1 ++ d :: sh2 -> length t1 = length sh1 -> d' = d.
Proof.
  revert sh1. induction t1 as [|a t1 IH]; intros [|b sh1] H Hl; try discriminate.
  - inversion H. reflexivity.
  - simpl in Hl. inversion H. eapply IH; eauto.
Qed.

Section GetitemArr.
  Variable V : Type.

  Theorem coo_getitem_one_array_strong (kf : nat -> nat) (x : coo V) (ix : index) :
    canonical V x -> shape_okb (c_shape x) = true -> no_zero_step ix = true ->
    one_array ix = true -> d29_clause (c_shape x) ix = true ->
    match np_index (c_shape x) ix with
    | Raise e => getitem kf x ix = Raise e /\ e = IndexError
    | Ok (sh', g) =>
      match getitem kf x ix with
      | Ok (GArr y) => c_shape y = sh' /\ c_fill y = c_fill x /\ canonical V y
                       /\ (forall j, in_range sh' j -> den y j = den x (g j))
                       /\ (forall j v, in_range sh' j -> (In (j, v) (entries y) <-> In (g j, v) (entries x)))
      | Ok (GScalar v) => sh' = [] /\ v = den x (g [])
      | Raise _ => False
      end
    end.
  Proof.
    intros Hcan Hsh Hz Hone Hd. set (sh := c_shape x) in *.
    rewrite np_index_eq.
    destruct (normalize_link sh ix Hsh Hz Hd) as [[ex [E [Hf [Ha [Hn Hr]]]]]|[Hn Hr]].
    2: { rewrite Hr. cbn [bind]. unfold getitem. fold sh. rewrite Hn. auto. }
    set (nix := norm_all ex sh) in *.
    assert (Hwf : nwf nix sh) by (apply norm_all_nwf; auto; eapply expand_nzs; eauto).
    assert (Hn1 : n_arr nix = 1%nat).
    { pose proof (n_arr_norm ex sh Hf) as H. fold nix in H. rewrite (expand_count_arr _ _ _ E) in H.
      unfold one_array in Hone. apply Z.eqb_eq in Hone. clear - H Hone. lia. }
    destruct (one_arr_split nix Hn1) as [pre [l [post [Enix [Hpre Hpost]]]]].
    assert (Harr : arrs_ok nix).
    { assert (Hone' : forall l', In (NArr l') nix -> l' = l).
      { intros l' Hin. rewrite Enix in Hin. apply in_app_iff in Hin. destruct Hin as [Hin|[Hin|Hin]].
        - exfalso. unfold no_arr in Hpre. rewrite forallb_forall in Hpre. specialize (Hpre _ Hin). discriminate.
        - inversion Hin. reflexivity.
        - exfalso. unfold no_arr in Hpost. rewrite forallb_forall in Hpost. specialize (Hpost _ Hin). discriminate. }
      intros l1 l2 H1 H2. rewrite (Hone' l1 H1), (Hone' l2 H2). reflexivity. }
    rewrite Hr. cbn [bind]. rewrite Enix, (broadcast_one pre l post Hpre Hpost), <- Enix. cbn [bind].
    assert (Haf : all_full nix sh = false) by (rewrite Enix; apply all_full_arr).
    unfold getitem. fold sh. rewrite Hn. cbn [bind]. rewrite Haf.
    (* the pruned index around the array *)
    pose proof Hcan as [Hrange [Hsorted Hlen]]. set (pts := c_coords x) in *.
    set (fpre := filter not_none pre). set (fpost := filter not_none post).
    assert (Hfil : filter not_none nix = fpre ++ NArr l :: fpost) by (rewrite Enix, filter_not_none_app; reflexivity).
    pose proof (nwf_filter nix sh Hwf) as Hwff. rewrite Hfil in Hwff.
    destruct (nwf_app_inv fpre _ sh Hwff) as [sh1 [sh2' [Esh [Hw1 Hw2]]]].
    cbn [nwf] in Hw2. destruct sh2' as [|d sh2]; [contradiction|]. destruct Hw2 as [Hl Hw2].
    assert (Hfpre_nn : forallb not_none fpre = true) by apply filter_not_none_all.
    assert (Hfpost_nn : forallb not_none fpost = true) by apply filter_not_none_all.
    assert (Hfpre_na : no_arr fpre = true) by (apply no_arr_filter; assumption).
    assert (Hfpost_na : no_arr fpost = true) by (apply no_arr_filter; assumption).
    assert (Hlen1 : length fpre = length sh1) by (apply nwf_length; assumption).
    set (P := prune' fpost sh2).
    assert (HP_na : no_arr P = true) by (apply prune'_no_arr; assumption).
    assert (Hpr : prune_indices nix sh = fpre ++ NArr l :: P).
    { rewrite (prune_indices_eq nix sh Hwf), Hfil, Esh. apply prune'_mid; [reflexivity|assumption]. }
    (* the same for the array replaced by one of its entries *)
    assert (Hsub : forall v, 0 <= v < d ->
               nwf (pre ++ NInt v :: post) sh /\ no_arr (pre ++ NInt v :: post) = true
               /\ prune_indices (pre ++ NInt v :: post) sh = fpre ++ NInt v :: P).
    { intros v Hv.
      assert (Hwv : nwf (pre ++ NInt v :: post) sh).
      { rewrite Enix in Hwf. destruct (nwf_app_inv pre _ sh Hwf) as [t1 [t2 [Et [Ht1 Ht2]]]].
        rewrite Et. apply nwf_app_intro; [assumption|]. cbn [nwf] in Ht2 |- *.
        destruct t2 as [|d' t2]; [contradiction|]. destruct Ht2 as [Hl' Ht2]. split; [|assumption].
        (* d' = d: both are the extent facing the array *)
        assert (Hfil2 : nwf (fpre ++ NArr l :: fpost) (t1 ++ d' :: t2)).
        { rewrite <- Et, <- Hfil. apply nwf_filter. rewrite Enix. exact Hwf. }
        destruct (nwf_app_inv fpre _ _ Hfil2) as [u1 [u2 [Eu [Hu1 Hu2]]]].
        assert (length u1 = length sh1) by (rewrite <- Hlen1; symmetry; apply nwf_length; assumption).
        assert (length t1 = length sh1).
        { pose proof (nwf_filter pre t1 Ht1) as Hq. fold fpre in Hq. rewrite <- Hlen1. symmetry. apply nwf_length; assumption. }
        assert (Ed : d' = d) by (rewrite Esh in Et; eapply facing_dim_unique; eauto).
        subst d'. exact Hv. }
      split; [exact Hwv|]. split; [rewrite no_arr_app; cbn [no_arr forallb is_narr negb]; fold (no_arr post); rewrite Hpre, Hpost; reflexivity|].
      rewrite (prune_indices_eq _ sh Hwv), filter_not_none_app. cbn [filter not_none is_nnone negb]. fold fpre fpost.
      rewrite Esh. apply prune'_mid; [reflexivity|assumption]. }
    unfold mask_of. rewrite Hpr, adv_of_app, (adv_of_no_arr fpre 0 Hfpre_na). cbn [app adv_of].
    rewrite (adv_of_no_arr P _ HP_na). cbn [bind]. rewrite Z.add_0_l, Nat2Z.id.
    set (inds := flat_map triple_of (fpre ++ NArr l :: P)).
    assert (Hinds : inds = rows fpre ++ rows P) by (unfold inds; fold (rows (fpre ++ NArr l :: P)); rewrite rows_app, rows_cons; reflexivity).
    set (m := multi_mask kf pts inds (length fpre) 0 l).
    (* each call of _compute_mask is the basic mask of the index with the array replaced by its entry *)
    assert (Hcall : forall k, (k < length l)%nat ->
               insert_at (length fpre) (nth k l 0, nth k l 0 + 1, 1) inds
               = rows (prune_indices (pre ++ NInt (nth k l 0) :: post) sh)
               /\ 0 <= nth k l 0 < d).
    { intros k Hk. assert (Hv : 0 <= nth k l 0 < d) by (apply Hl, nth_In; exact Hk). split; [|exact Hv].
      destruct (Hsub _ Hv) as [_ [_ Hp]]. rewrite Hp, Hinds, rows_app, rows_cons. cbn [triple_of app].
      rewrite <- (rows_length_exact fpre Hfpre_nn Hfpre_na). apply insert_at_app. }
    assert (Hm_eq : m = flat_map (fun k => map (fun p => (p, Z.of_nat k))
                          (mask_pos (kf k) pts (rows (prune_indices (pre ++ NInt (nth k l 0) :: post) sh))))
                        (seq 0 (length l))).
    { unfold m. rewrite multi_mask_flat. apply flat_map_ext_in. intros k Hk. apply in_seq0 in Hk.
      cbn [Nat.add]. destruct (Hcall k Hk) as [-> _]. reflexivity. }
    assert (Hmm : forall k, (k < length l)%nat -> forall t,
               matches nix t (Z.of_nat k) = matches (pre ++ NInt (nth k l 0) :: post) t 0).
    { intros k Hk t. rewrite Enix, matches_subst_arr, zat_of_nat.
      rewrite (proj2 (Z.leb_le 0 (Z.of_nat k)) (Nat2Z.is_nonneg k)).
      rewrite (proj2 (Z.ltb_lt _ _) (inj_lt _ _ Hk)). cbn [andb]. apply matches_no_arr_a. destruct (Hcall k Hk) as [_ Hv]. destruct (Hsub _ Hv) as [_ [Hna _]]. exact Hna. }
    assert (Hm_mem : forall p a, In (p, a) m <->
               (p < length pts)%nat /\ matches nix (pt pts p) a = true /\ (n_arr nix = 0%nat -> a = 0)).
    { intros p a. rewrite Hm_eq, in_flat_map. split.
      - intros [k [Hk Hin]]. apply in_seq0 in Hk. apply in_map_iff in Hin. destruct Hin as [q [Hq Hin]].
        inversion Hq; subst q a. destruct (Hcall k Hk) as [_ Hv]. destruct (Hsub _ Hv) as [Hwv [Hnav _]].
        destruct (basic_mask V x _ Hcan Hwv Hnav (kf k)) as [_ [Hmem _]]. apply Hmem in Hin. destruct Hin as [Hp Hma].
        split; [exact Hp|]. split; [rewrite (Hmm k Hk); exact Hma|]. intros H0. rewrite Hn1 in H0. discriminate.
      - intros [Hp [Hma _]]. pose proof Hma as Hma'. rewrite Enix, matches_subst_arr in Hma'.
        apply andb_true_iff in Hma'. destruct Hma' as [Hb _]. apply andb_true_iff in Hb. destruct Hb as [Hb1 Hb2].
        exists (Z.to_nat a). assert (Hk : (Z.to_nat a < length l)%nat) by (clear - Hb1 Hb2; lia).
        split; [apply in_seq0; exact Hk|]. apply in_map_iff. exists p. split; [f_equal; clear - Hb1; lia|].
        destruct (Hcall _ Hk) as [_ Hv]. destruct (Hsub _ Hv) as [Hwv [Hnav _]].
        destruct (basic_mask V x _ Hcan Hwv Hnav (kf (Z.to_nat a))) as [_ [Hmem _]]. apply Hmem.
        split; [exact Hp|]. rewrite <- (Hmm _ Hk). rewrite Z2Nat.id by (clear - Hb1; lia). exact Hma. }
    assert (Hm_nodup : NoDup m).
    { rewrite Hm_eq. apply NoDup_flat_map_keys; [apply seq_NoDup| |].
      - intros k Hk. apply in_seq0 in Hk. destruct (Hcall k Hk) as [_ Hv]. destruct (Hsub _ Hv) as [Hwv [Hnav _]].
        destruct (basic_mask V x _ Hcan Hwv Hnav (kf k)) as [Hnd _].
        apply NoDup_map_inj_in; [exact Hnd|]. intros a b _ _ H. inversion H. reflexivity.
      - intros k k' [p a] _ _ H1 H2. apply in_map_iff in H1, H2. destruct H1 as [q [Hq _]], H2 as [q' [Hq' _]].
        inversion Hq as [[E1 E2]]. inversion Hq' as [[E3 E4]]. apply Nat2Z.inj. congruence. }
    assert (Halen : forall l', In (NArr l') nix -> Z.of_nat (length l) = Z.of_nat (length l')).
    { intros l' Hin. rewrite Enix in Hin. apply in_app_iff in Hin. destruct Hin as [Hin|[Hin|Hin]].
      - exfalso. unfold no_arr in Hpre. rewrite forallb_forall in Hpre. specialize (Hpre _ Hin). discriminate.
      - inversion Hin. reflexivity.
      - exfalso. unfold no_arr in Hpost. rewrite forallb_forall in Hpost. specialize (Hpost _ Hin). discriminate. }
    (* the sorted flag *)
    assert (Hflag : sorted_flag nix (Some (mkAdv (VInt (Z.of_nat (length fpre))) (Z.of_nat (length l)))) = true ->
                    StronglySorted lex_lt (map fst (sel_entries V x nix m))).
    { rewrite sorted_flag_adv. intros Hfl. apply andb_true_iff in Hfl. destruct Hfl as [Hq0 Hpos].
      assert (Hfp : fpre = []).
      { apply Z.eqb_eq in Hq0. clear - Hq0. destruct fpre; [reflexivity|simpl in Hq0; lia]. }
      unfold sel_entries. rewrite Hm_eq, map_map. cbn [sel_entry fst snd]. rewrite flat_map_concat_map, concat_map, map_map, <- flat_map_concat_map.
      apply (SS_flat_map_keys lt); [apply SS_seq| |].
      - intros k Hk. apply in_seq0 in Hk. rewrite map_map. cbn [fst snd].
        destruct (Hcall k Hk) as [_ Hv]. destruct (Hsub _ Hv) as [Hwv [Hnav _]].
        destruct (basic_mask V x _ Hcan Hwv Hnav (kf k)) as [_ [_ Heq]].
        assert (Hposv : forallb nonneg_step (pre ++ NInt (nth k l 0) :: post) = true).
        { rewrite Enix in Hpos. rewrite forallb_app in Hpos |- *. cbn [forallb nonneg_step] in Hpos |- *. exact Hpos. }
        specialize (Heq Hposv). fold pts sh in Heq. rewrite Heq.
        apply SS_map_lt; [apply SS_filter, SS_seq|]. intros p q Hp Hq Hpq.
        apply filter_In in Hp, Hq. destruct Hp as [Hp Hmp], Hq as [Hq Hmq]. apply in_seq0 in Hp, Hq.
        rewrite <- (Hmm k Hk) in Hmp, Hmq.
        apply (build_mono nix sh false _ _ (Z.of_nat k) Hwf Hpos Hmp Hmq). apply pts_lex; assumption.
      - intros k k' u v Hkk Hu Hv. rewrite map_map in Hu, Hv. apply in_map_iff in Hu, Hv.
        destruct Hu as [p [<- _]], Hv as [q [<- _]]. cbn [fst snd]. rewrite Enix.
        rewrite !build_first by (fold fpre; exact Hfp). apply lex_lt_zeros. clear - Hkk. lia. }
    exact (finish_strong V x nix ix Hcan Hwf Harr m Hm_nodup Hm_mem _ Halen _ Hflag).
  Qed.

  Theorem coo_getitem_one_array_proof (kf : nat -> nat) (x : coo V) (ix : index) :
    canonical V x -> shape_okb (c_shape x) = true -> no_zero_step ix = true ->
    one_array ix = true -> d29_clause (c_shape x) ix = true ->
    match np_index (c_shape x) ix with
    | Raise e => getitem kf x ix = Raise e /\ e = IndexError
    | Ok (sh', g) =>
      match getitem kf x ix with
      | Ok (GArr y) => c_shape y = sh' /\ c_fill y = c_fill x /\ canonical V y
                       /\ forall j, in_range sh' j -> den y j = den x (g j)
      | Ok (GScalar v) => sh' = [] /\ v = den x (g [])
      | Raise _ => False
      end
    end.
  Proof.
    intros Hcan Hsh Hz Hone Hd. pose proof (coo_getitem_one_array_strong kf x ix Hcan Hsh Hz Hone Hd) as H.
    destruct (np_index (c_shape x) ix) as [[sh' g]|e]; [|exact H].
    destruct (getitem kf x ix) as [[v|y]|e]; [exact H| |exact H].
    destruct H as [H1 [H2 [H3 [H4 _]]]]. auto.
  Qed.
End GetitemArr.

(* the statement without the D29 clause is false of the code: NumPy accepts x[np.array([], dtype=bool)] on a
   non-empty axis (result of length 0), check_index raises IndexError *)
Theorem coo_getitem_one_array_refuted_proof :
  exists (x : coo Z) (ix : index),
    canonical Z x /\ shape_okb (c_shape x) = true /\ no_zero_step ix = true /\ one_array ix = true
    /\ (exists sh' g, np_index (c_shape x) ix = Ok (sh', g))
    /\ forall kf, getitem kf x ix = Raise IndexError.
Proof.
  exists (mkCOO [1] [[0]] [5] 0), [IBArr []].
  split; [apply canonicalb_spec; reflexivity|]. repeat split.
  eexists. eexists. vm_compute. reflexivity.
Qed.

(* non-vacuity: x[:, [2, -3, 2]] on a 2x3 array with fill 7 (repeated, unsorted, negative entries) *)
Example getitem_one_array_nonvacuous :
  let x := mkCOO [2; 3] [[0; 1]; [1; 0]; [1; 2]] [10; 20; 30] 7 in
  let ix := [ISlice None None None; IArr [2; -3; 2]] in
  canonical Z x /\ shape_okb (c_shape x) = true /\ no_zero_step ix = true /\ one_array ix = true
  /\ d29_clause (c_shape x) ix = true
  /\ getitem (fun _ => 1%nat) x ix
     = Ok (GArr (mkCOO [2; 3] [[1; 0]; [1; 1]; [1; 2]] [30; 20; 30] 7)).
Proof. cbv zeta. split; [apply canonicalb_spec; reflexivity|]. repeat split. Qed.
