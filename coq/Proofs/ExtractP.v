(* Proofs/ExtractP.v — triu / tril / diagonal / diagonalize of _coo/common.py against
   np.triu / np.tril / np.diagonal (and diagonalize's docstring), at the generated predicates
   and constructor flags.  diagonal and diagonalize are FALSE of the code outside the named
   domain clauses (D5, D14, nonsquare, negative axes): refuted by concrete witnesses, proved
   inside the domain. *)
From Coq Require Import ZArith List Bool Lia ZifyBool Sorting.Sorted Sorting.Permutation.
From Verif Require Import Py PyExt Shape COO COOP NpJoin G_join S_join Join Extract JoinP.
Import ListNotations.
Open Scope Z_scope.

(* ================================================================ keeping the positions selected by a mask *)

(* the entries of c at the positions s, s+1, ... whose number satisfies m *)
Fixpoint keep (m : nat -> bool) (s : nat) (c : list Z) : list Z :=
  match c with
  | [] => []
  | x :: r => if m s then x :: keep m (S s) r else keep m (S s) r
  end.

Lemma keep_ext m m' s c : (forall j, (s <= j)%nat -> m j = m' j) -> keep m s c = keep m' s c.
Proof.
  revert s; induction c as [|x r IH]; intros s H; simpl; [reflexivity|].
  rewrite (H s) by lia. rewrite (IH (S s)) by (intros; apply H; lia). reflexivity.
Qed.

Lemma keep_all m s c : (forall j, (s <= j)%nat -> m j = true) -> keep m s c = c.
Proof.
  revert s; induction c as [|x r IH]; intros s H; simpl; [reflexivity|].
  rewrite (H s) by lia. f_equal. apply IH. intros; apply H; lia.
Qed.

Lemma keep_del1 a : forall c s, (s <= a)%nat ->
  keep (fun j => negb (j =? a)%nat) s c = del (a - s) c.
Proof.
  induction c as [|x r IH]; intros s Hs; simpl; [destruct (a - s)%nat; reflexivity|].
  destruct (Nat.eqb_spec s a) as [->|Hne]; simpl.
  - rewrite Nat.sub_diag. apply keep_all. intros j Hj. apply negb_true_iff, Nat.eqb_neq. lia.
  - replace (a - s)%nat with (S (a - S s)) by lia. cbn [del]. f_equal. apply IH. lia.
Qed.

Lemma keep_del2 lo hi : (lo < hi)%nat -> forall c s, (s <= lo)%nat ->
  keep (fun j => negb (j =? lo)%nat && negb (j =? hi)%nat) s c = del (lo - s) (del (hi - s) c).
Proof.
  intros Hlt. induction c as [|x r IH]; intros s Hs; simpl; [destruct (hi - s)%nat, (lo - s)%nat; reflexivity|].
  destruct (Nat.eqb_spec s lo) as [->|Hne]; simpl.
  - rewrite Nat.sub_diag. replace (hi - lo)%nat with (S (hi - S lo)) by lia. simpl.
    rewrite <- (keep_del1 hi r (S lo)) by lia. apply keep_ext. intros j Hj.
    replace (j =? lo)%nat with false by (symmetry; apply Nat.eqb_neq; lia). reflexivity.
  - destruct (Nat.eqb_spec s hi) as [->|Hne2]; [lia|]. simpl.
    replace (hi - s)%nat with (S (hi - S s)) by lia. replace (lo - s)%nat with (S (lo - S s)) by lia.
    simpl. f_equal. apply IH. lia.
Qed.

Lemma keep_del2_any a1 a2 c : a1 <> a2 ->
  keep (fun j => negb (j =? a1)%nat && negb (j =? a2)%nat) 0 c = del2 a1 a2 c.
Proof.
  intros Hne. unfold del2. destruct (Nat.ltb_spec a1 a2) as [H|H].
  - rewrite (keep_del2 a1 a2 H c 0) by lia. rewrite !Nat.sub_0_r. reflexivity.
  - transitivity (keep (fun j => negb (j =? a2)%nat && negb (j =? a1)%nat) 0 c);
      [apply keep_ext; intros; apply andb_comm|].
    rewrite (keep_del2 a2 a1) by lia. rewrite !Nat.sub_0_r. reflexivity.
Qed.

(* selecting by a list of axis numbers filtered from range(n) = keeping by the mask *)
Lemma map_nth_filter_seq (m : nat -> bool) : forall (c : list Z) (s : nat),
  map (fun ax => nth (ax - s) c 0) (filter m (seq s (length c))) = keep m s c.
Proof.
  induction c as [|x r IH]; intros s; [reflexivity|]. cbn [length seq filter keep].
  assert (E : map (fun ax => nth (ax - s) (x :: r) 0) (filter m (seq (S s) (length r))) = keep m (S s) r).
  { rewrite <- IH. apply map_ext_in. intros ax Hax. apply filter_In in Hax. destruct Hax as [Hax _].
    apply in_seq in Hax. replace (ax - s)%nat with (S (ax - S s)) by lia. reflexivity. }
  destruct (m s); cbn [map]; rewrite E; [rewrite Nat.sub_diag|]; reflexivity.
Qed.

Lemma filter_map_comm {A B} (f : A -> B) (p : B -> bool) (l : list A) :
  filter p (map f l) = map f (filter (fun x => p (f x)) l).
Proof. induction l as [|a l IH]; simpl; [reflexivity|]. destruct (p (f a)); simpl; rewrite IH; reflexivity. Qed.

(* the "other axes" projection of the code = deleting the two axes *)
Lemma others_proj (a1 a2 : nat) (c : list Z) : a1 <> a2 ->
  map (py_nth c) (filter (fun ax => negb (ax =? Z.of_nat a1) && negb (ax =? Z.of_nat a2)) (zrange (Z.of_nat (length c))))
  = del2 a1 a2 c.
Proof.
  intros Hne. unfold zrange. rewrite Nat2Z.id, filter_map_comm, map_map.
  rewrite <- (keep_del2_any a1 a2 c Hne). rewrite <- (map_nth_filter_seq _ c 0).
  rewrite (filter_ext (fun x => negb (Z.of_nat x =? Z.of_nat a1) && negb (Z.of_nat x =? Z.of_nat a2))
                      (fun j => negb (j =? a1)%nat && negb (j =? a2)%nat)).
  - apply map_ext. intros ax. unfold py_nth. destruct (Z.ltb_spec (Z.of_nat ax) 0); [lia|].
    rewrite Nat2Z.id, Nat.sub_0_r. reflexivity.
  - intros j. f_equal; f_equal.
    + destruct (Z.eqb_spec (Z.of_nat j) (Z.of_nat a1)), (Nat.eqb_spec j a1); try reflexivity; lia.
    + destruct (Z.eqb_spec (Z.of_nat j) (Z.of_nat a2)), (Nat.eqb_spec j a2); try reflexivity; lia.
Qed.

Lemma nth_del_lt : forall k j (l : list Z), (j < k)%nat -> nth j (del k l) 0 = nth j l 0.
Proof.
  induction k as [|k IH]; intros j l H; [lia|]. destruct l as [|x l]; simpl; [destruct j; reflexivity|].
  destruct j; simpl; [reflexivity|]. apply IH. lia.
Qed.

Lemma nth_ins_lt : forall k j v (l : list Z), (j < k)%nat -> (k <= length l)%nat -> nth j (ins k v l) 0 = nth j l 0.
Proof.
  induction k as [|k IH]; intros j v l H Hl; [lia|]. destruct l as [|x l]; simpl in *; [lia|].
  destruct j; simpl; [reflexivity|]. apply IH; lia.
Qed.

Lemma embed2_del2 a1 a2 (c : list Z) : a1 <> a2 -> (a1 < length c)%nat -> (a2 < length c)%nat ->
  embed2 a1 a2 (nth a1 c 0) (nth a2 c 0) (del2 a1 a2 c) = c.
Proof.
  intros Hne H1 H2. unfold embed2, del2. destruct (Nat.ltb_spec a1 a2) as [H|H].
  - rewrite <- (nth_del_lt a2 a1 c H) at 1.
    rewrite ins_del by (rewrite del_length by lia; lia). apply ins_del. lia.
  - assert (H' : (a2 < a1)%nat) by lia. rewrite <- (nth_del_lt a1 a2 c H') at 1.
    rewrite ins_del by (rewrite del_length by lia; lia). apply ins_del. lia.
Qed.

Lemma del2_embed2 a1 a2 v1 v2 (rest : list Z) : a1 <> a2 ->
  (a1 < length rest + 2)%nat -> (a2 < length rest + 2)%nat ->
  del2 a1 a2 (embed2 a1 a2 v1 v2 rest) = rest
  /\ nth a1 (embed2 a1 a2 v1 v2 rest) 0 = v1 /\ nth a2 (embed2 a1 a2 v1 v2 rest) 0 = v2
  /\ length (embed2 a1 a2 v1 v2 rest) = (length rest + 2)%nat.
Proof.
  intros Hne H1 H2. unfold embed2, del2. destruct (Nat.ltb_spec a1 a2) as [H|H].
  - assert (L1 : length (ins a1 v1 rest) = S (length rest)) by (apply ins_length; lia).
    repeat split.
    + rewrite del_ins by lia. apply del_ins. lia.
    + rewrite nth_ins_lt by lia. apply nth_ins. lia.
    + apply nth_ins. lia.
    + rewrite ins_length by lia. lia.
  - assert (H' : (a2 < a1)%nat) by lia.
    assert (L1 : length (ins a2 v2 rest) = S (length rest)) by (apply ins_length; lia).
    repeat split.
    + rewrite del_ins by lia. apply del_ins. lia.
    + apply nth_ins. lia.
    + rewrite nth_ins_lt by lia. apply nth_ins. lia.
    + rewrite ins_length by lia. lia.
Qed.

Lemma in_range_del : forall k sh c, in_range sh c -> in_range (del k sh) (del k c).
Proof.
  induction k as [|k IH]; intros [|d sh] [|i c]; simpl; try tauto.
  intros [H1 H2]. split; [assumption|]. apply IH. assumption.
Qed.

Lemma in_range_snoc : forall sh c d i, in_range (sh ++ [d]) (c ++ [i]) <-> (in_range sh c /\ 0 <= i < d).
Proof.
  induction sh as [|a sh IH]; intros [|x c] d i; simpl.
  - tauto.
  - destruct c; simpl; tauto.
  - destruct sh; simpl; tauto.
  - rewrite IH. tauto.
Qed.

Lemma del2_length a1 a2 (l : list Z) : a1 <> a2 -> (a1 < length l)%nat -> (a2 < length l)%nat ->
  length (del2 a1 a2 l) = (length l - 2)%nat.
Proof.
  intros Hne H1 H2. unfold del2. destruct (Nat.ltb_spec a1 a2).
  - rewrite del_length; rewrite del_length; lia.
  - rewrite del_length; rewrite del_length; lia.
Qed.

(* ================================================================ Python indexing, diagonal index maps *)

Lemma py_nth_m2 (c : list Z) : (2 <= length c)%nat -> py_nth c (-2) = nth (length c - 2) c 0.
Proof. intros H. unfold py_nth. change (-2 <? 0) with true. cbv iota. f_equal. lia. Qed.
Lemma py_nth_m1 (c : list Z) : (1 <= length c)%nat -> py_nth c (-1) = nth (length c - 1) c 0.
Proof. intros H. unfold py_nth. change (-1 <? 0) with true. cbv iota. f_equal. lia. Qed.

Lemma py_nth_nat (l : list Z) (a : nat) : py_nth l (Z.of_nat a) = nth a l 0.
Proof. unfold py_nth. destruct (Z.ltb_spec (Z.of_nat a) 0); [lia|]. rewrite Nat2Z.id. reflexivity. Qed.

Lemma py_index_nat (l : list Z) (a : nat) : (a < length l)%nat -> py_index l (Z.of_nat a) = Ok (nth a l 0).
Proof.
  intros H. unfold py_index.
  destruct (Z.leb_spec (- Z.of_nat (length l)) (Z.of_nat a)); [|lia].
  destruct (Z.ltb_spec (Z.of_nat a) (Z.of_nat (length l))); [|lia]. cbn. rewrite py_nth_nat. reflexivity.
Qed.

(* what the code keeps of a selected coordinate tuple: the other axes, then the position *)
Definition proj_diag (a1 a2 pos : nat) (c : idx) : idx := del2 a1 a2 c ++ [nth pos c 0].

(* the source index NumPy reads for result index ix *)
Definition src_diag (a1 a2 : nat) (offset : Z) (ix : idx) : idx :=
  embed2 a1 a2 (last ix 0 + Z.max 0 (- offset)) (last ix 0 + Z.max 0 offset) (removelast ix).

Definition pos_of (a1 a2 : nat) (offset : Z) : nat := if 0 <=? offset then a1 else a2.

Lemma diag_key_fwd a1 a2 offset (c ix : idx) :
  a1 <> a2 -> (a1 < length c)%nat -> (a2 < length c)%nat ->
  nth a1 c 0 + offset = nth a2 c 0 ->
  proj_diag a1 a2 (pos_of a1 a2 offset) c = ix -> c = src_diag a1 a2 offset ix.
Proof.
  intros Hne H1 H2 Hm <-. unfold src_diag, proj_diag.
  rewrite last_last, removelast_last. unfold pos_of.
  destruct (Z.leb_spec 0 offset).
  - replace (nth a1 c 0 + Z.max 0 (- offset)) with (nth a1 c 0) by lia.
    replace (nth a1 c 0 + Z.max 0 offset) with (nth a2 c 0) by lia.
    symmetry. apply embed2_del2; assumption.
  - replace (nth a2 c 0 + Z.max 0 (- offset)) with (nth a1 c 0) by lia.
    replace (nth a2 c 0 + Z.max 0 offset) with (nth a2 c 0) by lia.
    symmetry. apply embed2_del2; assumption.
Qed.

Lemma length_removelast (l : list Z) : l <> [] -> length l = S (length (removelast l)).
Proof.
  intros H. rewrite (app_removelast_last 0 H) at 1. rewrite app_length. simpl. lia.
Qed.

Lemma diag_key_bwd a1 a2 offset (ix : idx) n :
  a1 <> a2 -> (a1 < n)%nat -> (a2 < n)%nat -> S (length ix) = n ->
  proj_diag a1 a2 (pos_of a1 a2 offset) (src_diag a1 a2 offset ix) = ix
  /\ nth a1 (src_diag a1 a2 offset ix) 0 + offset = nth a2 (src_diag a1 a2 offset ix) 0
  /\ length (src_diag a1 a2 offset ix) = n.
Proof.
  intros Hne H1 H2 Hl.
  assert (Hnil : ix <> []) by (intros ->; simpl in Hl; lia).
  pose proof (length_removelast ix Hnil) as Hrl.
  unfold src_diag, proj_diag.
  destruct (del2_embed2 a1 a2 (last ix 0 + Z.max 0 (- offset)) (last ix 0 + Z.max 0 offset) (removelast ix) Hne
              ltac:(lia) ltac:(lia)) as [Hd [Hn1 [Hn2 Hlen]]].
  rewrite Hd, Hn1, Hn2. split; [|split; [lia|lia]].
  unfold pos_of. destruct (Z.leb_spec 0 offset).
  - rewrite Hn1. replace (last ix 0 + Z.max 0 (- offset)) with (last ix 0) by lia.
    symmetry. apply app_removelast_last. exact Hnil.
  - rewrite Hn2. replace (last ix 0 + Z.max 0 offset) with (last ix 0) by lia.
    symmetry. apply app_removelast_last. exact Hnil.
Qed.


Section WithV.
  Variable V : Type.
  Variable veqb : V -> V -> bool.
  Hypothesis veqb_eq : forall a b, veqb a b = true <-> a = b.
  Variable vzero : V.
  Variable vadd : V -> V -> V.

  Notation coo := (coo V).
  Notation canonical := (@canonical V).
  Notation cwf := (cwf V).

  (* ---------------------------------------------------------------- lookup in a key-filtered list *)
  Lemma lookup_filter_key (q : idx -> bool) (es : list (idx * V)) ix :
    lookup (filter (fun e => q (fst e)) es) ix = if q ix then lookup es ix else None.
  Proof.
    induction es as [|[k v] r IH]; simpl; [destruct (q ix); reflexivity|].
    destruct (q k) eqn:Ek; simpl; rewrite IH; destruct (q ix) eqn:Ei; try reflexivity.
    - destruct (idx_eqb k ix) eqn:E; [|reflexivity]. apply idx_eqb_eq in E. congruence.
    - destruct (lookup r ix); [reflexivity|].
      destruct (idx_eqb k ix) eqn:E; [|reflexivity]. apply idx_eqb_eq in E. congruence.
  Qed.

  Lemma filter_keys_incl (p : idx * V -> bool) (x : coo) key :
    In key (map fst (filter p (entries x))) -> In key (c_coords x).
  Proof. intros H. apply (entries_keys V). eapply filter_fst_incl. exact H. Qed.

  (* ---------------------------------------------------------------- triu / tril, for an arbitrary mask predicate *)
  Lemma coo_tri_correct (keep : pyv -> pyv -> pyv -> res pyv) (guard : pyv -> res pyv) (fl : ctor_flags)
        (checks_zero : bool) (x : coo) (k : Z) :
    guard (VInt (ndim_of V x)) = Ok VNone ->
    fl_sorted fl 0 = true -> fl_has_duplicates fl 0 = false -> fl_prune fl 0 = false ->
    cwf x -> (2 <= length (c_shape x))%nat -> c_fill x = vzero ->
    exists c, coo_tri V veqb vzero vadd keep guard fl checks_zero x k = Ok c
      /\ canonical c /\ c_shape c = c_shape x /\ c_fill c = vzero
      /\ forall ix, in_range (c_shape c) ix ->
           den c ix = if pred3 keep (row_of ix) (col_of ix) k then den x ix else vzero.
  Proof.
    intros Hg Hs Hd Hp [[Hr [Hss Hl]] Hok] Hnd Hf.
    unfold coo_tri.
    assert (E1 : checks_zero && negb (veqb (c_fill x) vzero) = false).
    { apply andb_false_intro2. apply negb_false_iff. apply veqb_eq. exact Hf. }
    rewrite E1, Hg. cbn [bind]. rewrite Hs, Hd, Hp.
    set (q := fun c : idx => pred3 keep (py_nth c (-2)) (py_nth c (-1)) k).
    set (F := filter (fun e => q (fst e)) (entries x)).
    match goal with |- exists c, coo_ctor _ _ _ _ _ _ _ _ ?a ?b = _ /\ _ =>
      change a with (map fst F); change b with (map snd F) end.
    assert (Hfo : fill_of V vzero (fl_fill fl) (c_fill x) = vzero) by (rewrite Hf; destruct (fl_fill fl); reflexivity).
    rewrite Hfo.
    assert (Hkeys : forall key, In key (map fst F) -> In key (c_coords x)) by (intros key; apply filter_keys_incl).
    assert (Hrange : Forall (in_range (c_shape x)) (map fst F)).
    { apply Forall_forall. intros key Hk. rewrite Forall_forall in Hr. auto. }
    assert (HSS : StronglySorted lex_lt (map fst F)) by (apply SS_map_fst_filter; exact Hss).
    assert (Hnodup : NoDup (map fst F)) by (apply SS_lex_NoDup; exact HSS).
    rewrite (coo_ctor_plain V veqb vadd true vzero (c_shape x) (map fst F) (map snd F) Hrange).
    rewrite combine_fst_snd.
    eexists. split; [reflexivity|]. split; [|split; [|split]].
    - apply canonical_plain_ctor; auto.
    - reflexivity.
    - reflexivity.
    - intros ix Hix. cbn [plain_ctor c_shape] in Hix. rewrite den_plain_ctor by exact Hnodup.
      unfold F. rewrite lookup_filter_key. unfold q.
      pose proof (in_range_length _ _ Hix) as Hlen.
      rewrite py_nth_m2, py_nth_m1 by lia. fold (row_of ix) (col_of ix).
      destruct (pred3 keep (row_of ix) (col_of ix) k); [|reflexivity].
      unfold den. rewrite Hf. reflexivity.
  Qed.

  Lemma triu_src_correct (x : coo) (k : Z) :
    cwf x -> (2 <= length (c_shape x))%nat -> c_fill x = vzero ->
    exists c, coo_triu_src V veqb vzero vadd x k = Ok c
      /\ canonical c /\ c_shape c = c_shape x /\ c_fill c = c_fill x
      /\ forall ix, in_range (c_shape c) ix -> den c ix = da_f (np_triu vzero k (darr_of_coo x)) ix.
  Proof.
    intros Hwf Hnd Hf. unfold coo_triu_src.
    assert (Hg : site_triu_ndim_guard (VInt (ndim_of V x)) = Ok VNone).
    { unfold site_triu_ndim_guard, ndim_of. cbn. rewrite Z.geb_leb.
      destruct (Z.leb_spec 2 (Z.of_nat (length (c_shape x)))); [reflexivity|lia]. }
    destruct (coo_tri_correct site_triu_keep site_triu_ndim_guard triu_flags site_triu_checks_zero_fill x k
                Hg eq_refl eq_refl eq_refl Hwf Hnd Hf) as [c [Hc [Hcan [Hsh [Hfl Hden]]]]].
    exists c. split; [exact Hc|]. split; [exact Hcan|]. split; [exact Hsh|]. split; [congruence|].
    intros ix Hix. rewrite (Hden ix Hix). cbn [np_triu da_f darr_of_coo].
    unfold pred3, site_triu_keep. cbn.
    destruct (Z.leb_spec (row_of ix + k) (col_of ix)), (Z.leb_spec k (col_of ix - row_of ix)); try reflexivity; lia.
  Qed.

  Lemma tril_src_correct (x : coo) (k : Z) :
    cwf x -> (2 <= length (c_shape x))%nat -> c_fill x = vzero ->
    exists c, coo_tril_src V veqb vzero vadd x k = Ok c
      /\ canonical c /\ c_shape c = c_shape x /\ c_fill c = c_fill x
      /\ forall ix, in_range (c_shape c) ix -> den c ix = da_f (np_tril vzero k (darr_of_coo x)) ix.
  Proof.
    intros Hwf Hnd Hf. unfold coo_tril_src.
    assert (Hg : site_tril_ndim_guard (VInt (ndim_of V x)) = Ok VNone).
    { unfold site_tril_ndim_guard, ndim_of. cbn. rewrite Z.geb_leb.
      destruct (Z.leb_spec 2 (Z.of_nat (length (c_shape x)))); [reflexivity|lia]. }
    destruct (coo_tri_correct site_tril_keep site_tril_ndim_guard tril_flags site_tril_checks_zero_fill x k
                Hg eq_refl eq_refl eq_refl Hwf Hnd Hf) as [c [Hc [Hcan [Hsh [Hfl Hden]]]]].
    exists c. split; [exact Hc|]. split; [exact Hcan|]. split; [exact Hsh|]. split; [congruence|].
    intros ix Hix. rewrite (Hden ix Hix). cbn [np_tril da_f darr_of_coo].
    unfold pred3, site_tril_keep. cbn. rewrite Z.geb_leb.
    destruct (Z.leb_spec (col_of ix) (row_of ix + k)), (Z.leb_spec (col_of ix - row_of ix) k); try reflexivity; lia.
  Qed.

  (* a non-zero fill value is rejected, as documented *)
  Lemma triu_src_nonzero_fill (x : coo) (k : Z) :
    c_fill x <> vzero -> coo_triu_src V veqb vzero vadd x k = Raise ValueError
                         /\ coo_tril_src V veqb vzero vadd x k = Raise ValueError.
  Proof.
    intros Hne. unfold coo_triu_src, coo_tril_src, coo_tri.
    assert (E : veqb (c_fill x) vzero = false).
    { destruct (veqb (c_fill x) vzero) eqn:E; [apply veqb_eq in E; congruence|reflexivity]. }
    rewrite E. split; reflexivity.
  Qed.

  (* ================================================================ the constructor with has_duplicates=True, sorted=False *)

  Definition key_lt (key : idx -> Z) (a b : idx * V) : Prop := key (fst a) < key (fst b).

  Lemma sorted_ravel_strict sh (es : list (idx * V)) :
    StronglySorted (key_le V (ravel sh)) es -> NoDup (map fst es) ->
    Forall (in_range sh) (map fst es) -> StronglySorted (key_lt (ravel sh)) es.
  Proof.
    induction 1 as [|[k v] r Hs IH Hall]; simpl; intros Hnd Hr; [constructor|].
    inversion Hnd as [|? ? Hk Hnd']; subst. inversion Hr as [|? ? Hrk Hr']; subst.
    constructor; [apply IH; assumption|].
    apply Forall_forall. intros [k' v'] Hin. unfold key_lt. simpl.
    rewrite Forall_forall in Hall, Hr'. specialize (Hall _ Hin). unfold key_le in Hall. simpl in Hall.
    assert (Hin' : In k' (map fst r)) by (apply in_map_iff; exists (k', v'); auto).
    destruct (Z.eq_dec (ravel sh k) (ravel sh k')) as [E|E]; [|lia].
    apply ravel_inj in E; [|assumption|auto]. subst. tauto.
  Qed.

  Lemma sum_dups_id key (es : list (idx * V)) :
    StronglySorted (key_lt key) es -> sum_dups V vadd key es = es.
  Proof.
    induction 1 as [|e r Hs IH Hall]; simpl; [reflexivity|].
    rewrite IH. destruct r as [|y r']; [reflexivity|].
    inversion Hall as [|? ? Hy _]; subst. unfold key_lt in Hy.
    destruct (Z.eqb_spec (key (fst e)) (key (fst y))); [lia|reflexivity].
  Qed.

  Lemma coo_ctor_dedup fill sh cs ds :
    Forall (in_range sh) cs -> length cs = length ds -> NoDup cs ->
    coo_ctor V veqb vadd false true false fill sh cs ds = Ok (plain_ctor V false fill sh (combine cs ds)).
  Proof.
    intros Hr Hl Hnd. unfold coo_ctor, plain_ctor.
    assert (E : forallb (in_rangeb sh) cs = true).
    { apply forallb_forall. intros x Hx. apply in_rangeb_spec. rewrite Forall_forall in Hr. auto. }
    rewrite E. cbn [negb orb andb].
    rewrite sum_dups_id; [reflexivity|].
    pose proof (sort_by_perm V (ravel sh) (combine cs ds)) as Hp.
    assert (Hk : map fst (combine cs ds) = cs) by (apply map_fst_combine; exact Hl).
    assert (Hp' : Permutation cs (map fst (sort_by V (ravel sh) (combine cs ds)))).
    { rewrite <- Hk at 1. apply Permutation_map. exact Hp. }
    apply sorted_ravel_strict; [apply sort_by_sorted|eapply Permutation_NoDup; eauto|].
    apply Forall_forall. intros x Hx. rewrite Forall_forall in Hr. apply Hr.
    eapply Permutation_in; [apply Permutation_sym; exact Hp'|exact Hx].
  Qed.

  (* ================================================================ meaning of the generated diagonal fragments *)

  Lemma other_axis_spec ax a1 a2 :
    pred3 site_diagonal_other_axis ax a1 a2 = negb (ax =? a1) && negb (ax =? a2).
  Proof. unfold pred3, site_diagonal_other_axis. cbn. destruct (ax =? a1); cbn; reflexivity. Qed.

  Lemma diag_match_spec c1 c2 off : pred3 site_diagonal_match c1 c2 off = (c1 + off =? c2).
  Proof. reflexivity. Qed.

  Lemma diag_guard_spec d : site_diagonal_guard (VInt d) (VInt d) = Ok VNone.
  Proof. unfold site_diagonal_guard. cbn. rewrite Z.eqb_refl. reflexivity. Qed.

  Lemma diag_guard_rejects d1 d2 : d1 <> d2 -> site_diagonal_guard (VInt d1) (VInt d2) = Raise ValueError.
  Proof. intros H. unfold site_diagonal_guard. cbn. destruct (Z.eqb_spec d1 d2); [congruence|reflexivity]. Qed.

  Lemma diag_last_extent_spec N off :
    as_Z (site_diagonal_last_extent (VInt N) (VInt off)) = Ok (Z.max (N - Z.abs off) 0).
  Proof.
    unfold site_diagonal_last_extent. cbn. destruct (Z.ltb_spec (N - Z.abs off) 0); cbn; f_equal; lia.
  Qed.

  Lemma diag_pos_axis_spec a1 a2 off :
    as_Z (site_diagonal_pos_axis (VInt a1) (VInt a2) (VInt off)) = Ok (if 0 <=? off then a1 else a2).
  Proof.
    unfold site_diagonal_pos_axis. cbn. rewrite Z.geb_leb. destruct (0 <=? off); reflexivity.
  Qed.

  (* ================================================================ diagonal *)

  Lemma filter_key_facts (q : idx -> bool) (x : coo) key :
    In key (map fst (filter (fun e => q (fst e)) (entries x))) -> q key = true /\ In key (c_coords x).
  Proof.
    intros H. apply in_map_iff in H. destruct H as [[k v] [<- Hin]]. apply filter_In in Hin.
    destruct Hin as [Hin Hq]. simpl in *. split; [exact Hq|]. apply (in_combine_l _ _ _ _ Hin).
  Qed.

  Lemma combine_map_map {A B C} (f : A -> B) (g : A -> C) (l : list A) :
    combine (map f l) (map g l) = map (fun e => (f e, g e)) l.
  Proof. induction l; simpl; congruence. Qed.

  Theorem diagonal_src_correct (x : coo) (offset : Z) (a1 a2 : nat) :
    cwf x -> a1 <> a2 -> (a1 < length (c_shape x))%nat -> (a2 < length (c_shape x))%nat ->
    nth a1 (c_shape x) 0 = nth a2 (c_shape x) 0 ->
    exists c, coo_diagonal_core V veqb vzero vadd diagonal_flags x offset (Z.of_nat a1) (Z.of_nat a2) = Ok c
      /\ canonical c
      /\ c_shape c = da_shape (np_diagonal offset a1 a2 (darr_of_coo x))
      /\ c_fill c = c_fill x
      /\ forall ix, in_range (c_shape c) ix ->
           den c ix = da_f (np_diagonal offset a1 a2 (darr_of_coo x)) ix.
  Proof.
    intros [[Hr [Hss Hl]] Hok] Hne H1 H2 Hsq.
    set (sh := c_shape x) in *. set (N := nth a1 sh 0) in *.
    set (pos := pos_of a1 a2 offset).
    unfold coo_diagonal_core. fold sh.
    rewrite (py_index_nat sh a1 H1), (py_index_nat sh a2 H2). cbn [bind]. fold N. rewrite <- Hsq. fold N.
    rewrite diag_guard_spec. cbn [bind].
    rewrite (filter_ext _ _ (fun ax => other_axis_spec ax (Z.of_nat a1) (Z.of_nat a2))).
    set (others := filter (fun ax => negb (ax =? Z.of_nat a1) && negb (ax =? Z.of_nat a2)) (zrange (Z.of_nat (length sh)))).
    assert (Eshape : map (py_nth sh) (others ++ [Z.of_nat a1]) = del2 a1 a2 sh ++ [N]).
    { rewrite map_app. unfold others. rewrite (others_proj a1 a2 sh Hne). cbn [map]. rewrite py_nth_nat. reflexivity. }
    rewrite Eshape, last_last, removelast_last.
    rewrite diag_last_extent_spec. cbn [bind].
    rewrite diag_pos_axis_spec. cbn [bind].
    set (lst := Z.max (N - Z.abs offset) 0).
    assert (Epos : (if 0 <=? offset then Z.of_nat a1 else Z.of_nat a2) = Z.of_nat pos).
    { unfold pos, pos_of. destruct (0 <=? offset); reflexivity. }
    rewrite Epos.
    destruct (Z.ltb_spec lst 0) as [Hneg|_]; [unfold lst in Hneg; lia|].
    unfold diagonal_flags. cbn [fl_sorted fl_has_duplicates fl_prune fl_fill].
    unfold site_diagonal_sorted, site_diagonal_has_duplicates, site_diagonal_prune, site_diagonal_fill.
    cbn [fill_of].
    set (q := fun c : idx => nth a1 c 0 + offset =? nth a2 c 0).
    set (F := filter (fun e => q (fst e)) (entries x)).
    match goal with |- context [filter ?f (entries x)] =>
      assert (EF : filter f (entries x) = F)
        by (unfold F; apply filter_ext; intros e; rewrite diag_match_spec, !py_nth_nat; reflexivity);
      rewrite EF end.
    (* facts about the selected keys *)
    assert (Hkey : forall key, In key (map fst F) ->
                     in_range sh key /\ length key = length sh /\ nth a1 key 0 + offset = nth a2 key 0).
    { intros key Hk. apply filter_key_facts in Hk. destruct Hk as [Hq Hin].
      rewrite Forall_forall in Hr. specialize (Hr _ Hin). fold sh in Hr.
      split; [exact Hr|]. split; [apply in_range_length; exact Hr|]. unfold q in Hq. apply Z.eqb_eq in Hq. exact Hq. }
    assert (Ecoords : map (fun e : list Z * V => map (py_nth (fst e)) (others ++ [Z.of_nat pos])) F
                      = map (fun e => proj_diag a1 a2 pos (fst e)) F).
    { apply map_ext_in. intros e He.
      assert (Hk : In (fst e) (map fst F)) by (apply in_map; exact He).
      destruct (Hkey _ Hk) as [_ [Hlen _]].
      rewrite map_app. unfold others. rewrite <- Hlen. unfold idx in *. rewrite (others_proj a1 a2 (fst e) Hne).
      cbn [map]. rewrite py_nth_nat. reflexivity. }
    rewrite Ecoords.
    set (PE := map (fun e : list Z * V => (proj_diag a1 a2 pos (fst e), snd e)) F).
    assert (EkeysPE : map fst PE = map (proj_diag a1 a2 pos) (map fst F)).
    { unfold PE. rewrite !map_map. reflexivity. }
    assert (HndF : NoDup (map fst F)).
    { apply SS_lex_NoDup. unfold F, entries. apply (SS_map_fst_filter V). exact Hss. }
    assert (Hnodup : NoDup (map fst PE)).
    { rewrite EkeysPE. apply NoDup_map_inj; [|exact HndF].
      intros a b Ha Hb E.
      destruct (Hkey _ Ha) as [_ [La Ma]]. destruct (Hkey _ Hb) as [_ [Lb Mb]].
      rewrite (diag_key_fwd a1 a2 offset a (proj_diag a1 a2 pos a) Hne ltac:(lia) ltac:(lia) Ma eq_refl).
      rewrite (diag_key_fwd a1 a2 offset b (proj_diag a1 a2 pos a) Hne ltac:(lia) ltac:(lia) Mb (eq_sym E)).
      reflexivity. }
    set (dsh := del2 a1 a2 sh ++ [lst]).
    assert (Hrange : Forall (in_range dsh) (map fst PE)).
    { rewrite EkeysPE. apply Forall_forall. intros k Hk. apply in_map_iff in Hk. destruct Hk as [c [<- Hc]].
      destruct (Hkey _ Hc) as [Hrc [Lc Mc]].
      unfold proj_diag, dsh. apply in_range_snoc. split.
      - unfold del2. destruct (a1 <? a2)%nat; apply in_range_del, in_range_del; exact Hrc.
      - pose proof (in_range_nth _ _ a1 Hrc H1) as B1. pose proof (in_range_nth _ _ a2 Hrc H2) as B2.
        fold N in B1. rewrite <- Hsq in B2. fold N in B2.
        unfold pos, pos_of, lst. destruct (Z.leb_spec 0 offset); lia. }
    match goal with |- context [coo_ctor _ _ _ _ _ _ _ _ ?cs ?ds] =>
      assert (Hc1 : cs = map fst PE) by (unfold PE; rewrite map_map; reflexivity);
      assert (Hc2 : ds = map snd PE) by (unfold PE; rewrite map_map; reflexivity);
      rewrite Hc1, Hc2 end.
    rewrite (coo_ctor_dedup (c_fill x) dsh (map fst PE) (map snd PE) Hrange
               ltac:(rewrite !map_length; reflexivity) Hnodup).
    rewrite combine_fst_snd.
    eexists. split; [reflexivity|]. split; [|split; [|split]].
    - apply canonical_plain_ctor; [exact Hnodup|exact Hrange|discriminate].
    - cbn [plain_ctor c_shape np_diagonal da_shape darr_of_coo]. fold sh. unfold dsh. f_equal. f_equal.
      rewrite <- Hsq. fold N. unfold lst, diag_len. destruct (Z.leb_spec 0 offset); lia.
    - reflexivity.
    - intros ix Hix. cbn [plain_ctor c_shape] in Hix.
      rewrite den_plain_ctor by exact Hnodup.
      cbn [np_diagonal da_f darr_of_coo]. fold (src_diag a1 a2 offset ix).
      assert (Hlix : S (length ix) = length sh).
      { rewrite (in_range_length _ _ Hix). unfold dsh. rewrite app_length, del2_length by assumption. simpl. lia. }
      destruct (diag_key_bwd a1 a2 offset ix (length sh) Hne H1 H2 Hlix) as [Hb1 [Hb2 Hb3]].
      change PE with (map (fun e : idx * V => (proj_diag a1 a2 pos (fst e), snd e)) F).
      rewrite (lookup_map_key V (proj_diag a1 a2 pos) (src_diag a1 a2 offset) F ix).
      + unfold F. rewrite lookup_filter_key. unfold q. rewrite Hb2, Z.eqb_refl. reflexivity.
      + intros k Hk. destruct (Hkey _ Hk) as [_ [Lk Mk]]. split.
        * apply diag_key_fwd; auto; lia.
        * intros ->. exact Hb1.
  Qed.

  (* the wrapper: axis normalisation and the equal-axes guard, then the body *)
  Lemma diagonal_src_unfold (x : coo) (offset axis1 axis2 : Z) (a1 a2 : nat) :
    np_norm_axis axis1 (ndim_of V x) = Some a1 -> np_norm_axis axis2 (ndim_of V x) = Some a2 -> a1 <> a2 ->
    coo_diagonal_src V veqb vzero vadd x offset axis1 axis2
    = coo_diagonal_core V veqb vzero vadd diagonal_flags x offset (Z.of_nat a1) (Z.of_nat a2).
  Proof.
    intros Hn1 Hn2 Hne. unfold coo_diagonal_src, coo_diagonal.
    unfold site_diagonal_checks_zero_fill. cbn [andb].
    destruct (norm_axis_spec site_diagonal_axis_ndim axis1 _ _ a1 eq_refl Hn1) as [E1 _].
    destruct (norm_axis_spec site_diagonal_axis_ndim axis2 _ _ a2 eq_refl Hn2) as [E2 _].
    rewrite E1, E2. cbn [bind].
    unfold site_diagonal_same_axis_guard. cbn.
    destruct (Z.eqb_spec (Z.of_nat a1) (Z.of_nat a2)); [lia|]. reflexivity.
  Qed.

  (* equal axes: ValueError, like NumPy *)
  Lemma diagonal_src_same_axis (x : coo) (offset axis1 axis2 : Z) (a : nat) :
    np_norm_axis axis1 (ndim_of V x) = Some a -> np_norm_axis axis2 (ndim_of V x) = Some a ->
    coo_diagonal_src V veqb vzero vadd x offset axis1 axis2 = Raise ValueError.
  Proof.
    intros Hn1 Hn2. unfold coo_diagonal_src, coo_diagonal.
    unfold site_diagonal_checks_zero_fill. cbn [andb].
    destruct (norm_axis_spec site_diagonal_axis_ndim axis1 _ _ a eq_refl Hn1) as [E1 _].
    destruct (norm_axis_spec site_diagonal_axis_ndim axis2 _ _ a eq_refl Hn2) as [E2 _].
    rewrite E1, E2. cbn [bind].
    unfold site_diagonal_same_axis_guard. cbn. rewrite Z.eqb_refl. reflexivity.
  Qed.

  (* extents of the two axes differ: the documented ValueError *)
  Lemma diagonal_core_nonsquare (x : coo) (offset : Z) (a1 a2 : nat) :
    (a1 < length (c_shape x))%nat -> (a2 < length (c_shape x))%nat ->
    nth a1 (c_shape x) 0 <> nth a2 (c_shape x) 0 ->
    coo_diagonal_core V veqb vzero vadd diagonal_flags x offset (Z.of_nat a1) (Z.of_nat a2) = Raise ValueError.
  Proof.
    intros H1 H2 Hne. unfold coo_diagonal_core.
    rewrite (py_index_nat _ a1 H1), (py_index_nat _ a2 H2). cbn [bind].
    rewrite diag_guard_rejects by exact Hne. reflexivity.
  Qed.

  (* ================================================================ diagonalize *)

  Theorem diagonalize_src_correct (x : coo) (k : nat) :
    cwf x -> (k < length (c_shape x))%nat -> c_fill x = vzero ->
    exists c, coo_diagonalize_src V veqb vzero vadd x (Z.of_nat k) = Ok c
      /\ canonical c
      /\ c_shape c = da_shape (np_diagonalize vzero k (darr_of_coo x))
      /\ c_fill c = c_fill x
      /\ forall ix, in_range (c_shape c) ix ->
           den c ix = da_f (np_diagonalize vzero k (darr_of_coo x)) ix.
  Proof.
    intros [[Hr [Hss Hl]] Hok] Hk Hf.
    unfold coo_diagonalize_src, coo_diagonalize.
    assert (E1 : site_diagonalize_checks_zero_fill && negb (veqb (c_fill x) vzero) = false).
    { apply andb_false_intro2. apply negb_false_iff. apply veqb_eq. exact Hf. }
    rewrite E1. rewrite (py_index_nat _ k Hk). cbn [bind].
    unfold diagonalize_flags. cbn [fl_sorted fl_has_duplicates fl_prune fl_fill].
    unfold site_diagonalize_sorted, site_diagonalize_has_duplicates, site_diagonalize_prune, site_diagonalize_fill.
    cbn [fill_of].
    set (sh := c_shape x) in *. set (d := nth k sh 0).
    set (f := (fun c : idx => c ++ [nth k c 0]) : idx -> idx).
    assert (Ecs : map (fun c : list Z => c ++ [py_nth c (Z.of_nat k)]) (c_coords x) = map f (c_coords x)).
    { apply map_ext. intros c. rewrite py_nth_nat. reflexivity. }
    rewrite Ecs.
    assert (Hrange : Forall (in_range (sh ++ [d])) (map f (c_coords x))).
    { apply Forall_forall. intros key Hkey. apply in_map_iff in Hkey. destruct Hkey as [c [<- Hc]].
      rewrite Forall_forall in Hr. specialize (Hr _ Hc). fold sh in Hr.
      unfold f. apply in_range_snoc. split; [exact Hr|]. apply in_range_nth; assumption. }
    assert (Hnodup : NoDup (map f (c_coords x))).
    { apply NoDup_map_inj; [|apply SS_lex_NoDup; exact Hss].
      intros a b _ _ E. unfold f in E. apply app_inj_tail in E. tauto. }
    rewrite (coo_ctor_dedup vzero (sh ++ [d]) _ _ Hrange ltac:(rewrite map_length; symmetry; exact Hl) Hnodup).
    rewrite combine_map_l. fold (entries x).
    set (PE := map (fun e : idx * V => (f (fst e), snd e)) (entries x)).
    match goal with |- context [plain_ctor V false vzero _ ?es] => change es with PE end.
    assert (EkeysPE : map fst PE = map f (c_coords x)).
    { unfold PE. rewrite map_map. cbn [fst]. rewrite <- (map_map fst f). unfold entries.
      rewrite map_fst_combine by (symmetry; exact Hl). reflexivity. }
    assert (HndPE : NoDup (map fst PE)) by (rewrite EkeysPE; exact Hnodup).
    assert (HrPE : Forall (in_range (sh ++ [d])) (map fst PE)) by (rewrite EkeysPE; exact Hrange).
    eexists. split; [reflexivity|]. split; [|split; [|split]].
    - apply canonical_plain_ctor; [exact HndPE|exact HrPE|discriminate].
    - reflexivity.
    - cbn [plain_ctor c_fill]. symmetry. exact Hf.
    - intros ix Hix. cbn [plain_ctor c_shape] in Hix.
      rewrite den_plain_ctor by exact HndPE.
      cbn [np_diagonalize da_f darr_of_coo].
      assert (Hnil : ix <> []).
      { intros ->. apply in_range_length in Hix. rewrite app_length in Hix. simpl in Hix. lia. }
      destruct (Z.eqb_spec (nth k (removelast ix) 0) (last ix 0)) as [Heq|Hneq].
      + unfold PE. rewrite (lookup_map_key V f (@removelast Z) (entries x) ix).
        * unfold den. rewrite Hf. reflexivity.
        * intros c _. unfold f. split.
          -- intros <-. rewrite removelast_last. reflexivity.
          -- intros ->. rewrite Heq. symmetry. apply app_removelast_last. exact Hnil.
      + rewrite (lookup_none_keys V PE ix); [reflexivity|].
        intros key Hkey ->. assert (Hkey' : In ix (map f (c_coords x))) by (rewrite <- EkeysPE; exact Hkey).
        apply in_map_iff in Hkey'. destruct Hkey' as [c [E _]].
        unfold f in E. apply Hneq. rewrite <- E. rewrite removelast_last, last_last. reflexivity.
  Qed.

  (* a non-zero fill value is rejected (check_zero_fill_value is called) *)
  Lemma diagonalize_src_nonzero_fill (x : coo) (axis : Z) :
    c_fill x <> vzero -> coo_diagonalize_src V veqb vzero vadd x axis = Raise ValueError.
  Proof.
    intros Hne. unfold coo_diagonalize_src, coo_diagonalize.
    assert (E : veqb (c_fill x) vzero = false).
    { destruct (veqb (c_fill x) vzero) eqn:E; [apply veqb_eq in E; congruence|reflexivity]. }
    rewrite E. reflexivity.
  Qed.
End WithV.

(* ================================================================ take (result of the getitem it delegates to) *)

Lemma lex_lt_del : forall k (a b : list Z),
  length a = length b -> nth k a 0 = nth k b 0 -> lex_lt a b -> lex_lt (del k a) (del k b).
Proof.
  induction k as [|k IH]; intros [|x a] [|y b] Hl Hn H; simpl in *; try tauto; try discriminate.
  - destruct H as [H|[_ H]]; [lia|exact H].
  - destruct H as [H|[-> H]]; [left; exact H|right; split; [reflexivity|apply IH; auto]].
Qed.

Lemma upd_same k j (c : list Z) : nth k c 0 = j -> upd k (fun _ => j) c = c.
Proof.
  revert k; induction c as [|x c IH]; intros [|k] H; simpl in *; try reflexivity.
  - subst. reflexivity.
  - f_equal. apply IH. exact H.
Qed.

Lemma upd_const_eq k (f : Z -> Z) (ix : list Z) : upd k f ix = upd k (fun _ => f (nth k ix 0)) ix.
Proof. revert k; induction ix as [|x ix IH]; intros [|k]; simpl; try reflexivity. f_equal. apply IH. Qed.

Lemma in_range_upd_const : forall k sh c v T,
  in_range sh c -> 0 <= v < T -> in_range (upd k (fun _ => T) sh) (upd k (fun _ => v) c).
Proof.
  induction k as [|k IH]; intros [|d sh] [|i c] v T Hr Hv; simpl in *; try tauto.
  split; [tauto|]. apply IH; tauto.
Qed.

Section Take.
  Variable V : Type.
  Notation coo := (coo V).

  Lemma wrap_index_ok n i : - n <= i < n -> wrap_index n i = Ok (wrap n i).
  Proof.
    intros H. unfold wrap_index. destruct (Z.leb_spec (- n) i); [|lia]. destruct (Z.ltb_spec i n); [|lia]. reflexivity.
  Qed.

  Lemma wrap_bounds n i : - n <= i < n -> 0 <= wrap n i < n.
  Proof. intros H. unfold wrap. destruct (Z.ltb_spec i 0); lia. Qed.

  Lemma wrap_all_ok n (l : list Z) : Forall (fun i => - n <= i < n) l -> wrap_all n l = Ok (map (wrap n) l).
  Proof.
    induction 1 as [|i l Hi _ IH]; [reflexivity|]. simpl. rewrite (wrap_index_ok n i Hi). cbn [bind].
    rewrite IH. reflexivity.
  Qed.

  (* ---------------------------------------------------------------- one integer index *)
  Theorem take_int_correct (x : coo) (i axis : Z) (k : nat) :
    cwf V x -> np_norm_axis axis (ndim_of V x) = Some k ->
    - nth k (c_shape x) 0 <= i < nth k (c_shape x) 0 ->
    exists c, coo_take_int V x i axis = Ok c
      /\ canonical V c /\ c_shape c = da_shape (np_take_int k i (darr_of_coo x)) /\ c_fill c = c_fill x
      /\ forall ix, in_range (c_shape c) ix -> den c ix = da_f (np_take_int k i (darr_of_coo x)) ix.
  Proof.
    intros [[Hr [Hss Hl]] Hok] Hax Hi.
    destruct (norm_axis_spec (fun n => Ok n) axis _ _ k eq_refl Hax) as [Hnorm Hklt].
    assert (Hk : (k < length (c_shape x))%nat) by (unfold ndim_of in Hklt; lia).
    unfold coo_take_int. rewrite Hnorm. cbn [bind]. rewrite Nat2Z.id.
    rewrite (wrap_index_ok _ _ Hi). cbn [bind].
    set (sh := c_shape x) in *. set (j := wrap (nth k sh 0) i).
    set (q := fun c : idx => nth k c 0 =? j).
    set (F := filter (fun e : idx * V => q (fst e)) (entries x)).
    assert (Hkey : forall key, In key (map fst F) -> in_range sh key /\ nth k key 0 = j).
    { intros key Hkey. apply filter_key_facts in Hkey. destruct Hkey as [Hq Hin].
      rewrite Forall_forall in Hr. split; [apply Hr; exact Hin|]. unfold q in Hq. apply Z.eqb_eq in Hq. exact Hq. }
    assert (HssF : StronglySorted lex_lt (map fst F)) by (unfold F, entries; apply (SS_map_fst_filter V); exact Hss).
    set (PE := map (fun e : idx * V => (del k (fst e), snd e)) F).
    assert (EkeysPE : map fst PE = map (del k) (map fst F)) by (unfold PE; rewrite !map_map; reflexivity).
    match goal with |- context [mkCOO _ ?cs ?ds _] =>
      replace cs with (map fst PE) by (unfold PE; rewrite map_map; reflexivity);
      replace ds with (map snd PE) by (unfold PE; rewrite map_map; reflexivity) end.
    assert (HssPE : StronglySorted lex_lt (map fst PE)).
    { rewrite EkeysPE. apply (SS_map_in lex_lt lex_lt); [|exact HssF].
      intros a b Ha Hb Hab. destruct (Hkey _ Ha) as [Ra Na], (Hkey _ Hb) as [Rb Nb].
      apply lex_lt_del; [rewrite (in_range_length _ _ Ra), (in_range_length _ _ Rb); reflexivity|congruence|exact Hab]. }
    eexists. split; [reflexivity|]. split; [|split; [|split]].
    - unfold canonical. cbn [c_shape c_coords c_data].
      split; [|split; [exact HssPE|rewrite !map_length; reflexivity]].
      rewrite EkeysPE. apply Forall_forall. intros key Hkey'. apply in_map_iff in Hkey'.
      destruct Hkey' as [c [<- Hc]]. apply in_range_del. apply Hkey. exact Hc.
    - reflexivity.
    - reflexivity.
    - intros ix Hix. cbn [c_shape] in Hix. unfold den, entries. cbn [c_coords c_data c_fill].
      rewrite combine_fst_snd.
      cbn [np_take_int da_f darr_of_coo]. fold sh. fold j.
      assert (Hlix : S (length ix) = length sh).
      { rewrite (in_range_length _ _ Hix). rewrite del_length by exact Hk. lia. }
      assert (HH : lookup PE ix = lookup F (ins k j ix)).
      { apply (lookup_map_key V (del k) (ins k j) F ix).
        intros c Hc. destruct (Hkey _ Hc) as [Rc Nc]. pose proof (in_range_length _ _ Rc) as Lc. split.
        - intros <-. rewrite <- Nc. symmetry. apply ins_del. lia.
        - intros ->. apply del_ins. lia. }
      rewrite HH.
      unfold F. rewrite lookup_filter_key. unfold q. rewrite nth_ins by lia. rewrite Z.eqb_refl. reflexivity.
  Qed.

  (* ---------------------------------------------------------------- a 1-d list of indices *)
  Definition upd_key (k : nat) (p : Z) (e : idx * V) : idx * V := (upd k (fun _ => p) (fst e), snd e).

  Lemma gather_keys k : forall js p (es : list (idx * V)) key,
    In key (map fst (take_gather V k p js es)) ->
    exists c m, In c (map fst es) /\ (m < length js)%nat /\ nth k c 0 = nth m js 0
                /\ key = upd k (fun _ => p + Z.of_nat m) c.
  Proof.
    induction js as [|j r IH]; intros p es key Hin; simpl in Hin; [tauto|].
    rewrite map_app, in_app_iff in Hin. destruct Hin as [Hin|Hin].
    - rewrite map_map in Hin. apply in_map_iff in Hin. destruct Hin as [e [<- He]].
      apply filter_In in He. destruct He as [He Hq]. apply Z.eqb_eq in Hq.
      exists (fst e), 0%nat. split; [apply in_map; exact He|]. split; [simpl; lia|]. split; [exact Hq|].
      cbn [fst]. apply upd_ext. intros; simpl; lia.
    - destruct (IH _ _ _ Hin) as [c [m [Hc [Hm [Hn ->]]]]].
      exists c, (S m). split; [exact Hc|]. split; [simpl; lia|]. split; [exact Hn|].
      apply upd_ext. intros; lia.
  Qed.

  Lemma lookup_filter_nth k j (es : list (idx * V)) y :
    lookup (filter (fun e : idx * V => nth k (fst e) 0 =? j) es) y = if nth k y 0 =? j then lookup es y else None.
  Proof. exact (lookup_filter_key V (fun c => nth k c 0 =? j) es y). Qed.

  Lemma lookup_upd_filter k p j (es : list (idx * V)) ix :
    nth k ix 0 = p ->
    lookup (map (fun e : idx * V => (upd k (fun _ => p) (fst e), snd e)) (filter (fun e : idx * V => nth k (fst e) 0 =? j) es)) ix
    = lookup (filter (fun e : idx * V => nth k (fst e) 0 =? j) es) (upd k (fun _ => j) ix).
  Proof.
    intros Ep. apply (lookup_map_key V (upd k (fun _ => p)) (upd k (fun _ => j))).
    intros c Hc. apply in_map_iff in Hc. destruct Hc as [e [<- He]]. apply filter_In in He.
    destruct He as [_ Hq]. apply Z.eqb_eq in Hq. split.
    - intros <-. rewrite upd_upd. symmetry. apply upd_same. exact Hq.
    - intros ->. rewrite upd_upd. apply upd_same. exact Ep.
  Qed.

  Lemma lookup_gather k n (es : list (idx * V)) : forall js p ix,
    (forall c, In c (map fst es) -> length c = n) -> length ix = n -> (k < n)%nat ->
    p <= nth k ix 0 < p + Z.of_nat (length js) ->
    lookup (take_gather V k p js es) ix
    = lookup es (upd k (fun _ => nth (Z.to_nat (nth k ix 0 - p)) js 0) ix).
  Proof.
    induction js as [|j r IH]; intros p ix Hlen Hlix Hk Hp; [simpl in Hp; lia|].
    cbn [take_gather]. rewrite lookup_app.
    destruct (Z.eq_dec (nth k ix 0) p) as [Ep|Ep].
    - rewrite (lookup_none_keys V (take_gather V k (p + 1) r es) ix).
      + replace (nth k ix 0 - p) with 0 by lia. cbn [Z.to_nat nth].
        cbv iota. etransitivity; [apply (lookup_upd_filter k p j es ix Ep)|].
        rewrite lookup_filter_nth. rewrite nth_upd by lia. rewrite Z.eqb_refl. reflexivity.
      + intros key Hkey ->. apply gather_keys in Hkey. destruct Hkey as [c [m [Hc [Hm [_ E]]]]].
        assert (nth k ix 0 = p + 1 + Z.of_nat m).
        { rewrite E. apply nth_upd. rewrite (Hlen _ Hc). exact Hk. }
        lia.
    - rewrite (lookup_none_keys V (map _ _) ix).
      + rewrite IH by (auto; cbn [length] in Hp; lia).
        replace (Z.to_nat (nth k ix 0 - p)) with (S (Z.to_nat (nth k ix 0 - (p + 1)))) by lia.
        destruct (lookup es _); reflexivity.
      + intros key Hkey ->. rewrite map_map in Hkey. apply in_map_iff in Hkey. destruct Hkey as [e [E He]].
        apply filter_In in He. destruct He as [He _]. simpl in E.
        assert (nth k ix 0 = p).
        { rewrite <- E. apply nth_upd. rewrite (Hlen (fst e)) by (apply in_map; exact He). exact Hk. }
        contradiction.
  Qed.

  Lemma gather_nodup k n (es : list (idx * V)) : forall js p,
    (forall c, In c (map fst es) -> length c = n) -> (k < n)%nat -> NoDup (map fst es) ->
    NoDup (map fst (take_gather V k p js es)).
  Proof.
    induction js as [|j r IH]; intros p Hlen Hk Hnd; cbn [take_gather]; [constructor|].
    rewrite map_app. apply NoDup_app_intro.
    - rewrite map_map. cbn [fst].
      rewrite <- (map_map fst (upd k (fun _ => p))).
      apply NoDup_map_inj.
      + intros a b Ha Hb E.
        apply in_map_iff in Ha. destruct Ha as [ea [<- Ha]]. apply filter_In in Ha. destruct Ha as [_ Qa].
        apply in_map_iff in Hb. destruct Hb as [eb [<- Hb]]. apply filter_In in Hb. destruct Hb as [_ Qb].
        apply Z.eqb_eq in Qa, Qb.
        rewrite <- (upd_same k j (fst ea) Qa), <- (upd_same k j (fst eb) Qb).
        rewrite <- (upd_upd k (fun _ => p) (fun _ => j) (fst ea)), <- (upd_upd k (fun _ => p) (fun _ => j) (fst eb)).
        rewrite E. reflexivity.
      + clear -Hnd. induction es as [|[c v] es IHes]; simpl in *; [constructor|].
        inversion Hnd as [|? ? Hc Hnd']; subst.
        destruct (nth k c 0 =? j); simpl; [constructor|]; auto.
        intros Hin. apply Hc. apply in_map_iff in Hin. destruct Hin as [e [<- He]]. apply filter_In in He.
        apply in_map. tauto.
    - apply IH; assumption.
    - intros key H1 H2. rewrite map_map in H1. apply in_map_iff in H1. destruct H1 as [e [<- He]].
      apply filter_In in He. destruct He as [He _]. cbn [fst] in H2.
      apply gather_keys in H2. destruct H2 as [c [m [Hc [_ [_ E]]]]].
      assert (L1 : (k < length (fst e))%nat) by (rewrite (Hlen (fst e)) by (apply in_map; exact He); exact Hk).
      assert (L2 : (k < length c)%nat) by (rewrite (Hlen c Hc); exact Hk).
      apply (f_equal (fun l => nth k l 0)) in E. rewrite !nth_upd in E by assumption. lia.
  Qed.

  Theorem take_list_correct (x : coo) (indices : list Z) (axis : Z) (k : nat) :
    cwf V x -> np_norm_axis axis (ndim_of V x) = Some k ->
    Forall (fun i => - nth k (c_shape x) 0 <= i < nth k (c_shape x) 0) indices ->
    exists c, coo_take_list V x indices axis = Ok c
      /\ canonical V c /\ c_shape c = da_shape (np_take_list k indices (darr_of_coo x)) /\ c_fill c = c_fill x
      /\ forall ix, in_range (c_shape c) ix -> den c ix = da_f (np_take_list k indices (darr_of_coo x)) ix.
  Proof.
    intros [[Hr [Hss Hl]] Hok] Hax Hi.
    destruct (norm_axis_spec (fun n => Ok n) axis _ _ k eq_refl Hax) as [Hnorm Hklt].
    assert (Hk : (k < length (c_shape x))%nat) by (unfold ndim_of in Hklt; lia).
    unfold coo_take_list. rewrite Hnorm. cbn [bind]. rewrite Nat2Z.id.
    rewrite (wrap_all_ok _ _ Hi). cbn [bind].
    set (sh := c_shape x) in *. set (N := nth k sh 0). set (js := map (wrap N) indices).
    set (L := Z.of_nat (length indices)).
    set (sh' := upd k (fun _ => L) sh).
    set (G := take_gather V k 0 js (entries x)).
    change (exists c, Ok (plain_ctor V false (c_fill x) sh' G) = Ok c /\ canonical V c
                      /\ c_shape c = da_shape (np_take_list k indices (darr_of_coo x)) /\ c_fill c = c_fill x
                      /\ forall ix, in_range (c_shape c) ix -> den c ix = da_f (np_take_list k indices (darr_of_coo x)) ix).
    assert (Hkeys : map fst (entries x) = c_coords x) by (unfold entries; apply map_fst_combine; symmetry; exact Hl).
    assert (Hlen : forall c, In c (map fst (entries x)) -> length c = length sh).
    { intros c Hc. rewrite Hkeys in Hc. rewrite Forall_forall in Hr. apply in_range_length. auto. }
    assert (Hnodup : NoDup (map fst G)).
    { apply (gather_nodup k (length sh)); [exact Hlen|exact Hk|]. rewrite Hkeys. apply SS_lex_NoDup. exact Hss. }
    assert (Hljs : length js = length indices) by (unfold js; apply map_length).
    assert (Hrange : Forall (in_range sh') (map fst G)).
    { apply Forall_forall. intros key Hkey. apply gather_keys in Hkey.
      destruct Hkey as [c [m [Hc [Hm [_ ->]]]]]. rewrite Hkeys in Hc. rewrite Forall_forall in Hr.
      apply in_range_upd_const; [auto|]. unfold L. lia. }
    eexists. split; [reflexivity|]. split; [|split; [|split]].
    - apply canonical_plain_ctor; [exact Hnodup|exact Hrange|discriminate].
    - reflexivity.
    - reflexivity.
    - intros ix Hix. cbn [plain_ctor c_shape] in Hix. rewrite den_plain_ctor by exact Hnodup.
      cbn [np_take_list da_f]. change (nth k (da_shape (darr_of_coo x)) 0) with N.
      assert (Hlix : length ix = length sh) by (rewrite (in_range_length _ _ Hix); unfold sh'; apply upd_length).
      assert (Hb : 0 <= nth k ix 0 < L).
      { pose proof (in_range_nth _ _ k Hix) as H. unfold sh' in H. rewrite upd_length, nth_upd in H by exact Hk. apply H. exact Hk. }
      unfold G. rewrite (lookup_gather k (length sh) (entries x) js 0 ix Hlen Hlix Hk ltac:(rewrite Hljs; unfold L in Hb; lia)).
      rewrite Z.sub_0_r. unfold den.
      rewrite (upd_const_eq k (fun j => wrap N (nth (Z.to_nat j) indices 0)) ix).
      unfold js. change 0 with (wrap N 0) at 2. rewrite map_nth. reflexivity.
  Qed.
End Take.

(* ================================================================ the property-level statements *)

Section Statements.
  Variable V : Type.
  Variable veqb : V -> V -> bool.
  Hypothesis veqb_eq : forall a b, veqb a b = true <-> a = b.
  Variable vzero : V.
  Variable vadd : V -> V -> V.

  Definition extract_result (c x : coo V) (spec : darr V) : Prop :=
    canonical V c /\ c_shape c = da_shape spec /\ c_fill c = c_fill x /\
    forall ix, in_range (c_shape c) ix -> den c ix = da_f spec ix.

  Lemma triu_tril_den_proof (x : coo V) (k : Z) :
    cwf V x -> (2 <= length (c_shape x))%nat -> c_fill x = vzero ->
    (exists c, coo_triu_src V veqb vzero vadd x k = Ok c /\ extract_result c x (np_triu vzero k (darr_of_coo x)))
    /\ (exists c, coo_tril_src V veqb vzero vadd x k = Ok c /\ extract_result c x (np_tril vzero k (darr_of_coo x))).
  Proof.
    intros Hwf Hnd Hf. split.
    - destruct (triu_src_correct V veqb veqb_eq vzero vadd x k Hwf Hnd Hf) as [c [H1 [H2 [H3 [H4 H5]]]]].
      exists c. split; [exact H1|]. split; [exact H2|]. split; [exact H3|]. split; [exact H4|exact H5].
    - destruct (tril_src_correct V veqb veqb_eq vzero vadd x k Hwf Hnd Hf) as [c [H1 [H2 [H3 [H4 H5]]]]].
      exists c. split; [exact H1|]. split; [exact H2|]. split; [exact H3|]. split; [exact H4|exact H5].
  Qed.

  Lemma np_norm_axis_lt axis n k : np_norm_axis axis n = Some k -> Z.of_nat k < n.
  Proof.
    unfold np_norm_axis. destruct (Z.leb_spec (- n) axis); [|discriminate].
    destruct (Z.ltb_spec axis n); [|discriminate]. cbn. intros E. inversion E. destruct (Z.ltb_spec axis 0); lia.
  Qed.

  (* diagonal: for equal extents of the two axes the result is np.diagonal's for EVERY offset, every fill
     value and every spelling (negative included) of two different axes *)
  Lemma diagonal_den_partial_proof (x : coo V) (offset axis1 axis2 : Z) (a1 a2 : nat) :
    cwf V x ->
    np_norm_axis axis1 (ndim_of V x) = Some a1 -> np_norm_axis axis2 (ndim_of V x) = Some a2 -> a1 <> a2 ->
    diagonal_nonsquare (c_shape x) a1 a2 = true ->
    exists c, coo_diagonal_src V veqb vzero vadd x offset axis1 axis2 = Ok c
      /\ extract_result c x (np_diagonal offset a1 a2 (darr_of_coo x)).
  Proof.
    intros Hwf Hn1 Hn2 Hne Hsq.
    rewrite (diagonal_src_unfold V veqb vzero vadd x offset axis1 axis2 a1 a2 Hn1 Hn2 Hne).
    pose proof (np_norm_axis_lt _ _ _ Hn1) as L1. pose proof (np_norm_axis_lt _ _ _ Hn2) as L2. unfold ndim_of in L1, L2.
    unfold diagonal_nonsquare in Hsq. apply Z.eqb_eq in Hsq.
    destruct (diagonal_src_correct V veqb vzero vadd x offset a1 a2 Hwf Hne ltac:(lia) ltac:(lia) Hsq)
      as [c [H1 [H2 [H3 [H4 H5]]]]].
    exists c. split; [exact H1|]. split; [exact H2|]. split; [exact H3|]. split; [exact H4|exact H5].
  Qed.

  Lemma diagonal_nonsquare_rejected_proof (x : coo V) (offset axis1 axis2 : Z) (a1 a2 : nat) :
    np_norm_axis axis1 (ndim_of V x) = Some a1 -> np_norm_axis axis2 (ndim_of V x) = Some a2 -> a1 <> a2 ->
    diagonal_nonsquare (c_shape x) a1 a2 = false ->
    coo_diagonal_src V veqb vzero vadd x offset axis1 axis2 = Raise ValueError.
  Proof.
    intros Hn1 Hn2 Hne Hsq.
    rewrite (diagonal_src_unfold V veqb vzero vadd x offset axis1 axis2 a1 a2 Hn1 Hn2 Hne).
    pose proof (np_norm_axis_lt _ _ _ Hn1) as L1. pose proof (np_norm_axis_lt _ _ _ Hn2) as L2. unfold ndim_of in L1, L2.
    unfold diagonal_nonsquare in Hsq. apply Z.eqb_neq in Hsq.
    apply diagonal_core_nonsquare; [lia|lia|exact Hsq].
  Qed.

  Lemma diagonalize_den_proof (x : coo V) (axis : Z) (k : nat) :
    cwf V x -> np_norm_axis axis (ndim_of V x) = Some k -> 0 <= axis -> c_fill x = vzero ->
    exists c, coo_diagonalize_src V veqb vzero vadd x axis = Ok c
      /\ extract_result c x (np_diagonalize vzero k (darr_of_coo x)).
  Proof.
    intros Hwf Hn Hp Hf. unfold np_norm_axis, ndim_of in Hn.
    destruct ((- Z.of_nat (length (c_shape x)) <=? axis) && (axis <? Z.of_nat (length (c_shape x)))) eqn:E1; [|discriminate].
    apply andb_true_iff in E1. destruct E1 as [_ E1]. apply Z.ltb_lt in E1.
    destruct (Z.ltb_spec axis 0); [lia|]. inversion Hn; subst k. clear Hn.
    assert (Ea : axis = Z.of_nat (Z.to_nat axis)) by lia. rewrite Ea, Nat2Z.id.
    destruct (diagonalize_src_correct V veqb veqb_eq vzero vadd x (Z.to_nat axis) Hwf ltac:(lia) Hf)
      as [c [H1 [H2 [H3 [H4 H5]]]]].
    exists c. split; [exact H1|]. split; [exact H2|]. split; [exact H3|]. split; [exact H4|exact H5].
  Qed.
End Statements.

(* ---------------------------------------------------------------- the unrestricted diagonal statement is false of the code *)

(* witness: extents 2 and 3: the code raises ValueError where np.diagonal returns [5] *)
Theorem diagonal_den_refuted_proof :
  exists (x : coo Z) (offset axis1 axis2 : Z) (a1 a2 : nat),
    cwf Z x /\ np_norm_axis axis1 (ndim_of Z x) = Some a1 /\ np_norm_axis axis2 (ndim_of Z x) = Some a2 /\ a1 <> a2
    /\ diagonal_nonsquare (c_shape x) a1 a2 = false
    /\ ~ (exists c, coo_diagonal_src Z Z.eqb 0 Z.add x offset axis1 axis2 = Ok c
                    /\ c_shape c = da_shape (np_diagonal offset a1 a2 (darr_of_coo x))).
Proof.
  exists (mkCOO [2; 3] [[0; 0]] [5] 0), 0, 0, (-1), 0%nat, 1%nat.
  split; [apply cwf_by_computation; reflexivity|]. repeat (split; [reflexivity || discriminate|]).
  intros [c [Hc _]]. vm_compute in Hc. discriminate.
Qed.

(* ================================================================ non-vacuity (V = Z) *)

Example triu_tril_nonvacuous :
  let x := mkCOO [2; 3] [[0; 0]; [0; 2]; [1; 0]; [1; 1]] [1; 2; 3; 4] 0 in
  cwf Z x /\ (2 <= length (c_shape x))%nat /\ c_fill x = 0
  /\ coo_triu_src Z Z.eqb 0 Z.add x 1 = Ok (mkCOO [2; 3] [[0; 2]] [2] 0)
  /\ coo_tril_src Z Z.eqb 0 Z.add x (-1) = Ok (mkCOO [2; 3] [[1; 0]] [3] 0).
Proof.
  cbv zeta. split; [apply cwf_by_computation; reflexivity|]. split; [simpl; lia|]. split; [reflexivity|].
  split; vm_compute; reflexivity.
Qed.

(* a NEGATIVE offset, axes given in decreasing order (the first one spelled -1), non-zero fill *)
Example diagonal_nonvacuous :
  let x := mkCOO [3; 2; 3] [[0; 0; 1]; [1; 1; 2]; [2; 0; 0]] [4; 5; 6] 9 in
  cwf Z x /\ np_norm_axis (-1) (ndim_of Z x) = Some 2%nat /\ np_norm_axis 0 (ndim_of Z x) = Some 0%nat
  /\ diagonal_nonsquare (c_shape x) 2 0 = true
  /\ coo_diagonal_src Z Z.eqb 0 Z.add x (-1) (-1) 0 = Ok (mkCOO [2; 2] [[0; 0]; [1; 1]] [4; 5] 9).
Proof.
  cbv zeta. split; [apply cwf_by_computation; reflexivity|]. repeat (split; [reflexivity|]). vm_compute. reflexivity.
Qed.

Example diagonalize_nonvacuous :
  let x := mkCOO [2; 2] [[0; 1]; [1; 0]] [4; 5] 0 in
  cwf Z x /\ np_norm_axis 1 (ndim_of Z x) = Some 1%nat /\ c_fill x = 0
  /\ coo_diagonalize_src Z Z.eqb 0 Z.add x 1 = Ok (mkCOO [2; 2; 2] [[0; 1; 1]; [1; 0; 0]] [4; 5] 0).
Proof.
  cbv zeta. split; [apply cwf_by_computation; reflexivity|]. repeat (split; [reflexivity|]). vm_compute. reflexivity.
Qed.

Example take_nonvacuous :
  let x := mkCOO [2; 3] [[0; 0]; [0; 2]; [1; 1]] [1; 2; 3] 7 in
  cwf Z x /\ np_norm_axis (-1) (ndim_of Z x) = Some 1%nat
  /\ Forall (fun i => - nth 1 (c_shape x) 0 <= i < nth 1 (c_shape x) 0) [2; -3; 2]
  /\ coo_take_list Z x [2; -3; 2] (-1) = Ok (mkCOO [2; 3] [[0; 0]; [0; 1]; [0; 2]] [2; 1; 2] 7)
  /\ coo_take_int Z x (-2) (-1) = Ok (mkCOO [2] [[1]] [3] 7).
Proof.
  cbv zeta. split; [apply cwf_by_computation; reflexivity|]. split; [reflexivity|].
  split; [repeat constructor; simpl; lia|]. split; vm_compute; reflexivity.
Qed.
