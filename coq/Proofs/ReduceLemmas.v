(* Proofs/ReduceLemmas.v — list, permutation and fold lemmas used by Proofs/ReduceP.v (C03).
   The fold of an associative-commutative operation over a non-empty list is handled in the
   option-lifted commutative monoid (None = "no element yet"), where it is invariant under
   permutation and splits over concatenation. *)
From Coq Require Import ZArith List Bool Lia Permutation.
From Verif Require Import Shape.
Import ListNotations.
Open Scope Z_scope.

(* ------------------------------------------------------------------ generic list facts *)

Lemma perm_filter_split {A} (p : A -> bool) (l : list A) :
  Permutation l (filter p l ++ filter (fun x => negb (p x)) l).
Proof.
  induction l as [|a l IH]; simpl; [constructor|].
  destruct (p a); simpl.
  - constructor. exact IH.
  - apply Permutation_cons_app. exact IH.
Qed.

Lemma filter_length_split {A} (p : A -> bool) (l : list A) :
  (length l = length (filter p l) + length (filter (fun x => negb (p x)) l))%nat.
Proof.
  rewrite <- app_length. apply Permutation_length. apply perm_filter_split.
Qed.

Lemma NoDup_filter {A} (p : A -> bool) (l : list A) : NoDup l -> NoDup (filter p l).
Proof.
  induction 1 as [|a l Hn Hd IH]; simpl; [constructor|].
  destruct (p a); [|assumption]. constructor; [|assumption].
  intros H. apply filter_In in H. tauto.
Qed.

Lemma NoDup_map_inj {A B} (f : A -> B) (l : list A) :
  (forall x y, In x l -> In y l -> f x = f y -> x = y) -> NoDup l -> NoDup (map f l).
Proof.
  intros Hinj Hnd. induction Hnd as [|a l Hn Hd IH]; simpl; [constructor|].
  constructor.
  - intros H. apply in_map_iff in H. destruct H as [y [Hy Hin]].
    assert (y = a) by (apply Hinj; simpl; auto). subst. tauto.
  - apply IH. intros x y Hx Hy. apply Hinj; simpl; auto.
Qed.

Lemma NoDup_app_disj {A} (l1 l2 : list A) :
  NoDup l1 -> NoDup l2 -> (forall a, In a l1 -> In a l2 -> False) -> NoDup (l1 ++ l2).
Proof.
  induction 1 as [|a l1 Hn Hd IH]; simpl; intros H2 Hdis; [assumption|].
  constructor.
  - rewrite in_app_iff. intros [H|H]; [tauto|]. apply (Hdis a); auto.
  - apply IH; [assumption|]. intros b Hb. apply Hdis. auto.
Qed.

Lemma map_repeat_const {A B} (f : A -> B) (l : list A) (c : B) :
  (forall x, In x l -> f x = c) -> map f l = repeat c (length l).
Proof.
  induction l as [|a l IH]; simpl; intros H; [reflexivity|].
  rewrite H by auto. f_equal. apply IH. auto.
Qed.

Lemma map_repeat' {A B} (f : A -> B) (a : A) n : map f (repeat a n) = repeat (f a) n.
Proof. induction n; simpl; congruence. Qed.

Lemma Permutation_filter {A} (p : A -> bool) (l l' : list A) :
  Permutation l l' -> Permutation (filter p l) (filter p l').
Proof.
  induction 1; simpl.
  - constructor.
  - destruct (p x); [constructor|]; assumption.
  - destruct (p x), (p y); try constructor; try apply Permutation_refl. 
  - eapply Permutation_trans; eauto.
Qed.

Lemma filter_map_comm {A B} (f : A -> B) (p : B -> bool) (l : list A) :
  filter p (map f l) = map f (filter (fun x => p (f x)) l).
Proof.
  induction l as [|a l IH]; simpl; [reflexivity|]. destruct (p (f a)); simpl; congruence.
Qed.

Lemma length_zrange n : 0 <= n -> Z.of_nat (length (zrange n)) = n.
Proof. intros H. unfold zrange. rewrite map_length, seq_length. lia. Qed.

Lemma NoDup_zrange n : NoDup (zrange n).
Proof.
  unfold zrange. apply NoDup_map_inj; [|apply seq_NoDup]. intros x y _ _ H. lia.
Qed.

Lemma nth_zrange n k : (k < Z.to_nat n)%nat -> nth k (zrange n) 0 = Z.of_nat k.
Proof.
  intros H. unfold zrange. change 0 with (Z.of_nat 0). rewrite map_nth, seq_nth by assumption. reflexivity.
Qed.

(* ------------------------------------------------------------------ AC folds *)
Section Fold.
  Variable V : Type.
  Variable op : V -> V -> V.
  Hypothesis op_assoc : forall a b c, op a (op b c) = op (op a b) c.
  Hypothesis op_comm : forall a b, op a b = op b a.

  (* the lifted operation: None is a two-sided identity *)
  Definition oop (a b : option V) : option V :=
    match a, b with
    | Some x, Some y => Some (op x y)
    | None, _ => b
    | _, None => a
    end.

  Lemma oop_assoc a b c : oop a (oop b c) = oop (oop a b) c.
  Proof. destruct a, b, c; simpl; try reflexivity. rewrite op_assoc. reflexivity. Qed.
  Lemma oop_comm a b : oop a b = oop b a.
  Proof. destruct a, b; simpl; try reflexivity. rewrite op_comm. reflexivity. Qed.
  Lemma oop_none_r a : oop a None = a.
  Proof. destruct a; reflexivity. Qed.

  Arguments oop : simpl never.

  Definition ofold (l : list V) : option V := fold_right (fun v acc => oop (Some v) acc) None l.

  Lemma ofold_app l1 l2 : ofold (l1 ++ l2) = oop (ofold l1) (ofold l2).
  Proof.
    induction l1 as [|a l1 IH]; simpl; [reflexivity|].
    rewrite IH. apply oop_assoc.
  Qed.

  Lemma ofold_perm l l' : Permutation l l' -> ofold l = ofold l'.
  Proof.
    induction 1; simpl; try congruence.
    rewrite !oop_assoc. f_equal. apply oop_comm.
  Qed.

  Lemma fold_left_oop l a : Some (fold_left op l a) = oop (Some a) (ofold l).
  Proof.
    revert a. induction l as [|b l IH]; intros a; simpl; [reflexivity|].
    rewrite IH. rewrite oop_assoc. reflexivity.
  Qed.

  (* the left fold from the first element is the lifted fold *)
  Lemma ofold_cons_fold_left v r : ofold (v :: r) = Some (fold_left op r v).
  Proof. rewrite fold_left_oop. reflexivity. Qed.

  Lemma ofold_nonempty l : l <> [] -> exists v, ofold l = Some v.
  Proof. destruct l as [|a l]; [congruence|]. intros _. rewrite ofold_cons_fold_left. eauto. Qed.

  Lemma ofold_nil_iff l : ofold l = None <-> l = [].
  Proof.
    split; [|intros ->; reflexivity]. destruct l as [|a l]; [reflexivity|].
    rewrite ofold_cons_fold_left. discriminate.
  Qed.

  (* folding copies of an element that absorbs itself *)
  Lemma ofold_repeat_idem f n : op f f = f -> (0 < n)%nat -> ofold (repeat f n) = Some f.
  Proof.
    intros Hf. induction n as [|n IH]; [lia|]. intros _. simpl.
    destruct n as [|n]; [reflexivity|]. rewrite IH by lia. unfold oop. rewrite Hf. reflexivity.
  Qed.
End Fold.

Arguments oop {V}.
Arguments ofold {V}.
