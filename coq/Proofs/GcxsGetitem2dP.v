(* Proofs/GcxsGetitem2dP.v — gcxs_getitem_den / gcxs_getitem_wf for 2-d GCXS arrays (CSR: compressed axis 0,
   CSC: compressed axis 1) and basic indices without None: g[ix] is GCXS.from_coo of the COO result, hence
   well-formed and with NumPy's dense meaning.  Built on the layout-independent lemmas of GcxsGetitemP.v
   (kernels on a from_coo array, the selected elements as a sorted key list, assembly of from_coo). *)
From Coq Require Import ZArith List Bool Lia ZifyBool Sorting.Sorted Sorting.Permutation.
From Verif Require Import Py PySlice Shape COO COOP GCXS Convert ConvertL ConvertG NpIndex CooIndex
     CooIndexMaskP CooIndexNormP CooIndexP GcxsIndex GcxsIndexP GcxsGetitem GcxsGetitemP.
Import ListNotations.
Open Scope Z_scope.

Lemma SS_lt_sincr l : StronglySorted Z.lt l -> sincr l.
Proof. intros H p q Hpq Hq. apply (SS_nth Z.lt l 0 p q H Hpq Hq). Qed.

Lemma range_list_in_bounds s e st d : (forall c, In c (range_list s e st) -> 0 <= c < d) ->
  Forall (fun x => 0 <= x < d * 1) (range_list s e st).
Proof. intros H. apply Forall_forall. intros x Hx. specialize (H x Hx). lia. Qed.

Lemma zat_in l (q : nat) : (q < length l)%nat -> In (zat l (Z.of_nat q)) l.
Proof. intros H. unfold zat. rewrite Nat2Z.id. apply nth_In. exact H. Qed.


(* ================================================================ the part of getitem after the bookkeeping *)
Section Tail.
  Variable V : Type.

  (* row-size guard, kernel, and a final assembly `fin` of the kernel's output *)
  Definition tail_nd (g : gcxs V) (RW CL : list Z) (pos_slice : bool) (row_size2 : nat -> Z)
             (fin : list (nat * nat) -> list Z -> ggres V) : res (ggres V) :=
    let starts := map (fun r => Z.to_nat (nth (Z.to_nat r) (g_indptr g) 0)) RW in
    let ends := map (fun r => Z.to_nat (nth (S (Z.to_nat r)) (g_indptr g) 0)) RW in
    if negb (row_size2 (length starts) =? Z.of_nat (length starts)) then Raise RuntimeError
    else
      let rws := combine starts ends in
      s <- sel_res (if pos_slice then slicing_selection (code_path (g_indices g) rws CL) (g_indices g) rws CL
                      else array_selection (g_indices g) rws CL) ;;
      let '(ps, indptr1) := s in Ok (fin ps indptr1).
End Tail.

Section Patterns.
  Variable V : Type.
  Variable veqb : V -> V -> bool.
  Variable add : V -> V -> V.
  Variable c : coo V.
  Variable ca : list Z.
  Hypothesis Hc : canonical V c.
  Hypothesis Hok : shape_ok (c_shape c).
  Hypothesis Hca : caxes_okb (Z.of_nat (length (c_shape c))) ca = true.
  Hypothesis Hnd : (2 <= length (c_shape c))%nat.

  Let sh := c_shape c.
  Let cs := col_size sh ca.
  Let s := gsorted V c ca.
  Let keys := map fst s.
  Let data := map snd s.

  Variables RW CL : list Z.
  Variable pos_slice : bool.
  Hypothesis HRW : Forall (fun r => 0 <= r < row_size sh ca) RW.
  Hypothesis HCL : Forall (fun x => 0 <= x < cs) CL.
  Hypothesis Hpos : pos_slice = true -> sincr CL.

  Lemma tail_eval row_size2 fin :
    row_size2 (length RW) = Z.of_nat (length RW) ->
    tail_nd V (gcxs_from_coo c ca) RW CL pos_slice row_size2 fin
    = Ok (fin (flat_map (rowsel keys cs CL) RW)
              (0 :: cumsum_from 0 (map (fun r => Z.of_nat (length (rowsel keys cs CL r))) RW))).
  Proof using Hc Hok Hca Hnd HRW HCL Hpos.
    intros Hrs. rewrite (from_coo_nf V c ca Hok Hca Hnd). unfold tail_nd. cbn [g_indptr g_indices].
    rewrite map_length, Hrs, Z.eqb_refl. cbn [negb].
    pose proof (kernel_eval V c ca Hc Hok Hca RW CL pos_slice HRW HCL Hpos) as E. cbv zeta in E. rewrite E.
    reflexivity.
  Qed.

  Variable sh' : shape.
  Variable gsrc : idx -> idx.
  Variable y : coo V.
  Hypothesis Hy_can : canonical V y.
  Hypothesis Hy_sh : c_shape y = sh'.
  Hypothesis Hy_fill : c_fill y = c_fill c.
  Hypothesis Hy_ent : forall j v, in_range sh' j -> (In (j, v) (entries y) <-> In (gsrc j, v) (entries c)).
  Hypothesis Hok' : shape_ok sh'.

  Variable key' : idx -> Z.
  Hypothesis BR2 : forall j, in_range sh' j ->
    exists m cc : nat, (m < length RW)%nat /\ (cc < length CL)%nat
      /\ key' j = Z.of_nat m * Z.of_nat (length CL) + Z.of_nat cc
      /\ ckey sh ca (gsrc j) = nth m RW 0 * cs + nth cc CL 0.
  Hypothesis BR3 : forall m cc : nat, (m < length RW)%nat -> (cc < length CL)%nat ->
    exists j, in_range sh' j /\ in_range sh (gsrc j)
      /\ key' j = Z.of_nat m * Z.of_nat (length CL) + Z.of_nat cc
      /\ ckey sh ca (gsrc j) = nth m RW 0 * cs + nth cc CL 0.

  Let ps := flat_map (rowsel keys cs CL) RW.
  Let ip1 := 0 :: cumsum_from 0 (map (fun r => Z.of_nat (length (rowsel keys cs CL r))) RW).
  Let data' := map (fun p : nat * nat => nth (fst p) data (c_fill c)) ps.
  Let ind1 := map (fun p : nat * nat => Z.of_nat (snd p)) ps.

  (* both kinds of axes survive: the kernel output is the result *)
  Lemma pat_nd ca' :
    (2 <= length sh')%nat -> caxes_okb (Z.of_nat (length sh')) ca' = true -> (forall j, key' j = ckey sh' ca' j) ->
    row_size sh' ca' = Z.of_nat (length RW) -> col_size sh' ca' = Z.of_nat (length CL) ->
    mkGCXS sh' ca' data' ind1 ip1 (c_fill c) = gcxs_from_coo y ca'.
  Proof using Hc Hca Hy_can Hy_sh Hy_fill Hy_ent Hok' BR2 BR3.
    intros H2 Hca' Hkey Hr Hcl.
    pose proof (master_gsorted V c ca Hc Hca RW CL sh' gsrc y Hy_can Hy_sh Hy_ent key' BR2 BR3 ca' Hca' Hkey) as Hg.
    unfold Lout in Hg. fold sh cs s keys data in Hg.
    rewrite <- Hy_sh in H2, Hca', Hr, Hcl, Hok'.
    pose proof (assemble_nd V y Hy_can Hok' keys data (c_fill c) cs CL RW ca' H2 Hca' Hg Hr Hcl Hy_fill) as E.
    rewrite <- E. rewrite Hy_sh. reflexivity.
  Qed.

  (* members of the key list of a 1-d result *)
  Lemma members_1d n : sh' = [n] -> (forall j, key' j = hd 0 j) ->
    forall k v, In (k, v) (Lout V c ca RW CL) <-> In ([k], v) (entries y).
  Proof using Hc Hca Hy_can Hy_sh Hy_ent BR2 BR3.
    intros Hn Hkey k v.
    rewrite (master_members V c ca Hc Hca RW CL sh' gsrc y Hy_can Hy_sh Hy_ent key' BR2 BR3). split.
    - intros [j [Hin Hk]]. pose proof Hy_can as [Hr _]. rewrite Forall_forall in Hr.
      assert (Hj : in_range (c_shape y) j).
      { apply Hr. unfold entries in Hin. apply in_combine_l in Hin. exact Hin. }
      rewrite Hy_sh, Hn in Hj. destruct j as [|q [|q' t]].
      + destruct Hj.
      + rewrite Hkey in Hk. simpl in Hk. subst q. exact Hin.
      + destruct Hj as [_ []].
    - intros Hin. exists [k]. split; [exact Hin|apply Hkey].
  Qed.

  (* only the uncompressed part survives (one selected row): indices = the column numbers *)
  Lemma pat_cols n r ca' : sh' = [n] -> (forall j, key' j = hd 0 j) -> RW = [r] ->
    mkGCXS [n] [] data' ind1 [] (c_fill c) = gcxs_from_coo y ca'.
  Proof using veqb add Hc Hca Hy_can Hy_sh Hy_fill Hy_ent BR2 BR3.
    intros Hn Hkey HR. rewrite Hn in Hy_sh.
    rewrite (assemble_1d V veqb add y Hy_can (Lout V c ca RW CL) n (c_fill c) Hy_sh Hy_fill).
    - unfold Lout. fold sh cs s keys data. rewrite lout_snd. fold ps data'. f_equal.
      unfold ind1, ps. rewrite HR. cbn [lout flat_map]. rewrite !app_nil_r, map_map. apply map_ext. intros p. cbn [fst]. lia.
    - apply lout_sorted.
    - rewrite <- Hn in Hy_sh. apply (members_1d n Hn Hkey).
  Qed.

  (* only the compressed part survives (one selected column): indices = the row number of every hit *)
  Lemma pat_rows n x ca' : sh' = [n] -> (forall j, key' j = hd 0 j) -> CL = [x] ->
    mkGCXS [n] [] data' (row_numbers ip1) [] (c_fill c) = gcxs_from_coo y ca'.
  Proof using veqb add Hc Hca Hy_can Hy_sh Hy_fill Hy_ent BR2 BR3.
    intros Hn Hkey HC. rewrite Hn in Hy_sh.
    rewrite (assemble_1d V veqb add y Hy_can (Lout V c ca RW CL) n (c_fill c) Hy_sh Hy_fill).
    - unfold Lout. fold sh cs s keys data. rewrite lout_snd. fold ps data'. f_equal.
      unfold ip1. rewrite row_numbers_eq, row_numbers_go_cumsum.
      rewrite <- (lout_div V keys data (c_fill c) cs CL RW 0). rewrite HC. cbn [length].
      apply map_ext. intros e. rewrite Z.div_1_r. reflexivity.
    - apply lout_sorted.
    - rewrite <- Hn in Hy_sh. apply (members_1d n Hn Hkey).
  Qed.
End Patterns.


(* ================================================================ explicit form of the 2-d wrapper, case by case *)
Section Formulas.
  Variable V : Type.
  Variables d0 d1 : Z.
  Variables (data : list V) (indices indptr : list Z) (fill : V) (ix : index).
  Definition gg a := mkGCXS [d0;d1] [a] data indices indptr fill.
  Definition dat (ps : list (nat*nat)) := map (fun p : nat * nat => nth (fst p) data fill) ps.
  Definition ind (ps : list (nat*nat)) := map (fun p : nat * nat => Z.of_nat (snd p)) ps.

  Ltac formula Hn Haf := unfold gcxs_getitem_nd; cbn [g_shape gg]; rewrite Hn; cbn [bind]; rewrite Haf; reflexivity.

  Lemma f0_SS s0 e0 st0 s1 e1 st1 :
    normalize_index ix [d0;d1] = Ok [NSlice s0 e0 st0; NSlice s1 e1 st1] ->
    all_full [NSlice s0 e0 st0; NSlice s1 e1 st1] [d0;d1] = false ->
    gcxs_getitem_nd V (gg 0) ix
    = tail_nd V (gg 0) (convert_to_flat [range_list s0 e0 st0] [d0]) (convert_to_flat [range_list s1 e1 st1] [d1])
        (negb (st1 <? 0) && true) (fun _ => slice_len s0 e0 st0 * 1)
        (fun ps ip => GGArr (mkGCXS [slice_len s0 e0 st0; slice_len s1 e1 st1] [0] (dat ps) (ind ps) ip fill)).
  Proof. intros Hn Haf. formula Hn Haf. Qed.

  Lemma f0_IS i s1 e1 st1 :
    normalize_index ix [d0;d1] = Ok [NInt i; NSlice s1 e1 st1] ->
    all_full [NInt i; NSlice s1 e1 st1] [d0;d1] = false ->
    gcxs_getitem_nd V (gg 0) ix
    = tail_nd V (gg 0) (convert_to_flat [[i]] [d0]) (convert_to_flat [range_list s1 e1 st1] [d1])
        (negb (st1 <? 0) && true) (fun _ => 1)
        (fun ps ip => GGArr (mkGCXS [slice_len s1 e1 st1] [] (dat ps) (ind ps) [] fill)).
  Proof. intros Hn Haf. formula Hn Haf. Qed.

  Lemma f0_SI s0 e0 st0 i :
    normalize_index ix [d0;d1] = Ok [NSlice s0 e0 st0; NInt i] ->
    all_full [NSlice s0 e0 st0; NInt i] [d0;d1] = false ->
    gcxs_getitem_nd V (gg 0) ix
    = tail_nd V (gg 0) (convert_to_flat [range_list s0 e0 st0] [d0]) (convert_to_flat [[i]] [d1])
        true (fun n => Z.of_nat n)
        (fun ps ip => GGArr (mkGCXS [slice_len s0 e0 st0] [] (dat ps) (row_numbers ip) [] fill)).
  Proof. intros Hn Haf. formula Hn Haf. Qed.

  Lemma f1_SS s0 e0 st0 s1 e1 st1 :
    normalize_index ix [d0;d1] = Ok [NSlice s0 e0 st0; NSlice s1 e1 st1] ->
    all_full [NSlice s0 e0 st0; NSlice s1 e1 st1] [d0;d1] = false ->
    gcxs_getitem_nd V (gg 1) ix
    = tail_nd V (gg 1) (convert_to_flat [range_list s1 e1 st1] [d1]) (convert_to_flat [range_list s0 e0 st0] [d0])
        (negb (st0 <? 0) && true) (fun _ => slice_len s1 e1 st1 * 1)
        (fun ps ip => GGArr (mkGCXS [slice_len s0 e0 st0; slice_len s1 e1 st1] [1] (dat ps) (ind ps) ip fill)).
  Proof. intros Hn Haf. formula Hn Haf. Qed.

  Lemma f1_IS i s1 e1 st1 :
    normalize_index ix [d0;d1] = Ok [NInt i; NSlice s1 e1 st1] ->
    all_full [NInt i; NSlice s1 e1 st1] [d0;d1] = false ->
    gcxs_getitem_nd V (gg 1) ix
    = tail_nd V (gg 1) (convert_to_flat [range_list s1 e1 st1] [d1]) (convert_to_flat [[i]] [d0])
        true (fun n => Z.of_nat n)
        (fun ps ip => GGArr (mkGCXS [slice_len s1 e1 st1] [] (dat ps) (row_numbers ip) [] fill)).
  Proof. intros Hn Haf. formula Hn Haf. Qed.

  Lemma f1_SI s0 e0 st0 i :
    normalize_index ix [d0;d1] = Ok [NSlice s0 e0 st0; NInt i] ->
    all_full [NSlice s0 e0 st0; NInt i] [d0;d1] = false ->
    gcxs_getitem_nd V (gg 1) ix
    = tail_nd V (gg 1) (convert_to_flat [[i]] [d1]) (convert_to_flat [range_list s0 e0 st0] [d0])
        (negb (st0 <? 0) && true) (fun _ => 1)
        (fun ps ip => GGArr (mkGCXS [slice_len s0 e0 st0] [] (dat ps) (ind ps) [] fill)).
  Proof. intros Hn Haf. formula Hn Haf. Qed.

  Lemma f_II a i j :
    normalize_index ix [d0;d1] = Ok [NInt i; NInt j] ->
    gcxs_getitem_nd V (gg a) ix
    = let k := ravel (reordered_shape [d0;d1] [a]) (gather_n [i;j] 0 (axis_order 2 [a])) in
      Ok (GGScalar (single_element data indices indptr fill (k / col_size [d0;d1] [a]) (k mod col_size [d0;d1] [a]))).
  Proof.
    intros Hn. unfold gcxs_getitem_nd; cbn [g_shape gg]; rewrite Hn; cbn [bind].
    replace (all_full [NInt i; NInt j] [d0; d1]) with false by reflexivity. reflexivity.
  Qed.
End Formulas.

Lemma slice_len_len s e st : st <> 0 -> slice_len s e st = Z.of_nat (length (range_list s e st)).
Proof. intros H. rewrite slice_len_spec, len_range_list by assumption. reflexivity. Qed.

Lemma in_range2 a b j : in_range [a;b] j -> exists q0 q1, j = [q0;q1] /\ 0 <= q0 < a /\ 0 <= q1 < b.
Proof.
  destruct j as [|q0 [|q1 [|q2 t]]]; simpl; try tauto.
  intros [H0 [H1 _]]. exists q0, q1. auto.
Qed.

Lemma in_range1 a j : in_range [a] j -> exists q, j = [q] /\ 0 <= q < a.
Proof.
  destruct j as [|q0 [|q1 t]]; simpl; try tauto.
  intros [H0 _]. exists q0. auto.
Qed.

(* the bridge hypotheses of GcxsGetitemP.Master from row / column numbers given as integers *)
Section BRfrom.
  Variables (sh sh' : shape) (ca : list Z) (cs : Z) (RW CL : list Z) (gsrc : idx -> idx) (key' mq cq : idx -> Z).
  Hypothesis H1 : forall j, in_range sh' j ->
    0 <= mq j < Z.of_nat (length RW) /\ 0 <= cq j < Z.of_nat (length CL)
    /\ key' j = mq j * Z.of_nat (length CL) + cq j
    /\ ckey sh ca (gsrc j) = zat RW (mq j) * cs + zat CL (cq j).
  Hypothesis H2 : forall m cc, 0 <= m < Z.of_nat (length RW) -> 0 <= cc < Z.of_nat (length CL) ->
    exists j, in_range sh' j /\ in_range sh (gsrc j) /\ mq j = m /\ cq j = cc.

  Lemma br2 : forall j, in_range sh' j ->
    exists m cc : nat, (m < length RW)%nat /\ (cc < length CL)%nat
      /\ key' j = Z.of_nat m * Z.of_nat (length CL) + Z.of_nat cc
      /\ ckey sh ca (gsrc j) = nth m RW 0 * cs + nth cc CL 0.
  Proof.
    intros j Hj. destruct (H1 j Hj) as [Hm [Hc [Hk Hck]]]. exists (Z.to_nat (mq j)), (Z.to_nat (cq j)).
    split; [lia|]. split; [lia|]. rewrite !Z2Nat.id by lia. split; [exact Hk|exact Hck].
  Qed.

  Lemma br3 : forall m cc : nat, (m < length RW)%nat -> (cc < length CL)%nat ->
    exists j, in_range sh' j /\ in_range sh (gsrc j)
      /\ key' j = Z.of_nat m * Z.of_nat (length CL) + Z.of_nat cc
      /\ ckey sh ca (gsrc j) = nth m RW 0 * cs + nth cc CL 0.
  Proof.
    intros m cc Hm Hcc. destruct (H2 (Z.of_nat m) (Z.of_nat cc)) as [j [Hj [Hs [Em Ec]]]]; try lia.
    exists j. destruct (H1 j Hj) as [_ [_ [Hk Hck]]]. rewrite Em, Ec in Hk, Hck. unfold zat in Hck.
    rewrite !Nat2Z.id in Hck. auto.
  Qed.
End BRfrom.

(* ================================================================ the 2-d theorem *)
Section TwoD.
  Variable V : Type.
  Variable veqb : V -> V -> bool.
  Variable add : V -> V -> V.
  Variable c : coo V.
  Variables d0 d1 : Z.
  Hypothesis Hc : canonical V c.
  Hypothesis Hsh : c_shape c = [d0; d1].
  Hypothesis Hd0 : 0 <= d0.
  Hypothesis Hd1 : 0 <= d1.

  Lemma Hok2 : shape_ok (c_shape c).
  Proof. rewrite Hsh. repeat constructor; assumption. Qed.

  Lemma Hnd2 : (2 <= length (c_shape c))%nat.
  Proof. rewrite Hsh. simpl. lia. Qed.

  Lemma Hca2 a : a = 0 \/ a = 1 -> caxes_okb (Z.of_nat (length (c_shape c))) [a] = true.
  Proof. rewrite Hsh. intros [->| ->]; reflexivity. Qed.

  (* what the COO theorem says about the COO result y *)
  Definition yfacts (y : coo V) (sh' : shape) (gsrc : idx -> idx) : Prop :=
    c_shape y = sh' /\ c_fill y = c_fill c /\ canonical V y
    /\ (forall j, in_range sh' j -> den y j = den c (gsrc j))
    /\ (forall j v, in_range sh' j -> (In (j, v) (entries y) <-> In (gsrc j, v) (entries c))).

  Definition post (sh' : shape) (gsrc : idx -> idx) (r : res (ggres V)) : Prop :=
    match r with
    | Ok (GGArr g') => g_shape g' = sh' /\ g_fill g' = c_fill c /\ gcxs_wfb g' = true
                       /\ forall j, in_range sh' j -> gden g' j = den c (gsrc j)
    | _ => False
    end.

  Lemma post_from_coo y sh' gsrc ca' :
    yfacts y sh' gsrc -> shape_ok sh' -> axes_ok sh' ca' -> post sh' gsrc (Ok (GGArr (gcxs_from_coo y ca'))).
  Proof.
    intros [Hy_sh [Hy_fill [Hy_can [Hy_den _]]]] Hok' Hax. unfold post.
    assert (Hs : g_shape (gcxs_from_coo y ca') = sh').
    { unfold gcxs_from_coo. rewrite Hy_sh. destruct sh' as [|a [|b t]]; reflexivity. }
    assert (Hf : g_fill (gcxs_from_coo y ca') = c_fill c).
    { unfold gcxs_from_coo. rewrite Hy_sh. destruct sh' as [|a [|b t]]; exact Hy_fill. }
    split; [exact Hs|]. split; [exact Hf|]. split.
    - apply (gcxs_from_coo_wf_proof V veqb add); [exact Hy_can|rewrite Hy_sh; exact Hok'|rewrite Hy_sh; exact Hax].
    - intros j Hj. rewrite (gcxs_from_coo_den_proof V veqb add y ca' j Hy_can); [apply Hy_den; exact Hj|rewrite Hy_sh; exact Hok'|rewrite Hy_sh; exact Hax].
  Qed.

  Lemma from_coo_gg a : a = 0 \/ a = 1 ->
    gcxs_from_coo c [a]
    = gg V d0 d1 (map snd (gsorted V c [a])) (map (colf V c [a]) (gsorted V c [a]))
         (indptr_of (map (rowf V c [a]) (gsorted V c [a])) (row_size (c_shape c) [a])) (c_fill c) a.
  Proof.
    intros Ha. rewrite (from_coo_nf V c [a] Hok2 (Hca2 a Ha) Hnd2). unfold gg. f_equal. exact Hsh.
  Qed.

  Lemma rc_sizes : row_size (c_shape c) [0] = d0 * 1 /\ col_size (c_shape c) [0] = d1 * 1
                   /\ row_size (c_shape c) [1] = d1 * 1 /\ col_size (c_shape c) [1] = d0 * 1.
  Proof. rewrite Hsh. repeat split; reflexivity. Qed.

  Lemma Forall_single (P : Z -> Prop) x : P x -> Forall P [x].
  Proof. intros H. constructor; [exact H|constructor]. Qed.

  Lemma pos_sincr s e st : st <> 0 -> negb (st <? 0) && true = true -> sincr (range_list s e st).
  Proof.
    intros Hst H. apply SS_lt_sincr. apply range_list_SS_lt. destruct (Z.ltb_spec st 0); [discriminate|lia].
  Qed.

End TwoD.
