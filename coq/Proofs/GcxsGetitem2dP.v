(* Proofs/GcxsGetitem2dP.v — shared machinery of the GCXS getitem theorems (the theorems themselves, for every
   ndim, are in GcxsGetitemNdP.v): the tail of the n-d code (row-size guard, kernel, assembly), the three result
   patterns as GCXS.from_coo of the COO result, the post-condition, and the 2-d case lemmas (CSR / CSC) the n-d
   development grew out of.  Built on the layout-independent lemmas of GcxsGetitemP.v
   (kernels on a from_coo array, the selected elements as a sorted key list, assembly of from_coo). *)
From Coq Require Import ZArith List Bool Lia ZifyBool Sorting.Sorted Sorting.Permutation.
From Verif Require Import Py PySlice Shape COO COOP GCXS Convert ConvertL ConvertG NpIndex CooIndex
     CooIndexMaskP CooIndexNormP CooIndexP GcxsIndex GcxsIndexP GcxsGetitem GcxsGetitemP.
Import ListNotations.
Open Scope Z_scope.

Lemma SS_lt_sincr l : StronglySorted Z.lt l -> sincr l.
Proof. intros H p q Hpq Hq. apply (SS_nth Z.lt l 0 p q H Hpq Hq). Qed.

Lemma range_list_in_bounds s e st d : (forall c, In c (range_list s e st) -> 0 <= c < d) ->
  Forall (fun x => 0 <= x < d * 1) (range_list s e st).
Proof. intros H. apply Forall_forall. intros x Hx. specialize (H x Hx). lia. Qed.

Lemma zat_in l (q : nat) : (q < length l)%nat -> In (zat l (Z.of_nat q)) l.
Proof. intros H. unfold zat. rewrite Nat2Z.id. apply nth_In. exact H. Qed.


(* ================================================================ the part of getitem after the bookkeeping *)
Section Tail.
  Variable V : Type.

  (* row-size guard, kernel, and a final assembly `fin` of the kernel's output *)
  Definition tail_nd (g : gcxs V) (RW CL : list Z) (pos_slice : bool) (row_size2 : nat -> Z)
             (fin : list (nat * nat) -> list Z -> ggres V) : res (ggres V) :=
    let starts := map (fun r => Z.to_nat (nth (Z.to_nat r) (g_indptr g) 0)) RW in
    let ends := map (fun r => Z.to_nat (nth (S (Z.to_nat r)) (g_indptr g) 0)) RW in
    if negb (row_size2 (length starts) =? Z.of_nat (length starts)) then Raise RuntimeError
    else
      let rws := combine starts ends in
      s <- sel_res (if pos_slice then slicing_selection (code_path (g_indices g) rws CL) (g_indices g) rws CL
                      else array_selection (g_indices g) rws CL) ;;
      let '(ps, indptr1) := s in Ok (fin ps indptr1).
End Tail.

Section Patterns.
  Variable V : Type.
  Variable veqb : V -> V -> bool.
  Variable add : V -> V -> V.
  Variable c : coo V.
  Variable ca : list Z.
  Hypothesis Hc : canonical V c.
  Hypothesis Hok : shape_ok (c_shape c).
  Hypothesis Hca : caxes_okb (Z.of_nat (length (c_shape c))) ca = true.
  Hypothesis Hnd : (2 <= length (c_shape c))%nat.

  Let sh := c_shape c.
  Let cs := col_size sh ca.
  Let s := gsorted V c ca.
  Let keys := map fst s.
  Let data := map snd s.

  Variables RW CL : list Z.
  Variable pos_slice : bool.
  Hypothesis HRW : Forall (fun r => 0 <= r < row_size sh ca) RW.
  Hypothesis HCL : Forall (fun x => 0 <= x < cs) CL.
  Hypothesis Hpos : pos_slice = true -> sincr CL.

  Lemma tail_eval row_size2 fin :
    row_size2 (length RW) = Z.of_nat (length RW) ->
    tail_nd V (gcxs_from_coo c ca) RW CL pos_slice row_size2 fin
    = Ok (fin (flat_map (rowsel keys cs CL) RW)
              (0 :: cumsum_from 0 (map (fun r => Z.of_nat (length (rowsel keys cs CL r))) RW))).
  Proof using Hc Hok Hca Hnd HRW HCL Hpos.
    intros Hrs. rewrite (from_coo_nf V c ca Hok Hca Hnd). unfold tail_nd. cbn [g_indptr g_indices].
    rewrite map_length, Hrs, Z.eqb_refl. cbn [negb].
    pose proof (kernel_eval V c ca Hc Hok Hca RW CL pos_slice HRW HCL Hpos) as E. cbv zeta in E. rewrite E.
    reflexivity.
  Qed.

  Variable sh' : shape.
  Variable gsrc : idx -> idx.
  Variable y : coo V.
  Hypothesis Hy_can : canonical V y.
  Hypothesis Hy_sh : c_shape y = sh'.
  Hypothesis Hy_fill : c_fill y = c_fill c.
  Hypothesis Hy_ent : forall j v, in_range sh' j -> (In (j, v) (entries y) <-> In (gsrc j, v) (entries c)).
  Hypothesis Hok' : shape_ok sh'.

  Variable key' : idx -> Z.
  Hypothesis BR2 : forall j, in_range sh' j ->
    exists m cc : nat, (m < length RW)%nat /\ (cc < length CL)%nat
      /\ key' j = Z.of_nat m * Z.of_nat (length CL) + Z.of_nat cc
      /\ ckey sh ca (gsrc j) = nth m RW 0 * cs + nth cc CL 0.
  Hypothesis BR3 : forall m cc : nat, (m < length RW)%nat -> (cc < length CL)%nat ->
    exists j, in_range sh' j /\ in_range sh (gsrc j)
      /\ key' j = Z.of_nat m * Z.of_nat (length CL) + Z.of_nat cc
      /\ ckey sh ca (gsrc j) = nth m RW 0 * cs + nth cc CL 0.

  Let ps := flat_map (rowsel keys cs CL) RW.
  Let ip1 := 0 :: cumsum_from 0 (map (fun r => Z.of_nat (length (rowsel keys cs CL r))) RW).
  Let data' := map (fun p : nat * nat => nth (fst p) data (c_fill c)) ps.
  Let ind1 := map (fun p : nat * nat => Z.of_nat (snd p)) ps.

  (* both kinds of axes survive: the kernel output is the result *)
  Lemma pat_nd ca' :
    (2 <= length sh')%nat -> caxes_okb (Z.of_nat (length sh')) ca' = true -> (forall j, key' j = ckey sh' ca' j) ->
    row_size sh' ca' = Z.of_nat (length RW) -> col_size sh' ca' = Z.of_nat (length CL) ->
    mkGCXS sh' ca' data' ind1 ip1 (c_fill c) = gcxs_from_coo y ca'.
  Proof using Hc Hca Hy_can Hy_sh Hy_fill Hy_ent Hok' BR2 BR3.
    intros H2 Hca' Hkey Hr Hcl.
    pose proof (master_gsorted V c ca Hc Hca RW CL sh' gsrc y Hy_can Hy_sh Hy_ent key' BR2 BR3 ca' Hca' Hkey) as Hg.
    unfold Lout in Hg. fold sh cs s keys data in Hg.
    rewrite <- Hy_sh in H2, Hca', Hr, Hcl, Hok'.
    pose proof (assemble_nd V y Hy_can Hok' keys data (c_fill c) cs CL RW ca' H2 Hca' Hg Hr Hcl Hy_fill) as E.
    rewrite <- E. rewrite Hy_sh. reflexivity.
  Qed.

  (* members of the key list of a 1-d result *)
  Lemma members_1d n : sh' = [n] -> (forall j, key' j = hd 0 j) ->
    forall k v, In (k, v) (Lout V c ca RW CL) <-> In ([k], v) (entries y).
  Proof using Hc Hca Hy_can Hy_sh Hy_ent BR2 BR3.
    intros Hn Hkey k v.
    rewrite (master_members V c ca Hc Hca RW CL sh' gsrc y Hy_can Hy_sh Hy_ent key' BR2 BR3). split.
    - intros [j [Hin Hk]]. pose proof Hy_can as [Hr _]. rewrite Forall_forall in Hr.
      assert (Hj : in_range (c_shape y) j).
      { apply Hr. unfold entries in Hin. apply in_combine_l in Hin. exact Hin. }
      rewrite Hy_sh, Hn in Hj. destruct j as [|q [|q' t]].
      + destruct Hj.
      + rewrite Hkey in Hk. simpl in Hk. subst q. exact Hin.
      + destruct Hj as [_ []].
    - intros Hin. exists [k]. split; [exact Hin|apply Hkey].
  Qed.

  (* only the uncompressed part survives (one selected row): indices = the column numbers *)
  Lemma pat_cols n r ca' : sh' = [n] -> (forall j, key' j = hd 0 j) -> RW = [r] ->
    mkGCXS [n] [] data' ind1 [] (c_fill c) = gcxs_from_coo y ca'.
  Proof using veqb add Hc Hca Hy_can Hy_sh Hy_fill Hy_ent BR2 BR3.
    intros Hn Hkey HR. rewrite Hn in Hy_sh.
    rewrite (assemble_1d V veqb add y Hy_can (Lout V c ca RW CL) n (c_fill c) Hy_sh Hy_fill).
    - unfold Lout. fold sh cs s keys data. rewrite lout_snd. fold ps data'. f_equal.
      unfold ind1, ps. rewrite HR. cbn [lout flat_map]. rewrite !app_nil_r, map_map. apply map_ext. intros p. cbn [fst]. rewrite Z.mul_0_l. reflexivity.
    - apply lout_sorted.
    - rewrite <- Hn in Hy_sh. apply (members_1d n Hn Hkey).
  Qed.

  (* only the compressed part survives (one selected column): indices = the row number of every hit *)
  Lemma pat_rows n x ca' : sh' = [n] -> (forall j, key' j = hd 0 j) -> CL = [x] ->
    mkGCXS [n] [] data' (row_numbers ip1) [] (c_fill c) = gcxs_from_coo y ca'.
  Proof using veqb add Hc Hca Hy_can Hy_sh Hy_fill Hy_ent BR2 BR3.
    intros Hn Hkey HC. rewrite Hn in Hy_sh.
    rewrite (assemble_1d V veqb add y Hy_can (Lout V c ca RW CL) n (c_fill c) Hy_sh Hy_fill).
    - unfold Lout. fold sh cs s keys data. rewrite lout_snd. fold ps data'. f_equal.
      unfold ip1. rewrite row_numbers_eq, row_numbers_go_cumsum.
      rewrite <- (lout_div V keys data (c_fill c) cs CL RW 0). rewrite HC. cbn [length].
      apply map_ext. intros e. rewrite Z.div_1_r. reflexivity.
    - apply lout_sorted.
    - rewrite <- Hn in Hy_sh. apply (members_1d n Hn Hkey).
  Qed.
End Patterns.


(* ================================================================ explicit form of the 2-d wrapper, case by case *)
Section Formulas.
  Variable V : Type.
  Variables d0 d1 : Z.
  Variables (data : list V) (indices indptr : list Z) (fill : V) (ix : index).
  Definition gg a := mkGCXS [d0;d1] [a] data indices indptr fill.
  Definition dat (ps : list (nat*nat)) := map (fun p : nat * nat => nth (fst p) data fill) ps.
  Definition ind (ps : list (nat*nat)) := map (fun p : nat * nat => Z.of_nat (snd p)) ps.

  Ltac formula Hn Haf := unfold gcxs_getitem_nd; cbn [g_shape gg]; rewrite Hn; cbn [bind]; rewrite Haf; reflexivity.

  Lemma f0_SS s0 e0 st0 s1 e1 st1 :
    normalize_index ix [d0;d1] = Ok [NSlice s0 e0 st0; NSlice s1 e1 st1] ->
    all_full [NSlice s0 e0 st0; NSlice s1 e1 st1] [d0;d1] = false ->
    gcxs_getitem_nd V (gg 0) ix
    = tail_nd V (gg 0) (convert_to_flat [range_list s0 e0 st0] [d0]) (convert_to_flat [range_list s1 e1 st1] [d1])
        (negb (st1 <? 0) && true) (fun _ => slice_len s0 e0 st0 * 1)
        (fun ps ip => GGArr (mkGCXS [slice_len s0 e0 st0; slice_len s1 e1 st1] [0] (dat ps) (ind ps) ip fill)).
  Proof. intros Hn Haf. formula Hn Haf. Qed.

  Lemma f0_IS i s1 e1 st1 :
    normalize_index ix [d0;d1] = Ok [NInt i; NSlice s1 e1 st1] ->
    all_full [NInt i; NSlice s1 e1 st1] [d0;d1] = false ->
    gcxs_getitem_nd V (gg 0) ix
    = tail_nd V (gg 0) (convert_to_flat [[i]] [d0]) (convert_to_flat [range_list s1 e1 st1] [d1])
        (negb (st1 <? 0) && true) (fun _ => 1)
        (fun ps ip => GGArr (mkGCXS [slice_len s1 e1 st1] [] (dat ps) (ind ps) [] fill)).
  Proof. intros Hn Haf. formula Hn Haf. Qed.

  Lemma f0_SI s0 e0 st0 i :
    normalize_index ix [d0;d1] = Ok [NSlice s0 e0 st0; NInt i] ->
    all_full [NSlice s0 e0 st0; NInt i] [d0;d1] = false ->
    gcxs_getitem_nd V (gg 0) ix
    = tail_nd V (gg 0) (convert_to_flat [range_list s0 e0 st0] [d0]) (convert_to_flat [[i]] [d1])
        true (fun n => Z.of_nat n)
        (fun ps ip => GGArr (mkGCXS [slice_len s0 e0 st0] [] (dat ps) (row_numbers ip) [] fill)).
  Proof. intros Hn Haf. formula Hn Haf. Qed.

  Lemma f1_SS s0 e0 st0 s1 e1 st1 :
    normalize_index ix [d0;d1] = Ok [NSlice s0 e0 st0; NSlice s1 e1 st1] ->
    all_full [NSlice s0 e0 st0; NSlice s1 e1 st1] [d0;d1] = false ->
    gcxs_getitem_nd V (gg 1) ix
    = tail_nd V (gg 1) (convert_to_flat [range_list s1 e1 st1] [d1]) (convert_to_flat [range_list s0 e0 st0] [d0])
        (negb (st0 <? 0) && true) (fun _ => slice_len s1 e1 st1 * 1)
        (fun ps ip => GGArr (mkGCXS [slice_len s0 e0 st0; slice_len s1 e1 st1] [1] (dat ps) (ind ps) ip fill)).
  Proof. intros Hn Haf. formula Hn Haf. Qed.

  Lemma f1_IS i s1 e1 st1 :
    normalize_index ix [d0;d1] = Ok [NInt i; NSlice s1 e1 st1] ->
    all_full [NInt i; NSlice s1 e1 st1] [d0;d1] = false ->
    gcxs_getitem_nd V (gg 1) ix
    = tail_nd V (gg 1) (convert_to_flat [range_list s1 e1 st1] [d1]) (convert_to_flat [[i]] [d0])
        true (fun n => Z.of_nat n)
        (fun ps ip => GGArr (mkGCXS [slice_len s1 e1 st1] [] (dat ps) (row_numbers ip) [] fill)).
  Proof. intros Hn Haf. formula Hn Haf. Qed.

  Lemma f1_SI s0 e0 st0 i :
    normalize_index ix [d0;d1] = Ok [NSlice s0 e0 st0; NInt i] ->
    all_full [NSlice s0 e0 st0; NInt i] [d0;d1] = false ->
    gcxs_getitem_nd V (gg 1) ix
    = tail_nd V (gg 1) (convert_to_flat [[i]] [d1]) (convert_to_flat [range_list s0 e0 st0] [d0])
        (negb (st0 <? 0) && true) (fun _ => 1)
        (fun ps ip => GGArr (mkGCXS [slice_len s0 e0 st0] [] (dat ps) (ind ps) [] fill)).
  Proof. intros Hn Haf. formula Hn Haf. Qed.

  Lemma f_II a i j :
    normalize_index ix [d0;d1] = Ok [NInt i; NInt j] ->
    gcxs_getitem_nd V (gg a) ix
    = let k := ravel (reordered_shape [d0;d1] [a]) (gather_n [i;j] 0 (axis_order 2 [a])) in
      Ok (GGScalar (single_element data indices indptr fill (k / col_size [d0;d1] [a]) (k mod col_size [d0;d1] [a]))).
  Proof.
    intros Hn. unfold gcxs_getitem_nd; cbn [g_shape gg]; rewrite Hn; cbn [bind].
    replace (all_full [NInt i; NInt j] [d0; d1]) with false by reflexivity. reflexivity.
  Qed.
End Formulas.

Lemma slice_len_len s e st : st <> 0 -> slice_len s e st = Z.of_nat (length (range_list s e st)).
Proof. intros H. rewrite slice_len_spec, len_range_list by assumption. reflexivity. Qed.

Lemma in_range2 a b j : in_range [a;b] j -> exists q0 q1, j = [q0;q1] /\ 0 <= q0 < a /\ 0 <= q1 < b.
Proof.
  destruct j as [|q0 [|q1 [|q2 t]]]; simpl; try tauto.
  intros [H0 [H1 _]]. exists q0, q1. auto.
Qed.

Lemma in_range1 a j : in_range [a] j -> exists q, j = [q] /\ 0 <= q < a.
Proof.
  destruct j as [|q0 [|q1 t]]; simpl; try tauto.
  intros [H0 _]. exists q0. auto.
Qed.

(* the bridge hypotheses of GcxsGetitemP.Master from row / column numbers given as integers *)
Section BRfrom.
  Variables (sh sh' : shape) (ca : list Z) (cs : Z) (RW CL : list Z) (gsrc : idx -> idx) (key' mq cq : idx -> Z).
  Hypothesis H1 : forall j, in_range sh' j ->
    0 <= mq j < Z.of_nat (length RW) /\ 0 <= cq j < Z.of_nat (length CL)
    /\ key' j = mq j * Z.of_nat (length CL) + cq j
    /\ ckey sh ca (gsrc j) = zat RW (mq j) * cs + zat CL (cq j).
  Hypothesis H2 : forall m cc, 0 <= m < Z.of_nat (length RW) -> 0 <= cc < Z.of_nat (length CL) ->
    exists j, in_range sh' j /\ in_range sh (gsrc j) /\ mq j = m /\ cq j = cc.

  Lemma br2 : forall j, in_range sh' j ->
    exists m cc : nat, (m < length RW)%nat /\ (cc < length CL)%nat
      /\ key' j = Z.of_nat m * Z.of_nat (length CL) + Z.of_nat cc
      /\ ckey sh ca (gsrc j) = nth m RW 0 * cs + nth cc CL 0.
  Proof.
    intros j Hj. destruct (H1 j Hj) as [Hm [Hc [Hk Hck]]]. exists (Z.to_nat (mq j)), (Z.to_nat (cq j)).
    split; [lia|]. split; [lia|]. rewrite !Z2Nat.id by lia. split; [exact Hk|exact Hck].
  Qed.

  Lemma br3 : forall m cc : nat, (m < length RW)%nat -> (cc < length CL)%nat ->
    exists j, in_range sh' j /\ in_range sh (gsrc j)
      /\ key' j = Z.of_nat m * Z.of_nat (length CL) + Z.of_nat cc
      /\ ckey sh ca (gsrc j) = nth m RW 0 * cs + nth cc CL 0.
  Proof.
    intros m cc Hm Hcc. destruct (H2 (Z.of_nat m) (Z.of_nat cc)) as [j [Hj [Hs [Em Ec]]]]; try lia.
    exists j. destruct (H1 j Hj) as [_ [_ [Hk Hck]]]. rewrite Em, Ec in Hk, Hck. unfold zat in Hck.
    rewrite !Nat2Z.id in Hck. auto.
  Qed.
End BRfrom.


(* ================================================================ indices without None *)
Definition no_new (ix : index) : bool := forallb (fun e => negb (is_new e)) ix.

Lemma no_new_expand nd ix ex : expand nd ix = Ok ex -> no_new ix = true -> no_new ex = true.
Proof.
  unfold expand. destruct (1 <? countb is_ell ix); [discriminate|].
  destruct (nd - countb consumes ix <? 0); [discriminate|]. intros H Hb. inversion H; subst ex. clear H.
  unfold no_new in *. rewrite forallb_forall in *.
  assert (Hfull : forall e k, In e (repeat full_slice k) -> e = full_slice) by (intros e k Hin; eapply repeat_spec; eauto).
  intros e He. destruct (0 <? countb is_ell ix).
  - apply subst_In in He. destruct He as [He|He]; [rewrite (Hfull _ _ He); reflexivity|auto].
  - apply in_app_iff in He. destruct He as [He|He]; [auto|rewrite (Hfull _ _ He); reflexivity].
Qed.

Lemma norm_all_not_none ex : forall sh,
  no_new ex = true -> fits ex sh = true -> shape_okb sh = true -> no_zero_step ex = true ->
  forallb not_none (norm_all ex sh) = true.
Proof.
  induction ex as [|e r IH]; intros sh Hnn Hf Hsh Hz; [reflexivity|].
  simpl in Hz, Hnn. apply andb_true_iff in Hz, Hnn. destruct Hz as [Hze Hz], Hnn as [Hne Hnn].
  destruct e; try discriminate; (destruct sh as [|d sh']; [discriminate|]); simpl in Hsh, Hf; apply andb_true_iff in Hsh;
    destruct Hsh as [Hd Hsh]; cbn [norm_all nentry_spec forallb]; rewrite (IH sh' Hnn Hf Hsh Hz); try reflexivity.
  assert (Hc : c <> Some 0) by (intros ->; discriminate).
  destruct (normalize_slice_ok a b c d ltac:(lia) Hc) as [s [e' [st [En _]]]].
  unfold nslice_of. rewrite En. reflexivity.
Qed.

Lemma np_index_basic sh ix nix :
  resolve_all sh ix = Ok (map to_r nix) -> no_arr nix = true ->
  np_index sh ix = Ok (out_shape (map to_r nix), src_of (map to_r nix)).
Proof.
  intros Hr Hna. rewrite np_index_eq, Hr. cbn [bind]. unfold broadcast.
  rewrite (adv_lens_no_adv _ (to_r_no_adv nix Hna)). cbn [bcast_len fold_right forallb bind].
  rewrite (stretch_no_adv _ _ (to_r_no_adv nix Hna)). reflexivity.
Qed.

(* ================================================================ the 2-d theorem *)
Section TwoD.
  Variable V : Type.
  Variable veqb : V -> V -> bool.
  Variable add : V -> V -> V.
  Variable c : coo V.
  Variables d0 d1 : Z.
  Hypothesis Hc : canonical V c.
  Hypothesis Hsh : c_shape c = [d0; d1].
  Hypothesis Hd0 : 0 <= d0.
  Hypothesis Hd1 : 0 <= d1.

  Lemma Hok2 : shape_ok (c_shape c).
  Proof. rewrite Hsh. repeat constructor; assumption. Qed.

  Lemma Hnd2 : (2 <= length (c_shape c))%nat.
  Proof. rewrite Hsh. simpl. lia. Qed.

  Lemma Hca2 a : a = 0 \/ a = 1 -> caxes_okb (Z.of_nat (length (c_shape c))) [a] = true.
  Proof. rewrite Hsh. intros [->| ->]; reflexivity. Qed.

  (* what the COO theorem says about the COO result y *)
  Definition yfacts (y : coo V) (sh' : shape) (gsrc : idx -> idx) : Prop :=
    c_shape y = sh' /\ c_fill y = c_fill c /\ canonical V y
    /\ (forall j, in_range sh' j -> den y j = den c (gsrc j))
    /\ (forall j v, in_range sh' j -> (In (j, v) (entries y) <-> In (gsrc j, v) (entries c))).

  Definition post (sh' : shape) (gsrc : idx -> idx) (r : res (ggres V)) : Prop :=
    match r with
    | Ok (GGArr g') => g_shape g' = sh' /\ g_fill g' = c_fill c /\ gcxs_wfb g' = true
                       /\ forall j, in_range sh' j -> gden g' j = den c (gsrc j)
    | _ => False
    end.

  Lemma post_from_coo y sh' gsrc ca' :
    yfacts y sh' gsrc -> shape_ok sh' -> axes_ok sh' ca' -> post sh' gsrc (Ok (GGArr (gcxs_from_coo y ca'))).
  Proof.
    intros [Hy_sh [Hy_fill [Hy_can [Hy_den _]]]] Hok' Hax. unfold post.
    assert (Hs : g_shape (gcxs_from_coo y ca') = sh').
    { unfold gcxs_from_coo. rewrite Hy_sh. destruct sh' as [|a [|b t]]; reflexivity. }
    assert (Hf : g_fill (gcxs_from_coo y ca') = c_fill c).
    { unfold gcxs_from_coo. rewrite Hy_sh. destruct sh' as [|a [|b t]]; exact Hy_fill. }
    split; [exact Hs|]. split; [exact Hf|]. split.
    - apply (gcxs_from_coo_wf_proof V veqb add); [exact Hy_can|rewrite Hy_sh; exact Hok'|rewrite Hy_sh; exact Hax].
    - intros j Hj. rewrite (gcxs_from_coo_den_proof V veqb add y ca' j Hy_can); [apply Hy_den; exact Hj|rewrite Hy_sh; exact Hok'|rewrite Hy_sh; exact Hax].
  Qed.

  Lemma from_coo_gg a : a = 0 \/ a = 1 ->
    gcxs_from_coo c [a]
    = gg V d0 d1 (map snd (gsorted V c [a])) (map (colf V c [a]) (gsorted V c [a]))
         (indptr_of (map (rowf V c [a]) (gsorted V c [a])) (row_size (c_shape c) [a])) (c_fill c) a.
  Proof.
    intros Ha. rewrite (from_coo_nf V c [a] Hok2 (Hca2 a Ha) Hnd2). unfold gg. f_equal. exact Hsh.
  Qed.

  Lemma rc_sizes : row_size (c_shape c) [0] = d0 * 1 /\ col_size (c_shape c) [0] = d1 * 1
                   /\ row_size (c_shape c) [1] = d1 * 1 /\ col_size (c_shape c) [1] = d0 * 1.
  Proof. rewrite Hsh. repeat split; reflexivity. Qed.

  Lemma Forall_single (P : Z -> Prop) x : P x -> Forall P [x].
  Proof. intros H. constructor; [exact H|constructor]. Qed.

  Lemma pos_sincr s e st : st <> 0 -> negb (st <? 0) && true = true -> sincr (range_list s e st).
  Proof.
    intros Hst H. apply SS_lt_sincr. apply range_list_SS_lt. destruct (Z.ltb_spec st 0); [discriminate|lia].
  Qed.


  Lemma zat_bounds l d q : (forall x, In x l -> 0 <= x < d) -> 0 <= q < Z.of_nat (length l) -> 0 <= zat l q < d.
  Proof. intros H Hq. apply H. unfold zat. apply nth_In. lia. Qed.

  Lemma case0_SS ix y s0 e0 st0 s1 e1 st1 :
    let nix := [NSlice s0 e0 st0; NSlice s1 e1 st1] in
    normalize_index ix [d0;d1] = Ok nix -> all_full nix [d0;d1] = false -> nwf nix [d0;d1] ->
    yfacts y (out_shape (map to_r nix)) (src_of (map to_r nix)) ->
    post (out_shape (map to_r nix)) (src_of (map to_r nix)) (gcxs_getitem_nd V (gcxs_from_coo c [0]) ix).
  Proof.
    intros nix Hn Haf Hwf Hy. destruct Hwf as [Hst0 [Hr0 [Hst1 [Hr1 _]]]].
    pose proof Hy as [Hy_sh [Hy_fill [Hy_can [Hy_den Hy_ent]]]].
    change (map to_r nix) with [RSel (range_list s0 e0 st0); RSel (range_list s1 e1 st1)] in *.
    set (V0 := range_list s0 e0 st0) in *. set (V1 := range_list s1 e1 st1) in *.
    change (out_shape [RSel V0; RSel V1]) with [Z.of_nat (length V0); Z.of_nat (length V1)] in *.
    set (sh' := [Z.of_nat (length V0); Z.of_nat (length V1)]) in *. set (gsrc := src_of [RSel V0; RSel V1]) in *.
    destruct rc_sizes as [Er0 [Ec0 _]].
    assert (Hok' : shape_ok sh') by (repeat constructor; lia).
    rewrite (from_coo_gg 0 (or_introl eq_refl)). rewrite (f0_SS _ _ _ _ _ _ _ _ _ _ _ _ _ _ Hn Haf).
    rewrite <- (from_coo_gg 0 (or_introl eq_refl)). rewrite !flat1. fold V0 V1.
    assert (HRW : Forall (fun r => 0 <= r < row_size (c_shape c) [0]) V0) by (rewrite Er0; apply range_list_in_bounds; exact Hr0).
    assert (HCL : Forall (fun x => 0 <= x < col_size (c_shape c) [0]) V1) by (rewrite Ec0; apply range_list_in_bounds; exact Hr1).
    rewrite (tail_eval V c [0] Hc Hok2 (Hca2 0 (or_introl eq_refl)) Hnd2 V0 V1 _ HRW HCL (pos_sincr s1 e1 st1 Hst1)).
    2: { rewrite slice_len_len by assumption. fold V0. lia. }
    rewrite !slice_len_len by assumption. fold V0 V1. fold sh'. unfold dat, ind.
    assert (H1 : forall j, in_range sh' j ->
      0 <= hd 0 j < Z.of_nat (length V0) /\ 0 <= hd 0 (tl j) < Z.of_nat (length V1)
      /\ ckey sh' [0] j = hd 0 j * Z.of_nat (length V1) + hd 0 (tl j)
      /\ ckey (c_shape c) [0] (gsrc j) = zat V0 (hd 0 j) * col_size (c_shape c) [0] + zat V1 (hd 0 (tl j))).
    { intros j Hj. apply in_range2 in Hj. destruct Hj as [q0 [q1 [-> [Hq0 Hq1]]]]. cbn [hd tl].
      split; [exact Hq0|]. split; [exact Hq1|]. split.
      - change (ckey sh' [0] [q0; q1]) with (q0 * (Z.of_nat (length V1) * 1) + (q1 * 1 + 0)). ring.
      - rewrite Ec0, Hsh. change (gsrc [q0; q1]) with [zat V0 q0; zat V1 q1].
        change (ckey [d0; d1] [0] [zat V0 q0; zat V1 q1]) with (zat V0 q0 * (d1 * 1) + (zat V1 q1 * 1 + 0)). ring. }
    assert (H2 : forall m cc, 0 <= m < Z.of_nat (length V0) -> 0 <= cc < Z.of_nat (length V1) ->
      exists j, in_range sh' j /\ in_range (c_shape c) (gsrc j) /\ hd 0 j = m /\ hd 0 (tl j) = cc).
    { intros m cc Hm Hcc. exists [m; cc]. split; [simpl; lia|]. split; [|split; reflexivity].
      rewrite Hsh. change (gsrc [m; cc]) with [zat V0 m; zat V1 cc]. simpl.
      pose proof (zat_bounds V0 d0 m Hr0 Hm). pose proof (zat_bounds V1 d1 cc Hr1 Hcc). tauto. }
    match goal with |- post _ _ (Ok (GGArr ?r)) => assert (E : r = gcxs_from_coo y [0]) end.
    { apply (pat_nd V c [0] Hc (Hca2 0 (or_introl eq_refl)) V0 V1 sh' gsrc y Hy_can Hy_sh Hy_fill Hy_ent Hok' (ckey sh' [0])
               (br2 _ _ _ _ _ _ _ _ _ _ H1) (br3 _ _ _ _ _ _ _ _ _ _ H1 H2)).
      - simpl; lia.
      - reflexivity.
      - reflexivity.
      - unfold sh'. change (row_size _ [0]) with (Z.of_nat (length V0) * 1). lia.
      - unfold sh'. change (col_size _ [0]) with (Z.of_nat (length V1) * 1). lia. }
    rewrite E. apply post_from_coo; [exact Hy|exact Hok'|right; reflexivity].
  Qed.

  Lemma case1_SS ix y s0 e0 st0 s1 e1 st1 :
    let nix := [NSlice s0 e0 st0; NSlice s1 e1 st1] in
    normalize_index ix [d0;d1] = Ok nix -> all_full nix [d0;d1] = false -> nwf nix [d0;d1] ->
    yfacts y (out_shape (map to_r nix)) (src_of (map to_r nix)) ->
    post (out_shape (map to_r nix)) (src_of (map to_r nix)) (gcxs_getitem_nd V (gcxs_from_coo c [1]) ix).
  Proof.
    intros nix Hn Haf Hwf Hy. destruct Hwf as [Hst0 [Hr0 [Hst1 [Hr1 _]]]].
    pose proof Hy as [Hy_sh [Hy_fill [Hy_can [Hy_den Hy_ent]]]].
    change (map to_r nix) with [RSel (range_list s0 e0 st0); RSel (range_list s1 e1 st1)] in *.
    set (V0 := range_list s0 e0 st0) in *. set (V1 := range_list s1 e1 st1) in *.
    change (out_shape [RSel V0; RSel V1]) with [Z.of_nat (length V0); Z.of_nat (length V1)] in *.
    set (sh' := [Z.of_nat (length V0); Z.of_nat (length V1)]) in *. set (gsrc := src_of [RSel V0; RSel V1]) in *.
    destruct rc_sizes as [_ [_ [Er1 Ec1]]].
    assert (Hok' : shape_ok sh') by (repeat constructor; lia).
    rewrite (from_coo_gg 1 (or_intror eq_refl)). rewrite (f1_SS _ _ _ _ _ _ _ _ _ _ _ _ _ _ Hn Haf).
    rewrite <- (from_coo_gg 1 (or_intror eq_refl)). rewrite !flat1. fold V0 V1.
    assert (HRW : Forall (fun r => 0 <= r < row_size (c_shape c) [1]) V1) by (rewrite Er1; apply range_list_in_bounds; exact Hr1).
    assert (HCL : Forall (fun x => 0 <= x < col_size (c_shape c) [1]) V0) by (rewrite Ec1; apply range_list_in_bounds; exact Hr0).
    rewrite (tail_eval V c [1] Hc Hok2 (Hca2 1 (or_intror eq_refl)) Hnd2 V1 V0 _ HRW HCL (pos_sincr s0 e0 st0 Hst0)).
    2: { rewrite slice_len_len by assumption. fold V1. lia. }
    rewrite !slice_len_len by assumption. fold V0 V1. fold sh'. unfold dat, ind.
    assert (H1 : forall j, in_range sh' j ->
      0 <= hd 0 (tl j) < Z.of_nat (length V1) /\ 0 <= hd 0 j < Z.of_nat (length V0)
      /\ ckey sh' [1] j = hd 0 (tl j) * Z.of_nat (length V0) + hd 0 j
      /\ ckey (c_shape c) [1] (gsrc j) = zat V1 (hd 0 (tl j)) * col_size (c_shape c) [1] + zat V0 (hd 0 j)).
    { intros j Hj. apply in_range2 in Hj. destruct Hj as [q0 [q1 [-> [Hq0 Hq1]]]]. cbn [hd tl].
      split; [exact Hq1|]. split; [exact Hq0|]. split.
      - change (ckey sh' [1] [q0; q1]) with (q1 * (Z.of_nat (length V0) * 1) + (q0 * 1 + 0)). ring.
      - rewrite Ec1, Hsh. change (gsrc [q0; q1]) with [zat V0 q0; zat V1 q1].
        change (ckey [d0; d1] [1] [zat V0 q0; zat V1 q1]) with (zat V1 q1 * (d0 * 1) + (zat V0 q0 * 1 + 0)). ring. }
    assert (H2 : forall m cc, 0 <= m < Z.of_nat (length V1) -> 0 <= cc < Z.of_nat (length V0) ->
      exists j, in_range sh' j /\ in_range (c_shape c) (gsrc j) /\ hd 0 (tl j) = m /\ hd 0 j = cc).
    { intros m cc Hm Hcc. exists [cc; m]. split; [simpl; lia|]. split; [|split; reflexivity].
      rewrite Hsh. change (gsrc [cc; m]) with [zat V0 cc; zat V1 m]. simpl.
      pose proof (zat_bounds V0 d0 cc Hr0 Hcc). pose proof (zat_bounds V1 d1 m Hr1 Hm). tauto. }
    match goal with |- post _ _ (Ok (GGArr ?r)) => assert (E : r = gcxs_from_coo y [1]) end.
    { apply (pat_nd V c [1] Hc (Hca2 1 (or_intror eq_refl)) V1 V0 sh' gsrc y Hy_can Hy_sh Hy_fill Hy_ent Hok' (ckey sh' [1])
               (br2 _ _ _ _ _ _ _ _ _ _ H1) (br3 _ _ _ _ _ _ _ _ _ _ H1 H2)).
      - simpl; lia.
      - reflexivity.
      - reflexivity.
      - unfold sh'. change (row_size _ [1]) with (Z.of_nat (length V1) * 1). lia.
      - unfold sh'. change (col_size _ [1]) with (Z.of_nat (length V0) * 1). lia. }
    rewrite E. apply post_from_coo; [exact Hy|exact Hok'|right; reflexivity].
  Qed.

  Lemma sincr_single x : sincr [x].
  Proof. intros p q Hpq Hq. simpl in Hq. lia. Qed.

  Lemma case0_IS ix y i s e st :
    let nix := [NInt i; NSlice s e st] in
    normalize_index ix [d0;d1] = Ok nix -> all_full nix [d0;d1] = false -> nwf nix [d0;d1] ->
    yfacts y (out_shape (map to_r nix)) (src_of (map to_r nix)) ->
    post (out_shape (map to_r nix)) (src_of (map to_r nix)) (gcxs_getitem_nd V (gcxs_from_coo c [0]) ix).
  Proof.
    intros nix Hn Haf Hwf Hy. destruct Hwf as [Hi [Hst [Hr _]]].
    pose proof Hy as [Hy_sh [Hy_fill [Hy_can [Hy_den Hy_ent]]]].
    change (map to_r nix) with [RInt i; RSel (range_list s e st)] in *.
    set (W := range_list s e st) in *.
    change (out_shape [RInt i; RSel W]) with [Z.of_nat (length W)] in *.
    set (sh' := [Z.of_nat (length W)]) in *. set (gsrc := src_of [RInt i; RSel W]) in *.
    destruct rc_sizes as [Er [Ec _]].
    assert (Hok' : shape_ok sh') by (repeat constructor; lia).
    rewrite (from_coo_gg 0 (or_introl eq_refl)). rewrite (f0_IS _ _ _ _ _ _ _ _ _ _ _ _ Hn Haf).
    rewrite <- (from_coo_gg 0 (or_introl eq_refl)). rewrite !flat1. fold W.
    assert (HRW : Forall (fun r => 0 <= r < row_size (c_shape c) [0]) [i]) by (rewrite Er; apply Forall_single; lia).
    assert (HCL : Forall (fun x => 0 <= x < col_size (c_shape c) [0]) W) by (rewrite Ec; apply range_list_in_bounds; exact Hr).
    rewrite (tail_eval V c [0] Hc Hok2 (Hca2 0 (or_introl eq_refl)) Hnd2 [i] W _ HRW HCL (pos_sincr s e st Hst)).
    2: { reflexivity. }
    rewrite !slice_len_len by assumption. fold W. fold sh'. unfold dat, ind.
    assert (H1 : forall j, in_range sh' j ->
      0 <= 0 < Z.of_nat (length [i]) /\ 0 <= hd 0 j < Z.of_nat (length W)
      /\ hd 0 j = 0 * Z.of_nat (length W) + hd 0 j
      /\ ckey (c_shape c) [0] (gsrc j) = zat [i] 0 * col_size (c_shape c) [0] + zat W (hd 0 j)).
    { intros j Hj. apply in_range1 in Hj. destruct Hj as [q [-> Hq]]. cbn [hd tl].
      split; [simpl; lia|]. split; [exact Hq|]. split; [simpl; ring|].
      rewrite Ec, Hsh. change (gsrc [q]) with [i; zat W q]. change (zat [i] 0) with i.
      change (ckey [d0; d1] [0] [i; zat W q]) with (i * (d1 * 1) + (zat W q * 1 + 0)). ring. }
    assert (H2 : forall m cc, 0 <= m < Z.of_nat (length [i]) -> 0 <= cc < Z.of_nat (length W) ->
      exists j, in_range sh' j /\ in_range (c_shape c) (gsrc j) /\ 0 = m /\ hd 0 j = cc).
    { intros m cc Hm Hcc. exists [cc]. split; [simpl; lia|]. split; [|split; [simpl in Hm; lia|reflexivity]].
      rewrite Hsh. change (gsrc [cc]) with [i; zat W cc]. simpl. pose proof (zat_bounds W d1 cc Hr ltac:(lia)). tauto. }
    match goal with |- post _ _ (Ok (GGArr ?r)) => assert (E : r = gcxs_from_coo y [0]) end.
    { apply (pat_cols V veqb add c [0] Hc (Hca2 0 (or_introl eq_refl)) [i] W sh' gsrc y Hy_can Hy_sh Hy_fill Hy_ent (hd 0)
               (br2 _ _ _ _ _ _ _ _ (fun j => 0) (fun j => hd 0 j) H1) (br3 _ _ _ _ _ _ _ _ (fun j => 0) (fun j => hd 0 j) H1 H2)
               (Z.of_nat (length W)) i [0]); reflexivity. }
    rewrite E. apply post_from_coo; [exact Hy|exact Hok'|left; simpl; lia].
  Qed.

  Lemma case0_SI ix y i s e st :
    let nix := [NSlice s e st; NInt i] in
    normalize_index ix [d0;d1] = Ok nix -> all_full nix [d0;d1] = false -> nwf nix [d0;d1] ->
    yfacts y (out_shape (map to_r nix)) (src_of (map to_r nix)) ->
    post (out_shape (map to_r nix)) (src_of (map to_r nix)) (gcxs_getitem_nd V (gcxs_from_coo c [0]) ix).
  Proof.
    intros nix Hn Haf Hwf Hy. destruct Hwf as [Hst [Hr [Hi _]]].
    pose proof Hy as [Hy_sh [Hy_fill [Hy_can [Hy_den Hy_ent]]]].
    change (map to_r nix) with [RSel (range_list s e st); RInt i] in *.
    set (W := range_list s e st) in *.
    change (out_shape [RSel W; RInt i]) with [Z.of_nat (length W)] in *.
    set (sh' := [Z.of_nat (length W)]) in *. set (gsrc := src_of [RSel W; RInt i]) in *.
    destruct rc_sizes as [Er [Ec _]].
    assert (Hok' : shape_ok sh') by (repeat constructor; lia).
    rewrite (from_coo_gg 0 (or_introl eq_refl)). rewrite (f0_SI _ _ _ _ _ _ _ _ _ _ _ _ Hn Haf).
    rewrite <- (from_coo_gg 0 (or_introl eq_refl)). rewrite !flat1. fold W.
    assert (HRW : Forall (fun r => 0 <= r < row_size (c_shape c) [0]) W) by (rewrite Er; apply range_list_in_bounds; exact Hr).
    assert (HCL : Forall (fun x => 0 <= x < col_size (c_shape c) [0]) [i]) by (rewrite Ec; apply Forall_single; lia).
    rewrite (tail_eval V c [0] Hc Hok2 (Hca2 0 (or_introl eq_refl)) Hnd2 W [i] _ HRW HCL (fun _ => sincr_single i)).
    2: { reflexivity. }
    rewrite !slice_len_len by assumption. fold W. fold sh'. unfold dat, ind.
    assert (H1 : forall j, in_range sh' j ->
      0 <= hd 0 j < Z.of_nat (length W) /\ 0 <= 0 < Z.of_nat (length [i])
      /\ hd 0 j = hd 0 j * Z.of_nat (length [i]) + 0
      /\ ckey (c_shape c) [0] (gsrc j) = zat W (hd 0 j) * col_size (c_shape c) [0] + zat [i] 0).
    { intros j Hj. apply in_range1 in Hj. destruct Hj as [q [-> Hq]]. cbn [hd tl].
      split; [exact Hq|]. split; [simpl; lia|]. split; [simpl; ring|].
      rewrite Ec, Hsh. change (gsrc [q]) with [zat W q; i]. change (zat [i] 0) with i.
      change (ckey [d0; d1] [0] [zat W q; i]) with (zat W q * (d1 * 1) + (i * 1 + 0)). ring. }
    assert (H2 : forall m cc, 0 <= m < Z.of_nat (length W) -> 0 <= cc < Z.of_nat (length [i]) ->
      exists j, in_range sh' j /\ in_range (c_shape c) (gsrc j) /\ hd 0 j = m /\ 0 = cc).
    { intros m cc Hm Hcc. exists [m]. split; [simpl; lia|]. split; [|split; [reflexivity|simpl in Hcc; lia]].
      rewrite Hsh. change (gsrc [m]) with [zat W m; i]. simpl. pose proof (zat_bounds W d0 m Hr ltac:(lia)). tauto. }
    match goal with |- post _ _ (Ok (GGArr ?r)) => assert (E : r = gcxs_from_coo y [0]) end.
    { apply (pat_rows V veqb add c [0] Hc (Hca2 0 (or_introl eq_refl)) W [i] sh' gsrc y Hy_can Hy_sh Hy_fill Hy_ent (hd 0)
               (br2 _ _ _ _ _ _ _ _ (fun j => hd 0 j) (fun j => 0) H1) (br3 _ _ _ _ _ _ _ _ (fun j => hd 0 j) (fun j => 0) H1 H2)
               (Z.of_nat (length W)) i [0]); reflexivity. }
    rewrite E. apply post_from_coo; [exact Hy|exact Hok'|left; simpl; lia].
  Qed.

  Lemma case1_IS ix y i s e st :
    let nix := [NInt i; NSlice s e st] in
    normalize_index ix [d0;d1] = Ok nix -> all_full nix [d0;d1] = false -> nwf nix [d0;d1] ->
    yfacts y (out_shape (map to_r nix)) (src_of (map to_r nix)) ->
    post (out_shape (map to_r nix)) (src_of (map to_r nix)) (gcxs_getitem_nd V (gcxs_from_coo c [1]) ix).
  Proof.
    intros nix Hn Haf Hwf Hy. destruct Hwf as [Hi [Hst [Hr _]]].
    pose proof Hy as [Hy_sh [Hy_fill [Hy_can [Hy_den Hy_ent]]]].
    change (map to_r nix) with [RInt i; RSel (range_list s e st)] in *.
    set (W := range_list s e st) in *.
    change (out_shape [RInt i; RSel W]) with [Z.of_nat (length W)] in *.
    set (sh' := [Z.of_nat (length W)]) in *. set (gsrc := src_of [RInt i; RSel W]) in *.
    destruct rc_sizes as [_ [_ [Er Ec]]].
    assert (Hok' : shape_ok sh') by (repeat constructor; lia).
    rewrite (from_coo_gg 1 (or_intror eq_refl)). rewrite (f1_IS _ _ _ _ _ _ _ _ _ _ _ _ Hn Haf).
    rewrite <- (from_coo_gg 1 (or_intror eq_refl)). rewrite !flat1. fold W.
    assert (HRW : Forall (fun r => 0 <= r < row_size (c_shape c) [1]) W) by (rewrite Er; apply range_list_in_bounds; exact Hr).
    assert (HCL : Forall (fun x => 0 <= x < col_size (c_shape c) [1]) [i]) by (rewrite Ec; apply Forall_single; lia).
    rewrite (tail_eval V c [1] Hc Hok2 (Hca2 1 (or_intror eq_refl)) Hnd2 W [i] _ HRW HCL (fun _ => sincr_single i)).
    2: { reflexivity. }
    rewrite !slice_len_len by assumption. fold W. fold sh'. unfold dat, ind.
    assert (H1 : forall j, in_range sh' j ->
      0 <= hd 0 j < Z.of_nat (length W) /\ 0 <= 0 < Z.of_nat (length [i])
      /\ hd 0 j = hd 0 j * Z.of_nat (length [i]) + 0
      /\ ckey (c_shape c) [1] (gsrc j) = zat W (hd 0 j) * col_size (c_shape c) [1] + zat [i] 0).
    { intros j Hj. apply in_range1 in Hj. destruct Hj as [q [-> Hq]]. cbn [hd tl].
      split; [exact Hq|]. split; [simpl; lia|]. split; [simpl; ring|].
      rewrite Ec, Hsh. change (gsrc [q]) with [i; zat W q]. change (zat [i] 0) with i.
      change (ckey [d0; d1] [1] [i; zat W q]) with (zat W q * (d0 * 1) + (i * 1 + 0)). ring. }
    assert (H2 : forall m cc, 0 <= m < Z.of_nat (length W) -> 0 <= cc < Z.of_nat (length [i]) ->
      exists j, in_range sh' j /\ in_range (c_shape c) (gsrc j) /\ hd 0 j = m /\ 0 = cc).
    { intros m cc Hm Hcc. exists [m]. split; [simpl; lia|]. split; [|split; [reflexivity|simpl in Hcc; lia]].
      rewrite Hsh. change (gsrc [m]) with [i; zat W m]. simpl. pose proof (zat_bounds W d1 m Hr ltac:(lia)). tauto. }
    match goal with |- post _ _ (Ok (GGArr ?r)) => assert (E : r = gcxs_from_coo y [0]) end.
    { apply (pat_rows V veqb add c [1] Hc (Hca2 1 (or_intror eq_refl)) W [i] sh' gsrc y Hy_can Hy_sh Hy_fill Hy_ent (hd 0)
               (br2 _ _ _ _ _ _ _ _ (fun j => hd 0 j) (fun j => 0) H1) (br3 _ _ _ _ _ _ _ _ (fun j => hd 0 j) (fun j => 0) H1 H2)
               (Z.of_nat (length W)) i [0]); reflexivity. }
    rewrite E. apply post_from_coo; [exact Hy|exact Hok'|left; simpl; lia].
  Qed.

  Lemma case1_SI ix y i s e st :
    let nix := [NSlice s e st; NInt i] in
    normalize_index ix [d0;d1] = Ok nix -> all_full nix [d0;d1] = false -> nwf nix [d0;d1] ->
    yfacts y (out_shape (map to_r nix)) (src_of (map to_r nix)) ->
    post (out_shape (map to_r nix)) (src_of (map to_r nix)) (gcxs_getitem_nd V (gcxs_from_coo c [1]) ix).
  Proof.
    intros nix Hn Haf Hwf Hy. destruct Hwf as [Hst [Hr [Hi _]]].
    pose proof Hy as [Hy_sh [Hy_fill [Hy_can [Hy_den Hy_ent]]]].
    change (map to_r nix) with [RSel (range_list s e st); RInt i] in *.
    set (W := range_list s e st) in *.
    change (out_shape [RSel W; RInt i]) with [Z.of_nat (length W)] in *.
    set (sh' := [Z.of_nat (length W)]) in *. set (gsrc := src_of [RSel W; RInt i]) in *.
    destruct rc_sizes as [_ [_ [Er Ec]]].
    assert (Hok' : shape_ok sh') by (repeat constructor; lia).
    rewrite (from_coo_gg 1 (or_intror eq_refl)). rewrite (f1_SI _ _ _ _ _ _ _ _ _ _ _ _ Hn Haf).
    rewrite <- (from_coo_gg 1 (or_intror eq_refl)). rewrite !flat1. fold W.
    assert (HRW : Forall (fun r => 0 <= r < row_size (c_shape c) [1]) [i]) by (rewrite Er; apply Forall_single; lia).
    assert (HCL : Forall (fun x => 0 <= x < col_size (c_shape c) [1]) W) by (rewrite Ec; apply range_list_in_bounds; exact Hr).
    rewrite (tail_eval V c [1] Hc Hok2 (Hca2 1 (or_intror eq_refl)) Hnd2 [i] W _ HRW HCL (pos_sincr s e st Hst)).
    2: { reflexivity. }
    rewrite !slice_len_len by assumption. fold W. fold sh'. unfold dat, ind.
    assert (H1 : forall j, in_range sh' j ->
      0 <= 0 < Z.of_nat (length [i]) /\ 0 <= hd 0 j < Z.of_nat (length W)
      /\ hd 0 j = 0 * Z.of_nat (length W) + hd 0 j
      /\ ckey (c_shape c) [1] (gsrc j) = zat [i] 0 * col_size (c_shape c) [1] + zat W (hd 0 j)).
    { intros j Hj. apply in_range1 in Hj. destruct Hj as [q [-> Hq]]. cbn [hd tl].
      split; [simpl; lia|]. split; [exact Hq|]. split; [simpl; ring|].
      rewrite Ec, Hsh. change (gsrc [q]) with [zat W q; i]. change (zat [i] 0) with i.
      change (ckey [d0; d1] [1] [zat W q; i]) with (i * (d0 * 1) + (zat W q * 1 + 0)). ring. }
    assert (H2 : forall m cc, 0 <= m < Z.of_nat (length [i]) -> 0 <= cc < Z.of_nat (length W) ->
      exists j, in_range sh' j /\ in_range (c_shape c) (gsrc j) /\ 0 = m /\ hd 0 j = cc).
    { intros m cc Hm Hcc. exists [cc]. split; [simpl; lia|]. split; [|split; [simpl in Hm; lia|reflexivity]].
      rewrite Hsh. change (gsrc [cc]) with [zat W cc; i]. simpl. pose proof (zat_bounds W d0 cc Hr ltac:(lia)). tauto. }
    match goal with |- post _ _ (Ok (GGArr ?r)) => assert (E : r = gcxs_from_coo y [0]) end.
    { apply (pat_cols V veqb add c [1] Hc (Hca2 1 (or_intror eq_refl)) [i] W sh' gsrc y Hy_can Hy_sh Hy_fill Hy_ent (hd 0)
               (br2 _ _ _ _ _ _ _ _ (fun j => 0) (fun j => hd 0 j) H1) (br3 _ _ _ _ _ _ _ _ (fun j => 0) (fun j => hd 0 j) H1 H2)
               (Z.of_nat (length W)) i [0]); reflexivity. }
    rewrite E. apply post_from_coo; [exact Hy|exact Hok'|left; simpl; lia].
  Qed.

  Lemma case_II a ix i j : a = 0 \/ a = 1 ->
    normalize_index ix [d0;d1] = Ok [NInt i; NInt j] -> nwf [NInt i; NInt j] [d0;d1] ->
    gcxs_getitem_nd V (gcxs_from_coo c [a]) ix = Ok (GGScalar (den c [i; j])).
  Proof.
    intros Ha Hn [Hi [Hj _]]. rewrite (from_coo_gg a Ha). rewrite (f_II _ _ _ _ _ _ _ _ _ _ _ Hn). cbv zeta. f_equal. f_equal.
    assert (Hin : in_range (c_shape c) [i; j]) by (rewrite Hsh; simpl; tauto).
    pose proof (single_element_den V c [a] Hc Hok2 (Hca2 a Ha) [i; j] Hin) as E.
    rewrite Hsh in E. rewrite Hsh. destruct Ha; subst a; exact E.
  Qed.

  Definition post' (sh' : shape) (gsrc : idx -> idx) (r : res (ggres V)) : Prop :=
    match r with
    | Ok (GGArr g') => g_shape g' = sh' /\ g_fill g' = c_fill c /\ gcxs_wfb g' = true
                       /\ forall j, in_range sh' j -> gden g' j = den c (gsrc j)
    | Ok (GGScalar v) => sh' = [] /\ v = den c (gsrc [])
    | Raise _ => False
    end.

  Lemma post_post' sh' gsrc r : post sh' gsrc r -> post' sh' gsrc r.
  Proof. destruct r as [[v|g']|e]; simpl; tauto. Qed.

End TwoD.

(* ================================================================ small concrete arrays for the examples *)
Definition rx_c2 : coo Z := mkCOO [2; 3] [[0; 1]; [1; 0]; [1; 2]] [7; 5; 9] 0.
Definition rx_c3 : coo Z := mkCOO [2; 2; 2] [[0; 0; 1]; [0; 1; 0]; [1; 1; 1]] [7; 5; 9] 0.
Definition rx_full := ISlice None None None.
Definition rx_get (g : gcxs Z) (ix : index) : res (ggres Z) := gcxs_getitem Z Z.eqb Z.add (fun _ => 0%nat) g ix.

