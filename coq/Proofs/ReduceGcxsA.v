(* Proofs/ReduceGcxsA.v — C03 x C05: the GCXS reduction path (change_compressed_axes + index-pointer arithmetic) is tied
   to the COO reduction core by Proofs/ReduceIndptrP.gcxs_recompress_eq_proof for arrays of the form _from_coo c ca with c
   canonical.  C05's surjectivity result (Proofs/ConvertU.gcxs_image) says every well-formed GCXS record of ndim >= 2 is
   of that form with c = tocoo(); the theorem below therefore speaks about an arbitrary well-formed GCXS array. *)
From Coq Require Import ZArith List Bool Lia.
From Verif Require Import Py PyReduce S_reduce Shape COO COOP GCXS Convert ConvertL ConvertM ConvertG ConvertP ConvertU.
From Verif Require Import NpReduce Reduce ReduceExt ReduceGcxs ReduceLemmas ReduceKernelP ReduceP ReduceGcxsP ReduceExtP ReduceIndptrP.
Import ListNotations.
Open Scope Z_scope.

Section Any.
  Variable V : Type.
  Variable veqb : V -> V -> bool.
  Variable add : V -> V -> V.

  Theorem gcxs_recompress_eq_any_proof (op : V -> V -> V) (cast : V -> V) (g : gcxs V) (axes : list Z) :
    gcxs_wfb g = true -> (2 <= length (g_shape g))%nat ->
    let n := Reduce.zlen (g_shape g) in
    caxes_okb n (kept_axes n axes) = true ->
    gcxs_recompress_calc V op cast g axes =
      (k <- coo_reduce_calc V op cast (Some (kept_axes n (kept_axes n axes))) (gcxs_tocoo veqb add g) ;;
       Ok (k_data V k, k_counts V k, map (fun i => nth (Z.to_nat i) (k_rows V k) 0) (k_inv V k), k_ncols V k)).
  Proof.
    intros Hwf Hnd n Hkept.
    assert (Hs : gcxs_strictb V g = true).
    { unfold gcxs_strictb. rewrite Hwf. apply Nat.leb_le in Hnd. rewrite Hnd. reflexivity. }
    destruct (gcxs_image V g Hs) as [c [Hc [Hsh [Hf [Hok [Hax Heq]]]]]].
    assert (Ht : gcxs_tocoo veqb add g = c).
    { rewrite <- Heq at 1. apply tocoo_from_coo_proof; [exact Hc|rewrite Hsh; exact Hok|rewrite Hsh; exact Hax]. }
    rewrite Ht. destruct Hax as [Hlt|Hca]; [lia|].
    subst n. rewrite <- Hsh in *. rewrite <- Heq at 1.
    apply (gcxs_recompress_eq_proof V op cast c (g_caxes g) axes Hc Hok Hnd Hca Hkept).
  Qed.
End Any.
