(* Proofs/ConvertG.v — C05, part 2: axis permutations, the hand-written ravel/unravel kernels, and
   COO <-> GCXS: _from_coo gives a well-formed GCXS with the same dense meaning, tocoo inverts it,
   change_compressed_axes agrees with _from_coo. *)
From Coq Require Import ZArith List Bool Lia Sorting.Sorted Sorting.Permutation.
From Verif Require Import Py Shape COO GCXS COOP Convert ConvertL ConvertM.
Import ListNotations.
Open Scope Z_scope.

(* ------------------------------------------------------------------ booleans of GCXS.v *)
Lemma mem_z_In x l : mem_z x l = true <-> In x l.
Proof.
  unfold mem_z. rewrite existsb_exists. split.
  - intros [y [Hy E]]. apply Z.eqb_eq in E. subst; assumption.
  - intros H. exists x. split; [assumption|apply Z.eqb_refl].
Qed.

Lemma NoDupb_NoDup l : NoDupb l = true <-> NoDup l.
Proof.
  induction l as [|a r IH]; simpl.
  - split; [constructor|reflexivity].
  - rewrite andb_true_iff, negb_true_iff, IH. split.
    + intros [Hm Hn]. constructor; [|assumption]. intros Hin. apply mem_z_In in Hin. congruence.
    + intros H. inversion H; subst. split; [|assumption].
      destruct (mem_z a r) eqn:E; [apply mem_z_In in E; contradiction|reflexivity].
Qed.

Lemma zrange_NoDup m : NoDup (zrange m).
Proof.
  unfold zrange. apply FinFun.Injective_map_NoDup; [intros a b; apply Nat2Z.inj|apply seq_NoDup].
Qed.

Lemma zrange_length m : length (zrange m) = Z.to_nat m.
Proof. unfold zrange. rewrite map_length, seq_length. reflexivity. Qed.

Lemma NoDup_app' {A} (l1 l2 : list A) :
  NoDup l1 -> NoDup l2 -> (forall x, In x l1 -> ~ In x l2) -> NoDup (l1 ++ l2).
Proof.
  induction l1 as [|a l1 IH]; simpl; intros H1 H2 H; [assumption|].
  inversion H1; subst. constructor.
  - rewrite in_app_iff. intros [?|?]; [contradiction|]. eapply H; eauto.
  - apply IH; auto.
Qed.

(* ------------------------------------------------------------------ axis orders are permutations *)
Definition perm_of (n : nat) (ord : list Z) : Prop := Permutation ord (zrange (Z.of_nat n)).

Lemma caxes_okb_spec ndim ca :
  caxes_okb ndim ca = true ->
  ca <> [] /\ Z.of_nat (length ca) < ndim /\ NoDup ca /\ (forall a, In a ca -> 0 <= a < ndim).
Proof.
  unfold caxes_okb. rewrite !andb_true_iff, negb_true_iff, Z.ltb_lt, NoDupb_NoDup, forallb_forall.
  intros [[[H1 H2] H3] H4]. repeat split; auto.
  - intros ->. discriminate.
  - specialize (H4 _ H). lia.
  - specialize (H4 _ H). lia.
Qed.

Lemma axis_order_perm n ca :
  caxes_okb (Z.of_nat n) ca = true -> perm_of n (axis_order (Z.of_nat n) ca).
Proof.
  intros H. apply caxes_okb_spec in H. destruct H as [_ [_ [Hnd Hr]]].
  unfold perm_of, axis_order. apply NoDup_Permutation.
  - apply NoDup_app'; [assumption|apply NoDup_filter, zrange_NoDup|].
    intros x Hx Hf. apply filter_In in Hf. destruct Hf as [_ Hf].
    apply negb_true_iff in Hf. apply mem_z_In in Hx. congruence.
  - apply zrange_NoDup.
  - intros a. rewrite in_app_iff, filter_In, zrange_In, negb_true_iff. split.
    + intros [Ha|[Ha _]]; auto.
    + intros Ha. destruct (mem_z a ca) eqn:E; [left; apply mem_z_In; exact E|right; auto].
Qed.

(* ------------------------------------------------------------------ gather / unpermute / inv_perm *)
Lemma znth_cons_S {A} (x : A) l k d : 0 <= k -> znth (x :: l) (k + 1) d = znth l k d.
Proof. intros H. unfold znth. replace (Z.to_nat (k + 1)) with (S (Z.to_nat k)) by lia. reflexivity. Qed.

Lemma nth_in_range sh : forall ix k,
  in_range sh ix -> (k < length sh)%nat -> 0 <= nth k ix 0 < nth k sh 0.
Proof.
  induction sh as [|d sh IH]; intros [|i ix] k H Hk; simpl in *; try tauto; try lia.
  destruct H as [Hi H]. destruct k; [assumption|]. apply IH; [assumption|lia].
Qed.

Lemma gather_in_range sh ix axes :
  in_range sh ix -> (forall a, In a axes -> 0 <= a < Z.of_nat (length sh)) ->
  in_range (gather sh axes) (gather ix axes).
Proof.
  intros Hix. induction axes as [|a axes IH]; intros Ha; simpl; [exact I|]. split.
  - unfold znth. apply nth_in_range; [assumption|]. specialize (Ha a (or_introl eq_refl)). lia.
  - apply IH. intros; apply Ha; right; assumption.
Qed.

Lemma gather_length t axes : length (gather t axes) = length axes.
Proof. unfold gather. apply map_length. Qed.

Lemma map_nth_seq {A} (t : list A) d : map (fun k => nth k t d) (seq 0 (length t)) = t.
Proof.
  induction t as [|x t IH]; [reflexivity|]. simpl. f_equal.
  rewrite <- seq_shift, map_map. exact IH.
Qed.

Lemma gather_zrange t : gather t (zrange (Z.of_nat (length t))) = t.
Proof.
  unfold gather, zrange, znth. rewrite Nat2Z.id, map_map.
  erewrite map_ext; [apply map_nth_seq|]. intros k. simpl. rewrite Nat2Z.id. reflexivity.
Qed.

Lemma index_of_nonneg a l : 0 <= index_of a l.
Proof. induction l as [|x r IH]; simpl; [lia|]. destruct (x =? a); lia. Qed.

Lemma znth_index_of {A} (f : Z -> A) a ord d :
  In a ord -> znth (map f ord) (index_of a ord) d = f a.
Proof.
  induction ord as [|x r IH]; simpl; [tauto|]. intros H.
  destruct (Z.eqb_spec x a) as [->|Hne]; [reflexivity|].
  destruct H as [H|H]; [congruence|].
  rewrite Z.add_comm, znth_cons_S by apply index_of_nonneg. apply IH. exact H.
Qed.

Lemma gather_inv_perm n ord t :
  perm_of n ord -> length t = n -> gather (gather t ord) (inv_perm ord) = t.
Proof.
  intros Hp Hl. unfold inv_perm.
  assert (Hlen : length ord = n) by (apply Permutation_length in Hp; rewrite zrange_length in Hp; lia).
  rewrite Hlen. transitivity (gather t (zrange (Z.of_nat n))); [|subst n; apply gather_zrange].
  unfold gather at 1. rewrite map_map. unfold gather at 2.
  apply map_ext_in. intros a Ha. unfold gather. apply (znth_index_of (fun a => znth t a 0)).
  eapply Permutation_in; [apply Permutation_sym; exact Hp|exact Ha].
Qed.

Lemma find_combine_map {A} (f : Z -> A) a ord :
  In a ord -> find (fun p => fst p =? a) (combine ord (map f ord)) = Some (a, f a).
Proof.
  induction ord as [|x r IH]; simpl; [tauto|]. intros H.
  destruct (Z.eqb_spec x a) as [->|Hne]; [reflexivity|]. destruct H; [congruence|auto].
Qed.

Lemma unpermute_gather n ord t :
  perm_of n ord -> length t = n -> unpermute ord (gather t ord) = t.
Proof.
  intros Hp Hl. unfold unpermute.
  assert (Hlen : length ord = n) by (apply Permutation_length in Hp; rewrite zrange_length in Hp; lia).
  rewrite Hlen. transitivity (gather t (zrange (Z.of_nat n))); [|subst n; apply gather_zrange].
  unfold gather at 2.
  apply map_ext_in. intros a Ha. unfold gather. rewrite (find_combine_map (fun a => znth t a 0)); [reflexivity|].
  eapply Permutation_in; [apply Permutation_sym; exact Hp|exact Ha].
Qed.

Lemma perm_of_range n ord a : perm_of n ord -> In a ord -> 0 <= a < Z.of_nat n.
Proof. intros Hp Ha. apply zrange_In. eapply Permutation_in; eauto. Qed.

Lemma perm_of_length n ord : perm_of n ord -> length ord = n.
Proof. intros Hp. apply Permutation_length in Hp. rewrite zrange_length in Hp. lia. Qed.

(* ------------------------------------------------------------------ sizes *)
Lemma size_app l1 l2 : size (l1 ++ l2) = size l1 * size l2.
Proof. induction l1 as [|d l1 IH]; simpl; [lia|]. rewrite IH. lia. Qed.

Lemma shape_ok_gather sh axes : shape_ok sh -> shape_ok (gather sh axes).
Proof.
  intros Hok. unfold shape_ok, gather. rewrite Forall_map. apply Forall_forall. intros a _.
  unfold znth. destruct (nth_in_or_default (Z.to_nat a) sh 0) as [Hin|E]; [|rewrite E; lia].
  unfold shape_ok in Hok. rewrite Forall_forall in Hok. apply Hok. exact Hin.
Qed.

(* ------------------------------------------------------------------ the unravel/ravel kernels = Shape.unravel/ravel *)
Definition strided_step (n : Z) (d : Z) (acc : idx * Z) : idx * Z :=
  (((n / snd acc) mod d) :: fst acc, snd acc * d).

Lemma unravel_strided_unfold sh n : unravel_strided sh n = fst (fold_right (strided_step n) ([], 1) sh).
Proof. reflexivity. Qed.

Lemma strided_snd sh n : snd (fold_right (strided_step n) ([], 1) sh) = size sh.
Proof. induction sh as [|d sh IH]; simpl; [reflexivity|]. rewrite IH. lia. Qed.

Lemma unravel_strided_cons d sh n :
  unravel_strided (d :: sh) n = ((n / size sh) mod d) :: unravel_strided sh n.
Proof. rewrite !unravel_strided_unfold. simpl. rewrite strided_snd. reflexivity. Qed.

Lemma unravel_strided_nil n : unravel_strided [] n = [].
Proof. reflexivity. Qed.

Lemma shape_pos_of_size sh : shape_ok sh -> 0 < size sh -> Forall (fun d => 0 < d) sh.
Proof.
  induction 1 as [|d sh Hd Hok IH]; simpl; intros Hs; [constructor|].
  pose proof (size_nonneg sh Hok). constructor; [nia|]. apply IH. nia.
Qed.

(* periodicity: only n mod size sh matters *)
Lemma unravel_strided_mod sh : forall n,
  Forall (fun d => 0 < d) sh -> unravel_strided sh (n mod size sh) = unravel_strided sh n.
Proof.
  induction sh as [|d sh IH]; intros n Hpos; [reflexivity|].
  inversion Hpos as [|? ? Hd Hpos']; subst.
  assert (HS : 0 < size sh).
  { clear -Hpos'. induction Hpos'; simpl; [lia|nia]. }
  rewrite !unravel_strided_cons. simpl size.
  replace (d * size sh) with (size sh * d) by lia.
  rewrite (Z.rem_mul_r n (size sh) d) by lia.
  set (S := size sh) in *. set (k := (n / S) mod d).
  f_equal.
  - replace (n mod S + S * k) with (n mod S + k * S) by lia.
    rewrite Z.div_add by lia. rewrite (Z.div_small (n mod S) S) by (apply Z.mod_pos_bound; lia).
    simpl. unfold k. apply Z.mod_mod. lia.
  - rewrite <- (IH (n mod S + S * k)) by assumption. rewrite <- (IH n) by assumption. f_equal.
    fold S. replace (n mod S + S * k) with (n mod S + k * S) by lia.
    rewrite Z.mod_add by lia. apply Z.mod_mod. lia.
Qed.

Lemma unravel_strided_spec sh : forall n,
  shape_ok sh -> 0 <= n < size sh -> unravel_strided sh n = unravel sh n.
Proof.
  induction sh as [|d sh IH]; intros n Hok Hn; [reflexivity|].
  inversion Hok as [|? ? Hd Hok']; subst. simpl in Hn.
  pose proof (size_nonneg sh Hok') as HS0.
  assert (HS : 0 < size sh) by nia. assert (Hd' : 0 < d) by nia.
  rewrite unravel_strided_cons. simpl unravel. f_equal.
  - apply Z.mod_small. split; [apply Z.div_pos; lia|]. apply Z.div_lt_upper_bound; lia.
  - rewrite <- unravel_strided_mod by (apply shape_pos_of_size; assumption).
    apply IH; [assumption|]. apply Z.mod_pos_bound. lia.
Qed.

Lemma unravel_zero sh : unravel sh 0 = repeat 0 (length sh).
Proof.
  induction sh as [|d sh IH]; [reflexivity|]. simpl. rewrite Zdiv_0_l, Zmod_0_l, IH. reflexivity.
Qed.

Lemma unravel_k_go_spec t : forall d n,
  shape_ok t -> 0 <= n < d * size t -> unravel_k_go t n = unravel (d :: t) n.
Proof.
  induction t as [|x t IH]; intros d n Hok Hn.
  - simpl. rewrite Z.div_1_r. reflexivity.
  - inversion Hok as [|? ? Hx Hok']; subst.
    change (unravel_k_go (x :: t) n) with
      (if 0 <? n then let cur := size (x :: t) in let q := n / cur in q :: unravel_k_go t (n - q * cur)
       else repeat 0 (length (x :: t)) ++ [n]).
    change (unravel (d :: x :: t) n) with (n / size (x :: t) :: unravel (x :: t) (n mod size (x :: t))).
    destruct (Z.ltb_spec 0 n).
    + cbv zeta. f_equal.
      pose proof (size_nonneg (x :: t) Hok) as HS0.
      assert (HS : 0 < size (x :: t)).
      { destruct (Z.eq_dec (size (x :: t)) 0) as [E|E]; [rewrite E in Hn; lia|lia]. }
      replace (n - n / size (x :: t) * size (x :: t)) with (n mod size (x :: t))
        by (rewrite Z.mod_eq by lia; lia).
      apply IH; [assumption|]. simpl size. simpl size in HS. apply Z.mod_pos_bound. lia.
    + assert (n = 0) by lia. subst n. rewrite Zdiv_0_l, Zmod_0_l.
      rewrite unravel_zero. simpl length.
      change (repeat 0 (S (length t))) with (0 :: repeat 0 (length t)). simpl. f_equal.
      rewrite <- repeat_cons. reflexivity.
Qed.

Lemma unravel_k_spec sh n :
  sh <> [] -> shape_ok sh -> 0 <= n < size sh -> unravel_k n sh = unravel sh n.
Proof.
  destruct sh as [|d t]; [congruence|]. intros _ Hok Hn. inversion Hok; subst.
  apply unravel_k_go_spec; assumption.
Qed.

Lemma ravel_k_go_spec : forall arr sh total,
  arr <> [] -> length arr = length sh -> ravel_k_go arr (tl sh) total = total + ravel sh arr.
Proof.
  induction arr as [|a arr IH]; intros sh total Hne Hl; [congruence|].
  destruct sh as [|d t]; [discriminate|]. destruct arr as [|a2 arr'].
  - destruct t; [|discriminate]. simpl. lia.
  - destruct t as [|d2 t']; [discriminate|].
    change (ravel_k_go (a :: a2 :: arr') (tl (d :: d2 :: t')) total)
      with (ravel_k_go (a2 :: arr') (tl (d2 :: t')) (total + a * size (d2 :: t'))).
    rewrite IH; [|discriminate|simpl in *; lia].
    change (ravel (d :: d2 :: t') (a :: a2 :: arr')) with (a * size (d2 :: t') + ravel (d2 :: t') (a2 :: arr')).
    lia.
Qed.

Lemma ravel_k_spec arr sh : arr <> [] -> length arr = length sh -> ravel_k arr sh = ravel sh arr.
Proof. intros. unfold ravel_k. rewrite ravel_k_go_spec by assumption. lia. Qed.

(* the custom kernels are Shape.unravel / Shape.ravel on their domain (DESIGN: unravel_kernel_spec) *)
Theorem unravel_kernel_spec_proof sh n ix :
  sh <> [] -> shape_ok sh ->
  (0 <= n < size sh -> unravel_k n sh = unravel sh n /\ unravel_strided sh n = unravel sh n)
  /\ (in_range sh ix -> ravel_k ix sh = ravel sh ix).
Proof.
  intros Hne Hok. split.
  - intros Hn. split; [apply unravel_k_spec; assumption|apply unravel_strided_spec; assumption].
  - intros Hix. apply ravel_k_spec; [|apply in_range_length; assumption].
    destruct sh; [congruence|]. destruct ix; simpl in Hix; [tauto|discriminate].
Qed.

(* the 2-d compressed view *)
Lemma unravel_strided_2 rs cs l :
  unravel_strided [rs; cs] l = [(l / cs) mod rs; l mod cs].
Proof.
  rewrite !unravel_strided_cons, unravel_strided_nil. simpl size.
  rewrite Z.mul_1_r, Z.div_1_r. reflexivity.
Qed.

Lemma ravel_2 rs cs r c : ravel [rs; cs] [r; c] = r * cs + c.
Proof. simpl. lia. Qed.

Lemma div_mod_2d rs cs l :
  0 <= l < rs * cs -> 0 <= rs -> 0 <= cs ->
  0 < cs /\ (l / cs) mod rs = l / cs /\ 0 <= l / cs < rs /\ 0 <= l mod cs < cs /\ l / cs * cs + l mod cs = l.
Proof.
  intros Hl Hr Hc. assert (0 < cs) by nia. assert (0 < rs) by nia.
  assert (0 <= l / cs < rs).
  { split; [apply Z.div_pos; lia|]. apply Z.div_lt_upper_bound; lia. }
  repeat split; try lia.
  - apply Z.mod_small. lia.
  - apply Z.mod_pos_bound; lia.
  - apply Z.mod_pos_bound; lia.
  - pose proof (Z.div_mod l cs). lia.
Qed.

Lemma znth_0 {A} (x : A) l d : znth (x :: l) 0 d = x.
Proof. reflexivity. Qed.
Lemma znth_1 {A} (x y : A) l d : znth (x :: y :: l) 1 d = y.
Proof. reflexivity. Qed.

Lemma NoDup_map_in {A B} (f : A -> B) l :
  (forall x y, In x l -> In y l -> f x = f y -> x = y) -> NoDup l -> NoDup (map f l).
Proof.
  intros Hinj Hnd. induction Hnd as [|a l Ha Hnd IH]; simpl; constructor.
  - intros Hin. apply in_map_iff in Hin. destruct Hin as [y [Hy Hin]].
    assert (y = a) by (apply Hinj; simpl; auto). subst. contradiction.
  - apply IH. intros; apply Hinj; simpl; auto.
Qed.

(* ------------------------------------------------------------------ keys under a choice of compressed axes *)
Definition ckey (sh : shape) (ca : list Z) (ix : idx) : Z :=
  ravel (reordered_shape sh ca) (gather ix (axis_order (Z.of_nat (length sh)) ca)).

Definition unkey (sh : shape) (ca : list Z) (l : Z) : idx :=
  unpermute (axis_order (Z.of_nat (length sh)) ca) (unravel (reordered_shape sh ca) l).

Lemma reordered_shape_gather sh ca :
  reordered_shape sh ca = gather sh (axis_order (Z.of_nat (length sh)) ca).
Proof. reflexivity. Qed.

Section Keys.
  Variable sh : shape.
  Variable ca : list Z.
  Hypothesis Hok : shape_ok sh.
  Hypothesis Hca : caxes_okb (Z.of_nat (length sh)) ca = true.

  Let ord := axis_order (Z.of_nat (length sh)) ca.
  Let rsh := reordered_shape sh ca.

  Lemma ord_perm : perm_of (length sh) ord.
  Proof. apply axis_order_perm. exact Hca. Qed.

  Lemma rsh_ok : shape_ok rsh.
  Proof. unfold rsh. rewrite reordered_shape_gather. apply shape_ok_gather. exact Hok. Qed.

  Lemma rsh_length : length rsh = length sh.
  Proof. unfold rsh. rewrite reordered_shape_gather, gather_length. apply perm_of_length, ord_perm. Qed.

  Lemma gather_ord_in_range ix : in_range sh ix -> in_range rsh (gather ix ord).
  Proof.
    intros H. unfold rsh. rewrite reordered_shape_gather. apply gather_in_range; [assumption|].
    intros a Ha. eapply perm_of_range; [apply ord_perm|exact Ha].
  Qed.

  Lemma size_rsh : size rsh = row_size sh ca * col_size sh ca.
  Proof.
    unfold row_size, col_size. fold rsh. unfold rsh, reordered_shape, axis_order.
    rewrite map_app, size_app. f_equal.
    rewrite skipn_app, skipn_all2 by (rewrite map_length; lia).
    rewrite map_length, Nat.sub_diag. reflexivity.
  Qed.

  Lemma row_size_nonneg : 0 <= row_size sh ca.
  Proof.
    unfold row_size. apply size_nonneg. fold (gather sh ca). apply shape_ok_gather. exact Hok.
  Qed.

  Lemma col_size_nonneg : 0 <= col_size sh ca.
  Proof.
    unfold col_size. apply size_nonneg. fold rsh.
    pose proof rsh_ok as H. unfold shape_ok in *. rewrite <- (firstn_skipn (length ca) rsh) in H.
    apply Forall_app in H. tauto.
  Qed.

  Lemma ckey_bounds ix : in_range sh ix -> 0 <= ckey sh ca ix < row_size sh ca * col_size sh ca.
  Proof.
    intros H. rewrite <- size_rsh. apply ravel_bounds. apply gather_ord_in_range. exact H.
  Qed.

  Lemma unkey_ckey ix : in_range sh ix -> unkey sh ca (ckey sh ca ix) = ix.
  Proof.
    intros H. unfold unkey, ckey. fold ord rsh.
    rewrite unravel_ravel by (apply gather_ord_in_range; exact H).
    apply (unpermute_gather (length sh)); [apply ord_perm|apply in_range_length; exact H].
  Qed.

  Lemma ckey_inj ix iy : in_range sh ix -> in_range sh iy -> ckey sh ca ix = ckey sh ca iy -> ix = iy.
  Proof. intros Hx Hy E. rewrite <- (unkey_ckey ix Hx), <- (unkey_ckey iy Hy), E. reflexivity. Qed.
End Keys.

Lemma SS_map_inv {A B} (R : B -> B -> Prop) (f : A -> B) l :
  StronglySorted R (map f l) -> StronglySorted (fun a b => R (f a) (f b)) l.
Proof.
  induction l as [|x l IH]; simpl; intros H; constructor; inversion H; subst; auto.
  rewrite Forall_map in *. assumption.
Qed.

Lemma combine_map_map {A B C} (f : A -> B) (g : A -> C) l :
  combine (map f l) (map g l) = map (fun x => (f x, g x)) l.
Proof. induction l; simpl; congruence. Qed.

(* ------------------------------------------------------------------ den is invariant under reordering of the entries *)
Section Lookup.
  Variable V : Type.

  Lemma lookup_perm (es es' : list (idx * V)) ix :
    NoDup (map fst es) -> Permutation es es' -> lookup es ix = lookup es' ix.
  Proof.
    intros Hnd Hp.
    assert (Hnd' : NoDup (map fst es')) by (eapply Permutation_NoDup; [apply Permutation_map; exact Hp|exact Hnd]).
    destruct (lookup es ix) as [v|] eqn:E.
    - apply (lookup_In V _ _ _ Hnd) in E. symmetry. apply (lookup_In V _ _ _ Hnd').
      eapply Permutation_in; eauto.
    - destruct (lookup es' ix) as [w|] eqn:E'; [|reflexivity].
      apply (lookup_In V _ _ _ Hnd') in E'. apply Permutation_sym in Hp.
      apply (Permutation_in _ Hp) in E'. apply (lookup_In V _ _ _ Hnd) in E'. congruence.
  Qed.
End Lookup.

Section NdHelpers.
  Variable V : Type.

  Lemma gcxs_wfb_nd_intro sh ca (data : list V) indices indptr fill :
    (2 <= length sh)%nat ->
    forallb (fun d => 0 <=? d) sh = true ->
    (length indices =? length data)%nat = true ->
    negb (match ca with [] => true | _ => false end) = true ->
    forallb (fun a => (0 <=? a) && (a <? Z.of_nat (length sh))) ca = true ->
    (Z.of_nat (length ca) <? Z.of_nat (length sh)) = true ->
    NoDupb ca = true ->
    (Z.of_nat (length indptr) =? row_size sh ca + 1) = true ->
    (znth indptr 0 (-1) =? 0) = true ->
    (znth indptr (row_size sh ca) (-1) =? Z.of_nat (length data)) = true ->
    nondecreasing indptr = true ->
    forallb (fun i => (0 <=? i) && (i <? col_size sh ca)) indices = true ->
    forallb strictly_increasing (rows_of indices indptr) = true ->
    gcxs_wfb (mkGCXS sh ca data indices indptr fill) = true.
  Proof.
    intros Hnd H0 H1 H2 H3 H4 H5 H6 H7 H8 H9 H10 H11.
    unfold gcxs_wfb. cbn [g_shape g_caxes g_data g_indices g_indptr].
    destruct sh as [|d1 [|d2 t]]; [simpl in Hnd; lia|simpl in Hnd; lia|].
    rewrite H0, H1, H2, H3, H4, H5, H6, H7, H8, H9, H10, H11. reflexivity.
  Qed.

  Lemma gcxs_coords_nd sh ca (data : list V) indices indptr fill :
    (2 <= length sh)%nat ->
    gcxs_coords (mkGCXS sh ca data indices indptr fill)
    = map (fun rc => unpermute (axis_order (Z.of_nat (length sh)) ca)
                       (unravel (reordered_shape sh ca) (fst rc * col_size sh ca + snd rc)))
          (combine (row_numbers indptr) indices).
  Proof.
    intros Hnd. unfold gcxs_coords. cbn [g_shape g_caxes g_data g_indices g_indptr].
    destruct sh as [|d1 [|d2 t]]; [simpl in Hnd; lia|simpl in Hnd; lia|]. reflexivity.
  Qed.
End NdHelpers.

Section GC.
  Variable V : Type.
  Variable veqb : V -> V -> bool.
  Variable add : V -> V -> V.

  Notation entry := (idx * V)%type.

  (* the sorted (key, value) list that _from_coo builds *)
  Definition gsorted (c : coo V) (ca : list Z) : list (Z * V) :=
    stable_sort (combine (map (ckey (c_shape c) ca) (c_coords c)) (c_data c)).

  Section Fixed.
    Variable c : coo V.
    Variable ca : list Z.
    Hypothesis Hc : canonical V c.
    Hypothesis Hok : shape_ok (c_shape c).
    Hypothesis Hca : caxes_okb (Z.of_nat (length (c_shape c))) ca = true.

    Let sh := c_shape c.
    Let rs := row_size sh ca.
    Let cs := col_size sh ca.
    Let s := gsorted c ca.

    Lemma gs_perm : Permutation (combine (map (ckey sh ca) (c_coords c)) (c_data c)) s.
    Proof. apply stable_sort_perm. Qed.

    Lemma gs_keys_perm : Permutation (map (ckey sh ca) (c_coords c)) (map fst s).
    Proof.
      destruct Hc as [_ [_ Hl]].
      rewrite <- (map_fst_combine (map (ckey sh ca) (c_coords c)) (c_data c)) at 1 by (rewrite map_length; lia).
      apply Permutation_map, gs_perm.
    Qed.

    Lemma lin_NoDup : NoDup (map (ckey sh ca) (c_coords c)).
    Proof.
      destruct Hc as [Hr [Hs _]]. rewrite Forall_forall in Hr.
      apply NoDup_map_in; [|apply SS_lex_NoDup; exact Hs].
      intros x y Hx Hy. apply ckey_inj; auto.
    Qed.

    Lemma gs_keys_lt : StronglySorted Z.lt (map fst s).
    Proof.
      apply SS_le_NoDup_lt.
      - apply SS_map_kle. apply stable_sort_sorted.
      - eapply Permutation_NoDup; [apply gs_keys_perm|apply lin_NoDup].
    Qed.

    Lemma gs_bounds p : In p s -> 0 <= fst p < rs * cs.
    Proof.
      intros Hp. assert (Hin : In (fst p) (map fst s)) by (apply in_map; exact Hp).
      apply (Permutation_in _ (Permutation_sym gs_keys_perm)) in Hin.
      apply in_map_iff in Hin. destruct Hin as [ix [<- Hix]].
      destruct Hc as [Hr _]. rewrite Forall_forall in Hr. apply ckey_bounds; auto.
    Qed.

    Definition rowf (p : Z * V) : Z := (fst p / cs) mod rs.
    Definition colf (p : Z * V) : Z := fst p mod cs.

    Lemma rs_nonneg : 0 <= rs. Proof. apply row_size_nonneg. exact Hok. Qed.
    Lemma cs_nonneg : 0 <= cs. Proof. apply col_size_nonneg; assumption. Qed.

    Lemma rowf_colf p : In p s ->
      0 < cs /\ rowf p = fst p / cs /\ 0 <= rowf p < rs /\ 0 <= colf p < cs /\ rowf p * cs + colf p = fst p.
    Proof.
      intros Hp. pose proof (gs_bounds p Hp) as Hb.
      destruct (div_mod_2d rs cs (fst p) Hb rs_nonneg cs_nonneg) as [H1 [H2 [H3 [H4 H5]]]].
      unfold rowf, colf. rewrite H2. auto.
    Qed.

    Lemma gs_pairs_lt : StronglySorted (fun a b : Z * V => fst a < fst b) s.
    Proof. apply SS_map_inv. apply gs_keys_lt. Qed.

    Lemma rows_sorted : StronglySorted Z.le (map rowf s).
    Proof.
      eapply SS_map_mono; [|apply gs_pairs_lt]. intros a b Ha Hb Hab. simpl in Hab.
      destruct (rowf_colf a Ha) as [Hcs [Ea _]]. destruct (rowf_colf b Hb) as [_ [Eb _]].
      rewrite Ea, Eb. apply Z.div_le_mono; lia.
    Qed.

    Lemma rows_in_range : Forall (fun r => 0 <= r < rs) (map rowf s).
    Proof. rewrite Forall_map. apply Forall_forall. intros p Hp. apply rowf_colf. exact Hp. Qed.

    Lemma rows_cols_lex : StronglySorted lexlt2 (combine (map rowf s) (map colf s)).
    Proof.
      rewrite combine_map_map. eapply SS_map_mono; [|apply gs_pairs_lt].
      intros a b Ha Hb Hab. simpl in Hab. unfold lexlt2. simpl.
      destruct (rowf_colf a Ha) as [Hcs [_ [_ [Hca' Ea]]]]. destruct (rowf_colf b Hb) as [_ [_ [_ [Hcb' Eb]]]].
      nia.
    Qed.

    (* uncompress after compress: the row numbers come back *)
    Lemma rows_roundtrip : row_numbers (indptr_of (map rowf s) rs) = map rowf s.
    Proof. apply row_numbers_indptr_of; [apply rows_sorted|apply rows_in_range]. Qed.

    (* ---- ndim >= 2 *)
    Hypothesis Hnd : (2 <= length (c_shape c))%nat.

    Lemma from_coo_nf :
      gcxs_from_coo c ca
      = mkGCXS sh ca (map snd s) (map colf s) (indptr_of (map rowf s) rs) (c_fill c).
    Proof.
      unfold gcxs_from_coo. unfold s, gsorted, rowf, colf, rs, cs, sh.
      destruct (c_shape c) as [|d1 [|d2 t]] eqn:E; [simpl in Hnd; lia|simpl in Hnd; lia|].
      cbv zeta. rewrite !map_map. f_equal.
      - apply map_ext. intros p. rewrite unravel_strided_2. apply znth_1.
      - f_equal. apply map_ext. intros p. rewrite unravel_strided_2. apply znth_0.
    Qed.

    Lemma from_coo_nd_wf : gcxs_wfb (gcxs_from_coo c ca) = true.
    Proof.
      rewrite from_coo_nf.
      pose proof Hca as Hca'. unfold caxes_okb in Hca'. rewrite !andb_true_iff in Hca'.
      destruct Hca' as [[[C1 C2] C3] C4].
      apply gcxs_wfb_nd_intro; auto.
      - apply forallb_forall. intros d Hd. unfold shape_ok in Hok. rewrite Forall_forall in Hok.
        apply Z.leb_le. apply Hok. exact Hd.
      - rewrite !map_length. apply Nat.eqb_refl.
      - apply Z.eqb_eq. unfold indptr_of, bincount. simpl length.
        rewrite cumsum_length, map_length, zrange_length. fold rs. pose proof rs_nonneg. lia.
      - apply Z.eqb_eq. fold rs. unfold znth, indptr_of.
        replace (Z.to_nat rs) with (length (bincount (map rowf s) rs))
          by (unfold bincount; rewrite map_length, zrange_length; reflexivity).
        rewrite cumsum_last. rewrite zsum_bincount by (try apply rows_sorted; apply rows_in_range).
        rewrite !map_length. lia.
      - apply nondecreasing_SS. unfold indptr_of. apply cumsum_nondecreasing.
        unfold bincount. rewrite Forall_map. apply Forall_forall. intros; apply count_z_nonneg.
      - apply forallb_forall. intros i Hi. apply in_map_iff in Hi. destruct Hi as [p [<- Hp]].
        destruct (rowf_colf p Hp) as [_ [_ [_ [Hcol _]]]]. fold cs.
        apply andb_true_iff. split; [apply Z.leb_le|apply Z.ltb_lt]; lia.
      - fold rs. unfold indptr_of, bincount. rewrite zrange_zr.
        apply (rows_of_sorted (Z.to_nat rs) 0%nat [] (map rowf s) (map colf s)).
        + rewrite !map_length. reflexivity.
        + apply rows_sorted.
        + eapply Forall_impl; [|apply rows_in_range]. intros r Hr. simpl in *. pose proof rs_nonneg. lia.
        + apply rows_cols_lex.
    Qed.

    (* the entries of the GCXS, read through gcxs_coords, are the entries of c in key order *)
    Lemma from_coo_nd_coords :
      gcxs_coords (gcxs_from_coo c ca) = map (fun p => unkey sh ca (fst p)) s.
    Proof.
      rewrite from_coo_nf. rewrite gcxs_coords_nd by exact Hnd. fold rs cs.
      rewrite rows_roundtrip. rewrite combine_map_map, map_map.
      apply map_ext_in. intros p Hp. simpl fst. simpl snd. unfold unkey.
      destruct (rowf_colf p Hp) as [_ [_ [_ [_ Hrc]]]]. rewrite Hrc. reflexivity.
    Qed.

    Lemma from_coo_nd_entries_perm :
      Permutation (entries (gcxs_as_coo (gcxs_from_coo c ca))) (entries c).
    Proof.
      unfold entries at 1, gcxs_as_coo. cbn [c_coords c_data]. rewrite from_coo_nd_coords.
      rewrite from_coo_nf. cbn [g_data]. rewrite combine_map_map.
      set (g := fun p : Z * V => (unkey sh ca (fst p), snd p)).
      set (L := combine (map (ckey sh ca) (c_coords c)) (c_data c)).
      assert (Hmap : map g L = entries c).
      { unfold L, entries. rewrite combine_map_l, map_map.
        rewrite <- (map_id (combine (c_coords c) (c_data c))) at 2.
        apply map_ext_in. intros [ix v] Hin. unfold g. simpl.
        destruct Hc as [Hr _]. rewrite Forall_forall in Hr.
        rewrite unkey_ckey; auto. apply Hr. eapply in_combine_l; exact Hin. }
      rewrite <- Hmap. apply Permutation_map. apply Permutation_sym. apply gs_perm.
    Qed.

    (* what is stored: column numbers below col_size, row numbers below row_size, pointers up to nnz *)
    Lemma from_coo_nd_bounds :
      Forall (fun i => 0 <= i < cs) (g_indices (gcxs_from_coo c ca))
      /\ Forall (fun r => 0 <= r < rs) (row_numbers (g_indptr (gcxs_from_coo c ca)))
      /\ Forall (fun p => 0 <= p <= Z.of_nat (length (c_data c))) (g_indptr (gcxs_from_coo c ca)).
    Proof.
      rewrite from_coo_nf. cbn [g_indices g_indptr]. split; [|split].
      - rewrite Forall_map. apply Forall_forall. intros p Hp. apply rowf_colf. exact Hp.
      - rewrite rows_roundtrip. apply rows_in_range.
      - unfold indptr_of.
        assert (Hn : zsum (bincount (map rowf s) rs) = Z.of_nat (length (c_data c))).
        { rewrite zsum_bincount by (try apply rows_sorted; apply rows_in_range).
          rewrite map_length. unfold s, gsorted. rewrite stable_sort_length, combine_length, map_length.
          destruct Hc as [_ [_ Hl]]. lia. }
        pose proof (cumsum_bounds (bincount (map rowf s) rs) 0) as Hb. rewrite Hn in Hb.
        eapply Forall_impl; [|apply Hb].
        + intros p Hp. simpl in Hp. lia.
        + unfold bincount. rewrite Forall_map. apply Forall_forall. intros; apply count_z_nonneg.
    Qed.

    Lemma from_coo_nd_den ix : gden (gcxs_from_coo c ca) ix = den c ix.
    Proof.
      unfold gden, den. cbn [c_fill gcxs_as_coo].
      rewrite (lookup_perm V _ (entries c)).
      - rewrite from_coo_nf. reflexivity.
      - eapply Permutation_NoDup; [apply Permutation_map, Permutation_sym, from_coo_nd_entries_perm|].
        destruct Hc as [_ [Hs Hl]]. unfold entries. rewrite map_fst_combine by lia. apply SS_lex_NoDup. exact Hs.
      - apply from_coo_nd_entries_perm.
    Qed.
  End Fixed.

  (* ---- ndim 0 and 1: the GCXS holds the COO's arrays as they are *)
  Lemma coords_0d (c : coo V) :
    canonical V c -> c_shape c = [] -> c_coords c = map (fun _ => []) (c_data c) /\ (length (c_data c) <= 1)%nat.
  Proof.
    intros [Hr [Hs Hl]] E. rewrite E in Hr. split.
    - revert Hl. generalize (c_data c). induction (c_coords c) as [|ix l IH]; intros [|v vs] Hl; simpl in *; try discriminate; [reflexivity|].
      inversion Hr as [|? ? Hix Hr']; subst. destruct ix; [|simpl in Hix; tauto].
      f_equal. apply IH; [assumption|inversion Hs; assumption|lia].
    - rewrite Hl. destruct (c_coords c) as [|a [|b l]]; simpl; try lia.
      inversion Hr as [|? ? Ha Hr']; subst. inversion Hr' as [|? ? Hb _]; subst.
      destruct a; [|simpl in Ha; tauto]. destruct b; [|simpl in Hb; tauto].
      inversion Hs as [|? ? _ Hall]; subst. inversion Hall as [|? ? Hlt _]; subst. simpl in Hlt. tauto.
  Qed.

  Lemma coords_1d (c : coo V) d :
    canonical V c -> c_shape c = [d] ->
    map (fun i => [i]) (map (fun ix => znth ix 0 0) (c_coords c)) = c_coords c
    /\ Forall (fun i => 0 <= i < d) (map (fun ix => znth ix 0 0) (c_coords c))
    /\ StronglySorted Z.lt (map (fun ix => znth ix 0 0) (c_coords c)).
  Proof.
    intros [Hr [Hs _]] E. rewrite E in Hr.
    assert (Hform : forall ix, In ix (c_coords c) -> exists i, ix = [i] /\ 0 <= i < d).
    { intros ix Hix. rewrite Forall_forall in Hr. specialize (Hr _ Hix).
      destruct ix as [|i [|j t]]; simpl in Hr; try tauto. exists i. split; [reflexivity|tauto]. }
    clear Hr. induction (c_coords c) as [|ix l IH]; simpl; [repeat split; constructor|].
    destruct (Hform ix (or_introl eq_refl)) as [i [-> Hi]].
    inversion Hs as [|? ? Hs' Hall]; subst.
    destruct IH as [I1 [I2 I3]]; [assumption|intros; apply Hform; right; assumption|].
    rewrite znth_0. repeat split.
    - f_equal. exact I1.
    - constructor; assumption.
    - constructor; [assumption|]. rewrite Forall_map. apply Forall_forall. intros iy Hy.
      destruct (Hform iy (or_intror Hy)) as [j [-> Hj]]. rewrite znth_0.
      rewrite Forall_forall in Hall. specialize (Hall _ Hy). simpl in Hall. lia.
  Qed.

  Lemma as_coo_from_coo_small (c : coo V) ca :
    canonical V c -> (length (c_shape c) < 2)%nat -> gcxs_as_coo (gcxs_from_coo c ca) = c.
  Proof.
    intros Hc Hlen. unfold gcxs_as_coo, gcxs_from_coo, gcxs_coords.
    destruct (c_shape c) as [|d [|d2 t]] eqn:E; [| |simpl in Hlen; lia]; cbn [g_shape g_data g_indices g_fill].
    - destruct (coords_0d c Hc E) as [H1 _]. rewrite <- H1. destruct c; simpl in *; congruence.
    - destruct (coords_1d c d Hc E) as [H1 _]. rewrite H1. destruct c; simpl in *; congruence.
  Qed.

  Definition axes_ok (sh : shape) (ca : list Z) : Prop :=
    (length sh < 2)%nat \/ caxes_okb (Z.of_nat (length sh)) ca = true.

  Theorem gcxs_from_coo_wf_proof (c : coo V) ca :
    canonical V c -> shape_ok (c_shape c) -> axes_ok (c_shape c) ca ->
    gcxs_wfb (gcxs_from_coo c ca) = true.
  Proof.
    intros Hc Hok Hax.
    destruct (Nat.lt_ge_cases (length (c_shape c)) 2) as [Hlt|Hge].
    - unfold gcxs_from_coo, gcxs_wfb.
      destruct (c_shape c) as [|d [|d2 t]] eqn:E; [| |simpl in Hlt; lia]; cbn [g_shape g_caxes g_data g_indices g_indptr].
      + destruct (coords_0d c Hc E) as [_ H2]. simpl. apply Nat.leb_le in H2. rewrite H2. reflexivity.
      + destruct (coords_1d c d Hc E) as [_ [H2 H3]].
        inversion Hok as [|? ? Hd _]; subst.
        simpl forallb at 1. replace (0 <=? d) with true by (symmetry; apply Z.leb_le; lia). cbn [andb].
        repeat (apply andb_true_iff; split).
        * destruct Hc as [_ [_ Hl]]. rewrite map_length, Hl. apply Nat.eqb_refl.
        * reflexivity.
        * apply forallb_forall. intros i Hi. rewrite Forall_forall in H2. specialize (H2 _ Hi).
          apply andb_true_iff. split; [apply Z.leb_le|apply Z.ltb_lt]; lia.
        * apply strictly_increasing_SS. exact H3.
    - destruct Hax as [Hax|Hax]; [lia|]. apply from_coo_nd_wf; assumption.
  Qed.

  Theorem gcxs_from_coo_den_proof (c : coo V) ca ix :
    canonical V c -> shape_ok (c_shape c) -> axes_ok (c_shape c) ca ->
    gden (gcxs_from_coo c ca) ix = den c ix.
  Proof.
    intros Hc Hok Hax.
    destruct (Nat.lt_ge_cases (length (c_shape c)) 2) as [Hlt|Hge].
    - unfold gden. rewrite as_coo_from_coo_small by assumption. reflexivity.
    - destruct Hax as [Hax|Hax]; [lia|]. apply from_coo_nd_den; assumption.
  Qed.

  (* ================================================================ GCXS.tocoo *)
  Lemma gcxs_tocoo_nd sh ca (data : list V) indices indptr fill :
    (2 <= length sh)%nat ->
    gcxs_tocoo veqb add (mkGCXS sh ca data indices indptr fill)
    = coo_transpose veqb add
        (coo_reshape veqb add
           (coo_make veqb add false true false [row_size sh ca; col_size sh ca]
              (map (fun rc => [fst rc; snd rc]) (combine (row_numbers indptr) indices)) data fill)
           (reordered_shape sh ca))
        (inv_perm (axis_order (Z.of_nat (length sh)) ca)).
  Proof.
    intros Hnd. unfold gcxs_tocoo. cbn [g_shape g_caxes g_data g_indices g_indptr g_fill].
    destruct sh as [|d1 [|d2 t]]; [simpl in Hnd; lia|simpl in Hnd; lia|]. reflexivity.
  Qed.

  Lemma coo_make_plain sh coords (data : list V) fill :
    length coords = length data ->
    coo_make veqb add true false false sh coords data fill = mkCOO sh coords data fill.
  Proof.
    intros Hl. unfold coo_make, coo_of_entries. rewrite map_fst_combine, map_snd_combine by assumption. reflexivity.
  Qed.

  Lemma unpermute_as_gather : forall ord t a,
    length t = length ord -> In a ord ->
    znth t (index_of a ord) 0
    = match find (fun p => fst p =? a) (combine ord t) with Some (_, v) => v | None => 0 end.
  Proof.
    induction ord as [|x r IH]; intros [|y t] a Hl Hin; simpl in *; try tauto; try discriminate.
    destruct (Z.eqb_spec x a) as [->|Hne]; [reflexivity|].
    destruct Hin as [?|Hin]; [congruence|].
    rewrite Z.add_comm, znth_cons_S by apply index_of_nonneg. apply IH; [lia|assumption].
  Qed.

  Lemma gather_inv_unpermute n ord t :
    perm_of n ord -> length t = n -> gather t (inv_perm ord) = unpermute ord t.
  Proof.
    intros Hp Hl. unfold inv_perm, unpermute, gather. rewrite map_map.
    apply map_ext_in. intros a Ha. apply unpermute_as_gather.
    - rewrite (perm_of_length n ord Hp). exact Hl.
    - rewrite (perm_of_length n ord Hp) in Ha. eapply Permutation_in; [apply Permutation_sym; exact Hp|exact Ha].
  Qed.

  (* entry lists sorted by linear location with distinct locations are determined by their members *)
  Lemma entries_sorted_unique sh (l1 l2 : list entry) :
    Permutation l1 l2 -> StronglySorted Z.le (keys_of sh l1) -> StronglySorted Z.le (keys_of sh l2) ->
    NoDup (keys_of sh l1) -> l1 = l2.
  Proof.
    intros Hp H1 H2 Hnd.
    set (f := fun e : entry => (ravel sh (fst e), e)).
    assert (Hk : forall l, map fst (map f l) = keys_of sh l) by (intros; rewrite map_map; reflexivity).
    assert (E : map f l1 = map f l2).
    { apply sorted_perm_unique.
      - apply Permutation_map. exact Hp.
      - apply SS_map_kle. rewrite Hk. exact H1.
      - apply SS_map_kle. rewrite Hk. exact H2.
      - rewrite Hk. exact Hnd. }
    apply (f_equal (map snd)) in E. rewrite !map_map in E. simpl in E. rewrite !map_id in E. exact E.
  Qed.

  Lemma coo_eta (x : coo V) : mkCOO (c_shape x) (c_coords x) (c_data x) (c_fill x) = x.
  Proof. destruct x; reflexivity. Qed.

  Section TocooNd.
    Variable c : coo V.
    Variable ca : list Z.
    Hypothesis Hc : canonical V c.
    Hypothesis Hok : shape_ok (c_shape c).
    Hypothesis Hca : caxes_okb (Z.of_nat (length (c_shape c))) ca = true.
    Hypothesis Hnd : (2 <= length (c_shape c))%nat.

    Let sh := c_shape c.
    Let rs := row_size sh ca.
    Let cs := col_size sh ca.
    Let s := gsorted c ca.
    Let ord := axis_order (Z.of_nat (length sh)) ca.
    Let rsh := reordered_shape sh ca.

    Let rc_facts p (Hp : In p s) := rowf_colf c ca Hc Hok Hca p Hp.

    (* step 1: the 2-d COO built from (rows, indices) is already canonical *)
    Let coords1 := map (fun p => [rowf c ca p; colf c ca p]) s.

    Lemma c1_canonical : canonical V (mkCOO [rs; cs] coords1 (map snd s) (c_fill c)).
    Proof.
      unfold canonical. cbn [c_shape c_coords c_data]. repeat split.
      - unfold coords1. rewrite Forall_map. apply Forall_forall. intros p Hp.
        destruct (rc_facts p Hp) as [_ [_ [Hr [Hcol _]]]]. simpl. repeat split; try apply Hr; apply Hcol.
      - unfold coords1. eapply SS_map_mono; [|apply (gs_pairs_lt c ca Hc Hca)].
        intros a b Ha Hb Hab. simpl in Hab.
        destruct (rc_facts a Ha) as [Hcs [_ [_ [Hca' Ea]]]]. destruct (rc_facts b Hb) as [_ [_ [_ [Hcb' Eb]]]].
        simpl.
        destruct (Z.lt_trichotomy (rowf c ca a) (rowf c ca b)) as [?|[E|?]]; [left; assumption| |nia].
        right. split; [assumption|]. left. nia.
      - unfold coords1. rewrite !map_length. reflexivity.
    Qed.

    (* step 2: after reshape, the coordinates are the unravelled keys *)
    Let coords2 := map (fun p : Z * V => unravel rsh (fst p)) s.

    Lemma rsh_facts : shape_ok rsh /\ size rsh = rs * cs.
    Proof. split; [apply rsh_ok; exact Hok|apply size_rsh]. Qed.

    Lemma reshape_step :
      coo_reshape veqb add (mkCOO [rs; cs] coords1 (map snd s) (c_fill c)) rsh
      = mkCOO rsh coords2 (map snd s) (c_fill c).
    Proof.
      destruct rsh_facts as [Hrok Hrsize].
      unfold coo_reshape. cbn [c_shape c_coords c_data c_fill]. unfold zlist_eqb.
      destruct (idx_eqb [rs; cs] rsh) eqn:E.
      - apply idx_eqb_eq in E. rewrite <- E. f_equal. unfold coords1, coords2.
        apply map_ext_in. intros p Hp. rewrite <- E.
        rewrite <- unravel_strided_spec.
        + rewrite unravel_strided_2. reflexivity.
        + rewrite E. exact Hrok.
        + rewrite E, Hrsize. apply (gs_bounds c ca Hc Hca). exact Hp.
      - rewrite coo_make_plain by (unfold coords1; rewrite !map_length; reflexivity).
        f_equal. unfold coords1, coords2. rewrite map_map. apply map_ext_in. intros p Hp.
        rewrite ravel_2. destruct (rc_facts p Hp) as [_ [_ [_ [_ Hrc]]]]. fold sh cs in Hrc.
        rewrite Hrc. apply unravel_strided_spec; [exact Hrok|].
        rewrite Hrsize. apply (gs_bounds c ca Hc Hca). exact Hp.
    Qed.

    (* step 3: the transposed coordinates are the original index tuples, in key order *)
    Let E3 : list entry := map (fun p : Z * V => (unkey sh ca (fst p), snd p)) s.

    Lemma E3_perm : Permutation E3 (entries c).
    Proof.
      pose proof (from_coo_nd_entries_perm c ca Hc Hok Hca Hnd) as H.
      unfold entries at 1, gcxs_as_coo in H. cbn [c_coords c_data] in H.
      rewrite (from_coo_nd_coords c ca Hc Hok Hca Hnd) in H.
      rewrite (from_coo_nf c ca Hok Hca Hnd) in H. cbn [g_data] in H. rewrite combine_map_map in H. exact H.
    Qed.

    Lemma ord_is_perm : perm_of (length sh) ord.
    Proof. apply ord_perm. exact Hca. Qed.

    Lemma unravel_len p : In p s -> length (unravel rsh (fst p)) = length sh.
    Proof.
      intros Hp. destruct rsh_facts as [Hrok Hrsize].
      rewrite (in_range_length rsh).
      - apply rsh_length. exact Hca.
      - apply unravel_in_range; [exact Hrok|]. rewrite Hrsize. apply (gs_bounds c ca Hc Hca). exact Hp.
    Qed.

    Lemma transpose_coords :
      map (fun ix => gather ix (inv_perm ord)) coords2 = map fst E3.
    Proof.
      unfold coords2, E3. rewrite !map_map. apply map_ext_in. intros p Hp. simpl.
      unfold unkey. fold ord rsh. apply (gather_inv_unpermute (length sh)); [apply ord_is_perm|apply unravel_len; exact Hp].
    Qed.

    Lemma E3_data : map snd E3 = map snd s.
    Proof. unfold E3. rewrite map_map. reflexivity. Qed.

    Lemma sorted_E3 : sort_indices sh E3 = entries c.
    Proof.
      pose proof (canonical_keys_lt V c Hc) as Hk.
      apply entries_sorted_unique with (sh := sh).
      - eapply perm_trans; [apply Permutation_sym, (sort_indices_perm V)|apply E3_perm].
      - apply (sort_indices_sorted V).
      - apply SS_lt_le. exact Hk.
      - eapply Permutation_NoDup.
        + unfold keys_of. apply Permutation_map. eapply perm_trans; [apply Permutation_sym, E3_perm|apply sort_indices_perm].
        + apply SS_lt_NoDup. exact Hk.
    Qed.

    Lemma coo_of_entries_c : coo_of_entries sh (entries c) (c_fill c) = c.
    Proof.
      pose proof Hc as [_ [_ Hl]]. unfold coo_of_entries, entries.
      rewrite map_fst_combine, map_snd_combine by lia. apply coo_eta.
    Qed.

    Lemma tocoo_from_coo_nd : gcxs_tocoo veqb add (gcxs_from_coo c ca) = c.
    Proof.
      rewrite (from_coo_nf c ca Hok Hca Hnd). rewrite gcxs_tocoo_nd by exact Hnd.
      rewrite (rows_roundtrip c ca Hc Hok Hca).
      rewrite combine_map_map, map_map. cbn [fst snd].
      fold sh. fold rs cs s ord rsh. fold coords1.
      pose proof (coo_make_canonical_id V veqb add (mkCOO [rs; cs] coords1 (map snd s) (c_fill c)) false true c1_canonical) as H1.
      cbn [c_shape c_coords c_data c_fill] in H1.
      match goal with |- context [coo_make veqb add false true false ?a ?b ?d ?f] =>
        replace (coo_make veqb add false true false a b d f)
          with (mkCOO [rs; cs] coords1 (map snd s) (c_fill c)) by (symmetry; exact H1) end.
      rewrite reshape_step.
      assert (Hsh : gather rsh (inv_perm ord) = sh).
      { unfold rsh. rewrite reordered_shape_gather. fold ord.
        apply (gather_inv_perm (length sh)); [apply ord_is_perm|reflexivity]. }
      assert (Hcomb : combine (map fst E3) (map snd s) = E3).
      { rewrite <- E3_data. apply combine_fst_snd. }
      unfold coo_transpose. cbn [c_shape c_coords c_data c_fill]. unfold zlist_eqb.
      destruct (idx_eqb (inv_perm ord) (zrange (Z.of_nat (length rsh)))) eqn:E.
      - (* the permutation is the identity: nothing is re-sorted, and nothing needs to be *)
        apply idx_eqb_eq in E.
        assert (Hlen : length rsh = length sh) by (apply rsh_length; exact Hca).
        assert (Hrsh : rsh = sh).
        { transitivity (gather rsh (inv_perm ord)); [rewrite E; symmetry; apply gather_zrange|exact Hsh]. }
        assert (Hc2 : coords2 = map fst E3).
        { rewrite <- transpose_coords. rewrite E. rewrite <- (map_id coords2) at 1.
          apply map_ext_in. intros ix Hix. unfold coords2 in Hix. apply in_map_iff in Hix.
          destruct Hix as [p [<- Hp]]. rewrite Hlen, <- (unravel_len p Hp). symmetry. apply gather_zrange. }
        rewrite Hc2, Hrsh.
        rewrite <- coo_of_entries_c. unfold coo_of_entries. rewrite <- sorted_E3.
        rewrite (sort_indices_sorted_id V); [rewrite E3_data; reflexivity|].
        (* keys of E3 w.r.t. sh are the sorted keys *)
        replace (keys_of sh E3) with (map fst s); [apply SS_lt_le, (gs_keys_lt c ca Hc Hca)|].
        unfold keys_of, E3. rewrite map_map. apply map_ext_in. intros p Hp. cbn [fst].
        assert (Hu : unkey sh ca (fst p) = unravel sh (fst p)).
        { pose proof transpose_coords as Ht. rewrite E in Ht. unfold coords2, E3 in Ht. rewrite !map_map in Ht.
          cbn [fst] in Ht.
          assert (Hpt := ext_in_map Ht p Hp). cbn beta in Hpt. rewrite <- Hpt.
          rewrite Hlen, <- (unravel_len p Hp), gather_zrange. rewrite Hrsh. reflexivity. }
        rewrite Hu. rewrite ravel_unravel; [reflexivity|exact Hok|].
        destruct rsh_facts as [_ Hrsize]. rewrite Hrsh in Hrsize. rewrite Hrsize.
        apply (gs_bounds c ca Hc Hca). exact Hp.
      - rewrite Hsh, transpose_coords. unfold coo_make. cbv zeta. cbn [negb].
        rewrite Hcomb. rewrite sorted_E3. apply coo_of_entries_c.
    Qed.
  End TocooNd.

  (* ================================================================ change_compressed_axes *)
  Section ChangeAxes.
    Variable c : coo V.
    Variable ca ca' : list Z.
    Hypothesis Hc : canonical V c.
    Hypothesis Hok : shape_ok (c_shape c).
    Hypothesis Hca : caxes_okb (Z.of_nat (length (c_shape c))) ca = true.
    Hypothesis Hca' : caxes_okb (Z.of_nat (length (c_shape c))) ca' = true.
    Hypothesis Hnd : (2 <= length (c_shape c))%nat.

    Let sh := c_shape c.
    Let s := gsorted c ca.
    Let s' := gsorted c ca'.
    Let rs' := row_size sh ca'.
    Let cs' := col_size sh ca'.

    Lemma key_of_sorted p : In p s -> exists ix, In ix (c_coords c) /\ in_range sh ix /\ fst p = ckey sh ca ix.
    Proof.
      intros Hp. assert (Hin : In (fst p) (map fst s)) by (apply in_map; exact Hp).
      apply (Permutation_in _ (Permutation_sym (gs_keys_perm c ca Hc))) in Hin.
      apply in_map_iff in Hin. destruct Hin as [ix [E Hix]]. exists ix.
      pose proof Hc as [Hr _]. rewrite Forall_forall in Hr. auto.
    Qed.

    (* one iteration of _convert_coords *)
    Lemma convert_coord_spec ix :
      in_range sh ix ->
      convert_coord (ckey sh ca ix) sh (reordered_shape sh ca)
                    (inv_perm (axis_order (Z.of_nat (length sh)) ca)) sh
                    (axis_order (Z.of_nat (length sh)) ca') (reordered_shape sh ca') [rs'; cs']
      = (ckey sh ca' ix, [(ckey sh ca' ix / cs') mod rs'; ckey sh ca' ix mod cs']).
    Proof.
      intros Hix. unfold convert_coord.
      assert (Hlen : length ix = length sh) by (apply in_range_length; exact Hix).
      assert (Hne : sh <> []) by (intros E; unfold sh in E; rewrite E in Hnd; simpl in Hnd; lia).
      pose proof (ckey_bounds sh ca Hca ix Hix) as Hb.
      pose proof (ckey_bounds sh ca' Hca' ix Hix) as Hb'.
      assert (H1 : unravel_k (ckey sh ca ix) (reordered_shape sh ca) = gather ix (axis_order (Z.of_nat (length sh)) ca)).
      { rewrite unravel_k_spec.
        - unfold ckey. apply unravel_ravel. apply gather_ord_in_range; assumption.
        - intros E. pose proof (rsh_length sh ca Hca) as HL. rewrite E in HL. simpl in HL. unfold sh in HL. lia.
        - apply rsh_ok. exact Hok.
        - rewrite size_rsh. exact Hb. }
      assert (H2 : gather (gather ix (axis_order (Z.of_nat (length sh)) ca)) (inv_perm (axis_order (Z.of_nat (length sh)) ca)) = ix).
      { apply (gather_inv_perm (length sh)); [apply ord_perm; exact Hca|exact Hlen]. }
      assert (Hixne : ix <> []).
      { intros E. rewrite E in Hlen. simpl in Hlen. unfold sh in Hlen. lia. }
      assert (H3 : ravel_k ix sh = ravel sh ix) by (apply ravel_k_spec; assumption).
      assert (H4 : unravel_k (ravel sh ix) sh = ix).
      { rewrite unravel_k_spec; [apply unravel_ravel; exact Hix|exact Hne|exact Hok|apply ravel_bounds; exact Hix]. }
      assert (H5 : ravel_k (gather ix (axis_order (Z.of_nat (length sh)) ca')) (reordered_shape sh ca') = ckey sh ca' ix).
      { apply ravel_k_spec.
        - intros E. pose proof (gather_length ix (axis_order (Z.of_nat (length sh)) ca')) as HL.
          rewrite E, (perm_of_length _ _ (ord_perm sh ca' Hca')) in HL. simpl in HL. unfold sh in HL. lia.
        - rewrite gather_length, (perm_of_length _ _ (ord_perm sh ca' Hca')). symmetry. apply rsh_length. exact Hca'. }
      assert (Hok2 : shape_ok [rs'; cs']).
      { constructor; [apply row_size_nonneg; exact Hok|constructor; [apply col_size_nonneg; exact Hok|constructor]]. }
      assert (H6 : unravel_k (ckey sh ca' ix) [rs'; cs'] = [(ckey sh ca' ix / cs') mod rs'; ckey sh ca' ix mod cs']).
      { rewrite unravel_k_spec; [|discriminate|exact Hok2|simpl; rewrite Z.mul_1_r; exact Hb'].
        rewrite <- unravel_strided_spec; [apply unravel_strided_2|exact Hok2|simpl; rewrite Z.mul_1_r; exact Hb']. }
      rewrite H1, H2, H3, H4, H5, H6. reflexivity.
    Qed.

    Definition U' (l : Z) : idx := [(l / cs') mod rs'; l mod cs'].
    Definition k' (p : Z * V) : Z := ckey sh ca' (unkey sh ca (fst p)).

    Lemma sorted_rekeyed : stable_sort (map (fun p => (k' p, snd p)) s) = s'.
    Proof.
      apply stable_sort_unique.
      - (* both are arrangements of the entries of c under the new keys *)
        eapply perm_trans; [|apply (gs_perm c ca')].
        rewrite combine_map_l. fold (entries c).
        pose proof (E3_perm c ca Hc Hok Hca Hnd) as HE.
        apply (Permutation_map (fun e : entry => (ckey sh ca' (fst e), snd e))) in HE.
        rewrite map_map in HE. exact HE.
      - apply stable_sort_sorted.
      - rewrite map_map. cbn [fst].
        eapply Permutation_NoDup; [|apply (lin_NoDup c ca' Hc Hca')].
        pose proof (E3_perm c ca Hc Hok Hca Hnd) as HE.
        apply (Permutation_map (fun e : entry => ckey sh ca' (fst e))) in HE.
        rewrite map_map in HE. cbn [fst] in HE. apply Permutation_sym.
        destruct Hc as [_ [_ Hl]]. unfold entries in HE. 
        replace (map (fun e : entry => ckey sh ca' (fst e)) (combine (c_coords c) (c_data c)))
          with (map (ckey sh ca') (c_coords c)) in HE.
        + exact HE.
        + rewrite <- (map_fst_combine (c_coords c) (c_data c)) at 1 by lia. rewrite map_map. reflexivity.
    Qed.

    Lemma transpose_from_coo : gcxs_transpose_same (gcxs_from_coo c ca) ca' = gcxs_from_coo c ca'.
    Proof.
      rewrite (from_coo_nf c ca Hok Hca Hnd). rewrite (from_coo_nf c ca' Hok Hca' Hnd).
      unfold gcxs_transpose_same. cbn [g_shape g_caxes g_data g_indices g_indptr g_fill].
      rewrite (rows_roundtrip c ca Hc Hok Hca).
      (* the linear locations are the sorted keys *)
      assert (HLIN : map (fun rc : Z * Z => ravel [row_size (c_shape c) ca; col_size (c_shape c) ca] [fst rc; snd rc])
                         (combine (map (rowf c ca) (gsorted c ca)) (map (colf c ca) (gsorted c ca)))
                     = map fst (gsorted c ca)).
      { rewrite combine_map_map, map_map. apply map_ext_in. intros p Hp. cbn [fst snd]. rewrite ravel_2.
        destruct (rowf_colf c ca Hc Hok Hca p Hp) as [_ [_ [_ [_ Hrc]]]]. exact Hrc. }
      rewrite HLIN. clear HLIN.
      (* every iteration follows convert_coord_spec *)
      assert (Hconv : map (fun n : Z =>
                 convert_coord n (c_shape c) (reordered_shape (c_shape c) ca)
                   (inv_perm (axis_order (Z.of_nat (length (c_shape c))) ca)) (c_shape c)
                   (axis_order (Z.of_nat (length (c_shape c))) ca') (reordered_shape (c_shape c) ca')
                   [row_size (c_shape c) ca'; col_size (c_shape c) ca']) (map fst (gsorted c ca))
               = map (fun p => (k' p, U' (k' p))) s).
      { rewrite map_map. apply map_ext_in. intros p Hp.
        destruct (key_of_sorted p Hp) as [ix [_ [Hix E]]].
        pose proof (convert_coord_spec ix Hix) as Hcc. unfold rs', cs', sh in Hcc.
        unfold k', U', rs', cs', sh. unfold sh in E. rewrite E. rewrite Hcc.
        rewrite (unkey_ckey (c_shape c) ca Hca ix Hix). reflexivity. }
      rewrite Hconv. clear Hconv. rewrite !map_map. cbn [fst snd].
      rewrite combine_map_map. rewrite combine_map_map.
      (* sort: commute with the payload map, then use the uniqueness of the sorted arrangement *)
      assert (Hs2 : stable_sort (map (fun p : Z * V => (k' p, (U' (k' p), snd p))) s)
                    = map (fun q : Z * V => (fst q, (U' (fst q), snd q))) s').
      { rewrite <- sorted_rekeyed.
        rewrite <- (stable_sort_map (fun k v => (U' k, v))). rewrite map_map. reflexivity. }
      fold s. rewrite Hs2. rewrite !map_map. cbn [fst snd]. unfold U'. reflexivity.
    Qed.

    Lemma change_axes_from_coo_nd : gcxs_change_axes (gcxs_from_coo c ca) ca' = gcxs_from_coo c ca'.
    Proof.
      unfold gcxs_change_axes.
      assert (Hg : g_caxes (gcxs_from_coo c ca) = ca) by (rewrite (from_coo_nf c ca Hok Hca Hnd); reflexivity).
      rewrite Hg. unfold zlist_eqb. destruct (idx_eqb ca' ca) eqn:E.
      - apply idx_eqb_eq in E. rewrite E. reflexivity.
      - apply transpose_from_coo.
    Qed.
  End ChangeAxes.

  Theorem tocoo_from_coo_proof (c : coo V) ca :
    canonical V c -> shape_ok (c_shape c) -> axes_ok (c_shape c) ca ->
    gcxs_tocoo veqb add (gcxs_from_coo c ca) = c.
  Proof.
    intros Hc Hok Hax.
    destruct (Nat.lt_ge_cases (length (c_shape c)) 2) as [Hlt|Hge].
    - unfold gcxs_tocoo, gcxs_from_coo.
      destruct (c_shape c) as [|d [|d2 t]] eqn:E; [| |simpl in Hlt; lia]; cbn [g_shape g_data g_indices g_fill].
      + destruct (coords_0d c Hc E) as [H1 _]. rewrite <- H1, <- E. apply coo_make_canonical_id. exact Hc.
      + destruct (coords_1d c d Hc E) as [H1 _]. rewrite H1, <- E. apply coo_make_canonical_id. exact Hc.
    - destruct Hax as [Hax|Hax]; [lia|]. apply tocoo_from_coo_nd; assumption.
  Qed.
End GC.
