(* Proofs/ConvertG.v — C05, part 2: axis permutations, the hand-written ravel/unravel kernels, and
   COO <-> GCXS: _from_coo gives a well-formed GCXS with the same dense meaning, tocoo inverts it,
   change_compressed_axes agrees with _from_coo. *)
From Coq Require Import ZArith List Bool Lia Sorting.Sorted Sorting.Permutation.
From Verif Require Import Py Shape COO GCXS COOP Convert ConvertL ConvertM.
Import ListNotations.
Open Scope Z_scope.

(* ------------------------------------------------------------------ booleans of GCXS.v *)
Lemma mem_z_In x l : mem_z x l = true <-> In x l.
Proof.
  unfold mem_z. rewrite existsb_exists. split.
  - intros [y [Hy E]]. apply Z.eqb_eq in E. subst; assumption.
  - intros H. exists x. split; [assumption|apply Z.eqb_refl].
Qed.

Lemma NoDupb_NoDup l : NoDupb l = true <-> NoDup l.
Proof.
  induction l as [|a r IH]; simpl.
  - split; [constructor|reflexivity].
  - rewrite andb_true_iff, negb_true_iff, IH. split.
    + intros [Hm Hn]. constructor; [|assumption]. intros Hin. apply mem_z_In in Hin. congruence.
    + intros H. inversion H; subst. split; [|assumption].
      destruct (mem_z a r) eqn:E; [apply mem_z_In in E; contradiction|reflexivity].
Qed.

Lemma zrange_NoDup m : NoDup (zrange m).
Proof.
  unfold zrange. apply FinFun.Injective_map_NoDup; [intros a b; apply Nat2Z.inj|apply seq_NoDup].
Qed.

Lemma zrange_length m : length (zrange m) = Z.to_nat m.
Proof. unfold zrange. rewrite map_length, seq_length. reflexivity. Qed.

Lemma NoDup_app' {A} (l1 l2 : list A) :
  NoDup l1 -> NoDup l2 -> (forall x, In x l1 -> ~ In x l2) -> NoDup (l1 ++ l2).
Proof.
  induction l1 as [|a l1 IH]; simpl; intros H1 H2 H; [assumption|].
  inversion H1; subst. constructor.
  - rewrite in_app_iff. intros [?|?]; [contradiction|]. eapply H; eauto.
  - apply IH; auto.
Qed.

(* ------------------------------------------------------------------ axis orders are permutations *)
Definition perm_of (n : nat) (ord : list Z) : Prop := Permutation ord (zrange (Z.of_nat n)).

Lemma caxes_okb_spec ndim ca :
  caxes_okb ndim ca = true ->
  ca <> [] /\ Z.of_nat (length ca) < ndim /\ NoDup ca /\ (forall a, In a ca -> 0 <= a < ndim).
Proof.
  unfold caxes_okb. rewrite !andb_true_iff, negb_true_iff, Z.ltb_lt, NoDupb_NoDup, forallb_forall.
  intros [[[H1 H2] H3] H4]. repeat split; auto.
  - intros ->. discriminate.
  - specialize (H4 _ H). lia.
  - specialize (H4 _ H). lia.
Qed.

Lemma axis_order_perm n ca :
  caxes_okb (Z.of_nat n) ca = true -> perm_of n (axis_order (Z.of_nat n) ca).
Proof.
  intros H. apply caxes_okb_spec in H. destruct H as [_ [_ [Hnd Hr]]].
  unfold perm_of, axis_order. apply NoDup_Permutation.
  - apply NoDup_app'; [assumption|apply NoDup_filter, zrange_NoDup|].
    intros x Hx Hf. apply filter_In in Hf. destruct Hf as [_ Hf].
    apply negb_true_iff in Hf. apply mem_z_In in Hx. congruence.
  - apply zrange_NoDup.
  - intros a. rewrite in_app_iff, filter_In, zrange_In, negb_true_iff. split.
    + intros [Ha|[Ha _]]; auto.
    + intros Ha. destruct (mem_z a ca) eqn:E; [left; apply mem_z_In; exact E|right; auto].
Qed.

(* ------------------------------------------------------------------ gather / unpermute / inv_perm *)
Lemma znth_cons_S {A} (x : A) l k d : 0 <= k -> znth (x :: l) (k + 1) d = znth l k d.
Proof. intros H. unfold znth. replace (Z.to_nat (k + 1)) with (S (Z.to_nat k)) by lia. reflexivity. Qed.

Lemma nth_in_range sh : forall ix k,
  in_range sh ix -> (k < length sh)%nat -> 0 <= nth k ix 0 < nth k sh 0.
Proof.
  induction sh as [|d sh IH]; intros [|i ix] k H Hk; simpl in *; try tauto; try lia.
  destruct H as [Hi H]. destruct k; [assumption|]. apply IH; [assumption|lia].
Qed.

Lemma gather_in_range sh ix axes :
  in_range sh ix -> (forall a, In a axes -> 0 <= a < Z.of_nat (length sh)) ->
  in_range (gather sh axes) (gather ix axes).
Proof.
  intros Hix. induction axes as [|a axes IH]; intros Ha; simpl; [exact I|]. split.
  - unfold znth. apply nth_in_range; [assumption|]. specialize (Ha a (or_introl eq_refl)). lia.
  - apply IH. intros; apply Ha; right; assumption.
Qed.

Lemma gather_length t axes : length (gather t axes) = length axes.
Proof. unfold gather. apply map_length. Qed.

Lemma map_nth_seq {A} (t : list A) d : map (fun k => nth k t d) (seq 0 (length t)) = t.
Proof.
  induction t as [|x t IH]; [reflexivity|]. simpl. f_equal.
  rewrite <- seq_shift, map_map. exact IH.
Qed.

Lemma gather_zrange t : gather t (zrange (Z.of_nat (length t))) = t.
Proof.
  unfold gather, zrange, znth. rewrite Nat2Z.id, map_map.
  erewrite map_ext; [apply map_nth_seq|]. intros k. simpl. rewrite Nat2Z.id. reflexivity.
Qed.

Lemma index_of_nonneg a l : 0 <= index_of a l.
Proof. induction l as [|x r IH]; simpl; [lia|]. destruct (x =? a); lia. Qed.

Lemma znth_index_of {A} (f : Z -> A) a ord d :
  In a ord -> znth (map f ord) (index_of a ord) d = f a.
Proof.
  induction ord as [|x r IH]; simpl; [tauto|]. intros H.
  destruct (Z.eqb_spec x a) as [->|Hne]; [reflexivity|].
  destruct H as [H|H]; [congruence|].
  rewrite Z.add_comm, znth_cons_S by apply index_of_nonneg. apply IH. exact H.
Qed.

Lemma gather_inv_perm n ord t :
  perm_of n ord -> length t = n -> gather (gather t ord) (inv_perm ord) = t.
Proof.
  intros Hp Hl. unfold inv_perm.
  assert (Hlen : length ord = n) by (apply Permutation_length in Hp; rewrite zrange_length in Hp; lia).
  rewrite Hlen. transitivity (gather t (zrange (Z.of_nat n))); [|subst n; apply gather_zrange].
  unfold gather at 1. rewrite map_map. unfold gather at 2.
  apply map_ext_in. intros a Ha. unfold gather. apply (znth_index_of (fun a => znth t a 0)).
  eapply Permutation_in; [apply Permutation_sym; exact Hp|exact Ha].
Qed.

Lemma find_combine_map {A} (f : Z -> A) a ord :
  In a ord -> find (fun p => fst p =? a) (combine ord (map f ord)) = Some (a, f a).
Proof.
  induction ord as [|x r IH]; simpl; [tauto|]. intros H.
  destruct (Z.eqb_spec x a) as [->|Hne]; [reflexivity|]. destruct H; [congruence|auto].
Qed.

Lemma unpermute_gather n ord t :
  perm_of n ord -> length t = n -> unpermute ord (gather t ord) = t.
Proof.
  intros Hp Hl. unfold unpermute.
  assert (Hlen : length ord = n) by (apply Permutation_length in Hp; rewrite zrange_length in Hp; lia).
  rewrite Hlen. transitivity (gather t (zrange (Z.of_nat n))); [|subst n; apply gather_zrange].
  unfold gather at 2.
  apply map_ext_in. intros a Ha. unfold gather. rewrite (find_combine_map (fun a => znth t a 0)); [reflexivity|].
  eapply Permutation_in; [apply Permutation_sym; exact Hp|exact Ha].
Qed.

Lemma perm_of_range n ord a : perm_of n ord -> In a ord -> 0 <= a < Z.of_nat n.
Proof. intros Hp Ha. apply zrange_In. eapply Permutation_in; eauto. Qed.

Lemma perm_of_length n ord : perm_of n ord -> length ord = n.
Proof. intros Hp. apply Permutation_length in Hp. rewrite zrange_length in Hp. lia. Qed.

(* ------------------------------------------------------------------ sizes *)
Lemma size_app l1 l2 : size (l1 ++ l2) = size l1 * size l2.
Proof. induction l1 as [|d l1 IH]; simpl; [lia|]. rewrite IH. lia. Qed.

Lemma shape_ok_gather sh axes : shape_ok sh -> shape_ok (gather sh axes).
Proof.
  intros Hok. unfold shape_ok, gather. rewrite Forall_map. apply Forall_forall. intros a _.
  unfold znth. destruct (nth_in_or_default (Z.to_nat a) sh 0) as [Hin|E]; [|rewrite E; lia].
  unfold shape_ok in Hok. rewrite Forall_forall in Hok. apply Hok. exact Hin.
Qed.
