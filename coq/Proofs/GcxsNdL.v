(* Proofs/GcxsNdL.v — list / mixed-radix lemmas for the n-d GCXS getitem theorem: row-major positions over a
   list of axes (rav), dropping unit axes, convert_to_flat over a list of axes, positions in a sublist. *)
From Coq Require Import ZArith List Bool Lia Sorting.Sorted Sorting.Permutation.
From Verif Require Import Py PySlice Shape COO COOP GCXS Convert ConvertL ConvertG NpIndex CooIndex
     CooIndexMaskP GcxsIndex GcxsIndexP GcxsGetitem GcxsGetitemP.
Import ListNotations.
Open Scope Z_scope.

(* ================================================================ row-major position over a list of axes *)
Definition rav (S D : Z -> Z) (axes : list Z) : Z := ravel (map S axes) (map D axes).

Lemma rav_cons S D a axes : rav S D (a :: axes) = D a * size (map S axes) + rav S D axes.
Proof. reflexivity. Qed.

Lemma size_cons d sh : size (d :: sh) = d * size sh.
Proof. reflexivity. Qed.

Lemma rav_app S D a1 a2 : rav S D (a1 ++ a2) = rav S D a1 * size (map S a2) + rav S D a2.
Proof.
  induction a1 as [|a r IH]; [unfold rav at 2; simpl; lia|].
  cbn [app]. rewrite !rav_cons, IH, map_app, size_app. ring.
Qed.

Lemma rav_filter (S D : Z -> Z) (kept : Z -> bool) (axes : list Z) :
  (forall a, In a axes -> kept a = false -> S a = 1 /\ D a = 0) ->
  rav S D axes = rav S D (filter kept axes) /\ size (map S axes) = size (map S (filter kept axes)).
Proof.
  induction axes as [|a r IH]; intros H; [split; reflexivity|].
  destruct IH as [IH1 IH2]; [intros; apply H; [right|]; assumption|].
  cbn [filter]. destruct (kept a) eqn:E.
  - rewrite !rav_cons. cbn [map]. rewrite !size_cons, IH1, IH2. split; reflexivity.
  - destruct (H a (or_introl eq_refl) E) as [HS HD]. rewrite rav_cons. cbn [map]. rewrite size_cons, HS, HD, IH1, IH2. split; lia.
Qed.

Lemma in_range_map (S D : Z -> Z) (axes : list Z) : in_range (map S axes) (map D axes) <-> forall a, In a axes -> 0 <= D a < S a.
Proof.
  induction axes as [|a r IH]; simpl; [split; [intros _ b Hb; destruct Hb|auto]|].
  rewrite IH. split.
  - intros [H1 H2] b [<-|Hb]; auto.
  - intros H. split; [apply H; left; reflexivity|intros b Hb; apply H; right; exact Hb].
Qed.

Lemma rav_bounds (S D : Z -> Z) (axes : list Z) : (forall a, In a axes -> 0 <= D a < S a) -> 0 <= rav S D axes < size (map S axes).
Proof. intros H. apply ravel_bounds. apply in_range_map. exact H. Qed.

Lemma rav_ext (S S' D D' : Z -> Z) (axes : list Z) :
  (forall a, In a axes -> S a = S' a /\ D a = D' a) -> rav S D axes = rav S' D' axes.
Proof.
  intros H. unfold rav. f_equal; apply map_ext_in; intros a Ha; apply (H a Ha).
Qed.

(* ================================================================ convert_to_flat over a list of axes *)
Section Flat.
  Variable W : Z -> list Z.            (* what is selected along every axis *)
  Variable S : Z -> Z.                 (* the extents *)
  Let L (a : Z) : Z := Z.of_nat (length (W a)).

  Lemma lens_of_map axes : lens_of (map W axes) = map L axes.
  Proof. unfold lens_of. rewrite map_map. reflexivity. Qed.

  Lemma zats_map D axes : zats (map W axes) (map D axes) = map (fun a => zat (W a) (D a)) axes.
  Proof. induction axes as [|a r IH]; [reflexivity|]. cbn [map zats]. rewrite IH. reflexivity. Qed.

  Lemma flat_length axes : Z.of_nat (length (convert_to_flat (map W axes) (map S axes))) = size (map L axes).
  Proof.
    rewrite convert_to_flat_ravel by (rewrite !map_length; reflexivity).
    rewrite map_length, prod_lists_length, lens_of_map. reflexivity.
  Qed.

  Lemma flat_nth D axes : (forall a, In a axes -> 0 <= D a < L a) ->
    nth (Z.to_nat (rav L D axes)) (convert_to_flat (map W axes) (map S axes)) 0
    = rav S (fun a => zat (W a) (D a)) axes.
  Proof.
    intros HD. rewrite convert_to_flat_ravel by (rewrite !map_length; reflexivity).
    assert (Hr : in_range (lens_of (map W axes)) (map D axes)) by (rewrite lens_of_map; apply in_range_map; exact HD).
    pose proof (nth_prod (map W axes) (map D axes) Hr) as E. rewrite lens_of_map in E. fold (rav L D axes) in E.
    pose proof (rav_bounds L D axes HD) as Hb.
    rewrite (nth_indep _ 0 (ravel (map S axes) [])).
    - rewrite map_nth. unfold rav at 2. f_equal. etransitivity; [exact E|apply zats_map].
    - rewrite map_length. pose proof (prod_lists_length (map W axes)) as Hl. rewrite lens_of_map in Hl.
      assert (H : (Z.to_nat (rav L D axes) < length (prod_lists (map W axes)))%nat) by lia. exact H.
  Qed.

  Lemma flat_bounds axes : (forall a x, In a axes -> In x (W a) -> 0 <= x < S a) ->
    Forall (fun x => 0 <= x < size (map S axes)) (convert_to_flat (map W axes) (map S axes)).
  Proof.
    intros H. rewrite convert_to_flat_ravel by (rewrite !map_length; reflexivity).
    apply Forall_forall. intros x Hx. apply in_map_iff in Hx. destruct Hx as [t [<- Ht]].
    apply in_prod in Ht. destruct Ht as [Hl HF]. apply ravel_bounds.
    clear Hl. revert t HF. induction axes as [|a r IH]; intros t HF.
    - inversion HF. exact I.
    - cbn [map] in HF. inversion HF as [|v l t' ls Hv HF']; subst. cbn [map in_range]. split.
      + apply (H a v (or_introl eq_refl) Hv).
      + apply IH; [intros b x Hb; apply H; right; exact Hb|exact HF'].
  Qed.
End Flat.

(* ================================================================ convert_to_flat of ascending selectors is ascending *)
Lemma SS_blocks (f : Z -> list Z) (sz : Z) : forall l,
  StronglySorted Z.lt l ->
  (forall a, In a l -> StronglySorted Z.lt (f a) /\ forall x, In x (f a) -> a * sz <= x < (a + 1) * sz) ->
  StronglySorted Z.lt (flat_map f l).
Proof.
  induction l as [|a r IH]; intros Hs H; [constructor|].
  inversion Hs as [|? ? Hs' Hall]; subst. cbn [flat_map]. apply SS_app.
  - apply (H a (or_introl eq_refl)).
  - apply IH; [exact Hs'|intros b Hb; apply H; right; exact Hb].
  - intros x y Hx Hy. apply in_flat_map in Hy. destruct Hy as [b [Hb Hy]].
    rewrite Forall_forall in Hall. specialize (Hall b Hb).
    destruct (H a (or_introl eq_refl)) as [_ Ha]. destruct (H b (or_intror Hb)) as [_ Hb'].
    specialize (Ha x Hx). specialize (Hb' y Hy).
    assert (0 <= sz \/ sz < 0) as [Hz|Hz] by lia; nia.
Qed.

Lemma SS_map_add (k : Z) l : StronglySorted Z.lt l -> StronglySorted Z.lt (map (Z.add k) l).
Proof.
  induction 1 as [|a l Hs IH Hall]; [constructor|]. cbn [map]. constructor; [exact IH|].
  rewrite Forall_map. eapply Forall_impl; [|exact Hall]. intros b Hb. simpl in Hb. lia.
Qed.

Lemma flat_SS (W : Z -> list Z) (S : Z -> Z) : forall axes,
  (forall a, In a axes -> StronglySorted Z.lt (W a)) ->
  (forall a x, In a axes -> In x (W a) -> 0 <= x < S a) ->
  StronglySorted Z.lt (convert_to_flat (map W axes) (map S axes)).
Proof.
  induction axes as [|a r IH]; intros Hs Hb.
  - unfold convert_to_flat. simpl. repeat constructor.
  - pose proof (flat_bounds W S r (fun b x Hb' => Hb b x (or_intror Hb'))) as HB.
    specialize (IH (fun b Hb' => Hs b (or_intror Hb')) (fun b x Hb' => Hb b x (or_intror Hb'))).
    rewrite convert_to_flat_ravel in * by (rewrite !map_length; reflexivity).
    cbn [map prod_lists]. rewrite map_flat_map.
    set (R := map (ravel (map S r)) (prod_lists (map W r))) in *.
    assert (E : flat_map (fun x => map (ravel (S a :: map S r)) (map (cons x) (prod_lists (map W r)))) (W a)
                = flat_map (fun x => map (Z.add (x * size (map S r))) R) (W a)).
    { apply flat_map_ext. intros x. unfold R. rewrite !map_map. apply map_ext. intros t. reflexivity. }
    rewrite E. apply (SS_blocks _ (size (map S r))); [apply Hs; left; reflexivity|].
    intros x Hx. split; [apply SS_map_add; exact IH|].
    intros y Hy. apply in_map_iff in Hy. destruct Hy as [z [<- Hz]]. rewrite Forall_forall in HB. specialize (HB z Hz). lia.
Qed.

(* ================================================================ positions in a duplicate-free list of axes *)
Lemma index_of_bounds a K : In a K -> 0 <= index_of a K < Z.of_nat (length K).
Proof.
  induction K as [|x r IH]; simpl; [tauto|]. intros H.
  destruct (Z.eqb_spec x a) as [->|Hne]; [lia|]. destruct H as [H|H]; [congruence|]. specialize (IH H). lia.
Qed.

Lemma index_of_inj K a b : In a K -> In b K -> index_of a K = index_of b K -> a = b.
Proof.
  induction K as [|x r IH]; simpl; [tauto|]. intros Ha Hb.
  destruct (Z.eqb_spec x a) as [Ea|Hna], (Z.eqb_spec x b) as [Eb|Hnb].
  - intros _. congruence.
  - pose proof (index_of_nonneg b r). lia.
  - pose proof (index_of_nonneg a r). lia.
  - intros E. destruct Ha as [?|Ha]; [congruence|]. destruct Hb as [?|Hb]; [congruence|]. apply IH; auto. lia.
Qed.

Lemma zrange_S n : zrange (Z.of_nat (S n)) = 0 :: map (Z.add 1) (zrange (Z.of_nat n)).
Proof.
  unfold zrange. rewrite !Nat2Z.id. cbn [seq map]. f_equal. rewrite <- seq_shift, !map_map.
  apply map_ext. intros k. lia.
Qed.

Lemma map_znth_index_of (t : list Z) : forall K, NoDup K -> length t = length K ->
  map (fun a => znth t (index_of a K) 0) K = t.
Proof.
  induction t as [|y t IH]; intros [|x r] Hnd Hl; try discriminate; [reflexivity|].
  inversion Hnd as [|? ? Hx Hnd']; subst. cbn [map index_of]. rewrite Z.eqb_refl, znth_0. f_equal.
  transitivity (map (fun a => znth t (index_of a r) 0) r); [|apply (IH r Hnd'); simpl in Hl; lia]. apply map_ext_in. intros a Ha.
  destruct (Z.eqb_spec x a) as [->|Hne]; [contradiction|].
  rewrite Z.add_comm, znth_cons_S by apply index_of_nonneg. reflexivity.
Qed.

Lemma map_index_of_self : forall K, NoDup K -> map (fun a => index_of a K) K = zrange (Z.of_nat (length K)).
Proof.
  induction K as [|x r IH]; intros Hnd; [reflexivity|].
  inversion Hnd as [|? ? Hx Hnd']; subst. cbn [length]. rewrite zrange_S. cbn [map index_of]. rewrite Z.eqb_refl. f_equal.
  rewrite <- (IH Hnd'), map_map. apply map_ext_in. intros a Ha.
  destruct (Z.eqb_spec x a) as [->|Hne]; [contradiction|reflexivity].
Qed.

Lemma filter_map_comm {A B} (p : B -> bool) (f : A -> B) l : filter p (map f l) = map f (filter (fun a => p (f a)) l).
Proof. induction l as [|a r IH]; [reflexivity|]. cbn [map filter]. destruct (p (f a)); cbn [map]; rewrite IH; reflexivity. Qed.

Lemma filter_filter_comm {A} (p q : A -> bool) l : filter p (filter q l) = filter q (filter p l).
Proof.
  induction l as [|a r IH]; [reflexivity|]. cbn [filter].
  destruct (p a) eqn:Ep, (q a) eqn:Eq; cbn [filter]; rewrite ?Ep, ?Eq, IH; reflexivity.
Qed.

Lemma filter_and {A} (p q : A -> bool) l : filter (fun a => p a && q a) l = filter q (filter p l).
Proof.
  induction l as [|a r IH]; [reflexivity|]. cbn [filter].
  destruct (p a) eqn:Ep; cbn [andb filter]; [destruct (q a); rewrite IH; reflexivity|exact IH].
Qed.

(* the axis order of the result: compressed axes first, then the others, both as positions in K *)
Lemma order_in_sublist (K : list Z) (P : Z -> bool) : NoDup K ->
  let idx := fun a => index_of a K in
  axis_order (Z.of_nat (length K)) (map idx (filter P K)) = map idx (filter P K ++ filter (fun a => negb (P a)) K).
Proof.
  intros Hnd idx. unfold axis_order. rewrite map_app. f_equal.
  rewrite <- (map_index_of_self K Hnd). fold idx. rewrite filter_map_comm. f_equal.
  apply filter_ext_in. intros a Ha. f_equal.
  destruct (P a) eqn:E.
  - apply mem_z_In. apply in_map. apply filter_In. auto.
  - destruct (mem_z (idx a) (map idx (filter P K))) eqn:M; [|reflexivity].
    apply mem_z_In in M. apply in_map_iff in M. destruct M as [b [Eb Hb]]. apply filter_In in Hb. destruct Hb as [Hb Pb].
    apply (index_of_inj K b a Hb Ha) in Eb. subst b. congruence.
Qed.

Lemma zrange_SS n : StronglySorted Z.lt (zrange n).
Proof.
  unfold zrange. generalize (Z.to_nat n) as m. intros m. generalize 0%nat as o.
  induction m as [|m IH]; intros o; [constructor|]. cbn [seq map]. constructor; [apply IH|].
  apply Forall_forall. intros x Hx. apply in_map_iff in Hx. destruct Hx as [k [<- Hk]]. apply in_seq in Hk. lia.
Qed.

Lemma SS_filter {A} (R : A -> A -> Prop) (p : A -> bool) l : StronglySorted R l -> StronglySorted R (filter p l).
Proof.
  induction 1 as [|a l Hs IH Hall]; [constructor|]. cbn [filter]. destruct (p a); [|exact IH].
  constructor; [exact IH|]. apply Forall_forall. intros x Hx. apply filter_In in Hx. rewrite Forall_forall in Hall. apply Hall. tauto.
Qed.

Lemma SS_Z_unique (l1 l2 : list Z) :
  StronglySorted Z.lt l1 -> StronglySorted Z.lt l2 -> (forall x, In x l1 <-> In x l2) -> l1 = l2.
Proof.
  intros H1. revert l2. induction H1 as [|a l1 Hs1 IH Hall1]; intros l2 H2 Hm.
  - destruct l2 as [|b l2]; [reflexivity|]. exfalso. apply (Hm b). left; reflexivity.
  - destruct H2 as [|b l2 Hs2 Hall2]; [exfalso; apply (Hm a); left; reflexivity|].
    rewrite Forall_forall in Hall1, Hall2.
    assert (a = b).
    { destruct (proj1 (Hm a) (or_introl eq_refl)) as [->|Ha]; [reflexivity|].
      destruct (proj2 (Hm b) (or_introl eq_refl)) as [->|Hb]; [reflexivity|].
      specialize (Hall1 _ Hb). specialize (Hall2 _ Ha). lia. }
    subst b. f_equal. apply IH; [assumption|].
    intros x. split; intros Hx.
    + destruct (proj1 (Hm x) (or_intror Hx)) as [->|?]; [|assumption]. specialize (Hall1 _ Hx). lia.
    + destruct (proj2 (Hm x) (or_intror Hx)) as [->|?]; [|assumption]. specialize (Hall2 _ Hx). lia.
Qed.

Lemma filter_mem_sorted ca n :
  StronglySorted Z.lt ca -> (forall a, In a ca -> 0 <= a < n) -> filter (fun a => mem_z a ca) (zrange n) = ca.
Proof.
  intros Hs Hr. apply SS_Z_unique; [apply SS_filter, zrange_SS|exact Hs|].
  intros x. rewrite filter_In, zrange_In, mem_z_In. split; [tauto|]. intros H. split; [apply Hr; exact H|exact H].
Qed.

(* number of kept axes below a = position of a among the kept axes *)
Lemma zrange_split a n : 0 <= a <= n -> zrange n = zrange a ++ map Z.of_nat (seq (Z.to_nat a) (Z.to_nat n - Z.to_nat a)).
Proof.
  intros H. unfold zrange. rewrite <- map_app. f_equal.
  replace (Z.to_nat n) with (Z.to_nat a + (Z.to_nat n - Z.to_nat a))%nat at 1 by lia. apply seq_app.
Qed.

Lemma index_of_app_mid a l1 l2 : ~ In a l1 -> index_of a (l1 ++ a :: l2) = Z.of_nat (length l1).
Proof.
  induction l1 as [|x r IH]; intros Hn; cbn [app index_of length]; [rewrite Z.eqb_refl; reflexivity|].
  destruct (Z.eqb_spec x a) as [->|Hne]; [exfalso; apply Hn; left; reflexivity|].
  rewrite IH by (intros H; apply Hn; right; exact H). lia.
Qed.

Lemma index_of_kept (kl : list bool) (a : Z) :
  let keptf := fun b => nth (Z.to_nat b) kl false in
  0 <= a < Z.of_nat (length kl) -> keptf a = true ->
  index_of a (filter keptf (zrange (Z.of_nat (length kl)))) = Z.of_nat (length (filter (fun b : bool => b) (firstn (Z.to_nat a) kl))).
Proof.
  intros keptf Ha Hk. rewrite (zrange_split a (Z.of_nat (length kl))) by lia. rewrite filter_app.
  replace (Z.to_nat (Z.of_nat (length kl)) - Z.to_nat a)%nat with (S (length kl - Z.to_nat a - 1)) by lia.
  cbn [seq map filter]. rewrite Z2Nat.id by lia. rewrite Hk.
  rewrite index_of_app_mid by (intros H; apply filter_In in H; destruct H as [H _]; apply zrange_In in H; lia).
  f_equal. unfold zrange.
  assert (E : firstn (Z.to_nat a) kl = map (fun k => nth k kl false) (seq 0 (Z.to_nat a))).
  { assert (Hle : (Z.to_nat a <= length kl)%nat) by lia. revert Hle. generalize (Z.to_nat a) as m. clear.
    induction kl as [|b kl IH]; intros m Hm.
    - simpl in Hm. assert (m = 0%nat) by lia. subst. reflexivity.
    - destruct m as [|m]; [reflexivity|]. cbn [firstn seq map nth]. f_equal. rewrite <- seq_shift, map_map. apply IH. simpl in Hm. lia. }
  rewrite E. rewrite !filter_map_comm, !map_length. f_equal. apply filter_ext. intros k. unfold keptf. rewrite Nat2Z.id. reflexivity.
Qed.
