(* Proofs/DOKP.v — the DOK state machine refines a dense NumPy array (property C12). *)
From Coq Require Import ZArith List Bool Lia ZifyBool Sorting Permutation.
From Verif Require Import Py PyExt G_slicing G_dok PySlice Shape Slicing SlicingP COO NpIndex CooIndex
     CooIndexNormP CooIndexP NpAssign DOK.
Import ListNotations.
Open Scope Z_scope.

(* ------------------------------------------------------------------ small list facts *)
Lemma idx_eqb_sym a b : idx_eqb a b = idx_eqb b a.
Proof.
  destruct (idx_eqb a b) eqn:E; symmetry.
  - apply idx_eqb_eq in E. subst. apply idx_eqb_refl.
  - destruct (idx_eqb b a) eqn:E2; [|reflexivity].
    apply idx_eqb_eq in E2. subst. rewrite idx_eqb_refl in E. discriminate.
Qed.

Lemma idx_eqb_neq a b : idx_eqb a b = false <-> a <> b.
Proof.
  split.
  - intros E H. subst. rewrite idx_eqb_refl in E. discriminate.
  - intros H. destruct (idx_eqb a b) eqn:E; [|reflexivity]. apply idx_eqb_eq in E. contradiction.
Qed.

Section StateFacts.
  Variable V : Type.
  Variable veqb : V -> V -> bool.
  Hypothesis veqb_eq : forall a b, veqb a b = true <-> a = b.
  Variable fill : V.

  Notation state := (state V).
  Notation abs := (abs fill).
  Notation store := (store veqb fill).

  Lemma lookup_insert k v (st : state) k' :
    lookup (insert k v st) k' = if idx_eqb k k' then Some v else lookup st k'.
  Proof.
    induction st as [|[k1 v1] r IH]; simpl.
    - reflexivity.
    - destruct (idx_eqb k k1) eqn:E1.
      + apply idx_eqb_eq in E1. subst k1. simpl. destruct (idx_eqb k k'); reflexivity.
      + destruct (lex_ltb k k1) eqn:E2; simpl.
        * reflexivity.
        * rewrite IH. destruct (idx_eqb k k') eqn:E3; [|reflexivity].
          apply idx_eqb_eq in E3. subst k'. rewrite idx_eqb_sym, E1. reflexivity.
  Qed.

  Lemma lookup_remove k (st : state) k' :
    lookup (remove k st) k' = if idx_eqb k k' then None else lookup st k'.
  Proof.
    induction st as [|[k1 v1] r IH]; simpl.
    - destruct (idx_eqb k k'); reflexivity.
    - destruct (idx_eqb k k1) eqn:E1.
      + apply idx_eqb_eq in E1. subst k1. rewrite IH. destruct (idx_eqb k k'); reflexivity.
      + simpl. rewrite IH. destruct (idx_eqb k k') eqn:E3; [|reflexivity].
        apply idx_eqb_eq in E3. subst k'. rewrite idx_eqb_sym, E1. reflexivity.
  Qed.

  Lemma abs_store k x (st : state) ix :
    abs (store k x st) ix = if idx_eqb ix k then x else abs st ix.
  Proof.
    unfold DOK.abs, DOK.store. rewrite (idx_eqb_sym ix k).
    destruct (veqb x fill) eqn:E.
    - apply veqb_eq in E. subst x. rewrite lookup_remove. destruct (idx_eqb k ix); reflexivity.
    - rewrite lookup_insert. destruct (idx_eqb k ix); reflexivity.
  Qed.

  (* ---------------------------------------------------------------- invariant *)
  Definition keys (st : state) : list idx := map fst st.

  Definition wf (sh : shape) (st : state) : Prop :=
    Sorted lex_lt (keys st) /\ Forall (in_range sh) (keys st) /\
    Forall (fun kv => veqb (snd kv) fill = false) st.

  Definition pruned (st : state) : Prop := Forall (fun kv => veqb (snd kv) fill = false) st.

  Lemma pruned_insert k v st : veqb v fill = false -> pruned st -> pruned (insert k v st).
  Proof.
    intros Hv. unfold pruned. induction st as [|[k1 v1] r IH]; simpl; intros H.
    - constructor; [assumption|constructor].
    - inversion H as [|? ? H1 H2]; subst.
      destruct (idx_eqb k k1); [constructor; assumption|].
      destruct (lex_ltb k k1); [constructor; [assumption|constructor; assumption]|].
      constructor; [assumption|apply IH; assumption].
  Qed.

  Lemma pruned_remove k st : pruned st -> pruned (remove k st).
  Proof.
    unfold pruned. induction st as [|[k1 v1] r IH]; simpl; intros H; [constructor|].
    inversion H; subst. destruct (idx_eqb k k1); [auto|constructor; auto].
  Qed.

  Lemma pruned_store k x st : pruned st -> pruned (store k x st).
  Proof.
    unfold DOK.store. destruct (veqb x fill) eqn:E; [apply pruned_remove|apply pruned_insert; assumption].
  Qed.

  Lemma lex_trichotomy sh a b : in_range sh a -> in_range sh b -> lex_lt a b \/ a = b \/ lex_lt b a.
  Proof.
    intros Ha Hb. destruct (Z.lt_trichotomy (ravel sh a) (ravel sh b)) as [H|[H|H]].
    - left. apply (ravel_lex sh); assumption.
    - right; left. eapply ravel_inj; eassumption.
    - right; right. apply (ravel_lex sh); assumption.
  Qed.

  Lemma keys_insert_In k v st x : In x (keys (insert k v st)) -> x = k \/ In x (keys st).
  Proof.
    induction st as [|[k1 v1] r IH]; simpl.
    - intros [H|[]]; auto.
    - destruct (idx_eqb k k1) eqn:E1; simpl.
      + intros [H|H]; auto.
      + destruct (lex_ltb k k1); simpl.
        * intros [H|[H|H]]; auto.
        * intros [H|H]; auto. destruct (IH H); auto.
  Qed.

  Lemma keys_remove_In k st x : In x (keys (remove k st)) -> In x (keys st).
  Proof.
    induction st as [|[k1 v1] r IH]; simpl; [tauto|].
    destruct (idx_eqb k k1); simpl; [auto|]. intros [H|H]; auto.
  Qed.

  Lemma hdrel_insert a k v st :
    lex_lt a k -> HdRel lex_lt a (keys st) -> HdRel lex_lt a (keys (insert k v st)).
  Proof.
    intros Hak H. destruct st as [|[k1 v1] r]; simpl.
    - constructor; assumption.
    - destruct (idx_eqb k k1); [constructor; assumption|].
      destruct (lex_ltb k k1); constructor; [assumption|].
      inversion H; assumption.
  Qed.

  Lemma sorted_insert sh k v st :
    in_range sh k -> Forall (in_range sh) (keys st) -> Sorted lex_lt (keys st) ->
    Sorted lex_lt (keys (insert k v st)).
  Proof.
    intros Hk. induction st as [|[k1 v1] r IH]; simpl; intros Hr Hs.
    - repeat constructor.
    - inversion Hr as [|? ? Hr1 Hr2]; subst. inversion Hs as [|? ? Hs1 Hs2]; subst.
      destruct (idx_eqb k k1) eqn:E1.
      + apply idx_eqb_eq in E1. subst k1. simpl. constructor; assumption.
      + destruct (lex_ltb k k1) eqn:E2.
        * apply lex_ltb_spec in E2. simpl. constructor; [assumption|constructor; assumption].
        * simpl. constructor; [apply IH; assumption|].
          apply hdrel_insert; [|assumption].
          destruct (lex_trichotomy sh k k1 Hk Hr1) as [H|[H|H]]; [| |assumption].
          -- apply lex_ltb_spec in H. congruence.
          -- subst. rewrite idx_eqb_refl in E1. discriminate.
  Qed.

  Lemma hdrel_remove a k st :
    Sorted lex_lt (keys st) -> HdRel lex_lt a (keys st) -> HdRel lex_lt a (keys (remove k st)).
  Proof.
    induction st as [|[k1 v1] r IH]; simpl; intros Hs H; [constructor|].
    inversion Hs as [|? ? Hs1 Hs2]; subst. inversion H as [|? ? Hak]; subst.
    destruct (idx_eqb k k1); [|constructor; assumption].
    apply IH; [assumption|].
    destruct r as [|[k2 v2] r2]; [constructor|]. simpl in *. constructor.
    inversion Hs2; subst. eapply lex_lt_trans; eassumption.
  Qed.

  Lemma sorted_remove k st : Sorted lex_lt (keys st) -> Sorted lex_lt (keys (remove k st)).
  Proof.
    induction st as [|[k1 v1] r IH]; simpl; intros Hs; [constructor|].
    inversion Hs as [|? ? Hs1 Hs2]; subst.
    destruct (idx_eqb k k1); [auto|]. simpl. constructor; [auto|].
    apply hdrel_remove; assumption.
  Qed.

  Lemma wf_store sh k x st : in_range sh k -> wf sh st -> wf sh (store k x st).
  Proof.
    intros Hk (Hs & Hr & Hp). split; [|split].
    - unfold DOK.store. destruct (veqb x fill); [apply sorted_remove; assumption|].
      eapply sorted_insert; eassumption.
    - apply Forall_forall. intros y Hy. rewrite Forall_forall in Hr.
      unfold DOK.store in Hy. destruct (veqb x fill).
      + apply Hr. eapply keys_remove_In; eassumption.
      + apply keys_insert_In in Hy. destruct Hy as [->|Hy]; auto.
    - apply pruned_store. assumption.
  Qed.

  Lemma wf_nil sh : wf sh [].
  Proof. repeat split; constructor. Qed.

  (* sorted keys are distinct; lookup finds exactly the stored pairs *)
  Lemma sorted_hd_notin k (l : list idx) : Sorted lex_lt (k :: l) -> ~ In k l.
  Proof.
    intros Hs. apply Sorted_StronglySorted in Hs; [|exact lex_lt_trans].
    inversion Hs as [|? ? _ Hall]; subst. intros Hin.
    rewrite Forall_forall in Hall. apply (lex_lt_irrefl k). apply Hall. assumption.
  Qed.

  Lemma sorted_nodup (l : list idx) : Sorted lex_lt l -> NoDup l.
  Proof.
    induction l as [|k l IH]; intros Hs; constructor.
    - apply sorted_hd_notin. assumption.
    - apply IH. inversion Hs; assumption.
  Qed.

  Lemma lookup_none (st : state) k : ~ In k (keys st) -> lookup st k = None.
  Proof.
    induction st as [|[k1 v1] r IH]; simpl; intros H; [reflexivity|].
    destruct (idx_eqb k1 k) eqn:E.
    - apply idx_eqb_eq in E. subst. tauto.
    - apply IH. tauto.
  Qed.

  Lemma lookup_in (st : state) k v : NoDup (keys st) -> In (k, v) st -> lookup st k = Some v.
  Proof.
    induction st as [|[k1 v1] r IH]; simpl; intros Hn Hin; [tauto|].
    inversion Hn as [|? ? Hn1 Hn2]; subst.
    destruct Hin as [H|H].
    - inversion H; subst. rewrite idx_eqb_refl. reflexivity.
    - destruct (idx_eqb k1 k) eqn:E.
      + apply idx_eqb_eq in E. subst. exfalso. apply Hn1. apply (in_map fst) in H. exact H.
      + apply IH; assumption.
  Qed.

  Lemma lookup_some_in (st : state) k v : lookup st k = Some v -> In (k, v) st.
  Proof.
    induction st as [|[k1 v1] r IH]; simpl; [discriminate|].
    destruct (idx_eqb k1 k) eqn:E.
    - apply idx_eqb_eq in E. subst. intros H. inversion H. auto.
    - auto.
  Qed.
End StateFacts.

(* ------------------------------------------------------------------ broadcasting facts *)
Lemma bcast_ok_r_app_short a b c :
  (length a <= length b)%nat -> bcast_ok_r a (b ++ c) = bcast_ok_r a b.
Proof.
  revert b. induction a as [|d a IH]; intros b Hl; [reflexivity|].
  destruct b as [|s b]; simpl in *; [lia|]. rewrite IH by lia. reflexivity.
Qed.

Lemma bcast_ok_r_app_eq a b d s :
  length a = length b ->
  bcast_ok_r (a ++ [d]) (b ++ [s]) = bcast_ok_r a b && ((d =? 1) || (d =? s)).
Proof.
  revert b. induction a as [|x a IH]; intros b Hl; destruct b as [|y b]; simpl in *; try discriminate.
  - rewrite andb_true_r. reflexivity.
  - rewrite IH by lia. rewrite andb_assoc. reflexivity.
Qed.

Lemma bidx_r_app_short a b c :
  (length a <= length b)%nat -> bidx_r a (b ++ c) = bidx_r a b.
Proof.
  revert b. induction a as [|d a IH]; intros b Hl; [reflexivity|].
  destruct b as [|s b]; simpl in *; [lia|]. rewrite IH by lia. reflexivity.
Qed.

Lemma bidx_r_app_eq a b d j :
  length a = length b ->
  bidx_r (a ++ [d]) (b ++ [j]) = bidx_r a b ++ [if d =? 1 then 0 else j].
Proof.
  revert b. induction a as [|x a IH]; intros b Hl; destruct b as [|y b]; simpl in *; try discriminate.
  - reflexivity.
  - rewrite IH by lia. reflexivity.
Qed.

(* the two equations the recursion of _setitem uses *)
Lemma bcast_ok_skip vs s ss :
  (length vs <= length ss)%nat -> bcast_ok vs (s :: ss) = bcast_ok vs ss.
Proof.
  intros Hl. unfold bcast_ok. simpl. apply bcast_ok_r_app_short. rewrite !rev_length. assumption.
Qed.

Lemma bcast_ok_cons d vs s ss :
  length vs = length ss -> bcast_ok (d :: vs) (s :: ss) = bcast_ok vs ss && ((d =? 1) || (d =? s)).
Proof.
  intros Hl. unfold bcast_ok. simpl. apply bcast_ok_r_app_eq. rewrite !rev_length. assumption.
Qed.

Lemma bidx_skip vs j js : (length vs <= length js)%nat -> bidx vs (j :: js) = bidx vs js.
Proof.
  intros Hl. unfold bidx. simpl. rewrite bidx_r_app_short; [reflexivity|]. rewrite !rev_length. assumption.
Qed.

Lemma bidx_cons d vs j js :
  length vs = length js -> bidx (d :: vs) (j :: js) = (if d =? 1 then 0 else j) :: bidx vs js.
Proof.
  intros Hl. unfold bidx. simpl. rewrite bidx_r_app_eq by (rewrite !rev_length; assumption).
  rewrite rev_app_distr. reflexivity.
Qed.

Lemma bcast_ok_r_app_long a b d :
  (length b <= length a)%nat -> bcast_ok_r (a ++ [d]) b = bcast_ok_r a b && (d =? 1).
Proof.
  revert b. induction a as [|x a IH]; intros b Hl.
  - destruct b; simpl in *; [rewrite andb_true_r; reflexivity|lia].
  - destruct b as [|y b]; simpl in *.
    + rewrite (IH [] ltac:(simpl; lia)). rewrite andb_assoc. reflexivity.
    + rewrite IH by lia. rewrite andb_assoc. reflexivity.
Qed.

Lemma bidx_r_app_long a b d :
  (length b <= length a)%nat -> bidx_r (a ++ [d]) b = bidx_r a b ++ [0].
Proof.
  revert b. induction a as [|x a IH]; intros b Hl.
  - destruct b; simpl in *; [reflexivity|lia].
  - destruct b as [|y b]; simpl in *.
    + rewrite (IH [] ltac:(simpl; lia)). reflexivity.
    + rewrite IH by lia. reflexivity.
Qed.

(* a value with more axes than the selection: the surplus leading extent must be 1 *)
Lemma bcast_ok_long d vs ss :
  (length ss <= length vs)%nat -> bcast_ok (d :: vs) ss = bcast_ok vs ss && (d =? 1).
Proof.
  intros Hl. unfold bcast_ok. simpl. apply bcast_ok_r_app_long. rewrite !rev_length. assumption.
Qed.

Lemma bidx_long d vs js : (length js <= length vs)%nat -> bidx (d :: vs) js = 0 :: bidx vs js.
Proof.
  intros Hl. unfold bidx. simpl. rewrite bidx_r_app_long by (rewrite !rev_length; assumption).
  rewrite rev_app_distr. reflexivity.
Qed.

Lemma bidx_nil js : bidx [] js = [].
Proof. reflexivity. Qed.

Lemma index_value_fits_bcast elem vs ss : index_value_fits elem vs ss = true -> bcast_ok vs ss = true.
Proof.
  unfold index_value_fits. destruct elem; [|auto]. destruct vs; [reflexivity|discriminate].
Qed.

Lemma value_fits_bcast vs ss : value_fits vs ss = true -> bcast_ok vs ss = true.
Proof.
  unfold value_fits. destruct ss; [|auto]. destruct vs; [reflexivity|discriminate].
Qed.

Lemma locate_length axs : forall t js, locate axs t = Some js -> length js = length (selshape axs).
Proof.
  induction axs as [|[k|ks|] r IH]; intros t js; simpl.
  - destruct t; [|discriminate]. intros H. inversion H. reflexivity.
  - destruct t as [|i t]; [discriminate|]. destruct (i =? k); [apply IH|discriminate].
  - destruct t as [|i t]; [discriminate|].
    destruct (last_pos Z.eqb i ks); [|discriminate].
    destruct (locate r t) eqn:E; [|discriminate].
    intros H. inversion H. simpl. f_equal. eapply IH. eassumption.
  - destruct (locate r t) eqn:E; [|discriminate].
    intros H. inversion H. simpl. f_equal. eapply IH. eassumption.
Qed.

(* ------------------------------------------------------------------ the generated code, per axis *)
(* what clip_slice guarantees about a normalised slice *)
Definition clipped (s e st dim : Z) : Prop :=
  (0 < st -> s <= e <= dim /\ (0 <= s \/ s = e)) /\
  (st < 0 -> e <= s /\ -1 <= e /\ (s <= dim - 1 \/ s = e)).

Definition stepval (c : option Z) : Z := match c with Some z => z | None => 1 end.

Definition norm_triple (r : res pyv) : option (Z * Z * Z) :=
  match r with Ok (VSlice (VInt s) (VInt e) (VInt st)) => Some (s, e, st) | _ => None end.

Lemma norm_triple_some r s e st :
  norm_triple r = Some (s, e, st) -> r = Ok (VSlice (VInt s) (VInt e) (VInt st)).
Proof.
  destruct r as [p|]; [|discriminate].
  destruct p as [| | | |x y z| | |]; try discriminate.
  destruct x; try discriminate; destruct y; try discriminate; destruct z; try discriminate.
  simpl. intros H. inversion H. reflexivity.
Qed.

Lemma norm_clipped a b c dim :
  0 <= dim -> c <> Some 0 ->
  match norm_triple (normalize_slice (VSlice (oz a) (oz b) (oz c)) dim) with
  | Some (s1, e1, st) => st = stepval c /\ clipped s1 e1 st dim
  | None => False
  end.
Proof.
  intros Hd Hc.
  unfold normalize_slice, g_replace_none, g_posify_index, g_clip_slice, clipped, stepval.
  destruct c as [st|]; [assert (st <> 0) by congruence|];
  destruct a as [s|]; destruct b as [e|];
  repeat (cbn; split_one); cbn; lia.
Qed.

(* the bounds block of _setitem is the identity on a clipped slice *)
Lemma dok_bounds_clipped s e st dim :
  clipped s e st dim -> st <> 0 ->
  dok_bounds (VSlice (VInt s) (VInt e) (VInt st)) dim = Ok (s, e, st).
Proof.
  intros Hc Hst. unfold clipped in Hc.
  unfold dok_bounds, g_dok_bounds_pos, g_dok_bounds_neg.
  repeat (cbn; split_one); cbn; repeat f_equal; lia.
Qed.

Lemma wrap_index_some i dim k :
  wrap_index i dim = Some k -> (- dim <= i < dim) /\ k = (if i <? 0 then i + dim else i).
Proof.
  unfold wrap_index. destruct (Z.leb_spec (- dim) i); destruct (Z.ltb_spec i dim); simpl; try discriminate.
  intros Hw. inversion Hw. split; [lia|reflexivity].
Qed.

Lemma normalize_int_ok i dim k : wrap_index i dim = Some k -> normalize_int i dim = Ok (VInt k).
Proof.
  intros H. apply wrap_index_some in H. destruct H as [Hr ->].
  unfold normalize_int, g_check_index, g_replace_none, g_posify_index, g_clip_slice.
  repeat (cbn; split_one); cbn; reflexivity.
Qed.

Lemma normalize_int_idem k dim : 0 <= k < dim -> normalize_int k dim = Ok (VInt k).
Proof.
  intros H. apply normalize_int_ok. unfold wrap_index.
  destruct (Z.leb_spec (- dim) k); destruct (Z.ltb_spec k dim); simpl; try lia.
  destruct (Z.ltb_spec k 0); [lia|reflexivity].
Qed.

(* ------------------------------------------------------------------ _setitem: scatter = gather *)
Fixpoint strip_prefix (p ix : idx) : option idx :=
  match p, ix with
  | [], _ => Some ix
  | a :: p', b :: ix' => if a =? b then strip_prefix p' ix' else None
  | _ :: _, [] => None
  end.

Lemma strip_prefix_spec p : forall ix t, strip_prefix p ix = Some t <-> ix = p ++ t.
Proof.
  induction p as [|a p IH]; intros ix t; simpl.
  - split; [intros H; inversion H; reflexivity|intros ->; reflexivity].
  - destruct ix as [|b ix]; [split; discriminate|].
    destruct (Z.eqb_spec a b) as [->|Hne].
    + rewrite IH. split; [intros ->; reflexivity|intros H; inversion H; reflexivity].
    + split; [discriminate|]. intros H. inversion H. congruence.
Qed.

Lemma strip_prefix_snoc p k : forall ix,
  strip_prefix (p ++ [k]) ix =
  match strip_prefix p ix with
  | Some (i :: t) => if k =? i then Some t else None
  | _ => None
  end.
Proof.
  induction p as [|a p IH]; intros ix; simpl.
  - destruct ix as [|i t]; reflexivity.
  - destruct ix as [|b ix]; [reflexivity|]. destruct (a =? b); [apply IH|reflexivity].
Qed.

Lemma strip_prefix_eqb p ix :
  idx_eqb ix p = match strip_prefix p ix with Some [] => true | _ => false end.
Proof.
  destruct (strip_prefix p ix) as [t|] eqn:E.
  - apply strip_prefix_spec in E. subst ix. destruct t as [|a t].
    + rewrite app_nil_r. apply idx_eqb_refl.
    + apply idx_eqb_neq. intros H. apply (f_equal (@length Z)) in H.
      rewrite app_length in H. simpl in H. lia.
  - apply idx_eqb_neq. intros ->.
    assert (H : strip_prefix p p = Some []) by (apply strip_prefix_spec; rewrite app_nil_r; reflexivity).
    congruence.
Qed.

(* which axis a normalised key entry stands for, as _setitem expands it *)
Inductive resolves : pyv * Z -> axis -> Prop :=
| res_int k dim : resolves (VInt k, dim) (AInt k)
| res_slice p dim s e st :
    isinst_slice p = true -> dok_bounds p dim = Ok (s, e, st) -> st <> 0 ->
    resolves (p, dim) (ASel (range_list s e st)).

Lemma nslices_resolves ents axs :
  Forall2 resolves ents axs -> nslices ents = Z.of_nat (length (selshape axs)).
Proof.
  induction 1 as [|x a ents axs Hr _ IH]; [reflexivity|].
  destruct Hr as [k dim|p dim s e st Hs _ _]; simpl.
  - rewrite IH. lia.
  - rewrite Hs, IH. lia.
Qed.

Section Refinement.
  Variable V : Type.
  Variable veqb : V -> V -> bool.
  Hypothesis veqb_eq : forall a b, veqb a b = true <-> a = b.
  Variable fill : V.

  Notation state := (state V).
  Notation abs := (abs fill).
  Notation store := (store veqb fill).
  Notation wf := (wf V veqb fill).
  Notation setitem_go := (setitem_go veqb fill).

  (* the array after assigning v through axes axs below the fixed prefix p *)
  Definition gatherf (axs : list axis) (v : arr V) (p : idx) (old : idx -> V) : idx -> V :=
    fun ix => match strip_prefix p ix with
              | Some t => match locate axs t with
                          | Some js => a_get v (bidx (a_shape v) js)
                          | None => old ix
                          end
              | None => old ix
              end.

  Definition key_inv (sh : shape) (p : idx) (axs : list axis) : Prop :=
    forall t, locate axs t <> None -> in_range sh (p ++ t).

  Lemma gatherf_int axs v p k old ix :
    gatherf axs v (p ++ [k]) old ix = gatherf (AInt k :: axs) v p old ix.
  Proof.
    unfold gatherf. rewrite strip_prefix_snoc.
    destruct (strip_prefix p ix) as [[|i t]|]; simpl; try reflexivity.
    rewrite (Z.eqb_sym i k). destruct (k =? i); reflexivity.
  Qed.

  Lemma key_inv_int sh p k axs : key_inv sh p (AInt k :: axs) -> key_inv sh (p ++ [k]) axs.
  Proof.
    intros H t Ht. rewrite <- app_assoc. simpl. apply H. simpl. rewrite Z.eqb_refl. assumption.
  Qed.

  Lemma last_pos_in i ks : In i ks -> last_pos Z.eqb i ks <> None.
  Proof.
    induction ks as [|k r IH]; simpl; [tauto|]. intros [->|H].
    - destruct (last_pos Z.eqb i r); [discriminate|]. rewrite Z.eqb_refl. discriminate.
    - specialize (IH H). destruct (last_pos Z.eqb i r); [discriminate|contradiction].
  Qed.

  Lemma key_inv_sel sh p ks axs ki :
    key_inv sh p (ASel ks :: axs) -> In ki ks -> key_inv sh (p ++ [ki]) axs.
  Proof.
    intros H Hin t Ht. rewrite <- app_assoc. simpl. apply H. simpl.
    pose proof (last_pos_in ki ks Hin) as Hl.
    destruct (last_pos Z.eqb ki ks); [|contradiction].
    destruct (locate axs t); [discriminate|contradiction].
  Qed.

  (* narrowing the value for iteration j of the loop over a slice of K elements *)
  Lemma pick_spec (v : arr V) K ss j :
    bcast_ok (a_shape v) (K :: ss) = true ->
    (length (a_shape v) <= S (length ss))%nat ->
    0 <= j < K ->
    exists vi,
      pick v (1 + Z.of_nat (length ss) - ndim v) j = Ok vi /\
      bcast_ok (a_shape vi) ss = true /\
      (length (a_shape vi) <= length ss)%nat /\
      forall js, length js = length ss -> a_get vi (bidx (a_shape vi) js) = a_get v (bidx (a_shape v) (j :: js)).
  Proof.
    destruct v as [vs g]. unfold ndim, pick. simpl. intros Hb Hl Hj.
    destruct (Nat.le_gt_cases (length vs) (length ss)) as [Hle|Hgt].
    - (* value_missing_dims > 0 *)
      destruct (Z.ltb_spec 0 (1 + Z.of_nat (length ss) - Z.of_nat (length vs))); [|lia].
      exists (mkArr vs g). simpl. rewrite bcast_ok_skip in Hb by assumption.
      repeat split; try assumption. intros js Hjs. rewrite bidx_skip by lia. reflexivity.
    - destruct (Z.ltb_spec 0 (1 + Z.of_nat (length ss) - Z.of_nat (length vs))); [lia|].
      destruct vs as [|d vs']; simpl in *; [lia|].
      assert (Hlen : length vs' = length ss) by lia.
      rewrite bcast_ok_cons in Hb by assumption.
      apply andb_true_iff in Hb. destruct Hb as [Hb1 Hb2].
      destruct (Z.eqb_spec d 1) as [->|Hd1].
      + exists (sub (mkArr (1 :: vs') g) 0). unfold sub. simpl.
        repeat split; try assumption; try lia.
        intros js Hjs. rewrite bidx_cons by lia. reflexivity.
      + simpl in Hb2. apply Z.eqb_eq in Hb2. subst d.
        destruct (Z.ltb_spec j K); [|lia].
        exists (sub (mkArr (K :: vs') g) j). unfold sub. simpl.
        repeat split; try assumption; try lia.
        intros js Hjs. rewrite bidx_cons by lia.
        destruct (Z.eqb_spec K 1); [contradiction|reflexivity].
  Qed.

  Lemma setitem_go_spec sh : forall ents axs,
    Forall2 resolves ents axs ->
    forall pre v st,
      bcast_ok (a_shape v) (selshape axs) = true ->
      (length (a_shape v) <= length (selshape axs))%nat ->
      exists st',
        setitem_go ents pre v st = Ok st' /\
        (forall ix, abs st' ix = gatherf axs v (rev pre) (abs st) ix) /\
        (key_inv sh (rev pre) axs -> wf sh st -> wf sh st').
  Proof.
    induction 1 as [|x a ents axs Hr Hrest IH]; intros pre v st Hb Hl.
    - (* leaf *)
      simpl in Hl. assert (Hs : a_shape v = []) by (destruct (a_shape v); [reflexivity|simpl in Hl; lia]).
      exists (store (rev pre) (a_get v []) st). split; [|split].
      + simpl. unfold ndim. rewrite Hs. reflexivity.
      + intros ix. rewrite (abs_store V veqb veqb_eq fill). unfold gatherf.
        rewrite strip_prefix_eqb. rewrite Hs.
        destruct (strip_prefix (rev pre) ix) as [[|i t]|]; reflexivity.
      + intros Hk Hw. apply wf_store; [|assumption].
        specialize (Hk [] ltac:(simpl; discriminate)). rewrite app_nil_r in Hk. exact Hk.
    - pose proof (nslices_resolves _ _ Hrest) as Hn.
      destruct Hr as [k dim|p dim s e st0 Hsl Hbd Hst].
      + (* an integer entry *)
        simpl in Hb, Hl. destruct (IH (k :: pre) v st Hb Hl) as (st' & He & Ha & Hw).
        exists st'. split; [|split].
        * simpl. rewrite Hn. unfold ndim.
          destruct (Z.ltb_spec (0 + Z.of_nat (length (selshape axs)) - Z.of_nat (length (a_shape v))) 0); [lia|].
          exact He.
        * intros ix. rewrite Ha. simpl. apply gatherf_int.
        * intros Hk. apply Hw. simpl. apply key_inv_int. assumption.
      + (* a slice entry: the loop over range(start, stop, step) *)
        set (ks := range_list s e st0) in *. set (K := Z.of_nat (length ks)).
        simpl in Hb, Hl. fold K in Hb.
        set (missing := 1 + Z.of_nat (length (selshape axs)) - ndim v).
        set (body := fun (j ki : Z) (st' : state) =>
                       vi <- pick v missing j ;; setitem_go ents (ki :: pre) vi st').
        assert (Hloop : forall l j0 st1, 0 <= j0 -> j0 + Z.of_nat (length l) = K ->
                  exists st', loop body j0 l st1 = Ok st' /\
                    (forall ix, abs st' ix =
                       match strip_prefix (rev pre) ix with
                       | Some (i :: t) =>
                         match last_pos Z.eqb i l, locate axs t with
                         | Some q, Some js => a_get v (bidx (a_shape v) ((j0 + q) :: js))
                         | _, _ => abs st1 ix
                         end
                       | _ => abs st1 ix
                       end) /\
                    ((forall ki, In ki l -> key_inv sh (rev pre ++ [ki]) axs) -> wf sh st1 -> wf sh st')).
        { induction l as [|k l IHl]; intros j0 st1 Hj0 HK.
          - exists st1. split; [reflexivity|]. split; [|auto].
            intros ix. destruct (strip_prefix (rev pre) ix) as [[|i t]|]; reflexivity.
          - simpl in HK.
            destruct (pick_spec v K (selshape axs) j0 Hb Hl ltac:(lia)) as (vi & Hp & Hvb & Hvl & Hvg).
            destruct (IH (k :: pre) vi st1 Hvb Hvl) as (st2 & He2 & Ha2 & Hw2).
            destruct (IHl (j0 + 1) st2 ltac:(lia) ltac:(lia)) as (st3 & He3 & Ha3 & Hw3).
            exists st3. split; [|split].
            + simpl. unfold body at 1. fold missing in Hp. rewrite Hp. simpl. rewrite He2. simpl. exact He3.
            + intros ix. rewrite Ha3. rewrite !Ha2. simpl. unfold gatherf. rewrite strip_prefix_snoc.
              destruct (strip_prefix (rev pre) ix) as [[|i t]|]; try reflexivity.
              simpl. destruct (k =? i) eqn:Ek; simpl;
                destruct (last_pos Z.eqb i l) as [q|]; destruct (locate axs t) as [js|] eqn:El;
                try reflexivity; try (f_equal; f_equal; f_equal; lia).
              rewrite Hvg by (eapply locate_length; eassumption).
              f_equal. f_equal. f_equal. lia.
            + intros Hk Hw1. apply Hw3; [intros ki Hin; apply Hk; right; assumption|].
              apply Hw2; [|assumption]. simpl. apply Hk. left. reflexivity. }
        destruct (Hloop ks 0 st ltac:(lia) ltac:(unfold K; lia)) as (st' & He & Ha & Hw).
        exists st'. split; [|split].
        * simpl. rewrite Hsl. rewrite Hn. fold missing.
          destruct (Z.ltb_spec missing 0); [unfold missing, ndim in *; lia|].
          rewrite Hbd. simpl. destruct (Z.eqb_spec st0 0); [contradiction|]. exact He.
        * intros ix. rewrite Ha. unfold gatherf.
          destruct (strip_prefix (rev pre) ix) as [[|i t]|]; try reflexivity.
          simpl. fold ks. destruct (last_pos Z.eqb i ks) as [q|]; [|reflexivity].
          destruct (locate axs t); reflexivity.
        * intros Hk. apply Hw. intros ki Hin. eapply key_inv_sel; eassumption.
  Qed.
End Refinement.

(* ------------------------------------------------------------------ Python slices stay in range *)
Lemma range_list_bounds s e st x :
  In x (range_list s e st) -> (0 < st -> s <= x < e) /\ (st < 0 -> e < x <= s).
Proof.
  unfold range_list. intros H. apply in_map_iff in H. destruct H as [i [<- Hi]].
  apply in_seq in Hi. unfold range_len in Hi.
  destruct (Z.ltb_spec 0 st) as [Hp|Hp].
  - destruct (Z.ltb_spec s e) as [Hse|Hse]; [|simpl in Hi; lia].
    pose proof (Z.mul_div_le (e - s - 1) st Hp).
    assert (0 <= (e - s - 1) / st) by (apply Z.div_pos; lia).
    split; [intros _; nia|lia].
  - destruct (Z.ltb_spec e s) as [Hse|Hse]; [|simpl in Hi; lia].
    split; [lia|]. intros Hn.
    pose proof (Z.mul_div_le (s - e - 1) (- st) ltac:(lia)).
    assert (0 <= (s - e - 1) / (- st)) by (apply Z.div_pos; lia).
    nia.
Qed.

Lemma slice_selects_step a b c dim ks : slice_selects a b c dim = Some ks -> c <> Some 0.
Proof.
  unfold slice_selects, slice_indices. intros H Hc. subst c. simpl in H. discriminate.
Qed.

Lemma slice_selects_bounds a b c dim ks x :
  0 <= dim -> slice_selects a b c dim = Some ks -> In x ks -> 0 <= x < dim.
Proof.
  intros Hd H Hin. unfold slice_selects, slice_indices in H.
  set (st := match c with Some s => s | None => 1 end) in *.
  destruct (Z.eqb_spec st 0); [discriminate|].
  inversion H; subst ks; clear H.
  apply range_list_bounds in Hin. destruct Hin as [Hp Hn].
  unfold adjust in *.
  destruct (Z.ltb_spec st 0).
  - specialize (Hn ltac:(lia)).
    destruct a as [sa|]; destruct b as [sb|];
    repeat match goal with
    | Hx : context [if ?a <? ?b then _ else _] |- _ => destruct (Z.ltb_spec a b)
    end; lia.
  - specialize (Hp ltac:(lia)).
    destruct a as [sa|]; destruct b as [sb|];
    repeat match goal with
    | Hx : context [if ?a <? ?b then _ else _] |- _ => destruct (Z.ltb_spec a b)
    end; lia.
Qed.

Lemma last_pos_some_in i ks q : last_pos Z.eqb i ks = Some q -> In i ks.
Proof.
  revert q. induction ks as [|k r IH]; simpl; [discriminate|]. intros q.
  destruct (last_pos Z.eqb i r) as [p|]; [right; eapply IH; reflexivity|].
  destruct (Z.eqb_spec k i); [left; assumption|discriminate].
Qed.

Lemma np_axes_in_range : forall es sh axs t,
  shape_ok sh -> np_axes es sh = Some axs -> locate axs t <> None -> in_range sh t.
Proof.
  induction es as [|e es IH]; intros [|d sh] axs t Hok; simpl; try discriminate.
  - intros H. inversion H; subst. destruct t; simpl; tauto.
  - inversion Hok as [|? ? Hd Hok']; subst.
    destruct (np_axis e d) as [a|] eqn:Ea; [|discriminate].
    destruct (np_axes es sh) as [r|] eqn:Er; [|discriminate].
    intros H. inversion H; subst; clear H.
    assert (Hnn : a <> ANew).
    { destruct e as [i0|a0 b0 c0]; simpl in Ea.
      - destruct (wrap_index i0 d); [inversion Ea; discriminate|discriminate].
      - destruct (slice_selects a0 b0 c0 d); [inversion Ea; discriminate|discriminate]. }
    destruct a as [k|ks|]; [| |contradiction].
    1: destruct t as [|i t]; [simpl; tauto|]; simpl.
    2: destruct t as [|i t]; [simpl; tauto|]; simpl.
    + destruct (Z.eqb_spec i k) as [->|]; [|tauto]. intros Hl. split; [|eapply IH; eassumption].
      destruct e as [i0|a0 b0 c0]; simpl in Ea.
      * destruct (wrap_index i0 d) eqn:Ew; [|discriminate]. inversion Ea; subst.
        apply wrap_index_some in Ew. destruct Ew as [Hr ->].
        destruct (Z.ltb_spec i0 0); lia.
      * destruct (slice_selects a0 b0 c0 d); discriminate.
    + destruct (last_pos Z.eqb i ks) as [q|] eqn:Elp; [|tauto].
      destruct (locate r t) eqn:El; [|tauto]. intros _.
      split; [|eapply IH; try eassumption; congruence].
      destruct e as [i0|a0 b0 c0]; simpl in Ea.
      * destruct (wrap_index i0 d); discriminate.
      * destruct (slice_selects a0 b0 c0 d) as [ks'|] eqn:Es; [|discriminate].
        inversion Ea; subst. eapply slice_selects_bounds; try eassumption.
        eapply last_pos_some_in; eassumption.
Qed.

(* ------------------------------------------------------------------ normalize_index, per key *)
Lemma norm_entries_resolves : forall es sh axs,
  shape_ok sh -> np_axes es sh = Some axs ->
  exists ents, norm_entries (map entry_pyv es) sh = Ok ents /\ Forall2 resolves ents axs /\
               axes_of ents = Ok axs.
Proof.
  induction es as [|e es IH]; intros [|d sh] axs Hok; simpl; try discriminate.
  - intros H. inversion H. exists []. split; [reflexivity|]. split; [constructor|reflexivity].
  - inversion Hok as [|? ? Hd Hok']; subst.
    destruct (np_axis e d) as [a|] eqn:Ea; [|discriminate].
    destruct (np_axes es sh) as [r|] eqn:Er; [|discriminate].
    intros H. inversion H; subst; clear H.
    destruct (IH sh r Hok' Er) as (ents & Hn & Hf & Hax).
    destruct e as [i|sa sb sc]; simpl in Ea.
    + destruct (wrap_index i d) as [k|] eqn:Ew; [|discriminate]. inversion Ea; subst.
      exists ((VInt k, d) :: ents). split; [|split].
      * simpl. rewrite (normalize_int_ok _ _ _ Ew). simpl. rewrite Hn. reflexivity.
      * constructor; [constructor|assumption].
      * simpl. rewrite Hax. reflexivity.
    + destruct (slice_selects sa sb sc d) as [ks|] eqn:Es; [|discriminate]. inversion Ea; subst.
      pose proof (slice_selects_step _ _ _ _ _ Es) as Hc.
      pose proof (norm_clipped sa sb sc d Hd Hc) as Hcl.
      pose proof (slice_norm_correct_proof sa sb sc d Hd Hc) as Hsel.
      destruct (norm_triple (normalize_slice (VSlice (oz sa) (oz sb) (oz sc)) d)) as [[[s1 e1] st]|] eqn:Et;
        [|contradiction].
      destruct Hcl as [Hst Hcl].
      apply norm_triple_some in Et. rewrite Et in Hsel. simpl in Hsel. rewrite Es in Hsel.
      inversion Hsel; subst ks.
      assert (Hst0 : st <> 0) by (rewrite Hst; destruct sc as [z|]; simpl; [congruence|lia]).
      exists ((VSlice (VInt s1) (VInt e1) (VInt st), d) :: ents). split; [|split].
      * simpl. rewrite Et. simpl. rewrite Hn. reflexivity.
      * constructor; [|assumption]. apply res_slice; [reflexivity| |assumption].
        apply dok_bounds_clipped; assumption.
      * simpl. destruct (Z.eqb_spec st 0); [contradiction|]. rewrite Hax. reflexivity.
Qed.

Section BasicStep.
  Variable V : Type.
  Variable veqb : V -> V -> bool.
  Hypothesis veqb_eq : forall a b, veqb a b = true <-> a = b.
  Variable fill : V.

  (* dropping the surplus leading axes of extent 1 of the value (slice targets) *)
  Lemma drop_lead_spec ss : (0 < length ss)%nat ->
    forall vs (v : arr V), a_shape v = vs -> bcast_ok vs ss = true ->
    let v' := drop_lead vs v (Z.of_nat (length ss)) in
    bcast_ok (a_shape v') ss = true /\ (length (a_shape v') <= length ss)%nat /\
    forall js, length js = length ss -> a_get v' (bidx (a_shape v') js) = a_get v (bidx vs js).
  Proof.
    intros Hss. induction vs as [|d vs IH]; intros v Hv Hb; cbn [drop_lead].
    - cbv zeta. rewrite Hv. split; [exact Hb|]. split; [simpl; lia|reflexivity].
    - unfold ndim. rewrite Hv. cbn [length].
      destruct (Nat.le_gt_cases (S (length vs)) (length ss)) as [Hle|Hgt].
      + destruct (Z.ltb_spec (Z.of_nat (length ss)) (Z.of_nat (S (length vs)))); [lia|].
        cbn [andb]. cbv zeta. rewrite Hv. split; [exact Hb|]. split; [simpl; lia|reflexivity].
      + rewrite bcast_ok_long in Hb by lia. apply andb_true_iff in Hb. destruct Hb as [Hb Hd].
        destruct (Z.ltb_spec (Z.of_nat (length ss)) (Z.of_nat (S (length vs)))); [|lia].
        destruct (Z.ltb_spec 0 (Z.of_nat (length ss))); [|lia].
        rewrite Hd. cbn [andb].
        assert (Hsub : a_shape (sub v 0) = vs) by (unfold sub; simpl; rewrite Hv; reflexivity).
        destruct (IH (sub v 0) Hsub Hb) as (H1 & H2 & H3). cbv zeta in *.
        split; [exact H1|]. split; [exact H2|].
        intros js Hjs. rewrite (H3 js Hjs). rewrite bidx_long by lia. reflexivity.
  Qed.

  (* what _setitem receives, for a value NumPy accepts (vs against the selection ss; a target
     without slices takes a 0-d value only) *)
  Lemma drop_leading_spec (v : arr V) ss :
    bcast_ok (a_shape v) ss = true -> (ss = [] -> a_shape v = []) ->
    let v' := drop_leading v (Z.of_nat (length ss)) in
    bcast_ok (a_shape v') ss = true /\ (length (a_shape v') <= length ss)%nat /\
    forall js, length js = length ss -> a_get v' (bidx (a_shape v') js) = a_get v (bidx (a_shape v) js).
  Proof.
    intros Hb H0. unfold drop_leading. destruct ss as [|s ss'].
    - rewrite (H0 eq_refl). cbn [drop_lead]. cbv zeta. rewrite (H0 eq_refl).
      split; [reflexivity|]. split; [simpl; lia|reflexivity].
    - apply drop_lead_spec; [simpl; lia|reflexivity|exact Hb].
  Qed.

  Lemma setitem_basic_spec sh (st : state V) es v axs :
    shape_ok sh ->
    np_axes (np_pad es sh) sh = Some axs ->
    bcast_ok (a_shape v) (selshape axs) = true ->
    (selshape axs = [] -> a_shape v = []) ->
    exists st',
      setitem_basic veqb sh fill st es v = Ok st' /\
      (forall ix, abs fill st' ix =
                  match locate axs ix with
                  | Some js => a_get v (bidx (a_shape v) js)
                  | None => abs fill st ix
                  end) /\
      (wf V veqb fill sh st -> wf V veqb fill sh st').
  Proof.
    intros Hok Hax Hb H0.
    destruct (norm_entries_resolves _ _ _ Hok Hax) as (ents & Hn & Hf & _).
    destruct (drop_leading_spec v (selshape axs) Hb H0) as (Hb' & Hl' & Hg).
    rewrite <- (nslices_resolves _ _ Hf) in Hb', Hl', Hg.
    destruct (setitem_go_spec V veqb veqb_eq fill sh ents axs Hf [] _ st Hb' Hl') as (st' & He & Ha & Hw).
    exists st'. split; [|split].
    - unfold setitem_basic, normalize_key. rewrite Hn. simpl. exact He.
    - intros ix. rewrite Ha. unfold gatherf. simpl.
      destruct (locate axs ix) as [js|] eqn:El; [|reflexivity].
      apply Hg. eapply locate_length. eassumption.
    - apply Hw. intros t Ht. simpl. eapply np_axes_in_range; eassumption.
  Qed.
End BasicStep.

(* ------------------------------------------------------------------ general basic indices *)
(* composing with agent c02b's normalize_index (Model/CooIndex.v, Proofs/CooIndexNormP.v):
   normalize_link says that the code's normalize_index returns [norm_all ex sh] for the expanded
   index ex, and that NumPy's resolution (Spec/NpIndex.v) is [map to_r (norm_all ex sh)].  For an
   expanded index made of integers and slices every entry of norm_all resolves, as _setitem expands
   it, to the axis NumPy selects. *)
Definition simple_entry (e : ientry) : bool :=
  match e with IInt _ | ISlice _ _ _ => true | _ => false end.

Lemma shape_okb_ok sh : shape_ok sh -> shape_okb sh = true.
Proof.
  intros H. unfold shape_okb. apply forallb_forall. intros d Hd.
  unfold shape_ok in H. rewrite Forall_forall in H. specialize (H d Hd). lia.
Qed.

Lemma norm_all_resolves : forall ex sh,
  shape_ok sh -> fits ex sh = true -> all_ok ex sh = true -> no_zero_step ex = true ->
  forallb simple_entry ex = true ->
  exists axs,
    axes_of_rentries (map to_r (norm_all ex sh)) = Some axs /\
    Forall2 resolves (combine (map nentry_pv (norm_all ex sh)) sh) axs /\
    length (norm_all ex sh) = length sh /\
    (forall t, locate axs t <> None -> in_range sh t) /\
    axes_of_nix (norm_all ex sh) = Ok axs.
Proof.
  induction ex as [|e ex IH]; intros sh Hok Hf Ha Hz Hs.
  - destruct sh; [|discriminate]. exists []. repeat split; try constructor.
    intros t Ht. destruct t; simpl in *; [exact I|congruence].
  - cbn [forallb] in Hs. apply andb_true_iff in Hs. destruct Hs as [Hse Hs].
    unfold no_zero_step in Hz. cbn [forallb] in Hz. apply andb_true_iff in Hz. destruct Hz as [Hze Hz].
    destruct e as [z|a b c| | | |]; try discriminate.
    + (* an integer *)
      destruct sh as [|d sh]; [discriminate|]. cbn [fits] in Hf. cbn [all_ok] in Ha.
      apply andb_true_iff in Ha. destruct Ha as [Hb Ha]. inversion Hok as [|? ? Hd Hok']; subst.
      destruct (IH sh Hok' Hf Ha Hz Hs) as (axs & H1 & H2 & H3 & H4 & H5).
      exists (AInt (wrap d z) :: axs). cbn [norm_all nentry_spec map to_r axes_of_rentries axis_of_rentry].
      rewrite H1. repeat split.
      * cbn [nentry_pv combine]. constructor; [constructor|exact H2].
      * cbn [length]. rewrite H3. reflexivity.
      * intros t. cbn [locate]. destruct t as [|i t]; [congruence|].
        destruct (Z.eqb_spec i (wrap d z)) as [->|]; [|congruence]. intros Hl. split; [|apply H4; exact Hl].
        cbn [entry_okb] in Hb. unfold in_bounds in Hb. unfold wrap. destruct (Z.ltb_spec z 0); lia.
      * cbn [axes_of_nix]. rewrite H5. reflexivity.
    + (* a slice *)
      destruct sh as [|d sh]; [discriminate|]. cbn [fits] in Hf. cbn [all_ok] in Ha.
      apply andb_true_iff in Ha. destruct Ha as [_ Ha]. inversion Hok as [|? ? Hd Hok']; subst.
      destruct (IH sh Hok' Hf Ha Hz Hs) as (axs & H1 & H2 & H3 & H4 & H5).
      assert (Hc : c <> Some 0) by (intros ->; discriminate).
      pose proof (norm_clipped a b c d Hd Hc) as Hcl.
      pose proof (slice_norm_correct_proof a b c d Hd Hc) as Hsel.
      destruct (norm_triple (normalize_slice (VSlice (oz a) (oz b) (oz c)) d)) as [[[s1 e1] st]|] eqn:Et;
        [|contradiction].
      destruct Hcl as [Hst Hcl]. apply norm_triple_some in Et.
      assert (Hst0 : st <> 0) by (rewrite Hst; destruct c as [z|]; simpl; [congruence|lia]).
      assert (Hn : nentry_spec (ISlice a b c) d = NSlice s1 e1 st).
      { cbn [nentry_spec]. unfold nslice_of. rewrite Et. reflexivity. }
      rewrite Et in Hsel. cbn [selects] in Hsel.
      exists (ASel (range_list s1 e1 st) :: axs). cbn [norm_all]. rewrite Hn.
      cbn [map to_r axes_of_rentries axis_of_rentry]. rewrite H1. repeat split.
      * cbn [nentry_pv combine]. constructor; [|exact H2].
        apply res_slice; [reflexivity|apply dok_bounds_clipped; assumption|assumption].
      * cbn [length]. rewrite H3. reflexivity.
      * intros t. cbn [locate]. destruct t as [|i t]; [congruence|].
        destruct (last_pos Z.eqb i (range_list s1 e1 st)) as [q|] eqn:Elp; [|congruence].
        destruct (locate axs t) eqn:El; [|congruence]. intros _.
        split; [|apply H4; congruence].
        eapply slice_selects_bounds; [exact Hd|symmetry; exact Hsel|].
        eapply last_pos_some_in; eassumption.
      * cbn [axes_of_nix]. destruct (Z.eqb_spec st 0); [contradiction|]. rewrite H5. reflexivity.
Qed.

Definition simple_or_ell (e : ientry) : bool :=
  match e with IInt _ | ISlice _ _ _ | IEllipsis => true | _ => false end.

Lemma simple_of_clauses ix :
  index_no_newaxis ix = true -> index_no_arrays ix = true -> forallb simple_or_ell ix = true.
Proof.
  unfold index_no_newaxis, index_no_arrays. rewrite !forallb_forall. intros H1 H2 e He.
  specialize (H1 e He). specialize (H2 e He). destruct e; try reflexivity; discriminate.
Qed.

Lemma expand_simple nd ix ex sh :
  expand nd ix = Ok ex -> fits ex sh = true -> forallb simple_or_ell ix = true ->
  forallb simple_entry ex = true.
Proof.
  intros He Hf Hs. pose proof (fits_no_ell ex sh Hf) as Hne.
  unfold expand in He. destruct (1 <? countb is_ell ix); [discriminate|].
  destruct (nd - countb consumes ix <? 0); [discriminate|]. inversion He; subst ex; clear He.
  rewrite forallb_forall in *. intros e Hin. specialize (Hne e Hin).
  assert (Hfull : forall e k, In e (repeat full_slice k) -> e = full_slice) by (intros e0 k Hk; eapply repeat_spec; eauto).
  assert (Hcase : In e (repeat full_slice (Z.to_nat (nd - countb consumes ix))) \/ In e ix).
  { destruct (0 <? countb is_ell ix); [apply subst_In in Hin; exact Hin|].
    apply in_app_iff in Hin. tauto. }
  destruct Hcase as [Hc|Hc].
  - rewrite (Hfull _ _ Hc). reflexivity.
  - specialize (Hs e Hc). destruct e; try reflexivity; discriminate.
Qed.

Lemma index_nzs ix : index_no_zero_step ix = true -> no_zero_step ix = true.
Proof. intros H. exact H. Qed.

Lemma basic_of_no_arrays ix : index_no_arrays ix = true -> basic ix = true.
Proof. intros H. exact H. Qed.

(* what the two sides do with a general basic index (no None, no index arrays, no zero step) *)
Lemma index_link sh ix :
  shape_ok sh -> index_no_newaxis ix = true -> index_no_arrays ix = true -> index_no_zero_step ix = true ->
  (exists nix axs,
     CooIndex.normalize_index ix sh = Ok nix /\ np_index_axes sh ix = Some axs /\
     Forall2 resolves (ents_of_nix nix sh) axs /\
     (forall t, locate axs t <> None -> in_range sh t) /\
     axes_of_nix nix = Ok axs)
  \/ (CooIndex.normalize_index ix sh = Raise IndexError /\ np_index_axes sh ix = None).
Proof.
  intros Hok Hnn Hna Hz.
  pose proof (shape_okb_ok sh Hok) as Hokb.
  assert (Hd29 : d29_clause sh ix = true).
  { unfold d29_clause. destruct (expand (Z.of_nat (length sh)) ix) as [ex|] eqn:E; [|reflexivity].
    apply basic_bool_ok. eapply basic_expand; [exact E|]. apply basic_of_no_arrays. exact Hna. }
  destruct (normalize_link sh ix Hokb (index_nzs ix Hz) Hd29)
    as [(ex & He & Hf & Ha & Hn & Hr)|[Hn Hr]].
  - left. pose proof (expand_nzs _ _ _ He (index_nzs ix Hz)) as Hz'.
    pose proof (expand_simple _ _ _ _ He Hf (simple_of_clauses ix Hnn Hna)) as Hs.
    destruct (norm_all_resolves ex sh Hok Hf Ha Hz' Hs) as (axs & H1 & H2 & H3 & H4 & H5).
    exists (norm_all ex sh), axs. split; [exact Hn|]. split; [|split; [|split; [exact H4|exact H5]]].
    + unfold np_index_axes. unfold resolve_all in Hr. rewrite He in *. cbn [bind] in Hr. rewrite Hr. exact H1.
    + unfold ents_of_nix. rewrite H3, Nat.sub_diag. cbn [repeat]. rewrite app_nil_r. exact H2.
  - right. split; [exact Hn|]. unfold np_index_axes. unfold resolve_all in Hr.
    destruct (expand (Z.of_nat (length sh)) ix) as [ex|]; [|reflexivity].
    cbn [bind] in Hr. rewrite Hr. reflexivity.
Qed.

(* reads: None entries allowed *)
Lemma norm_all_axes_read : forall ex sh,
  shape_ok sh -> fits ex sh = true -> no_zero_step ex = true -> basic ex = true ->
  exists axs,
    axes_of_rentries (map to_r (norm_all ex sh)) = Some axs /\ axes_of_nix (norm_all ex sh) = Ok axs.
Proof.
  induction ex as [|e ex IH]; intros sh Hok Hf Hz Hb.
  - exists []. split; reflexivity.
  - unfold no_zero_step in Hz. cbn [forallb] in Hz. apply andb_true_iff in Hz. destruct Hz as [Hze Hz].
    unfold basic in Hb. cbn [forallb] in Hb. apply andb_true_iff in Hb. destruct Hb as [Hbe Hb].
    destruct e as [z|a b c| | | |]; try discriminate.
    + destruct sh as [|d sh]; [discriminate|]. cbn [fits] in Hf. inversion Hok as [|? ? Hd Hok']; subst.
      destruct (IH sh Hok' Hf Hz Hb) as (axs & H1 & H2).
      exists (AInt (wrap d z) :: axs). cbn [norm_all nentry_spec map to_r axes_of_rentries axis_of_rentry axes_of_nix].
      rewrite H1, H2. split; reflexivity.
    + destruct sh as [|d sh]; [discriminate|]. cbn [fits] in Hf. inversion Hok as [|? ? Hd Hok']; subst.
      destruct (IH sh Hok' Hf Hz Hb) as (axs & H1 & H2).
      assert (Hc : c <> Some 0) by (intros ->; discriminate).
      pose proof (norm_clipped a b c d Hd Hc) as Hcl.
      destruct (norm_triple (normalize_slice (VSlice (oz a) (oz b) (oz c)) d)) as [[[s1 e1] st]|] eqn:Et;
        [|contradiction].
      destruct Hcl as [Hst _]. apply norm_triple_some in Et.
      assert (Hst0 : st <> 0) by (rewrite Hst; destruct c as [z|]; simpl; [congruence|lia]).
      assert (Hn : nentry_spec (ISlice a b c) d = NSlice s1 e1 st).
      { cbn [nentry_spec]. unfold nslice_of. rewrite Et. reflexivity. }
      exists (ASel (range_list s1 e1 st) :: axs). cbn [norm_all]. rewrite Hn.
      cbn [map to_r axes_of_rentries axis_of_rentry axes_of_nix]. rewrite H1, H2.
      destruct (Z.eqb_spec st 0); [contradiction|]. split; reflexivity.
    + cbn [fits] in Hf. destruct (IH sh Hok Hf Hz Hb) as (axs & H1 & H2).
      exists (ANew :: axs). cbn [norm_all map to_r axes_of_rentries axis_of_rentry axes_of_nix].
      rewrite H1, H2. split; reflexivity.
Qed.

Lemma index_read_link sh ix axs :
  shape_ok sh -> index_no_arrays ix = true -> index_no_zero_step ix = true ->
  np_index_axes sh ix = Some axs ->
  exists nix, CooIndex.normalize_index ix sh = Ok nix /\ axes_of_nix nix = Ok axs.
Proof.
  intros Hok Hna Hz Hax.
  pose proof (shape_okb_ok sh Hok) as Hokb.
  assert (Hd29 : d29_clause sh ix = true).
  { unfold d29_clause. destruct (expand (Z.of_nat (length sh)) ix) as [ex|] eqn:E; [|reflexivity].
    apply basic_bool_ok. eapply basic_expand; [exact E|]. exact Hna. }
  destruct (normalize_link sh ix Hokb Hz Hd29) as [(ex & He & Hf & Ha & Hn & Hr)|[Hn Hr]].
  - pose proof (expand_nzs _ _ _ He Hz) as Hz'.
    pose proof (basic_expand _ _ _ He Hna) as Hb'.
    destruct (norm_all_axes_read ex sh Hok Hf Hz' Hb') as (axs' & H1 & H2).
    exists (norm_all ex sh). split; [exact Hn|].
    unfold np_index_axes in Hax. unfold resolve_all in Hr. rewrite He in *. cbn [bind] in Hr.
    rewrite Hr in Hax. rewrite H1 in Hax. inversion Hax; subst. exact H2.
  - exfalso. unfold np_index_axes in Hax. unfold resolve_all in Hr.
    destruct (expand (Z.of_nat (length sh)) ix) as [ex|]; [|discriminate].
    cbn [bind] in Hr. rewrite Hr in Hax. discriminate.
Qed.

Section IndexStep.
  Variable V : Type.
  Variable veqb : V -> V -> bool.
  Hypothesis veqb_eq : forall a b, veqb a b = true <-> a = b.
  Variable fill : V.

  Lemma setitem_index_spec sh (st : state V) ix v axs :
    shape_ok sh -> index_no_newaxis ix = true -> index_no_arrays ix = true -> index_no_zero_step ix = true ->
    np_index_axes sh ix = Some axs ->
    bcast_ok (a_shape v) (selshape axs) = true ->
    (selshape axs = [] -> a_shape v = []) ->
    exists st',
      setitem_index veqb sh fill st ix v = Ok st' /\
      (forall ix0, abs fill st' ix0 =
                   match locate axs ix0 with
                   | Some js => a_get v (bidx (a_shape v) js)
                   | None => abs fill st ix0
                   end) /\
      (wf V veqb fill sh st -> wf V veqb fill sh st').
  Proof.
    intros Hok Hnn Hna Hz Hax Hb H0.
    destruct (index_link sh ix Hok Hnn Hna Hz) as [(nix & axs' & Hn & Hax' & Hf & Hin & _)|[_ Hnone]];
      [|congruence].
    rewrite Hax in Hax'. inversion Hax'; subst axs'.
    destruct (drop_leading_spec V v (selshape axs) Hb H0) as (Hb' & Hl' & Hg).
    rewrite <- (nslices_resolves _ _ Hf) in Hb', Hl', Hg.
    destruct (setitem_go_spec V veqb veqb_eq fill sh _ axs Hf [] _ st Hb' Hl') as (st' & He & Ha & Hw).
    exists st'. split; [|split].
    - unfold setitem_index. rewrite Hn. cbn [bind]. exact He.
    - intros ix0. rewrite Ha. unfold gatherf. simpl.
      destruct (locate axs ix0) as [js|] eqn:El; [|reflexivity].
      apply Hg. eapply locate_length. eassumption.
    - apply Hw. intros t Ht. simpl. apply Hin. exact Ht.
  Qed.

  (* the empty key: (Ellipsis,) and () expand alike *)
  Lemma expand_ellipsis_only nd : expand nd [IEllipsis] = expand nd [].
  Proof.
    unfold expand, countb. cbn [filter is_ell consumes length Z.of_nat]. simpl.
    destruct (nd - 0 <? 0); [reflexivity|]. rewrite app_nil_r. reflexivity.
  Qed.

  Lemma np_index_axes_empty sh : np_index_axes sh [IEllipsis] = np_index_axes sh [].
  Proof. unfold np_index_axes. rewrite expand_ellipsis_only. reflexivity. Qed.
End IndexStep.

(* ------------------------------------------------------------------ _fancy_setitem *)
Lemma last_pos_bounds {A} (eqb : A -> A -> bool) x l j :
  last_pos eqb x l = Some j -> 0 <= j < Z.of_nat (length l).
Proof.
  revert j. induction l as [|y r IH]; simpl; [discriminate|]. intros j.
  destruct (last_pos eqb x r) as [p|].
  - intros H. inversion H; subst. specialize (IH p eq_refl). lia.
  - destruct (eqb y x); [|discriminate]. intros H. inversion H. lia.
Qed.

Lemma zip_cons_in l rows y :
  In y (zip_cons l rows) -> exists x r, y = x :: r /\ In x l /\ In r rows.
Proof.
  revert rows. induction l as [|x l IH]; intros [|r rows]; simpl; try tauto.
  intros [<-|H].
  - exists x, r. auto.
  - destruct (IH rows H) as (x' & r' & -> & H1 & H2). exists x', r'. auto.
Qed.

Lemma zip_cons_length l rows : length l = length rows -> length (zip_cons l rows) = length rows.
Proof.
  revert rows. induction l as [|x l IH]; intros [|r rows]; simpl; try discriminate; auto.
Qed.

Lemma transpose_length n ls :
  forallb (fun l => Nat.eqb (length l) n) ls = true -> length (transpose n ls) = n.
Proof.
  induction ls as [|l ls IH]; simpl.
  - intros _. apply repeat_length.
  - intros H. apply andb_true_iff in H. destruct H as [H1 H2]. apply Nat.eqb_eq in H1.
    rewrite zip_cons_length; rewrite IH by assumption; auto.
Qed.

(* every entry of every list inside its axis *)
Fixpoint fancy_in_range (ls : list (list Z)) (sh : shape) : bool :=
  match ls, sh with
  | l :: ls', d :: sh' => forallb (fun i => (0 <=? i) && (i <? d)) l && fancy_in_range ls' sh'
  | _, _ => true
  end.

Lemma transpose_in_range n : forall ls sh,
  length ls = length sh -> fancy_in_range ls sh = true -> Forall (in_range sh) (transpose n ls).
Proof.
  induction ls as [|l ls IH]; intros [|d sh] Hl Hr; simpl in *; try discriminate.
  - apply Forall_forall. intros y Hy. apply repeat_spec in Hy. subst. exact I.
  - apply andb_true_iff in Hr. destruct Hr as [Hr1 Hr2].
    apply Forall_forall. intros y Hy. apply zip_cons_in in Hy. destruct Hy as (x & r & -> & Hx & Hr).
    simpl. rewrite forallb_forall in Hr1. specialize (Hr1 x Hx).
    split; [lia|]. specialize (IH sh ltac:(lia) Hr2). rewrite Forall_forall in IH. auto.
Qed.

(* _fancy_key on integer lists = the Spec's wrapping (check_index, sanitize, posify_index) *)
Lemma wrap_all_eq l d :
  wrap_all l d = if forallb (in_bounds d) l then Some (map (wrap d) l) else None.
Proof.
  induction l as [|i l IH]; [reflexivity|]. cbn [wrap_all forallb map]. rewrite IH.
  unfold wrap_index, in_bounds, wrap.
  destruct ((- d <=? i) && (i <? d)); [|reflexivity]. cbn [andb].
  destruct (forallb (fun i0 => (- d <=? i0) && (i0 <? d)) l); reflexivity.
Qed.

Lemma posify_arr l d : g_posify_index (VInt d) (VArr l) = Ok (VArr (map (wrap d) l)).
Proof. reflexivity. Qed.

Lemma fancy_key1_arr l d :
  fancy_key1 (VArr l) d = if forallb (in_bounds d) l then Ok (map (wrap d) l) else Raise IndexError.
Proof.
  unfold fancy_key1. rewrite check_arr. destruct (forallb (in_bounds d) l); [|reflexivity].
  cbn [bind CooIndex.sanitize]. rewrite posify_arr. reflexivity.
Qed.

Lemma fancy_key1_mask m d :
  fancy_key1 (VBArr m) d = if Z.of_nat (length m) =? d then Ok (nonzero_from 0 m) else Raise IndexError.
Proof.
  unfold fancy_key1. rewrite check_barr. destruct (Z.of_nat (length m) =? d); [|reflexivity].
  cbn [bind CooIndex.sanitize]. rewrite posify_arr. cbn [bind].
  rewrite map_wrap_nonneg; [reflexivity|]. apply nonzero_from_nonneg. lia.
Qed.

Lemma wrapped_in_range d l : forallb (in_bounds d) l = true ->
  forallb (fun i => (0 <=? i) && (i <? d)) (map (wrap d) l) = true.
Proof.
  intros H. rewrite forallb_forall in *. intros y Hy. apply in_map_iff in Hy. destruct Hy as [x [<- Hx]].
  specialize (H x Hx). unfold in_bounds in H. unfold wrap. destruct (Z.ltb_spec x 0); lia.
Qed.

Lemma wrap_lists_keys : forall ls sh ws,
  wrap_lists ls sh = Some ws ->
  fancy_keys (map VArr ls) sh = Ok ws /\ fancy_in_range ws sh = true
  /\ map (@length Z) ws = map (@length Z) ls /\ length ls = length sh.
Proof.
  induction ls as [|l ls IH]; intros [|d sh] ws H; simpl in *; try discriminate.
  - inversion H. repeat split.
  - rewrite wrap_all_eq in H. rewrite fancy_key1_arr.
    destruct (forallb (in_bounds d) l) eqn:Eb; [|discriminate].
    destruct (wrap_lists ls sh) as [r|] eqn:Er; [|discriminate].
    inversion H; subst; clear H. destruct (IH sh r Er) as (H1 & H2 & H3 & H4).
    cbn [bind]. rewrite H1. cbn [bind]. split; [reflexivity|]. split; [|split].
    + cbn [fancy_in_range]. rewrite (wrapped_in_range d l Eb), H2. reflexivity.
    + cbn [map]. rewrite map_length, H3. reflexivity.
    + rewrite H4. reflexivity.
Qed.

Lemma forallb_length_map (n : nat) (ws ls : list (list Z)) :
  map (@length Z) ws = map (@length Z) ls ->
  forallb (fun l => Nat.eqb (length l) n) ws = forallb (fun l => Nat.eqb (length l) n) ls.
Proof.
  revert ls. induction ws as [|w ws IH]; intros [|l ls] H; simpl in *; try discriminate; [reflexivity|].
  inversion H as [[H1 H2]]. rewrite H1, (IH ls H2). reflexivity.
Qed.

(* the rows of a mask over a 1-d array *)
Lemma flat_map_single {A B} (f : A -> B) l : flat_map (fun x => [f x]) l = map f l.
Proof. induction l; simpl; congruence. Qed.

Lemma all_indices_1d d : all_indices [d] = map (fun i => [Z.of_nat i]) (seq 0 (Z.to_nat d)).
Proof.
  simpl. rewrite (flat_map_single (fun i => [i])). unfold zrange. rewrite map_map. reflexivity.
Qed.

Lemma mask_filter_rows : forall (m : list bool) k,
  map fst (filter snd (combine (map (fun i => [Z.of_nat i]) (seq k (length m))) m))
  = map (fun x => [x]) (nonzero_from (Z.of_nat k) m).
Proof.
  induction m as [|b m IH]; intros k; [reflexivity|].
  cbn [length seq map combine filter snd nonzero_from]. rewrite map_app.
  replace (Z.of_nat k + 1) with (Z.of_nat (S k)) by lia. rewrite <- (IH (S k)).
  destruct b; reflexivity.
Qed.

Lemma zip_cons_single l : zip_cons l (repeat [] (length l)) = map (fun x => [x]) l.
Proof. induction l as [|x l IH]; simpl; [reflexivity|]. rewrite IH. reflexivity. Qed.

Lemma mask_rows_1d d m rows :
  0 <= d -> mask_rows [d] m = Some rows ->
  Z.of_nat (length m) = d /\ rows = transpose (length (nonzero_from 0 m)) [nonzero_from 0 m].
Proof.
  intros Hd. unfold mask_rows. rewrite all_indices_1d. rewrite map_length, seq_length.
  destruct (Nat.eqb_spec (length m) (Z.to_nat d)) as [E|]; [|discriminate].
  intros H. inversion H; subst rows; clear H. split; [lia|].
  rewrite <- E. eapply eq_trans; [apply (mask_filter_rows m 0)|].
  cbn [transpose]. rewrite zip_cons_single. reflexivity.
Qed.

Lemma mask_rows_in_range sh m rows : mask_rows sh m = Some rows -> Forall (in_range sh) rows.
Proof.
  unfold mask_rows. destruct (Nat.eqb (length m) (length (all_indices sh))); [|discriminate].
  intros H. inversion H; subst; clear H. apply Forall_forall. intros y Hy.
  apply in_map_iff in Hy. destruct Hy as [[k b] [<- Hk]]. apply filter_In in Hk. destruct Hk as [Hk _].
  apply in_combine_l in Hk. apply all_indices_In. exact Hk.
Qed.

Lemma nth_repeat_lt {A} (x d : A) n j : (j < n)%nat -> nth j (repeat x n) d = x.
Proof. revert j. induction n; intros [|j] H; simpl; try lia; auto. apply IHn. lia. Qed.

Lemma nth_map_zrange {A} (f : Z -> A) d n j :
  0 <= j < n -> nth (Z.to_nat j) (map f (zrange n)) d = f j.
Proof.
  intros H. unfold zrange. rewrite map_map.
  rewrite nth_indep with (d' := f (Z.of_nat 0)) by (rewrite map_length, seq_length; lia).
  rewrite (map_nth (fun x => f (Z.of_nat x)) (seq 0 (Z.to_nat n)) 0%nat).
  rewrite seq_nth by lia. simpl. f_equal. lia.
Qed.

Section FancyStep.
  Variable V : Type.
  Variable veqb : V -> V -> bool.
  Hypothesis veqb_eq : forall a b, veqb a b = true <-> a = b.
  Variable fill : V.
  Notation abs := (abs fill).
  Notation store := (store veqb fill).

  Lemma fold_store_spec : forall rows vals (st : state V),
    length rows = length vals ->
    forall ix,
      abs (fold_left (fun s kx => store (fst kx) (snd kx) s) (combine rows vals) st) ix =
      match last_pos idx_eqb ix rows with
      | Some j => nth (Z.to_nat j) vals fill
      | None => abs st ix
      end.
  Proof.
    induction rows as [|r rows IH]; intros [|x vals] st Hl ix; simpl in *; try discriminate.
    - reflexivity.
    - rewrite IH by lia. rewrite (abs_store V veqb veqb_eq fill).
      destruct (last_pos idx_eqb ix rows) as [p|] eqn:Ep.
      + pose proof (last_pos_bounds _ _ _ _ Ep).
        replace (Z.to_nat (p + 1)) with (S (Z.to_nat p)) by lia. reflexivity.
      + rewrite (idx_eqb_sym ix r). destruct (idx_eqb r ix); reflexivity.
  Qed.

  Lemma fold_store_wf sh : forall rows vals (st : state V),
    Forall (in_range sh) rows -> wf V veqb fill sh st ->
    wf V veqb fill sh (fold_left (fun s kx => store (fst kx) (snd kx) s) (combine rows vals) st).
  Proof.
    induction rows as [|r rows IH]; intros [|x vals] st Hr Hw; simpl; try assumption.
    inversion Hr; subst. apply IH; [assumption|]. apply wf_store; assumption.
  Qed.

  (* _fancy_setitem once _fancy_key has produced the index lists ls (rows = their transpose) *)
  Lemma fancy_setitem_core sh (st : state V) ps v ls l0 ls' :
    length ps = length sh -> fancy_keys ps sh = Ok ls -> ls = l0 :: ls' ->
    forallb (fun l => Nat.eqb (length l) (length l0)) ls = true ->
    Forall (in_range sh) (transpose (length l0) ls) ->
    bcast_ok (a_shape v) [Z.of_nat (length (transpose (length l0) ls))] = true ->
    (length (a_shape v) <= 1)%nat ->
    exists st',
      fancy_setitem veqb sh fill st ps v = Ok st' /\
      (forall ix, abs st' ix =
                  match last_pos idx_eqb ix (transpose (length l0) ls) with
                  | Some j => a_get v (bidx (a_shape v) [j])
                  | None => abs st ix
                  end) /\
      (wf V veqb fill sh st -> wf V veqb fill sh st').
  Proof.
    intros Hlen Hk Hls Hall Hrange Hb Hnd.
    unfold fancy_setitem. rewrite Hlen, Nat.eqb_refl. cbn [negb]. cbv iota.
    rewrite Hk. cbn [bind]. rewrite Hls. rewrite <- Hls. rewrite Hall. cbn [negb]. cbv iota.
    set (n := length l0) in *.
    pose proof (transpose_length n ls Hall) as Htl. rewrite Htl in Hb.
    destruct v as [vs g]. cbn [a_shape a_get] in *.
    destruct vs as [|m [|m2 vs2]]; [| |simpl in Hnd; lia].
    - (* 0-d value *)
      eexists. split; [reflexivity|]. split.
      + intros ix. rewrite fold_store_spec by (rewrite repeat_length; assumption).
        destruct (last_pos idx_eqb ix (transpose n ls)) as [j|] eqn:Ej; [|reflexivity].
        apply last_pos_bounds in Ej. rewrite nth_repeat_lt by lia. reflexivity.
      + apply fold_store_wf. exact Hrange.
    - unfold bcast_ok in Hb. simpl in Hb. rewrite andb_true_r in Hb.
      destruct (Z.eqb_spec m 1) as [->|Hm1].
      + (* a length-1 value: broadcast like a scalar *)
        eexists. split; [reflexivity|]. split.
        * intros ix. rewrite fold_store_spec by (rewrite repeat_length; assumption).
          destruct (last_pos idx_eqb ix (transpose n ls)) as [j|] eqn:Ej; [|reflexivity].
          apply last_pos_bounds in Ej. rewrite nth_repeat_lt by lia. reflexivity.
        * apply fold_store_wf. exact Hrange.
      + (* a value of the rows' shape *)
        simpl in Hb. apply Z.eqb_eq in Hb. subst m. rewrite Z.eqb_refl.
        eexists. split; [reflexivity|]. split.
        * intros ix. rewrite fold_store_spec by (unfold zrange; rewrite !map_length, seq_length; lia).
          destruct (last_pos idx_eqb ix (transpose n ls)) as [j|] eqn:Ej; [|reflexivity].
          apply last_pos_bounds in Ej. rewrite nth_map_zrange by lia.
          unfold bidx. simpl. destruct (Z.eqb_spec (Z.of_nat n) 1); [contradiction|reflexivity].
        * apply fold_store_wf. exact Hrange.
  Qed.

  (* integer lists *)
  Lemma fancy_setitem_spec sh (st : state V) ls v rows :
    np_rows ls sh = Some rows ->
    bcast_ok (a_shape v) [Z.of_nat (length rows)] = true -> fancy_value_clause v = true ->
    exists st',
      fancy_setitem veqb sh fill st (map VArr ls) v = Ok st' /\
      (forall ix, abs st' ix =
                  match last_pos idx_eqb ix rows with
                  | Some j => a_get v (bidx (a_shape v) [j])
                  | None => abs st ix
                  end) /\
      (wf V veqb fill sh st -> wf V veqb fill sh st').
  Proof.
    unfold np_rows. intros Hrows Hb Hvc.
    destruct ls as [|l0 ls']; [discriminate|].
    destruct (forallb (fun l => Nat.eqb (length l) (length l0)) (l0 :: ls')) eqn:Hall; [|discriminate].
    destruct (wrap_lists (l0 :: ls') sh) as [ws|] eqn:Ew; [|discriminate].
    inversion Hrows; subst rows; clear Hrows.
    destruct (wrap_lists_keys _ _ _ Ew) as (Hk & Hr & Hlens & Hlen).
    destruct ws as [|w0 ws']; [discriminate|].
    assert (Hw0 : length w0 = length l0) by (simpl in Hlens; inversion Hlens; reflexivity).
    rewrite <- Hw0 in *.
    assert (Hall' : forallb (fun l => Nat.eqb (length l) (length w0)) (w0 :: ws') = true)
      by (rewrite (forallb_length_map _ _ _ Hlens); exact Hall).
    unfold fancy_value_clause in Hvc. apply Nat.leb_le in Hvc.
    apply (fancy_setitem_core sh st (map VArr (l0 :: ls')) v (w0 :: ws') w0 ws');
      try assumption; try reflexivity.
    - rewrite map_length. exact Hlen.
    - apply transpose_in_range; [|exact Hr]. apply (f_equal (@length nat)) in Hlens.
      rewrite !map_length in Hlens. lia.
  Qed.

  (* a boolean mask over a 1-d array *)
  Lemma mask_setitem_spec d (st : state V) m v rows :
    0 <= d -> mask_rows [d] m = Some rows ->
    bcast_ok (a_shape v) [Z.of_nat (length rows)] = true -> fancy_value_clause v = true ->
    exists st',
      fancy_setitem veqb [d] fill st [VBArr m] v = Ok st' /\
      (forall ix, abs st' ix =
                  match last_pos idx_eqb ix rows with
                  | Some j => a_get v (bidx (a_shape v) [j])
                  | None => abs st ix
                  end) /\
      (wf V veqb fill [d] st -> wf V veqb fill [d] st').
  Proof.
    intros Hd Hrows Hb Hvc. pose proof (mask_rows_in_range _ _ _ Hrows) as Hrange.
    destruct (mask_rows_1d d m rows Hd Hrows) as [Hlen ->].
    unfold fancy_value_clause in Hvc. apply Nat.leb_le in Hvc.
    apply (fancy_setitem_core [d] st [VBArr m] v [nonzero_from 0 m] (nonzero_from 0 m) []);
      try assumption; try reflexivity.
    - cbn [fancy_keys]. rewrite fancy_key1_mask. rewrite Hlen, Z.eqb_refl. reflexivity.
    - cbn [forallb]. rewrite Nat.eqb_refl. reflexivity.
  Qed.
End FancyStep.

(* ------------------------------------------------------------------ all_indices has no repeats *)
Lemma NoDup_app_disj {A} (l1 l2 : list A) :
  NoDup l1 -> NoDup l2 -> (forall x, In x l1 -> ~ In x l2) -> NoDup (l1 ++ l2).
Proof.
  induction l1 as [|a l1 IH]; simpl; intros H1 H2 Hd; [assumption|].
  inversion H1; subst. constructor.
  - rewrite in_app_iff. intros [H|H]; [contradiction|]. eapply Hd; [left; reflexivity|exact H].
  - apply IH; auto.
Qed.

Lemma NoDup_zrange n : NoDup (zrange n).
Proof.
  unfold zrange. apply FinFun.Injective_map_NoDup; [|apply seq_NoDup].
  intros a b H. lia.
Qed.

Lemma NoDup_all_indices sh : NoDup (all_indices sh).
Proof.
  induction sh as [|d sh IH]; simpl; [repeat constructor; simpl; tauto|].
  generalize (NoDup_zrange d). generalize (zrange d) as xs.
  induction xs as [|x xs IHx]; simpl; intros Hn; [constructor|].
  inversion Hn; subst. apply NoDup_app_disj.
  - apply FinFun.Injective_map_NoDup; [|assumption]. intros a b H. inversion H. reflexivity.
  - auto.
  - intros y Hy Hy2. apply in_map_iff in Hy. destruct Hy as [t [<- _]].
    apply in_flat_map in Hy2. destruct Hy2 as [x' [Hx' Hy2]].
    apply in_map_iff in Hy2. destruct Hy2 as [t' [Heq _]]. inversion Heq; subst. contradiction.
Qed.

(* ------------------------------------------------------------------ histories *)
Section Histories.
  Variable V : Type.
  Variable veqb : V -> V -> bool.
  Hypothesis veqb_eq : forall a b, veqb a b = true <-> a = b.
  Variable fill : V.

  Notation state := (state V).
  Notation abs := (abs fill).
  Notation wf := (wf V veqb fill).
  Notation step := (step veqb).
  Notation run := (run veqb).

  (* whether NumPy accepts an assignment does not depend on the array's contents *)
  Lemma np_setitem_ext sh (a a' : idx -> V) k v :
    (forall ix, a ix = a' ix) ->
    match np_setitem sh a k v, np_setitem sh a' k v with
    | Some b, Some b' => forall ix, b ix = b' ix
    | None, None => True
    | _, _ => False
    end.
  Proof.
    intros He. destruct k as [es|ls|m|ix]; simpl.
    - unfold np_setitem_basic. destruct (np_axes (np_pad es sh) sh) as [axs|]; [|exact I].
      destruct (value_fits (a_shape v) (selshape axs)); [|exact I].
      intros ix. destruct (locate axs ix); [reflexivity|apply He].
    - destruct (np_rows ls sh) as [rows|]; [|exact I]. unfold np_assign_rows.
      destruct (bcast_ok (a_shape v) [Z.of_nat (length rows)]); [|exact I].
      intros ix. destruct (last_pos idx_eqb ix rows); [reflexivity|apply He].
    - destruct (mask_rows sh m) as [rows|]; [|exact I]. unfold np_assign_rows.
      destruct (bcast_ok (a_shape v) [Z.of_nat (length rows)]); [|exact I].
      intros ix. destruct (last_pos idx_eqb ix rows); [reflexivity|apply He].
    - destruct (np_index_axes sh ix) as [axs|]; [|exact I]. unfold np_setitem_axes.
      destruct (index_value_fits (np_scalar sh ix) (a_shape v) (selshape axs)); [|exact I].
      intros ix0. destruct (locate axs ix0); [reflexivity|apply He].
  Qed.

  Lemma np_assign_ext sh (a a' : idx -> V) op :
    (forall ix, a ix = a' ix) -> forall ix, np_assign sh a op ix = np_assign sh a' op ix.
  Proof.
    intros He. unfold np_assign. pose proof (np_setitem_ext sh a a' (fst op) (snd op) He) as H.
    destruct (np_setitem sh a (fst op) (snd op)); destruct (np_setitem sh a' (fst op) (snd op));
      try contradiction; auto.
  Qed.

  (* THE STEP LEMMA: one in-domain assignment on the dict = NumPy's assignment on its meaning *)
  Lemma fits_cases elem vs ss :
    index_value_fits elem vs ss = true -> (ss = [] -> elem = false -> vs = []) ->
    bcast_ok vs ss = true /\ (ss = [] -> vs = []).
  Proof.
    unfold index_value_fits. destruct elem.
    - destruct vs; [|discriminate]. intros _ _. split; [reflexivity|auto].
    - intros Hb H0. split; [exact Hb|]. intros Hs. apply H0; [exact Hs|reflexivity].
  Qed.

  Lemma step_spec sh (st : state) op :
    shape_ok sh -> op_dom sh op = true ->
    (forall ix, abs (step sh fill st op) ix = np_assign sh (abs st) op ix) /\
    (wf sh st -> wf sh (step sh fill st op)).
  Proof.
    intros Hok Hdom. destruct op as [k v]. unfold op_dom, op_valid in Hdom. simpl in Hdom.
    apply andb_true_iff in Hdom. destruct Hdom as [Hval Hcl].
    pose proof (np_setitem_ext sh (fun _ => a_get v []) (abs st) k v) as Hext.
    unfold DOK.step, np_assign. simpl fst. simpl snd.
    destruct k as [es|ls|m|ix]; simpl in *.
    - (* integers and slices *)
      unfold np_setitem_basic in *.
      destruct (np_axes (np_pad es sh) sh) as [axs|] eqn:Eax; [|discriminate].
      destruct (value_fits (a_shape v) (selshape axs)) eqn:Eb; [|discriminate].
      assert (H0 : selshape axs = [] -> a_shape v = []).
      { intros Hs. unfold value_fits in Eb. rewrite Hs in Eb. destruct (a_shape v); [reflexivity|discriminate]. }
      apply value_fits_bcast in Eb.
      destruct (setitem_basic_spec V veqb veqb_eq fill sh st es v axs Hok Eax Eb H0)
        as (st' & He & Ha & Hw).
      rewrite He. split; [exact Ha|exact Hw].
    - (* one integer list per axis *)
      destruct (np_rows ls sh) as [rows|] eqn:Er; [|discriminate].
      unfold np_assign_rows in *.
      destruct (bcast_ok (a_shape v) [Z.of_nat (length rows)]) eqn:Eb; [|discriminate].
      destruct (fancy_setitem_spec V veqb veqb_eq fill sh st ls v rows Er Eb Hcl)
        as (st' & He & Ha & Hw).
      rewrite He. split; [exact Ha|exact Hw].
    - (* a boolean mask over a 1-d array *)
      destruct sh as [|d [|d2 sh2]]; try discriminate.
      inversion Hok as [|? ? Hd _]; subst.
      destruct (mask_rows [d] m) as [rows|] eqn:Er; [|discriminate].
      unfold np_assign_rows in *.
      destruct (bcast_ok (a_shape v) [Z.of_nat (length rows)]) eqn:Eb; [|discriminate].
      destruct (mask_setitem_spec V veqb veqb_eq fill d st m v rows Hd Er Eb Hcl)
        as (st' & He & Ha & Hw).
      rewrite He. split; [exact Ha|exact Hw].
    - (* a general basic index *)
      repeat (apply andb_true_iff in Hcl; destruct Hcl as [Hcl ?]).
      rename H into Hv0, H0 into Hz, H1 into Hna, Hcl into Hnn.
      unfold view0d_clause in Hv0.
      destruct (np_index_axes sh ix) as [axs|] eqn:Eax; [|discriminate].
      unfold np_setitem_axes in *.
      destruct (index_value_fits (np_scalar sh ix) (a_shape v) (selshape axs)) eqn:Eb; [|discriminate].
      destruct (fits_cases _ _ _ Eb) as [Hb H0].
      { intros Hs _. rewrite Hs in Hv0. destruct (a_shape v); [reflexivity|discriminate]. }
      destruct ix as [|e0 ix0].
      + (* () is (Ellipsis,) *)
        rewrite <- np_index_axes_empty in Eax.
        destruct (setitem_index_spec V veqb veqb_eq fill sh st [IEllipsis] v axs Hok eq_refl eq_refl eq_refl Eax Hb H0)
          as (st' & He & Ha & Hw).
        rewrite He. split; [exact Ha|exact Hw].
      + destruct (setitem_index_spec V veqb veqb_eq fill sh st (e0 :: ix0) v axs Hok Hnn Hna Hz Eax Hb H0)
          as (st' & He & Ha & Hw).
        rewrite He. split; [exact Ha|exact Hw].
  Qed.

  (* REFINEMENT over arbitrary histories *)
  Lemma run_refines sh : forall ops (st : state) (a : idx -> V),
    shape_ok sh -> forallb (op_dom sh) ops = true ->
    (forall ix, abs st ix = a ix) -> wf sh st ->
    (forall ix, abs (fold_left (step sh fill) ops st) ix = fold_left (np_assign sh) ops a ix) /\
    wf sh (fold_left (step sh fill) ops st).
  Proof.
    induction ops as [|op ops IH]; intros st a Hok Hdom He Hw; simpl.
    - split; assumption.
    - simpl in Hdom. apply andb_true_iff in Hdom. destruct Hdom as [Hd1 Hd2].
      destruct (step_spec sh st op Hok Hd1) as [Hs Hws].
      apply IH; auto. intros ix. rewrite Hs. apply np_assign_ext. assumption.
  Qed.

  Theorem dok_refines_dense_proof sh ops :
    shape_ok sh -> forallb (op_dom sh) ops = true ->
    forall ix, abs (run sh fill ops) ix = fold_left (np_assign sh) ops (np_full fill) ix.
  Proof.
    intros Hok Hdom. unfold DOK.run.
    apply (run_refines sh ops [] (np_full fill) Hok Hdom); [reflexivity|apply wf_nil].
  Qed.

  (* keys of integers and slices (the empty key () included), any start / stop / step, scalar or
     array values with any number of leading axes of extent 1: NO clause at all *)
  Definition basic_valid (sh : shape) (op : key * arr V) : bool :=
    match fst op with KBasic _ => op_valid sh op | _ => false end.

  Theorem dok_refines_dense_basic_proof sh ops :
    shape_ok sh -> forallb (basic_valid sh) ops = true ->
    forall ix, abs (run sh fill ops) ix = fold_left (np_assign sh) ops (np_full fill) ix.
  Proof.
    intros Hok Hb. apply dok_refines_dense_proof; [exact Hok|].
    rewrite forallb_forall in *. intros op Hin. specialize (Hb op Hin).
    unfold basic_valid in Hb. unfold op_dom. destruct op as [[es|ls|m|ix] v]; simpl in *; try discriminate.
    rewrite Hb. reflexivity.
  Qed.

  Theorem dok_wf_proof sh ops :
    shape_ok sh -> forallb (op_dom sh) ops = true -> wf sh (run sh fill ops).
  Proof.
    intros Hok Hdom. unfold DOK.run.
    apply (run_refines sh ops [] (np_full fill) Hok Hdom); [reflexivity|apply wf_nil].
  Qed.

  (* nnz = number of non-fill elements, for any well-formed dict *)
  Lemma wf_nnz sh (st : state) :
    wf sh st -> nnz st = np_count_nonfill veqb sh (abs st) fill.
  Proof.
    intros (Hs & Hr & Hp). unfold nnz, np_count_nonfill. f_equal.
    rewrite <- (map_length fst st). apply Permutation_length.
    pose proof (sorted_nodup _ Hs) as Hnd.
    apply NoDup_Permutation; [assumption|apply NoDup_filter; apply NoDup_all_indices|].
    intros ix. rewrite filter_In, all_indices_In. unfold DOK.abs. split.
    - intros Hin. apply in_map_iff in Hin. destruct Hin as [[k v] [<- Hin]]. simpl.
      rewrite Forall_forall in Hr. split; [apply Hr; apply (in_map fst) in Hin; exact Hin|].
      rewrite (lookup_in V st k v Hnd Hin).
      rewrite Forall_forall in Hp. pose proof (Hp _ Hin) as Hv. simpl in Hv. rewrite Hv. reflexivity.
    - intros [_ Hne]. destruct (lookup st ix) as [v|] eqn:El.
      + apply lookup_some_in in El. apply (in_map fst) in El. exact El.
      + assert (veqb fill fill = true) by (apply veqb_eq; reflexivity). rewrite H in Hne. discriminate.
  Qed.

  Theorem dok_nnz_proof sh ops :
    shape_ok sh -> forallb (op_dom sh) ops = true ->
    nnz (run sh fill ops) =
    np_count_nonfill veqb sh (fold_left (np_assign sh) ops (np_full fill)) fill.
  Proof.
    intros Hok Hdom. rewrite (wf_nnz sh) by (apply dok_wf_proof; assumption).
    unfold np_count_nonfill. f_equal. f_equal. apply filter_ext. intros ix.
    rewrite dok_refines_dense_proof by assumption. reflexivity.
  Qed.

  (* ---------------------------------------------------------------- pruning, unconditionally *)
  Lemma loop_closed (P : state -> Prop) body :
    (forall j k st st', body j k st = Ok st' -> P st -> P st') ->
    forall ks j st st', loop body j ks st = Ok st' -> P st -> P st'.
  Proof.
    intros Hb. induction ks as [|k ks IH]; intros j st st'; simpl.
    - intros H. inversion H. auto.
    - destruct (body j k st) as [st1|] eqn:E; simpl; [|discriminate].
      intros H Hp. eapply IH; [exact H|]. eapply Hb; eassumption.
  Qed.

  Lemma setitem_go_closed (P : state -> Prop) :
    (forall k x st, P st -> P (store veqb fill k x st)) ->
    forall ents pre v st st', setitem_go veqb fill ents pre v st = Ok st' -> P st -> P st'.
  Proof.
    intros HP. induction ents as [|[ind dim] r IH]; intros pre v st st'; simpl.
    - destruct (0 - ndim v <? 0); [discriminate|]. intros H. inversion H. apply HP.
    - destruct ((if isinst_slice ind then 1 else 0) + nslices r - ndim v <? 0); [discriminate|].
      destruct (isinst_slice ind).
      + destruct (dok_bounds ind dim) as [[[s e] st0]|]; simpl; [|discriminate].
        destruct (st0 =? 0); [discriminate|].
        apply loop_closed. intros j k st1 st2.
        destruct (pick v (1 + nslices r - ndim v) j); simpl; [|discriminate]. apply IH.
      + destruct ind; try discriminate. apply IH.
  Qed.

  Lemma fancy_setitem_closed (P : state -> Prop) sh :
    (forall k x st, P st -> P (store veqb fill k x st)) ->
    forall ps v st st', fancy_setitem veqb sh fill st ps v = Ok st' -> P st -> P st'.
  Proof.
    intros HP ps v st st' E Hp. unfold fancy_setitem in E.
    destruct (negb (Nat.eqb (length ps) (length sh))); [discriminate|].
    destruct (fancy_keys ps sh) as [ls|]; simpl in E; [|discriminate].
    destruct ls as [|l0 ls']; [discriminate|].
    destruct (negb (forallb (fun l => Nat.eqb (length l) (length l0)) (l0 :: ls'))); [discriminate|].
    match type of E with (bind ?m _) = _ => destruct m as [vals|]; simpl in E; [|discriminate] end.
    inversion E; subst; clear E.
    match goal with |- P (fold_left _ ?c _) => generalize c end. revert Hp. generalize st.
    intros s Hs l. revert s Hs. induction l as [|kx l IHl]; intros s Hs; simpl; [assumption|].
    apply IHl. apply HP. assumption.
  Qed.

  Lemma step_closed (P : state -> Prop) sh :
    (forall k x st, P st -> P (store veqb fill k x st)) ->
    forall st op, P st -> P (step sh fill st op).
  Proof.
    intros HP st [k v] Hp. unfold DOK.step. simpl.
    destruct (setitem veqb sh fill st k v) as [st'|] eqn:E; [|assumption].
    destruct k as [es|ls|m|ix]; simpl in E.
    - unfold setitem_basic in E. destruct (normalize_key es sh); simpl in E; [|discriminate].
      eapply setitem_go_closed; eassumption.
    - eapply fancy_setitem_closed; eassumption.
    - destruct sh as [|d [|d2 sh2]]; try discriminate. eapply fancy_setitem_closed; eassumption.
    - assert (E' : exists ix', setitem_index veqb sh fill st ix' v = Ok st')
        by (destruct ix; eexists; exact E).
      destruct E' as [ix' E']. unfold setitem_index in E'.
      destruct (CooIndex.normalize_index ix' sh); simpl in E'; [|discriminate].
      eapply setitem_go_closed; eassumption.
  Qed.

  (* after ANY history of assignments — whatever the keys and values, in or out of the domain,
     accepted or rejected — no stored value equals the fill value *)
  Theorem dok_pruned_proof sh ops : pruned V veqb fill (run sh fill ops).
  Proof.
    unfold DOK.run. assert (H : pruned V veqb fill []) by constructor.
    revert H. generalize (@nil (idx * V)). induction ops as [|op ops IH]; intros st Hp; simpl; [assumption|].
    apply IH. apply step_closed; [|assumption]. intros k x s. apply pruned_store.
  Qed.

  (* ---------------------------------------------------------------- todense, asformat("coo") *)
  Lemma fold_upd_lookup : forall (st : state) (a : idx -> V) ix,
    NoDup (keys V st) ->
    fold_left (fun a kv => dense_upd a (fst kv) (snd kv)) st a ix =
    match lookup st ix with Some v => v | None => a ix end.
  Proof.
    induction st as [|[k v] r IH]; intros a ix Hn; simpl; [reflexivity|].
    inversion Hn as [|? ? Hn1 Hn2]; subst. rewrite IH by assumption.
    unfold dense_upd. destruct (idx_eqb k ix) eqn:E.
    - apply idx_eqb_eq in E. subst ix. rewrite (lookup_none V r k Hn1). rewrite idx_eqb_refl. reflexivity.
    - rewrite idx_eqb_sym, E. reflexivity.
  Qed.

  Theorem dok_todense_proof sh (st : state) :
    wf sh st -> todense sh fill st = np_flat sh (abs st).
  Proof.
    intros (Hs & _ & _). unfold todense, np_flat. apply map_ext. intros ix.
    unfold todense_fn. rewrite fold_upd_lookup by (apply sorted_nodup; assumption). reflexivity.
  Qed.

  Lemma combine_fst_snd {A B} (l : list (A * B)) : combine (map fst l) (map snd l) = l.
  Proof. induction l as [|[a b] l IH]; simpl; [reflexivity|]. rewrite IH. reflexivity. Qed.

  Lemma coo_lookup_nodup : forall (st : state) ix,
    NoDup (keys V st) -> COO.lookup st ix = lookup st ix.
  Proof.
    induction st as [|[k v] r IH]; intros ix Hn; simpl; [reflexivity|].
    inversion Hn as [|? ? Hn1 Hn2]; subst. rewrite IH by assumption.
    destruct (idx_eqb k ix) eqn:E.
    - apply idx_eqb_eq in E. subst ix. rewrite (lookup_none V r k Hn1). reflexivity.
    - destruct (lookup r ix); reflexivity.
  Qed.

  Lemma sorted_strict_of_Sorted (l : list idx) : Sorted lex_lt l -> sorted_strict l = true.
  Proof.
    induction l as [|a l IH]; intros Hs; [reflexivity|].
    inversion Hs as [|? ? Hs1 Hs2]; subst. simpl. destruct l as [|b l]; [reflexivity|].
    inversion Hs2; subst. rewrite IH by assumption.
    assert (lex_ltb a b = true) by (apply lex_ltb_spec; assumption). rewrite H. reflexivity.
  Qed.

  Theorem dok_tocoo_proof sh (st : state) :
    wf sh st ->
    canonicalb (to_coo sh fill st) = true /\ prunedb veqb (to_coo sh fill st) = true /\
    (forall ix, den (to_coo sh fill st) ix = abs st ix) /\
    COO.nnz (to_coo sh fill st) = nnz st.
  Proof.
    intros (Hs & Hr & Hp). unfold keys in *. split; [|split; [|split]].
    - unfold canonicalb, to_coo. simpl. rewrite !map_length, Nat.eqb_refl.
      rewrite (sorted_strict_of_Sorted _ Hs).
      assert (forallb (in_rangeb sh) (map fst st) = true) as ->; [|reflexivity].
      apply forallb_forall. intros k Hk. apply in_rangeb_spec. rewrite Forall_forall in Hr. auto.
    - unfold prunedb, to_coo. simpl. apply forallb_forall. intros x Hx.
      apply in_map_iff in Hx. destruct Hx as [kv [<- Hin]]. rewrite Forall_forall in Hp.
      rewrite (Hp _ Hin). reflexivity.
    - intros ix. unfold den, entries, to_coo, DOK.abs. simpl. rewrite combine_fst_snd.
      rewrite coo_lookup_nodup by (apply sorted_nodup; assumption). reflexivity.
    - unfold COO.nnz, nnz, to_coo. simpl. rewrite map_length. reflexivity.
  Qed.
End Histories.

(* ------------------------------------------------------------------ reads *)
Section Reads.
  Variable V : Type.
  Variable fill : V.

  (* reading through a key of the read domain gives what NumPy gives on the dict's meaning *)
  Theorem dok_read_spec_proof sh (st : state V) k r :
    shape_ok sh -> read_dom sh k = true ->
    np_getitem sh (abs fill st) k = Some r -> getitem sh fill st k = Ok r.
  Proof.
    intros Hok Hdom. destruct k as [es|ls|m|ix]; simpl in *.
    - destruct (np_axes (np_pad es sh) sh) as [axs|] eqn:Eax; [|discriminate].
      intros H. inversion H; subst; clear H.
      destruct (norm_entries_resolves _ _ _ Hok Eax) as (ents & Hn & _ & Ha).
      unfold getitem_basic, normalize_key. rewrite Hn. simpl. rewrite Ha. reflexivity.
    - unfold np_rows. destruct ls as [|l0 ls']; [discriminate|].
      destruct (forallb (fun l => Nat.eqb (length l) (length l0)) (l0 :: ls')) eqn:Hall; [|discriminate].
      destruct (wrap_lists (l0 :: ls') sh) as [ws|] eqn:Ew; [|discriminate].
      intros H. inversion H; subst; clear H.
      destruct (wrap_lists_keys _ _ _ Ew) as (Hk & _ & Hlens & Hlen).
      destruct ws as [|w0 ws']; [discriminate|].
      assert (Hw0 : length w0 = length l0) by (simpl in Hlens; inversion Hlens; reflexivity).
      unfold fancy_getitem. rewrite map_length, Hlen, Nat.eqb_refl. cbn [negb]. cbv iota.
      rewrite Hk. cbn [bind]. rewrite <- Hw0 in *.
      rewrite (forallb_length_map _ _ _ Hlens), Hall. cbn [negb]. cbv iota.
      rewrite transpose_length by (rewrite (forallb_length_map _ _ _ Hlens); exact Hall). reflexivity.
    - destruct sh as [|d [|d2 sh2]]; try discriminate.
      inversion Hok as [|? ? Hd _]; subst.
      destruct (mask_rows [d] m) as [rows|] eqn:Er; [|discriminate].
      intros H. inversion H; subst; clear H.
      destruct (mask_rows_1d d m rows Hd Er) as [Hlen ->].
      unfold fancy_getitem. cbn [length Nat.eqb negb fancy_keys]. rewrite fancy_key1_mask, Hlen, Z.eqb_refl.
      cbn [bind forallb]. rewrite Nat.eqb_refl. cbn [andb negb].
      rewrite transpose_length by (cbn [forallb]; rewrite Nat.eqb_refl; reflexivity). reflexivity.
    - apply andb_true_iff in Hdom. destruct Hdom as [Hna Hz].
      destruct (np_index_axes sh ix) as [axs|] eqn:Eax; [|discriminate].
      intros H. inversion H; subst; clear H.
      destruct (index_read_link sh ix axs Hok Hna Hz Eax) as (nix & Hn & Ha).
      unfold getitem_index. rewrite Hn. cbn [bind]. rewrite Ha. reflexivity.
  Qed.
End Reads.

(* ------------------------------------------------------------------ the defects, as theorems *)
(* concrete instance: integer elements *)
Definition zsc (z : Z) : arr Z := mkArr [] (fun _ => z).
Definition zvec (l : list Z) : arr Z :=
  mkArr [Z.of_nat (length l)] (fun ix => match ix with [j] => nth (Z.to_nat j) l 0 | _ => 0 end).
Definition zmat (rows : list (list Z)) : arr Z :=
  mkArr [Z.of_nat (length rows); Z.of_nat (length (hd [] rows))]
        (fun ix => match ix with [i; j] => nth (Z.to_nat j) (nth (Z.to_nat i) rows []) 0 | _ => 0 end).

(* integer-list keys: d[[0, 1]] = np.array([[5, 6]]) (a value with a leading axis of extent 1)
   raises ValueError "Dimension of values (2) must be 0 or 1!" (pinned by the test suite); NumPy
   broadcasts it *)
Theorem dok_fancy_value_ndim_refuted_proof :
  exists (sh : shape) (fill : Z) (op : key * arr Z) (ix : idx),
    shape_ok sh /\ op_valid sh op = true /\
    abs fill (step Z.eqb sh fill [] op) ix <> np_assign sh (np_full fill) op ix.
Proof.
  exists [5], 0, (KFancy [[0; 1]], zmat [[5; 6]]), [1].
  split; [repeat constructor; lia|]. split; [reflexivity|]. vm_compute. congruence.
Qed.

(* a single n-d boolean array as key: d[mask2d] = 5 raises IndexError *)
Theorem dok_mask_refuted_proof :
  exists (sh : shape) (fill : Z) (op : key * arr Z) (ix : idx),
    shape_ok sh /\ op_valid sh op = true /\
    abs fill (step Z.eqb sh fill [] op) ix <> np_assign sh (np_full fill) op ix.
Proof.
  exists [2; 2], 0, (KMask [true; false; false; true], zsc 5), [1; 1].
  split; [repeat constructor; lia|]. split; [reflexivity|]. vm_compute. congruence.
Qed.

(* a 0-d VIEW as target: d = DOK((3,)); d[..., -1] = np.array([5]) raises ValueError; NumPy
   broadcasts the one-element array into x[..., -1] *)
Theorem dok_view0d_refuted_proof :
  exists (sh : shape) (fill : Z) (op : key * arr Z) (ix : idx),
    shape_ok sh /\ op_valid sh op = true /\
    abs fill (step Z.eqb sh fill [] op) ix <> np_assign sh (np_full fill) op ix.
Proof.
  exists [3], 0, (KIndex [IEllipsis; IInt (-1)], zvec [5]), [2].
  split; [repeat constructor; lia|]. split; [reflexivity|]. vm_compute. congruence.
Qed.

(* the defects repaired in round 7 (b72190a, 336daf5, d195a7a, 6eae3a6, e6d97fc) are INSIDE the
   proved domain; their old witnesses as regression examples *)
Example dok_round7_defects_fixed :
  (* d[[-1]] = 5 stores the key (4,) *)
  run Z.eqb [5] 0 [(KFancy [[-1]], zsc 5)] = [([4], 5)] /\
  (* d[[0, 1]] = [5] broadcasts; d[[]] = 5 does nothing *)
  run Z.eqb [5] 0 [(KFancy [[0; 1]], zvec [5])] = [([0], 5); ([1], 5)] /\
  run Z.eqb [5] 0 [(KFancy [[]], zsc 5)] = [] /\
  (* d[mask] = 5 on a 1-d DOK, and reading it back through the mask *)
  run Z.eqb [3] 0 [(KMask [true; false; true], zsc 5)] = [([0], 5); ([2], 5)] /\
  getitem [3] 0 [([0], 5); ([2], 5)] (KMask [true; false; true]) = Ok ([2], [5; 5]) /\
  (* d[0:2] = np.array([[1, 2]]) drops the leading axis *)
  run Z.eqb [5] 0 [(KBasic [KSlice (Some 0) (Some 2) None], zmat [[1; 2]])] = [([0], 1); ([1], 2)] /\
  (* d[()] = 5 assigns everything; d[()] reads everything *)
  run Z.eqb [2; 2] 0 [(KBasic [], zsc 5)] = [([0; 0], 5); ([0; 1], 5); ([1; 0], 5); ([1; 1], 5)] /\
  getitem [2; 2] 0 [([0; 1], 7)] (KBasic []) = Ok ([2; 2], [0; 7; 0; 0]) /\
  forallb (op_dom [5]) [(KFancy [[-1]], zsc 5); (KFancy [[0; 1]], zvec [5]); (KFancy [[]], zsc 5);
                        (KBasic [KSlice (Some 0) (Some 2) None], zmat [[1; 2]]); (KBasic [], zsc 5);
                        (KIndex [], zsc 5)] = true /\
  op_dom [3] (KMask [true; false; true], zvec [5; 6]) = true.
Proof. vm_compute. repeat split. Qed.

(* the former defects D1, D4 and the double normalisation of reads (fixed in /repo by f6512bb and
   97946a9) are now INSIDE the proved domain; their old witnesses as regression examples *)
Example dok_former_defects_fixed :
  (* d = DOK((5,)); d[0::-1] = 7 writes only d[0] *)
  run Z.eqb [5] 0 [(KBasic [KSlice (Some 0) None (Some (-1))], zsc 7)] = [([0], 7)] /\
  (* d[3:-1:-1] = 7 writes nothing; d[-9:0:-1] = 7 writes nothing *)
  run Z.eqb [5] 0 [(KBasic [KSlice (Some 3) (Some (-1)) (Some (-1))], zsc 7)] = [] /\
  run Z.eqb [5] 0 [(KBasic [KSlice (Some (-9)) (Some 0) (Some (-1))], zsc 7)] = [] /\
  (* DOK(arange(1,6))[-7:-6:-2] is empty *)
  getitem [5] 0 (run Z.eqb [5] 0 [(KBasic [KSlice None None None], zvec [1; 2; 3; 4; 5])])
          (KBasic [KSlice (Some (-7)) (Some (-6)) (Some (-2))]) = Ok ([0], []) /\
  forallb (op_dom [5]) [(KBasic [KSlice (Some 0) None (Some (-1))], zsc 7);
                        (KBasic [KSlice (Some 3) (Some (-1)) (Some (-1))], zsc 7);
                        (KBasic [KSlice (Some (-9)) (Some 0) (Some (-1))], zsc 7)] = true.
Proof. vm_compute. repeat split. Qed.

(* ------------------------------------------------------------------ non-vacuity *)
Definition ex_ops : list (key * arr Z) :=
  [ (KBasic [KSlice None None (Some (-1)); KSlice (Some 1) None (Some 2)], zvec [9; 8]);
    (KBasic [KInt (-1)], zsc 5);
    (KBasic [KSlice (Some 0) (Some 2) None; KSlice (Some 1) (Some 3) None], zmat [[1]; [2]]);
    (KBasic [KInt 0; KInt 1], zsc 0);
    (KFancy [[0; 2; 0]; [3; 3; 3]], zvec [4; 6; 0]);
    (KBasic [KSlice (Some (-2)) (Some 0) (Some (-1))], zsc 0) ].

Example dok_refines_nonvacuous :
  shape_ok [3; 4] /\ forallb (op_dom [3; 4]) ex_ops = true /\
  run Z.eqb [3; 4] 0 ex_ops = [([0; 2], 1); ([2; 0], 5); ([2; 1], 5); ([2; 2], 5); ([2; 3], 6)] /\
  np_flat [3; 4] (fold_left (np_assign [3; 4]) ex_ops (np_full 0)) = [0; 0; 1; 0; 0; 0; 0; 0; 5; 5; 5; 6] /\
  nnz (run Z.eqb [3; 4] 0 ex_ops) = 5.
Proof. split; [repeat constructor; lia|]. vm_compute. repeat split. Qed.

Example dok_read_nonvacuous :
  read_dom [3; 4] (KBasic [KSlice None None (Some (-1)); KInt (-1)]) = true /\
  getitem [3; 4] 0 (run Z.eqb [3; 4] 0 ex_ops) (KBasic [KSlice None None (Some (-1)); KInt (-1)])
  = Ok ([3], [6; 0; 0]).
Proof. vm_compute. split; reflexivity. Qed.

(* ------------------------------------------------------------------ observations after a history *)
Section AfterHistory.
  Variable V : Type.
  Variable veqb : V -> V -> bool.
  Hypothesis veqb_eq : forall a b, veqb a b = true <-> a = b.
  Variable fill : V.

  Definition np_run (sh : shape) (ops : list (key * arr V)) : idx -> V :=
    fold_left (np_assign sh) ops (np_full fill).

  Lemma np_getitem_ext sh (a a' : idx -> V) k :
    (forall ix, a ix = a' ix) -> np_getitem sh a k = np_getitem sh a' k.
  Proof.
    intros He. destruct k as [es|ls|m|ix]; simpl.
    - destruct (np_axes (np_pad es sh) sh); [|reflexivity]. f_equal. f_equal. apply map_ext. assumption.
    - destruct (np_rows ls sh); [|reflexivity]. f_equal. f_equal. apply map_ext. assumption.
    - destruct (mask_rows sh m); [|reflexivity]. f_equal. f_equal. apply map_ext. assumption.
    - destruct (np_index_axes sh ix); [|reflexivity]. f_equal. f_equal. apply map_ext. assumption.
  Qed.

  Theorem dok_read_after_proof sh ops k r :
    shape_ok sh -> forallb (op_dom sh) ops = true -> read_dom sh k = true ->
    np_getitem sh (np_run sh ops) k = Some r ->
    getitem sh fill (run veqb sh fill ops) k = Ok r.
  Proof.
    intros Hok Hdom Hrd H. apply dok_read_spec_proof; try assumption.
    rewrite <- H. apply np_getitem_ext. intros ix.
    apply (dok_refines_dense_proof V veqb veqb_eq fill sh ops Hok Hdom).
  Qed.

  Theorem dok_todense_after_proof sh ops :
    shape_ok sh -> forallb (op_dom sh) ops = true ->
    todense sh fill (run veqb sh fill ops) = np_flat sh (np_run sh ops).
  Proof.
    intros Hok Hdom.
    rewrite (dok_todense_proof V veqb fill sh) by (apply dok_wf_proof; assumption).
    unfold np_flat. apply map_ext. intros ix.
    apply (dok_refines_dense_proof V veqb veqb_eq fill sh ops Hok Hdom).
  Qed.

  Theorem dok_tocoo_after_proof sh ops :
    shape_ok sh -> forallb (op_dom sh) ops = true ->
    let c := to_coo sh fill (run veqb sh fill ops) in
    canonicalb c = true /\ prunedb veqb c = true /\
    (forall ix, den c ix = np_run sh ops ix) /\
    COO.nnz c = np_count_nonfill veqb sh (np_run sh ops) fill.
  Proof.
    intros Hok Hdom c.
    pose proof (dok_wf_proof V veqb veqb_eq fill sh ops Hok Hdom) as Hw.
    destruct (dok_tocoo_proof V veqb fill sh _ Hw) as (Hc & Hp & Hd & Hn).
    split; [exact Hc|]. split; [exact Hp|]. split.
    - intros ix. unfold c. rewrite Hd. apply (dok_refines_dense_proof V veqb veqb_eq fill sh ops Hok Hdom).
    - unfold c. rewrite Hn. apply (dok_nnz_proof V veqb veqb_eq fill sh ops Hok Hdom).
  Qed.
End AfterHistory.
