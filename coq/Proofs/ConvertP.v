(* Proofs/ConvertP.v — C05, part 3: DOK and dense round trips, and the chain theorem: any finite
   history of conversions between COO, GCXS (any valid compressed axes), CSR, CSC, DOK and dense
   keeps the shape, the fill value and every element, and every intermediate result is in canonical
   form.  (Parts 1 and 2: ConvertM.v — the COO constructor; ConvertG.v — COO <-> GCXS.) *)
From Coq Require Import ZArith List Bool Lia Sorting.Sorted Sorting.Permutation.
From Verif Require Import Py Shape COO GCXS COOP S_convert Convert ConvertL ConvertM ConvertG.
Import ListNotations.
Open Scope Z_scope.

Section Chain.
  Variable V : Type.
  Variable veqb : V -> V -> bool.
  Variable add : V -> V -> V.
  Hypothesis veqb_eq : forall a b, veqb a b = true <-> a = b.

  Notation entry := (idx * V)%type.
  Notation canon := (canonical V).

  (* ================================================================ DOK *)
  Lemma dict_set_fresh k v (d : list entry) :
    ~ In k (map fst d) -> dict_set k v d = d ++ [(k, v)].
  Proof.
    induction d as [|[k' w] r IH]; simpl; intros H; [reflexivity|].
    destruct (idx_eqb k' k) eqn:E; [apply idx_eqb_eq in E; subst; tauto|].
    f_equal. apply IH. tauto.
  Qed.

  Lemma fold_dict_set (es : list entry) : forall acc,
    NoDup (map fst (acc ++ es)) ->
    fold_left (fun d kv => dict_set (fst kv) (snd kv) d) es acc = acc ++ es.
  Proof.
    induction es as [|[k v] r IH]; intros acc Hnd; simpl; [rewrite app_nil_r; reflexivity|].
    rewrite dict_set_fresh.
    - rewrite IH; rewrite <- app_assoc; [reflexivity|exact Hnd].
    - rewrite map_app in Hnd. simpl in Hnd. apply NoDup_remove_2 in Hnd.
      intros Hin. apply Hnd. apply in_or_app. left. exact Hin.
  Qed.

  Lemma entries_NoDup (c : coo V) : canon c -> NoDup (map fst (entries c)).
  Proof.
    intros [_ [Hs Hl]]. unfold entries. rewrite map_fst_combine by lia. apply SS_lex_NoDup. exact Hs.
  Qed.

  Lemma dok_items_canonical (c : coo V) : canon c -> dok_items_of_coo c = entries c.
  Proof. intros Hc. unfold dok_items_of_coo. apply (fold_dict_set (entries c) []). apply entries_NoDup. exact Hc. Qed.

  Lemma dok_as_coo_entries (c : coo V) :
    canon c -> dok_as_coo (c_shape c) (entries c) (c_fill c) = c.
  Proof.
    intros [_ [_ Hl]]. unfold dok_as_coo, entries.
    rewrite map_fst_combine, map_snd_combine by lia. apply coo_eta.
  Qed.

  (* DOK -> COO: COO.from_iter on the dict items *)
  Lemma from_iter_entries_any (c : coo V) :
    canon c -> from_iter_pairs veqb add (c_shape c) (entries c) (c_fill c) = Ok c.
  Proof.
    intros Hc. pose proof Hc as [Hr [Hs Hl]].
    unfold from_iter_pairs, coo_make_checked, entries. rewrite map_fst_combine, map_snd_combine by lia.
    rewrite Hl, Nat.eqb_refl. cbn [negb orb andb].
    replace (forallb (in_rangeb (c_shape c)) (c_coords c)) with true.
    - cbn [negb]. f_equal. apply coo_make_canonical_id. exact Hc.
    - symmetry. apply forallb_forall. intros x Hx. apply in_rangeb_spec. rewrite Forall_forall in Hr. auto.
  Qed.

  Theorem dok_roundtrip_proof (c : coo V) :
    canon c ->
    from_iter_pairs veqb add (c_shape c) (dok_items_of_coo c) (c_fill c) = Ok c
    /\ forall ix, den (dok_as_coo (c_shape c) (dok_items_of_coo c) (c_fill c)) ix = den c ix.
  Proof.
    intros Hc. rewrite dok_items_canonical by exact Hc. split.
    - apply from_iter_entries_any. exact Hc.
    - intros ix. rewrite dok_as_coo_entries by exact Hc. reflexivity.
  Qed.

  (* ================================================================ dense *)
  Lemma lookup_tabulated (ks : list idx) (f : idx -> V) k :
    In k ks -> lookup (combine ks (map f ks)) k = Some (f k).
  Proof.
    induction ks as [|a ks IH]; simpl; [tauto|]. intros H.
    destruct (in_dec (list_eq_dec Z.eq_dec) k ks) as [Hin|Hnin].
    - rewrite IH by exact Hin. reflexivity.
    - destruct H as [->|H]; [|contradiction].
      rewrite lookup_notin; [rewrite idx_eqb_refl; reflexivity|].
      rewrite map_fst_combine by (rewrite map_length; reflexivity). exact Hnin.
  Qed.

  Lemma den_dense_todense (c : coo V) f ix :
    in_range (c_shape c) ix -> den (dense_as_coo (todense c) f) ix = den c ix.
  Proof.
    intros Hix. unfold den at 1, dense_as_coo, entries, todense, tabulate. cbn [c_coords c_data d_shape d_flat c_fill].
    rewrite lookup_tabulated; [reflexivity|]. apply all_indices_In. exact Hix.
  Qed.

  Lemma den_from_dense (d : dense V) f ix :
    dense_wf d -> in_range (d_shape d) ix -> den (from_dense veqb d f) ix = den (dense_as_coo d f) ix.
  Proof.
    intros Hwf Hix. pose proof (todense_from_dense V veqb veqb_eq d f Hwf) as Ht.
    rewrite <- Ht at 2.
    assert (Hsh : d_shape d = c_shape (from_dense veqb d f)) by reflexivity.
    rewrite Hsh in Hix. rewrite den_dense_todense by exact Hix. reflexivity.
  Qed.

  Lemma todense_wf (c : coo V) : dense_wf (todense c).
  Proof. unfold dense_wf, todense, tabulate. simpl. apply map_length. Qed.

  Lemma from_dense_canon (d : dense V) f : canon (from_dense veqb d f) /\ prunedb veqb (from_dense veqb d f) = true.
  Proof.
    destruct (from_dense_canonical V veqb d f) as [H1 H2]. split; [|exact H2].
    apply canonicalb_spec. exact H1.
  Qed.

  (* ================================================================ the invariant of a chain *)
  (* every state of a chain is the image, in some format, of a canonical COO with the meaning of
     the starting array *)
  Definition shape_nd (sh : shape) : Prop := (2 <= length sh)%nat.

  Inductive image (c : coo V) : repr V -> Prop :=
  | ImCoo : image c (RCoo c)
  | ImGcxs ca : axes_ok (c_shape c) ca -> image c (RGcxs (gcxs_from_coo c ca))
  | ImDok : image c (RDok (c_shape c) (entries c) (c_fill c))
  | ImDense : image c (RDense (todense c) (c_fill c)).

  Definition same_meaning (c0 c : coo V) : Prop :=
    canon c /\ c_shape c = c_shape c0 /\ c_fill c = c_fill c0 /\
    (prunedb veqb c0 = true -> prunedb veqb c = true) /\
    forall ix, in_range (c_shape c0) ix -> den c ix = den c0 ix.

  Definition inv (c0 : coo V) (r : repr V) : Prop := exists c, same_meaning c0 c /\ image c r.

  (* ---- the invariant gives the observable facts *)
  Lemma shape_okb_spec sh : shape_okb sh = true <-> shape_ok sh.
  Proof.
    unfold shape_okb, shape_ok. rewrite forallb_forall, Forall_forall.
    split; intros H x Hx; specialize (H x Hx); [apply Z.leb_le in H|apply Z.leb_le]; exact H.
  Qed.

  Lemma NoDup_idxb_spec l : NoDup_idxb l = true <-> NoDup l.
  Proof.
    induction l as [|a r IH]; simpl.
    - split; [constructor|reflexivity].
    - rewrite andb_true_iff, negb_true_iff, IH. split.
      + intros [Hm Hn]. constructor; [|assumption]. intros Hin.
        assert (existsb (idx_eqb a) r = true) by (apply existsb_exists; exists a; split; [assumption|apply idx_eqb_refl]).
        congruence.
      + intros H. inversion H; subst. split; [|assumption].
        destruct (existsb (idx_eqb a) r) eqn:E; [|reflexivity].
        apply existsb_exists in E. destruct E as [y [Hy E]]. apply idx_eqb_eq in E. subst. contradiction.
  Qed.

  Lemma inv_facts c0 r :
    shape_ok (c_shape c0) -> inv c0 r ->
    wf_r r = true /\ shape_r r = c_shape c0 /\ fill_r r = c_fill c0 /\
    forall ix, in_range (c_shape c0) ix -> den_r r ix = den c0 ix.
  Proof.
    intros Hok [c [[Hc [Hsh [Hf [Hpr Hden]]]] Him]].
    assert (Hokc : shape_ok (c_shape c)) by (rewrite Hsh; exact Hok).
    inversion Him; subst; cbn [wf_r shape_r fill_r den_r].
    - repeat split; auto. apply andb_true_iff. split; [apply canonicalb_spec; exact Hc|apply shape_okb_spec; exact Hokc].
    - repeat split.
      + apply (gcxs_from_coo_wf_proof V veqb add); assumption.
      + unfold gcxs_from_coo. destruct (c_shape c) as [|d1 [|d2 t]]; simpl; assumption.
      + unfold gcxs_from_coo. destruct (c_shape c) as [|d1 [|d2 t]]; simpl; assumption.
      + intros ix Hix. rewrite (gcxs_from_coo_den_proof V veqb add) by assumption. auto.
    - repeat split; auto.
      + pose proof Hc as [Hr [Hs Hl]].
        apply andb_true_iff. split; [apply andb_true_iff; split|].
        * apply forallb_forall. intros kv Hkv. apply in_rangeb_spec. rewrite Forall_forall in Hr.
          apply Hr. destruct kv. eapply in_combine_l. exact Hkv.
        * apply NoDup_idxb_spec. apply entries_NoDup. exact Hc.
        * apply shape_okb_spec. exact Hokc.
      + intros ix Hix. rewrite dok_as_coo_entries by exact Hc. auto.
    - repeat split; auto.
      + apply andb_true_iff. split; [|apply shape_okb_spec; exact Hokc].
        apply Nat.eqb_eq. apply todense_wf.
      + intros ix Hix. rewrite den_dense_todense by (rewrite Hsh; exact Hix). auto.
  Qed.

  (* ---- every state converts to a canonical COO with the same meaning *)
  Lemma to_coo_inv c0 r :
    shape_ok (c_shape c0) -> inv c0 r ->
    exists c', to_coo veqb add r = Ok c' /\ same_meaning c0 c'.
  Proof.
    intros Hok [c [Hsm Him]]. pose proof Hsm as [Hc [Hsh [Hf [Hpr Hden]]]].
    assert (Hokc : shape_ok (c_shape c)) by (rewrite Hsh; exact Hok).
    inversion Him; subst; cbn [to_coo].
    - exists c. split; [reflexivity|exact Hsm].
    - exists c. split; [|exact Hsm]. f_equal. apply tocoo_from_coo_proof; assumption.
    - exists c. split; [|exact Hsm]. apply from_iter_entries_any. exact Hc.
    - exists (from_dense veqb (todense c) (c_fill c)). split; [reflexivity|].
      destruct (from_dense_canon (todense c) (c_fill c)) as [H1 H2].
      split; [exact H1|]. split; [exact Hsh|]. split; [exact Hf|]. split; [intros _; exact H2|].
      intros ix Hix. rewrite den_from_dense; [|apply todense_wf|simpl; rewrite Hsh; exact Hix].
      rewrite den_dense_todense by (rewrite Hsh; exact Hix). auto.
  Qed.

  (* ---- axes *)
  Lemma argmin_from_range l : forall best bi i,
    0 <= bi < i -> bi <= argmin_from best bi i l < i + Z.of_nat (length l) /\ 0 <= argmin_from best bi i l.
  Proof.
    induction l as [|x l IH]; intros best bi i H; simpl; [lia|].
    destruct (x <? best).
    - specialize (IH x i (i + 1)). lia.
    - specialize (IH best bi (i + 1)). lia.
  Qed.

  Lemma argmin_range l : l <> [] -> 0 <= argmin l < Z.of_nat (length l).
  Proof.
    destruct l as [|x l]; [congruence|]. intros _. unfold argmin.
    destruct l as [|y l]; [simpl; lia|].
    pose proof (argmin_from_range (y :: l) x 0 1). simpl length in *. lia.
  Qed.

  Lemma strictly_increasing_NoDupb l : strictly_increasing l = true -> NoDupb l = true.
  Proof. intros H. apply NoDupb_NoDup, SS_lt_NoDup, strictly_increasing_SS. exact H. Qed.

  Lemma resolve_axes_ok sh oa ca : resolve_axes sh oa = Ok ca -> axes_ok sh ca.
  Proof.
    unfold resolve_axes, axes_ok. destruct (Z.ltb_spec (Z.of_nat (length sh)) 2) as [Hlt|Hge]; intros Hres.
    - left. lia.
    - right. destruct oa as [ca0|].
      + destruct (forallb (fun a => (- Z.of_nat (length sh) <=? a) && (a <? Z.of_nat (length sh))) ca0
                  && caxes_checkb (Z.of_nat (length sh)) (normalize_axes (Z.of_nat (length sh)) ca0)) eqn:E; [|discriminate].
        inversion Hres; subst. apply andb_true_iff in E. destruct E as [_ E].
        unfold caxes_checkb in E. unfold caxes_okb. rewrite !andb_true_iff in *.
        destruct E as [[[E1 E2] E3] E4]. repeat split; auto. apply strictly_increasing_NoDupb. exact E3.
      + inversion Hres; subst. unfold caxes_okb.
        assert (Hne : sh <> []) by (intros ->; simpl in Hge; lia).
        pose proof (argmin_range sh Hne) as Ha.
        cbn [is_nil negb length NoDupb mem_z existsb forallb andb].
        replace (Z.of_nat 1 <? Z.of_nat (length sh)) with true by (symmetry; apply Z.ltb_lt; lia).
        replace (0 <=? argmin sh) with true by (symmetry; apply Z.leb_le; lia).
        replace (argmin sh <? Z.of_nat (length sh)) with true by (symmetry; apply Z.ltb_lt; lia).
        reflexivity.
  Qed.

  Lemma axes_ok_single sh a : length sh = 2%nat -> (a = 0 \/ a = 1) -> axes_ok sh [a].
  Proof.
    intros Hl Ha. right. rewrite Hl. destruct Ha as [-> | ->]; reflexivity.
  Qed.

  Lemma change_axes_image (c : coo V) ca ca' :
    canon c -> shape_ok (c_shape c) -> axes_ok (c_shape c) ca -> axes_ok (c_shape c) ca' ->
    (2 <= length (c_shape c))%nat ->
    gcxs_change_axes (gcxs_from_coo c ca) ca' = gcxs_from_coo c ca'.
  Proof.
    intros Hc Hok [H1|H1] [H2|H2] Hnd; try lia. apply change_axes_from_coo_nd; assumption.
  Qed.

  Lemma from_coo_shape (c : coo V) ca : g_shape (gcxs_from_coo c ca) = c_shape c.
  Proof. unfold gcxs_from_coo. destruct (c_shape c) as [|d1 [|d2 t]]; reflexivity. Qed.

  (* ---- x.todense() *)
  Lemma gcxs_todense_from_coo (c : coo V) ca :
    canon c -> shape_ok (c_shape c) -> axes_ok (c_shape c) ca ->
    gcxs_todense veqb add (gcxs_from_coo c ca) = todense c.
  Proof.
    intros Hc Hok Hax. unfold gcxs_todense. rewrite from_coo_shape.
    pose proof (tocoo_from_coo_proof V veqb add c ca Hc Hok Hax) as T1.
    pose proof (as_coo_from_coo_small V veqb add c ca Hc) as A1.
    destruct (c_shape c) as [|d1 [|d2 t]] eqn:E.
    - destruct (coords_0d V veqb add c Hc E) as [H1 H2].
      unfold gcxs_from_coo. rewrite E. cbn [g_data g_fill].
      unfold todense, tabulate. rewrite E. simpl. f_equal. f_equal.
      unfold den, entries. rewrite H1.
      destruct (c_data c) as [|v [|w l]]; simpl in *; try reflexivity; lia.
    - rewrite A1 by (simpl; lia). reflexivity.
    - rewrite T1. reflexivity.
  Qed.

  Lemma dense_image c0 r : shape_ok (c_shape c0) -> inv c0 r -> inv c0 (RDense (todense_r veqb add r) (fill_r r)).
  Proof.
    intros Hok [c [Hsm Him]]. pose proof Hsm as [Hc [Hsh _]].
    assert (Hokc : shape_ok (c_shape c)) by (rewrite Hsh; exact Hok).
    exists c. split; [exact Hsm|].
    inversion Him; subst; cbn [todense_r fill_r].
    - constructor.
    - rewrite gcxs_todense_from_coo by assumption.
      replace (g_fill (gcxs_from_coo c ca)) with (c_fill c)
        by (unfold gcxs_from_coo; destruct (c_shape c) as [|d1 [|d2 t]]; reflexivity).
      constructor.
    - rewrite dok_as_coo_entries by exact Hc. constructor.
    - constructor.
  Qed.

  (* ---- asformat("csr") / asformat("csc") *)
  Lemma hop_cs c0 r a :
    shape_ok (c_shape c0) -> inv c0 r -> (a = 0 \/ a = 1) -> length (c_shape c0) = 2%nat ->
    exists g, to_cs veqb add r a = Ok g /\ inv c0 (RGcxs g).
  Proof.
    intros Hok Hinv Ha Hl2.
    assert (Hne : c_shape c0 <> []) by (intros E; rewrite E in Hl2; discriminate).
    destruct (to_coo_inv c0 r Hok Hinv) as [c' [Hto Hsm']].
    pose proof Hsm' as [Hc' [Hsh' [Hf' [Hpr' Hden']]]].
    assert (Hokc' : shape_ok (c_shape c')) by (rewrite Hsh'; exact Hok).
    assert (H2d : forall sh, length sh = 2%nat -> require_2d sh = Ok tt).
    { intros [|x [|y [|z t]]] H; simpl in H; try discriminate. reflexivity. }
    assert (Hres : resolve_axes (c_shape c0) None = Ok [argmin (c_shape c0)]).
    { unfold resolve_axes. rewrite Hl2. reflexivity. }
    assert (Haxa : forall sh, length sh = 2%nat -> axes_ok sh [a]) by (intros; apply axes_ok_single; assumption).
    destruct Hinv as [c [Hsm Him]]. pose proof Hsm as [Hc [Hsh [Hf [Hpr Hden]]]].
    assert (Hokc : shape_ok (c_shape c)) by (rewrite Hsh; exact Hok).
    assert (Himg : forall c1, same_meaning c0 c1 -> forall ca, axes_ok (c_shape c1) ca ->
                   inv c0 (RGcxs (gcxs_change_axes (gcxs_from_coo c1 ca) [a]))
                   /\ require_2d (g_shape (gcxs_from_coo c1 ca)) = Ok tt).
    { intros c1 Hsm1 ca Hca. pose proof Hsm1 as [Hc1 [Hsh1 _]]. split.
      - exists c1. split; [exact Hsm1|].
        rewrite change_axes_image; try assumption; try (rewrite Hsh1; assumption).
        + constructor. apply Haxa. rewrite Hsh1. exact Hl2.
        + apply Haxa. rewrite Hsh1. exact Hl2.
        + rewrite Hsh1, Hl2. lia.
      - rewrite from_coo_shape. apply H2d. rewrite Hsh1. exact Hl2. }
    destruct Him as [|ca0 Hax0| |]; cbn [to_cs].
    - cbn [to_gcxs to_coo bind]. rewrite Hsh, Hres. cbn [bind].
      assert (Hax : axes_ok (c_shape c) [argmin (c_shape c0)]).
      { apply (resolve_axes_ok _ None). rewrite Hsh. exact Hres. }
      destruct (Himg c Hsm _ Hax) as [I1 I2]. rewrite I2. cbn [bind]. eexists. split; [reflexivity|exact I1].
    - cbn [to_gcxs bind]. destruct (Himg c Hsm _ Hax0) as [I1 I2]. rewrite I2. cbn [bind].
      eexists. split; [reflexivity|exact I1].
    - cbn [to_gcxs to_coo]. cbn [to_coo] in Hto. rewrite Hto. cbn [bind]. rewrite Hsh', Hres. cbn [bind].
      assert (Hax : axes_ok (c_shape c') [argmin (c_shape c0)]).
      { apply (resolve_axes_ok _ None). rewrite Hsh'. exact Hres. }
      destruct (Himg c' Hsm' _ Hax) as [I1 I2]. rewrite I2. cbn [bind]. eexists. split; [reflexivity|exact I1].
    - cbn [d_shape todense]. rewrite H2d by (rewrite Hsh; exact Hl2). cbn [bind].
      cbn [to_coo] in Hto. inversion Hto as [Hc'eq]. eexists. split; [reflexivity|].
      exists c'. split; [exact Hsm'|]. rewrite Hc'eq. constructor. apply Haxa. rewrite Hsh'. exact Hl2.
  Qed.

  (* ---- one hop *)
  Lemma hop_inv c0 f r :
    shape_ok (c_shape c0) -> inv c0 r -> hop_okb (c_shape c0) f = true ->
    exists r', convert veqb add f r = Ok r' /\ inv c0 r'.
  Proof.
    intros Hok Hinv Hhop.
    destruct (to_coo_inv c0 r Hok Hinv) as [c' [Hto Hsm']].
    pose proof Hsm' as [Hc' [Hsh' [Hf' [Hpr' Hden']]]].
    assert (Hokc' : shape_ok (c_shape c')) by (rewrite Hsh'; exact Hok).
    destruct f as [|oa| | | |]; cbn [convert].
    - (* COO *)
      rewrite Hto. cbn [bind]. eexists. split; [reflexivity|].
      exists c'. split; [exact Hsm'|constructor].
    - (* GCXS *)
      cbn [hop_okb] in Hhop. destruct (resolve_axes (c_shape c0) oa) as [ca|] eqn:Era; [|discriminate].
      pose proof (resolve_axes_ok _ _ _ Era) as Hax.
      destruct Hinv as [c [Hsm Him]]. pose proof Hsm as [Hc [Hsh [Hf [Hpr Hden]]]].
      assert (Hokc : shape_ok (c_shape c)) by (rewrite Hsh; exact Hok).
      destruct Him as [|ca0 Hax0| |].
      + cbn [to_gcxs to_coo bind]. rewrite Hsh, Era. cbn [bind]. eexists. split; [reflexivity|].
        exists c. split; [exact Hsm|]. constructor. rewrite Hsh. exact Hax.
      + cbn [to_gcxs]. destruct oa as [ca1|].
        * rewrite from_coo_shape, Hsh.
          destruct (Z.ltb_spec (Z.of_nat (length (c_shape c0))) 2) as [Hlt|Hge].
          { unfold resolve_axes in Era. destruct (Z.ltb_spec (Z.of_nat (length (c_shape c0))) 2); [discriminate|lia]. }
          rewrite Era. cbn [bind]. eexists. split; [reflexivity|].
          exists c. split; [exact Hsm|].
          rewrite change_axes_image; try assumption; try (rewrite Hsh; assumption); [|rewrite Hsh; lia].
          constructor. rewrite Hsh. exact Hax.
        * eexists. split; [reflexivity|].
          exists c. split; [exact Hsm|]. constructor. exact Hax0.
      + cbn [to_gcxs to_coo]. cbn [to_coo] in Hto. rewrite Hto. cbn [bind]. rewrite Hsh', Era. cbn [bind].
        eexists. split; [reflexivity|].
        exists c'. split; [exact Hsm'|]. constructor. rewrite Hsh'. exact Hax.
      + cbn [to_gcxs to_coo]. cbn [to_coo] in Hto. rewrite Hto. cbn [bind]. rewrite Hsh', Era. cbn [bind].
        eexists. split; [reflexivity|].
        exists c'. split; [exact Hsm'|]. constructor. rewrite Hsh'. exact Hax.
    - (* CSR *)
      cbn [hop_okb] in Hhop.
      assert (Hl2 : length (c_shape c0) = 2%nat) by (destruct (c_shape c0) as [|x [|y [|z t]]]; try discriminate; reflexivity).
      destruct (hop_cs c0 r 0 Hok Hinv (or_introl eq_refl) Hl2) as [g [Hg Hig]].
      rewrite Hg. cbn [bind]. eexists. split; [reflexivity|exact Hig].
    - (* CSC *)
      cbn [hop_okb] in Hhop.
      assert (Hl2 : length (c_shape c0) = 2%nat) by (destruct (c_shape c0) as [|x [|y [|z t]]]; try discriminate; reflexivity).
      destruct (hop_cs c0 r 1 Hok Hinv (or_intror eq_refl) Hl2) as [g [Hg Hig]].
      rewrite Hg. cbn [bind]. eexists. split; [reflexivity|exact Hig].
    - (* DOK *)
      destruct r as [c1|g1|sh1 it1 f1|d1 f1]; cbn [bind].
      + rewrite Hto. cbn [bind]. eexists. split; [reflexivity|].
        exists c'. split; [exact Hsm'|]. rewrite dok_items_canonical by exact Hc'. constructor.
      + rewrite Hto. cbn [bind]. eexists. split; [reflexivity|].
        exists c'. split; [exact Hsm'|]. rewrite dok_items_canonical by exact Hc'. constructor.
      + eexists. split; [reflexivity|exact Hinv].
      + rewrite Hto. cbn [bind]. eexists. split; [reflexivity|].
        exists c'. split; [exact Hsm'|]. rewrite dok_items_canonical by exact Hc'. constructor.
    - (* dense *)
      eexists. split; [reflexivity|].
      apply dense_image; assumption.
  Qed.

  (* ================================================================ chains *)
  Lemma chain_inv c0 : forall hops r,
    shape_ok (c_shape c0) -> inv c0 r ->
    forallb (hop_okb (c_shape c0)) hops = true ->
    exists r', fold_left (step veqb add) hops (Ok r) = Ok r' /\ inv c0 r'.
  Proof.
    induction hops as [|f hs IH]; intros r Hok Hinv Hv.
    - exists r. split; [reflexivity|exact Hinv].
    - cbn [forallb] in Hv. apply andb_true_iff in Hv. destruct Hv as [Hf Hv].
      destruct (hop_inv c0 f r Hok Hinv Hf) as [r1 [Hc1 Hi1]].
      cbn [fold_left]. unfold step at 2. cbn [bind]. rewrite Hc1.
      apply IH; auto.
  Qed.

  Lemma inv_start c0 : canon c0 -> inv c0 (RCoo c0).
  Proof.
    intros Hc. exists c0. split; [|constructor].
    split; [exact Hc|]. split; [reflexivity|]. split; [reflexivity|]. split; auto.
  Qed.

  (* the chain theorem: every finite history of valid conversions *)
  Theorem conversion_chain_den_proof (c0 : coo V) hops :
    canon c0 -> shape_ok (c_shape c0) ->
    forallb (hop_okb (c_shape c0)) hops = true ->
    exists r, run_chain veqb add (RCoo c0) hops = Ok r
              /\ wf_r r = true /\ shape_r r = c_shape c0 /\ fill_r r = c_fill c0
              /\ forall ix, in_range (c_shape c0) ix -> den_r r ix = den c0 ix.
  Proof.
    intros Hc Hok Hv.
    destruct (chain_inv c0 hops (RCoo c0) Hok (inv_start c0 Hc) Hv) as [r [Hr Hi]].
    exists r. split; [exact Hr|]. apply inv_facts; assumption.
  Qed.

  (* representation independence: whatever the history, converting back to COO returns the very same
     record (for a pruned canonical array; in general, a record with the same meaning) *)
  Theorem representation_independence_proof (c0 : coo V) hops :
    canon c0 -> prunedb veqb c0 = true -> shape_ok (c_shape c0) ->
    forallb (hop_okb (c_shape c0)) hops = true ->
    run_chain veqb add (RCoo c0) (hops ++ [FCoo]) = Ok (RCoo c0).
  Proof.
    intros Hc Hp Hok Hv.
    destruct (chain_inv c0 hops (RCoo c0) Hok (inv_start c0 Hc) Hv) as [r [Hr Hi]].
    unfold run_chain. rewrite fold_left_app. unfold run_chain in Hr. rewrite Hr. cbn [fold_left step bind convert].
    destruct (to_coo_inv c0 r Hok Hi) as [c' [Hto [Hc' [Hsh' [Hf' [Hpr' Hden']]]]]].
    rewrite Hto. cbn [bind]. f_equal. f_equal.
    apply (canonical_unique V veqb veqb_eq); auto.
    intros ix Hix. apply Hden'. rewrite <- Hsh'. exact Hix.
  Qed.
End Chain.

(* ================================================================ statements in closed form (for Props/C05.v) *)
Section Closed.
  Variable V : Type.
  Variable veqb : V -> V -> bool.
  Variable add : V -> V -> V.
  Hypothesis veqb_eq : forall a b, veqb a b = true <-> a = b.

  Lemma change_axes_den_proof (c : coo V) ca ca' ix :
    canonical V c -> shape_ok (c_shape c) -> (2 <= length (c_shape c))%nat ->
    caxes_okb (Z.of_nat (length (c_shape c))) ca = true ->
    caxes_okb (Z.of_nat (length (c_shape c))) ca' = true ->
    gden (gcxs_change_axes (gcxs_from_coo c ca) ca') ix = den c ix.
  Proof.
    intros Hc Hok Hnd H1 H2. rewrite change_axes_from_coo_nd by assumption.
    apply (gcxs_from_coo_den_proof V veqb add); auto. right. exact H2.
  Qed.

  Lemma change_axes_wf_proof (c : coo V) ca ca' :
    canonical V c -> shape_ok (c_shape c) -> (2 <= length (c_shape c))%nat ->
    caxes_okb (Z.of_nat (length (c_shape c))) ca = true ->
    caxes_okb (Z.of_nat (length (c_shape c))) ca' = true ->
    gcxs_wfb (gcxs_change_axes (gcxs_from_coo c ca) ca') = true.
  Proof.
    intros Hc Hok Hnd H1 H2. rewrite change_axes_from_coo_nd by assumption.
    apply (gcxs_from_coo_wf_proof V veqb add); auto. right. exact H2.
  Qed.

  Lemma from_dense_roundtrip_proof (d : dense V) fill :
    dense_wf d ->
    todense (from_dense veqb d fill) = d
    /\ canonicalb (from_dense veqb d fill) = true /\ prunedb veqb (from_dense veqb d fill) = true.
  Proof.
    intros Hwf. split; [apply (todense_from_dense V veqb veqb_eq); exact Hwf|].
    apply from_dense_canonical.
  Qed.

  Lemma coo_make_prune_proof sh coords data fill :
    Forall (in_range sh) coords -> length data = length coords ->
    let r := coo_make veqb add false true true sh coords data fill in
    canonical V r /\ prunedb veqb r = true /\
    forall ix, den r ix = den (coo_make veqb add false true false sh coords data fill) ix.
  Proof.
    intros Hr Hl.
    destruct (coo_make_den_proof V veqb add sh coords data fill Hr Hl) as [Hc [Hsh [Hf _]]].
    pose proof (prune_canonical V veqb veqb_eq _ Hc) as Hp. cbv zeta in Hp.
    rewrite Hsh, Hf in Hp.
    assert (E : coo_make veqb add false true true sh coords data fill
                = coo_of_entries sh (prune_entries veqb fill (entries (coo_make veqb add false true false sh coords data fill))) fill).
    { unfold coo_make. cbv zeta.
      match goal with |- context [entries (coo_of_entries sh ?es fill)] =>
        replace (entries (coo_of_entries sh es fill)) with es
          by (unfold entries, coo_of_entries; cbn [c_coords c_data]; symmetry; apply combine_fst_snd) end.
      reflexivity. }
    cbv zeta. rewrite E. exact Hp.
  Qed.

  (* ---- the index dtype chosen by the converters holds everything they store *)
  Lemma fitsb_of_Forall cap l : Forall (fun v => 0 <= v <= cap) l -> fitsb cap l = true.
  Proof.
    intros H. unfold fitsb. apply forallb_forall. intros v Hv. rewrite Forall_forall in H. specialize (H v Hv).
    apply andb_true_iff. split; [apply Z.leb_le|apply Z.leb_le]; lia.
  Qed.

  Lemma fits_generic (c : coo V) ca cap :
    canonical V c -> shape_ok (c_shape c) -> (2 <= length (c_shape c))%nat ->
    caxes_okb (Z.of_nat (length (c_shape c))) ca = true ->
    row_size (c_shape c) ca <= cap -> col_size (c_shape c) ca <= cap -> Z.of_nat (length (c_data c)) <= cap ->
    let g := gcxs_from_coo c ca in
    fitsb cap (g_indices g) = true /\ fitsb cap (row_numbers (g_indptr g)) = true /\ fitsb cap (g_indptr g) = true.
  Proof.
    intros Hc Hok Hnd Hca Hr Hcs Hn. cbv zeta.
    destruct (from_coo_nd_bounds V c ca Hc Hok Hca Hnd) as [B1 [B2 B3]].
    repeat split; apply fitsb_of_Forall; (eapply Forall_impl; [|eassumption]); intros v Hv; simpl in Hv; lia.
  Qed.

  Lemma gcxs_from_coo_fits_proof (c : coo V) ca :
    canonical V c -> shape_ok (c_shape c) -> (2 <= length (c_shape c))%nat ->
    caxes_okb (Z.of_nat (length (c_shape c))) ca = true ->
    let g := gcxs_from_coo c ca in
    let cap := from_coo_capacity (c_shape c) ca (Z.of_nat (length (c_data c))) in
    fitsb cap (g_indices g) = true /\ fitsb cap (row_numbers (g_indptr g)) = true /\ fitsb cap (g_indptr g) = true.
  Proof.
    intros Hc Hok Hnd Hca. apply fits_generic; auto;
      unfold from_coo_capacity, S_convert.s_from_coo_auto_check, S_convert.s_from_coo_auto_choose,
             S_convert.s_from_coo_explicit_check; cbn [S_convert.zmax_list]; lia.
  Qed.

  Lemma change_axes_fits_proof (c : coo V) ca ca' :
    canonical V c -> shape_ok (c_shape c) -> (2 <= length (c_shape c))%nat ->
    caxes_okb (Z.of_nat (length (c_shape c))) ca = true ->
    caxes_okb (Z.of_nat (length (c_shape c))) ca' = true -> ca' <> ca ->
    let g := gcxs_change_axes (gcxs_from_coo c ca) ca' in
    let cap := transpose_capacity (c_shape c) ca' (Z.of_nat (length (c_data c))) in
    fitsb cap (g_indices g) = true /\ fitsb cap (row_numbers (g_indptr g)) = true /\ fitsb cap (g_indptr g) = true.
  Proof.
    intros Hc Hok Hnd Hca Hca' _. cbv zeta. rewrite change_axes_from_coo_nd by assumption.
    apply fits_generic; auto; unfold transpose_capacity, S_convert.s_transpose_bound; cbn [S_convert.zmax_list]; lia.
  Qed.
End Closed.

(* ================================================================ witnesses (V = Z) *)
Definition ex_c : coo Z := mkCOO [2; 3] [[0; 1]; [1; 0]; [1; 2]] [5; 7; 9] 0.

Lemma ex_c_canonical : canonical Z ex_c /\ prunedb Z.eqb ex_c = true /\ shape_ok (c_shape ex_c).
Proof.
  split; [apply canonicalb_spec; reflexivity|]. split; [reflexivity|].
  repeat constructor; simpl; lia.
Qed.

(* unsorted, duplicated input: (1,2) is given twice *)
Lemma ex_coo_make :
  Forall (in_range [2; 3]) [[1; 2]; [0; 1]; [1; 2]; [1; 0]] /\
  coo_make Z.eqb Z.add false true false [2; 3] [[1; 2]; [0; 1]; [1; 2]; [1; 0]] [4; 5; 5; 7] 0 = ex_c.
Proof. split; [repeat constructor; simpl; lia|reflexivity]. Qed.

Lemma ex_gcxs :
  caxes_okb 2 [1] = true /\
  gcxs_from_coo ex_c [1] = mkGCXS [2; 3] [1] [7; 5; 9] [1; 0; 1] [0; 1; 2; 3] 0 /\
  gcxs_wfb (gcxs_from_coo ex_c [1]) = true /\
  gcxs_tocoo Z.eqb Z.add (gcxs_from_coo ex_c [1]) = ex_c /\
  gcxs_change_axes (gcxs_from_coo ex_c [1]) [0] = gcxs_from_coo ex_c [0].
Proof. repeat split; vm_compute; reflexivity. Qed.

Definition ex_hops : list fmt := [FGcxs (Some [1]); FDok; FCsr; FDense; FGcxs None; FCsc; FCoo].

Lemma ex_chain :
  forallb (hop_okb (c_shape ex_c)) ex_hops = true /\
  run_chain Z.eqb Z.add (RCoo ex_c) ex_hops = Ok (RCoo ex_c).
Proof. repeat split; vm_compute; reflexivity. Qed.

Lemma ex_dok : from_iter_pairs Z.eqb Z.add (c_shape ex_c) (dok_items_of_coo ex_c) (c_fill ex_c) = Ok ex_c.
Proof. reflexivity. Qed.

(* a 0-d array holding its element, through DOK and back (rejected before fix e0a1c30) *)
Definition ex_c0 : coo Z := mkCOO [] [[]] [5] 0.
Lemma ex_chain_0d :
  canonical Z ex_c0 /\ run_chain Z.eqb Z.add (RCoo ex_c0) [FDok; FCoo; FGcxs None; FDok; FDense; FCoo] = Ok (RCoo ex_c0).
Proof. split; [apply canonicalb_spec; reflexivity|reflexivity]. Qed.
