(* Proofs/ElemwiseApiP.v — C01 at the level of the public API:
   (a) operands in any sparse format and the final asformat(out_type) conversion, on top of
       agent C05's conversion theorems (Proofs/ConvertP.v: the chain invariant [inv], to_coo_inv,
       inv_facts, conversion_chain_den_partial_proof);
   (b) programs with in-place / out= steps over a store of objects, on top of C11's
       out_swap_only_target (Proofs/AliasP.v, stated in Props/C11.v) and of astype_object_spec. *)
From Coq Require Import ZArith List Bool Lia Arith Sorting.Sorted Sorting.Permutation.
From Verif Require Import Py Shape COO COOP GCXS NpElemwise S_umath Elemwise ElemwiseP ElemwiseBcastP ElemwiseGenP.
From Verif Require Import Alias AliasP Convert ConvertP ElemwiseApi.
Import ListNotations.
Open Scope Z_scope.

Arguments bcast_idx : simpl never.

Section ApiP.
  Variable V : Type.
  Variable veqb : V -> V -> bool.
  Variable add : V -> V -> V.
  Variable vzero : V.
  Variable f : list V -> V.
  Variable scal : nat -> bool.
  Variable srt : list Z -> list nat.
  Hypothesis veqb_eq : forall a b, veqb a b = true <-> a = b.
  Hypothesis srt_ok : is_argsort srt.

  Definition is_rdense (x : repr V) : bool := match x with RDense _ _ => true | _ => false end.

  (* a sparse operand: ANY representation reachable by conversions from a canonical COO array c0
     (C05's chain invariant; since round 7 a 0-d DOK holding its element converts like every other array) *)
  Definition arg_ok (a : api_arg V) : Prop :=
    match a with
    | AArr x => is_rdense x = false /\
                exists c0, canonical V c0 /\ shape_ok (c_shape c0) /\ inv V veqb c0 x
    | ADn d => shape_ok (d_shape d)
    end.

  Definition is_arr (a : api_arg V) : bool := match a with AArr _ => true | ADn _ => false end.

  Lemma to_operand_ok a : arg_ok a ->
    exists op, to_operand V veqb add a = Ok op /\ op_ok V op /\ op_shape V op = api_shape V a /\
               is_sparse V op = is_arr a /\
               forall sh q, BT (api_shape V a) sh -> in_range sh q ->
                            operand_at V vzero op q = api_val V vzero a q.
  Proof.
    destruct a as [x|d]; simpl.
    - intros [_ [c0 [Hc0 [Hok0 Hinv]]]].
      destruct (to_coo_inv V veqb add veqb_eq c0 x Hok0 Hinv) as [c' [E [Hc' [Hsh [Hf [_ Hden]]]]]].
      destruct (inv_facts V veqb add c0 x Hok0 Hinv) as [_ [Sx [_ Dx]]].
      rewrite E. cbn [bind]. eexists. split; [reflexivity|]. split; [split; [exact Hc'|rewrite Hsh; exact Hok0]|].
      split; [simpl; congruence|]. split; [reflexivity|].
      intros sh q HB Hq. simpl. rewrite Sx in HB |- *. rewrite Hsh.
      assert (in_range (c_shape c0) (bcast_idx (c_shape c0) q)) by (eapply bcast_in_range; eauto).
      rewrite Hden, Dx by assumption. reflexivity.
    - intros Hok. eexists. split; [reflexivity|]. repeat split; auto.
  Qed.

  Lemma to_operands_ok args : Forall arg_ok args ->
    exists ops, mapM (to_operand V veqb add) args = Ok ops /\ Forall (op_ok V) ops /\
                map (op_shape V) ops = map (api_shape V) args /\
                existsb (is_sparse V) ops = existsb is_arr args /\
                forall sh q, (forall a, In a args -> BT (api_shape V a) sh) -> in_range sh q ->
                             map (fun op => operand_at V vzero op q) ops = map (fun a => api_val V vzero a q) args.
  Proof.
    induction 1 as [|a args Ha Hargs IH].
    - exists []. simpl. repeat split; auto.
    - destruct (to_operand_ok a Ha) as [op [E [O1 [O2 [O3 O4]]]]]. destruct IH as [ops [Em [P1 [P2 [P3 P4]]]]].
      exists (op :: ops). simpl. rewrite E. cbn [bind]. rewrite Em. cbn [bind].
      split; [reflexivity|]. split; [constructor; assumption|]. split; [congruence|]. split; [congruence|].
      intros sh q HB Hq. f_equal; [apply (O4 sh q); auto|apply (P4 sh q); auto].
  Qed.

  Lemma out_format_some args : out_format (map (arg_afmt V) args) <> None -> Forall arg_ok args ->
    existsb is_arr args = true.
  Proof.
    intros Hne Hok. unfold out_format in Hne.
    destruct (filter is_sparse_array (map (arg_afmt V) args)) as [|x l] eqn:E; [congruence|].
    assert (Hin : In x (filter is_sparse_array (map (arg_afmt V) args))) by (rewrite E; left; reflexivity).
    apply filter_In in Hin. destruct Hin as [Hin Hs]. apply in_map_iff in Hin. destruct Hin as [a [<- Ha]].
    apply existsb_exists. exists a. split; [exact Ha|]. destruct a as [x0|d]; [reflexivity|]. discriminate.
  Qed.

  Definition api_F (args : list (api_arg V)) (q : idx) : V := f (map (fun a => api_val V vzero a q) args).

  (* domain clause of the final conversion (a property of asformat, C05): the hop is one asformat accepts
     for the result's shape (valid compressed axes) *)
  Definition api_hop_ok (args : list (api_arg V)) : Prop :=
    forall ops r o, mapM (to_operand V veqb add) args = Ok ops -> elemwise_sc V veqb vzero f scal srt ops = OutSparse r ->
      out_format (map (arg_afmt V) args) = Some o ->
      hop_okb (c_shape r) (hop_of (result_format o (c_shape r))) = true.

  Definition api_post (args : list (api_arg V)) (out : res (repr V + dense V)) : Prop :=
    match out with
    | Ok (inl x) =>
      exists sh, np_broadcast_rel (map (api_shape V) args) sh /\ shape_r x = sh /\ wf_r x = true /\
                 forall q, in_range sh q -> den_r x q = api_F args q
    | Ok (inr d) =>
      exists sh, np_broadcast_rel (map (api_shape V) args) sh /\ d = mkDense sh (map (api_F args) (all_indices sh))
    | Raise e =>
      e = ValueError /\
      (out_format (map (arg_afmt V) args) = None \/
       exists ops, mapM (to_operand V veqb add) args = Ok ops /\ elemwise_sc V veqb vzero f scal srt ops = OutErr e)
    end.

  Theorem elemwise_api_den_proof (args : list (api_arg V)) :
    Forall arg_ok args -> api_hop_ok args -> api_post args (elemwise_api V veqb add vzero f scal srt args).
  Proof.
    intros Hok Hhop. unfold elemwise_api.
    destruct (out_format (map (arg_afmt V) args)) as [o|] eqn:Eo; [|split; [reflexivity|left; exact Eo]].
    assert (Hsp : existsb is_arr args = true) by (apply out_format_some; [rewrite Eo; discriminate|exact Hok]).
    destruct (to_operands_ok args Hok) as [ops [Em [P1 [P2 [P3 P4]]]]]. rewrite Em. cbn [bind].
    assert (Hsp' : existsb (is_sparse V) ops = true) by congruence.
    pose proof (elemwise_sc_den_proof V veqb vzero scal srt srt_ok f veqb_eq ops P1 Hsp') as Hpost.
    unfold elemwise_post in Hpost. rewrite P2 in Hpost.
    assert (HF : forall sh q, np_broadcast_rel (map (api_shape V) args) sh -> in_range sh q ->
                              F V vzero f ops q = api_F args q).
    { intros sh q Hrel Hq. unfold F, api_F. f_equal. apply (P4 sh q); [|exact Hq].
      intros a Ha. apply (rel_BT _ _ _ Hrel). apply in_map. exact Ha. }
    destruct (elemwise_sc V veqb vzero f scal srt ops) as [r|d|e] eqn:Ee.
    - destruct Hpost as [sh [nd [R1 [_ [_ [Q1 [_ [Q3 [_ Q5]]]]]]]]].
      pose proof (Hhop ops r o Em Ee Eo) as Hh.
      set (hop := hop_of (result_format o (c_shape r))) in *.
      assert (Hshok : shape_ok (c_shape r)).
      { rewrite Q1. eapply rel_shape_ok; [|exact R1]. apply Forall_forall. intros s Hs.
        apply in_map_iff in Hs. destruct Hs as [a [<- Ha]]. rewrite Forall_forall in Hok. specialize (Hok a Ha).
        destruct a as [x|d]; simpl in *; [|exact Hok]. destruct Hok as [_ [c0 [_ [Hk Hinv]]]].
        destruct (inv_facts V veqb add c0 x Hk Hinv) as [_ [Sx _]]. rewrite Sx. exact Hk. }
      destruct (conversion_chain_den_proof V veqb add veqb_eq r [hop] Q3 Hshok) as [x [Ex [W [Sx [_ Dx]]]]].
      { simpl. rewrite Hh. reflexivity. }
      unfold run_chain in Ex. simpl in Ex. rewrite Ex. cbn [bind].
      exists sh. split; [exact R1|]. split; [congruence|]. split; [exact W|].
      intros q Hq. rewrite Dx by (rewrite Q1; exact Hq). rewrite Q5 by exact Hq. apply (HF sh q R1 Hq).
    - destruct Hpost as [sh [R1 [_ [_ ->]]]]. exists sh. split; [exact R1|]. f_equal.
      apply map_ext_in. intros q Hq. apply (HF sh q R1). apply all_indices_In. exact Hq.
    - destruct Hpost as [-> _]. split; [reflexivity|]. right. exists ops. auto.
  Qed.
End ApiP.

(* ================================================================== programs with in-place steps over a store *)

Section StoreP.
  Variable V : Type.
  Variable veqb : V -> V -> bool.
  Variable vzero : V.
  Variable srt : list Z -> list nat.
  Hypothesis veqb_eq : forall a b, veqb a b = true <-> a = b.
  Hypothesis srt_ok : is_argsort srt.

  Notation state := (state V).
  Notation stmt := (stmt V).

  (* ---------------------------------------------------------------- NumPy's side: objects are dense arrays *)
  Definition dval := (shape * (idx -> V))%type.
  Record dstate := mkD { d_env : list nat; d_heap : nat -> option dval; d_next : nat }.

  Definition dlookup_ref (dst : dstate) (r : ref V) : option dval :=
    match r with
    | RVar v => match nth_error (d_env dst) v with Some o => d_heap dst o | None => None end
    | RLit c => Some ([], fun _ => c)
    end.

  Definition dput (h : nat -> option dval) (o : nat) (x : dval) : nat -> option dval :=
    fun i => if Nat.eqb i o then Some x else h i.

  (* g applied to the broadcast operands *)
  Definition opval (g : list V -> V) (dv : list dval) : idx -> V :=
    fun q => g (map (fun sd => snd sd (bcast_idx (fst sd) q)) dv).

  (* one NumPy statement.  A result is always a new array; an in-place form writes it into the target's
     buffer (same shape required); astype returns the operand itself iff nothing changes and copy=False *)
  Inductive np_step : dstate -> stmt -> dstate -> Prop :=
  | NP_op dst g args dv sh :
      all_some (map (dlookup_ref dst) args) = Some dv -> dv <> [] -> np_broadcast_rel (map fst dv) sh ->
      np_step dst (SOp V g args)
              (mkD (d_env dst ++ [d_next dst]) (dput (d_heap dst) (d_next dst) (sh, opval g dv)) (S (d_next dst)))
  | NP_inplace dst t g args dv sh ot old :
      nth_error (d_env dst) t = Some ot -> d_heap dst ot = Some old ->
      all_some (map (dlookup_ref dst) args) = Some dv -> dv <> [] -> np_broadcast_rel (map fst dv) sh ->
      sh = fst old ->
      np_step dst (SInplace V t g args)
              (mkD (d_env dst) (dput (dput (d_heap dst) (d_next dst) (sh, opval g dv)) ot (sh, opval g dv)) (S (d_next dst)))
  | NP_astype dst src same copy os x :
      nth_error (d_env dst) src = Some os -> d_heap dst os = Some x ->
      np_step dst (SAstype V src same copy)
              (mkD (d_env dst ++ [if same && negb copy then os else d_next dst])
                   (if same && negb copy then d_heap dst else dput (d_heap dst) (d_next dst) x)
                   (S (d_next dst))).

  Inductive np_exec : dstate -> list stmt -> dstate -> Prop :=
  | NE_nil dst : np_exec dst [] dst
  | NE_cons dst s dst1 p dst2 : np_step dst s dst1 -> np_exec dst1 p dst2 -> np_exec dst (s :: p) dst2.

  (* ---------------------------------------------------------------- the simulation relation *)
  Definition rel_obj (a : option (operand V)) (x : option dval) : Prop :=
    match a, x with
    | None, None => True
    | Some a, Some (sh, d) => val_ok V a /\ op_shape V a = sh /\ forall q, in_range sh q -> operand_at V vzero a q = d q
    | _, _ => False
    end.

  Definition R (st : state) (dst : dstate) : Prop :=
    s_env V st = d_env dst /\ s_next V st = d_next dst /\
    (forall o, In o (d_env dst) -> (o < d_next dst)%nat) /\
    forall o, rel_obj (s_heap V st o) (d_heap dst o).

  Lemma lookups_rel st dst args dv :
    R st dst -> all_some (map (dlookup_ref dst) args) = Some dv ->
    exists ops, all_some (map (lookup_ref V st) args) = Some ops /\
                Forall2 (fun a x => rel_obj (Some a) (Some x)) ops dv.
  Proof.
    intros [He [_ [_ Hh]]]. revert dv. induction args as [|r args IH]; intros dv H; simpl in H.
    - inversion H; subst. exists []. split; [reflexivity|constructor].
    - destruct (dlookup_ref dst r) as [x|] eqn:Er; [|discriminate].
      destruct (all_some (map (dlookup_ref dst) args)) as [dv'|] eqn:Ea; [|discriminate]. inversion H; subst.
      destruct (IH dv' eq_refl) as [ops [Eo Fo]].
      assert (Hr : exists a, lookup_ref V st r = Some a /\ rel_obj (Some a) (Some x)).
      { destruct r as [v|c]; simpl in Er |- *.
        - unfold lookup_var. rewrite He. destruct (nth_error (d_env dst) v) as [o|]; [|discriminate].
          specialize (Hh o). rewrite Er in Hh. destruct (s_heap V st o) as [a|]; [|destruct Hh]. eauto.
        - inversion Er; subst. eexists. split; [reflexivity|]. simpl. repeat split; eauto. }
      destruct Hr as [a [Ea' Ra]]. exists (a :: ops). simpl. rewrite Ea', Eo. split; [reflexivity|]. constructor; assumption.
  Qed.

  Lemma rel_vals ops dv :
    Forall2 (fun a x => rel_obj (Some a) (Some x)) ops dv ->
    Forall (val_ok V) ops /\ map (op_shape V) ops = map fst dv /\
    forall sh q, (forall sd, In sd dv -> BT (fst sd) sh) -> in_range sh q ->
                 map (fun a => operand_at V vzero a q) ops = map (fun sd => snd sd (bcast_idx (fst sd) q)) dv.
  Proof.
    induction 1 as [|a [s d] ops dv [Hv [Hs Hd]] HF IH]; simpl.
    - repeat split; auto.
    - destruct IH as [I1 [I2 I3]]. split; [constructor; assumption|]. split; [congruence|].
      intros sh q HB Hq. f_equal.
      + rewrite <- Hs. apply (operand_at_leaf_or_val V vzero a sh d q Hv); [|exact Hq|rewrite Hs; exact Hd].
        rewrite Hs. apply (HB (s, d)). left. reflexivity.
      + apply (I3 sh q); [|exact Hq]. intros sd Hsd. apply HB. right. exact Hsd.
  Qed.

  Lemma one_step_apply g args : one_step V veqb vzero srt g args = apply_op V veqb vzero srt g args.
  Proof. reflexivity. Qed.

  (* a result computed by one step, related to NumPy's value *)
  Lemma step_value g ops dv sh :
    Forall2 (fun a x => rel_obj (Some a) (Some x)) ops dv -> dv <> [] -> np_broadcast_rel (map fst dv) sh ->
    exists a, one_step V veqb vzero srt g ops = Some a /\ rel_obj (Some a) (Some (sh, opval g dv)).
  Proof.
    intros HF Hne Hrel. destruct (rel_vals ops dv HF) as [Hv [Hs Hvals]].
    assert (Hne' : ops <> []) by (intros ->; inversion HF; subst; congruence).
    rewrite <- Hs in Hrel.
    destruct (apply_op_spec V veqb vzero srt srt_ok veqb_eq g ops sh Hv Hne' Hrel) as [a [Ea [Sa [Oa Da]]]].
    exists a. rewrite one_step_apply. split; [exact Ea|]. simpl. split; [exact Oa|]. split; [exact Sa|].
    intros q Hq. rewrite (Da q Hq). unfold opval. f_equal. apply (Hvals sh q); [|exact Hq].
    intros sd Hsd. rewrite Hs in Hrel. apply (rel_BT _ _ _ Hrel). apply in_map. exact Hsd.
  Qed.

  Lemma rel_obj_put h dh o a x :
    (forall i, rel_obj (h i) (dh i)) -> rel_obj (Some a) (Some x) ->
    forall i, rel_obj (put V h o a i) (dput dh o x i).
  Proof. intros H Ha i. unfold put, dput. destruct (Nat.eqb i o); auto. Qed.

  Theorem store_step_proof st dst s dst' :
    R st dst -> np_step dst s dst' -> exists st', exec_stmt V veqb vzero srt st s = Some st' /\ R st' dst'.
  Proof.
    intros HR Hstep. pose proof HR as [He [Hn [Hlt Hh]]]. inversion Hstep; subst; simpl.
    - (* a new value *)
      destruct (lookups_rel st dst args dv HR H) as [ops [Eo Fo]]. rewrite Eo.
      destruct (step_value g ops dv sh Fo H0 H1) as [a [Ea Ra]]. rewrite Ea.
      eexists. split; [reflexivity|]. unfold R. simpl. rewrite He, Hn. repeat split.
      + intros o Ho. apply in_app_or in Ho. destruct Ho as [Ho|[<-|[]]]; [specialize (Hlt o Ho)|]; lia.
      + apply rel_obj_put; assumption.
    - (* in-place: the target object, and only it, takes the result's attributes *)
      destruct (lookups_rel st dst args dv HR H1) as [ops [Eo Fo]].
      unfold lookup_var. rewrite He, H. pose proof (Hh ot) as Hot. rewrite H0 in Hot.
      destruct (s_heap V st ot) as [olda|] eqn:Eold; [|destruct Hot]. rewrite Eo.
      destruct (step_value g ops dv (fst old) Fo H2 H3) as [a [Ea Ra]]. rewrite Ea.
      destruct old as [osh od]. simpl in *. destruct Hot as [_ [Sold _]]. destruct Ra as [Va [Sa Da]].
      destruct (list_eq_dec Z.eq_dec (op_shape V a) (op_shape V olda)) as [_|Hne]; [|congruence].
      eexists. split; [reflexivity|]. unfold R. simpl. rewrite Hn. split; [first [exact He|reflexivity]|]. split; [reflexivity|].
      split; [intros o Ho; specialize (Hlt o Ho); lia|].
      intros i. destruct (out_swap_only_target_proof _ (put V (s_heap V st) (d_next dst) a) ot (d_next dst)) as [Sw1 Sw2].
      unfold dput at 1. destruct (Nat.eqb_spec i ot) as [->|Hi].
      + rewrite Sw1. unfold put. rewrite Nat.eqb_refl. simpl. auto.
      + rewrite (Sw2 i Hi). apply rel_obj_put; [exact Hh|simpl; auto].
    - (* astype *)
      unfold lookup_var. rewrite He, H. pose proof (Hh os) as Hos. rewrite H0 in Hos.
      destruct (s_heap V st os) as [a|] eqn:Ea0; [|destruct Hos].
      destruct x as [xs xd]. destruct Hos as [Va [Sa Da]].
      assert (Frel : Forall2 (fun a x => rel_obj (Some a) (Some x)) [a] [(xs, xd)]).
      { constructor; [simpl; auto|constructor]. }
      assert (Hrel1 : np_broadcast_rel (map fst [(xs, xd)]) xs).
      { simpl. split; [simpl; lia|]. split.
        - intros s0 k [<-|[]]. auto.
        - intros k Hk. exists xs. simpl. auto. }
      destruct (step_value (fun l => hd vzero l) [a] [(xs, xd)] xs Frel ltac:(discriminate) Hrel1) as [a' [Ea' Ra']].
      rewrite Ea'. rewrite astype_object_spec_proof. rewrite Hn.
      assert (Hos_lt : (os < d_next dst)%nat) by (apply Hlt; eapply nth_error_In; eauto).
      eexists. split; [reflexivity|]. unfold R. simpl.
      destruct (same && negb copy) eqn:Eb.
      + rewrite Nat.eqb_refl. repeat split; auto.
        intros o Ho. apply in_app_or in Ho. destruct Ho as [Ho|[<-|[]]]; [specialize (Hlt o Ho)|]; lia.
      + destruct (Nat.eqb_spec (d_next dst) os) as [E|_]; [lia|]. repeat split; auto.
        * intros o Ho. apply in_app_or in Ho. destruct Ho as [Ho|[<-|[]]]; [specialize (Hlt o Ho)|]; lia.
        * apply rel_obj_put; [exact Hh|]. destruct Ra' as [V1 [S1 D1]]. simpl. split; [exact V1|]. split; [exact S1|].
          intros q Hq. rewrite (D1 q Hq). unfold opval. simpl. rewrite (bcast_idx_id xs q Hq). reflexivity.
  Qed.

  (* every variable of the final state has NumPy's shape and NumPy's value everywhere *)
  Theorem store_programs_proof st dst p dst' :
    R st dst -> np_exec dst p dst' -> exists st', exec V veqb vzero srt st p = Some st' /\ R st' dst'.
  Proof.
    intros HR Hex. revert st HR. induction Hex as [dst|dst s dst1 p dst2 Hs Hex IH]; intros st HR.
    - exists st. auto.
    - destruct (store_step_proof st dst s dst1 HR Hs) as [st1 [E1 R1]]. simpl. rewrite E1. apply IH. exact R1.
  Qed.
End StoreP.

(* ================================================================== non-vacuity *)
Definition exa_c : coo Z := mkCOO [2; 3] [[0; 1]; [1; 2]] [5; 9] 0.
Definition exa_g : repr Z := RGcxs (gcxs_from_coo exa_c [1]).
Definition exa_args : list (api_arg Z) := [AArr exa_g; ADn (mkDense [] [2])].

Example elemwise_api_nonvacuous :
  Forall (arg_ok Z Z.eqb) exa_args /\
  (exists x, elemwise_api Z Z.eqb Z.add 0 ex_mul (fun _ => false) argsort exa_args = Ok (inl x) /\
             wf_r x = true /\ shape_r x = [2; 3] /\ den_r x [1; 2] = 18 /\ den_r x [0; 0] = 0 /\
             match x with RGcxs g => g_caxes g = [1] | _ => False end).
Proof.
  split.
  - constructor; [|constructor; [constructor|constructor]].
    split; [reflexivity|]. exists exa_c. split; [apply canonicalb_spec; reflexivity|].
    split; [repeat constructor; lia|].
    exists exa_c. split.
    + split; [apply canonicalb_spec; reflexivity|]. repeat split; auto.
    + apply ImGcxs. right. reflexivity.
  - eexists. split; [vm_compute; reflexivity|]. vm_compute. repeat split; reflexivity.
Qed.

(* y = x.astype(same dtype) [copy=True]; y += 2; r = x - y   and the same with copy=False (y IS x) *)
Definition exs_sub (l : list Z) : Z := nth 0 l 0 - nth 1 l 0.
Definition exs_prog (copy : bool) : list (stmt Z) :=
  [SAstype Z 0 true copy; SInplace Z 1 ex_add [RVar 1; RLit 2]; SOp Z exs_sub [RVar 0; RVar 1]].
Definition exs_st0 : state Z := mkState Z [0%nat] (fun o => if Nat.eqb o 0 then Some (OSp ex_x) else None) 1.

Example store_programs_nonvacuous :
  (exists st, exec Z Z.eqb 0 argsort exs_st0 (exs_prog true) = Some st /\
     lookup_var Z st 0 = Some (OSp ex_x) /\
     lookup_var Z st 2 = Some (OSp (mkCOO [3] [] [] (-2)))) /\
  (exists st, exec Z Z.eqb 0 argsort exs_st0 (exs_prog false) = Some st /\
     lookup_var Z st 0 = lookup_var Z st 1 /\
     lookup_var Z st 2 = Some (OSp (mkCOO [3] [] [] 0))).
Proof.
  split; eexists; (split; [vm_compute; reflexivity|]); vm_compute; split; reflexivity.
Qed.
