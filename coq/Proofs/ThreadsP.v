(* Proofs/ThreadsP.v — C13: invariants of the interleaved execution of Model/Threads.v,
   for ANY number of threads, ANY programs and ANY schedule (induction over the schedule). *)
From Coq Require Import ZArith List Bool Lia.
From Verif Require Import Py S_threads Threads.
Import ListNotations.
Open Scope Z_scope.

(* ---------------------------------------------------------------- list facts *)
Lemma alookup_In {A} k (l : list (Z * A)) v : alookup k l = Some v -> In (k, v) l.
Proof.
  induction l as [|[k' v'] l IH]; cbn; [discriminate|].
  destruct (Z.eqb_spec k k'); intros H.
  - inversion H; subst; auto.
  - auto.
Qed.

Lemma alookup_cons_some {A} k k' (v' : A) l :
  alookup k l <> None -> alookup k ((k', v') :: l) <> None.
Proof. cbn. destruct (k =? k'); congruence. Qed.

Lemma nth_error_upd_same {A} n (x : A) l : (n < length l)%nat -> nth_error (upd_nth n x l) n = Some x.
Proof.
  revert n; induction l; intros [|n]; cbn; intros; try lia; auto. apply IHl; lia.
Qed.

Lemma nth_error_upd_other {A} n m (x : A) l : n <> m -> nth_error (upd_nth n x l) m = nth_error l m.
Proof.
  revert n m; induction l; intros [|n] [|m]; cbn; intros; try congruence; auto.
Qed.

Lemma length_upd_nth {A} n (x : A) l : length (upd_nth n x l) = length l.
Proof. revert n; induction l; intros [|n]; cbn; auto. Qed.

Lemma Forall_upd_nth {A} (P : A -> Prop) n x l : Forall P l -> P x -> Forall P (upd_nth n x l).
Proof.
  intros H Hx; revert n; induction H; intros [|n]; cbn; constructor; auto.
Qed.

Lemma Forall_skipn {A} (P : A -> Prop) n l : Forall P l -> Forall P (skipn n l).
Proof.
  revert l; induction n; cbn; auto. intros l H; destruct H; cbn; auto.
Qed.

Lemma Forall_lastn {A} (P : A -> Prop) n l : Forall P l -> Forall P (lastn n l).
Proof. apply Forall_skipn. Qed.

Lemma Forall_nth_error {A} (P : A -> Prop) l n x : Forall P l -> nth_error l n = Some x -> P x.
Proof. intros H E. rewrite Forall_forall in H. apply H. eapply nth_error_In; eauto. Qed.

Lemma Forall_upd_nth_weak {A} (P Q : A -> Prop) n x l :
  Forall P l -> (forall y, nth_error l n = Some y -> P y -> Q x) -> (forall y, P y -> Q y) ->
  Forall Q (upd_nth n x l).
Proof.
  intros H; revert n; induction H; intros [|n] Hx HPQ; cbn; constructor; auto.
  - eapply Hx; cbn; eauto.
  - eapply Forall_impl; eauto.
Qed.

Lemma Forall2_upd_nth {A B} (R : A -> B -> Prop) i x l l' :
  Forall2 R l l' ->
  (forall a b, nth_error l i = Some a -> nth_error l' i = Some b -> R a b -> R x b) ->
  Forall2 R (upd_nth i x l) l'.
Proof.
  intros H; revert i; induction H; intros [|i] Hx; cbn; constructor; auto.
  all: try (eapply Hx; cbn; eauto; fail).
  all: try (apply IHForall2; intros a b Ha Hb; eapply Hx; cbn; eauto).
Qed.

Section Inv.
  Variable cfg : config.
  Variable f : Z -> Z.
  Variable conv : Z -> Z -> Z.
  (* scipy's csr<->csc conversion yields the matrix the direct conversion yields *)
  Hypothesis conv_ok : forall a w, conv (akey a w) (f (akey a (negb w))) = f (akey a w).
  (* the dtype memo never removes an entry (extracted fact: Gen/S_threads.memo_no_deletion) *)
  Hypothesis no_del : memo_clear_bound cfg = None.
  (* results handed to the caller are private buffers (extracted fact: Gen/S_threads.todense_result_fresh) *)
  Hypothesis fresh : buffers_fresh cfg = true.

  Notation step_thread := (step_thread cfg f conv).
  Notation step_at := (step_at cfg f conv).
  Notation run := (run cfg f conv).

  Definition entry_ok (e : Z * Z) : Prop := snd e = f (fst e).
  Definition deque_ok (d : deque) : Prop := Forall entry_ok (items d).

  Definition shared_ok (sh : shared) : Prop :=
    Forall deque_ok (heap sh) /\
    Forall (fun p => nth_error (heap sh) (snd p) <> None) (dd sh) /\
    Forall entry_ok (attrs sh) /\ Forall entry_ok (memo sh).

  (* what another thread's steps can do to the shared state: objects persist, a deque whose
     mutation counter is unchanged is unchanged, memo entries are never removed *)
  Definition ext (sh sh' : shared) : Prop :=
    (forall id d, nth_error (heap sh) id = Some d ->
       exists d', nth_error (heap sh') id = Some d' /\ dstate d <= dstate d' /\
                  (dstate d' = dstate d -> items d' = items d)) /\
    (forall k, alookup k (attrs sh) <> None -> alookup k (attrs sh') <> None) /\
    (forall k, alookup k (memo sh) <> None -> alookup k (memo sh') <> None) /\
    operands sh' = operands sh.

  Definition iter_ok (sh : shared) (s : site) (it : iter) : Prop :=
    match it with
    | ItSnap r => Forall entry_ok r
    | ItDirect id st c pos =>
      snap cfg s = false /\
      exists d, nth_error (heap sh) id = Some d /\ st <= dstate d /\
                (dstate d = st -> length (items d) = (pos + c)%nat)
    end.

  Definition sub_ok (w sub : bool) : Prop := sub = true -> w = false.

  Definition pc_ok (sh : shared) (p : pc) : Prop :=
    match p with
    | PcIterStart _ _ _ id => nth_error (heap sh) id <> None
    | PcNext s _ _ _ it => iter_ok sh s it
    | PcBody s _ _ it e => iter_ok sh s it /\ entry_ok e
    | PcGet2 _ _ k v | PcStore2 _ _ k v => v = f k
    | PcAppend _ _ k v id => v = f k /\ nth_error (heap sh) id <> None
    | PaGet _ w sub | PaPartner _ w sub | PaCompute _ w sub => sub_ok w sub
    | PaReget a w sub => sub_ok w sub /\ alookup (akey a w) (attrs sh) <> None
    | PaConvSet a w sub v | PaSet a w sub v => sub_ok w sub /\ v = f (akey a w)
    | PmGet k => alookup k (memo sh) <> None
    | PmSet k v => v = f k
    | PdWrite _ view => view = false
    | _ => True
    end.

  (* an outcome is the sequential value, or the one modelled failure: RuntimeError from a
     lookup loop that iterates the deque object itself *)
  Definition out_ok (cr : call * res Z) : Prop :=
    snd cr = Ok (f (ckey (fst cr))) \/
    (snd cr = Raise RuntimeError /\ exists s n k, fst cr = CCache s n k /\ snap cfg s = false).

  Definition thread_ok (sh : shared) (t : thread) : Prop :=
    pc_ok sh (pcs t) /\ Forall out_ok (outs t).

  Definition state_ok (st : state) : Prop :=
    shared_ok (fst st) /\ Forall (thread_ok (fst st)) (snd st).

  (* ---------------------------------------------------------------- ext *)
  Lemma ext_refl sh : ext sh sh.
  Proof.
    repeat split; auto. intros id d H; exists d; repeat split; auto; lia.
  Qed.

  Lemma ext_new_deque sh n : ext sh (new_deque sh n).
  Proof.
    repeat split; auto. intros id d H; exists d; cbn. repeat split; auto; try lia.
    rewrite nth_error_app1; auto. apply nth_error_Some; congruence.
  Qed.

  Lemma ext_set_attr sh k v : ext sh (set_attr sh k v).
  Proof.
    repeat split; auto.
    - intros id d H; exists d; repeat split; auto; lia.
    - intros k' H; cbn [set_attr attrs]. apply alookup_cons_some; auto.
  Qed.

  Lemma ext_set_memo sh k v : ext sh (set_memo sh k v).
  Proof.
    repeat split; auto.
    - intros id d H; exists d; repeat split; auto; lia.
    - intros k' H; cbn [set_memo memo]. apply alookup_cons_some; auto.
  Qed.

  Lemma ext_append sh id d e :
    nth_error (heap sh) id = Some d ->
    ext sh (set_heap sh (upd_nth id (deque_append (maxlen cfg) e d) (heap sh))).
  Proof.
    intros Hd. repeat split; auto. intros id' d' H'. cbn [set_heap heap].
    destruct (Nat.eq_dec id id') as [<-|Hne].
    - rewrite nth_error_upd_same by (apply nth_error_Some; congruence).
      eexists; split; [reflexivity|]. rewrite Hd in H'; inversion H'; subst.
      cbn [deque_append dstate]. split; lia.
    - rewrite nth_error_upd_other by auto. exists d'; repeat split; auto; lia.
  Qed.

  Lemma iter_ok_ext sh sh' s it : ext sh sh' -> iter_ok sh s it -> iter_ok sh' s it.
  Proof.
    intros [Hh _] H. destruct it as [id st c pos|r]; cbn in *; auto.
    destruct H as [Hs [d [Hd [Hle Hlen]]]]. split; auto.
    destruct (Hh _ _ Hd) as [d' [Hd' [Hle' Hsame]]].
    exists d'; repeat split; auto; try lia.
    intros E. assert (dstate d' = dstate d) by lia.
    rewrite (Hsame H). apply Hlen. lia.
  Qed.

  Lemma nth_some_ext sh sh' id : ext sh sh' -> nth_error (heap sh) id <> None -> nth_error (heap sh') id <> None.
  Proof.
    intros [Hh _] H. destruct (nth_error (heap sh) id) eqn:E; [|congruence].
    destruct (Hh _ _ E) as [d' [Hd' _]]. congruence.
  Qed.

  Lemma pc_ok_ext sh sh' p : ext sh sh' -> pc_ok sh p -> pc_ok sh' p.
  Proof.
    intros He H. pose proof He as [Hh [Ha [Hm _]]].
    destruct p; cbn in *; auto;
      repeat match goal with H : _ /\ _ |- _ => destruct H end;
      repeat split; eauto using iter_ok_ext, nth_some_ext.
  Qed.

  Lemma thread_ok_ext sh sh' t : ext sh sh' -> thread_ok sh t -> thread_ok sh' t.
  Proof. intros He [H1 H2]; split; eauto using pc_ok_ext. Qed.

  (* ---------------------------------------------------------------- shared_ok is preserved *)
  Lemma nth_ne_lt {A} (l : list A) n : nth_error l n <> None <-> (n < length l)%nat.
  Proof. apply nth_error_Some. Qed.

  Lemma shared_ok_new_deque sh n : shared_ok sh -> shared_ok (new_deque sh n).
  Proof.
    intros [H1 [H2 [H3 H4]]]. unfold shared_ok, new_deque; cbn. repeat split; auto.
    - apply Forall_app; split; auto. repeat constructor.
    - constructor; cbn.
      + rewrite nth_error_app2 by lia. rewrite Nat.sub_diag. cbn. congruence.
      + eapply Forall_impl; [|exact H2]. cbn. intros p Hp.
        apply nth_ne_lt. rewrite app_length. apply nth_ne_lt in Hp. lia.
  Qed.

  Lemma shared_ok_set_attr sh k v : v = f k -> shared_ok sh -> shared_ok (set_attr sh k v).
  Proof.
    intros E [H1 [H2 [H3 H4]]]. unfold shared_ok, set_attr; cbn. repeat split; auto.
  Qed.

  Lemma shared_ok_set_memo sh k v : v = f k -> shared_ok sh -> shared_ok (set_memo sh k v).
  Proof.
    intros E [H1 [H2 [H3 H4]]]. unfold shared_ok, set_memo; cbn. repeat split; auto.
  Qed.

  Lemma shared_ok_append sh id d k v :
    nth_error (heap sh) id = Some d -> v = f k -> shared_ok sh ->
    shared_ok (set_heap sh (upd_nth id (deque_append (maxlen cfg) (k, v) d) (heap sh))).
  Proof.
    intros Hd E [H1 [H2 [H3 H4]]]. unfold shared_ok, set_heap; cbn. repeat split; auto.
    - apply Forall_upd_nth; auto. unfold deque_ok, deque_append; cbn.
      apply Forall_lastn. apply Forall_app; split.
      + eapply (Forall_nth_error deque_ok); eauto.
      + repeat constructor. exact E.
    - eapply Forall_impl; [|exact H2]. cbn. intros p Hp.
      apply nth_ne_lt. rewrite length_upd_nth. apply nth_ne_lt; auto.
  Qed.

  Lemma ret_ok sh t c r : Forall out_ok (outs t) -> out_ok (c, r) -> thread_ok sh (ret t c r).
  Proof. intros; split; cbn; auto. Qed.

  Lemma goto_ok sh t p : Forall out_ok (outs t) -> pc_ok sh p -> thread_ok sh (goto t p).
  Proof. intros; split; cbn; auto. Qed.

  Lemma out_ok_ok c : out_ok (c, Ok (f (ckey c))).
  Proof. left; reflexivity. Qed.

  Lemma aret_ok sh t a w sub v :
    sub_ok w sub -> v = f (akey a w) -> Forall out_ok (outs t) -> thread_ok sh (aret conv t a w sub v).
  Proof.
    intros Hsub E Ho. unfold aret. destruct sub.
    - rewrite (Hsub eq_refl) in E. subst v. apply goto_ok; auto. cbn. split.
      + intros X; discriminate.
      + apply (conv_ok a true).
    - subst v. apply ret_ok; auto. apply (out_ok_ok (CAttr a w)).
  Qed.

  Lemma iter_next_ok sh s it :
    shared_ok sh -> iter_ok sh s it ->
    match iter_next sh it with
    | Ok None => True
    | Ok (Some (e, it')) => entry_ok e /\ iter_ok sh s it'
    | Raise x => x = RuntimeError /\ snap cfg s = false
    end.
  Proof.
    intros [H1 _] H. destruct it as [id st c pos|r]; cbn in *.
    - destruct H as [Hs [d [Hd [Hle Hlen]]]]. rewrite Hd.
      destruct (Z.eqb_spec (dstate d) st) as [E|E]; cbn; auto.
      destruct c; auto.
      destruct (nth_error (items d) pos) eqn:En.
      + split.
        * eapply (Forall_nth_error entry_ok); [|exact En].
          eapply (Forall_nth_error deque_ok) in H1; eauto.
        * split; auto. exists d; repeat split; auto. intros _. rewrite (Hlen E). lia.
      + exfalso. apply nth_error_None in En. specialize (Hlen E). lia.
    - destruct r; auto. inversion H; subst; auto.
  Qed.

  (* ---------------------------------------------------------------- one step of one thread *)
  Lemma step_ok sh t :
    shared_ok sh -> thread_ok sh t ->
    shared_ok (fst (step_thread sh t)) /\ thread_ok (fst (step_thread sh t)) (snd (step_thread sh t)) /\
    ext sh (fst (step_thread sh t)).
  Proof.
    intros Hs [Hp Ho]. pose proof Hs as [Hheap [Hdd [Hattr Hmemo]]].
    assert (Hin : forall k v l, Forall entry_ok l -> alookup k l = Some v -> v = f k).
    { intros k v l Hl E. apply alookup_In in E. rewrite Forall_forall in Hl. apply (Hl _ E). }
    unfold step_thread. destruct (pcs t) eqn:Epc; cbn in Hp.
    - (* PIdle *)
      destruct (todo t) as [|c r]; cbn; (split; [|split]); auto using ext_refl.
      + split; auto. rewrite Epc; exact I.
      + split; auto. cbn. destruct c; cbn; auto. intros X; discriminate.
    - (* PcGet *)
      destruct (alookup name (dd sh)) eqn:E; cbn; (split; [|split]); auto using ext_refl, goto_ok.
      apply goto_ok; auto. cbn.
      apply alookup_In in E. rewrite Forall_forall in Hdd. apply (Hdd _ E).
    - (* PcStore *)
      cbn. (split; [|split]); auto using ext_new_deque, shared_ok_new_deque.
      apply goto_ok; auto. cbn.
      rewrite nth_error_app2 by lia. rewrite Nat.sub_diag. cbn; congruence.
    - (* PcIterStart *)
      destruct (nth_error (heap sh) id) eqn:E; [|congruence].
      cbn. (split; [|split]); auto using ext_refl.
      apply goto_ok; auto. cbn.
      destruct (snap cfg s) eqn:Es; cbn.
      + eapply (Forall_nth_error deque_ok) in Hheap; eauto.
      + split; auto. exists d; repeat split; auto; lia.
    - (* PcNext *)
      pose proof (iter_next_ok sh s it Hs Hp) as Hn.
      destruct (iter_next sh it) as [[[e it']|]|x]; cbn; (split; [|split]); auto using ext_refl.
      + apply goto_ok; auto. cbn. tauto.
      + apply goto_ok; auto; try exact I.
      + apply ret_ok; auto. right; cbn. destruct Hn as [-> Hsn]. split; auto. eauto.
    - (* PcBody *)
      destruct Hp as [Hit He].
      destruct (Z.eqb_spec (fst item) key) as [E|E]; cbn; (split; [|split]); auto using ext_refl.
      + apply ret_ok; auto. left; cbn. rewrite He, E. reflexivity.
      + apply goto_ok; auto.
    - (* PcCompute *)
      cbn; (split; [|split]); auto using ext_refl. apply goto_ok; auto; try reflexivity.
    - (* PcGet2 *)
      destruct (alookup name (dd sh)) eqn:E; cbn; (split; [|split]); auto using ext_refl, goto_ok.
      apply goto_ok; auto. cbn. split; auto.
      apply alookup_In in E. rewrite Forall_forall in Hdd. apply (Hdd _ E).
    - (* PcStore2 *)
      cbn. (split; [|split]); auto using ext_new_deque, shared_ok_new_deque.
      apply goto_ok; auto. cbn. split; auto.
      rewrite nth_error_app2 by lia. rewrite Nat.sub_diag. cbn; congruence.
    - (* PcAppend *)
      destruct Hp as [Hv Hid].
      destruct (nth_error (heap sh) id) eqn:E; [|congruence].
      cbn. (split; [|split]); auto using ext_append, shared_ok_append.
      apply ret_ok; auto. left; cbn. rewrite Hv; reflexivity.
    - (* PaGet *)
      destruct (alookup (akey arr w) (attrs sh)) eqn:E; cbn; (split; [|split]); auto using ext_refl, goto_ok.
      apply aret_ok; eauto.
    - (* PaPartner *)
      destruct (alookup (akey arr (negb w)) (attrs sh)) eqn:E; cbn.
      + (split; [|split]); auto using ext_refl. apply goto_ok; auto. cbn. split; auto.
        rewrite (Hin _ _ _ Hattr E). apply conv_ok.
      + destruct (w && csc_via_csr cfg); cbn; (split; [|split]); auto using ext_refl, goto_ok.
        apply goto_ok; auto; try exact I.
    - (* PaConvSet *)
      destruct Hp as [Hsub Hv]. cbn. (split; [|split]); auto using ext_set_attr, shared_ok_set_attr.
      apply goto_ok; auto. cbn. split; auto.
      rewrite Z.eqb_refl. congruence.
    - (* PaReget *)
      destruct Hp as [Hsub Hv].
      destruct (alookup (akey arr w) (attrs sh)) eqn:E; [|congruence]. cbn.
      (split; [|split]); auto using ext_refl.
      apply aret_ok; eauto.
    - (* PaSub *)
      cbn; (split; [|split]); auto using ext_refl. apply goto_ok; auto. cbn. intros _; reflexivity.
    - (* PaCompute *)
      cbn; (split; [|split]); auto using ext_refl. apply goto_ok; auto. cbn. split; auto.
    - (* PaSet *)
      destruct Hp as [Hsub Hv]. cbn. (split; [|split]); auto using ext_set_attr, shared_ok_set_attr.
      apply aret_ok; auto.
    - (* PmHas *)
      destruct (alookup key (memo sh)) eqn:E; cbn; (split; [|split]); auto using ext_refl, goto_ok.
      apply goto_ok; auto. cbn. congruence.
    - (* PmGet *)
      destruct (alookup key (memo sh)) eqn:E; [|congruence]. cbn. (split; [|split]); auto using ext_refl.
      apply ret_ok; auto. left; cbn. rewrite (Hin _ _ _ Hmemo E). reflexivity.
    - (* PmCompute *)
      unfold memo_evict; rewrite no_del.
      cbn; (split; [|split]); auto using ext_refl. apply goto_ok; auto; try reflexivity.
    - (* PmSet *)
      cbn. (split; [|split]); auto using ext_set_memo, shared_ok_set_memo.
      apply ret_ok; auto. left; cbn. rewrite Hp; reflexivity.
    - (* PpCompute *)
      cbn; (split; [|split]); auto using ext_refl. apply ret_ok; auto. left; reflexivity.
    - (* PdDense *)
      cbn; (split; [|split]); auto using ext_refl. apply goto_ok; auto. cbn. rewrite fresh; reflexivity.
    - (* PdWrite *)
      subst view. cbn; (split; [|split]); auto using ext_refl. apply ret_ok; auto. left; reflexivity.
  Qed.

  (* ---------------------------------------------------------------- any schedule *)
  Notation run_coarse := (run_coarse cfg f conv).
  Notation drain := (drain cfg f conv).

  Lemma step_at_ok i st : state_ok st -> state_ok (step_at i st).
  Proof.
    intros [Hs Ht]. unfold step_at. destruct (nth_error (snd st) i) as [t|] eqn:E; [|split; auto].
    pose proof (step_ok (fst st) t Hs (Forall_nth_error _ _ _ _ Ht E)) as [H1 [H2 H3]].
    destruct (step_thread (fst st) t) as [sh' t'] eqn:Est. cbn in *.
    split; cbn; auto.
    apply Forall_upd_nth; auto. eapply Forall_impl; [|exact Ht]. intros a Ha; eapply thread_ok_ext; eauto.
  Qed.

  Lemma run_ok sched st : state_ok st -> state_ok (run sched st).
  Proof. unfold run. revert st; induction sched; cbn; intros; auto using step_at_ok. Qed.

  Lemma init_ok ops progs : state_ok (init ops progs).
  Proof.
    unfold init, state_ok, shared_ok, empty_shared; cbn. repeat split; auto.
    induction progs; cbn; constructor; auto. split; cbn; auto.
  Qed.

  Lemma state_outputs_ok st c r : state_ok st -> In (c, r) (all_outputs st) -> out_ok (c, r).
  Proof.
    intros [_ Ht] Hin. unfold all_outputs, outputs in Hin.
    apply in_concat in Hin. destruct Hin as [l [Hl Hin]].
    apply in_map_iff in Hl. destruct Hl as [t [<- Hl]].
    rewrite Forall_forall in Ht. destruct (Ht _ Hl) as [_ Ho].
    rewrite Forall_forall in Ho. apply Ho. apply in_rev; auto.
  Qed.

  (* the master statement: whatever the variant, the threads and the schedule, a call returns the
     sequential value — or, only for a lookup loop iterating the deque itself, raises RuntimeError *)
  Lemma outputs_sound sched ops progs c r :
    In (c, r) (all_outputs (run sched (init ops progs))) ->
    r = Ok (f (ckey c)) \/
    (r = Raise RuntimeError /\ exists s n k, c = CCache s n k /\ snap cfg s = false).
  Proof. intros H. exact (state_outputs_ok _ _ _ (run_ok sched _ (init_ok ops progs)) H). Qed.

  Definition is_cache_call (c : call) : bool := match c with CCache _ _ _ => true | _ => false end.

  Lemma memo_sound sched ops progs c r :
    In (c, r) (all_outputs (run sched (init ops progs))) -> is_cache_call c = false ->
    r = Ok (f (ckey c)).
  Proof.
    intros H Hc. destruct (outputs_sound _ _ _ _ _ H) as [E|[_ [s [n [k [E _]]]]]]; auto.
    subst c; discriminate.
  Qed.

  Lemma snapshot_sound sched ops progs c r :
    all_snapshot cfg = true ->
    In (c, r) (all_outputs (run sched (init ops progs))) -> r = Ok (f (ckey c)).
  Proof.
    intros Ha H. destruct (outputs_sound _ _ _ _ _ H) as [E|[_ [s [n [k [_ E]]]]]]; auto.
    unfold all_snapshot in Ha. apply andb_true_iff in Ha. destruct Ha. destruct s; cbn in E; congruence.
  Qed.

  (* ---------------------------------------------------------------- operands *)
  Lemma step_at_operands i st : state_ok st -> operands (fst (step_at i st)) = operands (fst st).
  Proof.
    intros [Hs Ht]. unfold step_at. destruct (nth_error (snd st) i) as [t|] eqn:E; auto.
    pose proof (step_ok (fst st) t Hs (Forall_nth_error _ _ _ _ Ht E)) as [_ [_ [_ [_ [_ H]]]]].
    destruct (step_thread (fst st) t); cbn in *; auto.
  Qed.

  Lemma run_operands_ok sched st : state_ok st -> operands (fst (run sched st)) = operands (fst st).
  Proof.
    unfold run. revert st; induction sched; cbn; intros st H; auto.
    rewrite IHsched by (apply step_at_ok; auto). apply step_at_operands; auto.
  Qed.

  Lemma run_operands sched ops progs : operands (fst (run sched (init ops progs))) = ops.
  Proof. rewrite run_operands_ok by apply init_ok. reflexivity. Qed.

  (* ---------------------------------------------------------------- coarse runs are runs *)
  Lemma run_app a b st : run (a ++ b) st = run b (run a st).
  Proof. unfold run. apply fold_left_app. Qed.

  Lemma settle_is_run fuel i st : exists m, settle cfg f conv fuel i st = run (repeat i m) st.
  Proof.
    revert st; induction fuel; intros st; cbn.
    - exists 0%nat; reflexivity.
    - destruct (settled i st).
      + exists 0%nat; reflexivity.
      + destruct (IHfuel (step_at i st)) as [m Hm]. exists (S m). rewrite Hm. reflexivity.
  Qed.

  Lemma coarse_is_run sched st : exists fine, run_coarse sched st = run fine st.
  Proof.
    revert st; induction sched as [|i r IH]; intros st.
    - exists []; reflexivity.
    - change (run_coarse (i :: r) st)
        with (run_coarse r (settle cfg f conv (coarse_fuel cfg st) i (step_at i st))).
      destruct (settle_is_run (coarse_fuel cfg st) i (step_at i st)) as [m Hm].
      rewrite Hm. destruct (IH (run (repeat i m) (step_at i st))) as [fine Hf].
      exists (i :: repeat i m ++ fine). rewrite Hf.
      change (run (i :: repeat i m ++ fine) st) with (run (repeat i m ++ fine) (step_at i st)).
      rewrite run_app. reflexivity.
  Qed.

  Lemma drain_is_run st : exists fine, drain st = run fine st.
  Proof.
    unfold drain. generalize (seq 0 (length (snd st))). intros l. revert st.
    induction l as [|i r IH]; intros st.
    - exists []; reflexivity.
    - cbn [fold_left]. destruct (IH (run (repeat i (coarse_fuel cfg st)) st)) as [fine Hf].
      exists (repeat i (coarse_fuel cfg st) ++ fine). rewrite run_app. exact Hf.
  Qed.

  (* ---------------------------------------------------------------- outcomes follow program order *)
  Definition call_of (p : pc) : option call :=
    match p with
    | PIdle => None
    | PcGet s n k | PcStore s n k | PcIterStart s n k _ | PcNext s n k _ _ | PcBody s n k _ _
    | PcCompute s n k | PcGet2 s n k _ | PcStore2 s n k _ | PcAppend s n k _ _ => Some (CCache s n k)
    | PaGet a w sub | PaPartner a w sub | PaConvSet a w sub _ | PaReget a w sub
    | PaCompute a w sub | PaSet a w sub _ => Some (CAttr a (if sub then true else w))
    | PaSub a => Some (CAttr a true)
    | PmHas k | PmGet k | PmCompute k | PmSet k _ => Some (CMemo k)
    | PpCompute k => Some (CPure k)
    | PdDense k | PdWrite k _ => Some (CDenseWrite k)
    end.

  Definition prog_of (t : thread) : list call :=
    map fst (rev (outs t)) ++ match call_of (pcs t) with Some c => c :: todo t | None => todo t end.

  Lemma prog_ret t c r : call_of (pcs t) = Some c -> prog_of (ret t c r) = prog_of t.
  Proof.
    intros E. unfold prog_of, ret; cbn. rewrite E. rewrite map_app, <- app_assoc. reflexivity.
  Qed.

  Lemma step_prog sh t : prog_of (snd (step_thread sh t)) = prog_of t.
  Proof.
    unfold step_thread. destruct (pcs t) eqn:Epc; cbn;
      repeat match goal with |- context [match ?x with _ => _ end] => destruct x eqn:?; cbn end;
      unfold aret;
      repeat match goal with |- context [if ?x then _ else _] => destruct x eqn:?; cbn end;
      unfold prog_of, ret, goto; cbn; rewrite ?Epc; cbn;
      rewrite ?map_app, <- ?app_assoc; cbn; try reflexivity;
      try (subst; reflexivity).
    all: try match goal with c : call |- _ => destruct c; reflexivity end.
    all: try (match goal with H : call_of (start ?c) = _ |- _ => destruct c; cbn in H; inversion H; subst end;
              match goal with H : todo _ = _ |- _ => rewrite H; reflexivity end).
    all: try match goal with H : ?w && _ = true |- _ => destruct w; [|discriminate H] end.
    all: match goal with |- context [if ?x then _ else _] => destruct x; reflexivity end.
  Qed.

  Definition progs_ok (ts : list thread) (progs : list (list call)) : Prop :=
    Forall2 (fun t p => prog_of t = p) ts progs.

  Lemma step_at_prog i st progs : progs_ok (snd st) progs -> progs_ok (snd (step_at i st)) progs.
  Proof.
    intros H. unfold step_at. destruct (nth_error (snd st) i) as [t|] eqn:E; auto.
    pose proof (step_prog (fst st) t) as Hp.
    destruct (step_thread (fst st) t) as [sh' t']; cbn in *.
    apply Forall2_upd_nth; auto. intros a b Ha Hb Hab. rewrite E in Ha; inversion Ha; subst. exact Hp.
  Qed.

  Lemma run_prog sched st progs : progs_ok (snd st) progs -> progs_ok (snd (run sched st)) progs.
  Proof. unfold run. revert st; induction sched; cbn; intros; auto using step_at_prog. Qed.

  Lemma init_prog ops progs : progs_ok (snd (init ops progs)) progs.
  Proof. unfold init; cbn. induction progs; cbn; constructor; auto. Qed.

  (* when every thread has finished, thread i has produced exactly one outcome per call of its
     program, in program order *)
  Lemma finished_outputs sched ops progs :
    all_finished (run sched (init ops progs)) = true ->
    map (map fst) (outputs (run sched (init ops progs))) = progs.
  Proof.
    intros Hf. pose proof (run_prog sched _ _ (init_prog ops progs)) as H.
    unfold all_finished in Hf. unfold outputs.
    remember (snd (run sched (init ops progs))) as ts. clear Heqts.
    induction H; cbn in *; auto.
    apply andb_true_iff in Hf. destruct Hf as [Hx Hl]. rewrite IHForall2 by auto. f_equal.
    unfold finished in Hx. unfold prog_of in H.
    destruct (pcs x); try discriminate. destruct (todo x); try discriminate.
    cbn in H. rewrite app_nil_r in H. exact H.
  Qed.
End Inv.

(* ---------------------------------------------------------------- the race of the direct-iteration variant (former finding D13, repaired in /repo) *)
(* in the fine-grained model: for ANY configuration with a lookup loop that iterates the deque
   itself, two threads and one schedule make a call raise *)
Lemma race_fine cfg f conv s :
  snap cfg s = false ->
  exists progs sched c,
    In (c, Raise RuntimeError) (all_outputs (run cfg f conv sched (init [] progs))).
Proof.
  intros H.
  exists [[CCache s 0 11]; [CCache s 0 12]], [0; 0; 0; 0; 1; 1; 1; 1; 1; 1; 1; 0]%nat, (CCache s 0 11).
  destruct cfg as [a b n v fr m]; destruct s; cbn in H; subst; vm_compute; auto.
Qed.

(* for the source as it is: the realistic witness at CPython 3.12's switching granularity *)
Lemma d13_witness_raises f conv :
  all_snapshot src_config = false ->
  In (CCache d13_site 0 11, Raise RuntimeError)
     (all_outputs (run_coarse src_config f conv (snd d13_witness) (init [] (fst d13_witness)))).
Proof.
  intros H. vm_compute in H. first [discriminate H | vm_compute; auto].
Qed.

Definition conv_correct (f : Z -> Z) (conv : Z -> Z -> Z) : Prop :=
  forall a w, conv (akey a w) (f (akey a (negb w))) = f (akey a w).

Definition schedule_independent (cfg : config) : Prop :=
  forall f conv, conv_correct f conv ->
  forall ops progs sched c r,
    In (c, r) (all_outputs (run cfg f conv sched (init ops progs))) -> r = Ok (f (ckey c)).

Definition race_exists (cfg : config) : Prop :=
  forall f conv, exists progs csched c,
    In (c, Raise RuntimeError) (all_outputs (run_coarse cfg f conv csched (init [] progs))).

Lemma source_verdict :
  if all_snapshot src_config then schedule_independent src_config else race_exists src_config.
Proof.
  destruct (all_snapshot src_config) eqn:E.
  - intros f conv Hc ops progs sched c r H.
    eapply (snapshot_sound src_config f conv Hc eq_refl eq_refl sched ops progs c r); [exact E | exact H].
  - intros f conv. eexists _, _, _. apply d13_witness_raises. exact E.
Qed.

(* the source as it is now: unconditional, so that a revert to direct iteration (which flips the
   generated parameter) breaks this proof *)
Lemma source_schedule_independent : schedule_independent src_config.
Proof.
  intros f conv Hc ops progs sched c r H.
  eapply (snapshot_sound src_config f conv Hc eq_refl eq_refl sched ops progs c r); [reflexivity | exact H].
Qed.

Lemma fixed_verdict : schedule_independent fixed_config.
Proof.
  intros f conv Hc ops progs sched c r H.
  eapply (snapshot_sound fixed_config f conv Hc eq_refl eq_refl sched ops progs c r); [reflexivity | exact H].
Qed.

(* the generated shapes are the ones the model transcribes *)
Lemma src_shapes_modelled :
  attr_memo_three_stage = true /\ memo_check_then_set = true /\ memo_no_deletion = true /\
  memo_clear_bound src_config = None /\ buffers_fresh src_config = true /\ (1 <= maxlen src_config)%nat.
Proof. repeat split; vm_compute; auto. Qed.

(* ---------------------------------------------------------------- non-vacuity *)
Definition ex_f (k : Z) : Z := 7 * k + 1.
Definition ex_conv (k _ : Z) : Z := ex_f k.

Lemma ex_conv_correct : conv_correct ex_f ex_conv.
Proof. intros a w; reflexivity. Qed.

(* three threads race on the dict memo and on the _csr/_csc attributes; every thread misses and
   computes (duplicated work), all get the sequential values *)
Example memo_nonvacuous :
  let st := run src_config ex_f ex_conv
              [0; 1; 2; 0; 1; 2; 0; 1; 2; 0; 1; 2; 0; 1; 2; 0; 1; 2; 0; 1; 2; 0; 1; 2; 0; 1; 2; 0; 1; 2;
               0; 1; 2; 0; 1; 2; 0; 1; 2; 0; 1; 2; 0; 1; 2; 0; 1; 2]%nat
              (init [5; 6] [[CMemo 3; CAttr 1 true]; [CMemo 3; CAttr 1 false]; [CAttr 1 true; CMemo 3; CPure 9]]) in
  all_finished st = true /\
  outputs st = [[(CMemo 3, Ok 22); (CAttr 1 true, Ok 22)];
                     [(CMemo 3, Ok 22); (CAttr 1 false, Ok 15)];
                     [(CAttr 1 true, Ok 22); (CMemo 3, Ok 22); (CPure 9, Ok 64)]] /\
  length (memo (fst st)) = 2%nat /\ operands (fst st) = [5; 6].
Proof. vm_compute. auto. Qed.

(* the schedule that breaks the code as it is, run on the candidate fix: every call returns its value *)
Example snapshot_nonvacuous :
  let st := run_coarse fixed_config ex_f ex_conv (d13_sched ++ [0; 0]%nat) (init [] (d13_threads STranspose)) in
  all_snapshot fixed_config = true /\ all_finished st = true /\
  outputs st = [[(CCache STranspose 0 11, Ok 78)];
                     [(CCache STranspose 0 10, Ok 71); (CCache STranspose 0 12, Ok 85)]].
Proof. vm_compute. auto. Qed.

(* the variant the code had before the repair, on the witness schedule: the hypotheses of
   cache_race_refuted are satisfiable and the race is the realistic one *)
Definition direct_config : config := mkConfig false false (maxlen src_config) (csc_via_csr src_config) true None.
Example race_nonvacuous :
  let st := run_coarse direct_config ex_f ex_conv d13_sched (init [] (d13_threads STranspose)) in
  snap direct_config STranspose = false /\ all_finished st = true /\
  outputs st = [[(CCache STranspose 0 11, Raise RuntimeError)];
                [(CCache STranspose 0 10, Ok 71); (CCache STranspose 0 12, Ok 85)]].
Proof. vm_compute. auto. Qed.

(* a memo WITH deletion (a miss clears the dict once it holds >= 2 entries): the membership test and the
   subscript of a hit can be separated by another thread's clear — the call fails (KeyError) *)
Lemma memo_deletion_race cfg f conv :
  memo_clear_bound cfg = Some 2%nat ->
  exists progs sched c,
    In (c, Raise OtherError) (all_outputs (run cfg f conv sched (init [] progs))).
Proof.
  intros H.
  exists [[CMemo 1; CMemo 2; CMemo 1]; [CMemo 3]],
         [0; 0; 0; 0; 0; 0; 0; 0; 0; 0; 1; 1; 1; 0]%nat, (CMemo 1).
  destruct cfg as [a b n v fr m]; cbn in H; subst; vm_compute; auto.
Qed.

(* ---------------------------------------------------------------- termination: every call returns *)
Lemma length_lastn {A} n (l : list A) : (length (lastn n l) <= n)%nat.
Proof. unfold lastn. rewrite skipn_length. lia. Qed.

Lemma fold_fuel_ge {A} (g : A -> nat) l a :
  (a <= fold_left (fun n t => (n + g t)%nat) l a)%nat /\
  (forall t, In t l -> (a + g t <= fold_left (fun n t => (n + g t)%nat) l a)%nat).
Proof.
  revert a; induction l as [|x l IH]; intros a; cbn.
  - split; [lia|intros t []].
  - destruct (IH (a + g x)%nat) as [H1 H2]. split; [lia|].
    intros t [->|Hin]; [lia|]. specialize (H2 t Hin). lia.
Qed.

Section Termination.
  Variable cfg : config.
  Variable f : Z -> Z.
  Variable conv : Z -> Z -> Z.
  Notation step_thread := (step_thread cfg f conv).
  Notation step_at := (step_at cfg f conv).
  Notation run := (run cfg f conv).
  Notation M := (maxlen cfg).

  Definition it_len (it : iter) : nat :=
    match it with ItDirect _ _ c _ => c | ItSnap r => length r end.

  (* a measure of what a thread still has to do inside its current call *)
  Definition rank (p : pc) : nat :=
    match p with
    | PIdle => 0
    | PcGet _ _ _ => 2 * M + 12
    | PcStore _ _ _ => 2 * M + 11
    | PcIterStart _ _ _ _ => 2 * M + 10
    | PcNext _ _ _ _ it => 2 * it_len it + 8
    | PcBody _ _ _ it _ => 2 * it_len it + 9
    | PcCompute _ _ _ => 5
    | PcGet2 _ _ _ _ => 4
    | PcStore2 _ _ _ _ => 3
    | PcAppend _ _ _ _ _ => 2
    | PaGet _ _ sub => if sub then 17 else 20
    | PaPartner _ _ sub => if sub then 16 else 19
    | PaSub _ => 18
    | PaConvSet _ _ sub _ => if sub then 15 else 5
    | PaReget _ _ sub => if sub then 14 else 4
    | PaCompute _ _ sub => if sub then 13 else 3
    | PaSet _ _ sub _ => if sub then 12 else 1
    | PmHas _ => 4
    | PmCompute _ => 3
    | PmSet _ _ => 2
    | PmGet _ => 1
    | PpCompute _ => 1
    | PdDense _ => 2
    | PdWrite _ _ => 1
    end%nat.

  Definition K : nat := (2 * M + 21)%nat.
  Definition mu (t : thread) : nat := (rank (pcs t) + K * length (todo t))%nat.

  Definition heap_bounded (sh : shared) : Prop := Forall (fun d => (length (items d) <= M)%nat) (heap sh).
  Definition pc_bounded (p : pc) : Prop :=
    match p with
    | PcNext _ _ _ _ it | PcBody _ _ _ it _ => (it_len it <= M)%nat
    | PaGet _ w sub | PaPartner _ w sub | PaConvSet _ w sub _ | PaReget _ w sub
    | PaCompute _ w sub | PaSet _ w sub _ => sub = true -> w = false
    | _ => True
    end.
  Definition bounded (st : state) : Prop :=
    heap_bounded (fst st) /\ Forall (fun t => pc_bounded (pcs t)) (snd st).

  Lemma rank_start c : (rank (start c) < K)%nat.
  Proof. unfold K; destruct c; cbn; lia. Qed.

  Lemma iter_next_len sh it e it' : iter_next sh it = Ok (Some (e, it')) -> (S (it_len it') = it_len it)%nat.
  Proof.
    destruct it as [id st c pos|r]; cbn.
    - destruct (nth_error (heap sh) id); [|discriminate].
      destruct (negb (dstate d =? st)); [discriminate|]. destruct c; [discriminate|].
      destruct (nth_error (items d) pos); [|discriminate]. intros H; inversion H; reflexivity.
    - destruct r; [discriminate|]. intros H; inversion H; reflexivity.
  Qed.

  (* one step of an unfinished thread: the bounds are kept and the measure strictly decreases *)
  Lemma step_measure sh t :
    heap_bounded sh -> pc_bounded (pcs t) ->
    heap_bounded (fst (step_thread sh t)) /\ pc_bounded (pcs (snd (step_thread sh t))) /\
    (finished t = false -> (mu (snd (step_thread sh t)) < mu t)%nat).
  Proof.
    intros Hh Hp. unfold step_thread, mu, finished.
    destruct (pcs t) eqn:Epc; cbn in Hp.
    - (* PIdle *)
      destruct (todo t) as [|c r] eqn:Et; cbn; rewrite ?Epc, ?Et; cbn.
      + repeat split; auto. discriminate.
      + repeat split; auto. { destruct c; cbn; auto; discriminate. }
        intros _. pose proof (rank_start c). rewrite Nat.mul_succ_r. unfold K in *. lia.
    - destruct (alookup name (dd sh)); cbn; repeat split; auto; intros _; lia.
    - cbn. repeat split; auto; try (intros _; lia).
      unfold heap_bounded, new_deque; cbn. apply Forall_app; split; auto. repeat constructor. cbn; lia.
    - destruct (nth_error (heap sh) id) as [d|] eqn:E; cbn; repeat split; auto; try (intros _; lia).
      + destruct (snap cfg s); cbn; eapply (Forall_nth_error _ _ _ _ Hh E).
      + intros _. assert (length (items d) <= M)%nat by (eapply (Forall_nth_error _ _ _ _ Hh E)).
        destruct (snap cfg s); cbn; lia.
    - destruct (iter_next sh it) as [[[e it']|]|x] eqn:En; cbn; repeat split; auto; try (intros _; lia).
      + apply iter_next_len in En. lia.
      + intros _. apply iter_next_len in En. lia.
    - destruct (fst item =? key); cbn; repeat split; auto; intros _; lia.
    - cbn; repeat split; auto; intros _; lia.
    - destruct (alookup name (dd sh)); cbn; repeat split; auto; intros _; lia.
    - cbn. repeat split; auto; try (intros _; lia).
      unfold heap_bounded, new_deque; cbn. apply Forall_app; split; auto. repeat constructor. cbn; lia.
    - destruct (nth_error (heap sh) id) as [d|] eqn:E; cbn; repeat split; auto; try (intros _; lia).
      unfold heap_bounded, set_heap; cbn. apply Forall_upd_nth; auto.
      unfold deque_append; cbn. apply length_lastn.
    - destruct (alookup (akey arr w) (attrs sh)); cbn; unfold aret; destruct sub; cbn;
        repeat split; auto; intros _; lia.
    - destruct sub; [rewrite (Hp eq_refl); cbn [andb]|];
        destruct (alookup (akey arr _) (attrs sh)); cbn;
        try (destruct (w && csc_via_csr cfg); cbn); repeat split; auto; try (intros _; lia); try discriminate.
    - cbn; destruct sub; cbn; repeat split; auto; intros _; lia.
    - destruct (alookup (akey arr w) (attrs sh)); cbn; unfold aret; destruct sub; cbn;
        repeat split; auto; intros _; lia.
    - cbn; repeat split; auto; intros _; lia.
    - cbn; destruct sub; cbn; repeat split; auto; intros _; lia.
    - cbn; unfold aret; destruct sub; cbn; repeat split; auto; intros _; lia.
    - destruct (alookup key (memo sh)); cbn; repeat split; auto; intros _; lia.
    - destruct (alookup key (memo sh)); cbn; repeat split; auto; intros _; lia.
    - cbn; repeat split; auto; try (intros _; lia).
      unfold memo_evict. destruct (memo_clear_bound cfg); auto. destruct (Nat.leb n (length (memo sh))); auto.
    - cbn; repeat split; auto; intros _; lia.
    - cbn; repeat split; auto; intros _; lia.
    - cbn; repeat split; auto; intros _; lia.
    - destruct view; cbn; repeat split; auto; intros _; lia.
  Qed.

  Notation drain := (drain cfg f conv).

  Lemma upd_nth_same {A} i (x : A) l : nth_error l i = Some x -> upd_nth i x l = l.
  Proof. revert i; induction l; intros [|i]; cbn; intros H; try discriminate; [inversion H; auto|f_equal; auto]. Qed.

  Definition fin_at (i : nat) (st : state) : bool :=
    match nth_error (snd st) i with Some t => finished t | None => true end.

  Lemma finished_step sh t : finished t = true -> step_thread sh t = (sh, t).
  Proof.
    unfold finished, step_thread. destruct (pcs t); try discriminate. destruct (todo t); try discriminate. auto.
  Qed.

  Lemma step_at_fin i st : fin_at i st = true -> step_at i st = st.
  Proof.
    unfold fin_at, step_at. destruct st as [sh ts]; cbn. destruct (nth_error ts i) as [t|] eqn:E; auto.
    intros Hf. rewrite (finished_step sh t Hf). rewrite (upd_nth_same _ _ _ E). reflexivity.
  Qed.

  Lemma run_repeat_fin_id i n st : fin_at i st = true -> run (repeat i n) st = st.
  Proof. intros H; induction n; cbn; auto. unfold run in *; cbn. rewrite (step_at_fin i st H). exact IHn. Qed.

  Lemma step_at_other i j st : i <> j -> nth_error (snd (step_at i st)) j = nth_error (snd st) j.
  Proof.
    intros Hne. unfold step_at. destruct (nth_error (snd st) i); auto.
    destruct (step_thread (fst st) t); cbn. apply nth_error_upd_other; auto.
  Qed.

  Lemma step_at_length i st : length (snd (step_at i st)) = length (snd st).
  Proof.
    unfold step_at. destruct (nth_error (snd st) i); auto.
    destruct (step_thread (fst st) t); cbn. apply length_upd_nth.
  Qed.

  Lemma step_at_bounded i st : bounded st -> bounded (step_at i st).
  Proof.
    intros [Hh Hp]. unfold step_at. destruct (nth_error (snd st) i) as [t|] eqn:E; [|split; auto].
    pose proof (step_measure (fst st) t Hh (Forall_nth_error _ _ _ _ Hp E)) as [H1 [H2 _]].
    destruct (step_thread (fst st) t) as [sh' t']; cbn in *. split; cbn; auto.
    apply Forall_upd_nth; auto.
  Qed.

  Lemma run_bounded sched st : bounded st -> bounded (run sched st).
  Proof. unfold run. revert st; induction sched; cbn; intros; auto using step_at_bounded. Qed.

  Lemma run_length sched st : length (snd (run sched st)) = length (snd st).
  Proof. unfold run. revert st; induction sched; cbn; intros; auto. rewrite IHsched. apply step_at_length. Qed.

  Lemma run_repeat_other i j n st : i <> j -> nth_error (snd (run (repeat i n) st)) j = nth_error (snd st) j.
  Proof.
    intros Hne. revert st; induction n; intros st; cbn; auto.
    unfold run in *; cbn. rewrite IHn. apply step_at_other; auto.
  Qed.

  Lemma init_bounded ops progs : bounded (init ops progs).
  Proof.
    split; cbn; [constructor|]. induction progs; cbn; constructor; auto. exact I.
  Qed.

  Lemma mu_zero_finished t : mu t = 0%nat -> finished t = true.
  Proof.
    unfold mu, finished, K. intros H.
    assert (rank (pcs t) = 0)%nat by lia.
    assert (length (todo t) = 0)%nat by nia.
    destruct (todo t); [|discriminate].
    destruct (pcs t); cbn in *; try lia; auto; destruct sub; lia.
  Qed.

  Lemma run_repeat_fin i n st t :
    bounded st -> nth_error (snd st) i = Some t -> (mu t <= n)%nat ->
    fin_at i (run (repeat i n) st) = true.
  Proof.
    revert st t; induction n; intros st t Hb Ht Hmu.
    - cbn. unfold fin_at. rewrite Ht. apply mu_zero_finished. lia.
    - destruct (finished t) eqn:Ef.
      + rewrite run_repeat_fin_id; unfold fin_at; rewrite Ht; auto.
      + change (run (repeat i (S n)) st) with (run (repeat i n) (step_at i st)).
        destruct Hb as [Hh Hp].
        pose proof (step_measure (fst st) t Hh (Forall_nth_error _ _ _ _ Hp Ht)) as [_ [_ Hdec]].
        specialize (Hdec Ef).
        eapply (IHn (step_at i st) (snd (step_thread (fst st) t))).
        * apply step_at_bounded; split; auto.
        * unfold step_at. rewrite Ht. destruct (step_thread (fst st) t); cbn.
          apply nth_error_upd_same. apply nth_error_Some. congruence.
        * lia.
  Qed.

  Lemma rank_le p : pc_bounded p -> (rank p <= 2 * M + 20)%nat.
  Proof. destruct p; cbn; intros; try lia; destruct sub; lia. Qed.

  Lemma fuel_enough st i t :
    bounded st -> nth_error (snd st) i = Some t -> (mu t <= coarse_fuel cfg st)%nat.
  Proof.
    intros [_ Hp] Ht. unfold coarse_fuel.
    pose proof (fold_fuel_ge (fun t => (24 + 2 * M) * (1 + length (todo t)))%nat (snd st) 24%nat) as [_ H].
    specialize (H t (nth_error_In _ _ Ht)).
    pose proof (rank_le _ (Forall_nth_error _ _ _ _ Hp Ht)).
    unfold mu, K. nia.
  Qed.

  Lemma drain_fold l st :
    bounded st ->
    let st' := fold_left (fun st i => run (repeat i (coarse_fuel cfg st)) st) l st in
    bounded st' /\ length (snd st') = length (snd st) /\
    forall j, (In j l \/ fin_at j st = true) -> fin_at j st' = true.
  Proof.
    revert st; induction l as [|i r IH]; intros st Hb; cbn [fold_left].
    - split; [exact Hb|split; [reflexivity|]]. intros j [[]|H]; exact H.
    - set (st1 := run (repeat i (coarse_fuel cfg st)) st).
      assert (Hb1 : bounded st1) by (apply run_bounded; auto).
      destruct (IH st1 Hb1) as [H1 [H2 H3]]. cbv zeta in *.
      split; auto. split; [rewrite H2; apply run_length|].
      intros j Hj. apply H3.
      destruct (Nat.eq_dec i j) as [<-|Hne].
      + right. destruct (nth_error (snd st) i) as [t|] eqn:Et.
        * eapply run_repeat_fin; eauto. eapply fuel_enough; eauto.
        * unfold fin_at, st1. destruct (nth_error (snd (run (repeat i (coarse_fuel cfg st)) st)) i) eqn:E; auto.
          exfalso. assert (i < length (snd (run (repeat i (coarse_fuel cfg st)) st)))%nat
            by (apply nth_error_Some; congruence).
          rewrite run_length in H. apply nth_error_None in Et. lia.
      + destruct Hj as [[Hj|Hj]|Hj]; [congruence|auto|].
        right. unfold fin_at, st1 in *. rewrite run_repeat_other; auto.
  Qed.

  (* whatever happened before (any schedule prefix), letting the threads run to their end terminates:
     no protocol loops or blocks, every call returns *)
  Lemma drain_finishes sched ops progs :
    all_finished (drain (run sched (init ops progs))) = true.
  Proof.
    set (st := run sched (init ops progs)).
    assert (Hb : bounded st) by (apply run_bounded, init_bounded).
    destruct (drain_fold (seq 0 (length (snd st))) st Hb) as [_ [Hl Hf]].
    unfold all_finished, drain. apply forallb_forall. intros t Hin.
    destruct (In_nth_error _ _ Hin) as [j Hj].
    assert (Hlt : (j < length (snd st))%nat).
    { rewrite <- Hl. apply nth_error_Some. congruence. }
    specialize (Hf j (or_introl (proj2 (in_seq _ _ _) (conj (Nat.le_0_l _) Hlt)))).
    unfold fin_at in Hf. rewrite Hj in Hf. exact Hf.
  Qed.
End Termination.

(* under any schedule followed by letting the threads finish, thread i has exactly one outcome per call
   of its program, in program order *)
Lemma every_call_has_outcome cfg f conv sched ops progs :
  map (map fst) (outputs (drain cfg f conv (run cfg f conv sched (init ops progs)))) = progs.
Proof.
  destruct (drain_is_run cfg f conv (run cfg f conv sched (init ops progs))) as [fine E].
  pose proof (drain_finishes cfg f conv sched ops progs) as Hf.
  rewrite E in *. rewrite <- run_app in *. apply finished_outputs. exact Hf.
Qed.

(* a todense that may return a VIEW of the operand's storage: a caller's in-place write to its own result
   changes the shared operand (and with it the value of every later call) *)
Lemma view_write_reaches_operands cfg f conv :
  buffers_fresh cfg = false ->
  exists progs sched, operands (fst (run cfg f conv sched (init [7] progs))) <> [7].
Proof.
  intros H. exists [[CDenseWrite 1]], [0; 0; 0]%nat.
  destruct cfg as [a b n v fr m]; cbn in H; subst; vm_compute. intros E; inversion E.
Qed.

Example private_results_nonvacuous :
  let st := run src_config ex_f ex_conv [0; 1; 0; 1; 0; 1; 1; 1]%nat
              (init [7; 8] [[CDenseWrite 1]; [CPure 2; CDenseWrite 1]]) in
  all_finished st = true /\ operands (fst st) = [7; 8] /\
  outputs st = [[(CDenseWrite 1, Ok 8)]; [(CPure 2, Ok 15); (CDenseWrite 1, Ok 8)]].
Proof. vm_compute. auto. Qed.
