(* Proofs/CooIndexNormP.v — part 2 of the COO indexing proofs: normalize_index (the generated
   fragments of _slicing.py composed as the code composes them, Model/CooIndex.v) against the first
   two phases of Spec/NpIndex.v (expansion of Ellipsis / trailing axes, every entry against the axis
   it faces): same IndexError, and on success the normalised index denotes NumPy's resolved one. *)
From Coq Require Import ZArith List Bool Lia ZifyBool.
From Verif Require Import Py PyExt PyIndex G_slicing S_indexing PySlice Slicing SlicingP Shape
     NpIndex CooIndex CooIndexMaskP.
Import ListNotations.
Open Scope Z_scope.

(* ================================================================ one entry *)

Definition entry_okb (e : ientry) (d : Z) : bool :=
  match e with
  | IInt z => in_bounds d z
  | IArr l => forallb (in_bounds d) l
  | IBArr l => Z.of_nat (length l) =? d
  | _ => true
  end.

Lemma check_int z d : g_check_index (VInt z) (VInt d) = if in_bounds d z then Ok VNone else Raise IndexError.
Proof.
  unfold g_check_index, in_bounds. repeat (cbn; split_one); cbn; try reflexivity;
    destruct (Z.leb_spec (- d) z); destruct (Z.ltb_spec z d); cbn; try reflexivity; lia.
Qed.

Lemma check_slice a b c d : g_check_index (VSlice a b c) d = Ok VNone.
Proof. reflexivity. Qed.

Lemma existsb_oob d l : existsb (fun i => (i >=? d) || (i <? - d)) l = negb (forallb (in_bounds d) l).
Proof.
  induction l as [|x l IH]; simpl; [reflexivity|]. rewrite IH, negb_andb. f_equal.
  unfold in_bounds. rewrite Z.geb_leb. destruct (Z.leb_spec d x), (Z.ltb_spec x (- d)), (Z.leb_spec (- d) x), (Z.ltb_spec x d); simpl; try reflexivity; lia.
Qed.

Lemma check_arr l d :
  g_check_index (VArr l) (VInt d) = if forallb (in_bounds d) l then Ok VNone else Raise IndexError.
Proof.
  unfold g_check_index. cbn. rewrite existsb_oob. destruct (forallb (in_bounds d) l); reflexivity.
Qed.

Lemma check_barr l d :
  g_check_index (VBArr l) (VInt d) = if Z.of_nat (length l) =? d then Ok VNone else Raise IndexError.
Proof.
  unfold g_check_index. cbn. destruct (Z.of_nat (length l) =? d); reflexivity.
Qed.

Lemma norm_int z d : norm_entry (VInt z) (VInt d) = Ok (VInt (wrap d z)).
Proof.
  unfold norm_entry, wrap. cbn. destruct (Z.ltb_spec z 0); reflexivity.
Qed.

Lemma norm_none : norm_entry VNone VNone = Ok VNone.
Proof. reflexivity. Qed.

Lemma norm_arr l d : norm_entry (VArr l) (VInt d) = Ok (VArr (map (wrap d) l)).
Proof. reflexivity. Qed.

Lemma norm_slice_eq v d : norm_entry v (VInt d) = normalize_slice v d.
Proof. reflexivity. Qed.

Lemma sanitize_oz o : g_sanitize_index_element (oz o) = Ok (oz o).
Proof. destruct o; reflexivity. Qed.

Lemma sanitize_slice a b c : sanitize (VSlice (oz a) (oz b) (oz c)) = Ok (VSlice (oz a) (oz b) (oz c)).
Proof. unfold sanitize. rewrite !sanitize_oz. reflexivity. Qed.

Definition step_dflt (c : option Z) : Z := match c with Some x => x | None => 1 end.

Lemma normalize_slice_step a b c d s e st :
  c <> Some 0 ->
  normalize_slice (VSlice (oz a) (oz b) (oz c)) d = Ok (VSlice (VInt s) (VInt e) (VInt st)) ->
  st = step_dflt c.
Proof.
  intros Hc. unfold normalize_slice, g_replace_none, g_posify_index, g_clip_slice.
  destruct c as [x|]; [assert (x <> 0) by congruence|];
  destruct a as [a|]; destruct b as [b|];
  repeat (cbn; split_one); cbn; intros Heq; inversion Heq; reflexivity.
Qed.

Lemma normalize_slice_ok a b c d :
  0 <= d -> c <> Some 0 ->
  exists s e st,
    normalize_slice (VSlice (oz a) (oz b) (oz c)) d = Ok (VSlice (VInt s) (VInt e) (VInt st))
    /\ st <> 0 /\ slice_selects a b c d = Some (range_list s e st).
Proof.
  intros Hd Hc. pose proof (slice_norm_correct_proof a b c d Hd Hc) as H.
  assert (Hs : exists l, slice_selects a b c d = Some l).
  { unfold slice_selects, slice_indices.
    destruct (Z.eqb_spec (match c with Some s => s | None => 1 end) 0) as [E|E].
    - destruct c as [x|]; [subst; congruence|discriminate].
    - eexists. reflexivity. }
  destruct Hs as [l Hl]. rewrite Hl in H. unfold selects in H.
  destruct (normalize_slice (VSlice (oz a) (oz b) (oz c)) d) as [v|] eqn:E; [|discriminate].
  destruct v as [| | | |x y z| | |]; try discriminate.
  destruct x; try discriminate. destruct y; try discriminate. destruct z; try discriminate.
  exists z0, z1, z. split; [reflexivity|]. split.
  - rewrite (normalize_slice_step a b c d z0 z1 z Hc E). destruct c as [x|]; simpl; [congruence|lia].
  - rewrite Hl. symmetry. exact H.
Qed.

(* ================================================================ all entries against their axes *)

(* the expanded index consumes exactly the axes of the shape (and holds no Ellipsis) *)
Fixpoint fits (ex : index) (sh : shape) : bool :=
  match ex with
  | [] => match sh with [] => true | _ => false end
  | INone :: r => fits r sh
  | IEllipsis :: _ => false
  | _ :: r => match sh with [] => false | _ :: sh' => fits r sh' end
  end.

Fixpoint all_ok (ex : index) (sh : shape) : bool :=
  match ex with
  | [] => true
  | INone :: r => all_ok r sh
  | e :: r => match sh with [] => false | d :: sh' => entry_okb e d && all_ok r sh' end
  end.

Definition no_zero_step (ex : index) : bool :=
  forallb (fun e => match e with ISlice _ _ (Some 0) => false | _ => true end) ex.

(* domain clause D29: no EMPTY boolean array faces a non-empty axis (NumPy lets it through, the code raises) *)
Fixpoint bool_ok (ex : index) (sh : shape) : bool :=
  match ex with
  | [] => true
  | INone :: r => bool_ok r sh
  | e :: r =>
    match sh with
    | [] => true
    | d :: sh' => (match e with IBArr [] => d =? 0 | _ => true end) && bool_ok r sh'
    end
  end.

Definition nslice_of (a b c : option Z) (d : Z) : nentry :=
  match normalize_slice (VSlice (oz a) (oz b) (oz c)) d with
  | Ok (VSlice (VInt s) (VInt e) (VInt st)) => NSlice s e st
  | _ => NNone
  end.

Definition nentry_spec (e : ientry) (d : Z) : nentry :=
  match e with
  | IInt z => NInt (wrap d z)
  | ISlice a b c => nslice_of a b c d
  | IArr l => NArr (map (wrap d) l)
  | IBArr l => NArr (map (wrap d) (nonzero_from 0 l))
  | _ => NNone
  end.

Fixpoint norm_all (ex : index) (sh : shape) : list nentry :=
  match ex with
  | [] => []
  | INone :: r => NNone :: norm_all r sh
  | e :: r => match sh with [] => [] | d :: sh' => nentry_spec e d :: norm_all r sh' end
  end.

Fixpoint dims_of (ex : index) (sh : shape) : list pyv :=
  match ex with
  | [] => []
  | INone :: r => VNone :: dims_of r sh
  | _ :: r => match sh with [] => [] | d :: sh' => VInt d :: dims_of r sh' end
  end.

Definition san_of (e : ientry) : pyv :=
  match e with IBArr l => VArr (nonzero_from 0 l) | _ => pv_of e end.

Definition pv_of_n (e : nentry) : pyv :=
  match e with
  | NInt i => VInt i
  | NSlice s e' st => VSlice (VInt s) (VInt e') (VInt st)
  | NNone => VNone
  | NArr l => VArr l
  end.

Definition to_r (e : nentry) : rentry :=
  match e with
  | NInt i => RInt i
  | NSlice s e' st => RSel (range_list s e' st)
  | NNone => RNew
  | NArr l => RAdv l
  end.

Lemma none_shape_fits ex sh : fits ex sh = true -> none_shape (map pv_of ex) sh = Ok (dims_of ex sh).
Proof.
  revert sh. induction ex as [|e r IH]; intros sh H; [reflexivity|].
  destruct e; simpl in *; try discriminate;
    try (destruct sh as [|d sh']; [discriminate|]; rewrite (IH _ H); reflexivity).
  rewrite (IH _ H). reflexivity.
Qed.

Lemma check_entry e d :
  consumes e = true ->
  g_check_index (pv_of e) (VInt d) = if entry_okb e d then Ok VNone else Raise IndexError.
Proof.
  destruct e; simpl; try discriminate; intros _.
  - apply check_int.
  - reflexivity.
  - apply check_arr.
  - apply check_barr.
Qed.

Lemma check_all_fits ex sh :
  fits ex sh = true ->
  check_all (map pv_of ex) (dims_of ex sh) = if all_ok ex sh then Ok tt else Raise IndexError.
Proof.
  revert sh. induction ex as [|e r IH]; intros sh H; [reflexivity|].
  destruct e; try discriminate;
    try (destruct sh as [|d sh']; [discriminate|]; cbn [map dims_of check_all all_ok is_none];
         rewrite check_entry by reflexivity; destruct (entry_okb _ d); cbn; [apply IH; exact H|reflexivity]).
  cbn. apply IH. exact H.
Qed.

Lemma sanitize_pv e : negb (is_ell e) = true -> sanitize (pv_of e) = Ok (san_of e).
Proof. destruct e; try discriminate; intros _; try reflexivity. apply sanitize_slice. Qed.

Lemma sanitize_all ex : forallb (fun e => negb (is_ell e)) ex = true ->
  map_res sanitize (map pv_of ex) = Ok (map san_of ex).
Proof.
  induction ex as [|e r IH]; intros H; [reflexivity|]. simpl in H. apply andb_true_iff in H. destruct H as [He Hr].
  cbn [map map_res]. rewrite (IH Hr), (sanitize_pv e He). reflexivity.
Qed.

Lemma fits_no_ell ex sh : fits ex sh = true -> forallb (fun e => negb (is_ell e)) ex = true.
Proof.
  revert sh. induction ex as [|e r IH]; intros sh H; [reflexivity|].
  destruct e; simpl in *; try discriminate; try (destruct sh; [discriminate|]); eauto.
Qed.

Definition shape_okb (sh : shape) : bool := forallb (fun d => 0 <=? d) sh.

Lemma norm_all_ok ex sh :
  fits ex sh = true -> shape_okb sh = true -> no_zero_step ex = true ->
  map2_res norm_entry (map san_of ex) (dims_of ex sh) = Ok (map pv_of_n (norm_all ex sh)).
Proof.
  revert sh. induction ex as [|e r IH]; intros sh H Hsh Hz; [reflexivity|].
  simpl in Hz. apply andb_true_iff in Hz. destruct Hz as [Hze Hz].
  destruct e; try discriminate.
  - destruct sh as [|d sh']; [discriminate|]. simpl in Hsh. apply andb_true_iff in Hsh. destruct Hsh as [Hd Hsh].
    cbn [map san_of pv_of dims_of map2_res norm_all nentry_spec pv_of_n]. rewrite norm_int. cbn.
    rewrite (IH sh' H Hsh Hz). reflexivity.
  - destruct sh as [|d sh']; [discriminate|]. simpl in Hsh. apply andb_true_iff in Hsh. destruct Hsh as [Hd Hsh].
    cbn [map san_of pv_of dims_of map2_res norm_all nentry_spec pv_of_n]. rewrite norm_slice_eq.
    assert (Hc : c <> Some 0) by (intros ->; discriminate).
    destruct (normalize_slice_ok a b c d ltac:(lia) Hc) as [s [e' [st [En _]]]].
    unfold nslice_of. rewrite En. cbn. rewrite (IH sh' H Hsh Hz). reflexivity.
  - cbn. rewrite (IH sh H Hsh Hz). reflexivity.
  - destruct sh as [|d sh']; [discriminate|]. simpl in Hsh. apply andb_true_iff in Hsh. destruct Hsh as [Hd Hsh].
    cbn [map san_of pv_of dims_of map2_res norm_all nentry_spec pv_of_n]. rewrite norm_arr. cbn.
    rewrite (IH sh' H Hsh Hz). reflexivity.
  - destruct sh as [|d sh']; [discriminate|]. simpl in Hsh. apply andb_true_iff in Hsh. destruct Hsh as [Hd Hsh].
    cbn [map san_of pv_of dims_of map2_res norm_all nentry_spec pv_of_n]. rewrite norm_arr. cbn.
    rewrite (IH sh' H Hsh Hz). reflexivity.
Qed.

Lemma nentry_of_pv l : map_res nentry_of (map pv_of_n l) = Ok l.
Proof. induction l as [|e l IH]; [reflexivity|]. cbn [map map_res]. rewrite IH. destruct e; reflexivity. Qed.

(* the entry phase of normalize_index *)
Lemma entries_link ex sh :
  fits ex sh = true -> shape_okb sh = true -> no_zero_step ex = true ->
  (l <- entries_pv (map pv_of ex) sh ;; map_res nentry_of l)
  = if all_ok ex sh then Ok (norm_all ex sh) else Raise IndexError.
Proof.
  intros Hf Hsh Hz. unfold entries_pv. rewrite none_shape_fits by assumption. cbn [bind].
  rewrite check_all_fits by assumption. destruct (all_ok ex sh); [|reflexivity]. cbn [bind].
  rewrite sanitize_all by (eapply fits_no_ell; eassumption). cbn [bind].
  rewrite norm_all_ok by assumption. cbn [bind]. apply nentry_of_pv.
Qed.

(* ---- the Spec's resolve on the same expanded index *)
Lemma nonzero_from_nonneg k l : 0 <= k -> Forall (fun i => 0 <= i) (nonzero_from k l).
Proof.
  revert k. induction l as [|b l IH]; intros k Hk; simpl; [constructor|].
  apply Forall_app. split; [destruct b; repeat constructor; assumption|apply IH; lia].
Qed.

Lemma map_wrap_nonneg d l : Forall (fun i => 0 <= i) l -> map (wrap d) l = l.
Proof.
  induction 1 as [|x l Hx Hl IH]; simpl; [reflexivity|]. rewrite IH. unfold wrap.
  destruct (Z.ltb_spec x 0); [lia|reflexivity].
Qed.

Lemma resolve_link ex sh :
  fits ex sh = true -> shape_okb sh = true -> no_zero_step ex = true -> bool_ok ex sh = true ->
  resolve sh ex = if all_ok ex sh then Ok (map to_r (norm_all ex sh)) else Raise IndexError.
Proof.
  revert sh. induction ex as [|e r IH]; intros sh H Hsh Hz Hb; [reflexivity|].
  simpl in Hz. apply andb_true_iff in Hz. destruct Hz as [Hze Hz].
  destruct e; try discriminate.
  - destruct sh as [|d sh']; [discriminate|]. simpl in Hsh, Hb. apply andb_true_iff in Hsh. destruct Hsh as [Hd Hsh].
    cbn [resolve resolve1 all_ok entry_okb norm_all nentry_spec]. destruct (in_bounds d z); [|reflexivity].
    cbn [bind andb]. rewrite (IH sh' H Hsh Hz Hb). destruct (all_ok r sh'); reflexivity.
  - destruct sh as [|d sh']; [discriminate|]. simpl in Hsh, Hb. apply andb_true_iff in Hsh. destruct Hsh as [Hd Hsh].
    assert (Hc : c <> Some 0) by (intros ->; discriminate).
    destruct (normalize_slice_ok a b c d ltac:(lia) Hc) as [s [e' [st [En [Hst Hsel]]]]].
    cbn [resolve resolve1 all_ok entry_okb norm_all nentry_spec]. rewrite Hsel. unfold nslice_of. rewrite En.
    cbn [bind andb]. rewrite (IH sh' H Hsh Hz Hb). destruct (all_ok r sh'); reflexivity.
  - cbn [resolve all_ok norm_all]. rewrite (IH sh H Hsh Hz Hb). destruct (all_ok r sh); reflexivity.
  - destruct sh as [|d sh']; [discriminate|]. simpl in Hsh, Hb. apply andb_true_iff in Hsh. destruct Hsh as [Hd Hsh].
    cbn [resolve resolve1 all_ok entry_okb norm_all nentry_spec]. destruct (forallb (in_bounds d) l); [|reflexivity].
    cbn [bind andb]. rewrite (IH sh' H Hsh Hz Hb). destruct (all_ok r sh'); reflexivity.
  - destruct sh as [|d sh']; [discriminate|]. simpl in Hsh. apply andb_true_iff in Hsh. destruct Hsh as [Hd Hsh].
    cbn [bool_ok] in Hb. apply andb_true_iff in Hb. destruct Hb as [Hbe Hb].
    cbn [resolve resolve1 all_ok entry_okb norm_all nentry_spec].
    assert (E : (Z.of_nat (length l) =? d) || (Z.of_nat (length l) =? 0) = (Z.of_nat (length l) =? d)).
    { destruct l; simpl in *; [|destruct (Z.pos (Pos.of_succ_nat (length l)) =? d); reflexivity].
      apply Z.eqb_eq in Hbe. subst. reflexivity. }
    rewrite E. destruct (Z.of_nat (length l) =? d); [|reflexivity].
    cbn [bind andb]. rewrite (IH sh' H Hsh Hz Hb). destruct (all_ok r sh'); [|reflexivity].
    cbn [map to_r]. rewrite (map_wrap_nonneg d) by (apply nonzero_from_nonneg; lia). reflexivity.
Qed.

(* ================================================================ expansion (Ellipsis, padding, too many) *)

Definition no_ell (ix : index) : bool := forallb (fun e => negb (is_ell e)) ix.

Lemma countb_app {A} (p : A -> bool) l1 l2 : countb p (l1 ++ l2) = countb p l1 + countb p l2.
Proof. unfold countb. rewrite filter_app, app_length. lia. Qed.

Lemma countb_cons {A} (p : A -> bool) a l : countb p (a :: l) = (if p a then 1 else 0) + countb p l.
Proof. unfold countb. simpl. destruct (p a); simpl; lia. Qed.

Lemma countb_nonneg {A} (p : A -> bool) l : 0 <= countb p l.
Proof. unfold countb. lia. Qed.

Lemma count_split ix : Z.of_nat (length ix) = countb consumes ix + countb is_new ix + countb is_ell ix.
Proof.
  induction ix as [|e r IH]; [reflexivity|]. rewrite !countb_cons. simpl length. rewrite Nat2Z.inj_succ, IH.
  destruct e; simpl; lia.
Qed.

Lemma no_ell_count ix : no_ell ix = true -> countb is_ell ix = 0.
Proof.
  induction ix as [|e r IH]; [reflexivity|]. simpl. rewrite countb_cons. intros H. apply andb_true_iff in H.
  destruct H as [He Hr]. rewrite (IH Hr). destruct (is_ell e); [discriminate|reflexivity].
Qed.

Lemma count_no_ell ix : countb is_ell ix = 0 -> no_ell ix = true.
Proof.
  induction ix as [|e r IH]; [reflexivity|]. rewrite countb_cons. simpl. pose proof (countb_nonneg is_ell r) as Hn.
  destruct (is_ell e); [lia|]. intros H. simpl. apply IH. lia.
Qed.

Lemma first_ell ix : 0 < countb is_ell ix ->
  exists pre post, ix = pre ++ IEllipsis :: post /\ no_ell pre = true.
Proof.
  induction ix as [|e r IH]; [unfold countb; simpl; lia|]. rewrite countb_cons. intros H.
  destruct (is_ell e) eqn:E.
  - destruct e; try discriminate. exists [], r. auto.
  - destruct (IH ltac:(lia)) as [pre [post [-> Hp]]]. exists (e :: pre), post. split; [reflexivity|].
    simpl. rewrite E. exact Hp.
Qed.

Lemma ell_pos_none k ix : no_ell ix = true -> ellipsis_positions k (map pv_of ix) = [].
Proof.
  revert k. induction ix as [|e r IH]; intros k H; [reflexivity|]. simpl in H. apply andb_true_iff in H.
  destruct H as [He Hr]. simpl. rewrite (IH _ Hr). destruct e; try discriminate; reflexivity.
Qed.

Lemma ell_pos_split k pre post :
  no_ell pre = true ->
  ellipsis_positions k (map pv_of (pre ++ IEllipsis :: post))
  = VInt (k + Z.of_nat (length pre)) :: ellipsis_positions (k + Z.of_nat (length pre) + 1) (map pv_of post).
Proof.
  revert k. induction pre as [|e r IH]; intros k H.
  - simpl. rewrite Z.add_0_r. reflexivity.
  - simpl in H. apply andb_true_iff in H. destruct H as [He Hr].
    cbn [app map ellipsis_positions length]. rewrite (IH _ Hr).
    replace (k + 1 + Z.of_nat (length r)) with (k + Z.of_nat (S (length r))) by lia.
    destruct e; try discriminate; reflexivity.
Qed.

Lemma ell_pos_nonempty k ix : 0 < countb is_ell ix -> ellipsis_positions k (map pv_of ix) <> [].
Proof.
  intros H. destruct (first_ell ix H) as [pre [post [-> Hp]]]. rewrite ell_pos_split by assumption. discriminate.
Qed.

Lemma filter_none_map ix : length (filter is_none (map pv_of ix)) = length (filter is_new ix).
Proof. induction ix as [|e r IH]; [reflexivity|]. destruct e; simpl; rewrite ?IH; reflexivity. Qed.

Lemma filter_notnone_map ix :
  Z.of_nat (length (filter (fun v => negb (is_none v)) (map pv_of ix))) = countb consumes ix + countb is_ell ix.
Proof.
  induction ix as [|e r IH]; [reflexivity|]. rewrite !countb_cons.
  destruct e; cbn [map pv_of filter is_none negb consumes is_ell length]; rewrite ?Nat2Z.inj_succ, ?IH; try lia.
Qed.

Lemma map_repeat' {A B} (f : A -> B) x n : map f (repeat x n) = repeat (f x) n.
Proof. induction n; simpl; congruence. Qed.

Lemma firstn_pre {A} (l1 l2 : list A) : firstn (length l1) (l1 ++ l2) = l1.
Proof. induction l1; simpl; congruence. Qed.
Lemma skipn_pre {A} (l1 l2 : list A) x : skipn (S (length l1)) (l1 ++ x :: l2) = l2.
Proof. induction l1; simpl; auto. Qed.

(* replace_ellipsis, evaluated *)
Lemma replace_ellipsis_eval n ix :
  g_replace_ellipsis (VInt n) (VTuple (map pv_of ix)) =
  if countb is_ell ix =? 0 then Ok (VTuple (map pv_of ix))
  else if 1 <? countb is_ell ix then Raise IndexError
  else Ok (VTuple (map pv_of (subst_ellipsis (repeat full_slice (Z.to_nat (n - countb consumes ix))) ix))).
Proof.
  destruct (Z.eqb_spec (countb is_ell ix) 0) as [E0|E0].
  - unfold g_replace_ellipsis, ext_ellipsis_positions. rewrite ell_pos_none by (apply count_no_ell; assumption).
    reflexivity.
  - pose proof (countb_nonneg is_ell ix).
    destruct (first_ell ix ltac:(lia)) as [pre [post [-> Hp]]].
    assert (Hc : countb is_ell (pre ++ IEllipsis :: post) = 1 + countb is_ell post).
    { rewrite countb_app, countb_cons, (no_ell_count pre Hp). simpl. lia. }
    unfold g_replace_ellipsis, ext_ellipsis_positions. rewrite ell_pos_split by assumption. rewrite Z.add_0_l.
    destruct (Z.ltb_spec 1 (countb is_ell (pre ++ IEllipsis :: post))) as [H1|H1].
    + (* a second ellipsis in post *)
      assert (Hpost : 0 < countb is_ell post) by lia.
      pose proof (ell_pos_nonempty (Z.of_nat (length pre) + 1) post Hpost) as Hne.
      destruct (ellipsis_positions (Z.of_nat (length pre) + 1) (map pv_of post)) as [|v r]; [contradiction|].
      cbn. destruct (Z.gtb_spec (Z.pos (Pos.succ (Pos.of_succ_nat (length r)))) 1); [reflexivity|lia].
    + assert (Hpost : no_ell post = true) by (apply count_no_ell; pose proof (countb_nonneg is_ell post); lia).
      rewrite (ell_pos_none _ post Hpost).
      cbn [bind py_not truthy negb cond py_len length py_gt ordcmp as_int Z.of_nat].
      cbn [py_item nth_error ext_count_none].
      cbn [bind py_len py_sub arith as_int ext_splice_full].
      rewrite map_length, filter_none_map.
      assert (Hex : n - (Z.of_nat (length (pre ++ IEllipsis :: post)) - Z.of_nat (length (filter is_new (pre ++ IEllipsis :: post))) - 1)
                    = n - countb consumes (pre ++ IEllipsis :: post)).
      { rewrite count_split. fold (countb is_new (pre ++ IEllipsis :: post)). lia. }
      rewrite Hex.
      assert (Hsub : forall fill, subst_ellipsis fill (pre ++ IEllipsis :: post) = pre ++ fill ++ post).
      { intros fill. clear -Hp. induction pre as [|e r IH]; [reflexivity|]. simpl in Hp. apply andb_true_iff in Hp.
        destruct Hp as [He Hr]. simpl. rewrite (IH Hr). destruct e; try discriminate; reflexivity. }
      rewrite Hsub. rewrite !map_app, map_repeat'. cbn [map pv_of].
      rewrite Nat2Z.id.
      replace (Z.to_nat (Z.of_nat (length pre) + 1)) with (S (length pre)) by lia.
      rewrite <- (map_length pv_of pre).
      rewrite firstn_pre, skipn_pre. reflexivity.
Qed.

Lemma count_sliced_entry k e :
  is_ell e = false -> s_count_sliced (VInt k) (pv_of e) = Ok (VInt (k + (if consumes e then 1 else 0))).
Proof.
  destruct e; try discriminate; intros _; cbn; rewrite ?Z.add_0_r; reflexivity.
Qed.

Lemma count_fold ex k :
  no_ell ex = true ->
  fold_left (fun acc i => a <- acc ;; s_count_sliced a i) (map pv_of ex) (Ok (VInt k))
  = Ok (VInt (k + countb consumes ex)).
Proof.
  revert k. induction ex as [|e r IH]; intros k H.
  - simpl. unfold countb. simpl. rewrite Z.add_0_r. reflexivity.
  - simpl in H. apply andb_true_iff in H. destruct H as [He Hr].
    cbn [map fold_left bind]. rewrite count_sliced_entry by (destruct (is_ell e); [discriminate|reflexivity]).
    rewrite (IH _ Hr), countb_cons. f_equal. f_equal. lia.
Qed.

Lemma pad_count_eval sh m : s_pad_count (shape_pv sh) (VInt m) = Ok (VInt (Z.of_nat (length sh) - m)).
Proof. unfold s_pad_count, shape_pv. cbn. rewrite map_length. reflexivity. Qed.

Lemma too_many_eval ex sh :
  s_too_many (VTuple (map pv_of ex)) (shape_pv sh)
  = Ok (VBool (countb consumes ex + countb is_ell ex >? Z.of_nat (length sh))).
Proof.
  unfold s_too_many, shape_pv, ext_not_none. cbn. rewrite map_length, filter_notnone_map. reflexivity.
Qed.

Lemma countb_repeat_full k : countb consumes (repeat full_slice k) = Z.of_nat k /\ no_ell (repeat full_slice k) = true.
Proof.
  induction k as [|k [IH1 IH2]]; [split; reflexivity|]. cbn [repeat]. split.
  - rewrite countb_cons, IH1. cbn [full_slice consumes]. lia.
  - unfold no_ell in *. cbn [forallb full_slice is_ell negb andb]. exact IH2.
Qed.

Lemma no_ell_app l1 l2 : no_ell (l1 ++ l2) = no_ell l1 && no_ell l2.
Proof. unfold no_ell. apply forallb_app. Qed.

(* steps after replace_ellipsis, for an index without Ellipsis *)
Definition tail_pv (ix1 : list pyv) (sh : shape) : res (list pyv) :=
  n <- fold_left (fun acc i => a <- acc ;; s_count_sliced a i) ix1 (Ok (VInt 0)) ;;
  pad <- s_pad_count (shape_pv sh) n ;;
  match pad with
  | VInt p =>
    let ix2 := ix1 ++ repeat full_pv (Z.to_nat p) in
    tm <- s_too_many (VTuple ix2) (shape_pv sh) ;;
    if cond tm then Raise IndexError else Ok ix2
  | _ => Raise TypeError
  end.

Lemma expand_pv_eq ix sh :
  expand_pv ix sh =
  (r <- g_replace_ellipsis (VInt (Z.of_nat (length sh))) (VTuple ix) ;;
   match r with VTuple ix1 => tail_pv ix1 sh | _ => Raise TypeError end).
Proof. reflexivity. Qed.

Lemma expand_tail ex1 sh :
  no_ell ex1 = true ->
  tail_pv (map pv_of ex1) sh
  = let p := Z.of_nat (length sh) - countb consumes ex1 in
    if p <? 0 then Raise IndexError else Ok (map pv_of (ex1 ++ repeat full_slice (Z.to_nat p))).
Proof.
  intros Hn. unfold tail_pv. rewrite count_fold by assumption. cbn [bind]. rewrite pad_count_eval. cbn [bind]. rewrite Z.add_0_l.
  set (p := Z.of_nat (length sh) - countb consumes ex1). cbv zeta.
  change full_pv with (pv_of full_slice). rewrite <- map_repeat', <- map_app.
  rewrite too_many_eval. cbn [bind cond truthy].
  destruct (countb_repeat_full (Z.to_nat p)) as [Hc Hne].
  assert (Hne2 : no_ell (ex1 ++ repeat full_slice (Z.to_nat p)) = true) by (rewrite no_ell_app, Hn, Hne; reflexivity).
  rewrite countb_app, Hc, (no_ell_count _ Hne2).
  destruct (Z.ltb_spec p 0).
  - destruct (Z.gtb_spec (countb consumes ex1 + Z.of_nat (Z.to_nat p) + 0) (Z.of_nat (length sh))); [reflexivity|lia].
  - destruct (Z.gtb_spec (countb consumes ex1 + Z.of_nat (Z.to_nat p) + 0) (Z.of_nat (length sh))); [lia|reflexivity].
Qed.

Lemma subst_no_ell fill ix :
  countb is_ell ix = 1 -> no_ell fill = true ->
  no_ell (subst_ellipsis fill ix) = true
  /\ countb consumes (subst_ellipsis fill ix) = countb consumes ix + countb consumes fill.
Proof.
  intros H Hf. destruct (first_ell ix ltac:(lia)) as [pre [post [-> Hp]]].
  assert (Hpost : no_ell post = true).
  { apply count_no_ell. rewrite countb_app, countb_cons, (no_ell_count pre Hp) in H. simpl in H. lia. }
  assert (Hsub : subst_ellipsis fill (pre ++ IEllipsis :: post) = pre ++ fill ++ post).
  { clear -Hp. induction pre as [|e r IH]; [reflexivity|]. simpl in Hp. apply andb_true_iff in Hp.
    destruct Hp as [He Hr]. simpl. rewrite (IH Hr). destruct e; try discriminate; reflexivity. }
  rewrite Hsub. split.
  - rewrite !no_ell_app, Hp, Hf, Hpost. reflexivity.
  - rewrite !countb_app, countb_cons. simpl. lia.
Qed.

Theorem expand_link ix sh :
  expand_pv (map pv_of ix) sh =
  match expand (Z.of_nat (length sh)) ix with
  | Ok ex => Ok (map pv_of ex)
  | Raise _ => Raise IndexError
  end.
Proof.
  rewrite expand_pv_eq. unfold expand. rewrite replace_ellipsis_eval. set (nd := Z.of_nat (length sh)).
  pose proof (countb_nonneg is_ell ix) as Hnn.
  destruct (Z.eqb_spec (countb is_ell ix) 0) as [E0|E0].
  - (* no ellipsis *)
    destruct (Z.ltb_spec 1 (countb is_ell ix)); [lia|]. destruct (Z.ltb_spec 0 (countb is_ell ix)); [lia|].
    cbn [bind]. rewrite (expand_tail ix sh (count_no_ell _ E0)). fold nd. cbv zeta.
    destruct (nd - countb consumes ix <? 0); reflexivity.
  - destruct (Z.ltb_spec 1 (countb is_ell ix)) as [H1|H1]; [reflexivity|].
    destruct (Z.ltb_spec 0 (countb is_ell ix)); [|lia].
    set (extra := nd - countb consumes ix).
    destruct (countb_repeat_full (Z.to_nat extra)) as [Hc Hne].
    destruct (subst_no_ell (repeat full_slice (Z.to_nat extra)) ix ltac:(lia) Hne) as [Hs1 Hs2].
    cbn [bind]. rewrite (expand_tail _ sh Hs1). fold nd. cbv zeta. rewrite Hs2, Hc.
    destruct (Z.ltb_spec extra 0) as [Hx|Hx].
    + replace (Z.to_nat extra) with 0%nat by lia. simpl Z.of_nat. rewrite Z.add_0_r. fold extra.
      destruct (Z.ltb_spec extra 0); [reflexivity|lia].
    + rewrite Z2Nat.id by lia. replace (nd - (countb consumes ix + extra)) with 0 by (unfold extra; lia).
      simpl. rewrite app_nil_r. reflexivity.
Qed.

Lemma fits_intro ex sh :
  no_ell ex = true -> countb consumes ex = Z.of_nat (length sh) -> fits ex sh = true.
Proof.
  revert sh. induction ex as [|e r IH]; intros sh Hn Hc.
  - destruct sh; [reflexivity|]. unfold countb in Hc. simpl in Hc. lia.
  - simpl in Hn. apply andb_true_iff in Hn. destruct Hn as [He Hr]. rewrite countb_cons in Hc.
    pose proof (countb_nonneg consumes r).
    destruct e; try discriminate; simpl in *;
      try (destruct sh as [|d sh']; [simpl in Hc; lia|]; apply IH; [assumption|simpl length in Hc; lia]).
    apply IH; [assumption|lia].
Qed.

Lemma expand_fits ix sh ex :
  expand (Z.of_nat (length sh)) ix = Ok ex -> fits ex sh = true.
Proof.
  unfold expand. set (nd := Z.of_nat (length sh)). pose proof (countb_nonneg is_ell ix) as Hnn.
  destruct (Z.ltb_spec 1 (countb is_ell ix)); [discriminate|].
  destruct (Z.ltb_spec (nd - countb consumes ix) 0) as [|Hx]; [discriminate|].
  destruct (countb_repeat_full (Z.to_nat (nd - countb consumes ix))) as [Hc Hne].
  intros H0. inversion H0; subst ex. clear H0.
  destruct (Z.ltb_spec 0 (countb is_ell ix)).
  - destruct (subst_no_ell (repeat full_slice (Z.to_nat (nd - countb consumes ix))) ix ltac:(lia) Hne) as [Hs1 Hs2].
    apply fits_intro; [assumption|]. rewrite Hs2, Hc. fold nd. lia.
  - apply fits_intro.
    + rewrite no_ell_app, Hne, (count_no_ell ix ltac:(lia)). reflexivity.
    + rewrite countb_app, Hc. fold nd. lia.
Qed.

(* ================================================================ normalize_index against the Spec *)

Definition resolve_all (sh : shape) (ix : index) : res (list rentry) :=
  ex <- expand (Z.of_nat (length sh)) ix ;; resolve sh ex.

(* domain clause D29 (an empty boolean index facing a non-empty axis), on the expanded index *)
Definition d29_clause (sh : shape) (ix : index) : bool :=
  match expand (Z.of_nat (length sh)) ix with Ok ex => bool_ok ex sh | Raise _ => true end.

Lemma subst_In fill ix e : In e (subst_ellipsis fill ix) -> In e fill \/ In e ix.
Proof.
  induction ix as [|x r IH]; simpl; [tauto|].
  destruct x; simpl; try (intros [->|H]; [right; left; reflexivity|destruct (IH H); tauto]).
  rewrite in_app_iff. tauto.
Qed.

Lemma expand_nzs nd ix ex : expand nd ix = Ok ex -> no_zero_step ix = true -> no_zero_step ex = true.
Proof.
  unfold expand. destruct (1 <? countb is_ell ix); [discriminate|].
  destruct (nd - countb consumes ix <? 0); [discriminate|]. intros H Hz. inversion H; subst ex. clear H.
  unfold no_zero_step in *. rewrite forallb_forall in *.
  assert (Hfull : forall e k, In e (repeat full_slice k) -> e = full_slice) by (intros e k Hin; eapply repeat_spec; eauto).
  intros e He. destruct (0 <? countb is_ell ix).
  - apply subst_In in He. destruct He as [He|He]; [rewrite (Hfull _ _ He); reflexivity|auto].
  - apply in_app_iff in He. destruct He as [He|He]; [auto|rewrite (Hfull _ _ He); reflexivity].
Qed.

Lemma normalize_index_eq ix sh :
  normalize_index ix sh =
  (ix2 <- expand_pv (map pv_of ix) sh ;; l <- entries_pv ix2 sh ;; map_res nentry_of l).
Proof.
  unfold normalize_index, normalize_index_pv. destruct (expand_pv (map pv_of ix) sh); reflexivity.
Qed.

Theorem normalize_link sh ix :
  shape_okb sh = true -> no_zero_step ix = true -> d29_clause sh ix = true ->
  (exists ex, expand (Z.of_nat (length sh)) ix = Ok ex /\ fits ex sh = true /\ all_ok ex sh = true
              /\ normalize_index ix sh = Ok (norm_all ex sh)
              /\ resolve_all sh ix = Ok (map to_r (norm_all ex sh)))
  \/ (normalize_index ix sh = Raise IndexError /\ resolve_all sh ix = Raise IndexError).
Proof.
  intros Hsh Hz Hd. rewrite normalize_index_eq, expand_link. unfold resolve_all, d29_clause in *.
  destruct (expand (Z.of_nat (length sh)) ix) as [ex|e] eqn:E.
  - pose proof (expand_fits ix sh ex E) as Hf. pose proof (expand_nzs _ _ _ E Hz) as Hz'.
    cbn [bind]. rewrite (entries_link ex sh Hf Hsh Hz'), (resolve_link ex sh Hf Hsh Hz' Hd).
    destruct (all_ok ex sh) eqn:Ea; [left|right; split; reflexivity].
    exists ex. repeat split; auto.
  - right. split; [reflexivity|]. cbn [bind].
    unfold expand in E. destruct (1 <? countb is_ell ix); [inversion E; reflexivity|].
    destruct (Z.of_nat (length sh) - countb consumes ix <? 0); [inversion E; reflexivity|discriminate].
Qed.

(* check_index_spec: the code rejects an index with IndexError exactly when NumPy does (and raises nothing else) *)
Theorem check_index_spec_proof sh ix :
  shape_okb sh = true -> no_zero_step ix = true -> d29_clause sh ix = true ->
  (normalize_index ix sh = Raise IndexError <-> resolve_all sh ix = Raise IndexError)
  /\ (forall e, normalize_index ix sh = Raise e -> e = IndexError)
  /\ (forall e, resolve_all sh ix = Raise e -> e = IndexError).
Proof.
  intros Hsh Hz Hd. destruct (normalize_link sh ix Hsh Hz Hd) as [[ex [_ [_ [_ [Hn Hr]]]]]|[Hn Hr]];
    rewrite Hn, Hr; repeat split; intros; try discriminate; try congruence.
Qed.

(* the statement without the D29 clause is false of the code: x of shape (1,), x[np.array([], dtype=bool)] *)
Theorem check_index_refuted_proof :
  exists sh ix, shape_okb sh = true /\ no_zero_step ix = true /\
    normalize_index ix sh = Raise IndexError /\ resolve_all sh ix <> Raise IndexError.
Proof. exists [1], [IBArr []]. repeat split. vm_compute. discriminate. Qed.

Example check_index_nonvacuous :
  shape_okb [2; 3] = true /\ no_zero_step [IInt (-1); IArr [3]] = true /\ d29_clause [2; 3] [IInt (-1); IArr [3]] = true
  /\ normalize_index [IInt (-1); IArr [3]] [2; 3] = Raise IndexError
  /\ normalize_index [IInt (-1); IArr [-3]] [2; 3] = Ok [NInt 1; NArr [0]].
Proof. repeat split. Qed.
