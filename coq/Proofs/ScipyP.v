(* Proofs/ScipyP.v — C05, part 5: the scipy.sparse hops.  Over the model of Model/ScipyConv.v:
   building a GCXS/CSR/CSC from a csr/csc matrix (canonical or not) gives a well-formed array whose
   elements are the sums of the values given for each position; GCXS -> scipy -> GCXS and
   COO -> scipy -> COO are the identity. *)
From Coq Require Import ZArith List Bool Lia Sorting.Sorted Sorting.Permutation.
From Verif Require Import Py Shape COO GCXS COOP S_convert S_scipyconv Convert ScipyConv ConvertL ConvertM ConvertG ConvertP ConvertU.
Import ListNotations.
Open Scope Z_scope.

(* ------------------------------------------------------------------ row numbers of a valid index pointer *)
Lemma indptr_rows_facts indptr rs nnz :
  Z.of_nat (length indptr) = rs + 1 -> znth indptr 0 (-1) = 0 -> znth indptr rs (-1) = nnz ->
  StronglySorted Z.le indptr -> 0 <= rs ->
  Z.of_nat (length (row_numbers indptr)) = nnz /\ Forall (fun r => 0 <= r < rs) (row_numbers indptr).
Proof.
  intros Hl H0 Hlast Hs Hr.
  destruct indptr as [|a t] eqn:Ei; [simpl in Hl; lia|].
  assert (a = 0) by (unfold znth in H0; simpl in H0; exact H0). subst a.
  assert (Hlt : length t = Z.to_nat rs) by (simpl in Hl; lia).
  assert (Hf : 0 :: t = 0 :: cumsum_from 0 (diffs (0 :: t))) by (symmetry; apply cumsum_diffs).
  assert (Hn : Forall (fun x => 0 <= x) (diffs (0 :: t))) by (apply diffs_nonneg; exact Hs).
  assert (Hrows : row_numbers (0 :: t) = rowsL 0 (diffs (0 :: t))).
  { rewrite row_numbers_eq. rewrite Hf at 1. apply (row_numbers_go_cumsum (diffs (0 :: t)) 0%nat 0). }
  rewrite Hrows. split.
  - rewrite rowsL_length by exact Hn.
    pose proof (cumsum_last (diffs (0 :: t)) 0 (-1)) as Hc. rewrite cumsum_diffs, diffs_length in Hc.
    unfold znth in Hlast. rewrite <- Hlt in Hlast. rewrite Hlast in Hc. lia.
  - apply Forall_forall. intros x Hx. apply rowsL_range in Hx. rewrite diffs_length, Hlt in Hx. lia.
Qed.

Lemma SS_lexlt2_NoDup l : StronglySorted lexlt2 l -> NoDup l.
Proof.
  induction 1 as [|a l Hs IH Hall]; constructor; [|assumption].
  intros Hin. rewrite Forall_forall in Hall. specialize (Hall _ Hin). unfold lexlt2 in Hall. lia.
Qed.

Section ScipyProofs.
  Variable V : Type.
  Variable veqb : V -> V -> bool.
  Variable add : V -> V -> V.
  Variable zero : V.
  Hypothesis veqb_eq : forall a b, veqb a b = true <-> a = b.

  Notation entry := (idx * V)%type.

  (* the meaning scipy gives a csr/csc matrix: the sum of the values stored for a position, 0 elsewhere *)
  Definition sc_meaning (m : scs V) (ix : idx) : V :=
    match sum_list V add (dup_vals V (combine (sc_coords m) (sc_data m)) ix) with Some s => s | None => zero end.

  (* a COO without repeated coordinates: the summed meaning is the stored value *)
  Lemma dup_vals_cons k v (r : list entry) ix :
    dup_vals V ((k, v) :: r) ix = if idx_eqb k ix then v :: dup_vals V r ix else dup_vals V r ix.
  Proof. unfold dup_vals. simpl. destruct (idx_eqb k ix); reflexivity. Qed.

  Lemma dup_vals_nodup (es : list entry) ix :
    NoDup (map fst es) ->
    dup_vals V es ix = match lookup es ix with Some v => [v] | None => [] end.
  Proof.
    induction es as [|[k v] r IH]; intros Hnd; [reflexivity|].
    inversion Hnd as [|? ? Hk Hnd']; subst. rewrite dup_vals_cons, IH by assumption. simpl lookup.
    destruct (idx_eqb k ix) eqn:E.
    - apply idx_eqb_eq in E. subst k. rewrite lookup_notin by exact Hk. reflexivity.
    - destruct (lookup r ix); reflexivity.
  Qed.

  Lemma den_nodup_meaning sh coords (data : list V) fill ix :
    NoDup coords -> length coords = length data ->
    den (mkCOO sh coords data fill) ix
    = match sum_list V add (dup_vals V (combine coords data) ix) with Some s => s | None => fill end.
  Proof.
    intros Hnd Hl. unfold den, entries. cbn [c_coords c_data c_fill].
    rewrite dup_vals_nodup by (rewrite map_fst_combine by exact Hl; exact Hnd).
    destruct (lookup (combine coords data) ix); reflexivity.
  Qed.

  (* ---- what sc_structb gives *)
  Lemma struct_elim (m : scs V) :
    sc_structb m = true ->
    exists d0 d1, sc_shape m = [d0; d1] /\ 0 <= d0 /\ 0 <= d1
    /\ (sc_axis m = 0 \/ sc_axis m = 1)
    /\ length (sc_indices m) = length (sc_data m)
    /\ Z.of_nat (length (sc_indptr m)) = row_size (sc_shape m) [sc_axis m] + 1
    /\ znth (sc_indptr m) 0 (-1) = 0
    /\ znth (sc_indptr m) (row_size (sc_shape m) [sc_axis m]) (-1) = Z.of_nat (length (sc_data m))
    /\ StronglySorted Z.le (sc_indptr m)
    /\ Forall (fun i => 0 <= i < col_size (sc_shape m) [sc_axis m]) (sc_indices m).
  Proof.
    unfold sc_structb. rewrite !andb_true_iff. intros [[[[[[[H1 H2] H3] H4] H5] H6] H7] H8].
    apply Nat.eqb_eq in H1. destruct (sc_shape m) as [|d0 [|d1 [|d2 t]]] eqn:E; simpl in H1; try discriminate.
    exists d0, d1. apply shape_okb_spec in H2. inversion H2 as [|? ? A0 H2']; subst. inversion H2' as [|? ? A1 _]; subst.
    repeat split; auto.
    - unfold sc_axis, S_scipyconv.s_from_scipy_axis. destruct (sc_csc m); auto.
    - apply Nat.eqb_eq. exact H3.
    - apply Z.eqb_eq. exact H4.
    - apply Z.eqb_eq. exact H5.
    - apply Z.eqb_eq. exact H6.
    - apply nondecreasing_SS. exact H7.
    - apply Forall_forall. intros i Hi. rewrite forallb_forall in H8. specialize (H8 _ Hi).
      apply andb_true_iff in H8. destruct H8 as [A B]. apply Z.leb_le in A. apply Z.ltb_lt in B. lia.
  Qed.

  Lemma axis_csc (m : scs V) : (sc_axis m = 0 /\ sc_csc m = false) \/ (sc_axis m = 1 /\ sc_csc m = true).
  Proof. unfold sc_axis, S_scipyconv.s_from_scipy_axis. destruct (sc_csc m); auto. Qed.

  Lemma sizes_2d d0 d1 :
    row_size [d0; d1] [0] = d0 /\ col_size [d0; d1] [0] = d1 /\ row_size [d0; d1] [1] = d1 /\ col_size [d0; d1] [1] = d0.
  Proof.
    repeat split.
    - change (row_size [d0; d1] [0]) with (d0 * 1). lia.
    - change (col_size [d0; d1] [0]) with (d1 * 1). lia.
    - change (row_size [d0; d1] [1]) with (d1 * 1). lia.
    - change (col_size [d0; d1] [1]) with (d0 * 1). lia.
  Qed.

  (* the stored positions are in range *)
  Lemma sc_coords_facts (m : scs V) :
    sc_structb m = true ->
    Forall (in_range (sc_shape m)) (sc_coords m) /\ length (sc_coords m) = length (sc_data m).
  Proof.
    intros Hs. destruct (struct_elim m Hs) as [d0 [d1 [Esh [A0 [A1 [Hax [Hl [Hpl [Hp0 [Hplast [Hps Hcols]]]]]]]]]]].
    assert (Hrs : 0 <= row_size (sc_shape m) [sc_axis m]).
    { rewrite Esh. destruct (sizes_2d d0 d1) as [S1 [S2 [S3 S4]]]. destruct Hax as [-> | ->]; lia. }
    destruct (indptr_rows_facts _ _ _ Hpl Hp0 Hplast Hps Hrs) as [Hrl Hrr].
    split.
    - unfold sc_coords. rewrite Forall_map. apply Forall_forall. intros [r c] Hrc.
      pose proof (in_combine_l _ _ _ _ Hrc) as H1. pose proof (in_combine_r _ _ _ _ Hrc) as H2.
      rewrite Forall_forall in Hrr, Hcols. specialize (Hrr _ H1). specialize (Hcols _ H2).
      rewrite Esh in *. destruct (sizes_2d d0 d1) as [S1 [S2 [S3 S4]]].
      destruct (axis_csc m) as [[Ea Ec]|[Ea Ec]]; rewrite Ea in *; rewrite Ec; simpl; lia.
    - unfold sc_coords. rewrite map_length, combine_length. lia.
  Qed.

  (* ---- canonical input: the arrays are stored as they are *)
  Lemma canonical_wf (m : scs V) :
    sc_structb m = true -> sc_canonicalb m = true -> gcxs_wfb (sc_as_gcxs zero m) = true.
  Proof.
    intros Hs Hc. destruct (struct_elim m Hs) as [d0 [d1 [Esh [A0 [A1 [Hax [Hl [Hpl [Hp0 [Hplast [Hps Hcols]]]]]]]]]]].
    unfold sc_as_gcxs. apply gcxs_wfb_nd_intro.
    - rewrite Esh. simpl. lia.
    - rewrite Esh. simpl. rewrite !andb_true_iff. repeat split; apply Z.leb_le; assumption.
    - apply Nat.eqb_eq. exact Hl.
    - reflexivity.
    - rewrite Esh. destruct Hax as [-> | ->]; reflexivity.
    - rewrite Esh. reflexivity.
    - reflexivity.
    - apply Z.eqb_eq. exact Hpl.
    - apply Z.eqb_eq. exact Hp0.
    - apply Z.eqb_eq. exact Hplast.
    - apply nondecreasing_SS. exact Hps.
    - apply forallb_forall. intros i Hi. rewrite Forall_forall in Hcols. specialize (Hcols _ Hi).
      apply andb_true_iff. split; [apply Z.leb_le|apply Z.ltb_lt]; lia.
    - exact Hc.
  Qed.

  Lemma unkey_2d d0 d1 a r c :
    (a = 0 \/ a = 1) -> 0 <= r < row_size [d0; d1] [a] -> 0 <= c < col_size [d0; d1] [a] ->
    unkey [d0; d1] [a] (r * col_size [d0; d1] [a] + c) = if a =? 0 then [r; c] else [c; r].
  Proof.
    intros Ha Hr Hc. destruct (sizes_2d d0 d1) as [S1 [S2 [S3 S4]]].
    assert (Hun : forall x y, 0 <= c < y -> unravel [x; y] (r * y + c) = [r; c]).
    { intros x y Hy. simpl. rewrite Z.mul_1_r, Z.div_1_r.
      rewrite Z.add_comm, Z.div_add, Z.mod_add by lia. rewrite Z.div_small, Z.mod_small by lia.
      rewrite Z.add_0_l. reflexivity. }
    destruct Ha as [-> | ->]; unfold unkey.
    - rewrite S2 in *. change (reordered_shape [d0; d1] [0]) with [d0; d1].
      change (axis_order (Z.of_nat (length [d0; d1])) [0]) with [0; 1].
      rewrite Hun by lia. reflexivity.
    - rewrite S4 in *. change (reordered_shape [d0; d1] [1]) with [d1; d0].
      change (axis_order (Z.of_nat (length [d0; d1])) [1]) with [1; 0].
      rewrite Hun by lia. reflexivity.
  Qed.

  Lemma canonical_coords (m : scs V) :
    sc_structb m = true -> sc_canonicalb m = true ->
    gcxs_coords (sc_as_gcxs zero m) = sc_coords m /\ NoDup (sc_coords m).
  Proof.
    intros Hs Hc. pose proof (canonical_wf m Hs Hc) as Hwf.
    destruct (struct_elim m Hs) as [d0 [d1 [Esh [A0 [A1 [Hax [Hl [Hpl [Hp0 [Hplast [Hps Hcols]]]]]]]]]]].
    assert (Hnd : (2 <= length (sc_shape m))%nat) by (rewrite Esh; simpl; lia).
    unfold sc_as_gcxs in *.
    pose proof (rows_idx_lex V (sc_shape m) [sc_axis m] (sc_data m) (sc_indices m) (sc_indptr m) zero Hnd Hwf) as Hlex.
    pose proof (rows_rng V (sc_shape m) [sc_axis m] (sc_data m) (sc_indices m) (sc_indptr m) zero Hnd Hwf) as Hrr.
    assert (Hmap : forall rc, In rc (combine (row_numbers (sc_indptr m)) (sc_indices m)) ->
              unpermute (axis_order (Z.of_nat (length (sc_shape m))) [sc_axis m])
                (unravel (reordered_shape (sc_shape m) [sc_axis m]) (fst rc * col_size (sc_shape m) [sc_axis m] + snd rc))
              = (if sc_csc m then [snd rc; fst rc] else [fst rc; snd rc])).
    { intros [r c] Hrc. pose proof (in_combine_l _ _ _ _ Hrc) as H1. pose proof (in_combine_r _ _ _ _ Hrc) as H2.
      rewrite Forall_forall in Hrr, Hcols. specialize (Hrr _ H1). specialize (Hcols _ H2). cbn [fst snd].
      rewrite Esh in *. pose proof (unkey_2d d0 d1 (sc_axis m) r c Hax Hrr Hcols) as Hu. unfold unkey in Hu. rewrite Hu.
      destruct (axis_csc m) as [[Ea Ec]|[Ea Ec]]; rewrite Ea, Ec; reflexivity. }
    split.
    - rewrite gcxs_coords_nd by exact Hnd. unfold sc_coords. apply map_ext_in. exact Hmap.
    - unfold sc_coords. apply NoDup_map_in; [|apply SS_lexlt2_NoDup; exact Hlex].
      intros [r1 c1] [r2 c2] _ _. destruct (sc_csc m); intros E; inversion E; reflexivity.
  Qed.

  (* ---- (2) a GCXS / CSR / CSC built from a csr/csc matrix, canonical or not *)
  Theorem from_scipy_correct_proof (m : scs V) :
    sc_structb m = true ->
    let g := gcxs_from_scipy veqb add zero m in
    gcxs_wfb g = true /\ g_shape g = sc_shape m /\ g_caxes g = [sc_axis m] /\ g_fill g = zero
    /\ forall ix, in_range (sc_shape m) ix -> gden g ix = sc_meaning m ix.
  Proof.
    intros Hs. cbv zeta. unfold gcxs_from_scipy, canonical_scipy.
    destruct (sc_coords_facts m Hs) as [Hr Hlen].
    destruct (struct_elim m Hs) as [d0 [d1 [Esh [A0 [A1 [Hax _]]]]]].
    destruct (S_scipyconv.s_canonical_scipy_recanon (sc_canonicalb m)) eqn:Erec.
    - (* re-canonicalised: the compressed form of the summed COO *)
      destruct (coo_make_den_proof V veqb add (sc_shape m) (sc_coords m) (sc_data m) zero Hr (eq_sym Hlen))
        as [Hc [Hsh [Hf Hden]]].
      set (c := coo_make veqb add false true false (sc_shape m) (sc_coords m) (sc_data m) zero) in *.
      assert (Hok : shape_ok (c_shape c)) by (rewrite Hsh, Esh; repeat constructor; assumption).
      assert (Hnd : (2 <= length (c_shape c))%nat) by (rewrite Hsh, Esh; simpl; lia).
      assert (Hca : caxes_okb (Z.of_nat (length (c_shape c))) [sc_axis m] = true)
        by (rewrite Hsh, Esh; destruct Hax as [-> | ->]; reflexivity).
      assert (Eg : sc_as_gcxs zero (sc_sum_duplicates veqb add zero m) = gcxs_from_coo c [sc_axis m]).
      { unfold sc_as_gcxs, sc_sum_duplicates. fold c. cbn [sc_shape sc_data sc_indices sc_indptr sc_csc sc_axis].
        rewrite (from_coo_nf V c [sc_axis m] Hok Hca Hnd). cbn [g_data g_indices g_indptr]. rewrite Hsh, Hf. reflexivity. }
      rewrite Eg. split; [apply (gcxs_from_coo_wf_proof V veqb add); [exact Hc|exact Hok|right; exact Hca]|].
      split; [rewrite from_coo_shape; exact Hsh|].
      split; [rewrite (from_coo_nf V c [sc_axis m] Hok Hca Hnd); reflexivity|].
      split; [rewrite (from_coo_nf V c [sc_axis m] Hok Hca Hnd); exact Hf|].
      intros ix Hix. rewrite (gcxs_from_coo_den_proof V veqb add) by (try exact Hc; try exact Hok; right; exact Hca).
      apply Hden. exact Hix.
    - (* already canonical: the arrays as they are *)
      assert (Hcan : sc_canonicalb m = true).
      { unfold S_scipyconv.s_canonical_scipy_recanon in Erec. destruct (sc_canonicalb m); [reflexivity|discriminate]. }
      destruct (canonical_coords m Hs Hcan) as [Hco Hnd].
      split; [apply canonical_wf; assumption|]. split; [reflexivity|]. split; [reflexivity|]. split; [reflexivity|].
      intros ix _. unfold gden, gcxs_as_coo. rewrite Hco. cbn [sc_as_gcxs g_shape g_data g_fill].
      apply den_nodup_meaning; assumption.
  Qed.

  (* ---- the scipy operand is never modified (the in-place canonicalisation runs on a copy) *)
  Theorem scipy_operand_unchanged_proof (m : scs V) : scipy_operand_after veqb add zero m = m.
  Proof.
    unfold scipy_operand_after, S_scipyconv.s_canonical_scipy_copies_first. cbn [negb].
    rewrite andb_false_r. reflexivity.
  Qed.

  (* ---- GCXS -> scipy -> GCXS *)
  Theorem gcxs_scipy_roundtrip_proof (g : gcxs V) d0 d1 a :
    gcxs_wfb g = true -> g_shape g = [d0; d1] -> g_caxes g = [a] -> (a = 0 \/ a = 1) -> g_fill g = zero ->
    exists m, gcxs_to_scipy veqb zero g = Ok m /\ sc_structb m = true /\ gcxs_from_scipy veqb add zero m = g.
  Proof.
    intros Hwf Hsh Hca Ha Hf. destruct g as [sh ca data indices indptr fill]. cbn [g_shape g_caxes g_fill] in *. subst sh ca fill.
    assert (Hnd : (2 <= length [d0; d1])%nat) by (simpl; lia).
    destruct (gcxs_wfb_nd_elim V [d0; d1] [a] data indices indptr zero Hnd Hwf)
      as [Hok [Hl [Hcax [Hpl [Hp0 [Hplast [Hps [Hcols Hrows]]]]]]]].
    unfold gcxs_to_scipy. cbn [g_fill g_shape g_caxes g_data g_indices g_indptr].
    replace (veqb zero zero) with true by (symmetry; apply veqb_eq; reflexivity). cbn [negb].
    eexists. split; [reflexivity|].
    set (m := mkSCS (negb (S_scipyconv.s_to_scipy_is_csr (mem_z 0 [a]))) [d0; d1] data indices indptr).
    assert (Hax : sc_axis m = a).
    { unfold sc_axis, m, S_scipyconv.s_from_scipy_axis, S_scipyconv.s_to_scipy_is_csr. cbn [sc_csc]. destruct Ha as [-> | ->]; reflexivity. }
    assert (Hstruct : sc_structb m = true).
    { unfold sc_structb. rewrite Hax. unfold m. cbn [sc_shape sc_data sc_indices sc_indptr].
      rewrite !andb_true_iff. repeat split.
      - apply shape_okb_spec. exact Hok.
      - apply Nat.eqb_eq. exact Hl.
      - apply Z.eqb_eq. exact Hpl.
      - apply Z.eqb_eq. exact Hp0.
      - apply Z.eqb_eq. exact Hplast.
      - apply nondecreasing_SS. exact Hps.
      - apply forallb_forall. intros i Hi. rewrite Forall_forall in Hcols. specialize (Hcols _ Hi).
        apply andb_true_iff. split; [apply Z.leb_le|apply Z.ltb_lt]; lia. }
    split; [exact Hstruct|].
    unfold gcxs_from_scipy, canonical_scipy.
    assert (Hcan : sc_canonicalb m = true) by exact Hrows.
    rewrite Hcan. unfold S_scipyconv.s_canonical_scipy_recanon. cbn [negb].
    unfold sc_as_gcxs. rewrite Hax. reflexivity.
  Qed.

  (* ---- COO <-> coo_matrix *)
  Theorem coo_scipy_roundtrip_proof (c : coo V) d0 d1 :
    canonical V c -> c_shape c = [d0; d1] -> c_fill c = zero ->
    exists flag sh coords data,
      coo_to_scipy veqb zero c = Ok (flag, sh, coords, data) /\ coo_from_scipy veqb add zero flag sh coords data = c.
  Proof.
    intros Hc Hsh Hf. unfold coo_to_scipy. rewrite Hf, Hsh.
    replace (veqb zero zero) with true by (symmetry; apply veqb_eq; reflexivity). cbn [negb].
    do 4 eexists. split; [reflexivity|].
    unfold coo_from_scipy, S_scipyconv.s_coo_to_scipy_flag, S_scipyconv.s_coo_from_scipy_sorted, S_scipyconv.s_coo_from_scipy_hasdup. cbn [negb].
    rewrite <- Hsh, <- Hf. apply coo_make_canonical_id. exact Hc.
  Qed.

  (* a coo_matrix that is not flagged canonical (any order, repeated positions): summed *)
  Theorem coo_from_scipy_den_proof sh coords (data : list V) :
    Forall (in_range sh) coords -> length data = length coords ->
    let r := coo_from_scipy veqb add zero false sh coords data in
    canonical V r /\ c_shape r = sh /\ c_fill r = zero /\
    forall ix, in_range sh ix ->
      den r ix = match sum_list V add (dup_vals V (combine coords data) ix) with Some s => s | None => zero end.
  Proof.
    intros Hr Hl. unfold coo_from_scipy, S_scipyconv.s_coo_from_scipy_sorted, S_scipyconv.s_coo_from_scipy_hasdup. cbn [negb].
    apply coo_make_den_proof; assumption.
  Qed.
End ScipyProofs.

(* ================================================================ witnesses (V = Z) *)
(* csr_matrix((data, indices, indptr), shape=(2, 3)) with unsorted indices and a repeated position (0, 2) *)
Definition ex_m : scs Z := mkSCS false [2; 3] [1; 2; 3; 4] [2; 0; 2; 1] [0; 3; 4].

Lemma ex_scipy :
  sc_structb ex_m = true /\ sc_canonicalb ex_m = false /\
  gcxs_from_scipy Z.eqb Z.add 0 ex_m = mkGCXS [2; 3] [0] [2; 4; 4] [0; 2; 1] [0; 2; 3] 0 /\
  gcxs_strictb Z (gcxs_from_scipy Z.eqb Z.add 0 ex_m) = true /\
  gcxs_to_scipy Z.eqb 0 (gcxs_from_coo ex_c [1]) = Ok (mkSCS true [2; 3] [7; 5; 9] [1; 0; 1] [0; 1; 2; 3]) /\
  gcxs_from_scipy Z.eqb Z.add 0 (mkSCS true [2; 3] [7; 5; 9] [1; 0; 1] [0; 1; 2; 3]) = gcxs_from_coo ex_c [1].
Proof. repeat split; vm_compute; reflexivity. Qed.
