(* Proofs/CooIndexP.v — part 3 of the COO indexing proofs: getitem of Model/CooIndex.v against
   Spec/NpIndex.v.  For a canonical array and an index with at most one 1-D index array, whatever
   cut-over positions the cost heuristic of _compute_mask picks: the result has NumPy's shape, keeps
   the fill value, is canonical (the `sorted` flag handed to the constructor is justified), and
   den (x[ix]) j = den x (NumPy's source index of j). *)
From Coq Require Import ZArith List Bool Lia ZifyBool Sorting.Sorted Sorting.Permutation.
From Verif Require Import Py PyExt PyIndex G_slicing S_indexing PySlice Slicing SlicingP Shape COO COOP
     NpIndex CooIndex CooIndexMaskP CooIndexNormP.
Import ListNotations.
Open Scope Z_scope.

(* ================================================================ what a normalised index looks like *)

Lemma slice_selects_range a b c d l :
  0 <= d -> slice_selects a b c d = Some l -> forall x, In x l -> 0 <= x < d.
Proof.
  intros Hd H x Hx. unfold slice_selects, slice_indices in H.
  set (st := match c with Some s => s | None => 1 end) in *.
  destruct (Z.eqb_spec st 0) as [|Hst]; [discriminate|]. inversion H; subst l. clear H.
  apply in_row_In in Hx; [|assumption]. unfold in_row in Hx.
  apply andb_true_iff in Hx. destruct Hx as [_ Hx]. unfold adjust in Hx.
  destruct (Z.ltb_spec st 0) as [Hneg|Hpos].
  - destruct a as [a|]; destruct b as [b|];
      repeat match goal with
      | H : context [if ?u <? ?w then _ else _] |- _ => destruct (Z.ltb_spec u w)
      end; lia.
  - destruct a as [a|]; destruct b as [b|];
      repeat match goal with
      | H : context [if ?u <? ?w then _ else _] |- _ => destruct (Z.ltb_spec u w)
      end; lia.
Qed.

Fixpoint nwf (nix : list nentry) (sh : shape) : Prop :=
  match nix with
  | [] => sh = []
  | NNone :: r => nwf r sh
  | NInt i :: r => match sh with d :: sh' => 0 <= i < d /\ nwf r sh' | [] => False end
  | NSlice s e st :: r =>
    match sh with
    | d :: sh' => st <> 0 /\ (forall c, In c (range_list s e st) -> 0 <= c < d) /\ nwf r sh'
    | [] => False
    end
  | NArr l :: r => match sh with d :: sh' => (forall c, In c l -> 0 <= c < d) /\ nwf r sh' | [] => False end
  end.

Lemma nonzero_from_range k l x : In x (nonzero_from k l) -> k <= x < k + Z.of_nat (length l).
Proof.
  revert k. induction l as [|b l IH]; intros k; simpl; [tauto|]. rewrite in_app_iff. intros [H|H].
  - destruct b; [destruct H as [<-|[]]; lia|destruct H].
  - apply IH in H. lia.
Qed.

Lemma in_bounds_wrap d z : 0 <= d -> in_bounds d z = true -> 0 <= wrap d z < d.
Proof. unfold in_bounds, wrap. intros Hd H. destruct (Z.ltb_spec z 0); lia. Qed.

Lemma norm_all_nwf ex sh :
  fits ex sh = true -> all_ok ex sh = true -> shape_okb sh = true -> no_zero_step ex = true ->
  nwf (norm_all ex sh) sh.
Proof.
  revert sh. induction ex as [|e r IH]; intros sh Hf Ha Hsh Hz.
  - destruct sh; [reflexivity|discriminate].
  - simpl in Hz. apply andb_true_iff in Hz. destruct Hz as [Hze Hz].
    destruct e; try discriminate.
    + destruct sh as [|d sh']; [discriminate|]. simpl in Hsh, Ha, Hf. apply andb_true_iff in Hsh, Ha.
      destruct Hsh as [Hd Hsh], Ha as [Ha1 Ha2]. cbn [norm_all nentry_spec nwf]. split; [apply in_bounds_wrap; [lia|assumption]|auto].
    + destruct sh as [|d sh']; [discriminate|]. simpl in Hsh, Ha, Hf. apply andb_true_iff in Hsh.
      destruct Hsh as [Hd Hsh]. assert (Hc : c <> Some 0) by (intros ->; discriminate).
      destruct (normalize_slice_ok a b c d ltac:(lia) Hc) as [s [e' [st [En [Hst Hsel]]]]].
      cbn [norm_all nentry_spec]. unfold nslice_of. rewrite En. cbn [nwf]. split; [assumption|]. split; [|auto].
      apply (slice_selects_range a b c d); [lia|assumption].
    + cbn [norm_all nwf]. simpl in Hf, Ha. auto.
    + destruct sh as [|d sh']; [discriminate|]. simpl in Hsh, Ha, Hf. apply andb_true_iff in Hsh, Ha.
      destruct Hsh as [Hd Hsh], Ha as [Ha1 Ha2]. cbn [norm_all nentry_spec nwf]. split; [|auto].
      intros x Hx. apply in_map_iff in Hx. destruct Hx as [z [<- Hz']]. rewrite forallb_forall in Ha1.
      apply in_bounds_wrap; [lia|auto].
    + destruct sh as [|d sh']; [discriminate|]. simpl in Hsh, Ha, Hf. apply andb_true_iff in Hsh, Ha.
      destruct Hsh as [Hd Hsh], Ha as [Ha1 Ha2]. cbn [norm_all nentry_spec nwf]. split; [|auto].
      intros x Hx. rewrite (map_wrap_nonneg d) in Hx by (apply nonzero_from_nonneg; lia).
      apply nonzero_from_range in Hx. apply Z.eqb_eq in Ha1. lia.
Qed.

(* ================================================================ selected elements <-> result indices *)

(* element with coordinates t is selected, with coordinate a along the index-array axis *)
Fixpoint matches (nix : list nentry) (t : idx) (a : Z) : bool :=
  match nix with
  | [] => match t with [] => true | _ => false end
  | NNone :: r => matches r t a
  | NInt i :: r => match t with c :: t' => (c =? i) && matches r t' a | [] => false end
  | NSlice s e st :: r => match t with c :: t' => in_row s e st c && matches r t' a | [] => false end
  | NArr l :: r =>
    match t with
    | c :: t' => (0 <=? a) && (a <? Z.of_nat (length l)) && (zat l a =? c) && matches r t' a
    | [] => false
    end
  end.

(* the coordinate of a result index along the index-array axis *)
Fixpoint advc (nix : list nentry) (j : idx) : Z :=
  match nix with
  | [] => 0
  | NInt _ :: r => advc r j
  | NSlice _ _ _ :: r => advc r (tl j)
  | NNone :: r => advc r (tl j)
  | NArr _ :: r => hd 0 j
  end.

Definition n_arr (nix : list nentry) : nat := length (filter is_narr nix).
Definition opt_a (seen : bool) (a : Z) : option Z := if seen then Some a else None.

(* all index arrays of the normalised index have one length *)
Definition arrs_ok (nix : list nentry) : Prop :=
  forall l l', In (NArr l) nix -> In (NArr l') nix -> length l = length l'.

Lemma arrs_ok_tail e r : arrs_ok (e :: r) -> arrs_ok r.
Proof. intros H l l' Hl Hl'. apply H; right; assumption. Qed.

Lemma zat_range_list s e st q :
  st <> 0 -> 0 <= q < Z.of_nat (length (range_list s e st)) -> zat (range_list s e st) q = s + q * st.
Proof. intros Hst Hq. apply range_list_zat. rewrite range_list_length in Hq. pose proof (range_len_nonneg s e st Hst). lia. Qed.

Lemma len_range_list s e st : st <> 0 -> Z.of_nat (length (range_list s e st)) = range_len s e st.
Proof. intros Hst. rewrite range_list_length. pose proof (range_len_nonneg s e st Hst). lia. Qed.

(* a selected element lands on an in-range result index whose NumPy source index is the element *)
Lemma build_src (nix : list nentry) : forall (sh : shape) (seen : bool) (t : idx) (a : Z),
  nwf nix sh -> matches nix t a = true ->
  in_range (out_shape_aux seen (map to_r nix)) (build nix seen t a)
  /\ src_aux (opt_a seen a) (map to_r nix) (build nix seen t a) = t.
Proof.
  induction nix as [|e r IH]; intros sh seen t a Hwf Hm.
  - destruct t; [|discriminate]. simpl. auto.
  - destruct e as [i|s e st| |l]; cbn [nwf matches] in Hwf, Hm.
    + destruct sh as [|d sh']; [contradiction|]. destruct Hwf as [Hi Hwf]. destruct t as [|c t']; [discriminate|].
      apply andb_true_iff in Hm. destruct Hm as [Hc Hm]. apply Z.eqb_eq in Hc. subst c.
      destruct (IH sh' seen t' a Hwf Hm) as [H1 H2]. cbn [map to_r out_shape_aux build src_aux tl]. split; [assumption|].
      rewrite H2. reflexivity.
    + destruct sh as [|d sh']; [contradiction|]. destruct Hwf as [Hst [Hr Hwf]]. destruct t as [|c t']; [discriminate|].
      apply andb_true_iff in Hm. destruct Hm as [Hc Hm].
      destruct (IH sh' seen t' a Hwf Hm) as [H1 H2].
      destruct (in_row_index s e st c Hst Hc) as [Hq Hcq].
      cbn [map to_r out_shape_aux build src_aux tl hd]. rewrite coord_map_spec by assumption.
      rewrite len_range_list by assumption. split; [cbn [in_range]; split; [lia|assumption]|].
      cbn [hd tl]. rewrite H2. rewrite zat_range_list by (rewrite ?len_range_list; assumption || lia). rewrite Hcq. reflexivity.
    + destruct (IH sh seen t a Hwf Hm) as [H1 H2].
      cbn [map to_r out_shape_aux build src_aux tl hd]. split; [cbn [in_range]; split; [lia|assumption]|]. exact H2.
    + destruct sh as [|d sh']; [contradiction|]. destruct Hwf as [Hl Hwf]. destruct t as [|c t']; [discriminate|].
      apply andb_true_iff in Hm. destruct Hm as [Hm1 Hm]. apply andb_true_iff in Hm1. destruct Hm1 as [Hm1 Hz].
      apply Z.eqb_eq in Hz.
      destruct (IH sh' true t' a Hwf Hm) as [H1 H2]. cbn [opt_a] in H2.
      destruct seen; cbn [map to_r out_shape_aux build src_aux tl hd opt_a].
      * split; [assumption|]. rewrite H2, Hz. reflexivity.
      * split; [cbn [in_range]; split; [lia|assumption]|]. rewrite H2, Hz. reflexivity.
Qed.

(* an in-range result index comes from exactly the element at its NumPy source index *)
Lemma src_build (nix : list nentry) : forall (sh : shape) (seen : bool) (j : idx) (a0 : Z),
  nwf nix sh -> arrs_ok nix ->
  (seen = true -> forall l, In (NArr l) nix -> 0 <= a0 < Z.of_nat (length l)) ->
  in_range (out_shape_aux seen (map to_r nix)) j ->
  let a := if seen then a0 else advc nix j in
  let t := src_aux (opt_a seen a0) (map to_r nix) j in
  matches nix t a = true /\ build nix seen t a = j /\ in_range sh t.
Proof.
  induction nix as [|e r IH]; intros sh seen j a0 Hwf Hn Hb Hj.
  - simpl in *. subst sh. destruct j; [|contradiction]. simpl. auto.
  - pose proof (arrs_ok_tail _ _ Hn) as Hn'.
    assert (Hb' : seen = true -> forall l, In (NArr l) r -> 0 <= a0 < Z.of_nat (length l))
      by (intros Hs l Hl; apply (Hb Hs); right; exact Hl).
    destruct e as [i|s e st| |l]; cbn [nwf] in Hwf.
    + destruct sh as [|d sh']; [contradiction|]. destruct Hwf as [Hi Hwf].
      cbn [map to_r out_shape_aux] in Hj. destruct (IH sh' seen j a0 Hwf Hn' Hb' Hj) as [H1 [H2 H3]].
      cbn [map to_r src_aux advc matches build tl in_range]. rewrite Z.eqb_refl. cbn [andb]. auto.
    + destruct sh as [|d sh']; [contradiction|]. destruct Hwf as [Hst [Hr Hwf]].
      cbn [map to_r out_shape_aux] in Hj. destruct j as [|q j']; [contradiction|]. cbn [in_range] in Hj. destruct Hj as [Hq Hj].
      rewrite len_range_list in Hq by assumption.
      destruct (IH sh' seen j' a0 Hwf Hn' Hb' Hj) as [H1 [H2 H3]].
      destruct (index_in_row s e st q Hst Hq) as [Hrow Hdiv].
      cbn [map to_r src_aux advc matches build tl hd in_range].
      rewrite zat_range_list by (rewrite ?len_range_list; assumption || lia).
      rewrite Hrow, coord_map_spec, Hdiv by assumption. cbn [andb]. split; [assumption|]. split; [rewrite H2; reflexivity|].
      split; [|assumption]. apply Hr. apply in_row_In; assumption.
    + cbn [map to_r out_shape_aux] in Hj. destruct j as [|q j']; [contradiction|]. cbn [in_range] in Hj. destruct Hj as [Hq Hj].
      destruct (IH sh seen j' a0 Hwf Hn' Hb' Hj) as [H1 [H2 H3]].
      cbn [map to_r src_aux advc matches build tl hd]. split; [assumption|]. split; [|assumption].
      rewrite H2. f_equal. lia.
    + destruct sh as [|d sh']; [contradiction|]. destruct Hwf as [Hl Hwf].
      destruct seen.
      * (* a later array: reads the shared coordinate a0 *)
        cbn [map to_r out_shape_aux] in Hj.
        destruct (IH sh' true j a0 Hwf Hn' Hb' Hj) as [H1 [H2 H3]]. cbn [opt_a] in H1, H2, H3.
        pose proof (Hb eq_refl l (or_introl eq_refl)) as Ha0.
        cbn [map to_r src_aux advc matches build tl hd opt_a in_range].
        rewrite H1, H2, Z.eqb_refl.
        destruct (Z.leb_spec 0 a0); [|lia]. destruct (Z.ltb_spec a0 (Z.of_nat (length l))); [|lia]. cbn [andb].
        split; [reflexivity|]. split; [reflexivity|]. split; [|assumption].
        apply Hl. unfold zat. apply nth_In. lia.
      * cbn [map to_r out_shape_aux] in Hj. destruct j as [|q j']; [contradiction|]. cbn [in_range] in Hj. destruct Hj as [Hq Hj].
        assert (Hbq : true = true -> forall l', In (NArr l') r -> 0 <= q < Z.of_nat (length l')).
        { intros _ l' Hl'. rewrite <- (Hn l l' (or_introl eq_refl) (or_intror Hl')). exact Hq. }
        destruct (IH sh' true j' q Hwf Hn' Hbq Hj) as [H1 [H2 H3]].
        cbn [map to_r src_aux advc matches build tl hd opt_a in_range]. cbn [opt_a] in H1, H2, H3.
        rewrite H1, H2, Z.eqb_refl.
        destruct (Z.leb_spec 0 q); [|lia]. destruct (Z.ltb_spec q (Z.of_nat (length l))); [|lia]. cbn [andb].
        split; [reflexivity|]. split; [reflexivity|]. split; [|assumption].
        apply Hl. unfold zat. apply nth_In. lia.
Qed.

Lemma advc_build (nix : list nentry) : forall (t : idx) (a : Z),
  (n_arr nix <> 0)%nat -> matches nix t a = true -> advc nix (build nix false t a) = a.
Proof.
  induction nix as [|e r IH]; intros t a Hn Hm; [unfold n_arr in Hn; simpl in Hn; lia|].
  destruct e as [i|s e st| |l]; cbn [matches] in Hm; unfold n_arr in *; cbn [filter is_narr length] in Hn.
  - destruct t as [|c t']; [discriminate|]. apply andb_true_iff in Hm. cbn [build advc tl]. apply IH; tauto.
  - destruct t as [|c t']; [discriminate|]. apply andb_true_iff in Hm. cbn [build advc tl]. apply IH; tauto.
  - cbn [build advc tl]. apply IH; assumption.
  - reflexivity.
Qed.

(* ================================================================ _prune_indices *)

(* dropping the trailing full slices, by recursion from the head *)
Fixpoint prune' (l : list nentry) (sh : shape) : list nentry :=
  match l, sh with
  | e :: l', d :: sh' =>
    match prune' l' sh' with
    | [] => if is_full e d then [] else [e]
    | r => e :: r
    end
  | _, _ => l
  end.

Lemma drop_full_snoc a : forall b e d, length a = length b ->
  drop_full (a ++ [e]) (b ++ [d]) =
  match drop_full a b with
  | [] => if is_full e d then [] else [e]
  | r => r ++ [e]
  end.
Proof.
  induction a as [|x a IH]; intros [|y b] e d Hlen; try discriminate.
  - simpl. destruct (is_full e d); reflexivity.
  - simpl in Hlen. cbn [app drop_full]. destruct (is_full x y); [apply IH; lia|reflexivity].
Qed.

Lemma prune_eq l : forall sh, length l = length sh -> rev (drop_full (rev l) (rev sh)) = prune' l sh.
Proof.
  induction l as [|e l IH]; intros [|d sh] Hlen; try discriminate; [reflexivity|].
  simpl in Hlen. cbn [rev prune']. rewrite drop_full_snoc by (rewrite !rev_length; lia).
  rewrite <- (IH sh) by lia.
  destruct (drop_full (rev l) (rev sh)) as [|x r]; [cbn [rev]; destruct (is_full e d); reflexivity|].
  rewrite rev_app_distr. cbn [rev app]. destruct (rev r ++ [x]) eqn:E; [destruct (rev r); discriminate|reflexivity].
Qed.

Definition not_none (e : nentry) : bool := negb (is_nnone e).

Lemma nwf_filter nix : forall sh, nwf nix sh -> nwf (filter not_none nix) sh.
Proof.
  induction nix as [|e r IH]; intros sh H; [exact H|].
  destruct e; cbn [filter not_none is_nnone negb nwf] in *.
  - destruct sh; [contradiction|]. destruct H. split; auto.
  - destruct sh; [contradiction|]. destruct H as [? [? ?]]. split; [assumption|split; [assumption|auto]].
  - auto.
  - destruct sh; [contradiction|]. destruct H. split; auto.
Qed.

Lemma nwf_length l : forall sh, nwf l sh -> forallb not_none l = true -> length l = length sh.
Proof.
  induction l as [|e r IH]; intros sh H Hn; [simpl in H; subst; reflexivity|].
  simpl in Hn. apply andb_true_iff in Hn. destruct Hn as [He Hn].
  destruct e; try discriminate; cbn [nwf] in H; destruct sh; try contradiction; simpl; f_equal; apply IH; tauto.
Qed.

Lemma filter_not_none_all nix : forallb not_none (filter not_none nix) = true.
Proof. apply forallb_forall. intros x Hx. apply filter_In in Hx. tauto. Qed.

Lemma prune_indices_eq nix sh : nwf nix sh -> prune_indices nix sh = prune' (filter not_none nix) sh.
Proof.
  intros H. unfold prune_indices. apply prune_eq. apply nwf_length; [apply nwf_filter; assumption|apply filter_not_none_all].
Qed.

Definition rows (l : list nentry) : list triple := flat_map triple_of l.
Definition no_arr (l : list nentry) : bool := forallb (fun e => negb (is_narr e)) l.

Lemma match1_int i c : match1 (i, i + 1, 1) c = (c =? i).
Proof.
  rewrite match1_spec by lia. unfold in_row. rewrite Z.mod_1_r.
  destruct (Z.eqb_spec c i); destruct (Z.leb_spec i c); destruct (Z.ltb_spec c (i + 1)); simpl; try reflexivity; lia.
Qed.

Lemma match1_full s e st d c :
  is_full (NSlice s e st) d = true -> 0 <= c < d -> match1 (s, e, st) c = true.
Proof.
  rewrite is_full_spec. intros H Hc.
  assert (Hst : st <> 0) by lia. rewrite match1_spec by assumption. unfold in_row.
  apply orb_true_iff in H. destruct H as [H|H].
  - assert (s = 0 /\ e = d /\ st = 1) as (-> & -> & ->) by lia. rewrite Z.mod_1_r. lia.
  - assert (s = d - 1 /\ e = -1 /\ st = -1) as (-> & -> & ->) by lia.
    replace ((c - (d - 1)) mod -1) with 0 by (symmetry; apply Z.mod_divide; [lia|]; exists (-(c - (d - 1))); lia). lia.
Qed.

(* rows of an array-free, None-free list against matches *)
Lemma rows_match l : forall sh t a,
  nwf l sh -> forallb not_none l = true -> no_arr l = true -> in_range sh t ->
  match_all (rows l) t = matches l t a.
Proof.
  induction l as [|e r IH]; intros sh t a Hwf Hn Ha Ht.
  - simpl in Hwf. subst sh. destruct t; [reflexivity|simpl in Ht; contradiction].
  - simpl in Hn, Ha. apply andb_true_iff in Hn, Ha. destruct Hn as [Hne Hn], Ha as [Hae Ha].
    destruct e as [i|s e st| |l]; try discriminate; cbn [nwf] in Hwf; destruct sh as [|d sh']; try contradiction;
      (destruct t as [|c t']; [simpl in Ht; contradiction|]); cbn [in_range] in Ht; destruct Ht as [_ Ht].
    + destruct Hwf as [_ Hwf]. cbn [rows flat_map triple_of app match_all matches].
      rewrite match1_int. f_equal. apply (IH sh'); assumption.
    + destruct Hwf as [Hst [_ Hwf]]. cbn [rows flat_map triple_of app match_all matches].
      rewrite match1_spec by assumption. f_equal. apply (IH sh'); assumption.
Qed.

Lemma rows_cons e l : rows (e :: l) = triple_of e ++ rows l.
Proof. reflexivity. Qed.

Lemma prune'_match l : forall sh t,
  nwf l sh -> forallb not_none l = true -> no_arr l = true -> in_range sh t ->
  match_all (rows (prune' l sh)) t = match_all (rows l) t.
Proof.
  induction l as [|e r IH]; intros sh t Hwf Hn Ha Ht; [destruct sh; reflexivity|].
  simpl in Hn, Ha. apply andb_true_iff in Hn, Ha. destruct Hn as [Hne Hn], Ha as [Hae Ha].
  assert (exists d sh', sh = d :: sh' /\ nwf r sh' /\ exists tr, triple_of e = [tr] /\
            (is_full e d = true -> forall c, 0 <= c < d -> match1 tr c = true)) as [d [sh' [-> [Hwf' [tr [Htr Hfull]]]]]].
  { destruct e as [i|s e st| |l]; try discriminate; cbn [nwf] in Hwf; destruct sh as [|d sh']; try contradiction.
    - exists d, sh'. split; [reflexivity|]. split; [tauto|]. exists (i, i + 1, 1). split; [reflexivity|]. discriminate.
    - exists d, sh'. split; [reflexivity|]. split; [tauto|]. exists (s, e, st). split; [reflexivity|].
      intros Hf c Hc. eapply match1_full; eauto. }
  destruct t as [|c t']; [simpl in Ht; contradiction|]. cbn [in_range] in Ht. destruct Ht as [Hc Ht].
  specialize (IH sh' t' Hwf' Hn Ha Ht).
  cbn [prune']. rewrite (rows_cons e r), Htr. cbn [app match_all].
  destruct (prune' r sh') as [|x r'] eqn:Ep.
  - cbn [rows flat_map match_all] in IH. rewrite <- IH.
    destruct (is_full e d) eqn:Ef.
    + cbn [rows flat_map match_all]. rewrite (Hfull eq_refl c Hc). reflexivity.
    + rewrite (rows_cons e []), Htr. cbn [app rows flat_map match_all]. destruct t'; rewrite andb_true_r; reflexivity.
  - rewrite (rows_cons e (x :: r')), Htr. cbn [app match_all]. rewrite IH. reflexivity.
Qed.

Lemma matches_filter nix : forall t a, matches (filter not_none nix) t a = matches nix t a.
Proof.
  induction nix as [|e r IH]; intros t a; [reflexivity|].
  destruct e; cbn [filter not_none is_nnone negb matches]; try (destruct t; [reflexivity|]); rewrite ?IH; reflexivity.
Qed.

Lemma no_arr_filter nix : no_arr nix = true -> no_arr (filter not_none nix) = true.
Proof.
  unfold no_arr. rewrite !forallb_forall. intros H x Hx. apply filter_In in Hx. apply H. tauto.
Qed.

Lemma prune'_no_arr l : forall sh, no_arr l = true -> no_arr (prune' l sh) = true.
Proof.
  induction l as [|e r IH]; intros sh H; [destruct sh; exact H|].
  simpl in H. apply andb_true_iff in H. destruct H as [He Hr]. destruct sh as [|d sh']; [simpl; rewrite He, Hr; reflexivity|].
  cbn [prune']. specialize (IH sh' Hr). destruct (prune' r sh') as [|x r'].
  - destruct (is_full e d); [reflexivity|simpl; rewrite He; reflexivity].
  - cbn [no_arr forallb] in *. rewrite He. exact IH.
Qed.

(* the rows handed to _compute_mask select exactly the matching elements (array-free index) *)
Lemma pruned_rows_match nix sh t a :
  nwf nix sh -> no_arr nix = true -> in_range sh t ->
  match_all (rows (prune_indices nix sh)) t = matches nix t a.
Proof.
  intros Hwf Ha Ht. rewrite prune_indices_eq by assumption.
  pose proof (nwf_filter nix sh Hwf) as Hwf'. pose proof (filter_not_none_all nix) as Hn.
  pose proof (no_arr_filter nix Ha) as Ha'.
  rewrite prune'_match by assumption. rewrite (rows_match _ sh t a) by assumption. apply matches_filter.
Qed.

Lemma adv_of_no_arr l : forall k, no_arr l = true -> adv_of k l = [].
Proof.
  induction l as [|e r IH]; intros k H; [reflexivity|]. simpl in H. apply andb_true_iff in H. destruct H as [He Hr].
  destruct e; try discriminate; simpl; apply IH; assumption.
Qed.

(* ================================================================ from a selection to the result array *)

Lemma NoDup_map_inj_in {A B} (f : A -> B) l :
  NoDup l -> (forall x y, In x l -> In y l -> f x = f y -> x = y) -> NoDup (map f l).
Proof.
  induction 1 as [|a l Ha Hnd IH]; intros Hinj; simpl; constructor.
  - intros Hin. apply in_map_iff in Hin. destruct Hin as [y [Hy Hyl]].
    assert (a = y) by (apply Hinj; [left; reflexivity|right; assumption|symmetry; assumption]). subst. contradiction.
  - apply IH. intros x y Hx Hy. apply Hinj; right; assumption.
Qed.

Lemma advc_no_arr nix : forall j, n_arr nix = 0%nat -> advc nix j = 0.
Proof.
  induction nix as [|e r IH]; intros j H; [reflexivity|].
  destruct e; unfold n_arr in *; cbn [filter is_narr length] in H; cbn [advc]; try (apply IH; assumption). discriminate.
Qed.

Lemma in_combine_nth {A B} (l1 : list A) (l2 : list B) a b da db :
  length l1 = length l2 ->
  (In (a, b) (combine l1 l2) <-> exists p, (p < length l1)%nat /\ nth p l1 da = a /\ nth p l2 db = b).
Proof.
  revert l2. induction l1 as [|x l1 IH]; intros [|y l2] Hlen; try discriminate.
  - simpl. split; [tauto|intros [p [Hp _]]; lia].
  - simpl in Hlen. simpl. rewrite (IH l2) by lia. split.
    + intros [H|[p [Hp [H1 H2]]]].
      * inversion H; subst. exists 0%nat. repeat split; lia.
      * exists (S p). repeat split; try lia; assumption.
    + intros [[|p] [Hp [H1 H2]]].
      * left. congruence.
      * right. exists p. repeat split; try lia; assumption.
Qed.

Section Final.
  Variable V : Type.
  Variable x : coo V.
  Variable nix : list nentry.
  Let sh := c_shape x.
  Let pts := c_coords x.
  Let n := length pts.
  Let rs := map to_r nix.
  Hypothesis Hcan : canonical V x.
  Hypothesis Hwf : nwf nix sh.
  Hypothesis Harr : arrs_ok nix.

  Variable m : list (nat * Z).
  Hypothesis Hm_nodup : NoDup m.
  Hypothesis Hm_mem : forall p a,
    In (p, a) m <-> (p < n)%nat /\ matches nix (pt pts p) a = true /\ (n_arr nix = 0%nat -> a = 0).

  Definition sel_entry (pa : nat * Z) : idx * V :=
    (build nix false (nth (fst pa) pts []) (snd pa), nth (fst pa) (c_data x) (c_fill x)).
  Definition sel_entries : list (idx * V) := map sel_entry m.

  Lemma pts_nodup : NoDup pts.
  Proof. destruct Hcan as [_ [Hs _]]. apply SS_lex_NoDup. exact Hs. Qed.

  Lemma pts_len : length (c_data x) = n.
  Proof. destruct Hcan as [_ [_ Hl]]. exact Hl. Qed.

  Lemma entries_x t v :
    In (t, v) (entries x) <-> exists p, (p < n)%nat /\ pt pts p = t /\ nth p (c_data x) (c_fill x) = v.
  Proof.
    unfold entries. apply in_combine_nth. fold pts. rewrite pts_len. reflexivity.
  Qed.

  Lemma sel_keys_in_range k : In k (map fst sel_entries) -> in_range (out_shape rs) k.
  Proof.
    intros H. unfold sel_entries in H. rewrite map_map in H. apply in_map_iff in H.
    destruct H as [[p a] [<- Hin]]. apply Hm_mem in Hin. destruct Hin as [Hp [Hmt _]].
    apply (build_src nix sh false _ a Hwf Hmt).
  Qed.

  Lemma sel_spec j v :
    in_range (out_shape rs) j -> (In (j, v) sel_entries <-> In (src_of rs j, v) (entries x)).
  Proof.
    intros Hj. split.
    - intros H. apply in_map_iff in H. destruct H as [[p a] [He Hin]]. unfold sel_entry in He. simpl in He.
      inversion He; subst j v. clear He. apply Hm_mem in Hin. destruct Hin as [Hp [Hmt _]].
      destruct (build_src nix sh false _ a Hwf Hmt) as [_ Hsrc]. cbn [opt_a] in Hsrc.
      unfold pt in Hsrc. unfold src_of, rs. rewrite Hsrc. apply entries_x. exists p. auto.
    - intros H. apply entries_x in H. destruct H as [p [Hp [Hpt Hv]]].
      destruct (src_build nix sh false j 0 Hwf Harr ltac:(discriminate) Hj) as [Hmt [Hb _]]. cbn [opt_a] in Hmt, Hb.
      fold rs in Hmt, Hb. change (src_aux None rs j) with (src_of rs j) in Hmt, Hb.
      apply in_map_iff. exists (p, advc nix j). split.
      + unfold sel_entry. simpl. fold (pt pts p). rewrite Hpt, Hb, Hv. reflexivity.
      + apply Hm_mem. rewrite Hpt. repeat split; auto. intros H0. apply advc_no_arr. assumption.
  Qed.

  Lemma sel_keys_nodup : NoDup (map fst sel_entries).
  Proof.
    unfold sel_entries. rewrite map_map. apply NoDup_map_inj_in; [exact Hm_nodup|].
    intros [p a] [p' a'] Hin Hin' He. simpl in He.
    apply Hm_mem in Hin, Hin'. destruct Hin as [Hp [Hmt Ha]], Hin' as [Hp' [Hmt' Ha']].
    destruct (build_src nix sh false _ a Hwf Hmt) as [_ Hs1].
    destruct (build_src nix sh false _ a' Hwf Hmt') as [_ Hs2]. cbn [opt_a] in Hs1, Hs2.
    fold (pt pts p) in He. fold (pt pts p') in He.
    assert (Hpp : pt pts p = pt pts p') by (rewrite <- Hs1, <- Hs2, He; reflexivity).
    assert (p = p').
    { unfold pt in Hpp. apply (proj1 (NoDup_nth pts []) pts_nodup); assumption. }
    subst p'. f_equal.
    destruct (Nat.eq_dec (n_arr nix) 0) as [E|E]; [rewrite Ha, Ha' by assumption; reflexivity|].
    rewrite <- (advc_build nix _ a E Hmt), <- (advc_build nix _ a' E Hmt'), He. reflexivity.
  Qed.

  (* any arrangement of the selected entries whose keys are strictly sorted is the canonical result *)
  Lemma result_den (es' : list (idx * V)) :
    Permutation sel_entries es' -> StronglySorted lex_lt (map fst es') ->
    let y := mkCOO (out_shape rs) (map fst es') (map snd es') (c_fill x) in
    canonical V y /\ (forall j, in_range (out_shape rs) j -> den y j = den x (src_of rs j))
    /\ (forall j v, in_range (out_shape rs) j -> (In (j, v) (entries y) <-> In (src_of rs j, v) (entries x))).
  Proof.
    intros Hperm Hss y.
    assert (Hcy : canonical V y).
    { unfold canonical, y. simpl. split; [|split; [assumption|rewrite !map_length; reflexivity]].
      apply Forall_forall. intros k Hk. apply sel_keys_in_range.
      eapply Permutation_in; [apply Permutation_sym, Permutation_map; exact Hperm|assumption]. }
    assert (Hey : entries y = es').
    { unfold entries, y. simpl. clear. induction es' as [|[a b] r IH]; simpl; congruence. }
    split; [assumption|]. split.
    2: { intros j v Hj. rewrite Hey. rewrite <- (sel_spec j v Hj). split; intros H.
         - eapply Permutation_in; [apply Permutation_sym; exact Hperm|exact H].
         - eapply Permutation_in; [exact Hperm|exact H]. }
    intros j Hj.
    destruct (in_dec (list_eq_dec Z.eq_dec) (src_of rs j) (c_coords x)) as [Hin|Hnin].
    - assert (exists v, In (src_of rs j, v) (entries x)) as [v Hv].
      { fold pts in Hin. apply (In_nth _ _ []) in Hin. destruct Hin as [p [Hp Hpt]].
        exists (nth p (c_data x) (c_fill x)). apply entries_x. exists p. auto. }
      rewrite (den_stored V x _ v Hcan Hv). apply den_stored; [assumption|].
      rewrite Hey. eapply Permutation_in; [exact Hperm|]. apply sel_spec; assumption.
    - rewrite (den_unstored V x _ Hnin). change (c_fill x) with (c_fill y). apply den_unstored.
      unfold y. simpl. intros Hk. apply in_map_iff in Hk. destruct Hk as [[k v] [Hkj Hkv]]. simpl in Hkj. subst k.
      apply (Permutation_in _ (Permutation_sym Hperm)) in Hkv. apply sel_spec in Hkv; [|assumption].
      apply Hnin. unfold entries in Hkv. apply in_combine_l in Hkv. exact Hkv.
  Qed.
End Final.

(* ================================================================ the constructor's sort *)

Lemma lex_total (a b : idx) : length a = length b -> a <> b -> lex_lt a b \/ lex_lt b a.
Proof.
  revert b. induction a as [|x a IH]; intros [|y b] Hl Hne; try discriminate; [congruence|].
  simpl in Hl. simpl. destruct (Z.lt_trichotomy x y) as [H|[H|H]]; [left; left; assumption| |right; left; assumption].
  subst y. destruct (IH b ltac:(lia) ltac:(congruence)) as [H|H]; [left|right]; right; auto.
Qed.

Section Sort.
  Variable V : Type.

  Lemma insert_perm (e : idx * V) l : Permutation (e :: l) (insert_entry e l).
  Proof.
    induction l as [|x r IH]; simpl; [reflexivity|].
    match goal with |- context [if ?c then _ else _] => destruct c end; [reflexivity|].
    etransitivity; [apply perm_swap|]. apply perm_skip. exact IH.
  Qed.

  Lemma sort_perm (l : list (idx * V)) : Permutation l (sort_entries l).
  Proof.
    induction l as [|e r IH]; simpl; [reflexivity|].
    etransitivity; [apply perm_skip; exact IH|]. apply insert_perm.
  Qed.

  Lemma insert_sorted (k : nat) (e : idx * V) l :
    length (fst e) = k -> Forall (fun y => length (fst y) = k) l ->
    ~ In (fst e) (map fst l) -> StronglySorted lex_lt (map fst l) ->
    StronglySorted lex_lt (map fst (insert_entry e l)).
  Proof.
    intros He. induction l as [|x r IH]; intros Hlen Hnin Hs.
    - simpl. constructor; constructor.
    - inversion Hlen as [|? ? Hx Hr]; subst. simpl in Hs. inversion Hs as [|? ? Hs' Hall]; subst.
      cbn [insert_entry].
      match goal with |- context [if ?c then _ else _] => destruct c eqn:E end.
      + apply lex_ltb_spec in E. simpl. constructor; [constructor; assumption|]. constructor; [assumption|].
        eapply Forall_impl; [|exact Hall]. intros a Ha. eapply lex_lt_trans; eauto.
      + simpl. constructor.
        * apply IH; [assumption|simpl in Hnin; tauto|assumption].
        * apply Forall_forall. intros y Hy.
          assert (Hy' : In y (map fst (e :: r))).
          { eapply Permutation_in; [apply Permutation_sym, Permutation_map, insert_perm|exact Hy]. }
          destruct Hy' as [<-|Hy'].
          -- destruct (lex_total (fst x) (fst e)) as [H|H]; [lia|simpl in Hnin; tauto|assumption|].
             apply lex_ltb_spec in H. exfalso. exact (eq_true_false_abs _ H E).
          -- rewrite Forall_forall in Hall. auto.
  Qed.

  Lemma sort_sorted (k : nat) (l : list (idx * V)) :
    Forall (fun y => length (fst y) = k) l -> NoDup (map fst l) ->
    StronglySorted lex_lt (map fst (sort_entries l)).
  Proof.
    induction l as [|e r IH]; intros Hlen Hnd; simpl; [constructor|].
    inversion Hlen as [|? ? He Hr]; subst. inversion Hnd as [|? ? Hnin Hnd']; subst.
    apply (insert_sorted (length (fst e))); [reflexivity| | |apply IH; assumption].
    - apply Forall_forall. intros y Hy. rewrite Forall_forall in Hr. apply Hr.
      eapply Permutation_in; [apply Permutation_sym, sort_perm|exact Hy].
    - intros Hin. apply Hnin. eapply Permutation_in; [apply Permutation_sym, Permutation_map, sort_perm|exact Hin].
  Qed.
End Sort.

(* ================================================================ the `sorted` flag *)

Definition nonneg_step (e : nentry) : bool := match e with NSlice _ _ st => negb (st <? 0) | _ => true end.

Lemma sorted_fold nix b :
  pv_bool (fold_left (fun acc e => match e with
                                  | NSlice s e' st => sv <- acc ;; s_sorted_step sv (slice_pv s e' st)
                                  | _ => acc end) nix (Ok (VBool b)))
  = b && forallb nonneg_step nix.
Proof.
  revert b. induction nix as [|e r IH]; intros b; [simpl; rewrite andb_true_r; reflexivity|].
  destruct e as [i|s e st| |l]; cbn [fold_left forallb nonneg_step]; try apply IH.
  unfold s_sorted_step, slice_pv. cbn. destruct (Z.ltb_spec st 0); cbn; rewrite IH; [rewrite andb_false_r|]; reflexivity.
Qed.

Lemma sorted_flag_none nix : sorted_flag nix None = forallb nonneg_step nix.
Proof. unfold sorted_flag, s_sorted_init. cbn. apply sorted_fold. Qed.

Lemma sorted_flag_adv nix q len :
  sorted_flag nix (Some (mkAdv (VInt q) len)) = (q =? 0) && forallb nonneg_step nix.
Proof. unfold sorted_flag, s_sorted_init. cbn. apply sorted_fold. Qed.

(* with non-negative steps the coordinate map is monotone on the selected elements (same a) *)
Lemma build_mono (nix : list nentry) : forall (sh : shape) (seen : bool) (t t' : idx) (a : Z),
  nwf nix sh -> forallb nonneg_step nix = true ->
  matches nix t a = true -> matches nix t' a = true -> lex_lt t t' ->
  lex_lt (build nix seen t a) (build nix seen t' a).
Proof.
  induction nix as [|e r IH]; intros sh seen t t' a Hwf Hp Hm Hm' Hlt.
  - destruct t; [destruct t'; [destruct Hlt|discriminate]|discriminate].
  - simpl in Hp. apply andb_true_iff in Hp. destruct Hp as [Hpe Hp].
    destruct e as [i|s e st| |l]; cbn [nwf matches] in Hwf, Hm, Hm'.
    + destruct sh as [|d sh']; [contradiction|]. destruct Hwf as [_ Hwf].
      destruct t as [|c t]; [discriminate|]. destruct t' as [|c' t']; [discriminate|].
      apply andb_true_iff in Hm, Hm'. destruct Hm as [Hc Hm], Hm' as [Hc' Hm'].
      cbn [build tl]. simpl in Hlt. destruct Hlt as [Hlt|[_ Hlt]]; [lia|]. eapply IH; eauto.
    + destruct sh as [|d sh']; [contradiction|]. destruct Hwf as [Hst [_ Hwf]].
      destruct t as [|c t]; [discriminate|]. destruct t' as [|c' t']; [discriminate|].
      apply andb_true_iff in Hm, Hm'. destruct Hm as [Hc Hm], Hm' as [Hc' Hm'].
      cbn [build tl hd]. rewrite !coord_map_spec by assumption.
      destruct (in_row_index s e st c Hst Hc) as [_ Hq]. destruct (in_row_index s e st c' Hst Hc') as [_ Hq'].
      simpl in Hpe. assert (0 < st) by lia.
      simpl in Hlt. destruct Hlt as [Hlt|[-> Hlt]].
      * left. nia.
      * right. split; [reflexivity|]. eapply IH; eauto.
    + cbn [build]. right. split; [reflexivity|]. eapply IH; eauto.
    + destruct sh as [|d sh']; [contradiction|]. destruct Hwf as [_ Hwf].
      destruct t as [|c t]; [discriminate|]. destruct t' as [|c' t']; [discriminate|].
      apply andb_true_iff in Hm, Hm'. destruct Hm as [Hc Hm], Hm' as [Hc' Hm'].
      apply andb_true_iff in Hc, Hc'. destruct Hc as [_ Hc], Hc' as [_ Hc'].
      simpl in Hlt. destruct Hlt as [Hlt|[_ Hlt]]; [lia|].
      cbn [build tl]. destruct seen.
      * eapply IH; eauto.
      * right. split; [reflexivity|]. eapply IH; eauto.
Qed.

Lemma SS_map_lt {B} (R : B -> B -> Prop) (f : nat -> B) l :
  StronglySorted lt l -> (forall p q, In p l -> In q l -> (p < q)%nat -> R (f p) (f q)) ->
  StronglySorted R (map f l).
Proof.
  induction 1 as [|a l Hs IH Hall]; intros Hf; simpl; constructor.
  - apply IH. intros p q Hp Hq. apply Hf; right; assumption.
  - apply Forall_forall. intros y Hy. apply in_map_iff in Hy. destruct Hy as [q [<- Hq]].
    rewrite Forall_forall in Hall. apply Hf; [left; reflexivity|right; assumption|auto].
Qed.

(* ================================================================ getitem, basic indices *)

Definition basic (ix : index) : bool := forallb (fun e => negb (is_iarr e)) ix.

Lemma build_shape_eq nix : forall sh seen alen,
  nwf nix sh -> (forall l, In (NArr l) nix -> alen = Z.of_nat (length l)) ->
  build_shape nix seen alen = out_shape_aux seen (map to_r nix).
Proof.
  induction nix as [|e r IH]; intros sh seen alen Hwf Hl; [reflexivity|].
  assert (Hl' : forall l, In (NArr l) r -> alen = Z.of_nat (length l)) by (intros; apply Hl; right; assumption).
  destruct e as [i|s e st| |l]; cbn [nwf] in Hwf; cbn [build_shape map to_r out_shape_aux].
  - destruct sh as [|d sh']; [contradiction|]. destruct Hwf as [_ Hwf]. apply (IH sh'); assumption.
  - destruct sh as [|d sh']; [contradiction|]. destruct Hwf as [Hst [_ Hwf]].
    rewrite slice_len_spec, len_range_list by assumption. f_equal. apply (IH sh'); assumption.
  - f_equal. apply (IH sh); assumption.
  - destruct sh as [|d sh']; [contradiction|]. destruct Hwf as [_ Hwf]. rewrite <- (Hl l (or_introl eq_refl)).
    destruct seen; [apply (IH sh'); assumption|f_equal; apply (IH sh'); assumption].
Qed.

Lemma range_full d : 0 <= d -> range_len 0 d 1 = d.
Proof.
  intros Hd. unfold range_len. simpl. destruct (Z.ltb_spec 0 d); [|lia]. rewrite Z.div_1_r. lia.
Qed.

(* x[:, :, ...] returns x itself: NumPy's result is x *)
Lemma all_full_id nix : forall sh,
  shape_okb sh = true ->
  forallb (fun p : nentry * Z => match fst p with
                                 | NSlice s e st => (s =? 0) && (e =? snd p) && (st =? 1)
                                 | _ => false end) (combine nix sh) = true ->
  length nix = length sh ->
  out_shape (map to_r nix) = sh /\ forall j, in_range sh j -> src_of (map to_r nix) j = j.
Proof.
  unfold out_shape, src_of.
  induction nix as [|e r IH]; intros [|d sh] Hsh Hf Hlen; try discriminate.
  - split; [reflexivity|]. intros [|? ?]; simpl; tauto.
  - simpl in Hsh, Hf, Hlen. apply andb_true_iff in Hsh, Hf. destruct Hsh as [Hd Hsh], Hf as [He Hf].
    destruct e as [i|s e st| |l]; try discriminate.
    assert (s = 0 /\ e = d /\ st = 1) as (-> & -> & ->) by lia.
    destruct (IH sh Hsh Hf ltac:(lia)) as [H1 H2].
    cbn [map to_r out_shape_aux src_aux]. rewrite H1.
    split.
    + rewrite len_range_list by lia. rewrite range_full by lia. reflexivity.
    + intros [|q j]; [simpl; tauto|]. cbn [in_range hd tl]. intros [Hq Hj]. rewrite H2 by assumption.
      rewrite range_list_zat by (rewrite range_full; lia). f_equal. lia.
Qed.

Lemma basic_expand nd ix ex : expand nd ix = Ok ex -> basic ix = true -> basic ex = true.
Proof.
  unfold expand. destruct (1 <? countb is_ell ix); [discriminate|].
  destruct (nd - countb consumes ix <? 0); [discriminate|]. intros H Hb. inversion H; subst ex. clear H.
  unfold basic in *. rewrite forallb_forall in *.
  assert (Hfull : forall e k, In e (repeat full_slice k) -> e = full_slice) by (intros e k Hin; eapply repeat_spec; eauto).
  intros e He. destruct (0 <? countb is_ell ix).
  - apply subst_In in He. destruct He as [He|He]; [rewrite (Hfull _ _ He); reflexivity|auto].
  - apply in_app_iff in He. destruct He as [He|He]; [auto|rewrite (Hfull _ _ He); reflexivity].
Qed.

Lemma basic_bool_ok ex : forall sh, basic ex = true -> bool_ok ex sh = true.
Proof.
  induction ex as [|e r IH]; intros sh H; [reflexivity|]. simpl in H. apply andb_true_iff in H. destruct H as [He Hr].
  destruct e; try discriminate; cbn [bool_ok]; try (destruct sh; [reflexivity|]); cbn [andb]; auto.
Qed.

Lemma basic_norm_no_arr ex : forall sh, basic ex = true -> no_arr (norm_all ex sh) = true.
Proof.
  induction ex as [|e r IH]; intros sh H; [reflexivity|]. simpl in H. apply andb_true_iff in H. destruct H as [He Hr].
  destruct e; try discriminate; cbn [norm_all]; try (destruct sh; [reflexivity|]); cbn [no_arr forallb nentry_spec]; try (apply IH; assumption).
  unfold nslice_of. destruct (normalize_slice _ _) as [[]|]; try (apply IH; assumption).
  destruct a0; try (apply IH; assumption). destruct b0; try (apply IH; assumption). destruct c0; try (apply IH; assumption).
Qed.

Lemma no_arr_n_arr nix : no_arr nix = true -> n_arr nix = 0%nat.
Proof.
  unfold n_arr. induction nix as [|e r IH]; intros H; [reflexivity|]. simpl in H. apply andb_true_iff in H.
  destruct H as [He Hr]. simpl. destruct (is_narr e); [discriminate|auto].
Qed.

Lemma stretch_no_adv n rs : (forall l, ~ In (RAdv l) rs) -> map (stretch n) rs = rs.
Proof.
  induction rs as [|r rs IH]; intros H; [reflexivity|]. simpl. rewrite IH by (intros l Hl; apply (H l); right; assumption).
  destruct r; try reflexivity. exfalso. apply (H l). left. reflexivity.
Qed.

Lemma adv_lens_no_adv rs : (forall l, ~ In (RAdv l) rs) -> adv_lens rs = [].
Proof.
  induction rs as [|r rs IH]; intros H; [reflexivity|]. simpl. rewrite IH by (intros l Hl; apply (H l); right; assumption).
  destruct r; try reflexivity. exfalso. apply (H l). left. reflexivity.
Qed.

Lemma to_r_no_adv nix : no_arr nix = true -> forall l, ~ In (RAdv l) (map to_r nix).
Proof.
  intros H l Hin. apply in_map_iff in Hin. destruct Hin as [e [He Hin]]. unfold no_arr in H. rewrite forallb_forall in H.
  specialize (H e Hin). destruct e; try discriminate.
Qed.

Lemma prune'_incl l : forall sh e, In e (prune' l sh) -> In e l.
Proof.
  induction l as [|x r IH]; intros sh e H; [destruct sh; exact H|]. destruct sh as [|d sh']; [exact H|].
  cbn [prune'] in H. destruct (prune' r sh') as [|y r'] eqn:E.
  - destruct (is_full x d); [destruct H|]. destruct H as [<-|[]]. left. reflexivity.
  - destruct H as [<-|H]; [left; reflexivity|]. right. apply (IH sh'). rewrite E. exact H.
Qed.

Lemma prune'_length l : forall sh, (length (prune' l sh) <= length l)%nat.
Proof.
  induction l as [|x r IH]; intros sh; [destruct sh; simpl; lia|]. destruct sh as [|d sh']; [simpl; lia|].
  cbn [prune']. specialize (IH sh'). destruct (prune' r sh') as [|y r'].
  - destruct (is_full x d); simpl; lia.
  - simpl in *. lia.
Qed.

Lemma nwf_steps nix : forall sh s e st, nwf nix sh -> In (NSlice s e st) nix -> st <> 0.
Proof.
  induction nix as [|x r IH]; intros sh s e st Hwf Hin; [destruct Hin|].
  destruct Hin as [->|Hin].
  - cbn [nwf] in Hwf. destruct sh; [contradiction|]. tauto.
  - destruct x; cbn [nwf] in Hwf.
    + destruct sh as [|d sh']; [contradiction|]. destruct Hwf as [_ Hwf]. apply (IH sh' s e st Hwf Hin).
    + destruct sh as [|d sh']; [contradiction|]. destruct Hwf as [_ [_ Hwf]]. apply (IH sh' s e st Hwf Hin).
    + apply (IH sh s e st Hwf Hin).
    + destruct sh as [|d sh']; [contradiction|]. destruct Hwf as [_ Hwf]. apply (IH sh' s e st Hwf Hin).
Qed.

Lemma rows_ok l : (forall s e st, In (NSlice s e st) l -> st <> 0) -> Forall row_ok (rows l).
Proof.
  induction l as [|x r IH]; intros H; [constructor|]. rewrite rows_cons. apply Forall_app. split.
  - destruct x as [i|s e st| |l]; cbn [triple_of].
    + constructor; [unfold row_ok, step_of; cbn [snd]; lia|constructor].
    + constructor; [|constructor]. unfold row_ok, step_of. cbn [snd]. eapply H. left. reflexivity.
    + constructor.
    + constructor.
  - apply IH. intros. eapply H. right. eassumption.
Qed.

Lemma rows_length l : (length (rows l) <= length l)%nat.
Proof. induction l as [|x r IH]; [simpl; lia|]. rewrite rows_cons, app_length. destruct x; simpl in *; lia. Qed.

Lemma rows_pos l : forallb nonneg_step l = true -> (forall s e st, In (NSlice s e st) l -> st <> 0) ->
  Forall (fun t => 0 < step_of t) (rows l).
Proof.
  induction l as [|x r IH]; intros Hp H; [constructor|]. simpl in Hp. apply andb_true_iff in Hp. destruct Hp as [Hx Hp].
  rewrite rows_cons. apply Forall_app. split.
  - destruct x as [i|s e st| |l]; cbn [triple_of].
    + constructor; [unfold step_of; cbn [snd]; lia|constructor].
    + constructor; [|constructor]. unfold step_of. cbn [snd].
      cbn [nonneg_step] in Hx. specialize (H s e st (or_introl eq_refl)).
      destruct (Z.ltb_spec st 0); [discriminate|]. lia.
    + constructor.
    + constructor.
  - apply IH; [assumption|]. intros. eapply H. right. eassumption.
Qed.

Lemma forallb_incl {A} (p : A -> bool) l1 l2 : (forall a, In a l1 -> In a l2) -> forallb p l2 = true -> forallb p l1 = true.
Proof. rewrite !forallb_forall. auto. Qed.

Lemma np_index_eq sh ix :
  np_index sh ix = (rs <- resolve_all sh ix ;; rs' <- broadcast rs ;; Ok (out_shape rs', src_of rs')).
Proof. unfold np_index, resolve_all. destruct (expand _ ix); reflexivity. Qed.

Lemma in_firstn {A} (x : A) k l : In x (firstn k l) -> In x l.
Proof.
  revert l. induction k as [|k IH]; intros [|a l]; simpl; try tauto. intros [->|H]; [left; reflexivity|right; auto].
Qed.

Lemma nil_keys_sorted (l : list idx) : (forall k, In k l -> k = []) -> NoDup l -> StronglySorted lex_lt l.
Proof.
  intros Hk Hnd. destruct l as [|a [|b r]]; [constructor|constructor; constructor|].
  exfalso. inversion Hnd as [|? ? Hn _]; subst. apply Hn.
  rewrite (Hk a (or_introl eq_refl)), (Hk b (or_intror (or_introl eq_refl))). left. reflexivity.
Qed.

Lemma in_range_nil j : in_range [] j -> j = [].
Proof. destruct j; simpl; tauto. Qed.

Lemma all_full_true nix sh : all_full nix sh = true ->
  length nix = length sh /\
  forallb (fun p : nentry * Z => match fst p with
                                 | NSlice s e st => (s =? 0) && (e =? snd p) && (st =? 1)
                                 | _ => false end) (combine nix sh) = true.
Proof.
  unfold all_full. destruct nix; [discriminate|]. intros H. apply andb_true_iff in H. destruct H as [El Ef].
  apply Nat.eqb_eq in El. auto.
Qed.

Lemma in_seq0 p n : In p (seq 0 n) <-> (p < n)%nat.
Proof. rewrite in_seq. lia. Qed.

Lemma pt_in_range pts sh p : Forall (in_range sh) pts -> (p < length pts)%nat -> in_range sh (pt pts p).
Proof. intros H Hp. rewrite Forall_forall in H. apply H. apply nth_In. exact Hp. Qed.

Section GetitemBasic.
  Variable V : Type.

  Theorem coo_getitem_basic_strong (kf : nat -> nat) (x : coo V) (ix : index) :
    canonical V x -> shape_okb (c_shape x) = true -> no_zero_step ix = true -> basic ix = true ->
    match np_index (c_shape x) ix with
    | Raise e => getitem kf x ix = Raise e /\ e = IndexError
    | Ok (sh', g) =>
      match getitem kf x ix with
      | Ok (GArr y) => c_shape y = sh' /\ c_fill y = c_fill x /\ canonical V y
                       /\ (forall j, in_range sh' j -> den y j = den x (g j))
                       /\ (forall j v, in_range sh' j -> (In (j, v) (entries y) <-> In (g j, v) (entries x)))
      | Ok (GScalar v) => sh' = [] /\ v = den x (g [])
      | Raise _ => False
      end
    end.
  Proof.
    intros Hcan Hsh Hz Hb. set (sh := c_shape x) in *.
    assert (Hd : d29_clause sh ix = true).
    { unfold d29_clause. destruct (expand (Z.of_nat (length sh)) ix) as [ex|] eqn:E; [|reflexivity].
      apply basic_bool_ok. eapply basic_expand; eauto. }
    rewrite np_index_eq.
    destruct (normalize_link sh ix Hsh Hz Hd) as [[ex [E [Hf [Ha [Hn Hr]]]]]|[Hn Hr]].
    2: { rewrite Hr. cbn [bind]. unfold getitem. fold sh. rewrite Hn. auto. }
    set (nix := norm_all ex sh) in *.
    assert (Hwf : nwf nix sh) by (apply norm_all_nwf; auto; eapply expand_nzs; eauto).
    assert (Hna : no_arr nix = true) by (apply basic_norm_no_arr; eapply basic_expand; eauto).
    assert (Hn0 : n_arr nix = 0%nat) by (apply no_arr_n_arr; assumption).
    assert (Harr : arrs_ok nix).
    { intros l l' Hl _. exfalso. unfold no_arr in Hna. rewrite forallb_forall in Hna. specialize (Hna _ Hl). discriminate. }
    rewrite Hr. cbn [bind]. unfold broadcast. rewrite (adv_lens_no_adv _ (to_r_no_adv nix Hna)). cbn [bcast_len fold_right forallb bind].
    rewrite (stretch_no_adv _ _ (to_r_no_adv nix Hna)). set (rs := map to_r nix).
    unfold getitem. fold sh. rewrite Hn. cbn [bind].
    destruct (all_full nix sh) eqn:Eaf.
    - (* x itself *)
      destruct (all_full_true nix sh Eaf) as [El Ef].
      destruct (all_full_id nix sh Hsh Ef El) as [H1 H2]. fold rs in H1, H2.
      split; [symmetry; exact H1|]. split; [reflexivity|]. split; [exact Hcan|]. split.
      + intros j Hj. rewrite H2; [reflexivity|]. rewrite <- H1. exact Hj.
      + intros j v Hj. rewrite H2; [reflexivity|]. rewrite <- H1. exact Hj.
    - (* the mask *)
      pose proof Hcan as [Hrange [Hsorted Hlen]].
      set (pts := c_coords x) in *. set (inds := flat_map triple_of (prune_indices nix sh)).
      assert (Hpr : prune_indices nix sh = prune' (filter not_none nix) sh) by (apply prune_indices_eq; assumption).
      assert (Hpna : no_arr (prune_indices nix sh) = true) by (rewrite Hpr; apply prune'_no_arr, no_arr_filter; assumption).
      unfold mask_of. rewrite (adv_of_no_arr _ 0 Hpna). cbn [bind]. fold inds.
      set (mp := mask_pos (kf 0%nat) pts inds).
      assert (Hincl : forall e, In e (prune_indices nix sh) -> In e nix).
      { intros e He. rewrite Hpr in He. apply prune'_incl in He. apply filter_In in He. tauto. }
      assert (Hsteps : forall s e st, In (NSlice s e st) (prune_indices nix sh) -> st <> 0).
      { intros s e st Hin. eapply nwf_steps; [exact Hwf|]. apply Hincl. exact Hin. }
      assert (Hok : Forall row_ok inds) by (apply rows_ok; assumption).
      assert (Hptlen : forall j, (j < length pts)%nat -> length (pt pts j) = length sh).
      { intros j Hj. apply in_range_length. apply (pt_in_range pts sh j Hrange Hj). }
      assert (Hlong : points_long pts (length inds)).
      { intros j Hj. rewrite (Hptlen j Hj). unfold inds. etransitivity; [apply rows_length|]. rewrite Hpr.
        etransitivity; [apply prune'_length|]. rewrite (nwf_length _ sh (nwf_filter _ _ Hwf) (filter_not_none_all nix)). apply Nat.le_refl. }
      destruct (mask_strategy_irrelevant_proof pts Hsorted inds Hok Hlong (kf 0%nat)) as [Hnd [Hmem Heq]].
      fold mp in Hnd, Hmem, Heq.
      set (m := map (fun p : nat => (p, 0)) mp).
      assert (Hm_nodup : NoDup m).
      { unfold m. apply NoDup_map_inj_in; [assumption|]. intros a b _ _ H. inversion H. reflexivity. }
      assert (Hm_mem : forall p a, In (p, a) m <->
                 (p < length pts)%nat /\ matches nix (pt pts p) a = true /\ (n_arr nix = 0%nat -> a = 0)).
      { intros p a. unfold m. rewrite in_map_iff. split.
        - intros [q [Hq Hin]]. inversion Hq; subst q a. apply Hmem in Hin. unfold mask_spec in Hin.
          apply filter_In in Hin. destruct Hin as [Hp Hma]. apply in_seq0 in Hp. split; [exact Hp|]. split; [|reflexivity].
          rewrite <- (pruned_rows_match nix sh _ 0 Hwf Hna); [exact Hma|].
          apply (pt_in_range pts sh p Hrange Hp).
        - intros [Hp [Hma Ha0]]. rewrite (Ha0 Hn0) in *. exists p. split; [reflexivity|]. apply Hmem. unfold mask_spec.
          apply filter_In. split; [apply in_seq0; exact Hp|].
          rewrite (pruned_rows_match nix sh _ 0 Hwf Hna); [exact Hma|].
          apply (pt_in_range pts sh p Hrange Hp). }
      assert (Hes : map (fun pa : nat * Z => (build nix false (nth (fst pa) pts []) (snd pa),
                                              nth (fst pa) (c_data x) (c_fill x))) m
                    = sel_entries V x nix m) by reflexivity.
      rewrite Hes. rewrite (build_shape_eq nix sh false 0 Hwf)
        by (intros l Hl; exfalso; unfold no_arr in Hna; rewrite forallb_forall in Hna; specialize (Hna _ Hl); discriminate).
      fold rs. change (out_shape_aux false rs) with (out_shape rs).
      pose proof (sel_keys_nodup V x nix Hcan Hwf m Hm_nodup Hm_mem) as Hknd.
      pose proof (sel_keys_in_range V x nix Hwf m Hm_mem) as Hkr. fold rs in Hkr.
      destruct (out_shape rs) as [|d0 osh] eqn:Eos.
      + (* 0-d result *)
        assert (Hknil : forall k, In k (map fst (sel_entries V x nix m)) -> k = []) by (intros k Hk; apply in_range_nil, Hkr, Hk).
        destruct (last_is_ellipsis ix).
        * destruct (result_den V x nix Hcan Hwf Harr m Hm_mem (sel_entries V x nix m) (Permutation_refl _)
                      (nil_keys_sorted _ Hknil Hknd)) as [Hc [Hden Hent]].
          fold rs in Hc, Hden. rewrite Eos in Hc, Hden.
          fold rs in Hent. rewrite Eos in Hent.
          split; [reflexivity|]. split; [reflexivity|]. split; [exact Hc|]. split; [exact Hden|exact Hent].
        * destruct (sel_entries V x nix m) as [|[k v] r] eqn:Ese.
          -- split; [reflexivity|]. symmetry. apply den_unstored. intros Hin.
             assert (exists v, In (src_of rs [], v) (entries x)) as [v Hv].
             { apply (In_nth _ _ []) in Hin. destruct Hin as [p [Hp Hpt]].
               exists (nth p (c_data x) (c_fill x)). apply (entries_x V x Hcan). exists p. auto. }
             apply (sel_spec V x nix Hcan Hwf Harr m Hm_mem) in Hv; [|fold rs; rewrite Eos; exact I].
             rewrite Ese in Hv. destruct Hv.
          -- split; [reflexivity|]. symmetry. apply den_stored; [assumption|].
             assert (Hk : k = []) by (apply Hknil; left; reflexivity). subst k.
             apply (sel_spec V x nix Hcan Hwf Harr m Hm_mem); [fold rs; rewrite Eos; exact I|]. rewrite Ese. left. reflexivity.
      + (* an array *)
        unfold coo_make. rewrite sorted_flag_none.
        destruct (forallb nonneg_step nix) eqn:Epos.
        * (* sorted = True is justified: the selected entries are already in order *)
          assert (Hposr : Forall (fun t => 0 < step_of t) (firstn (kf 0%nat) inds)).
          { apply Forall_forall. intros t Ht. apply in_firstn in Ht. revert t Ht. apply Forall_forall.
            apply rows_pos; [|assumption]. eapply forallb_incl; [exact Hincl|exact Epos]. }
          specialize (Heq Hposr).
          assert (Hss : StronglySorted lex_lt (map fst (sel_entries V x nix m))).
          { unfold sel_entries, m. rewrite !map_map. cbn [sel_entry fst snd]. unfold mp, mask_pos. rewrite Heq. unfold mask_spec.
            apply SS_map_lt; [apply SS_filter, SS_seq|]. intros p q Hp Hq Hpq.
            apply filter_In in Hp, Hq. destruct Hp as [Hp Hmp], Hq as [Hq Hmq]. apply in_seq0 in Hp, Hq.
            pose proof (pt_in_range pts sh p Hrange Hp) as Hrp. pose proof (pt_in_range pts sh q Hrange Hq) as Hrq.
            unfold inds, rows in Hmp, Hmq. fold (rows (prune_indices nix sh)) in Hmp, Hmq.
            rewrite (pruned_rows_match nix sh _ 0 Hwf Hna Hrp) in Hmp.
            rewrite (pruned_rows_match nix sh _ 0 Hwf Hna Hrq) in Hmq.
            apply (build_mono nix sh false _ _ 0 Hwf Epos Hmp Hmq). apply pts_lex; assumption. }
          destruct (result_den V x nix Hcan Hwf Harr m Hm_mem _ (Permutation_refl _) Hss) as [Hc [Hden Hent]].
          fold rs in Hc, Hden. rewrite Eos in Hc, Hden.
          fold rs in Hent. rewrite Eos in Hent.
          split; [reflexivity|]. split; [reflexivity|]. split; [exact Hc|]. split; [exact Hden|exact Hent].
        * (* sorted = False: the constructor sorts *)
          assert (Hss : StronglySorted lex_lt (map fst (sort_entries (sel_entries V x nix m)))).
          { apply (sort_sorted V (length (d0 :: osh))); [|assumption].
            apply Forall_forall. intros y Hy. apply (in_range_length (d0 :: osh) (fst y)).
            apply (Hkr (fst y)). apply in_map. exact Hy. }
          destruct (result_den V x nix Hcan Hwf Harr m Hm_mem _ (sort_perm V _) Hss) as [Hc [Hden Hent]].
          fold rs in Hc, Hden. rewrite Eos in Hc, Hden.
          fold rs in Hent. rewrite Eos in Hent.
          split; [reflexivity|]. split; [reflexivity|]. split; [exact Hc|]. split; [exact Hden|exact Hent].
  Qed.

  Theorem coo_getitem_basic_proof (kf : nat -> nat) (x : coo V) (ix : index) :
    canonical V x -> shape_okb (c_shape x) = true -> no_zero_step ix = true -> basic ix = true ->
    match np_index (c_shape x) ix with
    | Raise e => getitem kf x ix = Raise e /\ e = IndexError
    | Ok (sh', g) =>
      match getitem kf x ix with
      | Ok (GArr y) => c_shape y = sh' /\ c_fill y = c_fill x /\ canonical V y
                       /\ forall j, in_range sh' j -> den y j = den x (g j)
      | Ok (GScalar v) => sh' = [] /\ v = den x (g [])
      | Raise _ => False
      end
    end.
  Proof.
    intros Hcan Hsh Hz Hb. pose proof (coo_getitem_basic_strong kf x ix Hcan Hsh Hz Hb) as H.
    destruct (np_index (c_shape x) ix) as [[sh' g]|e]; [|exact H].
    destruct (getitem kf x ix) as [[v|y]|e]; [exact H| |exact H]. tauto.
  Qed.
End GetitemBasic.

(* non-vacuity of coo_getitem_basic_proof: a 2x3 array with fill 7, x[-1, ::-2, None] *)
Example getitem_basic_nonvacuous :
  let x := mkCOO [2; 3] [[0; 1]; [1; 0]; [1; 2]] [10; 20; 30] 7 in
  let ix := [IInt (-1); ISlice None None (Some (-2)); INone] in
  canonical Z x /\ shape_okb (c_shape x) = true /\ no_zero_step ix = true /\ basic ix = true
  /\ getitem (fun _ => 1%nat) x ix = Ok (GArr (mkCOO [2; 1] [[0; 0]; [1; 0]] [30; 20] 7))
  /\ (match np_index [2; 3] ix with Ok (sh', g) => sh' = [2; 1] /\ map g (all_indices sh') = [[1; 2]; [1; 0]] | _ => False end).
Proof.
  cbv zeta. split; [apply canonicalb_spec; reflexivity|]. repeat split.
Qed.
